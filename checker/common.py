import sys, os, json, subprocess, time, re, glob, fcntl, shutil, hashlib

ROOT = os.path.dirname(os.path.dirname(os.path.abspath(__file__)))
COQ = os.path.join(ROOT, "coq")
HARNESS = os.path.join(ROOT, "harness")
BUILD = os.path.join(ROOT, ".build")
REPO = os.environ.get("VERIF_REPO", "/repo")
RUNDIR = os.path.join(BUILD, "run" if REPO == "/repo" else "run_scratch")
GOENV = dict(GOWORK="off", GOFLAGS="-mod=mod", GOPROXY="off", GOSUMDB="off", GOTOOLCHAIN="local")
COQFLAGS = ["-Q", os.path.join(COQ, "Model"), "Model", "-Q", os.path.join(COQ, "Proofs"), "Proofs",
            "-Q", os.path.join(COQ, "Properties"), "Properties"]
ALLOWED_AXIOMS = {
    # axioms the standard library itself declares; each must also be named in DESIGN.md section 8
    "functional_extensionality_dep", "proof_irrelevance", "classic", "JMeq_eq", "eq_rect_eq",
    "Eqdep.Eq_rect_eq.eq_rect_eq", "FunctionalExtensionality.functional_extensionality_dep",
}
FORBIDDEN = re.compile(r"\b(Admitted|admit|Axiom|Axioms|Parameter|Parameters|Conjecture|Conjectures|"
                       r"Unset\s+Guard|bypass_check|Admit\s+Obligations|Unset\s+Universe\s+Checking|"
                       r"Unset\s+Positivity|type-in-type|impredicative-set)\b")

TRUSTED_BASE = [
    "Coq 8.16.1 kernel (coqc; vm_compute used for the model evaluation of the correspondence and for finite Examples; no native_compute)",
    "std++ 1.8.0 and the Coq standard library as compiled on this image",
    "the hand-written Gallina model in coq/Model (tied to /repo only by the differential correspondence of this run)",
    "the Go harness (harness/): environment construction on in-memory IAVL stores, generators, observation printer, monitors",
    "Cosmos SDK store/auth/bank, CometBFT, connect, Go runtime: executed by the harness, not verified",
    "baseapp transactionality reproduced by CacheContext+recover per message",
]


class Internal(Exception):
    pass


def sh(cmd, cwd=None, env=None, timeout=3600, input=None):
    e = dict(os.environ)
    if env:
        e.update(env)
    p = subprocess.run(cmd, cwd=cwd, env=e, stdout=subprocess.PIPE, stderr=subprocess.STDOUT,
                       timeout=timeout, text=True, input=input)
    return p.returncode, p.stdout


class Lock:
    def __init__(self, name):
        os.makedirs(BUILD, exist_ok=True)
        self.path = os.path.join(BUILD, name)

    def __enter__(self):
        self.f = open(self.path, "w")
        fcntl.flock(self.f, fcntl.LOCK_EX)
        return self

    def __exit__(self, *a):
        fcntl.flock(self.f, fcntl.LOCK_UN)
        self.f.close()


def coq_sources():
    return sorted(glob.glob(os.path.join(COQ, "Model", "*.v")) + glob.glob(os.path.join(COQ, "Proofs", "*.v")) +
                  glob.glob(os.path.join(COQ, "Properties", "*.v")))


def grep_forbidden():
    hits = []
    for f in coq_sources():
        txt = open(f).read()
        # strip comments (non-nested is enough for our sources; nested handled by a small loop)
        prev = None
        while prev != txt:
            prev = txt
            txt = re.sub(r"\(\*[^*]*?(?:\*(?!\))[^*]*?)*\*\)", " ", txt, flags=re.S)
        for m in FORBIDDEN.finditer(txt):
            hits.append("%s: %s" % (os.path.relpath(f, ROOT), m.group(0)))
    return hits


def ensure_makefile():
    files = [os.path.relpath(f, COQ) for f in coq_sources()]
    proj = "-Q Model Model\n-Q Proofs Proofs\n-Q Properties Properties\n" + "\n".join(files) + "\n"
    pp = os.path.join(COQ, "_CoqProject")
    if not os.path.exists(pp) or open(pp).read() != proj:
        open(pp, "w").write(proj)
        rc, out = sh(["coq_makefile", "-f", "_CoqProject", "-o", "Makefile"], cwd=COQ)
        if rc != 0:
            raise Internal("coq_makefile failed: " + out)
    elif not os.path.exists(os.path.join(COQ, "Makefile")):
        rc, out = sh(["coq_makefile", "-f", "_CoqProject", "-o", "Makefile"], cwd=COQ)
        if rc != 0:
            raise Internal("coq_makefile failed: " + out)


def build_coq(targets, jobs=16):
    """full .vo build of the given targets (and everything they depend on)"""
    with Lock("coq.lock"):
        ensure_makefile()
        rc, out = sh(["timeout", "3000", "make", "-j%d" % jobs] + targets, cwd=COQ, timeout=3100)
    return rc, out


def audit_properties(prop):
    """compile Properties/<prop>.v once more on its own to capture Print Assumptions"""
    f = os.path.join(COQ, "Properties", prop + ".v")
    src = open(f).read()
    theorems = re.findall(r"^\s*Theorem\s+([A-Za-z0-9_']+)", src, flags=re.M)
    printed = re.findall(r"^\s*Print Assumptions\s+([A-Za-z0-9_']+)\s*\.", src, flags=re.M)
    missing = [t for t in theorems if t not in printed]
    tmpdir = os.path.join(BUILD, "audit", prop)
    os.makedirs(tmpdir, exist_ok=True)
    tmp = os.path.join(tmpdir, prop + "_audit.v")
    shutil.copy(f, tmp)
    rc, out = sh(["timeout", "1200", "coqc", "-noglob"] + COQFLAGS + [tmp], cwd=tmpdir, timeout=1300)
    if rc != 0:
        return dict(ok=False, theorems=theorems, out=out, axioms={}, missing=missing)
    # split output per Print Assumptions
    blocks = re.split(r"(?=Closed under the global context|Axioms:)", out)
    blocks = [b for b in blocks if b.startswith("Closed") or b.startswith("Axioms:")]
    axioms = {}
    for name, b in zip(printed, blocks):
        if b.startswith("Closed"):
            axioms[name] = []
        else:
            axioms[name] = re.findall(r"^([A-Za-z0-9_.']+)\s*:", b, flags=re.M)
    ok = len(blocks) == len(printed) and not missing
    bad = {k: [a for a in v if a.split(".")[-1] not in ALLOWED_AXIOMS and a not in ALLOWED_AXIOMS] for k, v in axioms.items()}
    bad = {k: v for k, v in bad.items() if v}
    return dict(ok=ok and not bad, theorems=theorems, out=out, axioms=axioms, missing=missing, bad_axioms=bad)


def build_harness():
    with Lock("go.lock"):
        rc, out = sh(["bash", os.path.join(HARNESS, "gen_gomod.sh")], cwd=HARNESS, env=dict(VERIF_REPO=REPO))
        if rc != 0:
            return rc, out
        rc, out = sh(["timeout", "1500", "go", "build", "-tags", "verif", "-o", os.path.join(BUILD, "harness"), "."],
                     cwd=HARNESS, env=GOENV, timeout=1600)
    return rc, out


def run_shards(outdir, shards, jobs=12):
    """evaluate every case file with coqc (vm_compute inside); returns list of mismatches"""
    procs = []
    results = {}
    pending = list(shards)
    running = []
    env = dict(os.environ)
    while pending or running:
        while pending and len(running) < jobs:
            s = pending.pop(0)
            # stdout goes to a file: a pipe that is only read after exit blocks coqc once `Print M` exceeds 64 KB
            fo = open(os.path.join(outdir, s + ".out"), "w")
            p = subprocess.Popen(["timeout", "1700", "coqc", "-noglob"] + COQFLAGS + [s], cwd=outdir,
                                 stdout=fo, stderr=subprocess.STDOUT, text=True, env=env)
            fo.close()
            running.append((s, p))
        still = []
        for s, p in running:
            if p.poll() is None:
                still.append((s, p))
            else:
                results[s] = (p.returncode, open(os.path.join(outdir, s + ".out")).read())
        running = still
        if running:
            time.sleep(0.05)
    mism = []
    errors = []
    for s in shards:
        rc, out = results[s]
        if rc != 0 and "Error" not in out:
            # killed (memory pressure when many shards run at once) or timed out: retry once, alone
            p = subprocess.run(["timeout", "3400", "coqc", "-noglob"] + COQFLAGS + [s], cwd=outdir,
                               stdout=subprocess.PIPE, stderr=subprocess.STDOUT, text=True, env=env)
            rc, out = p.returncode, p.stdout
            results[s] = (rc, out)
        if rc != 0:
            errors.append((s, "rc=%d\n%s" % (rc, out[-3000:])))
            continue
        m = re.search(r"M\s*=\s*(.*?)\n\s*:\s*list", out, flags=re.S)
        if not m:
            errors.append((s, out[-3000:]))
            continue
        body = m.group(1).strip()
        if body != "[]":
            mism.append((s, body[:6000]))
    return mism, errors


def load_known():
    p = os.path.join(ROOT, "known_findings.json")
    if not os.path.exists(p):
        return []
    return json.load(open(p))["findings"]


def write_evidence(prop, ev):
    evdir = os.path.join(ROOT, "evidence") if REPO == "/repo" else os.path.join(BUILD, "evidence_scratch")
    os.makedirs(evdir, exist_ok=True)
    p = os.path.join(evdir, prop + ".json")
    for k in ("property_id", "tier", "seed", "level", "coverage", "wall_s"):
        if k not in ev:
            raise Internal("evidence lacks " + k)
    tmp = p + ".tmp"
    json.dump(ev, open(tmp, "w"), indent=1, sort_keys=True)
    # validate against the schema with the tooling venv's jsonschema when present
    if shutil.which("python3-vt") and os.path.exists("/root/.vp/EVIDENCE.schema.json"):
        rc, out = sh(["python3-vt", "-c",
                      "import json,jsonschema,sys; jsonschema.validate(json.load(open(sys.argv[1])), json.load(open('/root/.vp/EVIDENCE.schema.json')))",
                      tmp])
        if rc != 0:
            raise Internal("evidence does not validate: " + out[-1500:])
    os.replace(tmp, p)


def write_replay(prop, name, obj):
    d = os.path.join(BUILD, "replay")
    os.makedirs(d, exist_ok=True)
    p = os.path.join(d, "%s_%s.json" % (prop, name))
    json.dump(obj, open(p, "w"), indent=1)
    return p


# per property: which Coq property files decide it, which harness streams tie it to the code
def load_props():
    """one file checker/props/<Cnn>.json per property: {"coq": [property files], "streams": [harness streams],
    "trace": [Model/Trace<X>.v files the case files import], "extra_targets": [...], "assumptions": [...],
    "trusted_extra": [...]}"""
    out = {}
    for f in sorted(glob.glob(os.path.join(ROOT, "checker", "props", "*.json"))):
        out[os.path.basename(f)[:-5]] = json.load(open(f))
    return out


PROPS = load_props()


def run_check(prop, tier, seed, replay=None):
    t0 = time.time()
    if prop not in PROPS:
        print("unknown property", prop)
        return 2
    cfg = PROPS[prop]
    violations = []      # (replay_path, suffix)
    known_lines = []
    notes = []
    try:
        # ---- 1. proofs ----
        forb = grep_forbidden()
        if forb:
            p = write_replay(prop, "forbidden", dict(property=prop, kind="forbidden-keyword", hits=forb))
            violations.append((p, "no-failing-input-found"))
        targets = ["Properties/%s.vo" % c for c in cfg["coq"]] + ["Model/Trace%s.vo" % t for t in cfg.get("trace", [])]
        targets += cfg.get("extra_targets", [])
        rc, out = build_coq(targets)
        obligations = 0
        discharged = 0
        axioms_all = {}
        proof_broken = None
        if rc != 0:
            proof_broken = out[-4000:]
        else:
            for c in cfg["coq"]:
                a = audit_properties(c)
                obligations += len(a["theorems"])
                if a["ok"]:
                    discharged += len(a["theorems"])
                else:
                    proof_broken = "audit of Properties/%s.v failed: missing=%s bad_axioms=%s\n%s" % (
                        c, a.get("missing"), a.get("bad_axioms"), a["out"][-2000:])
                axioms_all.update(a["axioms"])
        # ---- 2. harness against the working tree ----
        rc, out = build_harness()
        harness_broken = None
        reports = []
        mism_all = []
        if rc != 0:
            harness_broken = out[-4000:]
        else:
            for st in cfg["streams"]:
                outdir = os.path.join(RUNDIR, prop, st)
                shutil.rmtree(outdir, ignore_errors=True)
                os.makedirs(outdir)
                cmd = [os.path.join(BUILD, "harness"), st, "-seed", str(seed), "-tier", tier, "-out", outdir]
                if replay:
                    cmd += ["-replay", replay]
                hto = 900 if tier == "quick" else 3000
                rc, out = sh(["timeout", str(hto)] + cmd, cwd=outdir, timeout=hto + 100)
                if rc == 124:
                    # on the unchanged tree every stream terminates well within the limit: a stream that no longer
                    # terminates against this tree is reported, not swallowed as an internal error
                    p = write_replay(prop, "stream_timeout_" + st, dict(property=prop, kind="stream-timeout", stream=st, seed=seed, tier=tier,
                                     note="the correspondence stream did not terminate within %d s against this tree" % hto, tail=out[-2000:]))
                    violations.append((p, "no-failing-input-found"))
                    continue
                if rc == 2 and "panic:" in out:
                    # the stream's own driver assertions (a set-up step that the model says must succeed was refused,
                    # an observation that cannot be taken) stop it with a Go panic: against this tree the
                    # correspondence cannot be established, which is reported - never on the unchanged tree
                    i = out.find("panic:")
                    p = write_replay(prop, "stream_stopped_" + st, dict(property=prop, kind="stream-stopped", stream=st, seed=seed, tier=tier,
                                     note="the correspondence stream could not be driven against this tree: a step the harness relies on failed",
                                     panic=out[i:i + 3000]))
                    violations.append((p, "no-failing-input-found"))
                    continue
                if rc != 0:
                    raise Internal("harness %s failed (rc=%d):\n%s" % (st, rc, out[-3000:]))
                rep = json.load(open(os.path.join(outdir, "report.json")))
                reports.append(rep)
                if proof_broken is None or True:
                    # model evaluation needs only Model/*.vo; if those did not build, shards fail and are reported
                    mism, errs = run_shards(outdir, rep["shards"])
                    if errs:
                        if proof_broken is None:
                            raise Internal("case file did not evaluate: %s\n%s" % errs[0])
                    mism_all += [(st, s, b) for s, b in mism]
        # ---- 3. verdict ----
        known = [k for k in load_known() if k["property"] == prop]
        open_sigs = {k["signature"]: k for k in known if k.get("status") == "open"}
        mon_viol = []
        for rep in reports:
            for v in rep["violations"]:
                if v["signature"] in open_sigs:
                    continue
                mon_viol.append(v)
            for kc in (rep.get("known_checked") or []):
                k = open_sigs.get(kc["id"])
                if k and kc["still_fails"]:
                    known_lines.append("KNOWN-FINDING: property=%s %s" % (prop, k["what"]))
        # extended search: a proof obligation or the correspondence broke but no monitor has a failing input yet ->
        # run the model-free monitors on a larger, differently seeded budget against the real code
        extended = None
        if (mism_all or proof_broken) and not mon_viol and not harness_broken and not replay:
            extended = dict(runs=0, cases=0)
            budget = [("thorough", seed + 1000)] if tier == "quick" else [("thorough", seed + 1000), ("thorough", seed + 2000)]
            for (xt, xs) in budget:
                for st in cfg["streams"]:
                    outdir = os.path.join(RUNDIR, prop, st + "_extended")
                    shutil.rmtree(outdir, ignore_errors=True)
                    os.makedirs(outdir)
                    try:
                        rc, out = sh(["timeout", "900", os.path.join(BUILD, "harness"), st, "-seed", str(xs), "-tier", xt, "-out", outdir],
                                     cwd=outdir, timeout=1000)
                    except subprocess.TimeoutExpired:
                        rc = 124
                    if rc != 0 or not os.path.exists(os.path.join(outdir, "report.json")):
                        continue
                    xrep = json.load(open(os.path.join(outdir, "report.json")))
                    extended["runs"] += 1; extended["cases"] += xrep["cases"]
                    for v in xrep["violations"]:
                        if v["signature"] not in open_sigs:
                            v = dict(v); v["found_by"] = "extended search (seed %d, tier %s)" % (xs, xt)
                            mon_viol.append(v)
                    shutil.rmtree(outdir, ignore_errors=True)
                if mon_viol:
                    break
        # one replay per distinct signature first, then the rest, six in all
        _seen, _first, _rest = set(), [], []
        for v in mon_viol:
            (_rest if v["signature"] in _seen else _first).append(v)
            _seen.add(v["signature"])
        for v in (_first + _rest)[:6]:
            v = dict(v); v["tier"] = tier
            p = write_replay(prop, "monitor_%s_%d_%d" % (re.sub(r"\W", "_", v["signature"]), v["case"], v["step"]), v)
            violations.append((p, ""))
        if mism_all and not mon_viol:
            st, s, b = mism_all[0]
            p = write_replay(prop, "correspondence", dict(property=prop, kind="correspondence", stream=st, shard=s, seed=seed, tier=tier,
                                                          first_mismatch=b, note="model and implementation disagree on a projected observable; "
                                                          "the model-free monitors found no failing input on this run"))
            violations.append((p, "no-failing-input-found"))
        if harness_broken:
            p = write_replay(prop, "harness_build", dict(property=prop, kind="harness-build", seed=seed, tier=tier, compiler_output=harness_broken))
            violations.append((p, "no-failing-input-found"))
        if proof_broken and not mon_viol:
            p = write_replay(prop, "proof", dict(property=prop, kind="proof", seed=seed, tier=tier, theorem_files=cfg["coq"], output=proof_broken))
            violations.append((p, "no-failing-input-found"))
        # ---- 4. thorough extras ----
        coqchk = None
        if tier == "thorough" and not proof_broken:
            with Lock("coq.lock"):
                rc, out = sh(["timeout", "3400", "coqchk", "-silent", "-o"] + COQFLAGS[0:6] +
                             ["-Q", os.path.join(COQ, "Properties"), "Properties"] +
                             ["Properties.%s" % c for c in cfg["coq"]], cwd=COQ, timeout=3500)
            coqchk = dict(rc=rc, tail=out[-1500:])
            if rc != 0:
                p = write_replay(prop, "coqchk", dict(property=prop, kind="coqchk", output=out[-4000:]))
                violations.append((p, "no-failing-input-found"))
        # ---- 5. evidence ----
        hist = {}
        samples = []
        evals = ops = distinct = 0
        rules = []
        exhaustive = False
        for rep in reports:
            evals += rep["cases"]; ops += rep["ops"]; distinct += rep["distinct_nontrivial"]
            rules.append(rep["rule"])
            for k, v in rep["histogram"].items():
                hist[k] = hist.get(k, 0) + v
            samples += (rep["samples"] or [])
            exhaustive = exhaustive or rep.get("exhaustive", False)
            notes += (rep.get("notes") or [])
        if not samples:
            samples = [dict(note="no harness run", theorems=cfg["coq"])]
        ev = dict(
            property_id=prop, tier=tier, seed=seed, level="proof",
            coverage=dict(
                obligations=obligations, discharged=discharged,
                checker_cmd="make -C coq %s && coqc Properties/%s.v (Print Assumptions audit)%s" % (
                    " ".join(targets), cfg["coq"][0], " && coqchk -silent -o" if tier == "thorough" else ""),
                trusted_base=TRUSTED_BASE + cfg.get("trusted_extra", []),
                axioms_per_theorem=axioms_all,
                evaluations=evals, operations=ops, distinct_nontrivial=distinct,
                rule="; ".join(rules), samples=samples[:4],
                traces_validated_against_impl=evals, correspondence_mismatches=len(mism_all),
                monitor_violations=len(mon_viol), input_distribution=hist,
                exhaustive_part=exhaustive, notes=notes, coqchk=coqchk, extended_search=extended,
                explanation="theorems about the Gallina model proved for all inputs/histories; the model is tied to /repo's working tree by "
                            "re-executing every generated operation sequence on the real keepers and on the model (vm_compute) and comparing projected observables",
            ),
            assumptions=cfg.get("assumptions", []) + ["see DESIGN.md section 8"],
            wall_s=round(time.time() - t0, 2),
            violations=len(violations),
        )
        write_evidence(prop, ev)
    except Internal as e:
        print("INTERNAL ERROR:", e)
        return 2
    for l in known_lines:
        print(l)
    if violations:
        for p, suffix in violations:
            print(("VIOLATION property=%s replay=%s %s" % (prop, p, suffix)).rstrip())
        return 1
    print("OK property=%s tier=%s seed=%d obligations=%d discharged=%d cases=%d ops=%d wall=%.1fs" % (
        prop, tier, seed, obligations, discharged, evals, ops, time.time() - t0))
    return 0
