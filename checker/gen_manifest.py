#!/usr/bin/env python3
"""Regenerates MANIFEST.json from checker/props/*.json (which properties have a check) and
checker/manifest/<Cnn>.json (level text, note, technique).  Properties without a check are listed
under not_applicable with the reason in checker/manifest/not_applicable.json (or a default)."""
import json, os, glob
ROOT = os.path.dirname(os.path.dirname(os.path.abspath(__file__)))
props = [json.loads(l)["id"] for l in open(os.path.join(ROOT, "properties.jsonl"))]
have = sorted(os.path.basename(f)[:-5] for f in glob.glob(os.path.join(ROOT, "checker", "props", "*.json")))
na_path = os.path.join(ROOT, "checker", "manifest", "not_applicable.json")
na_reasons = json.load(open(na_path)) if os.path.exists(na_path) else {}
checks = []
for p in have:
    mp = os.path.join(ROOT, "checker", "manifest", p + ".json")
    m = json.load(open(mp)) if os.path.exists(mp) else {}
    checks.append({
        "property_id": p,
        "quick_cmd": "./check %s --tier quick" % p,
        "thorough_cmd": "./check %s --tier thorough" % p,
        "evidence_file": "/verif/evidence/%s.json" % p,
        "replay_cmd_template": "./check %s --replay {path}" % p,
        "engine": "coq-model+go-correspondence",
        "level_claimed": {
            "category": m.get("category", "proof"),
            "text": m.get("text", "Machine-checked Coq theorems about the executable Gallina model state the property for all inputs/histories; the model is tied to /repo's current source by a differential correspondence run on every check."),
            "design_ref": m.get("design_ref", "DESIGN.md section 5, %s; docs/%s.md" % (p, p)),
        },
        "level_note": m.get("note", "Trusted: Coq kernel, the hand-written model (validated, not verified, against the code by differential execution), Go harness, SDK/CometBFT behaviour as listed in DESIGN.md section 8."),
        "technique": m.get("technique", "Coq proof over an executable model + differential correspondence (Go harness vs vm_compute)"),
    })
manifest = {
    "version": 1,
    "setup_cmd": "./setup.sh",
    "hooks": {
        "guard": "verif",
        "enable": "go build -tags verif (no hook files exist; see MANIFEST.hooks)",
        "baseline_off_cmd": "cd /repo && go test -vet=off -count=1 ./... && cd /repo/api && go test -vet=off -count=1 ./...",
        "source_commits": [],
        "add_only": True,
    },
    "engines": [{
        "name": "coq-model+go-correspondence",
        "path": "/verif/check",
        "serves_properties": have,
        "kind_free_text": "Rocq/Coq 8.16.1 theorems over a hand-written executable Gallina model; differential correspondence against the real keepers via a Go harness, model evaluated by vm_compute; model-free property monitors search for failing inputs",
    }],
    "checks": checks,
    "notes": "See DESIGN.md and docs/. Every check: ./check <id> [--tier quick|thorough] [--seed N] (VERIF_TIER, VERIF_SEED honoured).",
    "not_applicable": [{"property_id": p, "reason": na_reasons.get(p, "not yet built (work in progress; planned, see DESIGN.md section 10)")}
                       for p in props if p not in have],
}
json.dump(manifest, open(os.path.join(ROOT, "MANIFEST.json"), "w"), indent=1)
print("MANIFEST.json: %d checks, %d not_applicable" % (len(checks), len(manifest["not_applicable"])))
