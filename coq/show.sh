#!/bin/bash
# usage: show.sh <file.v> <line> [maxlines] -- prints the goals after the given line
W="$(cd "$(dirname "$0")" && pwd)"
cd "$W"
T=$(mktemp -d)
head -n $2 $1 > $T/show_tmp.v
echo "Show. " >> $T/show_tmp.v
timeout 600 coqc -Q Model Model -Q Proofs Proofs $T/show_tmp.v 2>&1 | head -${3:-80}
rm -rf $T
