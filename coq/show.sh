#!/bin/bash
# usage: show.sh <file.v> <line>  -- prints the goals after the given line
cd /verif/coq
head -n $2 $1 > /tmp/_show.v
echo "Show. " >> /tmp/_show.v
coqc -Q Model Model -Q Proofs Proofs /tmp/_show.v 2>&1 | head -${3:-80}
