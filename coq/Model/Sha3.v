(* SHA3-256 (FIPS 202) in pure Gallina over N lanes.  Used to *execute* the commitment
   formats inside Coq; every theorem about the formats is parametric in the hash. *)
From Coq Require Import List Arith NArith.
Require Import Model.Bytes.
Import ListNotations.
Local Open Scope N_scope.

Definition mask64 : N := 18446744073709551615.

Definition rotl64 (x n : N) : N :=
  if n =? 0 then x
  else N.lor (N.land (N.shiftl x n) mask64) (N.shiftr x (64 - n)).

Definition not64 (x : N) : N := N.lxor x mask64.

Definition lane (st : list N) (i : nat) : N := nth i st 0.

Definition rho_pi_tab : list (nat * N) :=
  map (fun p : nat * nat => (fst p, N.of_nat (snd p)))
  [(0, 0); (6, 44); (12, 43); (18, 21); (24, 14); (3, 28); (9, 20); (10, 3); (16, 45);
   (22, 61); (1, 1); (7, 6); (13, 25); (19, 8); (20, 18); (4, 27); (5, 36); (11, 10);
   (17, 15); (23, 56); (2, 62); (8, 55); (14, 39); (15, 41); (21, 2)]%nat.

Definition round_consts : list N :=
  [1; 32898; 9223372036854808714; 9223372039002292224; 32907; 2147483649;
   9223372039002292353; 9223372036854808585; 138; 136; 2147516425; 2147483658;
   2147516555; 9223372036854775947; 9223372036854808713; 9223372036854808579;
   9223372036854808578; 9223372036854775936; 32778; 9223372039002259466;
   9223372039002292353; 9223372036854808704; 2147483649; 9223372039002292232].

Definition idx5 : list nat := [0; 1; 2; 3; 4]%nat.
Definition idx25 : list nat := seq 0 25.

Definition theta (a : list N) : list N :=
  let c := map (fun x : nat => N.lxor (lane a x) (N.lxor (lane a (x + 5)%nat) (N.lxor (lane a (x + 10)%nat)
                         (N.lxor (lane a (x + 15)%nat) (lane a (x + 20)%nat))))) idx5 in
  let d := map (fun x : nat => N.lxor (lane c ((x + 4) mod 5)%nat) (rotl64 (lane c ((x + 1) mod 5)%nat) 1)) idx5 in
  map (fun i : nat => N.lxor (lane a i) (lane d (i mod 5)%nat)) idx25.

Definition rho_pi (a : list N) : list N :=
  map (fun sr : nat * N => rotl64 (lane a (fst sr)) (snd sr)) rho_pi_tab.

Definition chi (b : list N) : list N :=
  map (fun i : nat => let y5 := (5 * (i / 5))%nat in let x := (i mod 5)%nat in
                N.lxor (lane b i)
                       (N.land (not64 (lane b (y5 + (x + 1) mod 5)%nat)) (lane b (y5 + (x + 2) mod 5)%nat)))
      idx25.

Definition iota (rc : N) (a : list N) : list N :=
  match a with
  | [] => []
  | x :: t => N.lxor x rc :: t
  end.

Definition keccak_round (a : list N) (rc : N) : list N := iota rc (chi (rho_pi (theta a))).
Definition keccak_f (a : list N) : list N := fold_left keccak_round round_consts a.

Definition rate : nat := 136.

(* pad10*1 with the SHA-3 domain bits 0x06 *)
Definition sha3_pad (m : bytes) : bytes :=
  let r := (rate - (length m mod rate))%nat in
  match r with
  | 1%nat => m ++ [134]                              (* 0x06 | 0x80 *)
  | _ => m ++ [6] ++ repeat 0 (r - 2) ++ [128]
  end.

Definition block_lanes (blk : bytes) : list N :=
  map (fun i : nat => le_to_N (firstn 8 (skipn (8 * i)%nat blk))) (seq 0 17).

Definition absorb (st : list N) (blk : bytes) : list N :=
  let bl := block_lanes blk in
  keccak_f (map (fun i : nat => N.lxor (lane st i) (lane bl i)) idx25).

Definition sha3_256 (m : bytes) : bytes :=
  let p := sha3_pad m in
  let st := fold_left absorb (chunks (S (length p)) rate p) (repeat 0 25) in
  concat (map (fun i : nat => le_bytes 8 (lane st i)) [0; 1; 2; 3]%nat).
