(* Order-explicit counterparts of the places where the Go oracle path iterates over a Go map or
   a store range (C18): WritePrices as the sequential loop it is, vote lists related by
   reordering, and the number of currency-pair walks of connect's HashCurrencyPairStrategy id
   cache (the gas-relevant part, defect D15).  Definitions only. *)
From stdpp Require Import gmap numbers list.
From Coq Require Import ZArith.
Require Import Model.Oracle.
Local Open Scope Z_scope.

(* ---- WritePrices: `for _, cp := range ok.GetAllCurrencyPairs(ctx)` visiting [visit] in order;
   every write goes to the store at once, a stale pair aborts (baseapp then discards all) ---- *)
Fixpoint write_prices_seq (visit : list N) (q : gmap N (option quote)) (agg : N → option Z) (ts : Z) (blk : N)
  : option (gmap N (option quote)) :=
  match visit with
  | [] => Some q
  | cp :: rest =>
      match agg cp with
      | None => write_prices_seq rest q agg ts blk
      | Some p =>
          match q !! cp with
          | Some (Some old) =>
              if q_ts old <? ts then write_prices_seq rest (<[cp := Some (MkQuote p ts blk)]> q) agg ts blk
              else None
          | _ => write_prices_seq rest (<[cp := Some (MkQuote p ts blk)]> q) agg ts blk
          end
      end
  end.

(* ---- votes: the price map of a vote extension is a Go map; its entries reach the aggregator in
   any order.  [vote_entries_perm v v']: same vote, price entries permuted, ids distinct ---- *)
Definition dec_perm (d d' : option (bool * list (N * Z))) : Prop :=
  match d, d' with
  | None, None => True
  | Some (b, ps), Some (b', ps') => b = b' ∧ ps ≡ₚ ps' ∧ NoDup ps.*1
  | _, _ => False
  end.
Definition vote_entries_perm (v v' : vote) : Prop :=
  v_addr v = v_addr v' ∧ v_commit v = v_commit v' ∧ v_ext_empty v = v_ext_empty v' ∧
  v_sig_empty v = v_sig_empty v' ∧ v_sig_ok v = v_sig_ok v' ∧ dec_perm (v_dec v) (v_dec v').

(* a reordering of the commit's entries that keeps, for every validator, the relative order of
   that validator's own entries (the later non-empty vote of a validator wins, so this is needed) *)
Definition same_validator_order (votes votes' : list vote) : Prop :=
  votes ≡ₚ votes' ∧ ∀ a, filter (λ v, v_addr v = a) votes = filter (λ v, v_addr v = a) votes'.

(* ---- HashCurrencyPairStrategy.FromID: a lookup of an id that is not in the cache walks over all
   currency pairs (and fills the cache with all existing pairs).  [filled] = the cache already
   holds the existing pairs; [pairs] = hash ids of the existing pairs; [ids] = the ids looked up,
   in the order the Go maps yield them ---- *)
Fixpoint walks_from (filled : bool) (pairs : list N) (ids : list N) : nat :=
  match ids with
  | [] => O
  | id :: rest =>
      if filled && bool_decide (id ∈ pairs) then walks_from filled pairs rest
      else S (walks_from true pairs rest)
  end.
(* before 629119a: one long-lived strategy; at the first update of a block the cache is cold,
   after an execution on a discarded branch at the same height it is warm *)
Definition walks_old (warm : bool) (pairs ids : list N) : nat := walks_from warm pairs ids.
(* after 629119a: a fresh strategy per update, one up-front fill, then the lookups *)
Definition walks_new (pairs ids : list N) : nat := S (walks_from true pairs ids).
