(* Replaying a recorded L2 trace on the model and projecting the observables exactly as the
   Go harness prints them (harness/l2ops.go L2Obs). *)
From stdpp Require Import gmap numbers list.
From Coq Require Import ZArith String.
Require Import Model.Bytes Model.Obs Model.Bank Model.Valset Model.L2.

Record l2case := {
  c_table : list (bytes * N);        (* valid address strings -> account id *)
  c_blocked : list N;
  c_auth : bytes; c_mod : N; c_fee : N;
  c_params : params;
  c_next_l1 : N; c_next_l2 : N;
  c_bals : list (N * bytes * Z);     (* initial balances *)
  c_sups : list (bytes * Z);         (* initial supplies *)
  c_pairs : list (bytes * bytes);
  c_accts : list N; c_denoms : list bytes;   (* tracked *)
  c_ops : list msg;
}.

Definition table_resolve (t : list (bytes * N)) (s : bytes) : option N :=
  snd <$> List.find (λ p, bytes_eqb p.1 s) t.

Definition cfg_of (c : l2case) : cfg :=
  {| resolve := table_resolve (c_table c);
     blocked := λ a, bool_decide (a ∈ c_blocked c);
     authority := c_auth c; modacc := c_mod c; feecol := c_fee c |}.

Definition init_of (c : l2case) : l2state :=
  {| bk := {| bal := list_to_map (map (λ x, ((x.1.1, x.1.2), x.2)) (c_bals c)); sup := list_to_map (c_sups c) |};
     next_l1 := c_next_l1 c; next_l2 := c_next_l2 c; pairs := list_to_map (c_pairs c);
     prm := c_params c; info := None; vs := vempty; seqs := ∅; wlog := []; dlog := [] |}.

Definition resp_ov (r : resp) : ov :=
  match r with
  | RNone => OS "-" | RNoop => OS "NOOP" | RSuccess => OS "SUCCESS" | RSeq n => ON n
  end.
Definition result_ov (r : result) : ov :=
  match r with Err => OS "ERR" | Ok x => OL [OS "OK"; resp_ov x] end.

Definition wrec_ov (w : wrec) : ov :=
  OL [ON (w_seq w); OB (w_from w); OB (w_to w); OB (w_denom w); OB (w_base w); OZ (w_amt w)].
Definition drec_ov (d : drec) : ov := OL [ON (d_seq d); obool (d_ok d)].

Definition l2_obs (c : l2case) (s0 s : l2state) (r : result) : ov :=
  let users := List.filter (λ a, (a <? 100)%N) (c_accts c) in
  OL [ result_ov r; ON (next_l1 s); ON (next_l2 s);
       OL (flat_map (λ a, map (λ d, OZ (getb (bk s) a d)) (c_denoms c)) (c_accts c));
       OL (map (λ d, OZ (gets (bk s) d)) (c_denoms c));
       OL (map (λ d, oopt OB (pairs s !! d)) (c_denoms c));
       OL (map (λ a, ON (getseq s a)) users);
       OL (map wrec_ov (rev (firstn (List.length (wlog s) - List.length (wlog s0)) (wlog s))));
       OL (map drec_ov (rev (firstn (List.length (dlog s) - List.length (dlog s0)) (dlog s)))) ].

Fixpoint run_obs (c : l2case) (cf : cfg) (s : l2state) (ops : list msg) : list ov :=
  match ops with
  | [] => []
  | m :: ops' => let '(s', r) := step cf s m in l2_obs c s s' r :: run_obs c cf s' ops'
  end.

Definition run_l2case (c : l2case) : list ov := run_obs c (cfg_of c) (init_of c) (c_ops c).
