(* The permissioned L2 validator set (x/opchild/keeper/validator.go, val_state_change.go,
   executor_change.go, historical_info.go) and the consensus engine's side of the contract
   (CometBFT ValidatorSet.UpdateWithChangeSet) as executable functions.
   Operators and consensus keys are N; ids are assigned by the harness in byte order of the
   real addresses, so numeric order = store iteration order.  Definitions only. *)
From stdpp Require Import gmap numbers sorting.
From Coq Require Import ZArith.

Record val := { v_key : N; v_pow : Z }.
Global Instance val_eq_dec : EqDecision val.
Proof. solve_decision. Defined.

Record vstate := {
  vals : gmap N val;      (* operator -> validator record (Validators) *)
  idx  : gmap N N;        (* consensus key -> operator (ValidatorsByConsAddr) *)
  last : gmap N Z;        (* operator -> power last sent to the engine (LastValidatorPowers) *)
}.

Definition vempty : vstate := {| vals := ∅; idx := ∅; last := ∅ |}.

Definition update := (N * Z)%type.   (* (consensus key, power) *)

(* GetValidatorByConsAddr: index lookup, then the validator record must exist *)
Definition by_key (s : vstate) (k : N) : option val := op ← idx s !! k; vals s !! op.

(* MsgAddValidator after the authority check *)
Definition add_validator (maxv : N) (s : vstate) (op key : N) : option vstate :=
  if bool_decide (maxv ≤ N.of_nat (size (vals s)))%N then None else
  if bool_decide (is_Some (vals s !! op)) then None else
  if bool_decide (is_Some (by_key s key)) then None else
  Some {| vals := <[op := {| v_key := key; v_pow := 1 |}]> (vals s);
          idx := <[key := op]> (idx s); last := last s |}.

(* MsgRemoveValidator after the authority check: power := 0, purge happens in the end blocker *)
Definition remove_validator (s : vstate) (op : N) : option vstate :=
  v ← vals s !! op;
  Some {| vals := <[op := {| v_key := v_key v; v_pow := 0 |}]> (vals s);
          idx := idx s; last := last s |}.

(* keeper.RemoveValidator: delete the record and the index entry of ITS key (whoever it points to) *)
Definition purge (s : vstate) (op : N) : vstate :=
  match vals s !! op with
  | None => s
  | Some v => {| vals := delete op (vals s); idx := delete (v_key v) (idx s); last := last s |}
  end.

Definition key_le {A} (a b : N * A) : Prop := (a.1 ≤ b.1)%N.
Global Instance key_le_dec {A} (a b : N * A) : Decision (key_le a b).
Proof. unfold key_le; apply _. Defined.
Definition sorted_ops {A} (m : gmap N A) : list (N * A) := merge_sort key_le (map_to_list m).

(* ApplyAndReturnValidatorSetUpdates, pass 1: all validators in store order.  [last0] is the
   snapshot of the last-power table taken at the start (getLastValidatorsByAddr); [rest] is that
   map with the bonded validators seen so far deleted. *)
Definition pass1_step (last0 : gmap N Z) (acc : vstate * list update * gmap N Z) (ov : N * val)
  : vstate * list update * gmap N Z :=
  let '(s, ups, rest) := acc in
  let '(op, v) := ov in
  if bool_decide (v_pow v ≤ 0)%Z then
    (* zero power: skipped; a validator that was never bonded is purged right away (repair D5) *)
    (if bool_decide (is_Some (last0 !! op)) then s else purge s op, ups, rest)
  else
    if bool_decide (last0 !! op = Some (v_pow v)) then (s, ups, delete op rest)
    else ({| vals := vals s; idx := idx s; last := <[op := v_pow v]> (last s) |},
          ups ++ [(v_key v, v_pow v)], delete op rest).

(* pass 2: the no-longer-bonded operators, sorted by operator address *)
Definition pass2_step (acc : option (vstate * list update)) (op : N) : option (vstate * list update) :=
  '(s, ups) ← acc;
  v ← vals s !! op;                       (* mustGetValidator: panics if missing *)
  if bool_decide (0 < v_pow v)%Z then None else
  let s1 := purge s op in
  Some ({| vals := vals s1; idx := idx s1; last := delete op (last s1) |},
        ups ++ [(v_key v, v_pow v)]).

Definition end_block_updates (s : vstate) : option (vstate * list update) :=
  let '(s1, ups, rest) := foldl (pass1_step (last s)) (s, [], last s) (sorted_ops (vals s)) in
  foldl pass2_step (Some (s1, ups)) (map fst (sorted_ops rest)).

(* ChangeExecutor, validator part: every stored validator to power 0, then the plan's validator
   is written over whatever record its operator address has, and its key indexed. *)
Definition change_executor_vals (s : vstate) (op key : N) : vstate :=
  {| vals := <[op := {| v_key := key; v_pow := 1 |}]>
               ((λ v, {| v_key := v_key v; v_pow := 0 |}) <$> vals s);
     idx := <[key := op]> (idx s); last := last s |}.

(* ---- historical info (BeginBlocker) ---- *)
Definition hrec := list (N * Z).    (* (consensus key, power) in last-power-table order *)

Fixpoint prune (fuel : nat) (hist : gmap Z hrec) (i : Z) : gmap Z hrec :=
  match fuel with
  | O => hist
  | S f => if bool_decide (i < 0)%Z then hist else
           match hist !! i with
           | None => hist
           | Some _ => prune f (delete i hist) (i - 1)%Z
           end
  end.

(* GetLastValidators: walk the last-power table, mustGetValidator each (None = panic),
   panic when more than maxv *)
Definition last_validators (maxv : N) (s : vstate) : option hrec :=
  let ops := map fst (sorted_ops (last s)) in
  if bool_decide (maxv < N.of_nat (length ops))%N then None else
  mapM (λ op, v ← vals s !! op; Some (v_key v, v_pow v)) ops.

Definition begin_block (maxv entries : N) (h : Z) (s : vstate) (hist : gmap Z hrec)
  : option (gmap Z hrec) :=
  let hist1 := prune (S (size hist)) hist (h - Z.of_N entries)%Z in
  if bool_decide (entries = 0%N) then Some hist1 else
  r ← last_validators maxv s;
  Some (<[h := r]> hist1).

(* ---- CometBFT ValidatorSet.UpdateWithChangeSet as a function on key -> power ---- *)
Definition engine := gmap N Z.
Definition maxtotal : Z := 1152921504606846975.  (* MaxInt64 / 8 *)
Definition total_power (e : engine) : Z := map_fold (λ _ p acc, (p + acc)%Z) 0%Z e.
Definition apply_updates (e : engine) (ups : list update) : engine :=
  foldl (λ acc u, if bool_decide (u.2 = 0)%Z then delete u.1 acc else <[u.1 := u.2]> acc) e ups.
Definition engine_apply (e : engine) (ups : list update) : option engine :=
  if bool_decide (ups = []) then Some e else
  if bool_decide (NoDup (map fst ups)) then
    if bool_decide (Forall (λ u, 0 ≤ u.2 ≤ maxtotal)%Z ups) then
      if bool_decide (Forall (λ u, u.2 = 0%Z → is_Some (e !! u.1)) ups) then
        let e' := apply_updates e ups in
        if bool_decide (e' = ∅) then None else
        if bool_decide (maxtotal < total_power e')%Z then None else Some e'
      else None
    else None
  else None.
