(* The L2 side of the L1 -> L2 price oracle as an executable state machine:
     x/opchild/keeper/msg_server.go  UpdateOracle           (executor + oracle-enabled checks)
     x/opchild/keeper/oracle.go      L2OracleHandler.UpdateOracle
     x/opchild/l2connect/utils.go    ValidateVoteExtensions (int64 power sum, double counting)
     x/opchild/l2connect/aggregator.go  GetOracleVotes, WritePrices
     x/opchild/keeper/host_validator_store.go, keeper.go  UpdateHostValidatorSet
   and, modelled from the source of the dependency skip-mev/connect v2.0.1:
     abci/strategies/aggregator  DefaultVoteAggregator (keyed by validator, later non-empty vote wins)
     pkg/math/voteweighted       Median (0.667 participation threshold in LegacyDec, stake-weighted median)
     abci/strategies/codec       an empty extension decodes to the empty price map.
   Signature verification and vote-extension decoding are DATA of a vote ([v_sig_ok], [v_dec]),
   computed by the harness with independent calls.  Definitions only. *)
From stdpp Require Import gmap numbers list.
From Coq Require Import ZArith.
Local Open Scope Z_scope.

(* ---- machine integers ---- *)
Definition two63 : Z := 9223372036854775808.
Definition two64 : Z := 18446744073709551616.
Definition wrap64 (z : Z) : Z := (z + two63) mod two64 - two63.      (* Go int64 conversion / overflow *)
Definition fits64 (z : Z) : bool := (- two63 <=? z) && (z <? two63). (* math.Int.IsInt64 *)

(* ---- cosmossdk.io/math LegacyDec quotient (18 decimals, banker's rounding) ---- *)
Definition dec_one : Z := 1000000000000000000.
Definition bankers_pos (q : Z) : Z :=            (* chopPrecisionAndRound for q >= 0 *)
  let quo := q / dec_one in let rem := q mod dec_one in
  if rem =? 0 then quo
  else if rem <? dec_one / 2 then quo
  else if dec_one / 2 <? rem then quo + 1
  else if Z.even quo then quo else quo + 1.
Definition bankers (q : Z) : Z := if q <? 0 then - bankers_pos (- q) else bankers_pos q.
(* LegacyNewDecFromInt(w).Quo(LegacyNewDecFromInt(t)); big.Int.Quo truncates towards zero *)
Definition dec_quo (w t : Z) : Z := bankers (Z.quot (w * dec_one * (dec_one * dec_one)) (t * dec_one)).
Definition threshold : Z := 667000000000000000.   (* voteweighted.DefaultPowerThreshold = 0.667 *)

(* ---- state ---- *)
Record binfo := MkInfo { bi_oracle : bool; bi_chain : N; bi_client : N }.   (* ids of the strings; 0 = "" *)
Record quote := MkQuote { q_price : Z; q_ts : Z; q_blk : N }.

Record ostate := {
  execs : list N;                    (* params.BridgeExecutors (account ids) *)
  info : option binfo;               (* BridgeInfo item *)
  hheight : option Z;                (* HostValidatorStore.lastHeight *)
  hset : gmap N (N * Z);             (* consensus address -> (public key, bonded tokens) *)
  quotes : gmap N (option quote);    (* x/oracle: currency pair exists; its quote price if any *)
}.

Definition ts_pair : N := 0%N.       (* TIMESTAMP/NANOSECOND *)

(* ---- inputs ---- *)
Record vote := MkVote {
  v_addr : N;                 (* validator consensus address *)
  v_commit : bool;            (* BlockIdFlag = Commit *)
  v_ext_empty : bool;         (* len(VoteExtension) = 0 *)
  v_sig_empty : bool;         (* len(ExtensionSignature) = 0 *)
  v_sig_ok : bool;            (* signature verifies under the key of v_addr for
                                 (l1 chain id, update height - 1, round, extension) *)
  v_dec : option (bool * list (N * Z));
     (* veCodec.Decode: None = error; Some (raw price map non-empty, the entries that name an
        existing-or-not pair of the universe and decode to a non-negative price of <= 33 bytes) *)
}.

Inductive oop :=
| OUpdateOracle (blk : N) (sender : option N) (height : N) (commit : option (list vote))
| OUpdateHostSet (client : N) (height : Z) (entries : list (N * N * Z))   (* addr, key, voting power *)
| OSetExecs (l : list N)
| OSetInfo (i : option binfo)
| OCreatePair (cp : N)
| ORemovePair (cp : N).      (* x/oracle RemoveCurrencyPair: the pair and its quote are deleted *)

(* ---- record updates ---- *)
Definition set_quotes (s : ostate) (q : gmap N (option quote)) : ostate :=
  {| execs := execs s; info := info s; hheight := hheight s; hset := hset s; quotes := q |}.
Definition set_host (s : ostate) (h : Z) (m : gmap N (N * Z)) : ostate :=
  {| execs := execs s; info := info s; hheight := Some h; hset := m; quotes := quotes s |}.
Definition set_execs (s : ostate) (l : list N) : ostate :=
  {| execs := l; info := info s; hheight := hheight s; hset := hset s; quotes := quotes s |}.
Definition set_info (s : ostate) (i : option binfo) : ostate :=
  {| execs := execs s; info := i; hheight := hheight s; hset := hset s; quotes := quotes s |}.

(* ---- HostValidatorStore ---- *)
Definition sum_z (l : list Z) : Z := foldr Z.add 0 l.
(* TotalBondedTokens *)
Definition total_tokens (m : gmap N (N * Z)) : Z := sum_z ((λ kv : N * (N * Z), kv.2.2) <$> map_to_list m).
Definition tokens_of (m : gmap N (N * Z)) (a : N) : option Z := snd <$> m !! a.

(* UpdateValidators: tokens = voting power * 10^6; a repeated address keeps the last entry *)
Definition power_reduction : Z := 1000000.
Definition build_set (entries : list (N * N * Z)) : gmap N (N * Z) :=
  fold_left (λ m e, <[e.1.1 := (e.1.2, e.2 * power_reduction)]> m) entries ∅.

(* Keeper.UpdateHostValidatorSet; None = error, otherwise the (possibly unchanged) state *)
Definition update_host_validators (s : ostate) (client : N) (height : Z) (entries : list (N * N * Z)) : option ostate :=
  if (client =? 0)%N then Some s else
  match info s with
  | None => None
  | Some i =>
      if negb (bi_client i =? client)%N then Some s else
      if height <=? default 0 (hheight s) then Some s else
      Some (set_host s height (build_set entries))
  end.

(* ---- ValidateVoteExtensions ---- *)
(* the per-vote loop; [None] = an error or panic, [Some sum] = the int64 power sum so far *)
Fixpoint vve_loop (m : gmap N (N * Z)) (votes : list vote) (sum : Z) : option Z :=
  match votes with
  | [] => Some sum
  | v :: votes' =>
      match tokens_of m (v_addr v) with
      | None => vve_loop m votes' sum                                   (* unknown validator: skipped *)
      | Some p =>
          if v_commit v && v_sig_empty v then None else
          if negb (v_commit v) && negb (v_ext_empty v) then None else
          if negb (v_commit v) && negb (v_sig_empty v) then None else
          if negb (v_commit v) then vve_loop m votes' sum else
          if negb (v_sig_ok v) then None else
          if negb (fits64 p) then None else                              (* power.Int64() panics *)
          vve_loop m votes' (wrap64 (sum + p))
      end
  end.

Definition required_vp (total : Z) : Z := wrap64 (Z.quot (wrap64 (total * 2)) 3 + 1).

Definition validate_ves (m : gmap N (N * Z)) (votes : list vote) : bool :=
  let total := total_tokens m in
  if negb (fits64 total) then false else                                 (* totalBondedTokens.Int64() panics *)
  match vve_loop m votes 0 with
  | None => false
  | Some sum => (0 <? total) && (required_vp total <=? sum)
  end.

(* ---- GetOracleVotes + DefaultVoteAggregator ---- *)
(* the codec on an empty extension: Decompress returns nil, Unmarshal(nil) is the empty extension *)
Definition eff_dec (v : vote) : option (bool * list (N * Z)) :=
  if v_ext_empty v then Some (false, []) else v_dec v.
Definition all_decode (votes : list vote) : bool := forallb (λ v, bool_decide (is_Some (eff_dec v))) votes.

(* priceAggregator.SetProviderData per vote with a non-empty raw price map, in order *)
Definition add_vote (prov : gmap N (list (N * Z))) (v : vote) : gmap N (list (N * Z)) :=
  match eff_dec v with
  | Some (true, ps) => <[v_addr v := ps]> prov
  | _ => prov
  end.
Definition providers (votes : list vote) : gmap N (list (N * Z)) := fold_left add_vote votes ∅.

Definition price_of (ps : list (N * Z)) (cp : N) : option Z :=
  snd <$> List.find (λ p : N * Z, (p.1 =? cp)%N) ps.

(* ---- voteweighted.Median ---- *)
(* (validator, weight, price) of every provider that is in the stored set and has a price for cp.
   The Go code ranges over the provider map (random order) and looks each provider up in the
   store; the result does not depend on the order, here the stored set is traversed instead. *)
Definition contributors (m : gmap N (N * Z)) (prov : gmap N (list (N * Z))) (cp : N) : list (N * Z * Z) :=
  omap (λ kv : N * (N * Z),
          match prov !! kv.1 with
          | Some ps => match price_of ps cp with
                       | Some p => Some (kv.1, kv.2.2, p)
                       | None => None
                       end
          | None => None
          end) (map_to_list m).

Fixpoint insert_price (x : Z * Z) (l : list (Z * Z)) : list (Z * Z) :=     (* (weight, price) *)
  match l with
  | [] => [x]
  | y :: l' => if x.2 <=? y.2 then x :: l else y :: insert_price x l'
  end.
Definition sort_prices (l : list (Z * Z)) : list (Z * Z) := foldr insert_price [] l.
(* ComputeMedian's scan: first price at which the running weight reaches the middle; the last otherwise *)
Fixpoint median_scan (middle acc : Z) (l : list (Z * Z)) : option Z :=
  match l with
  | [] => None
  | x :: l' =>
      match l' with
      | [] => Some x.2
      | _ => if middle <=? acc + x.1 then Some x.2 else median_scan middle (acc + x.1) l'
      end
  end.
Definition median (cs : list (N * Z * Z)) : option Z :=
  let w := sum_z ((λ c : N * Z * Z, c.1.2) <$> cs) in
  median_scan (Z.quot w 2) 0 (sort_prices ((λ c : N * Z * Z, (c.1.2, c.2)) <$> cs)).

(* the aggregated price of an existing pair, if its contributors reach the threshold *)
Definition agg_price (s : ostate) (prov : gmap N (list (N * Z))) (cp : N) : option Z :=
  match quotes s !! cp with
  | None => None                                                         (* FromID: no such pair *)
  | Some _ =>
      let cs := contributors (hset s) prov cp in
      let w := sum_z ((λ c : N * Z * Z, c.1.2) <$> cs) in
      if threshold <=? dec_quo w (total_tokens (hset s)) then median cs else None
  end.

(* ---- WritePrices ---- *)
Definition write_ok (q : gmap N (option quote)) (agg : N → option Z) (ts : Z) : bool :=
  forallb (λ kv : N * option quote,
             match agg kv.1, kv.2 with
             | Some _, Some old => q_ts old <? ts            (* updatedTime.After(stored) *)
             | _, _ => true
             end) (map_to_list q).
Definition write_quotes (q : gmap N (option quote)) (agg : N → option Z) (ts : Z) (blk : N) : gmap N (option quote) :=
  map_imap (λ cp old, match agg cp with
                      | Some p => Some (Some (MkQuote p ts blk))
                      | None => Some old
                      end) q.

(* ---- MsgUpdateOracle ---- *)
Definition update_oracle (s : ostate) (blk : N) (sender : option N) (height : N) (commit : option (list vote)) : option ostate :=
  match sender with None => None | Some snd =>
  if (height =? 0)%N then None else
  if negb (bool_decide (snd ∈ execs s)) then None else
  match info s with None => None | Some i =>
  if negb (bi_oracle i) then None else
  match hheight s with None => None | Some hh =>
  let h := wrap64 (Z.of_N height) in
  if h <? hh then None else
  match commit with None => None | Some votes =>
  if negb (validate_ves (hset s) votes) then None else
  if negb (all_decode votes) then None else
  let agg := agg_price s (providers votes) in
  match agg ts_pair with None => None | Some tsp =>
  let ts := wrap64 tsp in
  if negb (write_ok (quotes s) agg ts) then None else
  Some (set_quotes s (write_quotes (quotes s) agg ts blk))
  end end end end end.

(* x/oracle CreateCurrencyPair *)
Definition create_pair (s : ostate) (cp : N) : option ostate :=
  match quotes s !! cp with
  | Some _ => None
  | None => Some (set_quotes s (<[cp := None]> (quotes s)))
  end.

(* x/oracle RemoveCurrencyPair (an environment step of the oracle module, not an opchild message) *)
Definition remove_pair (s : ostate) (cp : N) : option ostate :=
  match quotes s !! cp with
  | None => None
  | Some _ => Some (set_quotes s (delete cp (quotes s)))
  end.

Definition handle (s : ostate) (o : oop) : option ostate :=
  match o with
  | OUpdateOracle blk sender height commit => update_oracle s blk sender height commit
  | OUpdateHostSet client height entries => update_host_validators s client height entries
  | OSetExecs l => Some (set_execs s l)
  | OSetInfo i => Some (set_info s i)
  | OCreatePair cp => create_pair s cp
  | ORemovePair cp => remove_pair s cp
  end.

(* [step] returns the unchanged state on error *)
Definition step (s : ostate) (o : oop) : ostate * bool :=
  match handle s o with
  | Some s' => (s', true)
  | None => (s, false)
  end.

Definition run (s : ostate) (h : list oop) : ostate := fold_left (λ s o, (step s o).1) h s.

Definition oinit : ostate := {| execs := []; info := None; hheight := None; hset := ∅; quotes := ∅ |}.
