(* A small model of Go byte slices, and the node-hash / root-from-proof code of
   x/ophost/types/output.go transcribed against it (C17: verification is pure and does not
   depend on how the caller laid the bytes out in memory).

   heap    : the byte buffers allocated so far (index = identity of the backing array)
   slice   : (buffer, offset, length, capacity) - capacity counted from the offset, as in Go
   read    : the byte values a slice denotes
   append  : Go's append(s, data...): writes IN PLACE behind the slice when the capacity allows
             (whatever lives there - e.g. the next proof of a shared buffer - is overwritten),
             otherwise copies into a fresh buffer whose capacity [grow n] the runtime chooses
   make    : make([]byte, 0, n)
   A local array variable ([32]byte) that is sliced (data[:]) is a buffer of its own.

   [go_node_hash] / [go_root_from_proofs] are the CURRENT code (after the fix: commit 617a8e1);
   [go_node_hash_old] / [go_root_from_proofs_old] the code before it (append(b, a...)).
   Definitions only. *)
From Coq Require Import List Arith NArith Bool.
Require Import Model.Bytes Model.Hashes.
Import ListNotations.

Definition heap := list bytes.
Record slice := { s_buf : nat; s_off : nat; s_len : nat; s_cap : nat }.

Definition buf_of (h : heap) (k : nat) : bytes := nth k h [].
Definition read (h : heap) (s : slice) : bytes :=
  firstn (s_len s) (skipn (s_off s) (buf_of h (s_buf s))).

(* a slice of an allocated buffer, within its bounds *)
Definition wf_slice (h : heap) (s : slice) : Prop :=
  s_buf s < length h /\ s_len s <= s_cap s /\ s_off s + s_cap s <= length (buf_of h (s_buf s)).

Fixpoint upd (h : heap) (k : nat) (b : bytes) : heap :=
  match h, k with
  | [], _ => []
  | _ :: t, O => b :: t
  | x :: t, S k' => x :: upd t k' b
  end.

Definition write_at (b : bytes) (off : nat) (data : bytes) : bytes :=
  firstn off b ++ data ++ skipn (off + length data) b.

Section Go.
  Variable H : bytes -> bytes.          (* sha3.Sum256 *)
  Variable grow : nat -> nat.           (* capacity the runtime picks when it must reallocate *)

  Definition go_make (h : heap) (n : nat) : heap * slice :=
    (h ++ [repeat 0%N n], {| s_buf := length h; s_off := 0; s_len := 0; s_cap := n |}).

  (* a local array variable holding v, sliced in full: v[:] *)
  Definition go_alloc (h : heap) (v : bytes) : heap * slice :=
    (h ++ [v], {| s_buf := length h; s_off := 0; s_len := length v; s_cap := length v |}).

  Definition go_append (h : heap) (s : slice) (data : bytes) : heap * slice :=
    let n := s_len s + length data in
    if n <=? s_cap s then
      (upd h (s_buf s) (write_at (buf_of h (s_buf s)) (s_off s + s_len s) data),
       {| s_buf := s_buf s; s_off := s_off s; s_len := n; s_cap := s_cap s |})
    else
      (h ++ [read h s ++ data ++ repeat 0%N (grow n - n)],
       {| s_buf := length h; s_off := 0; s_len := n; s_cap := n + (grow n - n) |}).

  (* array assignment: the array variable behind [s] now holds [v] *)
  Definition go_assign (h : heap) (s : slice) (v : bytes) : heap := upd h (s_buf s) v.

  (* func GenerateNodeHash(a, b []byte) [32]byte {
       seed := make([]byte, 0, len(a)+len(b))
       switch bytes.Compare(a, b) {
       case 0, 1: seed = append(append(seed, b...), a...)
       case -1:   seed = append(append(seed, a...), b...)
       }
       return sha3.Sum256(seed) } *)
  Definition go_node_hash (h : heap) (a b : slice) : heap * bytes :=
    let '(h1, seed) := go_make h (s_len a + s_len b) in
    if lexle (read h1 b) (read h1 a) then
      let '(h2, s2) := go_append h1 seed (read h1 b) in
      let '(h3, s3) := go_append h2 s2 (read h2 a) in
      (h3, H (read h3 s3))
    else
      let '(h2, s2) := go_append h1 seed (read h1 a) in
      let '(h3, s3) := go_append h2 s2 (read h2 b) in
      (h3, H (read h3 s3)).

  (* before the fix:
       case 0, 1: data = sha3.Sum256(append(b, a...))
       case -1:   data = sha3.Sum256(append(a, b...)) *)
  Definition go_node_hash_old (h : heap) (a b : slice) : heap * bytes :=
    if lexle (read h b) (read h a) then
      let '(h1, s1) := go_append h b (read h a) in (h1, H (read h1 s1))
    else
      let '(h1, s1) := go_append h a (read h b) in (h1, H (read h1 s1)).

  (* func GenerateRootHashFromProofs(data [32]byte, proofs [][]byte) [32]byte {
       for _, proof := range proofs { data = GenerateNodeHash(data[:], proof) }
       return data } *)
  Section Loop.
    Variable node_hash : heap -> slice -> slice -> heap * bytes.
    Fixpoint go_root_loop (h : heap) (data : slice) (proofs : list slice) : heap :=
      match proofs with
      | [] => h
      | p :: ps => let '(h1, d) := node_hash h data p in go_root_loop (go_assign h1 data d) data ps
      end.
    Definition go_root_with (h : heap) (leaf : bytes) (proofs : list slice) : heap * bytes :=
      let '(h0, data) := go_alloc h leaf in
      let h' := go_root_loop h0 data proofs in (h', read h' data).
  End Loop.

  Definition go_root_from_proofs := go_root_with go_node_hash.
  Definition go_root_from_proofs_old := go_root_with go_node_hash_old.
End Go.
