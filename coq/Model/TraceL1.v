(* Replaying a recorded L1 trace on the model and projecting the observables exactly as the
   Go harness prints them (harness/l1ops.go L1Obs). *)
From stdpp Require Import gmap numbers list sorting.
From Coq Require Import ZArith String.
Require Import Model.Bytes Model.Obs Model.Bank Model.Hashes Model.Sha3 Model.L1.

Record l1case := {
  k_table : list (bytes * N);
  k_gov : bytes; k_pool : N;
  k_parse : list (bytes * option (list (bytes * bytes)));  (* metadata -> independent strict decode *)
  k_bals : list (N * bytes * Z);
  k_chans : list (bytes * bytes * N);
  k_accts : list N; k_denoms : list bytes; k_bridges : list N;
  k_claims : list (N * bytes);
  k_channels : list (bytes * bytes);
  k_ops : list (env * msg);
}.

Definition table_resolve (t : list (bytes * N)) (s : bytes) : option N :=
  snd <$> List.find (λ p, bytes_eqb p.1 s) t.
Definition table_parse (t : list (bytes * option (list (bytes * bytes)))) (md : bytes) : option (list (bytes * bytes)) :=
  match List.find (λ p, bytes_eqb p.1 md) t with Some (_, r) => r | None => None end.

Definition escrow_id (b : N) : N := (1000 + b)%N.

Definition cfg_of (k : l1case) : cfg :=
  {| resolve := table_resolve (k_table k); gov := k_gov k; escrow := escrow_id; pool := k_pool k;
     hash := sha3_256; parse := table_parse (k_parse k) |}.

Definition init_of (k : l1case) : l1state :=
  {| bk := {| bal := list_to_map (map (λ x, ((x.1.1, x.1.2), x.2)) (k_bals k)); sup := ∅ |};
     next_bridge := 1; configs := ∅; next_seq := ∅; next_out := ∅; outputs := ∅; proven := ∅;
     pairs := ∅; batches := ∅; regfee := [];
     chans := list_to_map (map (λ x, ((x.1.1, x.1.2), x.2)) (k_chans k)); admins := ∅;
     elog := []; plog := [] |}.

Definition resp_ov (r : resp) : ov :=
  match r with RNone => OS "-" | RId n => ON n | RFinal i l2 => OL [ON i; ON l2] end.
Definition result_ov (r : result) : ov :=
  match r with Err => OS "ERR" | Ok x => OL [OS "OK"; resp_ov x] end.

Definition idx_le {A} (a b : N * A) : Prop := (a.1 ≤ b.1)%N.
Global Instance idx_le_dec {A} (a b : N * A) : Decision (idx_le a b).
Proof. unfold idx_le; apply _. Defined.
Definition bytes_le {A} (a b : bytes * A) : Prop := lexle a.1 b.1 = true.
Global Instance bytes_le_dec {A} (a b : bytes * A) : Decision (bytes_le a b).
Proof. unfold bytes_le; apply _. Defined.

Definition output_ov (io : N * output) : ov :=
  OL [ON io.1; OB (o_root io.2); ON (o_l1h io.2); OZ (o_time io.2); ON (o_l2 io.2)].
Definition config_ov (x : config) : ov :=
  OL [OB (c_proposer x); OB (c_challenger x); OZ (c_period x); obool (c_oracle x); OB (c_meta x);
      OB (b_submitter (c_batch x)); ON (b_chain (c_batch x))].

Definition bridge_outputs (s : l1state) (b : N) : list (N * output) :=
  merge_sort idx_le (omap (λ kv, if bool_decide (kv.1.1 = b) then Some (kv.1.2, kv.2) else None)
                          (map_to_list (outputs s))).
Definition bridge_pairs (s : l1state) (b : N) : list (bytes * bytes) :=
  merge_sort bytes_le (omap (λ kv, if bool_decide (kv.1.1 = b) then Some (kv.1.2, kv.2) else None)
                            (map_to_list (pairs s))).
Definition bridge_batches (s : l1state) (b : N) : list (N * (batch * output)) :=
  merge_sort idx_le (omap (λ kv, if bool_decide (kv.1.1 = b) then Some (kv.1.2, kv.2) else None)
                          (map_to_list (batches s))).

Definition bridge_ov (c : cfg) (e : env) (s : l1state) (b : N) : ov :=
  OL [ oopt config_ov (configs s !! b); ON (seq_of s b); ON (out_of s b);
       OL (map output_ov (bridge_outputs s b));
       match configs s !! b with
       | Some x => let '(i, o) := last_final s e b x in OL [ON i; ON (o_l2 o)]
       | None => OL []
       end;
       OL (map (λ p, OL [OB p.1; OB p.2]) (bridge_pairs s b));
       OL (map (λ ib, OL [ON ib.1; OB (b_submitter ib.2.1); ON (b_chain ib.2.1); ON (o_l2 ib.2.2); OB (o_root ib.2.2)])
               (bridge_batches s b)) ].

Definition devent_ov (d : devent) : ov :=
  OL [ON (e_bridge d); ON (e_seq d); OB (e_from d); OB (e_to d); OB (e_l1denom d); OB (e_l2denom d);
      OZ (e_amt d); OB (e_data d)].

Definition l1_obs (k : l1case) (c : cfg) (e : env) (s0 s : l1state) (r : result) : ov :=
  OL [ result_ov r; ON (next_bridge s);
       OL (flat_map (λ a, map (λ d, OZ (getb (bk s) a d)) (k_denoms k)) (k_accts k));
       OL (map (bridge_ov c e s) (k_bridges k));
       OL (map (λ bh, obool (bool_decide (bh ∈ proven s))) (k_claims k));
       OL (map devent_ov (rev (firstn (List.length (elog s) - List.length (elog s0)) (elog s))));
       OL (map (λ pc, oopt ON (admins s !! pc)) (k_channels k));
       OL (map (λ p, OL [OB p.1; OZ p.2]) (regfee s)) ].

Fixpoint run_obs (k : l1case) (c : cfg) (s : l1state) (ops : list (env * msg)) : list ov :=
  match ops with
  | [] => []
  | (e, m) :: ops' => let '(s', r) := step c e s m in l1_obs k c e s s' r :: run_obs k c s' ops'
  end.

Definition run_l1case (k : l1case) : list ov := run_obs k (cfg_of k) (init_of k) (k_ops k).
