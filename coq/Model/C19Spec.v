(* C19 - the rules by which an entry of the IBC permission table (channel -> relayer admin)
   may change on L1, and the stronger reading of the title that the code does NOT satisfy.
   Definitions only; theorems in Properties/C19.v. *)
From stdpp Require Import gmap numbers list.
From Coq Require Import ZArith.
Require Import Model.Bytes Model.Bank Model.Hashes Model.L1.

(* [pc]'s entry differs between [s] and [s'] = the state after message [m]: which rule made it *)
Inductive admin_change_rule (c : cfg) (s : l1state) (m : msg) (s' : l1state) (pc : bytes * bytes) : Prop :=
(* another module (modelled as an environment operation) set or cleared it *)
| rule_environment a :
    m = MAdminSet pc a → admin_change_rule c s m s' pc
(* grant on creation: listed, fresh (next send = 1), no admin yet -> the new bridge's challenger *)
| rule_grant_on_create creator x chs a :
    m = MCreateBridge creator x → parse c (c_meta x) = Some chs → pc ∈ chs →
    resolve c (c_challenger x) = Some a →
    chans s !! pc = Some 1%N → admins s !! pc = None → admins s' !! pc = Some a →
    admin_change_rule c s m s' pc
(* grant on a metadata update: listed in the NEW metadata, fresh, no admin yet -> the bridge's challenger *)
| rule_grant_on_metadata auth b md x chs a :
    m = MUpdateMetadata auth b md → configs s !! b = Some x → parse c md = Some chs → pc ∈ chs →
    resolve c (c_challenger x) = Some a →
    chans s !! pc = Some 1%N → admins s !! pc = None → admins s' !! pc = Some a →
    admin_change_rule c s m s' pc
(* handover: listed in the STORED metadata of the bridge whose challenger changes -> the new challenger *)
| rule_handover auth b p x chs a :
    m = MUpdateChallenger auth b p → configs s !! b = Some x → parse c (c_meta x) = Some chs → pc ∈ chs →
    resolve c p = Some a → admins s' !! pc = Some a →
    admin_change_rule c s m s' pc.

(* histories without grants by other modules *)
Definition no_adminset (h : list (env * msg)) : Prop :=
  Forall (λ em, match em.2 with MAdminSet _ _ => False | _ => True end) h.

Definition all_ok (rs : list result) : Prop :=
  Forall (λ r, match r with Ok _ => True | Err => False end) rs.

(* the strong reading of "the admin follows the challenger; no channel capture": the admin of
   every channel listed by a bridge is that bridge's current challenger *)
Definition admin_follows_challenger (c : cfg) (s : l1state) : Prop :=
  ∀ b x chs pc, configs s !! b = Some x → parse c (c_meta x) = Some chs → pc ∈ chs →
                admins s !! pc = resolve c (c_challenger x).

(* ---- the capture history of DESIGN.md section 7 as concrete data ---- *)
Definition w_ch : bytes * bytes := ([80%N], [81%N]).
Definition w_md : bytes := [7%N].
Definition w_cfg : cfg :=
  {| resolve := λ a, match a with [n] => if (n <? 10)%N then Some n else None | _ => None end;
     gov := [9%N]; escrow := λ b, (1000 + b)%N; pool := 101%N; hash := λ x, x;
     parse := λ md, if bool_decide (md = w_md) then Some [w_ch] else None |}.
Definition w_config (proposer challenger md : bytes) : config :=
  {| c_proposer := proposer; c_challenger := challenger; c_period := 1000000000; c_interval := 1; c_start := 1;
     c_batch := {| b_submitter := proposer; b_chain := 1 |}; c_oracle := false; c_meta := md |}.
Definition w_env : env := {| now := 0; height := 1 |}.
(* C = [1] is challenger of bridge 1; governance = [9] replaces it by C' = [2]; C moves the
   channel to its new address D = [3] through bridge 2 *)
Definition w_history : list (env * msg) :=
  [ (w_env, MChanSet w_ch (Some 1%N));                         (* the channel exists and is fresh *)
    (w_env, MCreateBridge [5%N] (w_config [4%N] [1%N] w_md));  (* bridge 1 lists it: admin := C *)
    (w_env, MCreateBridge [5%N] (w_config [1%N] [1%N] []));    (* bridge 2, proposer = challenger = C *)
    (w_env, MUpdateMetadata [1%N] 2%N w_md);                   (* bridge 2 lists the same channel: allowed, C is its admin *)
    (w_env, MUpdateChallenger [9%N] 1%N [2%N]);                (* governance replaces C on bridge 1: admin := C' *)
    (w_env, MUpdateChallenger [1%N] 2%N [3%N]) ].              (* C hands bridge 2 to D: admin := D *)
