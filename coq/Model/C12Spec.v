(* C12 - the authorization tables, written to read like the property text.  Definitions
   only; the theorems about them are in Properties/C12.v, the proofs in Proofs/C12*.v. *)
From stdpp Require Import gmap numbers list.
From Coq Require Import ZArith.
Require Import Model.Bytes Model.Bank Model.Valset Model.L1 Model.L2.

(* ------------------------------------------------------------------------------------ *)
(* L1 (ophost)                                                                            *)
(* ------------------------------------------------------------------------------------ *)

(* the field carrying the cosmos.msg.v1.signer annotation; the environment operations
   (bank transfer, other modules touching the IBC keepers) have no signer *)
Definition l1_signer (m : L1.msg) : bytes :=
  match m with
  | L1.MCreateBridge creator _ => creator
  | L1.MPropose proposer _ _ _ _ => proposer
  | L1.MDelete challenger _ _ => challenger
  | L1.MDeposit sender _ _ _ _ _ => sender
  | L1.MFinalize sender _ _ _ _ _ _ _ _ _ _ _ => sender
  | L1.MUpdateProposer a _ _ => a
  | L1.MUpdateChallenger a _ _ => a
  | L1.MUpdateBatchInfo a _ _ => a
  | L1.MUpdateOracle a _ _ => a
  | L1.MUpdateMetadata a _ _ => a
  | L1.MUpdateParams a _ => a
  | L1.MRecordBatch sub _ _ => sub
  | L1.MBankSend _ _ _ _ | L1.MChanSet _ _ | L1.MAdminSet _ _ => []
  end.

(* the same message with another declared signer (every other field untouched) *)
Definition l1_with_signer (m : L1.msg) (a : bytes) : L1.msg :=
  match m with
  | L1.MCreateBridge _ x => L1.MCreateBridge a x
  | L1.MPropose _ b i l r => L1.MPropose a b i l r
  | L1.MDelete _ b i => L1.MDelete a b i
  | L1.MDeposit _ b t d x y => L1.MDeposit a b t d x y
  | L1.MFinalize _ b i q p f t d x v s h => L1.MFinalize a b i q p f t d x v s h
  | L1.MUpdateProposer _ b p => L1.MUpdateProposer a b p
  | L1.MUpdateChallenger _ b p => L1.MUpdateChallenger a b p
  | L1.MUpdateBatchInfo _ b bi => L1.MUpdateBatchInfo a b bi
  | L1.MUpdateOracle _ b f => L1.MUpdateOracle a b f
  | L1.MUpdateMetadata _ b md => L1.MUpdateMetadata a b md
  | L1.MUpdateParams _ fee => L1.MUpdateParams a fee
  | L1.MRecordBatch _ b d => L1.MRecordBatch a b d
  | other => other
  end.

(* the roles, read from the state at the moment of the message; L1 compares STRINGS *)
Definition is_gov (c : L1.cfg) (a : bytes) : Prop := L1.gov c = a.
Definition is_proposer (s : l1state) (b : N) (a : bytes) : Prop :=
  ∃ x, configs s !! b = Some x ∧ c_proposer x = a.
Definition is_challenger (s : l1state) (b : N) (a : bytes) : Prop :=
  ∃ x, configs s !! b = Some x ∧ c_challenger x = a.

(* which messages are permissioned at all *)
Definition l1_permissioned (m : L1.msg) : bool :=
  match m with
  | L1.MPropose _ _ _ _ _ | L1.MDelete _ _ _ | L1.MUpdateProposer _ _ _ | L1.MUpdateChallenger _ _ _
  | L1.MUpdateBatchInfo _ _ _ | L1.MUpdateOracle _ _ _ | L1.MUpdateMetadata _ _ _
  | L1.MUpdateParams _ _ => true
  | _ => false
  end.

(* THE TABLE (L1) *)
Definition allowed_l1 (c : L1.cfg) (s : l1state) (m : L1.msg) (a : bytes) : Prop :=
  match m with
  (* proposing needs the current proposer *)
  | L1.MPropose _ b _ _ _ => is_proposer s b a
  (* deleting needs governance, proposer or challenger *)
  | L1.MDelete _ b _ => is_gov c a ∨ is_proposer s b a ∨ is_challenger s b a
  (* proposer / batch-info / metadata / oracle-flag updates need governance or the proposer *)
  | L1.MUpdateProposer _ b _ | L1.MUpdateBatchInfo _ b _ | L1.MUpdateMetadata _ b _
  | L1.MUpdateOracle _ b _ => is_gov c a ∨ is_proposer s b a
  (* challenger updates need governance or the challenger *)
  | L1.MUpdateChallenger _ b _ => is_gov c a ∨ is_challenger s b a
  (* parameter updates need governance *)
  | L1.MUpdateParams _ _ => is_gov c a
  (* everything else is open to any signer *)
  | _ => True
  end.

(* ------------------------------------------------------------------------------------ *)
(* L2 (opchild)                                                                           *)
(* ------------------------------------------------------------------------------------ *)

Definition l2_signer (m : L2.msg) : bytes := default [] (signer_of m).

(* "a listed bridge executor": the signer decodes to the same address BYTES as an entry of
   the executor list of the current params *)
Definition listed_executor (c : L2.cfg) (s : l2state) (a : bytes) : Prop :=
  ∃ id e, L2.resolve c a = Some id ∧ e ∈ p_execs (prm s) ∧ L2.resolve c e = Some id.
(* the module authority and the admin are compared as STRINGS *)
Definition is_module_authority (c : L2.cfg) (a : bytes) : Prop := authority c = a.
Definition is_current_admin (s : l2state) (a : bytes) : Prop := p_admin (prm s) = a.
(* an inner message of a batch: its sole declared signer decodes to the authority's bytes *)
Definition signed_by_authority (c : L2.cfg) (im : L2.msg) : Prop :=
  ∃ sg au, signer_of im = Some sg ∧ L2.resolve c sg = Some au ∧ L2.resolve c (authority c) = Some au.

Definition l2_permissioned (m : L2.msg) : bool :=
  match m with
  | MWithdraw _ _ _ _ | L2.MBankSend _ _ _ _ => false
  | _ => true
  end.

(* THE TABLE (L2) *)
Definition allowed_l2 (c : L2.cfg) (s : l2state) (m : L2.msg) (a : bytes) : Prop :=
  match m with
  (* deposit finalization and bridge-info updates need a listed bridge executor *)
  | MFinalizeDeposit _ | MSetBridgeInfo _ _ => listed_executor c s a
  (* validator / param / fee-pool messages need the module authority *)
  | L2.MUpdateParams _ _ | MAddValidator _ _ _ | MRemoveValidator _ _ | MSpendFeePool _ _ _ =>
      is_module_authority c a
  (* batched execution needs the admin and only carries messages signed by the authority *)
  | MExecute _ inner => is_current_admin s a ∧ Forall (signed_by_authority c) inner
  | MWithdraw _ _ _ _ | L2.MBankSend _ _ _ _ => True
  end.

(* the inner messages of a batch applied one after the other; None as soon as one fails *)
Fixpoint fold_handle (c : L2.cfg) (s : l2state) (l : list L2.msg) : option l2state :=
  match l with
  | [] => Some s
  | m :: l' => match L2.handle c s m with
               | Some (s1, _) => fold_handle c s1 l'
               | None => None
               end
  end.

(* L2 histories with block boundaries: messages and end blockers (with or without an
   executor-change plan).  A failing end blocker leaves the state as it was. *)
Inductive l2ev := EMsg (m : L2.msg) | EEnd (pl : option plan).
Definition step_ev (c : L2.cfg) (s : l2state) (ev : l2ev) : l2state :=
  match ev with
  | EMsg m => (L2.step c s m).1
  | EEnd pl => match end_block c s pl with Some (s', _) => s' | None => s end
  end.
Definition run_ev (c : L2.cfg) (s : l2state) (h : list l2ev) : l2state := foldl (step_ev c) s h.

(* the binding of the L2 to its bridge is kept from [o] to [o']: once set, bridge id, bridge
   address and L1 chain id are the same, and so is the L1 client id once it is non-empty *)
Definition binding_kept (o o' : option binfo) : Prop :=
  match o with
  | None => True
  | Some bi => ∃ bi', o' = Some bi' ∧ bi_id bi' = bi_id bi ∧ bi_addr bi' = bi_addr bi ∧
                      bi_chain bi' = bi_chain bi ∧ (bi_client bi ≠ [] → bi_client bi' = bi_client bi)
  end.
