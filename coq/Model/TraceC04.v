(* C04 correspondence: an L1 case (replayed by Model/TraceL1.v) followed by the model's own
   reconstruction of the withdrawal tree from the recorded L2 withdrawal events: the leaves,
   the root ([Merkle.build]) and the proofs of the listed positions ([Merkle.prove]), all with
   the Gallina SHA3-256.  The harness appends what its independent tree builder computed to
   the expected list.  Definitions only. *)
From stdpp Require Import gmap numbers list.
From Coq Require Import ZArith String.
Require Import Model.Bytes Model.Obs Model.Hashes Model.Merkle Model.Sha3 Model.L1 Model.TraceL1.

(* a recorded withdrawal event as the executor reads it: sequence, from, to, BASE denom, amount *)
Record wev := { v_seq : N; v_from : bytes; v_to : bytes; v_base : bytes; v_amt : Z }.

Record c04case := {
  q_l1 : l1case;
  q_bridge : N;
  q_events : list wev;        (* in L2-sequence order *)
  q_pos : list N;             (* positions whose proof is rebuilt *)
}.

Definition wev_leaf (b : N) (w : wev) : bytes :=
  leaf_hash sha3_256 b (v_seq w) (v_from w) (v_to w) (v_base w) (Z.to_N (v_amt w)).

Definition tree_obs (k : c04case) : list ov :=
  let ls := map (wev_leaf (q_bridge k)) (q_events k) in
  [ OL (map OB ls);
    OB (build sha3_256 ls);
    OL (map (λ i, OL (map OB (prove sha3_256 ls (N.to_nat i)))) (q_pos k)) ].

Definition run_c04case (k : c04case) : list ov := run_l1case (q_l1 k) ++ tree_obs k.
