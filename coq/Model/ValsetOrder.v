(* The validator-set end blocker with the iteration order of the Go map made explicit
   (property C18).  In x/opchild/keeper/val_state_change.go the operators that are no longer
   bonded are the keys left in the Go map [last]; sortNoLongerBonded ranges over that map (in
   whatever order the runtime picks) and sorts the keys before the second loop runs.
   [iter] stands for the runtime's enumeration of a map: any function that returns the
   entries in some order.  Definitions only. *)
From stdpp Require Import gmap numbers sorting.
From Coq Require Import ZArith.
Require Import Model.Valset.

(* Valset.end_block_updates with the enumeration order as a parameter and the sort applied to
   it, as the code does *)
Definition end_block_updates_iter (iter : gmap N Z → list (N * Z)) (s : vstate)
  : option (vstate * list update) :=
  let '(s1, ups, rest) := foldl (pass1_step (last s)) (s, [], last s) (sorted_ops (vals s)) in
  foldl pass2_step (Some (s1, ups)) (map fst (merge_sort key_le (iter rest))).

(* the same with the sort removed: the second loop follows the runtime's order directly *)
Definition end_block_updates_unsorted (iter : gmap N Z → list (N * Z)) (s : vstate)
  : option (vstate * list update) :=
  let '(s1, ups, rest) := foldl (pass1_step (last s)) (s, [], last s) (sorted_ops (vals s)) in
  foldl pass2_step (Some (s1, ups)) (map fst (iter rest)).

(* an enumeration of maps: every entry exactly once, in any order *)
Definition is_enumeration (iter : gmap N Z → list (N * Z)) : Prop :=
  ∀ m, iter m ≡ₚ map_to_list m.
