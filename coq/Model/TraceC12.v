(* C12 replays L2 cases with a wider observation block than TraceL2: after every step also
   the admin, the executor list, the bridge binding and the validator table summary
   (harness/gen_c12.go c12L2Extra prints the same).  Definitions only. *)
From stdpp Require Import gmap numbers list.
From Coq Require Import ZArith String.
Require Import Model.Bytes Model.Obs Model.Bank Model.Valset Model.L2 Model.TraceL2.

Definition binfo_ov (bi : binfo) : ov :=
  OL [ON (bi_id bi); OB (bi_addr bi); OB (bi_chain bi); OB (bi_client bi); obool (bi_oracle bi)].

Definition c12_extra (s : l2state) : ov :=
  OL [ OB (p_admin (prm s)); OL (map OB (p_execs (prm s))); oopt binfo_ov (info s);
       ON (N.of_nat (size (vals (vs s))));
       OZ (map_fold (λ _ v acc, (acc + v_pow v)%Z) 0%Z (vals (vs s))) ].

Fixpoint run_obs12 (c : l2case) (cf : cfg) (s : l2state) (ops : list msg) : list ov :=
  match ops with
  | [] => []
  | m :: ops' => let '(s', r) := step cf s m in
                 OL [l2_obs c s s' r; c12_extra s'] :: run_obs12 c cf s' ops'
  end.

Definition run_c12l2case (c : l2case) : list ov := run_obs12 c (cfg_of c) (init_of c) (c_ops c).

(* ---- histories with block ends (executor-change plans): the events of Model/C12Spec ---- *)
Require Import Model.C12Spec.

Definition ev_obs (c : l2case) (cf : cfg) (s : l2state) (ev : l2ev) : l2state * ov :=
  match ev with
  | EMsg m => let '(s', r) := step cf s m in (s', OL [l2_obs c s s' r; c12_extra s'])
  | EEnd pl => match end_block cf s pl with
               | Some (s', _) => (s', OL [OS "END-OK"; c12_extra s'])
               | None => (s, OL [OS "END-ERR"; c12_extra s])
               end
  end.

Fixpoint run_evs (c : l2case) (cf : cfg) (s : l2state) (evs : list l2ev) : list ov :=
  match evs with
  | [] => []
  | ev :: evs' => let '(s', o) := ev_obs c cf s ev in o :: run_evs c cf s' evs'
  end.

Definition run_c12evcase (x : l2case * list l2ev) : list ov :=
  run_evs x.1 (cfg_of x.1) (init_of x.1) x.2.

