(* x/bank as the two modules use it: balances and supply, exact-or-nothing sends, mint, burn.
   Amounts are Z (math.Int is signed); account ids are N.  Definitions only. *)
From stdpp Require Import gmap numbers.
From Coq Require Import ZArith.
Require Import Model.Bytes.

Definition denom := bytes.

(* sdk.ValidateDenom: [a-zA-Z][a-zA-Z0-9/:._-]{2,127} *)
Definition is_alpha (n : N) : bool := ((65 <=? n) && (n <=? 90) || (97 <=? n) && (n <=? 122))%N.
Definition is_digit (n : N) : bool := ((48 <=? n) && (n <=? 57))%N.
Definition denom_char (n : N) : bool :=
  (is_alpha n || is_digit n || (n =? 47) || (n =? 58) || (n =? 46) || (n =? 95) || (n =? 45))%N.
Definition valid_denom (d : bytes) : bool :=
  match d with
  | c :: rest => is_alpha c && (2 <=? length rest)%nat && (length rest <=? 127)%nat && forallb denom_char rest
  | [] => false
  end.
(* sdk.Coin.IsValid *)
Definition coin_valid (d : bytes) (amt : Z) : bool := valid_denom d && (0 <=? amt)%Z.

Record bank := { bal : gmap (N * denom) Z; sup : gmap denom Z }.
Definition bank_empty : bank := {| bal := ∅; sup := ∅ |}.
Definition getb (b : bank) (a : N) (d : denom) : Z := default 0%Z (bal b !! (a, d)).
Definition gets (b : bank) (d : denom) : Z := default 0%Z (sup b !! d).

Definition credit (b : bank) (a : N) (d : denom) (amt : Z) : bank :=
  {| bal := <[(a, d) := (getb b a d + amt)%Z]> (bal b); sup := sup b |}.
Definition debit (b : bank) (a : N) (d : denom) (amt : Z) : option bank :=
  if (getb b a d <? amt)%Z then None
  else Some {| bal := <[(a, d) := (getb b a d - amt)%Z]> (bal b); sup := sup b |}.

(* SendCoins of one coin of positive amount *)
Definition bank_send (b : bank) (from to : N) (d : denom) (amt : Z) : option bank :=
  b1 ← debit b from d amt; Some (credit b1 to d amt).

Definition bank_mint (b : bank) (macc : N) (d : denom) (amt : Z) : bank :=
  let b1 := credit b macc d amt in
  {| bal := bal b1; sup := <[d := (gets b d + amt)%Z]> (sup b1) |}.
Definition bank_burn (b : bank) (macc : N) (d : denom) (amt : Z) : option bank :=
  b1 ← debit b macc d amt;
  Some {| bal := bal b1; sup := <[d := (gets b d - amt)%Z]> (sup b1) |}.
