(* Replaying a recorded validator-set trace (streams C13, C14) on the model and projecting the
   observables exactly as the Go harness prints them (harness/gen_c13.go valSnap.Ov). *)
From stdpp Require Import gmap numbers list sorting.
From Coq Require Import ZArith String.
Require Import Model.Bytes Model.Obs Model.Bank Model.Valset Model.L2 Model.ValChain Model.Plans.

Inductive tvop :=
| TOp (o : vop)                    (* authority message through the msg server *)
| TBegin (h : Z)                   (* opchild.BeginBlocker at height h *)
| TEnd (h : Z)                     (* opchild.EndBlocker at height h; the batch goes to the engine *)
| TRegister (r : plan_req)         (* Keeper.RegisterExecutorChangePlan *)
| TEngine (ups : list update)      (* a batch given to the engine directly (validates engine_apply) *)
| TProbeExec (sender : bytes)      (* a FinalizeTokenDeposit by [sender] on a discarded branch: is it an executor? *)
| TDryBlock (h : Z).               (* BeginBlocker + EndBlocker at height h on a cache branch that is
                                      DISCARDED (a rejected proposal, a simulation): no effect at all *)

Record valcase := {
  tc_table : list (bytes * N);     (* valid account address strings -> id *)
  tc_auth : bytes;
  tc_params : params;              (* full module params; MaxValidators / HistoricalEntries from the genesis *)
  tc_genesis : vgenesis;
  tc_nops : N; tc_nkeys : N;       (* operator ids 1..nops and key ids 1..nkeys are queried *)
  tc_ops : list tvop;
}.

Record tvstate := {
  t_l2 : l2state; t_hist : gmap Z hrec; t_eng : engine; t_plans : plan_table;
}.

Definition cfg_of (c : valcase) : cfg :=
  {| resolve := λ s, snd <$> List.find (λ p, bytes_eqb p.1 s) (tc_table c);
     blocked := λ _, false; authority := tc_auth c; modacc := 100; feecol := 101 |}.

Definition core_of (s : l2state) : vcore :=
  {| vc_vs := vs s; vc_maxv := p_maxv (prm s); vc_entries := p_hist (prm s) |}.
Definition with_core (s : l2state) (c : vcore) : l2state :=
  set_prm (set_vs s (vc_vs c))
    {| p_admin := p_admin (prm s); p_execs := p_execs (prm s); p_maxv := vc_maxv c; p_hist := vc_entries c;
       p_mingas := p_mingas (prm s); p_whitelist := p_whitelist (prm s); p_hookgas := p_hookgas (prm s) |}.

Definition l2_empty (p : params) : l2state :=
  {| bk := {| bal := ∅; sup := ∅ |}; next_l1 := 1; next_l2 := 1; pairs := ∅; prm := p; info := None;
     vs := vempty; seqs := ∅; wlog := []; dlog := [] |}.

(* ---- printing ---- *)
Definition zkey_le {A} (a b : Z * A) : Prop := (a.1 ≤ b.1)%Z.
Global Instance zkey_le_dec {A} (a b : Z * A) : Decision (zkey_le a b).
Proof. unfold zkey_le; apply _. Defined.

Definition kp_ov (x : N * Z) : ov := OL [ON x.1; OZ x.2].
Definition set_ov (e : gmap N Z) : ov := OL (map kp_ov (sorted_ops e)).
Definition batch_ov (u : list update) : ov := OL (map kp_ov u).
Definition hrec_ov (r : hrec) : ov := OL (map kp_ov (merge_sort key_le r)).

Definition upto1 (n : N) : list N := map (λ i, N.of_nat (S i)) (seq 0 (N.to_nat n)).

Definition state_ov (c : valcase) (st : tvstate) : list ov :=
  let s := vs (t_l2 st) in
  [ OL (map (λ ov_, OL [ON ov_.1; ON (v_key ov_.2); OZ (v_pow ov_.2)]) (sorted_ops (vals s)));
    OL (map (λ x, OL [ON x.1; ON x.2]) (sorted_ops (idx s)));
    set_ov (last s);
    (* Validator(op) for every operator id *)
    OL (map (λ op, oopt (λ v, OL [ON (v_key v); OZ (v_pow v)]) (vals s !! op)) (upto1 (tc_nops c)));
    (* ValidatorByConsAddr(key) for every key id: operator, key and power of the record found *)
    OL (map (λ k, oopt (λ x, x)
                    (op ← idx s !! k; v ← vals s !! op; Some (OL [ON op; ON (v_key v); OZ (v_pow v)])))
            (upto1 (tc_nkeys c)));
    OL [ON (p_maxv (prm (t_l2 st))); ON (p_hist (prm (t_l2 st)))];
    OL (map OB (p_execs (prm (t_l2 st))));
    OL (map (λ x, OL [OZ x.1; hrec_ov x.2]) (merge_sort zkey_le (map_to_list (t_hist st))));
    set_ov (t_eng st);
    OL (map (λ x, ON x.1) (sorted_ops (t_plans st))) ].

(* observation of one step: verdict, the batch (end block / genesis) and whether the engine
   took it, then the state *)
Definition step_ov (c : valcase) (verdict : string) (batch : option (list update * bool)) (st : tvstate) : ov :=
  OL (OS verdict ::
      match batch with
      | None => OL []
      | Some (u, acc) => OL [batch_ov u; obool acc]
      end :: state_ov c st).

Definition feed_engine (st : tvstate) (ups : list update) : tvstate * bool :=
  match engine_apply (t_eng st) ups with
  | Some e => ({| t_l2 := t_l2 st; t_hist := t_hist st; t_eng := e; t_plans := t_plans st |}, true)
  | None => (st, false)
  end.

Definition tv_step (c : valcase) (st : tvstate) (o : tvop) : tvstate * ov :=
  let err := (st, step_ov c "ERR" None st) in
  match o with
  | TOp v =>
      match vop_step (core_of (t_l2 st)) v with
      | None => err
      | Some c' =>
          let st' := {| t_l2 := with_core (t_l2 st) c'; t_hist := t_hist st; t_eng := t_eng st; t_plans := t_plans st |} in
          (st', step_ov c "OK" None st')
      end
  | TBegin h =>
      let k := core_of (t_l2 st) in
      match begin_block (vc_maxv k) (vc_entries k) h (vc_vs k) (t_hist st) with
      | None => err
      | Some hist' =>
          let st' := {| t_l2 := t_l2 st; t_hist := hist'; t_eng := t_eng st; t_plans := t_plans st |} in
          (st', step_ov c "OK" None st')
      end
  | TEnd h =>
      match end_block_at (cfg_of c) (t_plans st) (t_l2 st) (Z.to_N h) with
      | None => err
      | Some (s', ups) =>
          let st1 := {| t_l2 := s'; t_hist := t_hist st; t_eng := t_eng st; t_plans := t_plans st |} in
          let '(st2, acc) := feed_engine st1 ups in
          (st2, step_ov c "OK" (Some (ups, acc)) st2)
      end
  | TRegister r =>
      match register (cfg_of c) (t_plans st) r with
      | None => err
      | Some t =>
          let st' := {| t_l2 := t_l2 st; t_hist := t_hist st; t_eng := t_eng st; t_plans := t |} in
          (st', step_ov c "OK" None st')
      end
  | TEngine ups =>
      let '(st2, acc) := feed_engine st ups in
      (st2, step_ov c "OK" (Some (ups, acc)) st2)
  | TProbeExec sender =>
      if is_executor (cfg_of c) (t_l2 st) sender then (st, step_ov c "OK" None st) else err
  | TDryBlock h =>
      let k := core_of (t_l2 st) in
      match begin_block (vc_maxv k) (vc_entries k) h (vc_vs k) (t_hist st),
            end_block_at (cfg_of c) (t_plans st) (t_l2 st) (Z.to_N h) with
      | Some _, Some _ => (st, step_ov c "OK" None st)
      | _, _ => err
      end
  end.

Fixpoint tv_run (c : valcase) (st : tvstate) (ops : list tvop) : list ov :=
  match ops with
  | [] => []
  | o :: ops' => let '(st', x) := tv_step c st o in x :: tv_run c st' ops'
  end.

(* first observation: ValidateGenesis verdict; if accepted, InitGenesis (batch to the engine) *)
Definition run_valcase (c : valcase) : list ov :=
  let g := tc_genesis c in
  if negb (validate_genesis g) then [OS "INVALID"] else
  match init_genesis g with
  | None => [OS "PANIC"]
  | Some (k, ups) =>
      let st0 := {| t_l2 := with_core (l2_empty (tc_params c)) k; t_hist := ∅; t_eng := ∅; t_plans := ∅ |} in
      let '(st1, acc) := feed_engine st0 ups in
      step_ov c "OK" (Some (ups, acc)) st1 :: tv_run c st1 (tc_ops c)
  end.
