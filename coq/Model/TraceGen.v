(* Replaying a recorded history on the model, exporting genesis with the model's [export] and
   projecting it exactly as harness/gen_c16.go projects the real ExportGenesis; also the
   model-side round trip (validate, import, export again) evaluated by vm_compute. *)
From stdpp Require Import gmap numbers list sorting.
From Coq Require Import ZArith String.
Require Import Model.Bytes Model.Obs Model.Bank Model.Hashes Model.Sha3 Model.Valset.
Require Model.L1 Model.L2 Model.TraceL1 Model.TraceL2 Model.Genesis1 Model.Genesis2.

Module G1.
  Import Model.L1 Model.TraceL1 Model.Genesis1.

  Global Instance config_eq_dec : EqDecision config.
  Proof. solve_decision. Defined.
  Global Instance output_eq_dec : EqDecision output.
  Proof. solve_decision. Defined.

  Definition config_full_ov (x : config) : ov :=
    OL [OB (c_proposer x); OB (c_challenger x); OZ (c_period x); OZ (c_interval x); ON (c_start x);
        OB (b_submitter (c_batch x)); ON (b_chain (c_batch x)); obool (c_oracle x); OB (c_meta x)].
  Definition out_ov (o : output) : ov := OL [OB (o_root o); ON (o_l1h o); OZ (o_time o); ON (o_l2 o)].
  Definition gbridge_ov (g : gbridge) : ov :=
    OL [ON (g_id g); ON (g_next_seq g); ON (g_next_out g); config_full_ov (g_config g);
        OL (map (λ p, OL [OB p.1; OB p.2]) (g_pairs g));
        OL (map OB (g_proven g));
        OL (map (λ io, OL [ON io.1; out_ov io.2]) (g_outputs g));
        OL (map (λ bo, OL [OB (b_submitter bo.1); ON (b_chain bo.1); out_ov bo.2]) (g_batches g))].
  Definition genesis1_ov (g : genesis1) : ov :=
    OL [OL (map (λ p, OL [OB p.1; OZ p.2]) (g_fee g)); OL (map gbridge_ov (g_bridges g)); ON (g_next_bridge g)].

  (* observations: the export of the reached state; validate; the export of import (export s);
     the ophost components of the re-imported state compared with the original *)
  Definition same_maps (s t : l1state) : bool :=
    bool_decide (configs s = configs t) && bool_decide (outputs s = outputs t) &&
    bool_decide (proven s = proven t) && bool_decide (pairs s = pairs t) &&
    bool_decide (batches s = batches t) && bool_decide (next_bridge s = next_bridge t) &&
    bool_decide (regfee s = regfee t).

  Definition run_gen1 (k : l1case) : list ov :=
    let c := cfg_of k in
    let s := (run c (init_of k) (k_ops k)).1 in
    let g := export s in
    [ genesis1_ov g; obool (validate c g);
      match import c s g with
      | Some f => OL [genesis1_ov (export f); obool (same_maps f s)]
      | None => OS "import-failed"
      end ].
End G1.

Module G2.
  Import Model.L2 Model.TraceL2 Model.Genesis1 Model.Genesis2.

  (* a history of the L2: messages and block ends (EndBlocker without an executor-change plan) *)
  Inductive gop := GMsg (m : msg) | GEnd.
  Record l2gcase := { q_base : l2case; q_ops : list gop }.

  Definition gstep (c : cfg) (s : l2state) (o : gop) : l2state :=
    match o with
    | GMsg m => (step c s m).1
    | GEnd => match end_block c s None with Some (s', _) => s' | None => s end
    end.

  Definition params_ov (p : params) : ov :=
    OL [OB (p_admin p); OL (map OB (p_execs p)); ON (p_maxv p); ON (p_hist p);
        OL (map (λ g, OL [OB g.1; OZ g.2]) (p_mingas p)); OL (map OB (p_whitelist p)); ON (p_hookgas p)].
  Definition binfo_ov (b : binfo) : ov :=
    OL [ON (bi_id b); OB (bi_addr b); OB (bi_chain b); OB (bi_client b); obool (bi_oracle b); OB (bi_cfg b)].
  Definition genesis2_ov (g : genesis2) : ov :=
    OL [params_ov (h_params g);
        OL (map (λ lp : N * Z, OL [ON lp.1; OZ lp.2]) (h_last g));
        OL (map (λ ov : N * val, OL [ON ov.1; ON (v_key ov.2); OZ (v_pow ov.2)]) (h_vals g));
        obool (h_exported g); ON (h_next_l1 g); ON (h_next_l2 g);
        oopt binfo_ov (h_info g);
        OL (map (λ p, OL [OB p.1; OB p.2]) (h_pairs g))].

  Definition same_vs (a b : vstate) : bool :=
    bool_decide (vals a = vals b) && bool_decide (idx a = idx b) && bool_decide (last a = last b).

  Definition run_gen2 (k : l2gcase) : list ov :=
    let c := cfg_of (q_base k) in
    let s := foldl (gstep c) (init_of (q_base k)) (q_ops k) in
    let g := export2 s in
    [ genesis2_ov g; obool (validate2 c g);
      match import2 c s g with
      | Some (f, ups) => OL [genesis2_ov (export2 f); OL (map (λ u : update, OL [ON u.1; OZ u.2]) ups);
                             obool (same_vs (vs f) (vs s) && bool_decide (pairs f = pairs s))]
      | None => OS "import-failed"
      end ].
End G2.
