(* Replaying a recorded history on the model, exporting genesis with the model's [export] and
   projecting it exactly as harness/gen_c16.go projects the real ExportGenesis; also the
   model-side round trip (validate, import, export again) evaluated by vm_compute. *)
From stdpp Require Import gmap numbers list sorting.
From Coq Require Import ZArith String.
Require Import Model.Bytes Model.Obs Model.Bank Model.Hashes Model.Sha3 Model.Valset.
Require Model.L1 Model.L2 Model.TraceL1 Model.TraceL2 Model.Genesis1.

Module G1.
  Import Model.L1 Model.TraceL1 Model.Genesis1.

  Global Instance config_eq_dec : EqDecision config.
  Proof. solve_decision. Defined.
  Global Instance output_eq_dec : EqDecision output.
  Proof. solve_decision. Defined.

  Definition config_full_ov (x : config) : ov :=
    OL [OB (c_proposer x); OB (c_challenger x); OZ (c_period x); OZ (c_interval x); ON (c_start x);
        OB (b_submitter (c_batch x)); ON (b_chain (c_batch x)); obool (c_oracle x); OB (c_meta x)].
  Definition out_ov (o : output) : ov := OL [OB (o_root o); ON (o_l1h o); OZ (o_time o); ON (o_l2 o)].
  Definition gbridge_ov (g : gbridge) : ov :=
    OL [ON (g_id g); ON (g_next_seq g); ON (g_next_out g); config_full_ov (g_config g);
        OL (map (λ p, OL [OB p.1; OB p.2]) (g_pairs g));
        OL (map OB (g_proven g));
        OL (map (λ io, OL [ON io.1; out_ov io.2]) (g_outputs g));
        OL (map (λ bo, OL [OB (b_submitter bo.1); ON (b_chain bo.1); out_ov bo.2]) (g_batches g))].
  Definition genesis1_ov (g : genesis1) : ov :=
    OL [OL (map (λ p, OL [OB p.1; OZ p.2]) (g_fee g)); OL (map gbridge_ov (g_bridges g)); ON (g_next_bridge g)].

  (* observations: the export of the reached state; validate; the export of import (export s);
     the ophost components of the re-imported state compared with the original *)
  Definition same_maps (s t : l1state) : bool :=
    bool_decide (configs s = configs t) && bool_decide (outputs s = outputs t) &&
    bool_decide (proven s = proven t) && bool_decide (pairs s = pairs t) &&
    bool_decide (batches s = batches t) && bool_decide (next_bridge s = next_bridge t) &&
    bool_decide (regfee s = regfee t).

  Definition run_gen1 (k : l1case) : list ov :=
    let c := cfg_of k in
    let s := (run c (init_of k) (k_ops k)).1 in
    let g := export s in
    [ genesis1_ov g; obool (validate c g);
      match import c s g with
      | Some f => OL [genesis1_ov (export f); obool (same_maps f s)]
      | None => OS "import-failed"
      end ].
End G1.
