(* The opchild deposit handler (FinalizeTokenDeposit, safeDepositToken, handleBridgeHook) as
   the exact sequence of bank / account keeper calls it makes, each call consulting a fault
   schedule indexed by the call number.  Structure follows x/opchild/keeper/msg_server.go and
   deposit.go:
     - zero amount: HasAccount [, NewAccountWithAddress, SetAccount] on the message context,
       BEFORE safeDepositToken installs its recover: not guarded;
     - positive amount: MintCoins, SendCoinsFromModuleToAccount inside CacheContext + recover:
       guarded (any error or panic discards the cache and yields "deposit failed");
     - HasDenomMetaData [, SetDenomMetaData] on the message context: not guarded;
     - the hook's messages (bank MsgSend) run on a cache under handleBridgeHook's recover:
       guarded; the ante handler's sequence increment was written before and stays;
     - after a failure: SendCoinsFromAccountToModule (reclaim), BurnCoins on the message
       context, errors returned: not guarded.
   A fault at a guarded call is absorbed; a fault at any other call makes the handler return
   an error / panic (result None = the whole message is rolled back by baseapp).
   Definitions only. *)
From stdpp Require Import gmap numbers list.
From Coq Require Import ZArith.
Require Import Model.Bytes Model.Bank Model.Valset Model.L2.

Inductive fkind := FErr | FPanic.

Inductive site :=
| SHasAccount | SNewAccount | SSetAccount      (* zero-amount path of safeDepositToken *)
| SMint | SSendToRecipient                     (* cache + recover of safeDepositToken *)
| SHasMeta | SSetMeta                          (* denom metadata registration *)
| SHookSend                                    (* keeper calls made by one hook message *)
| SReclaim | SBurn.                            (* undoing the credit after a failed hook *)

Definition guarded (st : site) : bool :=
  match st with SMint | SSendToRecipient | SHookSend => true | _ => false end.

(* the environment of one handler execution that is not module state *)
Record fenv := {
  fault : nat → option fkind;     (* fault scheduled for the i-th keeper call (0-based) *)
  acct_exists : N → bool;         (* x/auth HasAccount *)
  has_meta : bytes → bool;        (* x/bank HasDenomMetaData *)
}.

Definition no_faults (fe : fenv) : Prop := ∀ i, fault fe i = None.

(* one keeper call: it is appended to the call trace and the fault scheduled for its index is
   returned *)
Definition call (fe : fenv) (tr : list site) (st : site) : list site * option fkind :=
  (tr ++ [st], fault fe (length tr)).

(* safeDepositToken.  None = the error / panic leaves the handler *)
Definition safe_deposit_f (c : cfg) (fe : fenv) (tr : list site) (s : l2state) (to : N) (d : bytes) (amt : Z)
  : list site * option (l2state * bool) :=
  if (amt =? 0)%Z then
    let '(tr, x) := call fe tr SHasAccount in
    match x with Some _ => (tr, None) | None =>
    if acct_exists fe to then (tr, Some (s, true)) else
    let '(tr, x) := call fe tr SNewAccount in
    match x with Some _ => (tr, None) | None =>
    let '(tr, x) := call fe tr SSetAccount in
    match x with Some _ => (tr, None) | None => (tr, Some (s, true)) end end end
  else
    let '(tr, x) := call fe tr SMint in
    match x with Some _ => (tr, Some (s, false)) | None =>
    let b1 := bank_mint (bk s) (modacc c) d amt in
    let '(tr, x) := call fe tr SSendToRecipient in
    match x with Some _ => (tr, Some (s, false)) | None =>
    if blocked c to then (tr, Some (s, false)) else
    match bank_send b1 (modacc c) to d amt with
    | Some b => (tr, Some (set_bk s b, true))
    | None => (tr, Some (s, false))
    end end end.

Definition dep_f (c : cfg) (fe : fenv) (s : l2state) (m : fdep) : list site * option (l2state * bool) :=
  match resolve c (fd_to m) with
  | None => ([], Some (s, false))
  | Some a => safe_deposit_f c fe [] s a (fd_denom m) (fd_amt m)
  end.

(* HasDenomMetaData / setDenomMetadata; true = the fault leaves the handler *)
Definition meta_f (fe : fenv) (tr : list site) (d : bytes) : list site * bool :=
  let '(tr, x) := call fe tr SHasMeta in
  match x with Some _ => (tr, true) | None =>
  if has_meta fe d then (tr, false) else
  let '(tr, x) := call fe tr SSetMeta in
  match x with Some _ => (tr, true) | None => (tr, false) end end.

(* the hook's messages (bank sends, token withdrawals), on a cache of the whole state: a fault
   in a keeper call of a message fails the hook and discards the cache *)
Fixpoint hook_msgs_f (c : cfg) (fe : fenv) (tr : list site) (s : l2state) (signer : N)
    (msgs : list hmsg) : list site * option l2state :=
  match msgs with
  | [] => (tr, Some s)
  | m :: rest =>
      let '(tr, x) := call fe tr SHookSend in
      match x with Some _ => (tr, None) | None =>
      match hook_msg c s signer m with
      | None => (tr, None)
      | Some s' => hook_msgs_f c fe tr s' signer rest
      end end
  end.

Definition run_hook_f (c : cfg) (fe : fenv) (tr : list site) (s : l2state) (h : hookp)
  : list site * (l2state * bool) :=
  match h with
  | HNone => (tr, (s, true))
  | HGarbage => (tr, (s, false))
  | HTx signer tseq sig_ok msgs =>
      if (p_hookgas (prm s) <? hook_gas_floor)%N then (tr, (s, false)) else
      if negb (sig_ok && (tseq =? getseq s signer)%N) then (tr, (s, false)) else
      let s1 := set_seqs s (<[signer := (getseq s signer + 1)%N]> (seqs s)) in
      match hook_msgs_f c fe tr s1 signer msgs with
      | (tr, Some s2) => (tr, (s2, true))
      | (tr, None) => (tr, (s1, false))
      end
  end.

Definition hook_f (c : cfg) (fe : fenv) (tr : list site) (s3 : l2state) (dep_ok : bool) (h : hookp)
  : list site * (l2state * bool) :=
  if dep_ok && hook_nonempty h then run_hook_f c fe tr s3 h else (tr, (s3, true)).

(* reclaim + burn after a failed hook.  None = error returned by the handler *)
Definition reclaim_f (c : cfg) (fe : fenv) (tr : list site) (s4 : l2state) (m : fdep) (dep_ok : bool)
  : list site * option l2state :=
  if dep_ok then
    let '(tr, x) := call fe tr SReclaim in
    match x with Some _ => (tr, None) | None =>
    match a ← resolve c (fd_to m); bank_send (bk s4) a (modacc c) (fd_denom m) (fd_amt m) with
    | None => (tr, None)
    | Some b1 =>
        let '(tr, x) := call fe tr SBurn in
        match x with Some _ => (tr, None) | None =>
        match bank_burn b1 (modacc c) (fd_denom m) (fd_amt m) with
        | None => (tr, None)
        | Some b2 => (tr, Some (set_bk s4 b2))
        end end
    end end
  else (tr, Some s4).

Definition finalize_tail_f (c : cfg) (fe : fenv) (s : l2state) (m : fdep) : list site * option (l2state * resp) :=
  let '(tr, dep) := dep_f c fe s m in
  match dep with None => (tr, None) | Some (s1, dep_ok) =>
  let s2 := set_next_l1 s1 (next_l1 s1 + 1)%N in
  let '(tr, esc) := meta_f fe tr (fd_denom m) in
  if esc then (tr, None) else
  let s3 := match pairs s2 !! fd_denom m with
            | Some _ => s2
            | None => set_pairs s2 (<[fd_denom m := fd_base m]> (pairs s2))
            end in
  let '(tr, (s4, hook_ok)) := hook_f c fe tr s3 dep_ok (fd_hook m) in
  let rec_ ok := {| d_seq := fd_seq m; d_to := fd_to m; d_denom := fd_denom m; d_amt := fd_amt m; d_ok := ok |} in
  if dep_ok && hook_ok then (tr, Some (push_deposit s4 (rec_ true), RSuccess)) else
  let '(tr, r5) := reclaim_f c fe tr s4 m dep_ok in
  match r5 with None => (tr, None) | Some s5 =>
  match pairs s5 !! fd_denom m with None => (tr, None) | Some base =>
  (tr, Some (push_withdrawal (push_deposit s5 (rec_ false))
               {| w_seq := next_l2 s5; w_from := fd_to m; w_to := fd_from m;
                  w_denom := fd_denom m; w_base := base; w_amt := fd_amt m; w_refund := true |},
             RSuccess))
  end end end.

(* the handler: the list of keeper calls made, and its result *)
Definition finalize_deposit_f (c : cfg) (fe : fenv) (s : l2state) (m : fdep) : list site * option (l2state * resp) :=
  if negb (fdep_valid c m) then ([], None) else
  if negb (is_executor c s (fd_sender m)) then ([], None) else
  if (fd_seq m <? next_l1 s)%N then ([], Some (s, RNoop)) else
  if (next_l1 s <? fd_seq m)%N then ([], None) else
  finalize_tail_f c fe s m.

Definition step_f (c : cfg) (fe : fenv) (s : l2state) (m : fdep) : l2state * result :=
  match (finalize_deposit_f c fe s m).2 with
  | Some (s', r) => (s', Ok r)
  | None => (s, Err)
  end.

(* the schedule fires only at guarded calls of this execution *)
Definition confined (fe : fenv) (tr : list site) : Prop :=
  ∀ i st, tr !! i = Some st → guarded st = false → fault fe i = None.

(* ---- gas: the only part of the gas clause a Gallina model can carry ---- *)
(* handleBridgeHook: gasForHook := GasRemaining(); if gasForHook > hookMaxGas { gasForHook = hookMaxGas } *)
Definition gas_for_hook (remaining hook_max : N) : N :=
  if (hook_max <? remaining)%N then hook_max else remaining.
(* charged to the outer meter afterwards: GasConsumedToLimit() of the hook's meter *)
Definition gas_charged (consumed limit : N) : N := if (limit <? consumed)%N then limit else consumed.
