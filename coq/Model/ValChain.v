(* Block-structured histories of the L2 validator set: genesis (ValidateGenesis / InitGenesis),
   the three authority operations that touch the validator set or its limits, and one block =
   BeginBlocker ; messages ; EndBlocker ; the consensus engine applies the returned batch.
   (x/opchild/types/genesis.go, keeper/genesis.go, abci.go, msg_server.go, params.go.)
   Definitions only. *)
From stdpp Require Import gmap numbers sorting.
From Coq Require Import ZArith.
Require Import Model.Valset.

(* the part of the module state the validator messages read and write *)
Record vcore := { vc_vs : vstate; vc_maxv : N; vc_entries : N }.

Inductive vop :=
| VAdd (op key : N)                 (* MsgAddValidator (authority) *)
| VRemove (op : N)                  (* MsgRemoveValidator (authority) *)
| VSetParams (maxv entries : N).    (* MsgUpdateParams: MaxValidators, HistoricalEntries *)

(* Params.Validate: MaxValidators <> 0; Keeper.SetParams: MaxValidators >= stored validators *)
Definition vop_step (c : vcore) (o : vop) : option vcore :=
  match o with
  | VAdd op key =>
      s ← add_validator (vc_maxv c) (vc_vs c) op key;
      Some {| vc_vs := s; vc_maxv := vc_maxv c; vc_entries := vc_entries c |}
  | VRemove op =>
      s ← remove_validator (vc_vs c) op;
      Some {| vc_vs := s; vc_maxv := vc_maxv c; vc_entries := vc_entries c |}
  | VSetParams m e =>
      if bool_decide (m = 0%N) then None else
      if bool_decide (m < N.of_nat (size (vals (vc_vs c))))%N then None else
      Some {| vc_vs := vc_vs c; vc_maxv := m; vc_entries := e |}
  end.

(* a failing message has no effect (baseapp discards its writes) *)
Definition vop_exec (c : vcore) (o : vop) : vcore := default c (vop_step c o).

(* ---- genesis ---- *)
Record vgenesis := {
  g_vals : list (N * N * Z);      (* (operator, consensus key, power) in file order *)
  g_maxv : N; g_entries : N;
  g_exported : bool;
  g_last : list (N * Z);          (* LastValidatorPowers (used only when exported) *)
}.

(* ValidateGenesis: no consensus key twice, no operator address twice (repair 14a7cf8), not
   more validators than MaxValidators (repair D6), Params.Validate.  (It does NOT look at powers.) *)
Definition validate_genesis (g : vgenesis) : bool :=
  bool_decide (NoDup (map (λ x, x.1.2) (g_vals g))) &&
  bool_decide (NoDup (map (λ x, x.1.1) (g_vals g))) &&
  bool_decide (N.of_nat (length (g_vals g)) ≤ g_maxv g)%N &&
  negb (bool_decide (g_maxv g = 0%N)).

(* SetValidator + SetValidatorByConsAddr for each genesis validator, in order *)
Definition genesis_load (l : list (N * N * Z)) : vstate :=
  foldl (λ s x, {| vals := <[x.1.1 := {| v_key := x.1.2; v_pow := x.2 |}]> (vals s);
                   idx := <[x.1.2 := x.1.1]> (idx s); last := last s |}) vempty l.

(* InitGenesis: SetParams (may fail), the validators, then either the exported last powers
   (one update per entry, with THAT power; panics if the validator is missing) or the
   ordinary end-block computation. *)
Definition init_genesis (g : vgenesis) : option (vcore * list update) :=
  if bool_decide (g_maxv g = 0%N) then None else
  let s := genesis_load (g_vals g) in
  r ← (if g_exported g then
         foldl (λ acc lv, '(s, ups) ← acc; v ← vals s !! lv.1;
                  Some ({| vals := vals s; idx := idx s; last := <[lv.1 := lv.2]> (last s) |},
                        ups ++ [(v_key v, lv.2)]))
               (Some (s, [])) (g_last g)
       else end_block_updates s);
  Some ({| vc_vs := r.1; vc_maxv := g_maxv g; vc_entries := g_entries g |}, r.2).

(* ---- chains of blocks ---- *)
Record chain := {
  ch_core : vcore;
  ch_hist : gmap Z hrec;     (* stored historical infos *)
  ch_snaps : gmap Z hrec;    (* ghost: the bonded set at the beginning of every block so far *)
  ch_eng : engine;           (* the engine's set: all batches so far applied in order *)
  ch_height : Z;             (* height of the last finished block *)
}.

(* One block at height [ch_height + 1]: BeginBlocker, the messages (failing ones without
   effect), EndBlocker, the engine applies the batch.  [None] = a begin/end blocker error or
   panic (chain halt).  The engine side is the unchecked application [apply_updates]; that the
   real engine accepts the batch is a theorem, not a definition. *)
Definition block (st : chain) (ops : list vop) : option (chain * list update) :=
  let h := (ch_height st + 1)%Z in
  let c := ch_core st in
  hist' ← begin_block (vc_maxv c) (vc_entries c) h (vc_vs c) (ch_hist st);
  let snaps' := match last_validators (vc_maxv c) (vc_vs c) with
                 | Some r => <[h := r]> (ch_snaps st) | None => ch_snaps st end in
  let c1 := foldl vop_exec c ops in
  r ← end_block_updates (vc_vs c1);
  Some ({| ch_core := {| vc_vs := r.1; vc_maxv := vc_maxv c1; vc_entries := vc_entries c1 |};
           ch_hist := hist'; ch_snaps := snaps';
           ch_eng := apply_updates (ch_eng st) r.2; ch_height := h |}, r.2).

(* a history: the list of blocks, each a list of messages; returns the batches too *)
Fixpoint run_blocks (st : chain) (bs : list (list vop)) : option (chain * list (list update)) :=
  match bs with
  | [] => Some (st, [])
  | b :: bs' => r ← block st b; r' ← run_blocks r.1 bs'; Some (r'.1, r.2 :: r'.2)
  end.

(* the chain right after InitGenesis; the first block has height [h0 + 1] *)
Definition genesis_chain (g : vgenesis) (h0 : Z) : option (chain * list update) :=
  r ← init_genesis g;
  Some ({| ch_core := r.1; ch_hist := ∅; ch_snaps := ∅; ch_eng := apply_updates ∅ r.2; ch_height := h0 |}, r.2).

(* the set the engine must hold: consensus key -> power of the stored validators with positive power *)
Definition state_set (s : vstate) : engine :=
  list_to_map (map (λ ov, (v_key ov.2, v_pow ov.2))
                   (filter (λ ov, 0 < v_pow ov.2)%Z (map_to_list (vals s)))).
(* the last-powers table mapped through the validators' keys *)
Definition last_set (s : vstate) : engine :=
  list_to_map (omap (λ op_p, v ← vals s !! op_p.1; Some (v_key v, op_p.2)) (map_to_list (last s))).

(* the three acceptance criteria of the property, for one batch against the engine's set *)
Definition batch_wellformed (e : engine) (ups : list update) : Prop :=
  NoDup (map fst ups) ∧ Forall (λ u, 0 ≤ u.2)%Z ups ∧ Forall (λ u, u.2 = 0%Z → is_Some (e !! u.1)) ups.
