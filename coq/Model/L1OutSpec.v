(* Vocabulary for the statements of C11 (output log) and C05 (challenge window) about the L1
   machine of Model/L1.v: the log invariant, time-monotone histories, the guards of
   propose / delete as propositions, and predicates over (history, results).
   Definitions only. *)
From stdpp Require Import gmap numbers list.
From Coq Require Import ZArith.
Require Import Model.Bytes Model.Bank Model.Hashes Model.L1.

(* ---- the log invariant of one bridge ---- *)
Definition log_ok (s : l1state) (b : N) : Prop :=
  (1 ≤ out_of s b)%N ∧
  (∀ i, is_Some (outputs s !! (b, i)) ↔ (1 ≤ i ∧ i < out_of s b)%N) ∧
  (∀ i j oi oj, outputs s !! (b, i) = Some oi → outputs s !! (b, j) = Some oj → (i < j)%N →
                (o_l2 oi < o_l2 oj)%N ∧ (o_time oi ≤ o_time oj)%Z).

(* no stored output carries a time later than t (t = the latest block time seen) *)
Definition times_le (s : l1state) (t : Z) : Prop :=
  ∀ k o, outputs s !! k = Some o → (o_time o ≤ t)%Z.

(* configs live below the bridge counter and have a strictly positive period *)
Definition cfg_ok (s : l1state) : Prop :=
  ∀ b x, configs s !! b = Some x → (b < next_bridge s)%N ∧ (0 < c_period x)%Z.

Definition l1inv (s : l1state) (t : Z) : Prop :=
  cfg_ok s ∧ (∀ b, log_ok s b) ∧ times_le s t.

(* ---- histories with non-decreasing block times, starting not before t ---- *)
Fixpoint mono_from (t : Z) (h : list (env * msg)) : Prop :=
  match h with
  | [] => True
  | (e, _) :: h' => (t ≤ now e)%Z ∧ mono_from (now e) h'
  end.
Fixpoint last_time (t : Z) (h : list (env * msg)) : Z :=
  match h with
  | [] => t
  | (e, _) :: h' => last_time (now e) h'
  end.

(* ---- propose ---- *)
Definition new_output (e : env) (root : bytes) (l2 : N) : output :=
  {| o_root := root; o_l1h := height e; o_time := now e; o_l2 := l2 |}.

Definition propose_guard (c : cfg) (s : l1state) (proposer : bytes) (b idx l2 : N) (root : bytes) : Prop :=
  valid_addr c proposer = true ∧ b ≠ 0%N ∧ length root = 32%nat ∧
  ∃ x, configs s !! b = Some x ∧ proposer = c_proposer x ∧ idx = out_of s b ∧
       (idx = 1%N ∨ ∃ o, outputs s !! (b, (idx - 1)%N) = Some o ∧ (o_l2 o < l2)%N).

Definition propose_post (e : env) (s : l1state) (b idx l2 : N) (root : bytes) : l1state :=
  upd_outputs s (<[(b, idx) := new_output e root l2]> (outputs s)) (<[b := (idx + 1)%N]> (next_out s)).

(* ---- delete ---- *)
Definition may_delete (c : cfg) (x : config) (ch : bytes) : Prop :=
  gov c = ch ∨ c_proposer x = ch ∨ c_challenger x = ch.

Definition delete_guard (c : cfg) (e : env) (s : l1state) (ch : bytes) (b idx : N) : Prop :=
  valid_addr c ch = true ∧ b ≠ 0%N ∧ idx ≠ 0%N ∧
  ∃ x, configs s !! b = Some x ∧ may_delete c x ch ∧ (idx < out_of s b)%N ∧
       ∀ i, (idx ≤ i ∧ i < out_of s b)%N → ∃ o, outputs s !! (b, i) = Some o ∧ is_final x e o = false.

Definition delete_post (s : l1state) (b idx : N) : l1state :=
  upd_outputs s (filter (λ kv, ¬ in_range b idx (out_of s b) kv.1) (outputs s)) (<[b := idx]> (next_out s)).

(* everything that is neither the output log nor its counters *)
Definition same_rest (s s' : l1state) : Prop :=
  bk s' = bk s ∧ next_bridge s' = next_bridge s ∧ configs s' = configs s ∧ next_seq s' = next_seq s ∧
  proven s' = proven s ∧ pairs s' = pairs s ∧ batches s' = batches s ∧ regfee s' = regfee s ∧
  chans s' = chans s ∧ admins s' = admins s ∧ elog s' = elog s ∧ plog s' = plog s.

(* ---- predicates over messages, used with Forall2 over (history, results) ---- *)
Definition is_propose_at (b i : N) (m : msg) : Prop :=
  match m with MPropose _ b' i' _ _ => b' = b ∧ i' = i | _ => False end.
Definition is_finalize_at (b i : N) (m : msg) : Prop :=
  match m with MFinalize _ b' i' _ _ _ _ _ _ _ _ _ => b' = b ∧ i' = i | _ => False end.
(* a delete whose range [i', next) would contain i *)
Definition is_delete_covering (b i : N) (m : msg) : Prop :=
  match m with MDelete _ b' i' => b' = b ∧ (i' ≤ i)%N | _ => False end.

Definition results_of (c : cfg) (s : l1state) (h : list (env * msg)) : list result := (run c s h).2.

(* final indices of bridge b at env e *)
Definition final_at (s : l1state) (e : env) (b i : N) : Prop :=
  ∃ x o, configs s !! b = Some x ∧ outputs s !! (b, i) = Some o ∧ is_final x e o = true.
