(* Byte strings as lists of N (each element < 256 by convention), big-endian integer
   encodings, hex decoding of Coq string literals (used by the generated case files),
   and the lexicographic order of Go's bytes.Compare.  Definitions only. *)
From Coq Require Import List NArith Ascii String Bool.
Import ListNotations.
Local Open Scope N_scope.

Definition bytes := list N.

Definition bytes_eq_dec : forall a b : bytes, {a = b} + {a <> b} := list_eq_dec N.eq_dec.

Fixpoint bytes_eqb (a b : bytes) : bool :=
  match a, b with
  | [], [] => true
  | x :: a', y :: b' => N.eqb x y && bytes_eqb a' b'
  | _, _ => false
  end.

(* bytes.Compare a b <= 0 *)
Fixpoint lexle (a b : bytes) : bool :=
  match a, b with
  | [], _ => true
  | _ :: _, [] => false
  | x :: a', y :: b' => if N.ltb x y then true else if N.ltb y x then false else lexle a' b'
  end.

(* big-endian encoding of n on k bytes (n mod 256^k) *)
Fixpoint be_bytes (k : nat) (n : N) : bytes :=
  match k with
  | O => []
  | S k' => be_bytes k' (n / 256) ++ [n mod 256]
  end.
Definition be64 (n : N) : bytes := be_bytes 8 n.
Definition be32 (n : N) : bytes := be_bytes 4 n.

Fixpoint be_to_N_acc (acc : N) (b : bytes) : N :=
  match b with
  | [] => acc
  | x :: b' => be_to_N_acc (acc * 256 + x) b'
  end.
Definition be_to_N (b : bytes) : N := be_to_N_acc 0 b.

(* little-endian lanes for Keccak *)
Fixpoint le_to_N (b : bytes) : N :=
  match b with
  | [] => 0
  | x :: b' => x + 256 * le_to_N b'
  end.
Fixpoint le_bytes (k : nat) (n : N) : bytes :=
  match k with
  | O => []
  | S k' => (n mod 256) :: le_bytes k' (n / 256)
  end.

(* ---- hex ---- *)
Definition hexval (c : ascii) : N :=
  let n := N_of_ascii c in
  if (48 <=? n) && (n <=? 57) then n - 48
  else if (97 <=? n) && (n <=? 102) then n - 87
  else if (65 <=? n) && (n <=? 70) then n - 55
  else 0.

Fixpoint hx (s : string) : bytes :=
  match s with
  | String a (String b s') => (16 * hexval a + hexval b) :: hx s'
  | _ => []
  end.

Definition hexdigit (n : N) : N := if n <? 10 then 48 + n else 87 + n.  (* lower-case *)
Fixpoint hex_encode (b : bytes) : bytes :=
  match b with
  | [] => []
  | x :: b' => hexdigit (x / 16) :: hexdigit (x mod 16) :: hex_encode b'
  end.

(* ASCII string literal to bytes *)
Fixpoint bs (s : string) : bytes :=
  match s with
  | EmptyString => []
  | String a s' => N_of_ascii a :: bs s'
  end.

Fixpoint firstn_pad (k : nat) (b : bytes) : bytes :=
  match k with
  | O => []
  | S k' => match b with [] => 0 :: firstn_pad k' [] | x :: b' => x :: firstn_pad k' b' end
  end.

Fixpoint chunks (fuel : nat) (k : nat) (b : bytes) : list bytes :=
  match fuel with
  | O => []
  | S f => match b with
           | [] => []
           | _ => firstn k b :: chunks f k (skipn k b)
           end
  end.
