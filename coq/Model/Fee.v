(* L2 mempool fee floor: x/opchild/ante/fee.go (MempoolFeeChecker.CheckTxFeeWithMinGasPrices)
   and fee_utils.go (CombinedMinGasPrices, computeRequiredFees), with the parts of the SDK they
   call: DecCoins.AmountOf / Add (safeAdd with a single coin) / IsZero, LegacyDec.MulInt, Ceil,
   RoundInt, Coins.IsAnyGTE.  Definitions only.

   Denoms are small ids (N) assigned by the harness in the string order of the denom names, so
   "sorted by denom" means the same on both sides.  A price is the raw value of an
   sdk.LegacyDec: an integer in units of 10^-18.  Amounts are N (math.Int, the 2^256 cap and
   the 315-bit cap of LegacyDec are out of scope: the code panics there, which is a rejection).
   The model is claimed faithful for price vectors and fee coin sets that are sorted by denom
   without duplicates ([ssorted]); that is what DecCoins.Validate (chain parameter),
   ParseDecCoins (node configuration) and Coins.Validate (ValidateBasic of the tx fee)
   guarantee.  Zero amounts are allowed in the model (they behave like absent denoms). *)
From Coq Require Import List NArith Bool.
Import ListNotations.
Local Open Scope N_scope.

Definition prec : N := 1000000000000000000.   (* 10^18 = LegacyDec precision *)

Definition prices := list (N * N).   (* (denom id, raw price in 10^-18) = sdk.DecCoins *)
Definition coins := list (N * N).    (* (denom id, amount)               = sdk.Coins    *)

(* AmountOf: the amount of the entry with that denom, zero when absent *)
Fixpoint amount_of (v : list (N * N)) (d : N) : N :=
  match v with
  | [] => 0
  | (d', a) :: v' => if d' =? d then a else amount_of v' d
  end.

(* strictly sorted by denom (hence no duplicate denoms) *)
Fixpoint ssorted (v : list (N * N)) : Prop :=
  match v with
  | [] => True
  | (d, _) :: v' => (forall x, In x (map fst v') -> d < x) /\ ssorted v'
  end.

(* DecCoins.IsZero: every amount is zero (true for the empty vector) *)
Definition is_zero (v : prices) : bool := forallb (fun x => snd x =? 0) v.

Definition drop_zero (v : prices) : prices := filter (fun x => negb (snd x =? 0)) v.

(* DecCoins.Add(coin) = safeAdd with a one-element second set: walk the first set while its
   denom is smaller (dropping zero entries), add on equality, insert before the first larger
   denom; the rest is copied without zero entries; a zero sum is dropped. *)
Fixpoint add1 (v : prices) (d a : N) : prices :=
  match v with
  | [] => if a =? 0 then [] else [(d, a)]
  | (d', a') :: v' =>
      if d' <? d then (if a' =? 0 then add1 v' d a else (d', a') :: add1 v' d a)
      else if d' =? d then (if a' + a =? 0 then drop_zero v' else (d', a' + a) :: drop_zero v')
      else (if a =? 0 then drop_zero v else (d, a) :: drop_zero v)
  end.

(* one iteration of the loop of CombinedMinGasPrices over the chain's vector *)
Definition combine_step (mg : prices) (c : N * N) : prices :=
  let cur := amount_of mg (fst c) in
  if cur =? 0 then add1 mg (fst c) (snd c)
  else if cur <? snd c then add1 mg (fst c) (snd c - cur)
  else mg.

(* CombinedMinGasPrices(node, chain); the final Sort() is the identity on a sorted vector *)
Definition combined (node chain : prices) : prices := fold_left combine_step chain node.

(* Ceil(price * gas) as an integer: LegacyDec.MulInt multiplies the raw value, Ceil adds one
   unit when the remainder modulo 10^18 is positive, RoundInt of an integral Dec is exact. *)
Definition required (p g : N) : N := (p * g + prec - 1) / prec.

(* computeRequiredFees *)
Definition required_fees (g : N) (mg : prices) : coins :=
  map (fun x => (fst x, required (snd x) g)) mg.

(* Coins.IsAnyGTE: false for an empty right-hand side; otherwise some coin of the left-hand
   side is >= the right-hand amount of its denom, where a zero right-hand amount never counts *)
Definition is_any_gte (fee req : coins) : bool :=
  negb (Nat.eqb (length req) 0) &&
  existsb (fun x => let amt := amount_of req (fst x) in (amt <=? snd x) && negb (amt =? 0)) fee.

(* CheckTxFeeWithMinGasPrices: true = admitted.  [is_check] is ctx.IsCheckTx() (also true
   during re-check); [node] is ctx.MinGasPrices(), [chain] is Params.MinGasPrices. *)
Definition check_fee (is_check : bool) (gas : N) (node chain : prices) (fee : coins) : bool :=
  if is_check then
    let mg := combined node chain in
    if is_zero mg then true else is_any_gte fee (required_fees gas mg)
  else true.
