(* Replaying recorded fee-checker cases (harness/gen_c20.go, stream part "fee") on the model
   and projecting the observables exactly as the harness prints them. *)
From Coq Require Import List NArith Bool String.
Require Import Model.Bytes Model.Obs Model.Fee.
Import ListNotations.
Local Open Scope N_scope.

(* one query: mode (0 = deliver, 1 = check, 2 = re-check; ctx.IsCheckTx() is true for 1 and 2),
   gas limit, fee coins *)
Record feecase := {
  fc_node : prices;                      (* ctx.MinGasPrices() *)
  fc_chain : prices;                     (* Params.MinGasPrices *)
  fc_queries : list (N * N * coins);
}.

Definition vec_ov (v : list (N * N)) : ov := OL (map (fun x => OL [ON (fst x); ON (snd x)]) v).

Definition mode_is_check (m : N) : bool := negb (m =? 0).

(* first the vector returned by CombinedMinGasPrices(node, chain), then one admitted /
   rejected flag per query *)
Definition run_feecase (c : feecase) : list ov :=
  vec_ov (combined (fc_node c) (fc_chain c)) ::
  map (fun q : N * N * coins =>
         let '(m, g, fee) := q in
         obool (check_fee (mode_is_check m) g (fc_node c) (fc_chain c) fee))
      (fc_queries c).
