(* The published withdrawal-tree rule (specs/withdrawal_proving.md, the rule the repository's
   own test and the reference executor use): leaves in L2-sequence order, adjacent pairs
   hashed with the sorted-pair node hash, an odd last node paired with itself.
   [build] computes the root, [prove] the proof of a position, [verify] is what the chain
   does (GenerateRootHashFromProofs + compare).  Fuel = list length keeps everything
   computable and axiom-free. *)
From Coq Require Import List Arith NArith.
Require Import Model.Bytes Model.Hashes.
Import ListNotations.

Section Merkle.
  Variable H : bytes -> bytes.
  Notation node := (node H).

  Fixpoint pair_up (l : list bytes) : list bytes :=
    match l with
    | a :: b :: t => node a b :: pair_up t
    | [a] => [node a a]
    | [] => []
    end.

  Fixpoint root_fuel (n : nat) (l : list bytes) : bytes :=
    match n with
    | O => hd [] l
    | S k => match l with [x] => x | _ => root_fuel k (pair_up l) end
    end.
  Definition build (l : list bytes) : bytes := root_fuel (length l) l.

  Definition verify (root x : bytes) (p : list bytes) : bool :=
    if bytes_eq_dec (root_from_proof H x p) root then true else false.

  Definition sibling (l : list bytes) (i : nat) : bytes :=
    if Nat.even i then (if S i <? length l then nth (S i) l [] else nth i l [])
    else nth (i - 1) l [].

  Fixpoint prove_fuel (n : nat) (l : list bytes) (i : nat) : list bytes :=
    match n with
    | O => []
    | S k => match l with
             | [x] => []
             | _ => sibling l i :: prove_fuel k (pair_up l) (i / 2)
             end
    end.
  Definition prove (l : list bytes) (i : nat) := prove_fuel (length l) l i.

  (* all nodes of the tree, level by level (used to state soundness) *)
  Fixpoint nodes_fuel (n : nat) (l : list bytes) : list bytes :=
    match n with
    | O => l
    | S k => match l with [x] => [x] | _ => l ++ nodes_fuel k (pair_up l) end
    end.
End Merkle.
