(* The two-chain system for ONE bridge: the L1 (ophost) state, the L2 (opchild) state and the
   relayer / claimer bookkeeping.  Every cross-chain step copies its data from what the other
   chain EMITTED (the ghost logs [L1.elog], [L2.wlog]) - that is the definition of a faithful
   executor.  Block time and height travel with each L1 step (its [L1.env]), so "advance" is
   the choice of the next step's environment.  Definitions only. *)
From stdpp Require Import gmap numbers list.
From Coq Require Import ZArith.
Require Import Model.Bytes Model.Bank Model.Hashes Model.Merkle Model.Valset.
Require Model.L1 Model.L2.

Record scfg := { c1 : L1.cfg; c2 : L2.cfg; bid : N }.

Record sys := {
  l1 : L1.l1state;
  l2 : L2.l2state;
  paid : list N;                (* bookkeeping: L2 sequences whose claim was accepted, newest first *)
  donated : list (bytes * Z);   (* ghost: plain bank credits to the escrow (denom, amount) *)
}.

Definition escrow_of (c : scfg) : N := L1.escrow (c1 c) (bid c).
Definition l2d (c : scfg) (d : bytes) : bytes := l2_denom (L1.hash (c1 c)) (bid c) d.

(* the emitted deposit events of this bridge, newest first *)
Definition bevents (c : scfg) (s1 : L1.l1state) : list L1.devent :=
  filter (λ ev, L1.e_bridge ev = bid c) (L1.elog s1).
Definition find_event (c : scfg) (s1 : L1.l1state) (k : N) : option L1.devent :=
  List.find (λ ev, (L1.e_seq ev =? k)%N) (bevents c s1).
Definition find_w (s2 : L2.l2state) (m : N) : option L2.wrec :=
  List.find (λ w, (L2.w_seq w =? m)%N) (L2.wlog s2).

(* MsgFinalizeTokenDeposit as a faithful executor builds it from the event of sequence k *)
Definition relay_msg (ev : L1.devent) (executor : bytes) (height : N) (hook : L2.hookp) : L2.fdep :=
  {| L2.fd_sender := executor; L2.fd_from := L1.e_from ev; L2.fd_to := L1.e_to ev;
     L2.fd_denom := L1.e_l2denom ev; L2.fd_amt := L1.e_amt ev; L2.fd_seq := L1.e_seq ev;
     L2.fd_height := height; L2.fd_base := L1.e_l1denom ev; L2.fd_hook := hook |}.

(* the leaf of a recorded withdrawal: the BASE denom and the amount as a uint64 *)
Definition wleaf (c : scfg) (w : L2.wrec) : bytes :=
  leaf_hash (L1.hash (c1 c)) (bid c) (L2.w_seq w) (L2.w_from w) (L2.w_to w) (L2.w_base w) (Z.to_N (L2.w_amt w)).

(* the recorded events with sequences in (lo, hi], oldest first *)
Definition events_between (s2 : L2.l2state) (lo hi : N) : list L2.wrec :=
  filter (λ w, (lo < L2.w_seq w)%N ∧ (L2.w_seq w ≤ hi)%N) (rev (L2.wlog s2)).
Definition honest_root (c : scfg) (s2 : L2.l2state) (lo hi : N) (v : N) (bh : bytes) : bytes :=
  output_root (L1.hash (c1 c)) v (build (L1.hash (c1 c)) (map (wleaf c) (events_between s2 lo hi))) bh.

(* L2 messages that are system steps: EVERY L2 message, also nested in ExecuteMessages batches,
   provided each deposit message in it is a faithful relay: its recipient, sender-on-L1, denoms
   and amount are copied from the emitted L1 event of its sequence (sender, height and hook are
   free).  [l2_plain] = neither a deposit nor a batch. *)
Definition l2_plain (m : L2.msg) : bool :=
  match m with L2.MFinalizeDeposit _ | L2.MExecute _ _ => false | _ => true end.
Definition relay_of (ev : L1.devent) (f : L2.fdep) : bool :=
  bool_decide (L2.fd_from f = L1.e_from ev ∧ L2.fd_to f = L1.e_to ev ∧ L2.fd_denom f = L1.e_l2denom ev ∧
               L2.fd_amt f = L1.e_amt ev ∧ L2.fd_base f = L1.e_l1denom ev).

Fixpoint l2_adm (c : scfg) (s1 : L1.l1state) (m : L2.msg) {struct m} : bool :=
  match m with
  | L2.MFinalizeDeposit f =>
      match find_event c s1 (L2.fd_seq f) with Some ev => relay_of ev f | None => false end
  | L2.MExecute _ inner =>
      (fix go (l : list L2.msg) : bool := match l with [] => true | x :: l' => l2_adm c s1 x && go l' end) inner
  | _ => true
  end.

(* L1 messages that move no funds and emit nothing the bridge transports, for ANY bridge: the
   role / config / params updates, batch records, and the IBC environment changes *)
Definition l1_admin (m : L1.msg) : bool :=
  match m with
  | L1.MUpdateProposer _ _ _ | L1.MUpdateChallenger _ _ _ | L1.MUpdateBatchInfo _ _ _
  | L1.MUpdateOracle _ _ _ | L1.MUpdateMetadata _ _ _ | L1.MUpdateParams _ _ | L1.MRecordBatch _ _ _
  | L1.MChanSet _ _ | L1.MAdminSet _ _ => true
  | _ => false
  end.

(* Messages of OTHER bridges and bridge creation.  Account-space assumptions (DESIGN section 4:
   escrow addresses are distinct from each other, from user / module addresses, and nobody
   signs for one) appear as guards: the message is not spent from our escrow, the other
   bridge's escrow is not ours, the community pool is not our escrow. *)
Definition other_ok (c : scfg) (m : L1.msg) : bool :=
  match m with
  | L1.MDeposit sender b _ _ _ _ =>
      negb (b =? bid c)%N && negb (bool_decide (L1.resolve (c1 c) sender = Some (escrow_of c))) &&
      negb (bool_decide (L1.escrow (c1 c) b = escrow_of c))
  | L1.MFinalize _ b _ _ _ _ _ _ _ _ _ _ =>
      negb (b =? bid c)%N && negb (bool_decide (L1.escrow (c1 c) b = escrow_of c))
  | L1.MPropose _ b _ _ _ | L1.MDelete _ b _ => negb (b =? bid c)%N
  | L1.MCreateBridge creator _ =>
      negb (bool_decide (L1.resolve (c1 c) creator = Some (escrow_of c))) &&
      negb (bool_decide (L1.pool (c1 c) = escrow_of c))
  | _ => false
  end.
(* a payout of another bridge that names OUR escrow as recipient is a plain credit: a donation *)
Definition other_donation (c : scfg) (m : L1.msg) : option (bytes * Z) :=
  match m with
  | L1.MFinalize _ _ _ _ _ _ to d amt _ _ _ =>
      if bool_decide (L1.resolve (c1 c) to = Some (escrow_of c)) then Some (d, amt) else None
  | _ => None
  end.

Inductive smsg :=
| SDeposit (e : L1.env) (sender to d : bytes) (amt : Z) (data : bytes)       (* L1 user deposit into the bridge *)
| SSend1 (e : L1.env) (from to : N) (d : bytes) (amt : Z)                    (* L1 bank send; to the escrow = a donation *)
| SL2 (m : L2.msg)                                                          (* any L2 message / batch whose deposits are faithful relays *)
| SRelay (k : N) (executor : bytes) (height : N) (hook : L2.hookp)          (* relay of the event with sequence k *)
| SPropose (e : L1.env) (proposer : bytes) (idx l2block lo hi v : N) (bh : bytes)   (* honest output over events (lo, hi] *)
| SDelete (e : L1.env) (challenger : bytes) (idx : N)
| SClaim (e : L1.env) (sender : bytes) (idx m lo hi v : N) (bh : bytes)      (* claim of recorded withdrawal m against output idx *)
| SAdmin1 (e : L1.env) (m : L1.msg)                                         (* L1 role / config / params / environment message *)
| SOther (e : L1.env) (m : L1.msg).                                         (* bridge creation; deposit / propose / delete / claim on ANOTHER bridge *)

Definition set_l1 (s : sys) (x : L1.l1state) : sys := {| l1 := x; l2 := l2 s; paid := paid s; donated := donated s |}.
Definition set_l2 (s : sys) (x : L2.l2state) : sys := {| l1 := l1 s; l2 := x; paid := paid s; donated := donated s |}.

Definition lift1 (c : scfg) (s : sys) (e : L1.env) (m : L1.msg) : sys * bool :=
  match L1.step (c1 c) e (l1 s) m with
  | (s1, L1.Ok _) => (set_l1 s s1, true)
  | (_, L1.Err) => (s, false)
  end.
Definition lift2 (c : scfg) (s : sys) (m : L2.msg) : sys * bool :=
  match L2.step (c2 c) (l2 s) m with
  | (s2, L2.Ok _) => (set_l2 s s2, true)
  | (_, L2.Err) => (s, false)
  end.

(* the claimer finds the position of its record in the committed event list by its sequence *)
Fixpoint pos_of (m : N) (l : list L2.wrec) : nat :=
  match l with
  | [] => 0%nat
  | w :: l' => if (L2.w_seq w =? m)%N then 0%nat else S (pos_of m l')
  end.

Definition claim_of (c : scfg) (s : sys) (sender : bytes) (idx lo hi v : N) (bh : bytes) (w : L2.wrec) : L1.msg :=
  let evs := events_between (l2 s) lo hi in
  let ls := map (wleaf c) evs in
  L1.MFinalize sender (bid c) idx (L2.w_seq w) (prove (L1.hash (c1 c)) ls (pos_of (L2.w_seq w) evs))
               (L2.w_from w) (L2.w_to w) (L2.w_base w) (L2.w_amt w) [v] (build (L1.hash (c1 c)) ls) bh.

(* Nobody holds a key for the module-derived escrow address: no step is signed by it. *)
Definition sys_step (c : scfg) (s : sys) (m : smsg) : sys * bool :=
  match m with
  | SDeposit e sender to d amt data =>
      if bool_decide (L1.resolve (c1 c) sender = Some (escrow_of c)) then (s, false) else
      lift1 c s e (L1.MDeposit sender (bid c) to d amt data)
  | SSend1 e from to d amt =>
      if bool_decide (from = escrow_of c) then (s, false) else
      match lift1 c s e (L1.MBankSend from to d amt) with
      | (s', true) => (if bool_decide (to = escrow_of c)
                       then {| l1 := l1 s'; l2 := l2 s'; paid := paid s'; donated := (d, amt) :: donated s' |}
                       else s', true)
      | r => r
      end
  | SL2 m2 => if l2_adm c (l1 s) m2 then lift2 c s m2 else (s, false)
  | SRelay k executor height hook =>
      match find_event c (l1 s) k with
      | Some ev => lift2 c s (L2.MFinalizeDeposit (relay_msg ev executor height hook))
      | None => (s, false)
      end
  | SPropose e proposer idx l2block lo hi v bh =>
      lift1 c s e (L1.MPropose proposer (bid c) idx l2block (honest_root c (l2 s) lo hi v bh))
  | SDelete e ch idx => lift1 c s e (L1.MDelete ch (bid c) idx)
  | SClaim e sender idx m lo hi v bh =>
      match find_w (l2 s) m with
      | Some w =>
          match lift1 c s e (claim_of c s sender idx lo hi v bh w) with
          | (s', true) =>
              (* a withdrawal addressed to the escrow itself stays in the escrow: a donation *)
              let dn := if bool_decide (L1.resolve (c1 c) (L2.w_to w) = Some (escrow_of c))
                        then (L2.w_base w, L2.w_amt w) :: donated s' else donated s' in
              ({| l1 := l1 s'; l2 := l2 s'; paid := m :: paid s'; donated := dn |}, true)
          | r => r
          end
      | None => (s, false)
      end
  | SAdmin1 e m1 => if l1_admin m1 then lift1 c s e m1 else (s, false)
  | SOther e m1 =>
      if other_ok c m1 then
        match lift1 c s e m1 with
        | (s', true) => (match other_donation c m1 with
                         | Some x => {| l1 := l1 s'; l2 := l2 s'; paid := paid s'; donated := x :: donated s' |}
                         | None => s'
                         end, true)
        | r => r
        end
      else (s, false)
  end.

Fixpoint sys_run (c : scfg) (s : sys) (h : list smsg) : sys :=
  match h with
  | [] => s
  | m :: h' => sys_run c (sys_step c s m).1 h'
  end.

(* ---- the terms of the solvency equation ---- *)
Fixpoint zsum {A} (f : A → Z) (l : list A) : Z :=
  match l with [] => 0%Z | x :: l' => (f x + zsum f l')%Z end.

(* emitted but not yet relayed deposits of L1 denom d *)
Definition pending_dep (c : scfg) (s : sys) (d : bytes) : Z :=
  zsum (λ ev, if bool_decide ((L2.next_l1 (l2 s) ≤ L1.e_seq ev)%N ∧ L1.e_l1denom ev = d) then L1.e_amt ev else 0%Z)
       (bevents c (l1 s)).
(* recorded but not yet paid withdrawals of L2 denom d' *)
Definition pending_wd (s : sys) (d' : bytes) : Z :=
  zsum (λ w, if bool_decide (L2.w_seq w ∉ paid s ∧ L2.w_denom w = d') then L2.w_amt w else 0%Z) (L2.wlog (l2 s)).
Definition donations (s : sys) (d : bytes) : Z :=
  zsum (λ x, if bool_decide (x.1 = d) then x.2 else 0%Z) (donated s).

Definition solvent (c : scfg) (s : sys) (d : bytes) : Prop :=
  getb (L1.bk (l1 s)) (escrow_of c) d =
  (gets (L2.bk (l2 s)) (l2d c d) + pending_dep c s d + pending_wd s (l2d c d) + donations s d)%Z.

(* two L1 denoms of this bridge with the same derived L2 denom *)
Definition denom_collision (c : scfg) : Prop := ∃ d1 d2, d1 ≠ d2 ∧ l2d c d1 = l2d c d2.

(* fresh states: nothing emitted, recorded, paid or donated; the bridge exists on L1 *)
Definition fresh (c : scfg) (s : sys) : Prop :=
  L1.elog (l1 s) = [] ∧ L1.plog (l1 s) = [] ∧ L1.proven (l1 s) = ∅ ∧
  (∀ d, getb (L1.bk (l1 s)) (escrow_of c) d = 0%Z) ∧ L1.seq_of (l1 s) (bid c) = 1%N ∧
  L2.wlog (l2 s) = [] ∧ L2.pairs (l2 s) = ∅ ∧ L2.next_l1 (l2 s) = 1%N ∧ L2.next_l2 (l2 s) = 1%N ∧
  (∀ d', gets (L2.bk (l2 s)) d' = 0%Z) ∧ paid s = [] ∧ donated s = [].

(* a consistent bank: no negative balance, and the supply of every denom is the sum of its balances *)
Definition bal_total (b : bank) (d : bytes) : Z :=
  map_fold (λ (k : N * denom) (v acc : Z), if decide (k.2 = d) then (v + acc)%Z else acc) 0%Z (bal b).
Definition bank_sane (b : bank) : Prop :=
  (∀ a d, (0 ≤ getb b a d)%Z) ∧ (∀ d, bal_total b d = gets b d).
(* genesis: fresh, with a consistent L2 bank *)
Definition genesis (c : scfg) (s : sys) : Prop := fresh c s ∧ bank_sane (L2.bk (l2 s)).

(* ---- the drain schedule ---- *)
(* results (accepted?) of the steps of a history, in order *)
Fixpoint sys_oks (c : scfg) (s : sys) (h : list smsg) : list bool :=
  match h with
  | [] => []
  | m :: h' => (sys_step c s m).2 :: sys_oks c (sys_step c s m).1 h'
  end.
(* the claims of the listed L2 sequences against output idx committing to events (lo, hi] *)
Definition claim_steps (e : L1.env) (sender : bytes) (idx lo hi v : N) (bh : bytes) (ms : list N) : list smsg :=
  map (λ m, SClaim e sender idx m lo hi v bh) ms.
(* a recorded withdrawal that carries value, names an L1-valid recipient and is not paid yet *)
Definition claimable (c : scfg) (s : sys) (m : N) : Prop :=
  ∃ w, find_w (l2 s) m = Some w ∧ m ∉ paid s ∧ (0 < L2.w_amt w)%Z ∧ is_Some (L1.resolve (c1 c) (L2.w_to w)).
(* output idx of the bridge stores the honest root over the events (lo, hi] and is final at e *)
Definition committed_final (c : scfg) (s : sys) (e : L1.env) (idx lo hi v : N) (bh : bytes) : Prop :=
  ∃ x o, L1.configs (l1 s) !! bid c = Some x ∧ L1.outputs (l1 s) !! (bid c, idx) = Some o ∧
         L1.o_root o = honest_root c (l2 s) lo hi v bh ∧ L1.is_final x e o = true.

(* [n] consecutive sequences starting at [lo] *)
Fixpoint seq_from (n : nat) (lo : N) : list N :=
  match n with O => [] | S n' => lo :: seq_from n' (lo + 1)%N end.
(* the relays of the listed event sequences by executor [ex] at L1 height [height]; [hk k] is the
   structural description of the hook payload of event k *)
Definition relay_steps (ex : bytes) (height : N) (hk : N → L2.hookp) (ks : list N) : list smsg :=
  map (λ k, SRelay k ex height (hk k)) ks.
(* the emitted but not yet relayed sequences, in order *)
Definition pending_seqs (c : scfg) (s : sys) : list N :=
  seq_from (N.to_nat (L1.seq_of (l1 s) (bid c) - L2.next_l1 (l2 s))) (L2.next_l1 (l2 s)).

(* The drain schedule from state [s]: relay every pending emitted event in order; propose the
   honest output over ALL withdrawals recorded after those relays; then (at a later block time)
   submit the listed claims against it. *)
Definition drain (c : scfg) (s : sys) (ex : bytes) (height : N) (hk : N → L2.hookp)
           (e1 : L1.env) (proposer : bytes) (idx l2block v : N) (bh : bytes)
           (e2 : L1.env) (sender : bytes) (ms : list N) : list smsg :=
  let relays := relay_steps ex height hk (pending_seqs c s) in
  let hi := (L2.next_l2 (l2 (sys_run c s relays)) - 1)%N in
  relays ++ [SPropose e1 proposer idx l2block 0 hi v bh] ++ claim_steps e2 sender idx 0 hi v bh ms.
