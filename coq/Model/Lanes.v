(* L2 lane matching and the redundant-relay filter:
   x/opchild/lanes/system.go (SystemLaneMatchHandler), x/opchild/lanes/free.go
   (FreeLaneMatchHandler), x/opchild/ante/ante.go (RedundantBridgeDecorator).
   Definitions only.

   A transaction is seen through the shapes of its top-level messages.  Address strings are
   byte strings; the match handlers only compare them. *)
From Coq Require Import List NArith Bool.
Require Import Model.Bytes.
Import ListNotations.
Local Open Scope N_scope.

Inductive shape :=
| UpdateOracle                      (* *opchildtypes.MsgUpdateOracle *)
| Exec (inner : list shape)         (* *authz.MsgExec whose GetMessages() succeeds with these *)
| ExecUndecodable                   (* *authz.MsgExec whose GetMessages() fails (an inner Any
                                       without a decoded value) *)
| Deposit (valid : bool) (seq : N)  (* *opchildtypes.MsgFinalizeTokenDeposit; [valid] = passes
                                       Validate and the bridge-executor permission check *)
| Other.                            (* any other message type *)

(* ---------- system lane ---------- *)

(* exactly one message, which is an oracle update or an authz execution of exactly one
   message that is itself (directly) an oracle update *)
Definition system_match (msgs : list shape) : bool :=
  match msgs with
  | [UpdateOracle] => true
  | [Exec [UpdateOracle]] => true
  | _ => false
  end.

(* ---------- free lane ---------- *)

(* [whitelist] = None when the keeper fails to return the parameter.  [granter] = None when the
   transaction names no fee granter; the handler then compares against the empty string. *)
Definition free_match (whitelist : option (list bytes)) (payer : bytes) (granter : option bytes) : bool :=
  match whitelist with
  | None => false
  | Some wl =>
      let g := match granter with Some g => g | None => [] end in
      existsb (fun a => bytes_eqb a payer || bytes_eqb a g) wl
  end.

(* ---------- redundant-relay filter ---------- *)

Inductive mode := MCheck | MReCheck | MDeliver.

(* (ctx.IsCheckTx() || ctx.IsReCheckTx()) && !simulate *)
Definition filter_active (m : mode) (simulate : bool) : bool :=
  match m with MDeliver => false | _ => negb simulate end.

(* What FinalizeTokenDeposit answers with next expected sequence [n]:
   None = error; Some (n', true) = NOOP; Some (n', false) = SUCCESS.  (Model/L2.v has the
   complete handler; only the result class and the sequence counter matter here.) *)
Definition dep_handle (n : N) (valid : bool) (seq : N) : option (N * bool) :=
  if negb valid then None
  else if seq <? n then Some (n, true)
  else if n <? seq then None
  else Some (n + 1, false).

(* the loop over tx.GetMsgs(): only top-level deposit messages are looked at; returns
   (redundancies, packetMsgs) or None when a handler call returned an error *)
Fixpoint scan (n : N) (msgs : list shape) (red pk : N) : option (N * N) :=
  match msgs with
  | [] => Some (red, pk)
  | Deposit valid seq :: rest =>
      match dep_handle n valid seq with
      | None => None
      | Some (n', noop) => scan n' rest (if noop then red + 1 else red) (pk + 1)
      end
  | _ :: rest => scan n rest red pk
  end.

Inductive ante_result := Pass | RejectRedundant | RejectError.

(* RedundantBridgeDecorator.AnteHandle with next expected L1 sequence [n]; Pass = next(...) is
   called *)
Definition redundant_ante (m : mode) (simulate : bool) (n : N) (msgs : list shape) : ante_result :=
  if filter_active m simulate then
    match scan n msgs 0 0 with
    | None => RejectError
    | Some (red, pk) => if (red =? pk) && (0 <? pk) then RejectRedundant else Pass
    end
  else Pass.

(* ---------- vocabulary of the statements ---------- *)

(* the top-level deposit messages of a transaction, in order *)
Fixpoint deposits (msgs : list shape) : list (bool * N) :=
  match msgs with
  | [] => []
  | Deposit v s :: rest => (v, s) :: deposits rest
  | _ :: rest => deposits rest
  end.

(* every deposit message is valid and, when its turn comes, is stale or exactly the next one *)
Fixpoint in_order (n : N) (ds : list (bool * N)) : Prop :=
  match ds with
  | [] => True
  | (v, s) :: rest => v = true /\ s <= n /\ in_order (if s =? n then n + 1 else n) rest
  end.

(* some deposit message is fresh (credits a not yet processed sequence) when its turn comes *)
Fixpoint has_fresh (n : N) (ds : list (bool * N)) : Prop :=
  match ds with
  | [] => False
  | (v, s) :: rest => s = n \/ has_fresh (if s =? n then n + 1 else n) rest
  end.
