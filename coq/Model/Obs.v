(* Canonical observation values exchanged between the Go harness (which prints what the
   implementation showed) and the model (which computes what it predicts).  The generated
   case files contain literals of this type; comparison is the boolean [ov_eqb]. *)
From Coq Require Import List NArith ZArith String Bool.
Require Import Model.Bytes.
Import ListNotations.

Inductive ov :=
| ON (n : N)
| OZ (z : Z)
| OB (b : bytes)
| OS (s : string)
| OL (l : list ov).

Fixpoint ov_eqb (a b : ov) : bool :=
  match a, b with
  | ON x, ON y => N.eqb x y
  | OZ x, OZ y => Z.eqb x y
  | OB x, OB y => bytes_eqb x y
  | OS x, OS y => String.eqb x y
  | OL x, OL y =>
      (fix go (x y : list ov) : bool :=
         match x, y with
         | [], [] => true
         | a :: x', b :: y' => ov_eqb a b && go x' y'
         | _, _ => false
         end) x y
  | _, _ => false
  end.

Definition obool (b : bool) : ov := OS (if b then "T" else "F")%string.
Definition oopt {A} (f : A -> ov) (o : option A) : ov :=
  match o with Some x => OL [f x] | None => OL [] end.

(* result of comparing one trace: index of first mismatching step + what the model computed *)
Fixpoint first_mismatch (i : nat) (model expected : list ov) : option (nat * ov * ov) :=
  match model, expected with
  | [], [] => None
  | m :: ms, e :: es => if ov_eqb m e then first_mismatch (S i) ms es else Some (i, m, e)
  | m :: _, [] => Some (i, m, OS "<missing-expected>"%string)
  | [], e :: _ => Some (i, OS "<missing-model>"%string, e)
  end.

(* [check_all run cases]: for each (id, input, expected) run the model and report mismatches *)
Definition check_all {I} (run : I -> list ov) (cases : list (N * I * list ov))
  : list (N * nat * ov * ov) :=
  flat_map (fun c : N * I * list ov =>
              let '(id, inp, expd) := c in
              match first_mismatch 0 (run inp) expd with
              | None => []
              | Some (i, m, e) => [(id, i, m, e)]
              end) cases.
