(* The opchild (L2) message server as an executable state machine:
   x/opchild/keeper/msg_server.go, deposit.go, sequences.go, params.go, executor_change.go,
   abci.go.  [step] returns the unchanged state on error (baseapp discards the writes of a
   failing or panicking message).  Definitions only. *)
From stdpp Require Import gmap numbers list.
From Coq Require Import ZArith.
Require Import Model.Bytes Model.Bank Model.Valset.

(* ---- environment that is not module state ---- *)
Record cfg := {
  resolve : bytes → option N;   (* account address codec: None = not a valid address string *)
  blocked : N → bool;           (* bank's blocked (module) accounts *)
  authority : bytes;            (* the module authority string the keeper was built with *)
  modacc : N;                   (* opchild module account (minter / burner) *)
  feecol : N;                   (* fee collector module account *)
}.

Record params := {
  p_admin : bytes; p_execs : list bytes; p_maxv : N; p_hist : N;
  p_mingas : list (bytes * Z); p_whitelist : list bytes; p_hookgas : N;
}.

Record binfo := {
  bi_id : N; bi_addr : bytes; bi_chain : bytes; bi_client : bytes;
  bi_cfg_ok : bool;     (* BridgeConfig.ValidateWithNoAddrValidation, decided on the real struct *)
  bi_oracle : bool;     (* BridgeConfig.OracleEnabled *)
  bi_cfg : bytes;       (* canonical bytes of the rest of the config (opaque) *)
}.

(* an emitted initiate_token_withdrawal event: the L2 -> L1 transport *)
Record wrec := { w_seq : N; w_from : bytes; w_to : bytes; w_denom : bytes; w_base : bytes; w_amt : Z;
                 w_refund : bool (* ghost: emitted by a failed deposit, not by a user *) }.

(* a processed deposit (one finalize_token_deposit event); [d_ok] = credited and kept *)
Record drec := { d_seq : N; d_to : bytes; d_denom : bytes; d_amt : Z; d_ok : bool }.

Record l2state := {
  bk : bank;
  next_l1 : N;                 (* next expected L1 deposit sequence *)
  next_l2 : N;                 (* next L2 withdrawal sequence *)
  pairs : gmap bytes bytes;    (* L2 denom -> L1 base denom *)
  prm : params;
  info : option binfo;
  vs : vstate;
  seqs : gmap N N;             (* x/auth account sequence numbers (hook signers) *)
  wlog : list wrec;            (* all withdrawal events so far, newest first (ghost) *)
  dlog : list drec;            (* all processed deposits so far, newest first (ghost) *)
}.

(* ---- messages ---- *)
(* The hook payload of a deposit, described structurally: empty, undecodable bytes, or a tx
   signed by [signer] with sequence [tx_seq] whose signature is ([sig_ok]) or is not valid for
   that sequence, carrying messages of the signer (bank sends, token withdrawals). *)
(* a message carried by the hook tx, signed by the hook signer: a bank MsgSend, or a
   MsgInitiateTokenWithdrawal whose Sender string is [sender] *)
Inductive hmsg :=
| HSend (to : N) (d : bytes) (amt : Z)
| HWithdraw (sender to d : bytes) (amt : Z).

Inductive hookp :=
| HNone
| HGarbage
| HTx (signer tx_seq : N) (sig_ok : bool) (msgs : list hmsg).

Record fdep := {
  fd_sender : bytes; fd_from : bytes; fd_to : bytes; fd_denom : bytes; fd_amt : Z;
  fd_seq : N; fd_height : N; fd_base : bytes; fd_hook : hookp;
}.

Inductive msg :=
| MFinalizeDeposit (m : fdep)
| MWithdraw (sender to d : bytes) (amt : Z)
| MBankSend (from to : N) (d : bytes) (amt : Z)
| MSetBridgeInfo (sender : bytes) (bi : binfo)
| MUpdateParams (auth : bytes) (p : params)
| MAddValidator (auth : bytes) (op : option N) (key : N)
| MRemoveValidator (auth : bytes) (op : option N)
| MSpendFeePool (auth recipient : bytes) (coins : list (bytes * Z))
| MExecute (sender : bytes) (inner : list msg).

Inductive resp := RNone | RNoop | RSuccess | RSeq (n : N).

(* ---- record update helpers ---- *)
Definition set_bk (s : l2state) (b : bank) : l2state :=
  {| bk := b; next_l1 := next_l1 s; next_l2 := next_l2 s; pairs := pairs s; prm := prm s;
     info := info s; vs := vs s; seqs := seqs s; wlog := wlog s; dlog := dlog s |}.
Definition set_next_l1 (s : l2state) (n : N) : l2state :=
  {| bk := bk s; next_l1 := n; next_l2 := next_l2 s; pairs := pairs s; prm := prm s;
     info := info s; vs := vs s; seqs := seqs s; wlog := wlog s; dlog := dlog s |}.
Definition set_pairs (s : l2state) (p : gmap bytes bytes) : l2state :=
  {| bk := bk s; next_l1 := next_l1 s; next_l2 := next_l2 s; pairs := p; prm := prm s;
     info := info s; vs := vs s; seqs := seqs s; wlog := wlog s; dlog := dlog s |}.
Definition set_prm (s : l2state) (p : params) : l2state :=
  {| bk := bk s; next_l1 := next_l1 s; next_l2 := next_l2 s; pairs := pairs s; prm := p;
     info := info s; vs := vs s; seqs := seqs s; wlog := wlog s; dlog := dlog s |}.
Definition set_info (s : l2state) (i : option binfo) : l2state :=
  {| bk := bk s; next_l1 := next_l1 s; next_l2 := next_l2 s; pairs := pairs s; prm := prm s;
     info := i; vs := vs s; seqs := seqs s; wlog := wlog s; dlog := dlog s |}.
Definition set_vs (s : l2state) (v : vstate) : l2state :=
  {| bk := bk s; next_l1 := next_l1 s; next_l2 := next_l2 s; pairs := pairs s; prm := prm s;
     info := info s; vs := v; seqs := seqs s; wlog := wlog s; dlog := dlog s |}.
Definition set_seqs (s : l2state) (q : gmap N N) : l2state :=
  {| bk := bk s; next_l1 := next_l1 s; next_l2 := next_l2 s; pairs := pairs s; prm := prm s;
     info := info s; vs := vs s; seqs := q; wlog := wlog s; dlog := dlog s |}.
(* IncreaseNextL2Sequence + emitWithdrawEvents *)
Definition push_withdrawal (s : l2state) (w : wrec) : l2state :=
  {| bk := bk s; next_l1 := next_l1 s; next_l2 := (next_l2 s + 1)%N; pairs := pairs s; prm := prm s;
     info := info s; vs := vs s; seqs := seqs s; wlog := w :: wlog s; dlog := dlog s |}.
Definition push_deposit (s : l2state) (r : drec) : l2state :=
  {| bk := bk s; next_l1 := next_l1 s; next_l2 := next_l2 s; pairs := pairs s; prm := prm s;
     info := info s; vs := vs s; seqs := seqs s; wlog := wlog s; dlog := r :: dlog s |}.

Definition getseq (s : l2state) (a : N) : N := default 0%N (seqs s !! a).

(* ---- permission checks ---- *)
(* checkBridgeExecutorPermission compares decoded address BYTES *)
Definition is_executor (c : cfg) (s : l2state) (sender : bytes) : bool :=
  match resolve c sender with
  | None => false
  | Some a =>
      match mapM (resolve c) (p_execs (prm s)) with
      | None => false
      | Some ids => bool_decide (a ∈ ids)
      end
  end.
(* checkAdminPermission and the authority checks compare STRINGS *)
Definition is_admin (s : l2state) (sender : bytes) : bool := bool_decide (p_admin (prm s) = sender).
Definition is_authority (c : cfg) (a : bytes) : bool := bool_decide (authority c = a).

(* ---- params ---- *)
Definition mingas_ok (l : list (bytes * Z)) : bool :=
  forallb (λ p, valid_denom p.1 && (0 <? p.2)%Z) l && bool_decide (NoDup (map fst l)).
Definition params_valid (c : cfg) (p : params) : bool :=
  bool_decide (is_Some (resolve c (p_admin p))) &&
  forallb (λ e, bool_decide (is_Some (resolve c e))) (p_execs p) &&
  mingas_ok (p_mingas p) && negb (p_maxv p =? 0)%N &&
  forallb (λ e, bool_decide (is_Some (resolve c e))) (p_whitelist p).
(* Keeper.SetParams *)
Definition set_params (c : cfg) (s : l2state) (p : params) : option l2state :=
  if negb (params_valid c p) then None else
  if bool_decide (p_maxv p < N.of_nat (size (vals (vs s))))%N then None else
  Some (set_prm s p).

(* ---- user withdrawal ---- *)
Definition withdraw (c : cfg) (s : l2state) (sender to d : bytes) (amt : Z) : option (l2state * resp) :=
  a ← resolve c sender;
  if bool_decide (to = []) then None else
  (* Validate: valid positive coin that fits the uint64 the L1 withdrawal hash commits to *)
  if negb (valid_denom d && (0 <? amt)%Z && (amt <? 18446744073709551616)%Z) then None else
  b1 ← bank_send (bk s) a (modacc c) d amt;
  b2 ← bank_burn b1 (modacc c) d amt;
  base ← pairs s !! d;
  Some (push_withdrawal (set_bk s b2)
          {| w_seq := next_l2 s; w_from := sender; w_to := to; w_denom := d; w_base := base; w_amt := amt; w_refund := false |},
        RSeq (next_l2 s)).

(* ---- deposits ---- *)
(* safeDepositToken: zero amount only creates the account; otherwise mint to the module and
   send to the recipient on a cache that is committed only if both succeed *)
Definition safe_deposit (c : cfg) (s : l2state) (to : N) (d : bytes) (amt : Z) : l2state * bool :=
  if (amt =? 0)%Z then (s, true) else
  if blocked c to then (s, false) else
  match bank_send (bank_mint (bk s) (modacc c) d amt) (modacc c) to d amt with
  | Some b => (set_bk s b, true)
  | None => (s, false)
  end.

(* one bank MsgSend executed by the hook (x/bank msg server) *)
Definition hook_send (c : cfg) (b : bank) (from : N) (snd : N * bytes * Z) : option bank :=
  let '(to, d, amt) := snd in
  if negb (valid_denom d && (0 <? amt)%Z) then None else
  if blocked c to then None else
  bank_send b from to d amt.

Definition hook_gas_floor : N := 3000.

(* one message of the hook tx, executed by the router on the hook's cache.  A withdrawal is the
   user withdrawal handler run for the hook signer (a Sender string that is not the signer's
   makes the tx unsignable; modelled as a failing message - the harness never generates it) *)
Definition hook_msg (c : cfg) (s : l2state) (signer : N) (m : hmsg) : option l2state :=
  match m with
  | HSend to d amt => b ← hook_send c (bk s) signer (to, d, amt); Some (set_bk s b)
  | HWithdraw sender to d amt =>
      if negb (bool_decide (resolve c sender = Some signer)) then None else
      '(s', _) ← withdraw c s sender to d amt; Some s'
  end.

(* handleBridgeHook: decode, ante (signature + sequence; persists), messages on a cache that is
   committed - together with the events of the messages - only if all of them succeed *)
Definition run_hook (c : cfg) (s : l2state) (h : hookp) : l2state * bool :=
  match h with
  | HNone => (s, true)
  | HGarbage => (s, false)
  | HTx signer tseq sig_ok msgs =>
      if (p_hookgas (prm s) <? hook_gas_floor)%N then (s, false) else
      if negb (sig_ok && (tseq =? getseq s signer)%N) then (s, false) else
      let s1 := set_seqs s (<[signer := (getseq s signer + 1)%N]> (seqs s)) in
      match foldl (λ os m, s ← os; hook_msg c s signer m) (Some s1) msgs with
      | Some s2 => (s2, true)
      | None => (s1, false)
      end
  end.

Definition hook_nonempty (h : hookp) : bool := match h with HNone => false | _ => true end.

Definition fdep_valid (c : cfg) (m : fdep) : bool :=
  bool_decide (is_Some (resolve c (fd_sender m))) &&
  negb (bool_decide (fd_from m = [])) &&
  coin_valid (fd_denom m) (fd_amt m) &&
  valid_denom (fd_base m) &&
  negb (fd_seq m =? 0)%N && negb (fd_height m =? 0)%N.

Definition finalize_deposit (c : cfg) (s : l2state) (m : fdep) : option (l2state * resp) :=
  if negb (fdep_valid c m) then None else
  if negb (is_executor c s (fd_sender m)) then None else
  if (fd_seq m <? next_l1 s)%N then Some (s, RNoop) else
  if (next_l1 s <? fd_seq m)%N then None else
  let '(s1, dep_ok) :=
    match resolve c (fd_to m) with
    | None => (s, false)
    | Some a => safe_deposit c s a (fd_denom m) (fd_amt m)
    end in
  let s2 := set_next_l1 s1 (next_l1 s1 + 1)%N in
  let s3 := match pairs s2 !! fd_denom m with
            | Some _ => s2
            | None => set_pairs s2 (<[fd_denom m := fd_base m]> (pairs s2))
            end in
  let '(s4, hook_ok) :=
    if dep_ok && hook_nonempty (fd_hook m) then run_hook c s3 (fd_hook m) else (s3, true) in
  let rec_ ok := {| d_seq := fd_seq m; d_to := fd_to m; d_denom := fd_denom m; d_amt := fd_amt m; d_ok := ok |} in
  if dep_ok && hook_ok then Some (push_deposit s4 (rec_ true), RSuccess) else
  (* reclaim and burn what was credited *)
  s5 ← (if dep_ok then
          a ← resolve c (fd_to m);
          b1 ← bank_send (bk s4) a (modacc c) (fd_denom m) (fd_amt m);
          b2 ← bank_burn b1 (modacc c) (fd_denom m) (fd_amt m);
          Some (set_bk s4 b2)
        else Some s4);
  (* IncreaseNextL2Sequence; emitWithdrawEvents (GetBaseDenom must succeed) *)
  base ← pairs s5 !! fd_denom m;
  Some (push_withdrawal (push_deposit s5 (rec_ false))
          {| w_seq := next_l2 s5; w_from := fd_to m; w_to := fd_from m;
             w_denom := fd_denom m; w_base := base; w_amt := fd_amt m; w_refund := true |},
        RSuccess).

(* ---- bridge info ---- *)
Definition binfo_valid (bi : binfo) : bool :=
  negb (bi_id bi =? 0)%N && negb (bool_decide (bi_addr bi = [])) && bi_cfg_ok bi.
Definition binfo_compatible (old new : binfo) : bool :=
  bool_decide (bi_id old = bi_id new) && bool_decide (bi_addr old = bi_addr new) &&
  bool_decide (bi_chain old = bi_chain new) &&
  (bool_decide (bi_client old = []) || bool_decide (bi_client old = bi_client new)).
Definition set_bridge_info (c : cfg) (s : l2state) (sender : bytes) (bi : binfo) : option (l2state * resp) :=
  if negb (bool_decide (is_Some (resolve c sender)) && binfo_valid bi) then None else
  if negb (is_executor c s sender) then None else
  if negb (match info s with None => true | Some old => binfo_compatible old bi end) then None else
  Some (set_info s (Some bi), RNone).

(* ---- authority messages ---- *)
Definition update_params (c : cfg) (s : l2state) (auth : bytes) (p : params) : option (l2state * resp) :=
  if negb (bool_decide (is_Some (resolve c auth)) && params_valid c p) then None else
  if negb (is_authority c auth) then None else
  s' ← set_params c s p; Some (s', RNone).

Definition add_val (c : cfg) (s : l2state) (auth : bytes) (op : option N) (key : N) : option (l2state * resp) :=
  if negb (bool_decide (is_Some (resolve c auth))) then None else
  o ← op;
  if negb (is_authority c auth) then None else
  v ← add_validator (p_maxv (prm s)) (vs s) o key; Some (set_vs s v, RNone).

Definition remove_val (c : cfg) (s : l2state) (auth : bytes) (op : option N) : option (l2state * resp) :=
  if negb (bool_decide (is_Some (resolve c auth))) then None else
  o ← op;
  if negb (is_authority c auth) then None else
  v ← remove_validator (vs s) o; Some (set_vs s v, RNone).

(* sdk.Coins.IsValid: sorted strictly by denom, valid denoms, positive amounts; we require
   the harness to send sorted lists, duplicates are then adjacent - modelled as NoDup *)
Definition coins_valid (l : list (bytes * Z)) : bool :=
  forallb (λ p, valid_denom p.1 && (0 <? p.2)%Z) l && bool_decide (NoDup (map fst l)).
Definition spend_fee_pool (c : cfg) (s : l2state) (auth recipient : bytes) (coins : list (bytes * Z))
  : option (l2state * resp) :=
  if negb (bool_decide (is_Some (resolve c auth))) then None else
  r ← resolve c recipient;
  if negb (coins_valid coins) then None else
  if negb (is_authority c auth) then None else
  if blocked c r then None else
  b ← foldl (λ ob cn, b ← ob; bank_send b (feecol c) r cn.1 cn.2) (Some (bk s)) coins;
  Some (set_bk s b, RNone).

Definition bank_send_msg (s : l2state) (from to : N) (d : bytes) (amt : Z) : option (l2state * resp) :=
  if negb (valid_denom d && (0 <? amt)%Z) then None else
  b ← bank_send (bk s) from to d amt; Some (set_bk s b, RNone).

(* the declared signer of a message (the field carrying cosmos.msg.v1.signer) *)
Definition signer_of (m : msg) : option bytes :=
  match m with
  | MFinalizeDeposit f => Some (fd_sender f)
  | MWithdraw sender _ _ _ => Some sender
  | MBankSend _ _ _ _ => None
  | MSetBridgeInfo sender _ => Some sender
  | MUpdateParams a _ => Some a
  | MAddValidator a _ _ => Some a
  | MRemoveValidator a _ => Some a
  | MSpendFeePool a _ _ => Some a
  | MExecute sender _ => Some sender
  end.

(* ExecuteMessages: admin only; every inner message's sole signer must be the module
   authority (compared as decoded bytes); handlers run on one cache, all-or-nothing. *)
Fixpoint handle (c : cfg) (s : l2state) (m : msg) {struct m} : option (l2state * resp) :=
  match m with
  | MFinalizeDeposit f => finalize_deposit c s f
  | MWithdraw sender to d amt => withdraw c s sender to d amt
  | MBankSend from to d amt => bank_send_msg s from to d amt
  | MSetBridgeInfo sender bi => set_bridge_info c s sender bi
  | MUpdateParams a p => update_params c s a p
  | MAddValidator a op key => add_val c s a op key
  | MRemoveValidator a op => remove_val c s a op
  | MSpendFeePool a r coins => spend_fee_pool c s a r coins
  | MExecute sender inner =>
      if negb (bool_decide (is_Some (resolve c sender))) then None else
      if bool_decide (inner = []) then None else
      if negb (is_admin s sender) then None else
      auth ← resolve c (authority c);
      (fix go (s : l2state) (l : list msg) {struct l} : option (l2state * resp) :=
         match l with
         | [] => Some (s, RNone)
         | im :: l' =>
             sg ← signer_of im;
             a ← resolve c sg;
             if negb (bool_decide (a = auth)) then None else
             '(s', _) ← handle c s im;
             go s' l'
         end) s inner
  end.

Inductive result := Ok (r : resp) | Err.

Definition step (c : cfg) (s : l2state) (m : msg) : l2state * result :=
  match handle c s m with
  | Some (s', r) => (s', Ok r)
  | None => (s, Err)
  end.

Fixpoint run (c : cfg) (s : l2state) (h : list msg) : l2state * list result :=
  match h with
  | [] => (s, [])
  | m :: h' => let '(s1, r) := step c s m in
               let '(s2, rs) := run c s1 h' in (s2, r :: rs)
  end.

(* ---- block boundaries ---- *)
(* EndBlocker: an executor-change plan registered for this height, then the validator updates *)
Record plan := { pl_op : N; pl_key : N; pl_execs : list bytes }.

Definition change_executor (c : cfg) (s : l2state) (p : plan) : option l2state :=
  let s1 := set_vs s (change_executor_vals (vs s) (pl_op p) (pl_key p)) in
  set_params c s1 {| p_admin := p_admin (prm s1); p_execs := pl_execs p; p_maxv := p_maxv (prm s1);
                     p_hist := p_hist (prm s1); p_mingas := p_mingas (prm s1);
                     p_whitelist := p_whitelist (prm s1); p_hookgas := p_hookgas (prm s1) |}.

Definition end_block (c : cfg) (s : l2state) (pl : option plan) : option (l2state * list update) :=
  s1 ← match pl with None => Some s | Some p => change_executor c s p end;
  '(v, ups) ← end_block_updates (vs s1);
  Some (set_vs s1 v, ups).
