(* Replaying a recorded C15 history on the oracle model and projecting the observables exactly
   as the Go harness prints them (harness/gen_c15.go c15State.Ov). *)
From stdpp Require Import gmap numbers list.
From Coq Require Import ZArith String.
Require Import Model.Bytes Model.Obs Model.Oracle.

Record ocase := {
  oc_nvals : N;          (* validator universe: consensus address ids 1..n *)
  oc_npairs : N;         (* currency pair universe: ids 0..n-1 *)
  oc_ops : list oop;
}.

Definition quote_ov (q : option (option quote)) : ov :=
  match q with
  | None => OS "-"
  | Some None => OL []
  | Some (Some x) => OL [OZ (q_price x); OZ (q_ts x); ON (q_blk x)]
  end.

Definition upto_n (start : N) (n : N) : list N := (λ i, (start + N.of_nat i)%N) <$> seq 0 (N.to_nat n).

Definition o_obs (c : ocase) (s : ostate) (ok : bool) : ov :=
  OL [ OS (if ok then "OK" else "ERR");
       OL ((λ cp, quote_ov (quotes s !! cp)) <$> upto_n 0 (oc_npairs c));
       oopt OZ (hheight s);
       ON (N.of_nat (size (hset s)));
       OL ((λ a, match hset s !! a with
                 | Some (pk, tk) => OL [ON pk; OZ tk]
                 | None => OL []
                 end) <$> upto_n 1 (oc_nvals c)) ].

Fixpoint run_oobs (c : ocase) (s : ostate) (ops : list oop) : list ov :=
  match ops with
  | [] => []
  | o :: ops' => let '(s', ok) := step s o in o_obs c s' ok :: run_oobs c s' ops'
  end.

Definition run_ocase (c : ocase) : list ov := run_oobs c oinit (oc_ops c).
