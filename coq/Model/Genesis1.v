(* Genesis export / validation / import of the ophost (L1) module:
   x/ophost/keeper/genesis.go (ExportGenesis, InitGenesis), x/ophost/types/genesis.go
   (ValidateGenesis).  A genesis value mirrors the STRUCTURE of types.GenesisState: params, a
   list of per-bridge records and the next bridge id.  [export] walks the collections in key
   order exactly as ExportGenesis does, [import] performs the writes of InitGenesis in the same
   order (including what it re-derives: batch-info indices are re-numbered by SetBatchInfo,
   a stored next bridge id of 0 reads back as 1).  Definitions only. *)
From stdpp Require Import gmap numbers list sorting.
From Coq Require Import ZArith.
Require Import Model.Bytes Model.Bank Model.Hashes Model.Valset Model.L1.

(* types.Bridge *)
Record gbridge := {
  g_id : N;
  g_next_seq : N;                       (* next_l1_sequence *)
  g_next_out : N;                       (* next_output_index *)
  g_config : config;                    (* bridge_config *)
  g_pairs : list (bytes * bytes);       (* token_pairs: (l2 denom, l1 denom) *)
  g_proven : list bytes;                (* proven_withdrawals *)
  g_outputs : list (N * output);        (* proposals: (output index, output) *)
  g_batches : list (batch * output);    (* batch_infos: (batch info, output) - NO index *)
}.

(* types.GenesisState *)
Record genesis1 := {
  g_fee : list (bytes * Z);             (* params.registration_fee *)
  g_bridges : list gbridge;
  g_next_bridge : N;
}.

(* ---- export ---- *)
Definition lex_le {A} (a b : bytes * A) : Prop := lexle a.1 b.1 = true.
Global Instance lex_le_dec {A} (a b : bytes * A) : Decision (lex_le a b).
Proof. unfold lex_le; apply _. Defined.
Definition lex_le0 (a b : bytes) : Prop := lexle a b = true.
Global Instance lex_le0_dec (a b : bytes) : Decision (lex_le0 a b).
Proof. unfold lex_le0; apply _. Defined.

(* the entries of a collection keyed by (bridge id, k) that belong to bridge [b] *)
Definition sel {K} `{Countable K} {A} (b : N) (m : gmap (N * K) A) : list (K * A) :=
  omap (λ kv, if bool_decide (kv.1.1 = b) then Some (kv.1.2, kv.2) else None) (map_to_list m).

(* IterateOutputProposals / IterateTokenPair / IterateProvenWithdrawals / IterateBatchInfos:
   prefix walks in key order *)
Definition bridge_outputs (s : l1state) (b : N) : list (N * output) :=
  merge_sort key_le (sel b (outputs s)).
Definition bridge_pairs (s : l1state) (b : N) : list (bytes * bytes) :=
  merge_sort lex_le (sel b (pairs s)).
Definition bridge_proven (s : l1state) (b : N) : list bytes :=
  merge_sort lex_le0 (omap (λ k : N * bytes, if bool_decide (k.1 = b) then Some k.2 else None)
                           (elements (proven s))).
Definition bridge_batches (s : l1state) (b : N) : list (batch * output) :=
  snd <$> merge_sort key_le (sel b (batches s)).

Definition export_bridge (s : l1state) (bx : N * config) : gbridge :=
  let b := bx.1 in
  {| g_id := b; g_next_seq := seq_of s b; g_next_out := out_of s b; g_config := bx.2;
     g_pairs := bridge_pairs s b; g_proven := bridge_proven s b;
     g_outputs := bridge_outputs s b; g_batches := bridge_batches s b |}.

(* ExportGenesis: IterateBridgeConfig walks BridgeConfigs in id order *)
Definition export (s : l1state) : genesis1 :=
  {| g_fee := regfee s;
     g_bridges := export_bridge s <$> sorted_ops (configs s);
     g_next_bridge := next_bridge s |}.

(* ---- ValidateGenesis ---- *)
(* Output.IsEmpty *)
Definition out_is_empty (o : output) : bool :=
  bool_decide (o_root o = []) && (o_l1h o =? 0)%N && (o_l2 o =? 0)%N.

Definition bridge_valid (c : cfg) (g : gbridge) : bool :=
  config_valid c (g_config g) && negb (g_id g =? 0)%N && (1 <=? g_next_seq g)%N &&
  forallb (λ p, valid_denom p.2 && valid_denom p.1) (g_pairs g) &&
  forallb (λ h, length h =? 32)%nat (g_proven g) &&
  forallb (λ io, negb (io.1 =? 0)%N && (length (o_root io.2) =? 32)%nat) (g_outputs g) &&
  match g_batches g with
  | [] => false
  | first :: _ =>
      bool_decide (fst <$> list.last (g_batches g) = Some (c_batch (g_config g))) && out_is_empty first.2
  end.

Definition validate (c : cfg) (g : genesis1) : bool :=
  forallb (bridge_valid c) (g_bridges g) && (1 <=? g_next_bridge g)%N && coins_valid (g_fee g).

(* ---- InitGenesis ---- *)
(* one iteration of the loop over data.Bridges; SetBridgeConfig validates the config and
   InitGenesis panics on its error (None); every other write is an unconditional Set;
   RecordProvenWithdrawal copies the hash into a [32]byte; SetBatchInfo appends at
   GetNextBatchInfoIndex. *)
Definition import_bridge (c : cfg) (os : option l1state) (g : gbridge) : option l1state :=
  s ← os;
  if negb (config_valid c (g_config g)) then None else
  let id := g_id g in
  Some (foldl (λ st bo, push_batch st id bo.1 bo.2)
          {| bk := bk s; next_bridge := next_bridge s;
             configs := <[id := g_config g]> (configs s);
             next_seq := <[id := g_next_seq g]> (next_seq s);
             next_out := <[id := g_next_out g]> (next_out s);
             outputs := foldl (λ m io, <[(id, io.1) := io.2]> m) (outputs s) (g_outputs g);
             proven := foldl (λ m h, {[ (id, firstn_pad 32 h) ]} ∪ m) (proven s) (g_proven g);
             pairs := foldl (λ m p, <[(id, p.1) := p.2]> m) (pairs s) (g_pairs g);
             batches := batches s; regfee := regfee s; chans := chans s; admins := admins s;
             elog := elog s; plog := plog s |}
          (g_batches g)).

(* the empty ophost store next to the other modules' state of [base] (x/bank balances, IBC
   channel and permission keepers; the ghost logs continue) *)
Definition fresh (base : l1state) (fee : list (bytes * Z)) : l1state :=
  {| bk := bk base; next_bridge := 1; configs := ∅; next_seq := ∅; next_out := ∅; outputs := ∅;
     proven := ∅; pairs := ∅; batches := ∅; regfee := fee; chans := chans base;
     admins := admins base; elog := elog base; plog := plog base |}.

Definition set_next_bridge (s : l1state) (n : N) : l1state :=
  {| bk := bk s; next_bridge := n; configs := configs s; next_seq := next_seq s;
     next_out := next_out s; outputs := outputs s; proven := proven s; pairs := pairs s;
     batches := batches s; regfee := regfee s; chans := chans s; admins := admins s;
     elog := elog s; plog := plog s |}.

(* InitGenesis into fresh ophost stores; SetNextBridgeId stores the number, GetNextBridgeId
   reads a stored 0 as DefaultBridgeIdStart *)
Definition import (c : cfg) (base : l1state) (g : genesis1) : option l1state :=
  s ← foldl (import_bridge c) (Some (fresh base (g_fee g))) (g_bridges g);
  Some (set_next_bridge s (if (g_next_bridge g =? 0)%N then 1%N else g_next_bridge g)).

(* ---- what "the same state" means ---- *)
(* Two states are equivalent when every component is equal, except that the two per-bridge
   counter tables are compared as the total functions the keeper exposes (GetNextL1Sequence /
   GetNextOutputIndex read an absent entry as 1; InitGenesis writes the entry explicitly). *)
Definition l1_eqv (s t : l1state) : Prop :=
  bk s = bk t ∧ next_bridge s = next_bridge t ∧ configs s = configs t ∧
  (∀ b, seq_of s b = seq_of t b) ∧ (∀ b, out_of s b = out_of t b) ∧
  outputs s = outputs t ∧ proven s = proven t ∧ pairs s = pairs t ∧ batches s = batches t ∧
  regfee s = regfee t ∧ chans s = chans t ∧ admins s = admins t ∧ elog s = elog t ∧ plog s = plog t.

(* states that agree on every ophost collection (they may differ in x/bank, the IBC keepers and
   the ghost logs) *)
Definition same_ophost (s t : l1state) : Prop :=
  next_bridge t = next_bridge s ∧ configs t = configs s ∧ next_seq t = next_seq s ∧
  next_out t = next_out s ∧ outputs t = outputs s ∧ proven t = proven s ∧ pairs t = pairs s ∧
  batches t = batches s ∧ regfee t = regfee s.

(* ---- the reachable-state invariant ---- *)
(* the hash function returns 32 bytes (used for claim records and for l2 denoms) *)
Definition hash_wf (c : cfg) : Prop :=
  ∀ x, length (hash c x) = 32%nat ∧ Forall (λ n, n < 256)%N (hash c x).

Record l1_inv (c : cfg) (s : l1state) : Prop := {
  inv_next : (1 ≤ next_bridge s)%N;
  inv_cfg : ∀ b x, configs s !! b = Some x → (1 ≤ b < next_bridge s)%N ∧ config_valid c x = true;
  inv_seq : ∀ b v, next_seq s !! b = Some v → is_Some (configs s !! b) ∧ (1 ≤ v)%N;
  inv_out : ∀ b v, next_out s !! b = Some v → is_Some (configs s !! b) ∧ (1 ≤ v)%N;
  inv_outputs : ∀ b i o, outputs s !! (b, i) = Some o →
      is_Some (configs s !! b) ∧ i ≠ 0%N ∧ length (o_root o) = 32%nat;
  inv_proven : ∀ b h, (b, h) ∈ proven s → is_Some (configs s !! b) ∧ length h = 32%nat;
  inv_pairs : ∀ b d v, pairs s !! (b, d) = Some v →
      is_Some (configs s !! b) ∧ valid_denom d = true ∧ valid_denom v = true;
  inv_batches_cfg : ∀ b i v, batches s !! (b, i) = Some v → is_Some (configs s !! b);
  (* batch-info history of an existing bridge: indices contiguous from 0, non-empty, the first
     entry carries the empty output, the last entry is the bridge's current batch info *)
  inv_batches : ∀ b x, configs s !! b = Some x →
      ∃ n : nat, (0 < n)%nat ∧
        (∀ i, is_Some (batches s !! (b, i)) ↔ (i < N.of_nat n)%N) ∧
        (∃ o, batches s !! (b, N.of_nat (n - 1)) = Some (c_batch x, o)) ∧
        (∃ v, batches s !! (b, 0%N) = Some v ∧ out_is_empty v.2 = true);
  inv_fee : coins_valid (regfee s) = true;
}.
