(* SHA-256 (FIPS 180-4) in pure Gallina; needed only for the SDK module-address
   derivation of the bridge escrow account (C17). *)
From Coq Require Import List Arith NArith.
Require Import Model.Bytes.
Import ListNotations.
Local Open Scope N_scope.

Definition mask32 : N := 4294967295.
Definition add32 (a b : N) : N := N.land (a + b) mask32.
Definition rotr32 (x n : N) : N := N.lor (N.shiftr x n) (N.land (N.shiftl x (32 - n)) mask32).
Definition not32 (x : N) : N := N.lxor x mask32.

Definition sha256_K : list N := [1116352408; 1899447441; 3049323471; 3921009573; 961987163; 1508970993; 2453635748; 2870763221; 3624381080; 310598401; 607225278; 1426881987; 1925078388; 2162078206; 2614888103; 3248222580; 3835390401; 4022224774; 264347078; 604807628; 770255983; 1249150122; 1555081692; 1996064986; 2554220882; 2821834349; 2952996808; 3210313671; 3336571891; 3584528711; 113926993; 338241895; 666307205; 773529912; 1294757372; 1396182291; 1695183700; 1986661051; 2177026350; 2456956037; 2730485921; 2820302411; 3259730800; 3345764771; 3516065817; 3600352804; 4094571909; 275423344; 430227734; 506948616; 659060556; 883997877; 958139571; 1322822218; 1537002063; 1747873779; 1955562222; 2024104815; 2227730452; 2361852424; 2428436474; 2756734187; 3204031479; 3329325298].
Definition sha256_H0 : list N := [1779033703; 3144134277; 1013904242; 2773480762; 1359893119; 2600822924; 528734635; 1541459225].

Definition ssig0 x := N.lxor (rotr32 x 7) (N.lxor (rotr32 x 18) (N.shiftr x 3)).
Definition ssig1 x := N.lxor (rotr32 x 17) (N.lxor (rotr32 x 19) (N.shiftr x 10)).
Definition bsig0 x := N.lxor (rotr32 x 2) (N.lxor (rotr32 x 13) (rotr32 x 22)).
Definition bsig1 x := N.lxor (rotr32 x 6) (N.lxor (rotr32 x 11) (rotr32 x 25)).
Definition ch x y z := N.lxor (N.land x y) (N.land (not32 x) z).
Definition maj x y z := N.lxor (N.land x y) (N.lxor (N.land x z) (N.land y z)).

(* message schedule: w is kept reversed (most recent first) *)
Fixpoint schedule (n : nat) (wrev : list N) : list N :=
  match n with
  | O => wrev
  | S k => let w2 := nth 1 wrev 0 in let w7 := nth 6 wrev 0 in
           let w15 := nth 14 wrev 0 in let w16 := nth 15 wrev 0 in
           schedule k (add32 (add32 (ssig1 w2) w7) (add32 (ssig0 w15) w16) :: wrev)
  end.

Definition sha_round (st : list N) (kw : N * N) : list N :=
  match st with
  | [a; b; c; d; e; f; g; h] =>
      let t1 := add32 (add32 (add32 h (bsig1 e)) (add32 (ch e f g) (fst kw))) (snd kw) in
      let t2 := add32 (bsig0 a) (maj a b c) in
      [add32 t1 t2; a; b; c; add32 d t1; e; f; g]
  | _ => st
  end.

Definition sha_block (hs : list N) (blk : bytes) : list N :=
  let w0 := map (fun i : nat => be_to_N (firstn 4 (skipn (4 * i)%nat blk))) (seq 0 16) in
  let w := rev (schedule 48 (rev w0)) in
  let st := fold_left sha_round (combine sha256_K w) hs in
  map (fun p : N * N => add32 (fst p) (snd p)) (combine hs st).

Definition sha256_pad (m : bytes) : bytes :=
  let l := length m in
  let k := ((119 - (l mod 64)) mod 64)%nat in     (* zero bytes so that l + 1 + k + 8 = 0 mod 64 *)
  m ++ [128] ++ repeat 0 k ++ be_bytes 8 (8 * N.of_nat l).

Definition sha256 (m : bytes) : bytes :=
  let p := sha256_pad m in
  let hs := fold_left sha_block (chunks (S (length p)) 64 p) sha256_H0 in
  concat (map (be_bytes 4) hs).
