(* Replaying recorded lane-matcher and redundancy-decorator cases (harness/gen_c20.go, stream
   parts "lanes" and "red") on the model. *)
From Coq Require Import List NArith Bool String.
Require Import Model.Bytes Model.Obs Model.Lanes.
Import ListNotations.
Local Open Scope N_scope.

Inductive lanecase :=
| LSystem (msgs : list shape)
| LFree (wl : option (list bytes)) (payer : bytes) (granter : option bytes)
| LRedundant (n : N) (msgs : list shape).

Definition ante_ov (r : ante_result) : ov :=
  match r with Pass => OS "PASS" | RejectRedundant => OS "REDUNDANT" | RejectError => OS "ERR" end.

(* the six (context mode, simulate flag) combinations, in the order the harness runs them *)
Definition red_modes : list (mode * bool) :=
  [(MCheck, false); (MReCheck, false); (MDeliver, false); (MCheck, true); (MReCheck, true); (MDeliver, true)].

Definition run_lanecase (c : lanecase) : list ov :=
  match c with
  | LSystem msgs => [obool (system_match msgs)]
  | LFree wl payer granter => [obool (free_match wl payer granter)]
  | LRedundant n msgs => map (fun ms : mode * bool => ante_ov (redundant_ante (fst ms) (snd ms) n msgs)) red_modes
  end.
