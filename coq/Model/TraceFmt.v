(* Format cases: one input of one of the documented commitment / identifier formats, evaluated
   with the real hash functions (pure-Gallina SHA3-256 and SHA-256).  The Go harness prints
   what the chain's exported functions returned for the same input (harness/gen_c17.go); the
   case files compare the two.  Definitions only. *)
From Coq Require Import List NArith String.
Require Import Model.Bytes Model.Obs Model.Hashes Model.Sha3 Model.Sha256.
Import ListNotations.

Inductive fmt_in :=
| FLeaf (bridge seq : N) (sender receiver denom : bytes) (amount : N)  (* GenerateWithdrawalHash *)
| FNode (a b : bytes)                                                  (* GenerateNodeHash *)
| FRoot (leaf : bytes) (proofs : list bytes)                           (* GenerateRootHashFromProofs *)
| FOut (version : N) (sroot bhash : bytes)                             (* GenerateOutputRoot *)
| FDenom (bridge : N) (l1denom : bytes)                                (* L2Denom *)
| FAddr (bridge : N)                                                   (* BridgeAddress *)
| FSha3 (m : bytes)                                                    (* pinned hash vectors *)
| FSha256 (m : bytes).

Definition run_fmt (i : fmt_in) : list ov :=
  match i with
  | FLeaf b s f t d a => [OB (leaf_hash sha3_256 b s f t d a)]
  | FNode a b => [OB (node sha3_256 a b)]
  | FRoot l ps => [OB (root_from_proof sha3_256 l ps)]
  | FOut v sr bh => [OB (output_root sha3_256 v sr bh)]
  | FDenom b d => [OB (l2_denom sha3_256 b d)]
  | FAddr b => [OB (bridge_address sha256 b)]
  | FSha3 m => [OB (sha3_256 m)]
  | FSha256 m => [OB (sha256 m)]
  end.
