(* Genesis export / validation / import of the opchild (L2) module:
   x/opchild/keeper/genesis.go (ExportGenesis, InitGenesis), x/opchild/types/genesis.go
   (ValidateGenesis).  A genesis value mirrors types.GenesisState: params, last validator
   powers, validators, the exported flag, both sequences, the optional bridge info and the
   denom pairs.  The cached L1 validator snapshot and the per-height history are not part of
   genesis (and not part of the model state).  Definitions only. *)
From stdpp Require Import gmap numbers list sorting.
From Coq Require Import ZArith.
Require Import Model.Bytes Model.Bank Model.Valset Model.L2 Model.Genesis1.

Record genesis2 := {
  h_params : params;
  h_last : list (N * Z);           (* last_validator_powers: (operator, power) *)
  h_vals : list (N * val);         (* validators: (operator, {consensus key, power}) *)
  h_exported : bool;
  h_next_l1 : N;
  h_next_l2 : N;
  h_info : option binfo;
  h_pairs : list (bytes * bytes);  (* denom_pairs: (denom, base denom) *)
}.

(* ExportGenesis: every collection walked in key order; exported = true *)
Definition export2 (s : l2state) : genesis2 :=
  {| h_params := prm s;
     h_last := sorted_ops (last (vs s));
     h_vals := sorted_ops (vals (vs s));
     h_exported := true;
     h_next_l1 := next_l1 s; h_next_l2 := next_l2 s;
     h_info := info s;
     h_pairs := merge_sort lex_le (map_to_list (pairs s)) |}.

(* ValidateGenesis: no two validators with the same operator address (repair D13) or the same
   consensus key, at most MaxValidators
   validators (repair D6), next L2 sequence >= 1, bridge info valid when present, valid denoms,
   valid params *)
Definition validate2 (c : cfg) (g : genesis2) : bool :=
  bool_decide (NoDup (h_vals g).*1) &&
  bool_decide (NoDup (v_key ∘ snd <$> h_vals g)) &&
  (N.of_nat (length (h_vals g)) <=? p_maxv (h_params g))%N &&
  (1 <=? h_next_l2 g)%N &&
  match h_info g with Some bi => binfo_valid bi | None => true end &&
  forallb (λ p, valid_denom p.1) (h_pairs g) &&
  params_valid c (h_params g).

(* InitGenesis.  SetParams validates (and compares MaxValidators with the stored validators:
   none yet); every validator is stored and indexed by its consensus key; when [exported] the
   last powers are stored and replayed as the initial validator updates (a power whose
   validator is missing panics), otherwise the end-blocker update computation runs; the two
   sequences are stored as numbers (a stored 0 reads back as 1); bridge info is validated
   and stored; denom pairs are stored. *)
Definition import_val (v : vstate) (ov : N * val) : vstate :=
  {| vals := <[ov.1 := ov.2]> (vals v); idx := <[v_key ov.2 := ov.1]> (idx v); last := last v |}.

Definition import_last (acc : option (vstate * list update)) (lp : N * Z) : option (vstate * list update) :=
  '(v, ups) ← acc;
  x ← vals v !! lp.1;
  Some ({| vals := vals v; idx := idx v; last := <[lp.1 := lp.2]> (last v) |}, ups ++ [(v_key x, lp.2)]).

Definition fresh2 (base : l2state) (p : params) : l2state :=
  {| bk := bk base; next_l1 := 1; next_l2 := 1; pairs := ∅; prm := p; info := None; vs := vempty;
     seqs := seqs base; wlog := wlog base; dlog := dlog base |}.

Definition seq_read (n : N) : N := if (n =? 0)%N then 1%N else n.

Definition import2 (c : cfg) (base : l2state) (g : genesis2) : option (l2state * list update) :=
  s0 ← set_params c (fresh2 base (h_params g)) (h_params g);
  let v1 := foldl import_val vempty (h_vals g) in
  '(v2, ups) ← (if h_exported g then foldl import_last (Some (v1, [])) (h_last g)
               else end_block_updates v1);
  if negb (match h_info g with Some bi => binfo_valid bi | None => true end) then None else
  Some ({| bk := bk s0; next_l1 := seq_read (h_next_l1 g); next_l2 := seq_read (h_next_l2 g);
           pairs := foldl (λ m p, <[p.1 := p.2]> m) ∅ (h_pairs g);
           prm := prm s0; info := h_info g; vs := v2; seqs := seqs s0; wlog := wlog s0; dlog := dlog s0 |},
        ups).

(* ---- the invariant of block-boundary states used by the round trip ---- *)
Record l2_inv (c : cfg) (s : l2state) : Prop := {
  i2_params : params_valid c (prm s) = true;
  i2_maxv : (N.of_nat (size (vals (vs s))) ≤ p_maxv (prm s))%N;
  (* the consensus-key index is exactly the inverse of the validators' keys *)
  i2_idx : ∀ op v, vals (vs s) !! op = Some v → idx (vs s) !! v_key v = Some op;
  i2_idx_inv : ∀ k op, idx (vs s) !! k = Some op → ∃ v, vals (vs s) !! op = Some v ∧ v_key v = k;
  i2_last : ∀ op p, last (vs s) !! op = Some p → is_Some (vals (vs s) !! op);
  i2_seq1 : (1 ≤ next_l1 s)%N;
  i2_seq2 : (1 ≤ next_l2 s)%N;
  i2_info : ∀ bi, info s = Some bi → binfo_valid bi = true;
  i2_pairs : ∀ d v, pairs s !! d = Some v → valid_denom d = true;
}.

(* ---- reachable states of the L2: any interleaving of messages and block ends ---- *)
(* A block end is the EndBlocker with or without an executor-change plan registered for that
   height.  A failing EndBlocker halts the chain (no successor state).  A plan must name an
   operator address and a consensus key that are not in use (the freshness premise of C14;
   plans violating it are the open findings D8 / D9; a plan arriving at the validator cap makes
   the EndBlocker fail - D10 - and therefore has no successor state here). *)
Inductive l2_reach (c : cfg) (s0 : l2state) : l2state → Prop :=
| reach_init : l2_reach c s0 s0
| reach_msg s m : l2_reach c s0 s → l2_reach c s0 (step c s m).1
| reach_end s pl s' ups :
    l2_reach c s0 s →
    (∀ p, pl = Some p → vals (vs s) !! pl_op p = None ∧ idx (vs s) !! pl_key p = None) →
    end_block c s pl = Some (s', ups) → l2_reach c s0 s'.
