(* The ophost (L1) message server as an executable state machine:
   x/ophost/keeper/msg_server.go, output.go, bridge.go, withdrawal.go, token_pair.go,
   batch_info.go, types/tx.go, types/bridge_config.go, types/hook/bridge_hook.go.
   [step] returns the unchanged state on error (baseapp discards the writes of a failing or
   panicking message).  The hash function is a field of the configuration, so every theorem
   quantifies over it.  Definitions only. *)
From stdpp Require Import gmap numbers list.
From Coq Require Import ZArith.
Require Import Model.Bytes Model.Bank Model.Hashes.

Record cfg := {
  resolve : bytes → option N;    (* account address codec *)
  gov : bytes;                   (* the authority string the keeper was built with *)
  escrow : N → N;                (* bridge id -> account id of BridgeAddress(id) *)
  pool : N;                      (* community pool (distribution module) account *)
  hash : bytes → bytes;          (* SHA3-256 *)
  parse : bytes → option (list (bytes * bytes));  (* hasPermChannels: key probe + strict decode *)
}.

Record env := { now : Z; height : N }.   (* block time in ns since the epoch, block height *)

Record batch := { b_submitter : bytes; b_chain : N }.
Global Instance batch_eq_dec : EqDecision batch.
Proof. solve_decision. Defined.

Record config := {
  c_proposer : bytes; c_challenger : bytes; c_period : Z; c_interval : Z; c_start : N;
  c_batch : batch; c_oracle : bool; c_meta : bytes;
}.

Record output := { o_root : bytes; o_l1h : N; o_time : Z; o_l2 : N }.
Definition empty_output : output := {| o_root := []; o_l1h := 0; o_time := 0; o_l2 := 0 |}.

(* ghost logs: the emitted initiate_token_deposit events (the L1 -> L2 transport) and the
   payouts made by finalized withdrawals *)
Record devent := { e_bridge : N; e_seq : N; e_from : bytes; e_to : bytes; e_l1denom : bytes;
                   e_l2denom : bytes; e_amt : Z; e_data : bytes }.
Record payout := { y_bridge : N; y_leaf : bytes; y_to : N; y_denom : bytes; y_amt : Z }.

Record l1state := {
  bk : bank;
  next_bridge : N;
  configs : gmap N config;
  next_seq : gmap N N;                 (* NextL1Sequences, absent = 1 *)
  next_out : gmap N N;                 (* NextOutputIndexes, absent = 1 *)
  outputs : gmap (N * N) output;
  proven : gset (N * bytes);
  pairs : gmap (N * bytes) bytes;      (* (bridge, l2 denom) -> l1 denom *)
  batches : gmap (N * N) (batch * output);
  regfee : list (bytes * Z);
  chans : gmap (bytes * bytes) N;      (* IBC channel keeper: next send sequence *)
  admins : gmap (bytes * bytes) N;     (* IBC perm keeper: channel -> admin account *)
  elog : list devent;
  plog : list payout;
}.

Inductive msg :=
| MCreateBridge (creator : bytes) (c : config)
| MPropose (proposer : bytes) (b idx l2 : N) (root : bytes)
| MDelete (challenger : bytes) (b idx : N)
| MDeposit (sender : bytes) (b : N) (to : bytes) (d : bytes) (amt : Z) (data : bytes)
| MFinalize (sender : bytes) (b idx seq : N) (proofs : list bytes) (from to d : bytes) (amt : Z)
            (version sroot bhash : bytes)
| MUpdateProposer (auth : bytes) (b : N) (p : bytes)
| MUpdateChallenger (auth : bytes) (b : N) (p : bytes)
| MUpdateBatchInfo (auth : bytes) (b : N) (bi : batch)
| MUpdateOracle (auth : bytes) (b : N) (flag : bool)
| MUpdateMetadata (auth : bytes) (b : N) (md : bytes)
| MUpdateParams (auth : bytes) (fee : list (bytes * Z))
| MRecordBatch (submitter : bytes) (b : N) (data : bytes)
| MBankSend (from to : N) (d : bytes) (amt : Z)
| MChanSet (pc : bytes * bytes) (n : option N)       (* environment: IBC channel state *)
| MAdminSet (pc : bytes * bytes) (a : option N).     (* environment: another module's grant *)

Inductive resp := RNone | RId (n : N) | RFinal (idx l2 : N).
Inductive result := Ok (r : resp) | Err.

(* ---- record updates ---- *)
Definition upd_bk (s : l1state) (x : bank) : l1state :=
  {| bk := x; next_bridge := next_bridge s; configs := configs s; next_seq := next_seq s;
     next_out := next_out s; outputs := outputs s; proven := proven s; pairs := pairs s;
     batches := batches s; regfee := regfee s; chans := chans s; admins := admins s;
     elog := elog s; plog := plog s |}.
Definition upd_configs (s : l1state) (x : gmap N config) : l1state :=
  {| bk := bk s; next_bridge := next_bridge s; configs := x; next_seq := next_seq s;
     next_out := next_out s; outputs := outputs s; proven := proven s; pairs := pairs s;
     batches := batches s; regfee := regfee s; chans := chans s; admins := admins s;
     elog := elog s; plog := plog s |}.
Definition upd_admins (s : l1state) (x : gmap (bytes * bytes) N) : l1state :=
  {| bk := bk s; next_bridge := next_bridge s; configs := configs s; next_seq := next_seq s;
     next_out := next_out s; outputs := outputs s; proven := proven s; pairs := pairs s;
     batches := batches s; regfee := regfee s; chans := chans s; admins := x;
     elog := elog s; plog := plog s |}.
Definition upd_chans (s : l1state) (x : gmap (bytes * bytes) N) : l1state :=
  {| bk := bk s; next_bridge := next_bridge s; configs := configs s; next_seq := next_seq s;
     next_out := next_out s; outputs := outputs s; proven := proven s; pairs := pairs s;
     batches := batches s; regfee := regfee s; chans := x; admins := admins s;
     elog := elog s; plog := plog s |}.
Definition upd_batches (s : l1state) (x : gmap (N * N) (batch * output)) : l1state :=
  {| bk := bk s; next_bridge := next_bridge s; configs := configs s; next_seq := next_seq s;
     next_out := next_out s; outputs := outputs s; proven := proven s; pairs := pairs s;
     batches := x; regfee := regfee s; chans := chans s; admins := admins s;
     elog := elog s; plog := plog s |}.
Definition upd_regfee (s : l1state) (x : list (bytes * Z)) : l1state :=
  {| bk := bk s; next_bridge := next_bridge s; configs := configs s; next_seq := next_seq s;
     next_out := next_out s; outputs := outputs s; proven := proven s; pairs := pairs s;
     batches := batches s; regfee := x; chans := chans s; admins := admins s;
     elog := elog s; plog := plog s |}.
Definition upd_outputs (s : l1state) (o : gmap (N * N) output) (n : gmap N N) : l1state :=
  {| bk := bk s; next_bridge := next_bridge s; configs := configs s; next_seq := next_seq s;
     next_out := n; outputs := o; proven := proven s; pairs := pairs s;
     batches := batches s; regfee := regfee s; chans := chans s; admins := admins s;
     elog := elog s; plog := plog s |}.

Definition seq_of (s : l1state) (b : N) : N := default 1%N (next_seq s !! b).
Definition out_of (s : l1state) (b : N) : N := default 1%N (next_out s !! b).

(* ---- validation ---- *)
Definition valid_addr (c : cfg) (a : bytes) : bool := bool_decide (is_Some (resolve c a)).
Definition max_metadata : N := 5120.

(* BridgeConfig.Validate *)
Definition config_valid (c : cfg) (x : config) : bool :=
  valid_addr c (c_challenger x) && valid_addr c (c_proposer x) &&
  negb (b_chain (c_batch x) =? 0)%N && negb (bool_decide (b_submitter (c_batch x) = [])) &&
  (0 <? c_period x)%Z && negb (c_interval x =? 0)%Z && negb (c_start x =? 0)%N.

(* sdk.Coins.Validate for the registration fee: valid denoms, positive, no duplicates (sorted) *)
Definition coins_valid (l : list (bytes * Z)) : bool :=
  forallb (λ p, valid_denom p.1 && (0 <? p.2)%Z) l && bool_decide (NoDup (map fst l)).

(* ---- finality ---- *)
Definition second : Z := 1000000000.
(* isFinalizedWithConfig: BlockTime().Unix() >= L1BlockTime.Add(FinalizationPeriod).Unix() *)
Definition is_final (x : config) (e : env) (o : output) : bool :=
  ((o_time o + c_period x) / second <=? now e / second)%Z.

(* GetLastFinalizedOutput: the highest final index of the bridge, (0, empty) if none *)
Definition last_final (s : l1state) (e : env) (b : N) (x : config) : N * output :=
  map_fold (λ k o acc, if bool_decide (k.1 = b) && is_final x e o && (acc.1 <? k.2)%N
                       then (k.2, o) else acc) (0%N, empty_output) (outputs s).

(* ---- the permissioned-channel hook ---- *)
Definition register_admin (s : l1state) (pc : bytes * bytes) (a : N) : option l1state :=
  n ← chans s !! pc;
  if negb (n =? 1)%N then None else
  if bool_decide (is_Some (admins s !! pc)) then None else
  Some (upd_admins s (<[pc := a]> (admins s))).

Definition hook_created (c : cfg) (s : l1state) (x : config) : option l1state :=
  match parse c (c_meta x) with
  | None => Some s
  | Some chs => a ← resolve c (c_challenger x);
                foldl (λ os pc, s' ← os; register_admin s' pc a) (Some s) chs
  end.
Definition hook_challenger (c : cfg) (s : l1state) (x : config) : option l1state :=
  match parse c (c_meta x) with
  | None => Some s
  | Some chs => a ← resolve c (c_challenger x);
                Some (foldl (λ s' pc, upd_admins s' (<[pc := a]> (admins s'))) s chs)
  end.
Definition hook_metadata (c : cfg) (s : l1state) (x : config) : option l1state :=
  match parse c (c_meta x) with
  | None => Some s
  | Some chs => a ← resolve c (c_challenger x);
                foldl (λ os pc, s' ← os;
                         if bool_decide (admins s' !! pc = Some a) then Some s'
                         else register_admin s' pc a) (Some s) chs
  end.

(* ---- batch info history ---- *)
Definition next_batch_idx (s : l1state) (b : N) : N :=
  map_fold (λ k _ acc, if bool_decide (k.1 = b) && (acc <=? k.2)%N then (k.2 + 1)%N else acc) 0%N (batches s).
Definition push_batch (s : l1state) (b : N) (bi : batch) (o : output) : l1state :=
  upd_batches s (<[(b, next_batch_idx s b) := (bi, o)]> (batches s)).

(* ---- handlers ---- *)
Definition create_bridge (c : cfg) (e : env) (s : l1state) (creator : bytes) (x : config)
  : option (l1state * resp) :=
  cr ← resolve c creator;
  if negb (config_valid c x) then None else
  if (max_metadata <? N.of_nat (length (c_meta x)))%N then None else
  b1 ← foldl (λ ob cn, b ← ob; bank_send b cr (pool c) cn.1 cn.2) (Some (bk s)) (regfee s);
  let id := next_bridge s in
  let s1 := {| bk := b1; next_bridge := (id + 1)%N; configs := <[id := x]> (configs s);
               next_seq := next_seq s; next_out := next_out s; outputs := outputs s;
               proven := proven s; pairs := pairs s; batches := batches s; regfee := regfee s;
               chans := chans s; admins := admins s; elog := elog s; plog := plog s |} in
  let s2 := push_batch s1 id (c_batch x) empty_output in
  s3 ← hook_created c s2 x;
  Some (s3, RId id).

Definition propose (c : cfg) (e : env) (s : l1state) (proposer : bytes) (b idx l2 : N) (root : bytes)
  : option (l1state * resp) :=
  if negb (valid_addr c proposer) then None else
  if (b =? 0)%N then None else
  if negb (length root =? 32)%nat then None else
  x ← configs s !! b;
  if negb (bool_decide (proposer = c_proposer x)) then None else
  let n := out_of s b in
  if negb (idx =? n)%N then None else
  if negb (if (n =? 1)%N then true
           else match outputs s !! (b, (n - 1)%N) with
                | Some o => (o_l2 o <? l2)%N
                | None => false
                end) then None else
  Some (upd_outputs s (<[(b, n) := {| o_root := root; o_l1h := height e; o_time := now e; o_l2 := l2 |}]> (outputs s))
                      (<[b := (n + 1)%N]> (next_out s)), RNone).

Definition in_range (b lo hi : N) (k : N * N) : Prop := k.1 = b ∧ (lo ≤ k.2)%N ∧ (k.2 < hi)%N.
Global Instance in_range_dec b lo hi k : Decision (in_range b lo hi k).
Proof. unfold in_range; apply _. Defined.

Definition delete_output (c : cfg) (e : env) (s : l1state) (ch : bytes) (b idx : N)
  : option (l1state * resp) :=
  if negb (valid_addr c ch) then None else
  if (b =? 0)%N then None else
  if (idx =? 0)%N then None else
  x ← configs s !! b;
  if negb (bool_decide (gov c = ch) || bool_decide (c_proposer x = ch) || bool_decide (c_challenger x = ch)) then None else
  let n := out_of s b in
  if negb (idx <? n)%N then None else
  let rng := filter (λ kv, in_range b idx n kv.1) (outputs s) in
  (* every index in [idx, n) must be stored and not final *)
  if negb (N.of_nat (size rng) =? n - idx)%N then None else
  if negb (bool_decide (map_Forall (λ _ o, is_final x e o = false) rng)) then None else
  Some (upd_outputs s (filter (λ kv, ¬ in_range b idx n kv.1) (outputs s)) (<[b := idx]> (next_out s)), RNone).

Definition two64 : Z := 18446744073709551616.

Definition deposit (c : cfg) (e : env) (s : l1state) (sender : bytes) (b : N) (to d : bytes) (amt : Z) (data : bytes)
  : option (l1state * resp) :=
  sd ← resolve c sender;
  if bool_decide (to = []) then None else
  if negb (coin_valid d amt && (amt <? two64)%Z) then None else
  if (b =? 0)%N then None else
  _ ← configs s !! b;
  let sq := seq_of s b in
  b1 ← (if (0 <? amt)%Z then bank_send (bk s) sd (escrow c b) d amt else Some (bk s));
  let l2d := l2_denom (hash c) b d in
  let prs := match pairs s !! (b, l2d) with Some _ => pairs s | None => <[(b, l2d) := d]> (pairs s) end in
  Some ({| bk := b1; next_bridge := next_bridge s; configs := configs s;
           next_seq := <[b := (sq + 1)%N]> (next_seq s); next_out := next_out s; outputs := outputs s;
           proven := proven s; pairs := prs; batches := batches s; regfee := regfee s;
           chans := chans s; admins := admins s;
           elog := {| e_bridge := b; e_seq := sq; e_from := sender; e_to := to; e_l1denom := d;
                      e_l2denom := l2d; e_amt := amt; e_data := data |} :: elog s;
           plog := plog s |}, RId sq).

Definition finalize_valid (c : cfg) (sender : bytes) (b idx sq : N) (proofs : list bytes) (from to d : bytes)
           (amt : Z) (version sroot bhash : bytes) : bool :=
  valid_addr c sender && negb (bool_decide (from = [])) && valid_addr c to &&
  coin_valid d amt && negb (amt =? 0)%Z && negb (sq =? 0)%N && negb (b =? 0)%N && negb (idx =? 0)%N &&
  forallb (λ p, length p =? 32)%nat proofs &&
  (length version =? 1)%nat && (length sroot =? 32)%nat && (length bhash =? 32)%nat.

Definition finalize (c : cfg) (e : env) (s : l1state) (sender : bytes) (b idx sq : N) (proofs : list bytes)
           (from to d : bytes) (amt : Z) (version sroot bhash : bytes) : option (l1state * resp) :=
  if negb (finalize_valid c sender b idx sq proofs from to d amt version sroot bhash) then None else
  rcv ← resolve c to;
  o ← outputs s !! (b, idx);
  x ← configs s !! b;
  if negb (is_final x e o) then None else
  if negb (bool_decide (o_root o = output_root (hash c) (hd 0%N version) sroot bhash)) then None else
  if negb (amt <? two64)%Z then None else        (* amount.Uint64() panics *)
  let leaf := leaf_hash (hash c) b sq from to d (Z.to_N amt) in
  if bool_decide ((b, leaf) ∈ proven s) then None else
  if negb (bool_decide (root_from_proof (hash c) leaf proofs = sroot)) then None else
  b1 ← bank_send (bk s) (escrow c b) rcv d amt;
  Some ({| bk := b1; next_bridge := next_bridge s; configs := configs s; next_seq := next_seq s;
           next_out := next_out s; outputs := outputs s; proven := {[ (b, leaf) ]} ∪ proven s;
           pairs := pairs s; batches := batches s; regfee := regfee s; chans := chans s;
           admins := admins s; elog := elog s;
           plog := {| y_bridge := b; y_leaf := leaf; y_to := rcv; y_denom := d; y_amt := amt |} :: plog s |},
        RNone).

Definition final_resp (s : l1state) (e : env) (b : N) (x : config) : resp :=
  let '(i, o) := last_final s e b x in RFinal i (o_l2 o).

Definition gov_or (c : cfg) (who auth : bytes) : bool := bool_decide (gov c = auth) || bool_decide (who = auth).

Definition update_proposer (c : cfg) (e : env) (s : l1state) (auth : bytes) (b : N) (p : bytes)
  : option (l1state * resp) :=
  if negb (valid_addr c auth) then None else
  if (b =? 0)%N then None else
  if negb (valid_addr c p) then None else
  x ← configs s !! b;
  if negb (gov_or c (c_proposer x) auth) then None else
  let x' := {| c_proposer := p; c_challenger := c_challenger x; c_period := c_period x;
               c_interval := c_interval x; c_start := c_start x; c_batch := c_batch x;
               c_oracle := c_oracle x; c_meta := c_meta x |} in
  if negb (config_valid c x') then None else
  let s' := upd_configs s (<[b := x']> (configs s)) in
  Some (s', final_resp s' e b x').

Definition update_challenger (c : cfg) (e : env) (s : l1state) (auth : bytes) (b : N) (p : bytes)
  : option (l1state * resp) :=
  if negb (valid_addr c auth) then None else
  if (b =? 0)%N then None else
  if negb (valid_addr c p) then None else
  x ← configs s !! b;
  if negb (gov_or c (c_challenger x) auth) then None else
  let x' := {| c_proposer := c_proposer x; c_challenger := p; c_period := c_period x;
               c_interval := c_interval x; c_start := c_start x; c_batch := c_batch x;
               c_oracle := c_oracle x; c_meta := c_meta x |} in
  s1 ← hook_challenger c s x';
  if negb (config_valid c x') then None else
  let s' := upd_configs s1 (<[b := x']> (configs s1)) in
  Some (s', final_resp s' e b x').

Definition update_batch_info (c : cfg) (e : env) (s : l1state) (auth : bytes) (b : N) (bi : batch)
  : option (l1state * resp) :=
  if negb (valid_addr c auth) then None else
  if (b =? 0)%N then None else
  if (b_chain bi =? 0)%N || bool_decide (b_submitter bi = []) then None else
  x ← configs s !! b;
  if negb (gov_or c (c_proposer x) auth) then None else
  let x' := {| c_proposer := c_proposer x; c_challenger := c_challenger x; c_period := c_period x;
               c_interval := c_interval x; c_start := c_start x; c_batch := bi;
               c_oracle := c_oracle x; c_meta := c_meta x |} in
  if negb (config_valid c x') then None else
  let s1 := upd_configs s (<[b := x']> (configs s)) in
  let '(i, o) := last_final s1 e b x' in
  Some (push_batch s1 b bi o, RFinal i (o_l2 o)).

Definition update_oracle (c : cfg) (e : env) (s : l1state) (auth : bytes) (b : N) (flag : bool)
  : option (l1state * resp) :=
  if negb (valid_addr c auth) then None else
  if (b =? 0)%N then None else
  x ← configs s !! b;
  if negb (gov_or c (c_proposer x) auth) then None else
  let x' := {| c_proposer := c_proposer x; c_challenger := c_challenger x; c_period := c_period x;
               c_interval := c_interval x; c_start := c_start x; c_batch := c_batch x;
               c_oracle := flag; c_meta := c_meta x |} in
  if negb (config_valid c x') then None else
  Some (upd_configs s (<[b := x']> (configs s)), RNone).

Definition update_metadata (c : cfg) (e : env) (s : l1state) (auth : bytes) (b : N) (md : bytes)
  : option (l1state * resp) :=
  if negb (valid_addr c auth) then None else
  if (b =? 0)%N then None else
  if (max_metadata <? N.of_nat (length md))%N then None else
  x ← configs s !! b;
  if negb (gov_or c (c_proposer x) auth) then None else
  let x' := {| c_proposer := c_proposer x; c_challenger := c_challenger x; c_period := c_period x;
               c_interval := c_interval x; c_start := c_start x; c_batch := c_batch x;
               c_oracle := c_oracle x; c_meta := md |} in
  s1 ← hook_metadata c s x';
  if negb (config_valid c x') then None else
  let s' := upd_configs s1 (<[b := x']> (configs s1)) in
  Some (s', final_resp s' e b x').

Definition update_params (c : cfg) (s : l1state) (auth : bytes) (fee : list (bytes * Z)) : option (l1state * resp) :=
  if negb (valid_addr c auth) then None else
  if negb (coins_valid fee) then None else
  if negb (bool_decide (gov c = auth)) then None else
  Some (upd_regfee s fee, RNone).

Definition record_batch (c : cfg) (s : l1state) (sub : bytes) (b : N) (data : bytes) : option (l1state * resp) :=
  if negb (valid_addr c sub) then None else
  if (b =? 0)%N then None else
  if bool_decide (data = []) then None else Some (s, RNone).

Definition bank_send_msg (s : l1state) (from to : N) (d : bytes) (amt : Z) : option (l1state * resp) :=
  if negb (valid_denom d && (0 <? amt)%Z) then None else
  b ← bank_send (bk s) from to d amt; Some (upd_bk s b, RNone).

Definition handle (c : cfg) (e : env) (s : l1state) (m : msg) : option (l1state * resp) :=
  match m with
  | MCreateBridge creator x => create_bridge c e s creator x
  | MPropose p b idx l2 root => propose c e s p b idx l2 root
  | MDelete ch b idx => delete_output c e s ch b idx
  | MDeposit sender b to d amt data => deposit c e s sender b to d amt data
  | MFinalize sender b idx sq proofs from to d amt v sr bh =>
      finalize c e s sender b idx sq proofs from to d amt v sr bh
  | MUpdateProposer a b p => update_proposer c e s a b p
  | MUpdateChallenger a b p => update_challenger c e s a b p
  | MUpdateBatchInfo a b bi => update_batch_info c e s a b bi
  | MUpdateOracle a b f => update_oracle c e s a b f
  | MUpdateMetadata a b md => update_metadata c e s a b md
  | MUpdateParams a fee => update_params c s a fee
  | MRecordBatch sub b data => record_batch c s sub b data
  | MBankSend from to d amt => bank_send_msg s from to d amt
  | MChanSet pc n => Some (upd_chans s (match n with Some v => <[pc := v]> (chans s) | None => delete pc (chans s) end), RNone)
  | MAdminSet pc a => Some (upd_admins s (match a with Some v => <[pc := v]> (admins s) | None => delete pc (admins s) end), RNone)
  end.

Definition step (c : cfg) (e : env) (s : l1state) (m : msg) : l1state * result :=
  match handle c e s m with
  | Some (s', r) => (s', Ok r)
  | None => (s, Err)
  end.

Fixpoint run (c : cfg) (s : l1state) (h : list (env * msg)) : l1state * list result :=
  match h with
  | [] => (s, [])
  | (e, m) :: h' => let '(s1, r) := step c e s m in
                    let '(s2, rs) := run c s1 h' in (s2, r :: rs)
  end.

Definition init_state : l1state :=
  {| bk := bank_empty; next_bridge := 1; configs := ∅; next_seq := ∅; next_out := ∅; outputs := ∅;
     proven := ∅; pairs := ∅; batches := ∅; regfee := []; chans := ∅; admins := ∅; elog := []; plog := [] |}.
