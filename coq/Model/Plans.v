(* The executor-change plan table (x/opchild/keeper/executor_change.go
   RegisterExecutorChangePlan; the table is the in-memory map Keeper.ExecutorChangePlans,
   height -> plan) and the end blocker reading it (abci.go).  Definitions only. *)
From stdpp Require Import gmap numbers list.
From Coq Require Import ZArith.
Require Import Model.Bytes Model.Bank Model.Valset Model.L2.

(* what RegisterExecutorChangePlan is called with: the operator string decodes to an operator
   id or not, the consensus-key JSON decodes to a key or not *)
Record plan_req := {
  rq_pid : N; rq_height : N;
  rq_op : option N; rq_key : option N;
  rq_execs : list bytes;
}.

Definition plan_table := gmap N plan.

Definition register (c : cfg) (t : plan_table) (r : plan_req) : option plan_table :=
  if bool_decide (rq_pid r = 0%N) then None else
  if bool_decide (rq_height r = 0%N) then None else
  if bool_decide (is_Some (t !! rq_height r)) then None else
  op ← rq_op r;
  if negb (forallb (λ e, bool_decide (is_Some (resolve c e))) (rq_execs r)) then None else
  key ← rq_key r;
  Some (<[rq_height r := {| pl_op := op; pl_key := key; pl_execs := rq_execs r |}]> t).

(* EndBlocker at height h with the plan table *)
Definition end_block_at (c : cfg) (t : plan_table) (s : l2state) (h : N) : option (l2state * list update) :=
  end_block c s (t !! h).
