(* The commitment and identifier formats of OPinit as executable definitions, parametric in
   the 32-byte hash function [H] (instantiated with [Sha3.sha3_256] for execution).
   These are the "independent implementation of the documented formats" of C17:
   specs/withdrawal_proving.md and specs/l2_output_oracle.md. *)
From Coq Require Import List NArith String.
Require Import Model.Bytes.
Import ListNotations.
Local Open Scope N_scope.

Section Formats.
  Variable H : bytes -> bytes.

  (* x/ophost/types/output.go GenerateWithdrawalHash; amount is the uint64 the caller passes *)
  Definition leaf_seed (bridge seq : N) (sender receiver denom : bytes) (amount : N) : bytes :=
    be64 bridge ++ be64 seq ++ H sender ++ H receiver ++ H denom ++ be64 amount.
  Definition leaf_hash (bridge seq : N) (sender receiver denom : bytes) (amount : N) : bytes :=
    H (H (leaf_seed bridge seq sender receiver denom amount)).

  (* GenerateNodeHash: bytes.Compare a b in {0,1} -> H(b ++ a), -1 -> H(a ++ b) *)
  Definition node (a b : bytes) : bytes :=
    if lexle b a then H (b ++ a) else H (a ++ b).

  (* GenerateRootHashFromProofs *)
  Definition root_from_proof (leaf : bytes) (proofs : list bytes) : bytes :=
    fold_left node proofs leaf.

  (* GenerateOutputRoot (version is one byte; roots are 32 bytes - guarded by Validate) *)
  Definition output_root (version : N) (storage_root block_hash : bytes) : bytes :=
    H (version :: firstn 32 storage_root ++ firstn 32 block_hash).

  (* x/ophost/types/denom.go L2Denom *)
  Definition l2_denom (bridge : N) (l1_denom : bytes) : bytes :=
    bs "l2/"%string ++ hex_encode (H (be64 bridge ++ l1_denom)).
End Formats.

Section Escrow.
  Variable H2 : bytes -> bytes.   (* SHA-256 *)
  (* cosmos-sdk types/address: Module(name, key) = Hash("module", name ++ [0] ++ key),
     Hash(typ, key) = SHA256(SHA256(typ) ++ key)  (32 bytes) *)
  Definition module_address (name key : bytes) : bytes :=
    H2 (H2 (bs "module"%string) ++ name ++ [0] ++ key).
  Definition bridge_address (bridge : N) : bytes := module_address (bs "ophost"%string) (be64 bridge).
End Escrow.
