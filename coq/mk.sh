#!/bin/bash
# usage: mk.sh [targets...]  -- regenerate _CoqProject/Makefile if the file set changed, then make
cd /verif && python3 -c "
import sys; sys.path.insert(0,'checker'); import common; common.ensure_makefile()"
cd /verif/coq && make -j16 "$@" 2>&1 | grep -v '^COQDEP\|^CLEAN' | tail -${MKTAIL:-15}
