#!/bin/bash
# usage: mk.sh [targets...]  -- regenerate _CoqProject/Makefile if the file set changed, then make
W="$(cd "$(dirname "$0")/.." && pwd)"
cd "$W" && python3 -c "
import sys; sys.path.insert(0,'checker'); import common; common.ensure_makefile()"
cd "$W/coq" && timeout ${MKTIMEOUT:-3000} make -j${MKJOBS:-8} "$@" 2>&1 | grep -v '^COQDEP\|^CLEAN' | tail -${MKTAIL:-15}
