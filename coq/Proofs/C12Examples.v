(* Non-vacuity of the C12 theorems: concrete histories (closed by vm_compute) in which the
   hypotheses of the rotation theorems hold - a proposer rotation on L1, a params rotation,
   a bridge-info binding and a batch on L2 - with exactly the verdicts the theorems predict. *)
From stdpp Require Import gmap numbers list.
From Coq Require Import ZArith.
Require Import Model.Bytes Model.Bank Model.Valset Model.L1 Model.L2 Model.C12Spec Model.C19Spec.

(* ---- L1: addresses are one-byte strings [n], governance is [9] (cfg of the C19 witness) ---- *)
Definition x_l1_history : list (L1.env * L1.msg) :=
  [ (w_env, L1.MCreateBridge [5%N] (w_config [4%N] [1%N] []));       (* bridge 1: proposer [4], challenger [1] *)
    (w_env, L1.MPropose [4%N] 1%N 1%N 10%N (repeat 0%N 32));          (* the proposer proposes: Ok *)
    (w_env, L1.MUpdateProposer [9%N] 1%N [2%N]);                      (* governance rotates the proposer to [2]: Ok *)
    (w_env, L1.MPropose [4%N] 1%N 2%N 20%N (repeat 0%N 32));          (* the old proposer: Err *)
    (w_env, L1.MUpdateOracle [4%N] 1%N true);                         (* the old proposer: Err *)
    (w_env, L1.MUpdateOracle [2%N] 1%N true);                         (* the new proposer: Ok *)
    (w_env, L1.MPropose [2%N] 1%N 2%N 20%N (repeat 0%N 32));          (* the new proposer: Ok *)
    (w_env, L1.MUpdateChallenger [1%N] 1%N [3%N]);                    (* the challenger hands on to [3]: Ok *)
    (w_env, L1.MDelete [1%N] 1%N 2%N);                                (* the old challenger: Err *)
    (w_env, L1.MDelete [3%N] 1%N 2%N);                                (* the new challenger: Ok *)
    (w_env, L1.MUpdateParams [2%N] []);                               (* not governance: Err *)
    (w_env, L1.MUpdateParams [9%N] []) ].                             (* governance: Ok *)

Definition verdict_l1 (r : L1.result) : bool := match r with L1.Ok _ => true | L1.Err => false end.

Example c12_l1_rotation_example :
  map verdict_l1 (L1.run w_cfg L1.init_state x_l1_history).2 =
  [true; true; true; false; false; true; true; true; false; true; false; true].
Proof. vm_compute. reflexivity. Qed.

(* ---- L2 ---- *)
Definition x_l2_cfg : L2.cfg :=
  {| L2.resolve := λ a, match a with [n] => if (n <? 10)%N then Some n else None | _ => None end;
     blocked := λ _, false; authority := [8%N]; modacc := 100%N; feecol := 101%N |}.
Definition x_params (admin : bytes) (execs : list bytes) : params :=
  {| p_admin := admin; p_execs := execs; p_maxv := 3; p_hist := 1; p_mingas := []; p_whitelist := [];
     p_hookgas := 1000000 |}.
Definition x_l2_init : l2state :=
  {| L2.bk := bank_empty; next_l1 := 1; next_l2 := 1; L2.pairs := ∅; prm := x_params [3%N] [[1%N]; [2%N]];
     info := None; vs := vempty; seqs := ∅; wlog := []; dlog := [] |}.
Definition x_binfo (id : N) (client : bytes) : binfo :=
  {| bi_id := id; bi_addr := [66%N]; bi_chain := [67%N]; bi_client := client; bi_cfg_ok := true;
     bi_oracle := false; bi_cfg := [] |}.
Definition x_l2_history : list L2.msg :=
  [ MSetBridgeInfo [1%N] (x_binfo 7 []);                                     (* a listed executor binds the bridge: Ok *)
    MSetBridgeInfo [1%N] (x_binfo 7 [68%N]);                                 (* sets the client id: Ok *)
    MSetBridgeInfo [1%N] (x_binfo 8 [68%N]);                                 (* re-pointing the bridge id: Err *)
    MSetBridgeInfo [1%N] (x_binfo 7 [69%N]);                                 (* re-pointing the client id: Err *)
    L2.MUpdateParams [3%N] (x_params [4%N] [[2%N]]);                         (* the admin is not the authority: Err *)
    L2.MUpdateParams [8%N] (x_params [4%N] [[2%N]]);                         (* authority: admin [3]->[4], executor [1] dropped: Ok *)
    MSetBridgeInfo [1%N] (x_binfo 7 [68%N]);                                 (* the dropped executor: Err *)
    MSetBridgeInfo [2%N] (x_binfo 7 [68%N]);                                 (* a listed executor: Ok *)
    MExecute [3%N] [L2.MUpdateParams [8%N] (x_params [4%N] [[2%N]])];        (* the old admin: Err *)
    MExecute [4%N] [L2.MUpdateParams [8%N] (x_params [4%N] [[2%N]])];        (* the new admin: Ok *)
    MExecute [4%N] [L2.MUpdateParams [4%N] (x_params [4%N] [[2%N]])];        (* inner signer is not the authority: Err *)
    MExecute [4%N] [L2.MUpdateParams [8%N] (x_params [5%N] [[2%N]]);
                    MSpendFeePool [8%N] [5%N] [([117;110;97;116]%N, 5%Z)]] ]. (* second inner message fails: all refused *)

Definition verdict_l2 (r : L2.result) : bool := match r with L2.Ok _ => true | L2.Err => false end.

Example c12_l2_rotation_example :
  map verdict_l2 (L2.run x_l2_cfg x_l2_init x_l2_history).2 =
  [true; true; false; false; false; true; false; true; false; true; false; false] ∧
  p_admin (prm (L2.run x_l2_cfg x_l2_init x_l2_history).1) = [4%N] ∧
  (bi_id <$> info (L2.run x_l2_cfg x_l2_init x_l2_history).1) = Some 7%N.
Proof. vm_compute. auto. Qed.
