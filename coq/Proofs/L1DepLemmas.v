(* Inversion and frame lemmas for the L1 machine used by C10 / C02 / C01: exact descriptions of
   what [deposit], [finalize], [create_bridge] and [bank_send_msg] do, and which components every
   other handler leaves alone.  Later proofs use these, not the handler bodies. *)
From stdpp Require Import gmap numbers list.
From Coq Require Import ZArith Lia.
Require Import Model.Bytes Model.Bank Model.Hashes Model.L1.

(* ---------------------------------------------------------------------------------- *)
(* bank                                                                                 *)
(* ---------------------------------------------------------------------------------- *)

(* [amt] if (a, d) is the account/denom (x, dx), else 0 *)
Definition at_acct (a : N) (d : denom) (x : N) (dx : denom) (amt : Z) : Z :=
  if decide (a = x ∧ d = dx) then amt else 0%Z.

Lemma at_acct_eq a d amt : at_acct a d a d amt = amt.
Proof. unfold at_acct. by rewrite decide_True. Qed.
Lemma at_acct_ne a d x dx amt : ¬ (a = x ∧ d = dx) → at_acct a d x dx amt = 0%Z.
Proof. intros. unfold at_acct. by rewrite decide_False. Qed.

Lemma getb_credit b x dx amt a d :
  getb (credit b x dx amt) a d = (getb b a d + at_acct a d x dx amt)%Z.
Proof.
  unfold credit, getb at 1, at_acct. cbn [bal].
  destruct (decide (a = x ∧ d = dx)) as [[-> ->]|Hne].
  - rewrite lookup_insert. cbn. done.
  - rewrite lookup_insert_ne by (intros [= -> ->]; tauto). fold (getb b a d). lia.
Qed.

Lemma debit_Some b x dx amt b' :
  debit b x dx amt = Some b' →
  (amt ≤ getb b x dx)%Z ∧ ∀ a d, getb b' a d = (getb b a d - at_acct a d x dx amt)%Z.
Proof.
  unfold debit. destruct (getb b x dx <? amt)%Z eqn:Hlt; [discriminate|]. intros [= <-].
  apply Z.ltb_ge in Hlt. split; [done|]. intros a d. unfold getb at 1, at_acct. cbn [bal].
  destruct (decide (a = x ∧ d = dx)) as [[-> ->]|Hne].
  - rewrite lookup_insert. cbn. done.
  - rewrite lookup_insert_ne by (intros [= -> ->]; tauto). fold (getb b a d). lia.
Qed.

(* an Ok send moves exactly [amt] of [d] from [from] to [to] and nothing else *)
Lemma bank_send_Some b from to d amt b' :
  bank_send b from to d amt = Some b' →
  (amt ≤ getb b from d)%Z ∧
  ∀ a d', getb b' a d' = (getb b a d' + at_acct a d' to d amt - at_acct a d' from d amt)%Z.
Proof.
  unfold bank_send. destruct (debit b from d amt) as [b1|] eqn:Hd; [|discriminate]. cbn.
  intros [= <-]. apply debit_Some in Hd as [Hle Hb1]. split; [done|]. intros a d'.
  rewrite getb_credit, Hb1. lia.
Qed.

(* the registration-fee loop of CreateBridge: every coin goes from the creator to the pool *)
Definition fee_loop (cr pl : N) (b : bank) (fee : list (bytes * Z)) : option bank :=
  foldl (λ ob cn, b ← ob; bank_send b cr pl cn.1 cn.2) (Some b) fee.

Lemma fee_loop_None cr pl fee :
  foldl (λ ob (cn : bytes * Z), b ← ob; bank_send b cr pl cn.1 cn.2) None fee = None.
Proof. induction fee as [|x fee IH]; [done|]. cbn. exact IH. Qed.

Lemma fee_loop_other cr pl fee : ∀ b b',
  fee_loop cr pl b fee = Some b' → ∀ a d, a ≠ cr → a ≠ pl → getb b' a d = getb b a d.
Proof.
  unfold fee_loop. induction fee as [|[dn am] fee IH]; intros b b'.
  - cbn. by intros [= <-].
  - cbn. destruct (bank_send b cr pl dn am) as [b1|] eqn:Hs.
    + intros Hf a d Ha Hp. rewrite (IH b1 b' Hf a d Ha Hp).
      apply bank_send_Some in Hs as [_ Hs]. rewrite Hs.
      rewrite !at_acct_ne by (intros [? _]; done). lia.
    + by rewrite fee_loop_None.
Qed.

(* ---------------------------------------------------------------------------------- *)
(* the permissioned-channel hooks touch only [admins]                                   *)
(* ---------------------------------------------------------------------------------- *)
Definition eq_but_admins (s s' : l1state) : Prop :=
  bk s' = bk s ∧ next_bridge s' = next_bridge s ∧ configs s' = configs s ∧ next_seq s' = next_seq s ∧
  next_out s' = next_out s ∧ outputs s' = outputs s ∧ proven s' = proven s ∧ pairs s' = pairs s ∧
  batches s' = batches s ∧ regfee s' = regfee s ∧ chans s' = chans s ∧ elog s' = elog s ∧ plog s' = plog s.

Lemma eba_refl s : eq_but_admins s s.
Proof. repeat split. Qed.
Lemma eba_upd s x : eq_but_admins s (upd_admins s x).
Proof. repeat split. Qed.
Lemma eba_trans s1 s2 s3 : eq_but_admins s1 s2 → eq_but_admins s2 s3 → eq_but_admins s1 s3.
Proof.
  unfold eq_but_admins. intros H1 H2. destruct_and!. repeat split; congruence.
Qed.

Lemma register_admin_frame s pc a s' : register_admin s pc a = Some s' → eq_but_admins s s'.
Proof.
  unfold register_admin. destruct (chans s !! pc) as [n|]; [|discriminate]. cbn.
  repeat case_match; try discriminate. intros [= <-]. apply eba_upd.
Qed.

Lemma hook_created_frame c s x s' : hook_created c s x = Some s' → eq_but_admins s s'.
Proof.
  unfold hook_created. destruct (parse c (c_meta x)) as [chs|]; [|intros [= <-]; apply eba_refl].
  destruct (resolve c (c_challenger x)) as [a|]; [|discriminate]. cbn.
  assert (G : ∀ os, foldl (λ os pc, s' ← os; register_admin s' pc a) os chs = Some s' →
              ∃ s1, os = Some s1 ∧ eq_but_admins s1 s').
  { induction chs as [|pc chs IH]; intros os; cbn.
    - intros ->. eexists; split; [done|apply eba_refl].
    - intros H. apply IH in H as (s2 & H & F2). destruct os as [s1|]; [|discriminate]. cbn in H.
      exists s1. split; [done|]. eapply eba_trans; [|exact F2]. by eapply register_admin_frame. }
  intros H. apply G in H as (s1 & [= <-] & F). exact F.
Qed.

Lemma hook_challenger_frame c s x s' : hook_challenger c s x = Some s' → eq_but_admins s s'.
Proof.
  unfold hook_challenger. destruct (parse c (c_meta x)) as [chs|]; [|intros [= <-]; apply eba_refl].
  destruct (resolve c (c_challenger x)) as [a|]; [|discriminate]. cbn. intros [= <-].
  revert s. induction chs as [|pc chs IH]; intros s; cbn; [apply eba_refl|].
  eapply eba_trans; [|apply IH]. apply eba_upd.
Qed.

Lemma hook_metadata_frame c s x s' : hook_metadata c s x = Some s' → eq_but_admins s s'.
Proof.
  unfold hook_metadata. destruct (parse c (c_meta x)) as [chs|]; [|intros [= <-]; apply eba_refl].
  destruct (resolve c (c_challenger x)) as [a|]; [|discriminate]. cbn.
  assert (G : ∀ os, foldl (λ os pc, s' ← os; if bool_decide (admins s' !! pc = Some a) then Some s'
                                             else register_admin s' pc a) os chs = Some s' →
              ∃ s1, os = Some s1 ∧ eq_but_admins s1 s').
  { induction chs as [|pc chs IH]; intros os; cbn.
    - intros ->. eexists; split; [done|apply eba_refl].
    - intros H. apply IH in H as (s2 & H & F2). destruct os as [s1|]; [|discriminate]. cbn in H.
      exists s1. split; [done|]. eapply eba_trans; [|exact F2].
      case_bool_decide; [simplify_eq; apply eba_refl|by eapply register_admin_frame]. }
  intros H. apply G in H as (s1 & [= <-] & F). exact F.
Qed.

(* ---------------------------------------------------------------------------------- *)
(* frames                                                                               *)
(* ---------------------------------------------------------------------------------- *)

(* the components only create / deposit / finalize / bank-send can touch *)
Definition keep_money (s s' : l1state) : Prop :=
  bk s' = bk s ∧ next_bridge s' = next_bridge s ∧ next_seq s' = next_seq s ∧ proven s' = proven s ∧
  pairs s' = pairs s ∧ elog s' = elog s ∧ plog s' = plog s.

(* the bridge-indexed oracle / configuration components, at one bridge id *)
Definition struct_eq_at (b : N) (s s' : l1state) : Prop :=
  configs s' !! b = configs s !! b ∧ next_out s' !! b = next_out s !! b ∧
  (∀ i, outputs s' !! (b, i) = outputs s !! (b, i)) ∧ (∀ i, batches s' !! (b, i) = batches s !! (b, i)).

Definition local_frame (b : N) (s s' : l1state) : Prop :=
  keep_money s s' ∧ ∀ b', struct_eq_at b' s s' ∨ (b' = b ∧ is_Some (configs s !! b)).

Lemma struct_eq_refl b s : struct_eq_at b s s.
Proof. repeat split. Qed.

(* split a handler equation [... = Some (s', r) → _] along its guards *)
Ltac hsplit :=
  repeat first
    [ discriminate
    | match goal with
      | |- context [ mbind _ ?o ] => let E := fresh "E" in destruct o eqn:E; cbn [mbind option_bind]
      | |- context [ if ?b then _ else _ ] => let E := fresh "E" in destruct b eqn:E
      end ].

(* finish a [local_frame b s s'] goal whose state is an explicit update of [s] *)
Ltac lf_done b :=
  split; [repeat split|];
  let b' := fresh "b'" in let Hne := fresh "Hne" in
  intros b'; destruct (decide (b' = b)) as [->|Hne]; [right; split; [done|eauto]|left];
  repeat split; cbn; intros; rewrite ?lookup_insert_ne by (intros ?; simplify_eq); try done.

Lemma propose_frame c e s p b idx l2 root s' r :
  propose c e s p b idx l2 root = Some (s', r) → local_frame b s s'.
Proof. unfold propose. hsplit. intros [= <- <-]. lf_done b. Qed.

Lemma delete_frame c e s ch b idx s' r :
  delete_output c e s ch b idx = Some (s', r) → local_frame b s s'.
Proof.
  unfold delete_output. hsplit. intros [= <- <-]. lf_done b.
  rewrite map_filter_lookup. destruct (outputs s !! (b', i)); [|done]. cbn.
  rewrite option_guard_True; [done|]. unfold in_range; cbn; tauto.
Qed.

Lemma update_proposer_frame c e s a b p s' r :
  update_proposer c e s a b p = Some (s', r) → local_frame b s s'.
Proof. unfold update_proposer. hsplit. intros [= <- <-]. lf_done b. Qed.

Lemma update_oracle_frame c e s a b f s' r :
  update_oracle c e s a b f = Some (s', r) → local_frame b s s'.
Proof. unfold update_oracle. hsplit. intros [= <- <-]. lf_done b. Qed.

Lemma update_batch_info_frame c e s a b bi s' r :
  update_batch_info c e s a b bi = Some (s', r) → local_frame b s s'.
Proof.
  unfold update_batch_info. hsplit. case_match. intros [= <- <-]. lf_done b.
Qed.

Lemma update_challenger_frame c e s a b p s' r :
  update_challenger c e s a b p = Some (s', r) → local_frame b s s'.
Proof.
  unfold update_challenger. hsplit. intros [= <- <-].
  match goal with H : hook_challenger _ _ _ = Some _ |- _ => apply hook_challenger_frame in H as F end.
  unfold eq_but_admins in F. destruct_and!.
  split; [repeat split; cbn; congruence|].
  intros b'; destruct (decide (b' = b)) as [->|Hne]; [right; split; [done|eauto]|left].
  repeat split; cbn; intros; rewrite ?lookup_insert_ne by (intros ?; simplify_eq); congruence.
Qed.

Lemma update_metadata_frame c e s a b md s' r :
  update_metadata c e s a b md = Some (s', r) → local_frame b s s'.
Proof.
  unfold update_metadata. hsplit. intros [= <- <-].
  match goal with H : hook_metadata _ _ _ = Some _ |- _ => apply hook_metadata_frame in H as F end.
  unfold eq_but_admins in F. destruct_and!.
  split; [repeat split; cbn; congruence|].
  intros b'; destruct (decide (b' = b)) as [->|Hne]; [right; split; [done|eauto]|left].
  repeat split; cbn; intros; rewrite ?lookup_insert_ne by (intros ?; simplify_eq); congruence.
Qed.

(* messages that are none of create / deposit / finalize / bank-send *)
Definition plain_msg (m : msg) : bool :=
  match m with
  | MCreateBridge _ _ | MDeposit _ _ _ _ _ _ | MFinalize _ _ _ _ _ _ _ _ _ _ _ _ | MBankSend _ _ _ _ => false
  | _ => true
  end.

(* the bridge id a message names (creation names the id it is about to assign: see [addressed]) *)
Definition msg_bridge (m : msg) : option N :=
  match m with
  | MPropose _ b _ _ _ | MDelete _ b _ | MDeposit _ b _ _ _ _ | MFinalize _ b _ _ _ _ _ _ _ _ _ _
  | MUpdateProposer _ b _ | MUpdateChallenger _ b _ | MUpdateBatchInfo _ b _ | MUpdateOracle _ b _
  | MUpdateMetadata _ b _ | MRecordBatch _ b _ => Some b
  | _ => None
  end.

Lemma handle_plain c e s m s' r :
  plain_msg m = true → handle c e s m = Some (s', r) →
  keep_money s s' ∧ ∀ b', struct_eq_at b' s s' ∨ (msg_bridge m = Some b' ∧ is_Some (configs s !! b')).
Proof.
  intros Hp. destruct m; try discriminate Hp; cbn [handle msg_bridge]; intros H.
  - apply propose_frame in H as [? H]. split; [done|]. intros b'. destruct (H b') as [|[-> ?]]; auto.
  - apply delete_frame in H as [? H]. split; [done|]. intros b'. destruct (H b') as [|[-> ?]]; auto.
  - apply update_proposer_frame in H as [? H]. split; [done|]. intros b'. destruct (H b') as [|[-> ?]]; auto.
  - apply update_challenger_frame in H as [? H]. split; [done|]. intros b'. destruct (H b') as [|[-> ?]]; auto.
  - apply update_batch_info_frame in H as [? H]. split; [done|]. intros b'. destruct (H b') as [|[-> ?]]; auto.
  - apply update_oracle_frame in H as [? H]. split; [done|]. intros b'. destruct (H b') as [|[-> ?]]; auto.
  - apply update_metadata_frame in H as [? H]. split; [done|]. intros b'. destruct (H b') as [|[-> ?]]; auto.
  - revert H. unfold update_params. hsplit. intros [= <- <-]. split; [repeat split|]. intros b'. left. repeat split.
  - revert H. unfold record_batch. hsplit. intros [= <- <-]. split; [repeat split|]. intros b'. left. apply struct_eq_refl.
  - injection H as <- <-. split; [repeat split|]. intros b'. left. repeat split.
  - injection H as <- <-. split; [repeat split|]. intros b'. left. repeat split.
Qed.

(* ---------------------------------------------------------------------------------- *)
(* exact descriptions of the four handlers that move funds                               *)
(* ---------------------------------------------------------------------------------- *)

(* the event an accepted deposit emits, and the token-pair table it leaves *)
Definition dep_event (c : cfg) (s : l1state) (sender : bytes) (b : N) (to d : bytes) (amt : Z) (data : bytes) : devent :=
  {| e_bridge := b; e_seq := seq_of s b; e_from := sender; e_to := to; e_l1denom := d;
     e_l2denom := l2_denom (hash c) b d; e_amt := amt; e_data := data |}.
Definition dep_pairs (c : cfg) (s : l1state) (b : N) (d : bytes) : gmap (N * bytes) bytes :=
  match pairs s !! (b, l2_denom (hash c) b d) with
  | Some _ => pairs s
  | None => <[(b, l2_denom (hash c) b d) := d]> (pairs s)
  end.

Lemma deposit_Some c e s sender b to d amt data s' r :
  deposit c e s sender b to d amt data = Some (s', r) →
  ∃ sd, resolve c sender = Some sd ∧ to ≠ [] ∧ valid_denom d = true ∧ (0 ≤ amt < two64)%Z ∧ b ≠ 0%N ∧
    is_Some (configs s !! b) ∧ r = RId (seq_of s b) ∧
    (if (0 <? amt)%Z then bank_send (bk s) sd (escrow c b) d amt else Some (bk s)) = Some (bk s') ∧
    next_bridge s' = next_bridge s ∧ configs s' = configs s ∧
    next_seq s' = <[b := (seq_of s b + 1)%N]> (next_seq s) ∧ next_out s' = next_out s ∧
    outputs s' = outputs s ∧ proven s' = proven s ∧ pairs s' = dep_pairs c s b d ∧
    batches s' = batches s ∧ regfee s' = regfee s ∧ chans s' = chans s ∧ admins s' = admins s ∧
    elog s' = dep_event c s sender b to d amt data :: elog s ∧ plog s' = plog s.
Proof.
  unfold deposit. hsplit; intros [= <- <-]; cbn.
  all: match goal with H : negb (coin_valid _ _ && _) = false |- _ =>
    apply negb_false_iff, andb_true_iff in H as [[Hd Ha]%andb_true_iff Hlt] end.
  all: apply Z.leb_le in Ha; apply Z.ltb_lt in Hlt.
  all: match goal with H : (_ =? 0)%N = false |- _ => apply N.eqb_neq in H end.
  all: match goal with H : bool_decide (_ = []) = false |- _ => apply bool_decide_eq_false in H end.
  all: eexists; repeat split; eauto.
  all: unfold dep_pairs; by match goal with H : pairs _ !! _ = _ |- _ => rewrite H end.
Qed.

(* the leaf hash an L1 finalization checks and records, and the payout it logs *)
Definition fin_leaf (c : cfg) (b sq : N) (from to d : bytes) (amt : Z) : bytes :=
  leaf_hash (hash c) b sq from to d (Z.to_N amt).

Lemma finalize_Some c e s sender b idx sq proofs from to d amt v sr bh s' r :
  finalize c e s sender b idx sq proofs from to d amt v sr bh = Some (s', r) →
  ∃ rcv, resolve c to = Some rcv ∧ r = RNone ∧ b ≠ 0%N ∧ (0 < amt < two64)%Z ∧ valid_denom d = true ∧
    is_Some (configs s !! b) ∧ is_Some (outputs s !! (b, idx)) ∧
    (b, fin_leaf c b sq from to d amt) ∉ proven s ∧
    root_from_proof (hash c) (fin_leaf c b sq from to d amt) proofs = sr ∧
    bank_send (bk s) (escrow c b) rcv d amt = Some (bk s') ∧
    next_bridge s' = next_bridge s ∧ configs s' = configs s ∧ next_seq s' = next_seq s ∧
    next_out s' = next_out s ∧ outputs s' = outputs s ∧
    proven s' = {[ (b, fin_leaf c b sq from to d amt) ]} ∪ proven s ∧ pairs s' = pairs s ∧
    batches s' = batches s ∧ regfee s' = regfee s ∧ chans s' = chans s ∧ admins s' = admins s ∧
    elog s' = elog s ∧
    plog s' = {| y_bridge := b; y_leaf := fin_leaf c b sq from to d amt; y_to := rcv; y_denom := d;
                 y_amt := amt |} :: plog s.
Proof.
  unfold finalize. hsplit. intros [= <- <-]. cbn. fold (fin_leaf c b sq from to d amt) in *.
  match goal with H : negb (finalize_valid _ _ _ _ _ _ _ _ _ _ _ _ _) = false |- _ =>
    apply negb_false_iff in H; unfold finalize_valid in H; repeat (apply andb_true_iff in H as [H ?]) end.
  repeat match goal with H : negb _ = true |- _ => apply negb_true_iff in H end.
  repeat match goal with H : negb _ = false |- _ => apply negb_false_iff in H end.
  match goal with H : coin_valid _ _ = true |- _ => apply andb_true_iff in H as [Hd Ha] end.
  apply Z.leb_le in Ha.
  match goal with H : (amt =? 0)%Z = false |- _ => apply Z.eqb_neq in H end.
  match goal with H : (amt <? two64)%Z = true |- _ => apply Z.ltb_lt in H end.
  match goal with H : (b =? 0)%N = false |- _ => apply N.eqb_neq in H end.
  match goal with H : bool_decide (_ ∈ proven s) = false |- _ => apply bool_decide_eq_false in H end.
  match goal with H : bool_decide (root_from_proof _ _ _ = _) = true |- _ => apply bool_decide_eq_true in H end.
  eexists. repeat split; eauto; lia.
Qed.

Lemma create_Some c e s creator x s' r :
  create_bridge c e s creator x = Some (s', r) →
  ∃ cr, resolve c creator = Some cr ∧ r = RId (next_bridge s) ∧
    fee_loop cr (pool c) (bk s) (regfee s) = Some (bk s') ∧
    next_bridge s' = (next_bridge s + 1)%N ∧ configs s' = <[next_bridge s := x]> (configs s) ∧
    next_seq s' = next_seq s ∧ next_out s' = next_out s ∧ outputs s' = outputs s ∧
    proven s' = proven s ∧ pairs s' = pairs s ∧
    (∃ k, batches s' = <[(next_bridge s, k) := (c_batch x, empty_output)]> (batches s)) ∧
    regfee s' = regfee s ∧ chans s' = chans s ∧ elog s' = elog s ∧ plog s' = plog s.
Proof.
  unfold create_bridge. hsplit. intros [= <- <-].
  match goal with H : hook_created _ _ _ = Some _ |- _ => apply hook_created_frame in H as F end.
  unfold eq_but_admins in F. cbn in F. destruct_and!.
  eexists. split; [done|]. split; [done|]. split; [unfold fee_loop; congruence|].
  repeat split; try congruence. eexists. unfold push_batch in *. cbn in *. eassumption.
Qed.

Lemma bank_send_msg_Some s from to d amt s' r :
  bank_send_msg s from to d amt = Some (s', r) →
  r = RNone ∧ (0 < amt)%Z ∧ bank_send (bk s) from to d amt = Some (bk s') ∧ s' = upd_bk s (bk s').
Proof.
  unfold bank_send_msg. hsplit. intros [= <- <-]. cbn.
  match goal with H : negb (_ && (0 <? amt)%Z) = false |- _ =>
    apply negb_false_iff, andb_true_iff in H as [_ H%Z.ltb_lt] end.
  done.
Qed.

(* ---------------------------------------------------------------------------------- *)
(* step / run plumbing                                                                  *)
(* ---------------------------------------------------------------------------------- *)
Lemma step_err_unchanged c e s m s' : step c e s m = (s', Err) → s' = s.
Proof. unfold step. destruct (handle c e s m) as [[? ?]|]; intros [= <-]; done. Qed.

Lemma step_Ok c e s m s' r : step c e s m = (s', Ok r) → handle c e s m = Some (s', r).
Proof. unfold step. destruct (handle c e s m) as [[? ?]|]; intros [= <- <-]; done. Qed.

Lemma step_cases c e s m :
  (∃ s' r, handle c e s m = Some (s', r) ∧ step c e s m = (s', Ok r)) ∨
  (handle c e s m = None ∧ step c e s m = (s, Err)).
Proof. unfold step. destruct (handle c e s m) as [[s' r]|]; eauto. Qed.

Lemma run_cons c s e m h :
  run c s ((e, m) :: h) =
  ((run c (step c e s m).1 h).1, (step c e s m).2 :: (run c (step c e s m).1 h).2).
Proof. cbn [run]. destruct (step c e s m) as [s1 r]. cbn [fst snd]. destruct (run c s1 h) as [s2 rs]. done. Qed.

Lemma run_length c h : ∀ s, length (run c s h).2 = length h.
Proof.
  induction h as [|[e m] h IH]; intros s; [done|]. rewrite run_cons. cbn. by rewrite IH.
Qed.

(* a step-preserved predicate holds after every history *)
Lemma run_invariant c (P : l1state → Prop) :
  (∀ e s m, P s → P (step c e s m).1) → ∀ h s, P s → P (run c s h).1.
Proof.
  intros Hstep. induction h as [|[e m] h IH]; intros s Hs; [done|].
  rewrite run_cons. cbn. apply IH, Hstep, Hs.
Qed.

(* ---------------------------------------------------------------------------------- *)
(* which messages can touch which ghost logs                                            *)
(* ---------------------------------------------------------------------------------- *)
Definition is_deposit (m : msg) : bool := match m with MDeposit _ _ _ _ _ _ => true | _ => false end.
Definition is_finalize (m : msg) : bool :=
  match m with MFinalize _ _ _ _ _ _ _ _ _ _ _ _ => true | _ => false end.

Lemma handle_not_deposit c e s m s' r :
  is_deposit m = false → handle c e s m = Some (s', r) →
  next_seq s' = next_seq s ∧ pairs s' = pairs s ∧ elog s' = elog s.
Proof.
  intros Hm H. destruct (plain_msg m) eqn:Hp.
  { apply handle_plain in H as [K _]; [|done]. unfold keep_money in K. tauto. }
  destruct m; try discriminate; cbn [handle] in H.
  - apply create_Some in H as (cr & H). tauto.
  - apply finalize_Some in H as (rcv & H). tauto.
  - apply bank_send_msg_Some in H as (_ & _ & _ & ->). done.
Qed.

Lemma handle_not_finalize c e s m s' r :
  is_finalize m = false → handle c e s m = Some (s', r) → proven s' = proven s ∧ plog s' = plog s.
Proof.
  intros Hm H. destruct (plain_msg m) eqn:Hp.
  { apply handle_plain in H as [K _]; [|done]. unfold keep_money in K. tauto. }
  destruct m; try discriminate; cbn [handle] in H.
  - apply create_Some in H as (cr & H). tauto.
  - apply deposit_Some in H as (sd & H). tauto.
  - apply bank_send_msg_Some in H as (_ & _ & _ & ->). done.
Qed.

(* the bridge counter never decreases and only creation moves it *)
Lemma handle_next_bridge c e s m s' r :
  handle c e s m = Some (s', r) →
  next_bridge s' = (match m with MCreateBridge _ _ => next_bridge s + 1 | _ => next_bridge s end)%N.
Proof.
  intros H. destruct (plain_msg m) eqn:Hp.
  { apply handle_plain in H as [K _]; [|done]. unfold keep_money in K. destruct m; try discriminate; tauto. }
  destruct m; try discriminate; cbn [handle] in H.
  - apply create_Some in H as (cr & H). tauto.
  - apply deposit_Some in H as (sd & H). tauto.
  - apply finalize_Some in H as (rcv & H). tauto.
  - apply bank_send_msg_Some in H as (_ & _ & _ & ->). done.
Qed.
