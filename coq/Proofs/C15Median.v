(* The exact value written by an accepted oracle update: connect's ComputeMedian (sort by price,
   first price at which the running weight reaches half of the total) returns the
   stake-weighted median of the contributors when the recorded powers are non-negative. *)
From stdpp Require Import gmap numbers list.
From Coq Require Import ZArith Lia.
Require Import Model.Oracle Proofs.OracleLemmas Proofs.C15Proofs.
Local Open Scope Z_scope.

(* ---- the stake-weighted median: exact characterisation ---- *)
Definition wupto (l : list (Z * Z)) (q : Z) : Z := sum_z (fst <$> filter (λ z : Z * Z, z.2 <= q) l).
Definition wsum (l : list (Z * Z)) : Z := sum_z (fst <$> l).

Fixpoint sorted_p (l : list (Z * Z)) : Prop :=
  match l with [] => True | x :: l' => (∀ y, y ∈ l' → x.2 <= y.2) ∧ sorted_p l' end.

Lemma insert_price_elem x l y : y ∈ insert_price x l → y = x ∨ y ∈ l.
Proof.
  induction l as [|z l IH]; cbn.
  - intros ->%elem_of_list_singleton. by left.
  - destruct (x.2 <=? z.2).
    + intros [->|H]%elem_of_cons; [by left|by right].
    + intros [->|H]%elem_of_cons; [right; left|]. destruct (IH H) as [->|?]; [by left|right; by right].
Qed.

Lemma insert_price_sorted x l : sorted_p l → sorted_p (insert_price x l).
Proof.
  induction l as [|y l IH]; cbn; [intros _; split; [intros ? []%elem_of_nil|done]|].
  intros [Hy Hs]. destruct (x.2 <=? y.2) eqn:E.
  - apply Z.leb_le in E. cbn. split; [|done]. intros z [->|Hz]%elem_of_cons; [done|]. specialize (Hy z Hz). lia.
  - apply Z.leb_gt in E. cbn. split; [|auto]. intros z [->|Hz]%insert_price_elem; [lia|auto].
Qed.

Lemma sort_prices_sorted l : sorted_p (sort_prices l).
Proof. induction l as [|x l IH]; cbn; [done|]. by apply insert_price_sorted. Qed.

Lemma insert_price_perm x l : insert_price x l ≡ₚ x :: l.
Proof.
  induction l as [|y l IH]; cbn; [done|]. destruct (x.2 <=? y.2); [done|].
  rewrite IH. apply Permutation_swap.
Qed.

Lemma sort_prices_perm l : sort_prices l ≡ₚ l.
Proof. induction l as [|x l IH]; cbn; [done|]. by rewrite insert_price_perm, IH. Qed.

Lemma wupto_cons x l q : wupto (x :: l) q = (if decide (x.2 <= q) then x.1 else 0) + wupto l q.
Proof. unfold wupto, sum_z. rewrite filter_cons. destruct (decide (x.2 <= q)); [rewrite fmap_cons|]; cbn [foldr]; lia. Qed.

Lemma wupto_perm l l' q : l ≡ₚ l' → wupto l q = wupto l' q.
Proof.
  induction 1 as [|x l l' _ IH|x y l|l1 l2 l3 _ IH1 _ IH2]; [done| | |congruence].
  - by rewrite !wupto_cons, IH.
  - rewrite !wupto_cons. lia.
Qed.

Lemma wsum_cons x l : wsum (x :: l) = x.1 + wsum l.
Proof. done. Qed.

Lemma wsum_perm l l' : l ≡ₚ l' → wsum l = wsum l'.
Proof.
  induction 1 as [|x l l' _ IH|x y l|l1 l2 l3 _ IH1 _ IH2]; rewrite ?wsum_cons; [done|lia|lia|congruence].
Qed.

Lemma wupto_nonneg l q : (∀ x, x ∈ l → 0 <= x.1) → 0 <= wupto l q.
Proof.
  induction l as [|x l IH]; intros H; [done|]. rewrite wupto_cons.
  assert (0 <= x.1) by (apply H; left). assert (0 <= wupto l q) by (apply IH; intros; apply H; by right).
  destruct (decide (x.2 <= q)); lia.
Qed.

Lemma median_scan_spec l mid acc p :
  sorted_p l → (∀ x, x ∈ l → 0 <= x.1) → median_scan mid acc l = Some p →
  (∃ x, x ∈ l ∧ x.2 = p) ∧
  (∀ y, y ∈ l → y.2 < p → acc + wupto l y.2 < mid) ∧
  (mid <= acc + wupto l p ∨ acc + wsum l < mid).
Proof.
  revert acc. induction l as [|x l IH]; intros acc Hs Hw H; [done|].
  cbn [median_scan] in H. destruct Hs as [Hx Hs].
  assert (Hw' : ∀ y, y ∈ l → 0 <= y.1) by (intros; apply Hw; by right).
  assert (Hx0 : 0 <= x.1) by (apply Hw; left).
  destruct l as [|x' l'].
  { injection H as <-. split; [exists x; split; [left|done]|]. split.
    - intros y ->%elem_of_list_singleton. lia.
    - rewrite wupto_cons, decide_True by lia. unfold wsum, wupto. cbn. lia. }
  set (l := x' :: l') in *.
  destruct (mid <=? acc + x.1) eqn:E.
  - apply Z.leb_le in E. injection H as <-. split; [exists x; split; [left|done]|]. split.
    + intros y [->|Hy]%elem_of_cons; [lia|]. specialize (Hx y Hy). lia.
    + left. rewrite wupto_cons, decide_True by lia. pose proof (wupto_nonneg l x.2 Hw'). lia.
  - apply Z.leb_gt in E. destruct (IH _ Hs Hw' H) as ((z & Hz & Hzp) & H2 & H3).
    assert (Hxp : x.2 <= p) by (rewrite <- Hzp; auto).
    split; [exists z; split; [by right|done]|]. split.
    + intros y Hy Hyp. rewrite wupto_cons.
      apply elem_of_cons in Hy as [->|Hy].
      * rewrite decide_True by lia.
        destruct (filter (λ z0 : Z * Z, z0.2 <= x.2) l) as [|u fl] eqn:Ef.
        { unfold wupto. rewrite Ef. cbn. lia. }
        assert (Hu : u ∈ filter (λ z0 : Z * Z, z0.2 <= x.2) l) by (rewrite Ef; left).
        apply elem_of_list_filter in Hu as [Hu1 Hu2]. pose proof (Hx u Hu2).
        assert (u.2 = x.2) as Hux by lia. specialize (H2 u Hu2 ltac:(lia)). rewrite Hux in H2. lia.
      * pose proof (Hx y Hy). rewrite decide_True by lia. specialize (H2 y Hy Hyp). lia.
    + rewrite wupto_cons, decide_True by lia. unfold wsum in *. cbn [fmap list_fmap sum_z foldr] in *.
      destruct H3 as [H3|H3]; [left|right]; cbn in *; lia.
Qed.

Definition weight_upto (cs : list (N * Z * Z)) (q : Z) : Z :=
  sum_z ((λ c : N * Z * Z, c.1.2) <$> filter (λ c : N * Z * Z, c.2 <= q) cs).
Definition weight_total (cs : list (N * Z * Z)) : Z := sum_z ((λ c : N * Z * Z, c.1.2) <$> cs).

Lemma weight_upto_cons c cs q :
  weight_upto (c :: cs) q = (if decide (c.2 <= q) then c.1.2 else 0) + weight_upto cs q.
Proof.
  unfold weight_upto, sum_z. rewrite filter_cons. destruct (decide (c.2 <= q)); [rewrite fmap_cons|]; cbn [foldr]; lia.
Qed.

Lemma weight_upto_proj cs q : weight_upto cs q = wupto ((λ c : N * Z * Z, (c.1.2, c.2)) <$> cs) q.
Proof.
  induction cs as [|c cs IH]; [done|]. rewrite fmap_cons, wupto_cons, weight_upto_cons, IH. done.
Qed.

Lemma weight_total_proj cs : weight_total cs = wsum ((λ c : N * Z * Z, (c.1.2, c.2)) <$> cs).
Proof. induction cs as [|c cs IH]; [done|]. rewrite fmap_cons, wsum_cons, <- IH. done. Qed.

Lemma weight_total_cons c cs : weight_total (c :: cs) = c.1.2 + weight_total cs.
Proof. done. Qed.

Lemma weight_total_nonneg cs : (∀ c, c ∈ cs → 0 <= c.1.2) → 0 <= weight_total cs.
Proof.
  induction cs as [|c cs IH]; intros H; [done|]. rewrite weight_total_cons.
  assert (0 <= c.1.2) by (apply H; left). assert (0 <= weight_total cs) by (apply IH; intros; apply H; by right). lia.
Qed.

(* the stake-weighted median of non-negative weights: the smallest submitted price at which the
   weight of all prices up to it reaches half (rounded down) of the total weight *)
Lemma median_spec cs p :
  (∀ c, c ∈ cs → 0 <= c.1.2) → median cs = Some p →
  (∃ c, c ∈ cs ∧ c.2 = p) ∧
  Z.quot (weight_total cs) 2 <= weight_upto cs p ∧
  (∀ c, c ∈ cs → c.2 < p → weight_upto cs c.2 < Z.quot (weight_total cs) 2).
Proof.
  intros Hw H. unfold median in H. fold (weight_total cs) in H.
  set (l0 := (λ c : N * Z * Z, (c.1.2, c.2)) <$> cs) in *.
  assert (Hw0 : ∀ x, x ∈ sort_prices l0 → 0 <= x.1).
  { intros x Hx. rewrite sort_prices_perm in Hx. apply elem_of_list_fmap in Hx as (c & -> & Hc). cbn. auto. }
  destruct (median_scan_spec _ _ _ _ (sort_prices_sorted l0) Hw0 H) as ((x & Hx & Hxp) & H2 & H3).
  assert (Hperm := sort_prices_perm l0). unfold l0 in *. clear l0.
  split; [|split].
  - rewrite Hperm in Hx. apply elem_of_list_fmap in Hx as (c & -> & Hc). eauto.
  - rewrite weight_upto_proj. rewrite (wupto_perm _ _ p Hperm) in H3. destruct H3 as [H3|H3]; [lia|].
    exfalso. rewrite (wsum_perm _ _ Hperm), <- weight_total_proj in H3.
    assert (0 <= weight_total cs) by (by apply weight_total_nonneg).
    assert (Z.quot (weight_total cs) 2 <= weight_total cs).
    { rewrite Z.quot_div_nonneg by lia. apply Z.div_le_upper_bound; lia. }
    lia.
  - intros c Hc Hcp. rewrite weight_upto_proj, <- (wupto_perm _ _ c.2 Hperm).
    specialize (H2 (c.1.2, c.2)). cbn in H2. apply H2; [|done].
    rewrite Hperm. apply elem_of_list_fmap. eauto.
Qed.

Lemma contributors_nonneg m prov cp :
  (∀ a pk w, m !! a = Some (pk, w) → 0 <= w) → ∀ c, c ∈ contributors m prov cp → 0 <= c.1.2.
Proof. intros H c (pk & ps & Hm & _)%contributors_elem. eauto. Qed.

(* an accepted update that changes the quote of cp writes the stake-weighted median of the
   prices carried for cp by the counted votes of the recorded validators *)
Lemma c15_median s blk sender height commit s' cp :
  (∀ a pk w, hset s !! a = Some (pk, w) → 0 <= w) →
  update_oracle s blk sender height commit = Some s' → quotes s' !! cp ≠ quotes s !! cp →
  ∃ votes q, commit = Some votes ∧ quotes s' !! cp = Some (Some q) ∧
    let cs := contributors (hset s) (providers votes) cp in
    (∃ c, c ∈ cs ∧ c.2 = q_price q) ∧
    Z.quot (weight_total cs) 2 <= weight_upto cs (q_price q) ∧
    (∀ c, c ∈ cs → c.2 < q_price q → weight_upto cs c.2 < Z.quot (weight_total cs) 2).
Proof.
  intros Hnn H Hne.
  destruct (c15_written_quote _ _ _ _ _ _ _ H Hne) as (votes & tsp & p & -> & _ & Ha & Hq).
  exists votes, (MkQuote p (wrap64 tsp) blk). split; [done|]. split; [done|]. cbn.
  unfold agg_price in Ha. destruct (quotes s !! cp); [|done].
  destruct (threshold <=? _); [|done].
  apply median_spec; [|done]. by apply contributors_nonneg.
Qed.

(* who the contributors are *)
Lemma c15_contributors s votes cp c :
  c ∈ contributors (hset s) (providers votes) cp ↔
  ∃ pk ps, hset s !! c.1.1 = Some (pk, c.1.2) ∧ providers votes !! c.1.1 = Some ps ∧ price_of ps cp = Some c.2.
Proof. apply contributors_elem. Qed.

(* the provider entry of a validator is the decoded price map of its LAST vote with a non-empty
   extension *)
Lemma fold_add_vote_keep l2 a prov :
  (∀ v', v' ∈ l2 → v_addr v' = a → ∀ ps', eff_dec v' ≠ Some (true, ps')) →
  fold_left add_vote l2 prov !! a = prov !! a.
Proof.
  revert prov. induction l2 as [|u l2 IH]; intros prov H; [done|]. cbn [fold_left].
  rewrite IH by (intros v' Hv'; apply H; by right).
  unfold add_vote. destruct (eff_dec u) as [[[] ps]|] eqn:Hu; try done.
  destruct (decide (v_addr u = a)) as [Ha|Hne]; [|by rewrite lookup_insert_ne].
  exfalso. by apply (H u ltac:(left) Ha ps).
Qed.

Lemma c15_latest_vote_wins l1 v l2 ps :
  eff_dec v = Some (true, ps) →
  (∀ v', v' ∈ l2 → v_addr v' = v_addr v → ∀ ps', eff_dec v' ≠ Some (true, ps')) →
  providers (l1 ++ v :: l2) !! v_addr v = Some ps.
Proof.
  intros Hd Hl. unfold providers. rewrite fold_left_app. cbn [fold_left].
  rewrite fold_add_vote_keep by done. unfold add_vote. rewrite Hd. by rewrite lookup_insert.
Qed.
