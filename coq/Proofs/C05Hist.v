(* C05, history form: the time stored with an output is the block time of the successful
   proposal that created it, so the window of C05_window is counted from that proposal. *)
From stdpp Require Import gmap numbers list.
From Coq Require Import ZArith Lia.
Require Import Model.Bytes Model.Bank Model.Hashes Model.L1 Model.L1OutSpec Proofs.L1OutLemmas Proofs.C05Proofs.

Lemma mono_from_app t h1 h2 : mono_from t (h1 ++ h2) → mono_from t h1 ∧ mono_from (last_time t h1) h2.
Proof.
  revert t. induction h1 as [|[e m] h1 IH]; intros t; cbn; [done|].
  intros [Hle H]. destruct (IH _ H). done.
Qed.

(* a stored output is never overwritten: a step either keeps it or removes it *)
Lemma stored_stable c e s m s' r b i o o' :
  log_ok s b → outputs s !! (b, i) = Some o → step c e s m = (s', r) →
  outputs s' !! (b, i) = Some o' → o' = o.
Proof.
  intros Hok Ho E Ho'. destruct r as [r|]; [|apply step_Err in E as [_ ->]; congruence].
  apply step_Ok in E. destruct (out_msg_dec m) as [Hm|Hm].
  - destruct m; try done; cbn [handle] in E.
    + apply propose_Some in E as ((_ & _ & _ & y & _ & _ & Hi & _) & _ & ->).
      rewrite propose_post_lookup in Ho'. destruct (decide _) as [[= <- <-]|]; [|congruence].
      pose proof (log_ok_stored _ _ _ _ Hok Ho). lia.
    + apply delete_Some in E as (_ & _ & ->). rewrite delete_post_lookup in Ho'.
      destruct (decide _); congruence.
  - destruct (handle_cfg_step _ _ _ _ _ _ E Hm) as (Hout & _). congruence.
Qed.

Lemma c05_stored_time_is_proposal_time c h t0 b i o :
  mono_from t0 h → outputs (run c init_state h).1 !! (b, i) = Some o →
  ∃ h1 e p l2 root h2,
    h = h1 ++ (e, MPropose p b i l2 root) :: h2 ∧
    step c e (run c init_state h1).1 (MPropose p b i l2 root) =
      (propose_post e (run c init_state h1).1 b i l2 root, Ok RNone) ∧
    o = new_output e root l2.
Proof.
  revert o. induction h as [|[e m] h IH] using rev_ind; intros o Hm Ho.
  - cbn in Ho. by rewrite lookup_empty in Ho.
  - apply mono_from_app in Hm as [Hm1 Hm2].
    rewrite run_app in Ho. rewrite run_cons in Ho. cbn [fst run] in Ho.
    set (s1 := (run c init_state h).1) in *.
    destruct (step c e s1 m) as [s2 r] eqn:E. cbn [fst] in Ho.
    destruct (outputs s1 !! (b, i)) as [o1|] eqn:Ho1.
    + assert (Hok : log_ok s1 b).
      { by destruct (run_l1inv c h init_state t0 (init_l1inv t0) Hm1) as (_ & Hl & _). }
      pose proof (stored_stable _ _ _ _ _ _ _ _ _ _ Hok Ho1 E Ho) as ->.
      destruct (IH o1 Hm1 eq_refl) as (h1 & e1 & p & l2 & root & h2 & -> & Hs & ->).
      exists h1, e1, p, l2, root, (h2 ++ [(e, m)]). split; [|done].
      by rewrite <- app_assoc, <- app_comm_cons.
    + destruct (c05_only_propose_fills _ _ _ _ _ _ _ _ _ Ho1 E Ho) as (p & l2 & root & -> & -> & ->).
      exists h, e, p, l2, root, []. split; [done|]. split; [|done].
      fold s1. rewrite E. f_equal. apply step_Ok in E. cbn [handle] in E.
      by apply propose_Some in E as (_ & _ & ->).
Qed.

(* the window, end to end: a claim accepted after history h at time [now e] was made against an
   output created by a successful proposal inside h, at block time [now ep], and
   now e / 10^9 >= (now ep + period) / 10^9 *)
Lemma c05_window_history c h t0 e sender b idx sq proofs from to d amt v sr bh s' r :
  mono_from t0 h →
  step c e (run c init_state h).1 (MFinalize sender b idx sq proofs from to d amt v sr bh) = (s', Ok r) →
  ∃ h1 ep p l2 root h2 x,
    h = h1 ++ (ep, MPropose p b idx l2 root) :: h2 ∧
    step c ep (run c init_state h1).1 (MPropose p b idx l2 root) =
      (propose_post ep (run c init_state h1).1 b idx l2 root, Ok RNone) ∧
    configs (run c init_state h).1 !! b = Some x ∧
    ((now ep + c_period x) / second ≤ now e / second)%Z ∧ (now ep + c_period x - second < now e)%Z.
Proof.
  intros Hm H. destruct (c05_window _ _ _ _ _ _ _ _ _ _ _ _ _ _ _ _ _ H) as (o & x & Ho & Hx & H1 & H2).
  destruct (c05_stored_time_is_proposal_time c h t0 b idx o Hm Ho) as (h1 & ep & p & l2 & root & h2 & -> & Hs & ->).
  exists h1, ep, p, l2, root, h2, x. done.
Qed.
