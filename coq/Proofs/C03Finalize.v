(* Inversion of the L1 withdrawal-finalization handler: every guard it passed and the exact
   successor state; and "an error leaves the state unchanged" for the whole L1 machine. *)
From stdpp Require Import gmap numbers list.
From Coq Require Import ZArith Lia.
Require Import Model.Bytes Model.Bank Model.Hashes Model.L1.

Definition claim_leaf (c : cfg) (b sq : N) (from to d : bytes) (amt : Z) : bytes :=
  leaf_hash (hash c) b sq from to d (Z.to_N amt).

(* the state after a successful finalization: only the bank, the claim set and the payout log *)
Definition finalized_state (s : l1state) (b1 : bank) (b : N) (leaf : bytes) (rcv : N) (d : bytes) (amt : Z) : l1state :=
  {| bk := b1; next_bridge := next_bridge s; configs := configs s; next_seq := next_seq s;
     next_out := next_out s; outputs := outputs s; proven := {[ (b, leaf) ]} ∪ proven s;
     pairs := pairs s; batches := batches s; regfee := regfee s; chans := chans s;
     admins := admins s; elog := elog s;
     plog := {| y_bridge := b; y_leaf := leaf; y_to := rcv; y_denom := d; y_amt := amt |} :: plog s |}.

Lemma finalize_Some c e s sender b idx sq proofs from to d amt v sr bh s' r :
  finalize c e s sender b idx sq proofs from to d amt v sr bh = Some (s', r) →
  finalize_valid c sender b idx sq proofs from to d amt v sr bh = true ∧
  ∃ rcv o x b1,
    resolve c to = Some rcv ∧ outputs s !! (b, idx) = Some o ∧ configs s !! b = Some x ∧
    is_final x e o = true ∧
    o_root o = output_root (hash c) (hd 0%N v) sr bh ∧
    (amt < two64)%Z ∧
    (b, claim_leaf c b sq from to d amt) ∉ proven s ∧
    root_from_proof (hash c) (claim_leaf c b sq from to d amt) proofs = sr ∧
    bank_send (bk s) (escrow c b) rcv d amt = Some b1 ∧
    s' = finalized_state s b1 b (claim_leaf c b sq from to d amt) rcv d amt ∧ r = RNone.
Proof.
  unfold finalize, claim_leaf.
  destruct (finalize_valid c sender b idx sq proofs from to d amt v sr bh) eqn:Hv; [|discriminate].
  cbn [negb].
  destruct (resolve c to) as [rcv|] eqn:Hr; [|discriminate]. cbn [mbind option_bind].
  destruct (outputs s !! (b, idx)) as [o|] eqn:Ho; [|discriminate]. cbn [mbind option_bind].
  destruct (configs s !! b) as [x|] eqn:Hx; [|discriminate]. cbn [mbind option_bind].
  destruct (is_final x e o) eqn:Hfin; [|discriminate]. cbn [negb].
  destruct (bool_decide (o_root o = output_root (hash c) (hd 0%N v) sr bh)) eqn:Hroot; [|discriminate].
  cbn [negb]. apply bool_decide_eq_true in Hroot.
  destruct (amt <? two64)%Z eqn:Hamt; [|discriminate]. cbn [negb]. apply Z.ltb_lt in Hamt.
  destruct (bool_decide ((b, leaf_hash (hash c) b sq from to d (Z.to_N amt)) ∈ proven s)) eqn:Hcl; [discriminate|].
  apply bool_decide_eq_false in Hcl.
  destruct (bool_decide (root_from_proof (hash c) (leaf_hash (hash c) b sq from to d (Z.to_N amt)) proofs = sr)) eqn:Hpf; [|discriminate].
  cbn [negb]. apply bool_decide_eq_true in Hpf.
  destruct (bank_send (bk s) (escrow c b) rcv d amt) as [b1|] eqn:Hb; [|discriminate]. cbn [mbind option_bind].
  intros [= <- <-]. split; [done|]. exists rcv, o, x, b1. done.
Qed.

(* what MsgFinalizeTokenWithdrawal.Validate guarantees *)
Lemma finalize_valid_true c sender b idx sq proofs from to d amt v sr bh :
  finalize_valid c sender b idx sq proofs from to d amt v sr bh = true →
  is_Some (resolve c sender) ∧ from ≠ [] ∧ is_Some (resolve c to) ∧ (0 < amt)%Z ∧
  sq ≠ 0%N ∧ b ≠ 0%N ∧ idx ≠ 0%N ∧
  Forall (λ p, length p = 32) proofs ∧ length v = 1 ∧ length sr = 32 ∧ length bh = 32.
Proof.
  unfold finalize_valid, valid_addr, coin_valid. rewrite !andb_true_iff, !negb_true_iff.
  intros [[[[[[[[[[[Hs Hf] Ht] [_ Ha]] Hz] Hsq] Hb] Hi] Hp] Hlv] Hls] Hlb].
  apply bool_decide_eq_true in Hs, Ht. apply bool_decide_eq_false in Hf.
  apply Z.leb_le in Ha. apply Z.eqb_neq in Hz. apply N.eqb_neq in Hsq, Hb, Hi.
  apply Nat.eqb_eq in Hlv, Hls, Hlb.
  repeat split; try done; try lia.
  apply Forall_forall. intros p Hin. rewrite forallb_forall in Hp.
  apply Nat.eqb_eq, Hp. by apply elem_of_list_In.
Qed.

Lemma l1_step_err_unchanged c e s m s' : step c e s m = (s', Err) → s' = s.
Proof. unfold step. destruct (handle c e s m) as [[s1 r]|]; by intros [= <-]. Qed.

Lemma l1_step_ok c e s m s' r : step c e s m = (s', Ok r) → handle c e s m = Some (s', r).
Proof. unfold step. destruct (handle c e s m) as [[s1 r1]|]; by intros [= <- <-]. Qed.
