(* [l2_inv] holds in every reachable L2 state: messages and block ends (EndBlocker with or
   without a fresh executor-change plan).  Uses the end-blocker refinement of C13
   (Proofs/ValsetLemmas.v) and the plan lemma of C14. *)
From stdpp Require Import gmap numbers list sorting.
From Coq Require Import ZArith Lia.
Require Import Model.Bytes Model.Bank Model.Valset Model.L2 Model.ValChain Model.TraceVal Model.Genesis1 Model.Genesis2.
Require Import Proofs.L2Lemmas Proofs.ValsetLemmas Proofs.C13Proofs Proofs.C13L2 Proofs.C14Proofs Proofs.Genesis2Inv Proofs.Genesis2Proofs.

Lemma mid_vinv maxv v e : mid_inv v e → (N.of_nat (size (vals v)) ≤ maxv)%N → vinv maxv v.
Proof.
  intros (Hi & (He1 & _) & _) Hsz. split; [done|]. split; [|split].
  - intros op x Hx. apply Hi. eauto.
  - intros k op Hk. by apply Hi.
  - intros op p Hl. destruct (He1 _ _ Hl) as (x & Hx & _). eauto.
Qed.

(* the strengthened invariant carried along histories *)
Definition l2_full (c : cfg) (s : l2state) : Prop := l2_inv c s ∧ ∃ e, mid_inv (vs s) e.

Lemma handle_full c s m s' r : l2_full c s → handle c s m = Some (s', r) → l2_full c s'.
Proof.
  intros [Hinv [e Hmid]] H. split; [by eapply handle_inv2|]. exists e.
  destruct (handle_val_reach m c s s' r H) as [ops Hops].
  assert (Hc : core_inv (core_of s) e) by (split; [done|apply (i2_maxv c s Hinv)]).
  pose proof (foldl_vop_exec_inv ops _ _ Hc) as [Hm' _]. rewrite <- Hops in Hm'. exact Hm'.
Qed.

Lemma step_full c s m : l2_full c s → l2_full c (step c s m).1.
Proof.
  intros Hf. unfold step. destruct (handle c s m) as [[s' r]|] eqn:Hh; cbn; [|done]. by eapply handle_full.
Qed.

(* the validator update of the end blocker on a state whose other components are fine *)
Lemma updates_full c s t e v ups :
  l2_inv c s → next_l1 t = next_l1 s → next_l2 t = next_l2 s → info t = info s → pairs t = pairs s →
  params_valid c (prm t) = true → (N.of_nat (size (vals (vs t))) ≤ p_maxv (prm t))%N →
  mid_inv (vs t) e → end_block_updates (vs t) = Some (v, ups) → l2_full c (set_vs t v).
Proof.
  intros Hinv E1 E2 E3 E4 Hp Hsz Hmid Hend.
  destruct (end_block_spec (vs t) e Hmid) as (v' & ups' & Hend' & (Hblk & Hvals & _)).
  rewrite Hend in Hend'. simplify_eq.
  destruct Hblk as [Hmid' Hbond].
  assert (Hsz' : (N.of_nat (size (vals v')) ≤ p_maxv (prm t))%N).
  { assert (size (vals v') ≤ size (vals (vs t)))%nat; [|lia].
    apply size_le_of_sub. intros k [x Hx]. apply Hvals in Hx as [Hx _]. eauto. }
  pose proof Hinv as [I1 I2 I3 I4 I5 I6 I7 I8 I9].
  split; [|by exists (apply_updates e ups')].
  apply (l2_inv_build c s); cbn; rewrite ?E1, ?E2, ?E3, ?E4; try done.
  by eapply mid_vinv.
Qed.

Lemma end_block_full c s pl s' ups :
  l2_full c s →
  (∀ p, pl = Some p → vals (vs s) !! pl_op p = None ∧ idx (vs s) !! pl_key p = None) →
  end_block c s pl = Some (s', ups) → l2_full c s'.
Proof.
  intros [Hinv [e Hmid]] Hpl H. unfold end_block in H.
  destruct pl as [p|]; cbn [mbind option_bind] in H.
  - destruct (Hpl p eq_refl) as [Hop Hkey].
    destruct (change_executor c s p) as [s1|] eqn:Hce; cbn [mbind option_bind] in H; [|done].
    destruct (end_block_updates (vs s1)) as [[v u]|] eqn:Hend; cbn in H; [|done]. simplify_eq.
    unfold change_executor in Hce. apply set_params_Some in Hce as (Hpv & Hsz & ->).
    eapply (updates_full c s _ e); eauto; try done. cbn.
    by apply change_executor_vals_mid.
  - destruct (end_block_updates (vs s)) as [[v u]|] eqn:Hend; cbn in H; [|done]. simplify_eq.
    eapply (updates_full c s s e); eauto.
    + apply (i2_params c s Hinv).
    + apply (i2_maxv c s Hinv).
Qed.

Lemma reach_full c s0 s : l2_full c s0 → l2_reach c s0 s → l2_full c s.
Proof.
  intros H0 Hr. induction Hr as [|s m _ IH|s pl s' ups _ IH Hpl Hend]; [done|by apply step_full|].
  by eapply end_block_full.
Qed.

Lemma mid_inv_empty : mid_inv vempty ∅.
Proof.
  split; [|split].
  - intros k op. cbn. rewrite lookup_empty. split; [done|]. intros (v & Hv & _). by rewrite lookup_empty in Hv.
  - split; cbn; intros ? ?; by rewrite lookup_empty.
  - intros op v. cbn. by rewrite lookup_empty.
Qed.

(* every state reachable from a freshly started chain satisfies [l2_inv] *)
Lemma c16_l2_reachable c s0 s :
  params_valid c (prm s0) = true → vs s0 = vempty → info s0 = None → (1 ≤ next_l1 s0)%N → (1 ≤ next_l2 s0)%N →
  (∀ d v, pairs s0 !! d = Some v → valid_denom d = true) →
  l2_reach c s0 s → l2_inv c s.
Proof.
  intros Hp Hv Hi H1 H2 Hpr Hr. eapply reach_full; [|exact Hr].
  split; [by apply fresh_inv2|]. exists ∅. rewrite Hv. apply mid_inv_empty.
Qed.

Lemma c16_l2_reachable_roundtrip c s0 s :
  params_valid c (prm s0) = true → vs s0 = vempty → info s0 = None → (1 ≤ next_l1 s0)%N → (1 ≤ next_l2 s0)%N →
  (∀ d v, pairs s0 !! d = Some v → valid_denom d = true) →
  l2_reach c s0 s →
  validate2 c (export2 s) = true ∧ ∃ ups, import2 c s (export2 s) = Some (s, ups).
Proof.
  intros H1 H2 H3 H4 H5 H6 Hr.
  destruct (c16_l2_roundtrip c s (c16_l2_reachable c s0 s H1 H2 H3 H4 H5 H6 Hr)) as (Hv & ups & Hi & _).
  eauto.
Qed.
