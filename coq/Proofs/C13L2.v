(* C13: every message of the complete opchild message server (Model/L2.v [handle], including
   ExecuteMessages with nested messages) acts on the validator core - validators, consensus-key
   index, last powers, MaxValidators, HistoricalEntries - as a finite sequence of the three
   validator operations of Model/ValChain.v.  Hence the block theorems, which quantify over all
   lists of [vop], cover all histories of L2 messages. *)
From stdpp Require Import gmap numbers list.
From Coq Require Import ZArith Lia.
Require Import Model.Bytes Model.Bank Model.Valset Model.L2 Model.ValChain Model.TraceVal.
Require Import Proofs.L2Lemmas.

Definition val_reach (c c' : vcore) : Prop := ∃ ops, c' = foldl vop_exec c ops.

Lemma val_reach_refl c : val_reach c c.
Proof. by exists []. Qed.
Lemma val_reach_trans c1 c2 c3 : val_reach c1 c2 → val_reach c2 c3 → val_reach c1 c3.
Proof. intros [o1 ->] [o2 ->]. exists (o1 ++ o2). by rewrite foldl_app. Qed.
Lemma val_reach_step c o c' : vop_step c o = Some c' → val_reach c c'.
Proof. intros H. exists [o]. simpl. unfold vop_exec. by rewrite H. Qed.
Lemma val_reach_same s s' : vs s' = vs s → prm s' = prm s → val_reach (core_of s) (core_of s').
Proof. intros H1 H2. unfold core_of. rewrite H1, H2. apply val_reach_refl. Qed.

Lemma update_params_core c s auth p s' r :
  update_params c s auth p = Some (s', r) →
  vop_step (core_of s) (VSetParams (p_maxv p) (p_hist p)) = Some (core_of s').
Proof.
  unfold update_params. destruct (negb (_ && _)) eqn:Hn; [discriminate|].
  destruct (negb (is_authority c auth)); [discriminate|]. intros Hx.
  apply bind_Some in Hx as (s1 & Hs1 & [= <- <-]).
  apply set_params_Some in Hs1 as (Hpv & Hsz & ->).
  unfold params_valid in Hpv. rewrite !andb_true_iff in Hpv. destruct Hpv as (((_ & _) & Hm) & _).
  apply negb_true_iff, N.eqb_neq in Hm.
  simpl. rewrite bool_decide_false by done. rewrite bool_decide_false by (simpl; lia). done.
Qed.

Lemma handle_val_reach m : ∀ c s s' r, handle c s m = Some (s', r) → val_reach (core_of s) (core_of s').
Proof.
  induction m as [f|w1 w2 w3 w4|b1 b2 b3 b4|i1 i2|u1 u2|v1 v2 v3|r1 r2|p1 p2 p3|sender inner IH] using msg_ind'; intros c s s' r;
    [cbn [handle]..|].
  - intros H. apply finalize_deposit_Some in H as (_ & _ & [(_ & -> & _)|(_ & _ & _ & ok & _ & Hp & _ & Hv & _)]).
    + apply val_reach_refl.
    + by apply val_reach_same.
  - intros H. apply withdraw_Some in H as (?&?&?&?&_&_&_&_&_&_&_&_&->). by apply val_reach_same.
  - intros H. apply bank_send_msg_Some in H as (? & -> & _). by apply val_reach_same.
  - intros H. apply set_bridge_info_Some in H as (_&_&_&->&_). by apply val_reach_same.
  - intros H. eapply val_reach_step. by eapply update_params_core.
  - intros H. apply add_val_Some in H as (_&o&v&_&Hadd&->&_).
    eapply (val_reach_step _ (VAdd o v3)). unfold core_of. simpl. rewrite Hadd. done.
  - intros H. apply remove_val_Some in H as (_&o&v&_&Hrm&->&_).
    eapply (val_reach_step _ (VRemove o)). unfold core_of. simpl. rewrite Hrm. done.
  - intros H. apply spend_fee_pool_Some in H as (_&?&->&_). by apply val_reach_same.
  - rewrite handle_execute.
    destruct (negb (bool_decide (is_Some _))); [discriminate|].
    case_bool_decide; [discriminate|]. destruct (negb (is_admin s sender)); [discriminate|].
    intros Hx. apply bind_Some in Hx as (auth & _ & Hx). clear -IH Hx.
    revert s Hx. induction inner as [|im l IHl]; intros s.
    + intros [= <- <-]. apply val_reach_refl.
    + rewrite exec_loop_cons. intros Hx.
      apply bind_Some in Hx as (sg & _ & Hx). apply bind_Some in Hx as (a & _ & Hx).
      destruct (negb (bool_decide (a = auth))); [discriminate|].
      apply bind_Some in Hx as ([s1 r1] & Hh & Hx).
      apply Forall_cons in IH as [IHim IHrest].
      eapply val_reach_trans; [eapply IHim; eauto|]. apply IHl; auto.
Qed.

(* whole message histories (failing messages leave the state unchanged) *)
Lemma run_val_reach c h : ∀ s, val_reach (core_of s) (core_of (run c s h).1).
Proof.
  induction h as [|m h IH]; intros s; simpl; [apply val_reach_refl|].
  unfold step. destruct (handle c s m) as [[s1 r]|] eqn:E.
  - specialize (IH s1). destruct (run c s1 h) as [s2 rs]. simpl in *.
    eapply val_reach_trans; [by eapply handle_val_reach|done].
  - specialize (IH s). destruct (run c s h) as [s2 rs]. done.
Qed.
