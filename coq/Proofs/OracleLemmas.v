(* Inversion and frame lemmas for Model/Oracle.v; later proofs use these, not the handler bodies. *)
From stdpp Require Import gmap numbers list.
From Coq Require Import ZArith Lia.
Require Import Model.Oracle.
Local Open Scope Z_scope.

(* ---- MsgUpdateOracle: exact description of a successful update ---- *)
Lemma update_oracle_Some s blk sender height commit s' :
  update_oracle s blk sender height commit = Some s' →
  ∃ snd i hh votes tsp,
    sender = Some snd ∧ height ≠ 0%N ∧ snd ∈ execs s ∧ info s = Some i ∧ bi_oracle i = true ∧
    hheight s = Some hh ∧ hh <= wrap64 (Z.of_N height) ∧ commit = Some votes ∧
    validate_ves (hset s) votes = true ∧ all_decode votes = true ∧
    agg_price s (providers votes) ts_pair = Some tsp ∧
    write_ok (quotes s) (agg_price s (providers votes)) (wrap64 tsp) = true ∧
    s' = set_quotes s (write_quotes (quotes s) (agg_price s (providers votes)) (wrap64 tsp) blk).
Proof.
  unfold update_oracle. intros H.
  destruct sender as [snd|]; [|done].
  destruct (height =? 0)%N eqn:Hh; [done|]. apply N.eqb_neq in Hh.
  destruct (bool_decide (snd ∈ execs s)) eqn:He; [|done]. apply bool_decide_eq_true in He.
  destruct (info s) as [i|]; [|done].
  destruct (bi_oracle i) eqn:Ho; [|done].
  destruct (hheight s) as [hh|]; [|done].
  destruct (wrap64 (Z.of_N height) <? hh) eqn:Hlt; [done|]. apply Z.ltb_ge in Hlt.
  destruct commit as [votes|]; [|done].
  destruct (validate_ves (hset s) votes) eqn:Hv; [|done].
  destruct (all_decode votes) eqn:Hd; [|done].
  destruct (agg_price s (providers votes) ts_pair) as [tsp|] eqn:Ht; [|done].
  destruct (write_ok (quotes s) (agg_price s (providers votes)) (wrap64 tsp)) eqn:Hw; [|done].
  cbn in H. injection H as <-. by eexists snd, i, hh, votes, tsp.
Qed.

(* and conversely: the listed guards are sufficient *)
Lemma update_oracle_intro s blk snd i hh height votes tsp :
  height ≠ 0%N → snd ∈ execs s → info s = Some i → bi_oracle i = true →
  hheight s = Some hh → hh <= wrap64 (Z.of_N height) →
  validate_ves (hset s) votes = true → all_decode votes = true →
  agg_price s (providers votes) ts_pair = Some tsp →
  write_ok (quotes s) (agg_price s (providers votes)) (wrap64 tsp) = true →
  update_oracle s blk (Some snd) height (Some votes) =
    Some (set_quotes s (write_quotes (quotes s) (agg_price s (providers votes)) (wrap64 tsp) blk)).
Proof.
  intros Hh He Hi Ho Hhh Hle Hv Hd Ht Hw. unfold update_oracle.
  apply N.eqb_neq in Hh. rewrite Hh. rewrite (bool_decide_eq_true_2 _ He). cbn.
  rewrite Hi, Ho, Hhh. cbn. apply Z.ltb_ge in Hle. rewrite Hle, Hv, Hd. cbn. by rewrite Ht, Hw.
Qed.

(* ---- frames ---- *)
Lemma update_oracle_frame s blk sender height commit s' :
  update_oracle s blk sender height commit = Some s' →
  execs s' = execs s ∧ info s' = info s ∧ hheight s' = hheight s ∧ hset s' = hset s.
Proof. intros H. apply update_oracle_Some in H as (?&?&?&?&?&_&_&_&_&_&_&_&_&_&_&_&_&->). done. Qed.

Lemma update_host_Some s client height entries s' :
  update_host_validators s client height entries = Some s' →
  (s' = s) ∨
  (∃ i, info s = Some i ∧ client = bi_client i ∧ client ≠ 0%N ∧ default 0 (hheight s) < height ∧
        s' = set_host s height (build_set entries)).
Proof.
  unfold update_host_validators. intros H.
  destruct (client =? 0)%N eqn:Hc; [left; congruence|]. apply N.eqb_neq in Hc.
  destruct (info s) as [i|]; [|done].
  destruct (bi_client i =? client)%N eqn:Hi; cbn in H; [|left; congruence]. apply N.eqb_eq in Hi.
  destruct (height <=? default 0 (hheight s)) eqn:Hh; [left; congruence|]. apply Z.leb_gt in Hh.
  right. exists i. injection H as <-. done.
Qed.

Lemma create_pair_Some s cp s' :
  create_pair s cp = Some s' → quotes s !! cp = None ∧ s' = set_quotes s (<[cp := None]> (quotes s)).
Proof. unfold create_pair. destruct (quotes s !! cp); [done|]. by intros [= <-]. Qed.

Lemma remove_pair_Some s cp s' :
  remove_pair s cp = Some s' → is_Some (quotes s !! cp) ∧ s' = set_quotes s (delete cp (quotes s)).
Proof. unfold remove_pair. destruct (quotes s !! cp) eqn:E; [|done]. intros [= <-]. eauto. Qed.

Lemma step_err_unchanged s o s' : step s o = (s', false) → s' = s.
Proof. unfold step. destruct (handle s o); by intros [= <-]. Qed.

Lemma step_ok s o s' : step s o = (s', true) → handle s o = Some s'.
Proof. unfold step. destruct (handle s o); by intros [= <-]. Qed.

Lemma run_app s h1 h2 : run s (h1 ++ h2) = run (run s h1) h2.
Proof. unfold run. by rewrite fold_left_app. Qed.
Lemma run_cons s o h : run s (o :: h) = run (step s o).1 h.
Proof. done. Qed.

(* ---- write_quotes / write_ok ---- *)
Lemma write_quotes_lookup q agg ts blk cp :
  write_quotes q agg ts blk !! cp =
    match q !! cp with
    | None => None
    | Some old => match agg cp with Some p => Some (Some (MkQuote p ts blk)) | None => Some old end
    end.
Proof.
  unfold write_quotes. rewrite map_lookup_imap. destruct (q !! cp) as [old|]; cbn; [|done].
  by destruct (agg cp).
Qed.

Lemma write_ok_spec q agg ts cp p old :
  write_ok q agg ts = true → q !! cp = Some (Some old) → agg cp = Some p → q_ts old < ts.
Proof.
  unfold write_ok. rewrite forallb_forall. intros H Hq Ha.
  specialize (H (cp, Some old)). cbn in H. rewrite Ha in H. apply Z.ltb_lt, H.
  apply elem_of_list_In, elem_of_map_to_list, Hq.
Qed.

(* ---- ValidateVoteExtensions ---- *)
(* every vote of a validator of the stored set is a validly signed commit vote, or a non-commit
   vote with neither extension nor signature *)
Definition vote_wellformed (v : vote) : Prop :=
  (v_commit v = true ∧ v_sig_ok v = true ∧ v_sig_empty v = false) ∨
  (v_commit v = false ∧ v_ext_empty v = true ∧ v_sig_empty v = true).

Lemma vve_loop_known m votes sum sum' :
  vve_loop m votes sum = Some sum' →
  ∀ v, v ∈ votes → is_Some (tokens_of m (v_addr v)) → vote_wellformed v.
Proof.
  revert sum. induction votes as [|u votes IH]; intros sum H v Hv Hk; [by apply elem_of_nil in Hv|].
  cbn [vve_loop] in H.
  destruct (tokens_of m (v_addr u)) as [p|] eqn:Hp.
  - destruct (v_commit u) eqn:Hc, (v_sig_empty u) eqn:Hs, (v_ext_empty u) eqn:He; cbn in H; try done.
    + destruct (v_sig_ok u) eqn:Ho; cbn in H; [|done]. destruct (fits64 p); cbn in H; [|done].
      apply elem_of_cons in Hv as [->|Hv]; [left; done|]. eauto.
    + destruct (v_sig_ok u) eqn:Ho; cbn in H; [|done]. destruct (fits64 p); cbn in H; [|done].
      apply elem_of_cons in Hv as [->|Hv]; [left; done|]. eauto.
    + apply elem_of_cons in Hv as [->|Hv]; [right; done|]. eauto.
  - apply elem_of_cons in Hv as [->|Hv]; [|eauto]. rewrite Hp in Hk. by destruct Hk.
Qed.

Lemma validate_ves_known m votes :
  validate_ves m votes = true →
  0 < total_tokens m ∧ ∀ v, v ∈ votes → is_Some (tokens_of m (v_addr v)) → vote_wellformed v.
Proof.
  unfold validate_ves. destruct (fits64 (total_tokens m)); cbn; [|done].
  destruct (vve_loop m votes 0) as [sum|] eqn:Hl; [|done].
  intros [H1 _]%andb_prop. split; [by apply Z.ltb_lt|]. eauto using vve_loop_known.
Qed.

(* ---- the aggregator: where a provider entry comes from ---- *)
Lemma providers_from_aux votes prov a ps :
  fold_left add_vote votes prov !! a = Some ps →
  prov !! a = Some ps ∨ ∃ v, v ∈ votes ∧ v_addr v = a ∧ eff_dec v = Some (true, ps).
Proof.
  revert prov. induction votes as [|u votes IH]; intros prov H; cbn in H; [by left|].
  apply IH in H as [H|(v & Hv & Ha & Hd)].
  - unfold add_vote in H. destruct (eff_dec u) as [[[] ps']|] eqn:Hu; eauto.
    destruct (decide (v_addr u = a)) as [<-|Hne].
    + rewrite lookup_insert in H. injection H as ->. right. exists u. split; [left|done].
    + rewrite lookup_insert_ne in H by done. by left.
  - right. exists v. split; [by right|done].
Qed.

Lemma providers_from votes a ps :
  providers votes !! a = Some ps → ∃ v, v ∈ votes ∧ v_addr v = a ∧ eff_dec v = Some (true, ps).
Proof. intros [H|H]%providers_from_aux; [by rewrite lookup_empty in H|done]. Qed.

Lemma eff_dec_nonempty v ps : eff_dec v = Some (true, ps) → v_ext_empty v = false ∧ v_dec v = Some (true, ps).
Proof. unfold eff_dec. destruct (v_ext_empty v); [done|]. done. Qed.
