(* C18 over the oracle path: the result of an oracle update does not depend on any of the
   iteration orders the Go code leaves to the runtime (price-map entries of a vote extension,
   entries of different validators in the provider map, contributions inside the median, the
   pairs visited by WritePrices), and the formal record of defect D15 (gas = number of
   currency-pair walks depended on map order and process history before 629119a). *)
From stdpp Require Import gmap numbers list.
From Coq Require Import ZArith Lia.
Require Import Model.Oracle Model.OracleOrder Proofs.OracleLemmas Proofs.C15Proofs Proofs.C15Median.
Local Open Scope Z_scope.

(* ---------------------------------------------------------------------------------------- *)
(* A. price entries of one vote                                                               *)

Lemma price_of_Some_elem ps cp z : price_of ps cp = Some z → (cp, z) ∈ ps.
Proof.
  unfold price_of. induction ps as [|[k x] ps IH]; cbn; [done|].
  destruct (k =? cp)%N eqn:E; cbn.
  - apply N.eqb_eq in E as ->. intros [= ->]. left.
  - intros H. right. auto.
Qed.

Lemma price_of_elem_Some ps cp z : NoDup ps.*1 → (cp, z) ∈ ps → price_of ps cp = Some z.
Proof.
  unfold price_of. induction ps as [|[k x] ps IH]; cbn; [by intros _ ?%elem_of_nil|].
  intros [Hni Hnd]%NoDup_cons Hin. destruct (k =? cp)%N eqn:E; cbn.
  - apply N.eqb_eq in E as ->. apply elem_of_cons in Hin as [[= ->]|Hin]; [done|].
    exfalso. apply Hni. apply elem_of_list_fmap. by exists (cp, z).
  - apply N.eqb_neq in E. apply elem_of_cons in Hin as [[= -> ->]|Hin]; [done|]. auto.
Qed.

Lemma price_of_perm ps ps' cp : ps ≡ₚ ps' → NoDup ps.*1 → price_of ps cp = price_of ps' cp.
Proof.
  intros Hp Hnd. assert (Hnd' : NoDup ps'.*1) by (by rewrite <- Hp).
  destruct (price_of ps cp) as [z|] eqn:E.
  - symmetry. apply price_of_elem_Some; [done|]. rewrite <- Hp. by apply price_of_Some_elem.
  - destruct (price_of ps' cp) as [z'|] eqn:E'; [|done].
    apply price_of_Some_elem in E'. rewrite <- Hp in E'.
    by rewrite (price_of_elem_Some _ _ _ Hnd E') in E.
Qed.

(* provider maps whose entries agree up to the order of their (distinct-id) price entries *)
Definition prov_rel (P P' : gmap N (list (N * Z))) : Prop :=
  ∀ a, match P !! a, P' !! a with
       | Some ps, Some ps' => ps ≡ₚ ps' ∧ NoDup ps.*1
       | None, None => True
       | _, _ => False
       end.

Lemma eff_dec_perm v v' : vote_entries_perm v v' → dec_perm (eff_dec v) (eff_dec v').
Proof.
  intros (_ & _ & He & _ & _ & Hd). unfold eff_dec. rewrite <- He.
  destruct (v_ext_empty v); [|done]. cbn. split; [done|]. split; [done|constructor].
Qed.

Lemma add_vote_rel P P' v v' : prov_rel P P' → vote_entries_perm v v' → prov_rel (add_vote P v) (add_vote P' v').
Proof.
  intros HP Hv. pose proof (eff_dec_perm _ _ Hv) as Hd. destruct Hv as (Ha & _).
  unfold add_vote. destruct (eff_dec v) as [[b ps]|], (eff_dec v') as [[b' ps']|]; cbn in Hd; try done.
  destruct Hd as (<- & Hp & Hnd). destruct b; [|done]. rewrite <- Ha.
  intros a. destruct (decide (v_addr v = a)) as [->|Hne].
  - by rewrite !lookup_insert.
  - rewrite !lookup_insert_ne by done. apply HP.
Qed.

Lemma providers_rel votes votes' : Forall2 vote_entries_perm votes votes' → prov_rel (providers votes) (providers votes').
Proof.
  unfold providers. assert (H0 : prov_rel ∅ ∅) by (intros a; by rewrite !lookup_empty).
  revert H0. generalize (∅ : gmap N (list (N * Z))) at 1 3. generalize (∅ : gmap N (list (N * Z))).
  intros P' P HP H. revert P P' HP. induction H as [|v v' votes votes' Hv _ IH]; intros P P' HP; [done|].
  cbn. apply IH. by apply add_vote_rel.
Qed.

Lemma contributors_rel m P P' cp : prov_rel P P' → contributors m P cp = contributors m P' cp.
Proof.
  intros HP. unfold contributors. induction (map_to_list m) as [|kv l IH]; [done|]. cbn.
  specialize (HP kv.1). destruct (P !! kv.1) as [ps|], (P' !! kv.1) as [ps'|]; try done; try (by rewrite IH).
  destruct HP as [Hp Hnd]. rewrite (price_of_perm _ _ cp Hp Hnd). by rewrite IH.
Qed.

Lemma agg_price_rel s P P' cp : prov_rel P P' → agg_price s P cp = agg_price s P' cp.
Proof. intros HP. unfold agg_price. by rewrite (contributors_rel _ _ _ _ HP). Qed.

Lemma vve_loop_entries m votes votes' sum :
  Forall2 vote_entries_perm votes votes' → vve_loop m votes sum = vve_loop m votes' sum.
Proof.
  intros H. revert sum. induction H as [|v v' votes votes' (Ha & Hc & He & Hs & Ho & _) _ IH]; intros sum; [done|].
  cbn [vve_loop]. rewrite <- Ha, <- Hc, <- He, <- Hs, <- Ho.
  destruct (tokens_of m (v_addr v)); [|done].
  repeat (match goal with |- context[if ?c then _ else _] => destruct c end; try done).
Qed.

Lemma all_decode_entries votes votes' : Forall2 vote_entries_perm votes votes' → all_decode votes = all_decode votes'.
Proof.
  unfold all_decode. induction 1 as [|v v' votes votes' Hv _ IH]; [done|]. cbn. rewrite IH. f_equal.
  apply eff_dec_perm in Hv. destruct (eff_dec v) as [[? ?]|], (eff_dec v') as [[? ?]|]; cbn in Hv; try done.
Qed.

(* the whole update *)
Lemma update_oracle_ext s blk sender height votes votes' :
  validate_ves (hset s) votes = validate_ves (hset s) votes' →
  all_decode votes = all_decode votes' →
  (∀ cp, agg_price s (providers votes) cp = agg_price s (providers votes') cp) →
  update_oracle s blk sender height (Some votes) = update_oracle s blk sender height (Some votes').
Proof.
  intros Hv Hd Ha. unfold update_oracle. rewrite Hv, Hd, (Ha ts_pair).
  destruct sender; [|done]. destruct (height =? 0)%N; [done|]. destruct (negb _); [done|].
  destruct (info s); [|done]. destruct (negb _); [done|]. destruct (hheight s); [|done].
  destruct (_ <? _); [done|]. destruct (negb _); [done|]. destruct (negb _); [done|].
  destruct (agg_price s (providers votes') ts_pair); [|done].
  rewrite (write_ok_ext _ _ _ _ Ha), (write_quotes_ext _ _ _ _ _ Ha). done.
Qed.

Lemma c18_entries_order s blk sender height votes votes' :
  Forall2 vote_entries_perm votes votes' →
  update_oracle s blk sender height (Some votes) = update_oracle s blk sender height (Some votes').
Proof.
  intros H. apply update_oracle_ext.
  - unfold validate_ves. by rewrite (vve_loop_entries _ _ _ _ H).
  - by apply all_decode_entries.
  - intros cp. apply agg_price_rel. by apply providers_rel.
Qed.

(* ---------------------------------------------------------------------------------------- *)
(* B. order of the commit's entries                                                           *)

Lemma wrap64_idemp_add a b : wrap64 (wrap64 a + b) = wrap64 (a + b).
Proof.
  unfold wrap64. f_equal.
  replace ((a + two63) mod two64 - two63 + b + two63) with ((a + two63) mod two64 + b) by lia.
  rewrite Zplus_mod_idemp_l. f_equal. lia.
Qed.

(* one entry of ValidateVoteExtensions: error / skipped / power added *)
Definition vve_class (m : gmap N (N * Z)) (v : vote) : option (option Z) :=
  match tokens_of m (v_addr v) with
  | None => Some None
  | Some p =>
      if v_commit v && v_sig_empty v then None else
      if negb (v_commit v) && negb (v_ext_empty v) then None else
      if negb (v_commit v) && negb (v_sig_empty v) then None else
      if negb (v_commit v) then Some None else
      if negb (v_sig_ok v) then None else
      if negb (fits64 p) then None else Some (Some p)
  end.

Lemma vve_loop_cons m v l sum :
  vve_loop m (v :: l) sum =
    match vve_class m v with
    | None => None
    | Some None => vve_loop m l sum
    | Some (Some p) => vve_loop m l (wrap64 (sum + p))
    end.
Proof.
  cbn [vve_loop]. unfold vve_class. destruct (tokens_of m (v_addr v)); [|done].
  repeat (match goal with |- context[if ?c then _ else _] => destruct c end; try done).
Qed.

Lemma vve_loop_perm m votes votes' : votes ≡ₚ votes' → ∀ sum, vve_loop m votes sum = vve_loop m votes' sum.
Proof.
  induction 1 as [|v l l' _ IH|v u l|l1 l2 l3 _ IH1 _ IH2]; intros sum; [done| | |by rewrite IH1].
  - rewrite !vve_loop_cons. destruct (vve_class m v) as [[p|]|]; auto.
  - destruct (vve_class m v) as [[p|]|] eqn:Ev, (vve_class m u) as [[q|]|] eqn:Eu;
      do 3 (rewrite ?vve_loop_cons, ?Ev, ?Eu); try done.
    rewrite !wrap64_idemp_add. f_equal. f_equal. lia.
Qed.

Lemma all_decode_perm votes votes' : votes ≡ₚ votes' → all_decode votes = all_decode votes'.
Proof.
  unfold all_decode. induction 1 as [|v l l' _ IH|v u l|l1 l2 l3 _ IH1 _ IH2]; cbn; [done|by rewrite IH| |congruence].
  rewrite !andb_assoc. f_equal. apply andb_comm.
Qed.

Lemma fold_add_vote_agree l a (P P' : gmap N (list (N * Z))) :
  P !! a = P' !! a → fold_left add_vote l P !! a = fold_left add_vote l P' !! a.
Proof.
  revert P P'. induction l as [|u l IH]; intros P P' H; [done|]. cbn. apply IH. unfold add_vote.
  destruct (eff_dec u) as [[[] ps]|]; try done.
  destruct (decide (v_addr u = a)) as [->|Hne]; [by rewrite !lookup_insert|by rewrite !lookup_insert_ne].
Qed.

(* the provider entry of a validator depends only on that validator's own entries, in their order *)
Lemma fold_add_vote_filter votes a P :
  fold_left add_vote votes P !! a = fold_left add_vote (filter (λ v, v_addr v = a) votes) P !! a.
Proof.
  revert P. induction votes as [|u l IH]; intros P; [done|]. rewrite filter_cons. cbn [fold_left].
  destruct (decide (v_addr u = a)) as [Ha|Hne]; [by cbn; rewrite IH|].
  rewrite IH. apply fold_add_vote_agree. unfold add_vote.
  destruct (eff_dec u) as [[[] ps]|]; try done. by rewrite lookup_insert_ne.
Qed.

Lemma providers_same_order votes votes' : same_validator_order votes votes' → providers votes = providers votes'.
Proof.
  intros [_ H]. apply map_eq. intros a. unfold providers.
  rewrite (fold_add_vote_filter votes), (fold_add_vote_filter votes'). by rewrite H.
Qed.

Lemma c18_votes_order s blk sender height votes votes' :
  same_validator_order votes votes' →
  update_oracle s blk sender height (Some votes) = update_oracle s blk sender height (Some votes').
Proof.
  intros H. apply update_oracle_ext.
  - unfold validate_ves. by rewrite (vve_loop_perm _ _ _ (proj1 H)).
  - apply all_decode_perm, H.
  - intros cp. by rewrite (providers_same_order _ _ H).
Qed.

(* both together: entries of each price map in any order, then any reordering of the commit that
   keeps each validator's own entries in their relative order *)
Lemma c18_oracle_vote_order_independent s blk sender height votes votes1 votes2 :
  Forall2 vote_entries_perm votes votes1 → same_validator_order votes1 votes2 →
  update_oracle s blk sender height (Some votes) = update_oracle s blk sender height (Some votes2).
Proof. intros H1 H2. rewrite (c18_entries_order _ _ _ _ _ _ H1). by apply c18_votes_order. Qed.

(* reordering the entries of DISTINCT validators is always allowed *)
Lemma filter_addr_short l a :
  NoDup (v_addr <$> l) → (length (filter (λ v, v_addr v = a) l) <= 1)%nat.
Proof.
  induction l as [|y l IH]; [cbn; lia|]. rewrite fmap_cons. intros [Hni Hl]%NoDup_cons.
  rewrite filter_cons. destruct (decide (v_addr y = a)) as [Hy|Hy]; [|auto].
  destruct (filter (λ v, v_addr v = a) l) as [|z t] eqn:E; [cbn; lia|].
  exfalso. assert (Hz : z ∈ filter (λ v, v_addr v = a) l) by (rewrite E; left).
  apply elem_of_list_filter in Hz as [Hza Hz]. apply Hni. rewrite Hy, <- Hza.
  apply elem_of_list_fmap. eauto.
Qed.

Lemma same_validator_order_distinct votes votes' :
  votes ≡ₚ votes' → NoDup (v_addr <$> votes) → same_validator_order votes votes'.
Proof.
  intros Hp Hnd. split; [done|]. intros a.
  assert (Hnd' : NoDup (v_addr <$> votes')) by (by rewrite <- Hp).
  pose proof (filter_addr_short votes a Hnd) as H1. pose proof (filter_addr_short votes' a Hnd') as H2.
  assert (Hf : filter (λ v, v_addr v = a) votes ≡ₚ filter (λ v, v_addr v = a) votes') by (by rewrite Hp).
  destruct (filter (λ v, v_addr v = a) votes) as [|x [|x2 t]]; cbn in H1; [| |lia].
  - by apply Permutation_nil_l in Hf.
  - by apply Permutation_singleton_l in Hf.
Qed.
