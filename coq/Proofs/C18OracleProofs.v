(* C18 over the oracle path: the result of an oracle update does not depend on any of the
   iteration orders the Go code leaves to the runtime (price-map entries of a vote extension,
   entries of different validators in the provider map, contributions inside the median, the
   pairs visited by WritePrices), and the formal record of defect D15 (gas = number of
   currency-pair walks depended on map order and process history before 629119a). *)
From stdpp Require Import gmap numbers list.
From Coq Require Import ZArith Lia.
Require Import Model.Oracle Model.OracleOrder Proofs.OracleLemmas Proofs.C15Proofs Proofs.C15Median.
Local Open Scope Z_scope.

(* ---------------------------------------------------------------------------------------- *)
(* A. price entries of one vote                                                               *)

Lemma price_of_Some_elem ps cp z : price_of ps cp = Some z → (cp, z) ∈ ps.
Proof.
  unfold price_of. induction ps as [|[k x] ps IH]; cbn; [done|].
  destruct (k =? cp)%N eqn:E; cbn.
  - apply N.eqb_eq in E as ->. intros [= ->]. left.
  - intros H. right. auto.
Qed.

Lemma price_of_elem_Some ps cp z : NoDup ps.*1 → (cp, z) ∈ ps → price_of ps cp = Some z.
Proof.
  unfold price_of. induction ps as [|[k x] ps IH]; cbn; [by intros _ ?%elem_of_nil|].
  intros [Hni Hnd]%NoDup_cons Hin. destruct (k =? cp)%N eqn:E; cbn.
  - apply N.eqb_eq in E as ->. apply elem_of_cons in Hin as [[= ->]|Hin]; [done|].
    exfalso. apply Hni. apply elem_of_list_fmap. by exists (cp, z).
  - apply N.eqb_neq in E. apply elem_of_cons in Hin as [[= -> ->]|Hin]; [done|]. auto.
Qed.

Lemma price_of_perm ps ps' cp : ps ≡ₚ ps' → NoDup ps.*1 → price_of ps cp = price_of ps' cp.
Proof.
  intros Hp Hnd. assert (Hnd' : NoDup ps'.*1) by (by rewrite <- Hp).
  destruct (price_of ps cp) as [z|] eqn:E.
  - symmetry. apply price_of_elem_Some; [done|]. rewrite <- Hp. by apply price_of_Some_elem.
  - destruct (price_of ps' cp) as [z'|] eqn:E'; [|done].
    apply price_of_Some_elem in E'. rewrite <- Hp in E'.
    by rewrite (price_of_elem_Some _ _ _ Hnd E') in E.
Qed.

(* provider maps whose entries agree up to the order of their (distinct-id) price entries *)
Definition prov_rel (P P' : gmap N (list (N * Z))) : Prop :=
  ∀ a, match P !! a, P' !! a with
       | Some ps, Some ps' => ps ≡ₚ ps' ∧ NoDup ps.*1
       | None, None => True
       | _, _ => False
       end.

Lemma eff_dec_perm v v' : vote_entries_perm v v' → dec_perm (eff_dec v) (eff_dec v').
Proof.
  intros (_ & _ & He & _ & _ & Hd). unfold eff_dec. rewrite <- He.
  destruct (v_ext_empty v); [|done]. cbn. split; [done|]. split; [done|constructor].
Qed.

Lemma add_vote_rel P P' v v' : prov_rel P P' → vote_entries_perm v v' → prov_rel (add_vote P v) (add_vote P' v').
Proof.
  intros HP Hv. pose proof (eff_dec_perm _ _ Hv) as Hd. destruct Hv as (Ha & _).
  unfold add_vote. destruct (eff_dec v) as [[b ps]|], (eff_dec v') as [[b' ps']|]; cbn in Hd; try done.
  destruct Hd as (<- & Hp & Hnd). destruct b; [|done]. rewrite <- Ha.
  intros a. destruct (decide (v_addr v = a)) as [->|Hne].
  - by rewrite !lookup_insert.
  - rewrite !lookup_insert_ne by done. apply HP.
Qed.

Lemma providers_rel votes votes' : Forall2 vote_entries_perm votes votes' → prov_rel (providers votes) (providers votes').
Proof.
  unfold providers. assert (H0 : prov_rel ∅ ∅) by (intros a; by rewrite !lookup_empty).
  revert H0. generalize (∅ : gmap N (list (N * Z))) at 1 3. generalize (∅ : gmap N (list (N * Z))).
  intros P' P HP H. revert P P' HP. induction H as [|v v' votes votes' Hv _ IH]; intros P P' HP; [done|].
  cbn. apply IH. by apply add_vote_rel.
Qed.

Lemma contributors_rel m P P' cp : prov_rel P P' → contributors m P cp = contributors m P' cp.
Proof.
  intros HP. unfold contributors. induction (map_to_list m) as [|kv l IH]; [done|]. cbn.
  specialize (HP kv.1). destruct (P !! kv.1) as [ps|], (P' !! kv.1) as [ps'|]; try done; try (by rewrite IH).
  destruct HP as [Hp Hnd]. rewrite (price_of_perm _ _ cp Hp Hnd). by rewrite IH.
Qed.

Lemma agg_price_rel s P P' cp : prov_rel P P' → agg_price s P cp = agg_price s P' cp.
Proof. intros HP. unfold agg_price. by rewrite (contributors_rel _ _ _ _ HP). Qed.

Lemma vve_loop_entries m votes votes' sum :
  Forall2 vote_entries_perm votes votes' → vve_loop m votes sum = vve_loop m votes' sum.
Proof.
  intros H. revert sum. induction H as [|v v' votes votes' (Ha & Hc & He & Hs & Ho & _) _ IH]; intros sum; [done|].
  cbn [vve_loop]. rewrite <- Ha, <- Hc, <- He, <- Hs, <- Ho.
  destruct (tokens_of m (v_addr v)); [|done].
  repeat (match goal with |- context[if ?c then _ else _] => destruct c end; try done).
Qed.

Lemma all_decode_entries votes votes' : Forall2 vote_entries_perm votes votes' → all_decode votes = all_decode votes'.
Proof.
  unfold all_decode. induction 1 as [|v v' votes votes' Hv _ IH]; [done|]. cbn. rewrite IH. f_equal.
  apply eff_dec_perm in Hv. destruct (eff_dec v) as [[? ?]|], (eff_dec v') as [[? ?]|]; cbn in Hv; try done.
Qed.

(* the whole update *)
Lemma update_oracle_ext s blk sender height votes votes' :
  validate_ves (hset s) votes = validate_ves (hset s) votes' →
  all_decode votes = all_decode votes' →
  (∀ cp, agg_price s (providers votes) cp = agg_price s (providers votes') cp) →
  update_oracle s blk sender height (Some votes) = update_oracle s blk sender height (Some votes').
Proof.
  intros Hv Hd Ha. unfold update_oracle. rewrite Hv, Hd, (Ha ts_pair).
  destruct sender; [|done]. destruct (height =? 0)%N; [done|]. destruct (negb _); [done|].
  destruct (info s); [|done]. destruct (negb _); [done|]. destruct (hheight s); [|done].
  destruct (_ <? _); [done|]. destruct (negb _); [done|]. destruct (negb _); [done|].
  destruct (agg_price s (providers votes') ts_pair); [|done].
  rewrite (write_ok_ext _ _ _ _ Ha), (write_quotes_ext _ _ _ _ _ Ha). done.
Qed.

Lemma c18_entries_order s blk sender height votes votes' :
  Forall2 vote_entries_perm votes votes' →
  update_oracle s blk sender height (Some votes) = update_oracle s blk sender height (Some votes').
Proof.
  intros H. apply update_oracle_ext.
  - unfold validate_ves. by rewrite (vve_loop_entries _ _ _ _ H).
  - by apply all_decode_entries.
  - intros cp. apply agg_price_rel. by apply providers_rel.
Qed.

(* ---------------------------------------------------------------------------------------- *)
(* B. order of the commit's entries                                                           *)

Lemma wrap64_idemp_add a b : wrap64 (wrap64 a + b) = wrap64 (a + b).
Proof.
  unfold wrap64. f_equal.
  replace ((a + two63) mod two64 - two63 + b + two63) with ((a + two63) mod two64 + b) by lia.
  rewrite Zplus_mod_idemp_l. f_equal. lia.
Qed.

(* one entry of ValidateVoteExtensions: error / skipped / power added *)
Definition vve_class (m : gmap N (N * Z)) (v : vote) : option (option Z) :=
  match tokens_of m (v_addr v) with
  | None => Some None
  | Some p =>
      if v_commit v && v_sig_empty v then None else
      if negb (v_commit v) && negb (v_ext_empty v) then None else
      if negb (v_commit v) && negb (v_sig_empty v) then None else
      if negb (v_commit v) then Some None else
      if negb (v_sig_ok v) then None else
      if negb (fits64 p) then None else Some (Some p)
  end.

Lemma vve_loop_cons m v l sum :
  vve_loop m (v :: l) sum =
    match vve_class m v with
    | None => None
    | Some None => vve_loop m l sum
    | Some (Some p) => vve_loop m l (wrap64 (sum + p))
    end.
Proof.
  cbn [vve_loop]. unfold vve_class. destruct (tokens_of m (v_addr v)); [|done].
  repeat (match goal with |- context[if ?c then _ else _] => destruct c end; try done).
Qed.

Lemma vve_loop_perm m votes votes' : votes ≡ₚ votes' → ∀ sum, vve_loop m votes sum = vve_loop m votes' sum.
Proof.
  induction 1 as [|v l l' _ IH|v u l|l1 l2 l3 _ IH1 _ IH2]; intros sum; [done| | |by rewrite IH1].
  - rewrite !vve_loop_cons. destruct (vve_class m v) as [[p|]|]; auto.
  - destruct (vve_class m v) as [[p|]|] eqn:Ev, (vve_class m u) as [[q|]|] eqn:Eu;
      do 3 (rewrite ?vve_loop_cons, ?Ev, ?Eu); try done.
    rewrite !wrap64_idemp_add. f_equal. f_equal. lia.
Qed.

Lemma all_decode_perm votes votes' : votes ≡ₚ votes' → all_decode votes = all_decode votes'.
Proof.
  unfold all_decode. induction 1 as [|v l l' _ IH|v u l|l1 l2 l3 _ IH1 _ IH2]; cbn; [done|by rewrite IH| |congruence].
  rewrite !andb_assoc. f_equal. apply andb_comm.
Qed.

Lemma fold_add_vote_agree l a (P P' : gmap N (list (N * Z))) :
  P !! a = P' !! a → fold_left add_vote l P !! a = fold_left add_vote l P' !! a.
Proof.
  revert P P'. induction l as [|u l IH]; intros P P' H; [done|]. cbn. apply IH. unfold add_vote.
  destruct (eff_dec u) as [[[] ps]|]; try done.
  destruct (decide (v_addr u = a)) as [->|Hne]; [by rewrite !lookup_insert|by rewrite !lookup_insert_ne].
Qed.

(* the provider entry of a validator depends only on that validator's own entries, in their order *)
Lemma fold_add_vote_filter votes a P :
  fold_left add_vote votes P !! a = fold_left add_vote (filter (λ v, v_addr v = a) votes) P !! a.
Proof.
  revert P. induction votes as [|u l IH]; intros P; [done|]. rewrite filter_cons. cbn [fold_left].
  destruct (decide (v_addr u = a)) as [Ha|Hne]; [by cbn; rewrite IH|].
  rewrite IH. apply fold_add_vote_agree. unfold add_vote.
  destruct (eff_dec u) as [[[] ps]|]; try done. by rewrite lookup_insert_ne.
Qed.

Lemma providers_same_order votes votes' : same_validator_order votes votes' → providers votes = providers votes'.
Proof.
  intros [_ H]. apply map_eq. intros a. unfold providers.
  rewrite (fold_add_vote_filter votes), (fold_add_vote_filter votes'). by rewrite H.
Qed.

Lemma c18_votes_order s blk sender height votes votes' :
  same_validator_order votes votes' →
  update_oracle s blk sender height (Some votes) = update_oracle s blk sender height (Some votes').
Proof.
  intros H. apply update_oracle_ext.
  - unfold validate_ves. by rewrite (vve_loop_perm _ _ _ (proj1 H)).
  - apply all_decode_perm, H.
  - intros cp. by rewrite (providers_same_order _ _ H).
Qed.

(* both together: entries of each price map in any order, then any reordering of the commit that
   keeps each validator's own entries in their relative order *)
Lemma c18_oracle_vote_order_independent s blk sender height votes votes1 votes2 :
  Forall2 vote_entries_perm votes votes1 → same_validator_order votes1 votes2 →
  update_oracle s blk sender height (Some votes) = update_oracle s blk sender height (Some votes2).
Proof. intros H1 H2. rewrite (c18_entries_order _ _ _ _ _ _ H1). by apply c18_votes_order. Qed.

(* reordering the entries of DISTINCT validators is always allowed *)
Lemma filter_addr_short l a :
  NoDup (v_addr <$> l) → (length (filter (λ v, v_addr v = a) l) <= 1)%nat.
Proof.
  induction l as [|y l IH]; [cbn; lia|]. rewrite fmap_cons. intros [Hni Hl]%NoDup_cons.
  rewrite filter_cons. destruct (decide (v_addr y = a)) as [Hy|Hy]; [|auto].
  destruct (filter (λ v, v_addr v = a) l) as [|z t] eqn:E; [cbn; lia|].
  exfalso. assert (Hz : z ∈ filter (λ v, v_addr v = a) l) by (rewrite E; left).
  apply elem_of_list_filter in Hz as [Hza Hz]. apply Hni. rewrite Hy, <- Hza.
  apply elem_of_list_fmap. eauto.
Qed.

Lemma same_validator_order_distinct votes votes' :
  votes ≡ₚ votes' → NoDup (v_addr <$> votes) → same_validator_order votes votes'.
Proof.
  intros Hp Hnd. split; [done|]. intros a.
  assert (Hnd' : NoDup (v_addr <$> votes')) by (by rewrite <- Hp).
  pose proof (filter_addr_short votes a Hnd) as H1. pose proof (filter_addr_short votes' a Hnd') as H2.
  assert (Hf : filter (λ v, v_addr v = a) votes ≡ₚ filter (λ v, v_addr v = a) votes') by (by rewrite Hp).
  destruct (filter (λ v, v_addr v = a) votes) as [|x [|x2 t]]; cbn in H1; [| |lia].
  - by apply Permutation_nil_l in Hf.
  - by apply Permutation_singleton_l in Hf.
Qed.

(* ---------------------------------------------------------------------------------------- *)
(* C. WritePrices: the order in which the pairs are visited                                    *)

Section write.
  Context (agg : N → option Z) (ts : Z) (blk : N).

  Definition pair_ok (q : gmap N (option quote)) (cp : N) : bool :=
    match agg cp, q !! cp with
    | Some _, Some (Some old) => q_ts old <? ts
    | _, _ => true
    end.

  (* the store after the pairs of [visit] have been handled *)
  Definition upd (visit : list N) (q : gmap N (option quote)) : gmap N (option quote) :=
    map_imap (λ cp old, match agg cp with
                        | Some p => if bool_decide (cp ∈ visit) then Some (Some (MkQuote p ts blk)) else Some old
                        | None => Some old
                        end) q.

  Lemma upd_lookup visit q k :
    upd visit q !! k =
      match q !! k with
      | None => None
      | Some old => match agg k with
                    | Some p => if bool_decide (k ∈ visit) then Some (Some (MkQuote p ts blk)) else Some old
                    | None => Some old
                    end
      end.
  Proof.
    unfold upd. rewrite map_lookup_imap. destruct (q !! k) as [old|]; cbn; [|done].
    destruct (agg k); [|done]. by destruct (bool_decide (k ∈ visit)).
  Qed.

  Lemma write_prices_seq_spec visit q :
    NoDup visit → (∀ cp, cp ∈ visit → is_Some (q !! cp)) →
    write_prices_seq visit q agg ts blk =
      if forallb (pair_ok q) visit then Some (upd visit q) else None.
  Proof.
    revert q. induction visit as [|cp rest IH]; intros q Hnd Hex.
    { cbn. f_equal. apply map_eq. intros k. rewrite upd_lookup. destruct (q !! k); [|done].
      destruct (agg k); [|done]. rewrite bool_decide_eq_false_2; [done|]. apply not_elem_of_nil. }
    apply NoDup_cons in Hnd as [Hni Hnd]. cbn [write_prices_seq forallb]. unfold pair_ok at 1.
    destruct (agg cp) as [p|] eqn:Ha.
    - destruct (Hex cp ltac:(left)) as [x Hx]. rewrite Hx.
      set (q' := <[cp := Some (MkQuote p ts blk)]> q).
      assert (Hrest : write_prices_seq rest q' agg ts blk = if forallb (pair_ok q) rest then Some (upd (cp :: rest) q) else None).
      { rewrite IH; [|done|].
        - assert (forallb (pair_ok q') rest = forallb (pair_ok q) rest) as ->.
          { clear -Hni. induction rest as [|k rest IH]; [done|]. cbn. apply not_elem_of_cons in Hni as [Hk Hni].
            rewrite IH by done. f_equal. unfold pair_ok, q'. by rewrite lookup_insert_ne. }
          destruct (forallb (pair_ok q) rest); [|done]. f_equal. apply map_eq. intros k. rewrite !upd_lookup.
          destruct (decide (k = cp)) as [->|Hk].
          + unfold q'. rewrite lookup_insert, Hx, Ha. rewrite (bool_decide_eq_false_2 _ Hni).
            by rewrite bool_decide_eq_true_2 by left.
          + unfold q'. rewrite lookup_insert_ne by done. destruct (q !! k); [|done]. destruct (agg k); [|done].
            destruct (decide (k ∈ rest)) as [Hin|Hin].
            * rewrite !bool_decide_eq_true_2; [done|by right|done].
            * rewrite !bool_decide_eq_false_2; [done| |done]. by intros [?|?]%elem_of_cons.
        - intros k Hk. unfold q'. destruct (decide (k = cp)) as [->|Hne]; [by rewrite lookup_insert|].
          rewrite lookup_insert_ne by done. apply Hex. by right. }
      destruct x as [old|]; [|by cbn].
      destruct (q_ts old <? ts); [by cbn|done].
    - cbn [andb]. rewrite IH; [|done|intros k Hk; apply Hex; by right].
      destruct (forallb (pair_ok q) rest); [|done]. f_equal. apply map_eq. intros k. rewrite !upd_lookup.
      destruct (q !! k); [|done]. destruct (agg k) eqn:Hk; [|done].
      destruct (decide (k ∈ rest)) as [Hin|Hin].
      + rewrite !bool_decide_eq_true_2; [done|by right|done].
      + rewrite !bool_decide_eq_false_2; [done| |done]. intros [->|?]%elem_of_cons; [congruence|done].
  Qed.

  (* visiting exactly the existing pairs, in any order, gives the model's all-or-nothing result *)
  Lemma write_prices_seq_model visit q :
    NoDup visit → (∀ cp, cp ∈ visit ↔ is_Some (q !! cp)) →
    write_prices_seq visit q agg ts blk =
      if write_ok q agg ts then Some (write_quotes q agg ts blk) else None.
  Proof.
    intros Hnd Hex. rewrite write_prices_seq_spec; [|done|intros; by apply Hex].
    assert (Hb : forallb (pair_ok q) visit = write_ok q agg ts).
    { apply eq_true_iff_eq. unfold write_ok. rewrite !forallb_forall. split.
      - intros H [cp x] Hin. apply elem_of_list_In, elem_of_map_to_list in Hin. cbn.
        specialize (H cp). unfold pair_ok in H. rewrite Hin in H. destruct (agg cp); [|done].
        destruct x; [|done]. apply H. apply elem_of_list_In, Hex. eauto.
      - intros H cp Hin. apply elem_of_list_In, Hex in Hin as [x Hx]. unfold pair_ok. rewrite Hx.
        specialize (H (cp, x)). cbn in H. destruct (agg cp); [|done]. destruct x; [|done].
        apply H. by apply elem_of_list_In, elem_of_map_to_list. }
    rewrite Hb. destruct (write_ok q agg ts); [|done]. f_equal. apply map_eq. intros k.
    rewrite upd_lookup, write_quotes_lookup. destruct (q !! k) eqn:Hk; [|done]. destruct (agg k); [|done].
    rewrite bool_decide_eq_true_2; [done|]. apply Hex. eauto.
  Qed.

  Lemma c18_write_prices_order_independent visit1 visit2 q :
    NoDup visit1 → NoDup visit2 →
    (∀ cp, cp ∈ visit1 ↔ is_Some (q !! cp)) → (∀ cp, cp ∈ visit2 ↔ is_Some (q !! cp)) →
    write_prices_seq visit1 q agg ts blk = write_prices_seq visit2 q agg ts blk.
  Proof. intros. by rewrite !write_prices_seq_model. Qed.
End write.

(* ---------------------------------------------------------------------------------------- *)
(* D. the stake-weighted median: order of the contributions                                   *)

Lemma weight_upto_perm cs cs' q : cs ≡ₚ cs' → weight_upto cs q = weight_upto cs' q.
Proof.
  induction 1 as [|c l l' _ IH|c d l|l1 l2 l3 _ IH1 _ IH2]; [done| | |congruence].
  - by rewrite !weight_upto_cons, IH.
  - rewrite !weight_upto_cons. lia.
Qed.

Lemma weight_total_perm cs cs' : cs ≡ₚ cs' → weight_total cs = weight_total cs'.
Proof.
  induction 1 as [|c l l' _ IH|c d l|l1 l2 l3 _ IH1 _ IH2]; rewrite ?weight_total_cons; [done|lia|lia|congruence].
Qed.

Lemma median_scan_is_Some mid acc l : l ≠ [] → is_Some (median_scan mid acc l).
Proof.
  revert acc. induction l as [|x l IH]; intros acc Hne; [done|]. cbn [median_scan].
  destruct l as [|y l]; [eauto|]. destruct (mid <=? acc + x.1); [eauto|]. by apply IH.
Qed.

Lemma insert_price_nonempty x l : insert_price x l ≠ [].
Proof. destruct l as [|y l]; cbn; [done|]. by destruct (x.2 <=? y.2). Qed.

Lemma median_is_Some cs : cs ≠ [] → is_Some (median cs).
Proof.
  intros Hne. unfold median. apply median_scan_is_Some. destruct cs as [|c cs]; [done|].
  cbn. apply insert_price_nonempty.
Qed.

(* the VALUE of the median does not depend on the order of the contributions (equal prices with
   different weights may be sorted differently; the value is characterised by C15's median_spec) *)
Lemma c18_median_order_independent cs cs' :
  cs ≡ₚ cs' → (∀ c, c ∈ cs → 0 <= c.1.2) → median cs = median cs'.
Proof.
  intros Hp Hw. destruct cs as [|c0 cs0].
  { apply Permutation_nil_l in Hp as ->. done. }
  assert (Hw' : ∀ c, c ∈ cs' → 0 <= c.1.2) by (intros c Hc; apply Hw; by rewrite Hp).
  assert (Hne' : cs' ≠ []) by (intros ->; by apply Permutation_nil_r in Hp).
  destruct (median_is_Some (c0 :: cs0) ltac:(done)) as [p Hm]. destruct (median_is_Some cs' Hne') as [p' Hm'].
  rewrite Hm, Hm'. f_equal.
  destruct (median_spec _ _ Hw Hm) as ((c & Hc & Hcp) & H2 & H3).
  destruct (median_spec _ _ Hw' Hm') as ((c' & Hc' & Hcp') & H2' & H3').
  rewrite <- (weight_total_perm _ _ Hp) in *.
  destruct (Z.lt_trichotomy p p') as [Hlt|[->|Hgt]]; [exfalso|done|exfalso].
  - rewrite Hp in Hc. specialize (H3' c Hc ltac:(lia)). rewrite <- (weight_upto_perm _ _ _ Hp), Hcp in H3'. lia.
  - rewrite <- Hp in Hc'. specialize (H3 c' Hc' ltac:(lia)). rewrite Hcp', (weight_upto_perm _ _ _ Hp) in H3. lia.
Qed.

(* with a negative weight the value does depend on the order: why the hypothesis is there *)
Example median_order_negative_weight :
  median [(1%N, 5, 1); (2%N, -5, 1); (3%N, 3, 2)] = Some 1 ∧
  median [(2%N, -5, 1); (1%N, 5, 1); (3%N, 3, 2)] = Some 2.
Proof. split; vm_compute; reflexivity. Qed.

(* the aggregated price of a pair computed from the contributions in ANY order (the Go code ranges
   over the provider map) *)
Definition agg_of (total : Z) (cs : list (N * Z * Z)) : option Z :=
  if threshold <=? dec_quo (weight_total cs) total then median cs else None.

Lemma agg_price_agg_of s prov cp :
  agg_price s prov cp = match quotes s !! cp with
                        | None => None
                        | Some _ => agg_of (total_tokens (hset s)) (contributors (hset s) prov cp)
                        end.
Proof. done. Qed.

Lemma c18_agg_order_independent total cs cs' :
  cs ≡ₚ cs' → (∀ c, c ∈ cs → 0 <= c.1.2) → agg_of total cs = agg_of total cs'.
Proof.
  intros Hp Hw. unfold agg_of. rewrite (weight_total_perm _ _ Hp).
  destruct (threshold <=? _); [|done]. by apply c18_median_order_independent.
Qed.

(* ---------------------------------------------------------------------------------------- *)
(* E. D15: currency-pair walks of the id cache (gas)                                          *)

Lemma walks_from_filled pairs ids :
  walks_from true pairs ids = length (filter (λ id, id ∉ pairs) ids).
Proof.
  induction ids as [|id ids IH]; [done|]. cbn [walks_from andb]. rewrite filter_cons.
  destruct (decide (id ∈ pairs)) as [Hin|Hin].
  - rewrite (bool_decide_eq_true_2 _ Hin). rewrite decide_False by (intros ?; done). done.
  - rewrite (bool_decide_eq_false_2 _ Hin). rewrite decide_True by done. cbn. by rewrite IH.
Qed.

(* after the repair the number of walks is the same for every order of the looked-up ids *)
Lemma c18_walks_new_order_independent pairs ids ids' :
  ids ≡ₚ ids' → walks_new pairs ids = walks_new pairs ids'.
Proof. intros Hp. unfold walks_new. rewrite !walks_from_filled. by rewrite Hp. Qed.

(* ... and is a function of the state and the transaction: 1 + the number of unknown ids *)
Lemma walks_new_value pairs ids : walks_new pairs ids = S (length (filter (λ id, id ∉ pairs) ids)).
Proof. unfold walks_new. by rewrite walks_from_filled. Qed.

(* before the repair: two orders of the same ids, and a warm versus a cold cache, differ *)
Lemma c18_walks_old_order_refuted :
  ∃ pairs ids ids', ids ≡ₚ ids' ∧ walks_old false pairs ids ≠ walks_old false pairs ids'.
Proof. exists [1%N], [1%N; 2%N], [2%N; 1%N]. split; [apply Permutation_swap|]. vm_compute. lia. Qed.

Lemma c18_walks_old_history_refuted :
  ∃ pairs ids, walks_old false pairs ids ≠ walks_old true pairs ids.
Proof. exists [1%N], [1%N]. vm_compute. lia. Qed.

(* ---------------------------------------------------------------------------------------- *)
(* non-vacuity                                                                                 *)

Definition ex_votes_perm : list vote :=
  [ MkVote 2%N true false false true (Some (true, [(0%N, 104)]));
    MkVote 9%N true false false false (Some (true, [(1%N, 999); (0%N, 1)]));
    MkVote 1%N true false false true (Some (true, [(1%N, 11); (0%N, 100)]));
    MkVote 3%N false true true false None;
    MkVote 2%N true false false true (Some (true, [(1%N, 13); (0%N, 102)])) ].

(* ex_votes with permuted price entries and reordered entries of different validators (the two
   votes of validator 2 keep their relative order): same accepted result *)
Example ex_reordered_same :
  update_oracle ex_state 12%N (Some 2%N) 8%N (Some ex_votes_perm) =
  update_oracle ex_state 12%N (Some 2%N) 8%N (Some ex_votes) ∧
  is_Some (update_oracle ex_state 12%N (Some 2%N) 8%N (Some ex_votes)).
Proof. split; [vm_compute; reflexivity|]. vm_compute. eauto. Qed.

(* swapping the two votes of validator 2 changes what is written: arbitrary reordering is not invariant *)
Definition ex_votes_swapped : list vote :=
  [ MkVote 1%N true false false true (Some (true, [(0%N, 100); (1%N, 11)]));
    MkVote 2%N true false false true (Some (true, [(0%N, 102); (1%N, 13)]));
    MkVote 2%N true false false true (Some (true, [(0%N, 104)])) ].
Definition ex_votes_swapped' : list vote :=
  [ MkVote 1%N true false false true (Some (true, [(0%N, 100); (1%N, 11)]));
    MkVote 2%N true false false true (Some (true, [(0%N, 104)]));
    MkVote 2%N true false false true (Some (true, [(0%N, 102); (1%N, 13)])) ].
Example ex_same_validator_swap_differs :
  ex_votes_swapped ≡ₚ ex_votes_swapped' ∧
  update_oracle ex_state 12%N (Some 2%N) 8%N (Some ex_votes_swapped) ≠
  update_oracle ex_state 12%N (Some 2%N) 8%N (Some ex_votes_swapped').
Proof. split; [apply perm_skip, perm_swap|]. vm_compute. discriminate. Qed.

Definition ex_agg : N → option Z := λ cp, if (cp =? 0)%N then Some 100 else Some 11.
Example ex_write_seq_orders :
  (∃ m1 m2, write_prices_seq [0%N; 1%N] (quotes ex_state) ex_agg 100 12%N = Some m1 ∧
            write_prices_seq [1%N; 0%N] (quotes ex_state) ex_agg 100 12%N = Some m2 ∧
            m1 !! 1%N = Some (Some (MkQuote 11 100 12%N)) ∧ m2 !! 1%N = Some (Some (MkQuote 11 100 12%N)) ∧
            m1 !! 0%N = Some (Some (MkQuote 100 100 12%N)) ∧ m2 !! 0%N = Some (Some (MkQuote 100 100 12%N))) ∧
  (* a stale pair (stored timestamp 50) rejects everything, whichever pair is visited first *)
  write_prices_seq [0%N; 1%N] (quotes ex_state) ex_agg 50 12%N = None ∧
  write_prices_seq [1%N; 0%N] (quotes ex_state) ex_agg 50 12%N = None.
Proof.
  split; [|split; vm_compute; reflexivity].
  eexists _, _. split; [vm_compute; reflexivity|]. split; [vm_compute; reflexivity|].
  repeat split; vm_compute; reflexivity.
Qed.

(* ---------------------------------------------------------------------------------------- *)
(* corollaries used as statements                                                             *)

Lemma c18_distinct_validators_any_order s blk sender height votes votes' :
  votes ≡ₚ votes' → NoDup (v_addr <$> votes) →
  update_oracle s blk sender height (Some votes) = update_oracle s blk sender height (Some votes').
Proof. intros Hp Hnd. apply c18_votes_order. by apply same_validator_order_distinct. Qed.

Lemma c18_arbitrary_reorder_refuted :
  ∃ s blk sender height votes votes',
    votes ≡ₚ votes' ∧
    update_oracle s blk sender height (Some votes) ≠ update_oracle s blk sender height (Some votes').
Proof.
  exists ex_state, 12%N, (Some 2%N), 8%N, ex_votes_swapped, ex_votes_swapped'. exact ex_same_validator_swap_differs.
Qed.

Lemma c18_median_negative_weight_refuted :
  ∃ cs cs' : list (N * Z * Z), cs ≡ₚ cs' ∧ median cs ≠ median cs'.
Proof.
  exists [(1%N, 5, 1); (2%N, -5, 1); (3%N, 3, 2)], [(2%N, -5, 1); (1%N, 5, 1); (3%N, 3, 2)].
  split; [apply perm_swap|]. destruct median_order_negative_weight as [-> ->]. discriminate.
Qed.
