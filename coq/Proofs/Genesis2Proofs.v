(* C16, L2 half: round trip of the opchild genesis on states satisfying [l2_inv], and the
   initial validator updates returned by InitGenesis. *)
From stdpp Require Import gmap numbers list sorting.
From Coq Require Import ZArith Lia.
Require Import Model.Bytes Model.Bank Model.Valset Model.L2 Model.Genesis1 Model.Genesis2.
Require Import Proofs.Genesis1Lemmas Proofs.Genesis1Proofs.

(* a fold of inserts of a list that is consistent with and covers a map rebuilds the map *)
Lemma foldl_ins_full {K} `{Countable K} {A B} (kf : B → K) (vf : B → A) (M : gmap K A) (l : list B) :
  (∀ x, x ∈ l → M !! kf x = Some (vf x)) →
  (∀ k v, M !! k = Some v → ∃ x, x ∈ l ∧ kf x = k) →
  foldl (λ m x, <[kf x := vf x]> m) ∅ l = M.
Proof.
  intros Hc Hcov. apply map_eq. intros k.
  pose proof (foldl_ins_sub kf vf M ∅ l (map_empty_subseteq _) Hc) as Hsub.
  destruct (M !! k) as [v|] eqn:Hk.
  - destruct (Hcov k v Hk) as (x & Hx & Hkx).
    destruct (foldl_ins_some kf vf ∅ l k) as [v' Hv']; [right; eauto|].
    rewrite Hv'. pose proof (lookup_weaken _ _ _ _ Hv' Hsub). congruence.
  - destruct (foldl (λ m x, <[kf x := vf x]> m) ∅ l !! k) as [v'|] eqn:Hv'; [|done].
    pose proof (lookup_weaken _ _ _ _ Hv' Hsub). congruence.
Qed.

Lemma import_val_fold l : ∀ v,
  vals (foldl import_val v l) = foldl (λ m ov, <[ov.1 := ov.2]> m) (vals v) l ∧
  idx (foldl import_val v l) = foldl (λ m ov, <[v_key ov.2 := ov.1]> m) (idx v) l ∧
  last (foldl import_val v l) = last v.
Proof. induction l as [|x l IH]; intros v; cbn; [done|]. apply (IH (import_val v x)). Qed.

(* the relation between the returned updates and the exported last powers: one update per
   last-power entry, in order, carrying that validator's consensus key and its last power *)
Definition updates_match (v : vstate) (ups : list update) (l : list (N * Z)) : Prop :=
  Forall2 (λ u lp, u.2 = lp.2 ∧ ∃ x, vals v !! lp.1 = Some x ∧ u.1 = v_key x) ups l.

Lemma import_last_fold l : ∀ v ups0,
  (∀ lp, lp ∈ l → is_Some (vals v !! lp.1)) →
  ∃ ups', foldl import_last (Some (v, ups0)) l =
            Some ({| vals := vals v; idx := idx v; last := foldl (λ m lp, <[lp.1 := lp.2]> m) (last v) l |}, ups0 ++ ups') ∧
          updates_match v ups' l.
Proof.
  induction l as [|[op p] l IH]; intros v ups0 Hl.
  { exists []. cbn. rewrite app_nil_r. split; [by destruct v|constructor]. }
  destruct (Hl (op, p)) as [x Hx]; [by left|]. cbn in Hx.
  cbn [foldl]. unfold import_last at 2. cbn [mbind option_bind fst snd]. rewrite Hx. cbn [mbind option_bind].
  destruct (IH {| vals := vals v; idx := idx v; last := <[op := p]> (last v) |} (ups0 ++ [(v_key x, p)])) as (ups' & Hf & Hm).
  { intros lp Hin. cbn. apply Hl. by right. }
  exists ((v_key x, p) :: ups'). split.
  - etrans; [exact Hf|]. cbn. by rewrite <- app_assoc.
  - constructor; [|exact Hm]. cbn. split; [done|]. eauto.
Qed.

Lemma seq_read_id n : (1 ≤ n)%N → seq_read n = n.
Proof. intros Hn. unfold seq_read. destruct (N.eqb_spec n 0); [lia|done]. Qed.

Lemma NoDup_sorted_ops_list {A} (m : gmap N A) : NoDup (sorted_ops m).
Proof. eapply NoDup_fmap_1, NoDup_sorted_ops. Qed.

Section roundtrip2.
  Variable c : cfg.
  Variable s : l2state.
  Hypothesis Hinv : l2_inv c s.

  Lemma validate2_export : validate2 c (export2 s) = true.
  Proof.
    destruct Hinv as [I1 I2 I3 I4 I5 I6 I7 I8 I9].
    unfold validate2. cbn [export2 h_vals h_params h_next_l2 h_info h_pairs].
    rewrite !andb_true_iff. split; [split; [split; [split; [split; [split|]|]|]|]|].
    - apply bool_decide_eq_true. apply NoDup_sorted_ops.
    - apply bool_decide_eq_true. apply NoDup_fmap_2_strong; [|apply NoDup_sorted_ops_list].
      intros [op1 v1] [op2 v2] H1 H2 Hk. cbn in Hk.
      apply elem_of_sorted_ops in H1, H2.
      pose proof (I3 op1 v1 H1) as Q1. pose proof (I3 op2 v2 H2) as Q2. rewrite Hk in Q1.
      assert (op1 = op2) by congruence. subst. congruence.
    - apply N.leb_le. unfold sorted_ops. rewrite merge_sort_Permutation. exact I2.
    - by apply N.leb_le.
    - destruct (info s) as [bi|] eqn:Hi; [by apply I8|done].
    - apply forallb_forall. intros [d v] Hin. apply elem_of_list_In in Hin.
      rewrite elem_of_merge_sort in Hin. apply elem_of_map_to_list in Hin. cbn. by eapply I9.
    - done.
  Qed.

  Lemma import2_export : ∃ ups, import2 c s (export2 s) = Some (s, ups) ∧
                                updates_match (vs s) ups (sorted_ops (last (vs s))).
  Proof.
    pose proof Hinv as [I1 I2 I3 I4 I5 I6 I7 I8 I9].
    unfold import2. cbn [export2 h_vals h_params h_next_l1 h_next_l2 h_info h_pairs h_exported h_last].
    unfold set_params. rewrite I1. cbn [negb].
    rewrite bool_decide_eq_false_2 by (cbn; rewrite map_size_empty; lia).
    cbn [mbind option_bind].
    destruct (import_val_fold (sorted_ops (vals (vs s))) vempty) as (V1 & V2 & V3).
    set (v1 := foldl import_val vempty (sorted_ops (vals (vs s)))) in *.
    assert (Hvals : vals v1 = vals (vs s)).
    { rewrite V1. cbn. apply (foldl_ins_full fst snd).
      - intros [op v] Hin. by apply elem_of_sorted_ops.
      - intros op v Hv. exists (op, v). split; [by apply elem_of_sorted_ops|done]. }
    assert (Hidx : idx v1 = idx (vs s)).
    { rewrite V2. cbn. apply (foldl_ins_full (λ ov : N * val, v_key ov.2) fst).
      - intros [op v] Hin. apply elem_of_sorted_ops in Hin. cbn. by apply I3.
      - intros k op Hk. destruct (I4 k op Hk) as (v & Hv & Hkv). exists (op, v).
        split; [by apply elem_of_sorted_ops|done]. }
    destruct (import_last_fold (sorted_ops (last (vs s))) v1 []) as (ups & Hf & Hm).
    { intros [op p] Hin. apply elem_of_sorted_ops in Hin. cbn. rewrite Hvals. by eapply I5. }
    rewrite Hf. cbn [mbind option_bind app].
    replace (negb match info s with Some bi => binfo_valid bi | None => true end) with false.
    2:{ destruct (info s) as [bi|] eqn:Hi; [|done]. by rewrite (I8 bi eq_refl). }
    exists ups. split.
    - f_equal. f_equal. rewrite !seq_read_id by done.
      assert (Hp : foldl (λ m (p : bytes * bytes), <[p.1 := p.2]> m) ∅ (merge_sort lex_le (map_to_list (pairs s))) = pairs s).
      { apply (foldl_ins_full fst snd).
        - intros [d v] Hin. rewrite elem_of_merge_sort in Hin. by apply elem_of_map_to_list in Hin.
        - intros d v Hv. exists (d, v). split; [|done]. rewrite elem_of_merge_sort. by apply elem_of_map_to_list. }
      rewrite Hp.
      assert (Hl : foldl (λ m (lp : N * Z), <[lp.1 := lp.2]> m) (last v1) (sorted_ops (last (vs s))) = last (vs s)).
      { rewrite V3. cbn. apply (foldl_ins_full fst snd).
        - intros [op p] Hin. by apply elem_of_sorted_ops.
        - intros op p Hv. exists (op, p). split; [by apply elem_of_sorted_ops|done]. }
      rewrite Hl, Hvals, Hidx. cbn. destruct s as [? ? ? ? ? ? [? ? ?] ? ? ?]. reflexivity.
    - unfold updates_match in *. rewrite <- Hvals. exact Hm.
  Qed.
End roundtrip2.

Lemma c16_l2_roundtrip c s : l2_inv c s →
  validate2 c (export2 s) = true ∧
  ∃ ups, import2 c s (export2 s) = Some (s, ups) ∧
         (∀ f ups', import2 c s (export2 s) = Some (f, ups') → export2 f = export2 s).
Proof.
  intros Hinv. split; [by apply validate2_export|].
  destruct (import2_export c s Hinv) as (ups & Hi & _). exists ups. split; [done|].
  intros f ups' Hf. rewrite Hi in Hf. by simplify_eq.
Qed.

Lemma c16_l2_initial_updates c s : l2_inv c s →
  ∃ ups, import2 c s (export2 s) = Some (s, ups) ∧
         Forall2 (λ u lp, u.2 = lp.2 ∧ ∃ x, vals (vs s) !! lp.1 = Some x ∧ u.1 = v_key x)
                 ups (sorted_ops (last (vs s))).
Proof. intros Hinv. exact (import2_export c s Hinv). Qed.
