(* Bank algebra and the decomposition of the L2 deposit handler into named pieces.
   Used by the C09 (supply ledger) and C07 (two-outcome rule) proofs. *)
From stdpp Require Import gmap numbers list.
From Coq Require Import ZArith Lia.
Require Import Model.Bytes Model.Bank Model.Valset Model.L2 Proofs.L2Lemmas.

Local Open Scope Z_scope.

(* ---- bank algebra: balances ---- *)
Lemma getb_insert m sp k v a d :
  getb {| bal := <[k := v]> m; sup := sp |} a d =
  if decide ((a, d) = k) then v else default 0 (m !! (a, d)).
Proof.
  unfold getb; cbn. destruct (decide ((a, d) = k)) as [<-|Hne].
  - by rewrite lookup_insert.
  - by rewrite lookup_insert_ne.
Qed.

Lemma getb_ext b b' a d : bal b = bal b' → getb b a d = getb b' a d.
Proof. unfold getb. by intros ->. Qed.

Lemma getb_credit b a d x a' d' :
  getb (credit b a d x) a' d' = if decide ((a', d') = (a, d)) then getb b a d + x else getb b a' d'.
Proof. unfold credit. rewrite getb_insert. reflexivity. Qed.

Lemma gets_credit b a d x d' : gets (credit b a d x) d' = gets b d'.
Proof. reflexivity. Qed.

Lemma debit_Some b a d x b' :
  debit b a d x = Some b' →
  x ≤ getb b a d ∧
  (∀ a' d', getb b' a' d' = if decide ((a', d') = (a, d)) then getb b a d - x else getb b a' d') ∧
  (∀ d', gets b' d' = gets b d').
Proof.
  unfold debit. destruct (getb b a d <? x) eqn:E; [discriminate|]. intros [= <-].
  apply Z.ltb_ge in E. split; [done|]. split; [|done]. intros a' d'. by rewrite getb_insert.
Qed.

Lemma debit_ok b a d x : x ≤ getb b a d → ∃ b', debit b a d x = Some b'.
Proof. intros H. unfold debit. apply Z.ltb_ge in H. rewrite H. eauto. Qed.

Definition delta (a' : N) (d' : bytes) (a : N) (d : bytes) (x : Z) : Z :=
  if decide ((a', d') = (a, d)) then x else 0.
Definition deltad (d' d : bytes) (x : Z) : Z := if decide (d' = d) then x else 0.

Lemma delta_eq a d x : delta a d a d x = x.
Proof. unfold delta. by rewrite decide_True. Qed.
Lemma deltad_eq d x : deltad d d x = x.
Proof. unfold deltad. by rewrite decide_True. Qed.
Lemma deltad_ne d' d x : d' ≠ d → deltad d' d x = 0.
Proof. intros. unfold deltad. by rewrite decide_False. Qed.

Lemma bank_send_Some b from to d x b' :
  bank_send b from to d x = Some b' →
  x ≤ getb b from d ∧
  (∀ a' d', getb b' a' d' = getb b a' d' - delta a' d' from d x + delta a' d' to d x) ∧
  (∀ d', gets b' d' = gets b d').
Proof.
  unfold bank_send. intros H. apply bind_Some in H as (b1 & H1 & [= <-]).
  apply debit_Some in H1 as (Hle & Hb & Hs). split; [done|]. split.
  - intros a' d'. rewrite getb_credit, !Hb. unfold delta.
    repeat destruct (decide _); simplify_eq; lia.
  - intros d'. by rewrite gets_credit.
Qed.

Lemma bank_send_ok b from to d x : x ≤ getb b from d → ∃ b', bank_send b from to d x = Some b'.
Proof. intros H. unfold bank_send. destruct (debit_ok b from d x H) as (b1 & ->). cbn. eauto. Qed.

Lemma getb_mint b m d x a' d' : getb (bank_mint b m d x) a' d' = getb b a' d' + delta a' d' m d x.
Proof.
  rewrite (getb_ext _ (credit b m d x)) by reflexivity.
  rewrite getb_credit. unfold delta. destruct (decide _); simplify_eq; lia.
Qed.

Lemma gets_mint b m d x d' : gets (bank_mint b m d x) d' = gets b d' + deltad d' d x.
Proof.
  unfold bank_mint, gets at 1; cbn. destruct (decide (d' = d)) as [->|Hne].
  - rewrite lookup_insert, deltad_eq. done.
  - rewrite lookup_insert_ne, deltad_ne by done. unfold gets. lia.
Qed.

Lemma bank_burn_Some b m d x b' :
  bank_burn b m d x = Some b' →
  x ≤ getb b m d ∧
  (∀ a' d', getb b' a' d' = getb b a' d' - delta a' d' m d x) ∧
  (∀ d', gets b' d' = gets b d' - deltad d' d x).
Proof.
  unfold bank_burn. intros H. apply bind_Some in H as (b1 & H1 & [= <-]).
  apply debit_Some in H1 as (Hle & Hb & Hs). split; [done|]. split.
  - intros a' d'. rewrite (getb_ext _ b1) by reflexivity. rewrite Hb. unfold delta.
    destruct (decide _); simplify_eq; lia.
  - intros d'. unfold gets at 1; cbn. destruct (decide (d' = d)) as [->|Hne].
    + rewrite lookup_insert, deltad_eq. done.
    + rewrite lookup_insert_ne, deltad_ne by done. change (default 0 (sup b1 !! d')) with (gets b1 d').
      rewrite Hs. lia.
Qed.

Lemma bank_burn_ok b m d x : x ≤ getb b m d → ∃ b', bank_burn b m d x = Some b'.
Proof. intros H. unfold bank_burn. destruct (debit_ok b m d x H) as (b1 & ->). cbn. eauto. Qed.

(* a sequence of sends never changes any supply *)
Lemma foldl_send_gets {A} (f : bank → A → option bank) (l : list A) :
  (∀ b x b' d, f b x = Some b' → gets b' d = gets b d) →
  ∀ b b' d, foldl (λ ob x, b ← ob; f b x) (Some b) l = Some b' → gets b' d = gets b d.
Proof.
  intros Hf. induction l as [|x l IH]; intros b b' d; cbn.
  - by intros [= <-].
  - destruct (f b x) as [b1|] eqn:E; cbn.
    + intros H. rewrite (IH _ _ _ H). eauto.
    + intros H. exfalso. clear -H. induction l as [|y l IHl]; cbn in H; [discriminate|auto].
Qed.

Lemma foldl_None {A B} (f : B → A → option B) (l : list A) :
  foldl (λ ob x, b ← ob; f b x) None l = None.
Proof. induction l; cbn; auto. Qed.

Lemma hook_send_gets c b from snd b' d : hook_send c b from snd = Some b' → gets b' d = gets b d.
Proof.
  unfold hook_send. destruct snd as [[to dd] amt]. repeat case_match; try discriminate.
  intros Hs. by apply bank_send_Some in Hs as (_ & _ & ->).
Qed.

(* ---- the deposit handler in named pieces ---- *)
Definition fd_dep (c : cfg) (s : l2state) (m : fdep) : l2state * bool :=
  match resolve c (fd_to m) with
  | None => (s, false)
  | Some a => safe_deposit c s a (fd_denom m) (fd_amt m)
  end.
Definition reg_pair (s : l2state) (d base : bytes) : l2state :=
  match pairs s !! d with
  | Some _ => s
  | None => set_pairs s (<[d := base]> (pairs s))
  end.
Definition fd_gate (s1 : l2state) (m : fdep) : l2state :=
  reg_pair (set_next_l1 s1 (next_l1 s1 + 1)%N) (fd_denom m) (fd_base m).
Definition fd_hook_run (c : cfg) (s3 : l2state) (dep_ok : bool) (h : hookp) : l2state * bool :=
  if dep_ok && hook_nonempty h then run_hook c s3 h else (s3, true).
Definition fd_reclaim (c : cfg) (s4 : l2state) (m : fdep) (dep_ok : bool) : option l2state :=
  if dep_ok then
    a ← resolve c (fd_to m);
    b1 ← bank_send (bk s4) a (modacc c) (fd_denom m) (fd_amt m);
    b2 ← bank_burn b1 (modacc c) (fd_denom m) (fd_amt m);
    Some (set_bk s4 b2)
  else Some s4.
Definition refund_rec (m : fdep) (seq : N) (base : bytes) : wrec :=
  {| w_seq := seq; w_from := fd_to m; w_to := fd_from m; w_denom := fd_denom m; w_base := base;
     w_amt := fd_amt m; w_refund := true |}.
Definition fd_tail (c : cfg) (s : l2state) (m : fdep) : option (l2state * resp) :=
  let '(s1, dep_ok) := fd_dep c s m in
  let s3 := fd_gate s1 m in
  let '(s4, hook_ok) := fd_hook_run c s3 dep_ok (fd_hook m) in
  if dep_ok && hook_ok then Some (push_deposit s4 (deposit_rec m true), RSuccess) else
  s5 ← fd_reclaim c s4 m dep_ok;
  base ← pairs s5 !! fd_denom m;
  Some (push_withdrawal (push_deposit s5 (deposit_rec m false)) (refund_rec m (next_l2 s5) base), RSuccess).

Lemma finalize_deposit_unfold c s m :
  finalize_deposit c s m =
  if negb (fdep_valid c m) then None else
  if negb (is_executor c s (fd_sender m)) then None else
  if (fd_seq m <? next_l1 s)%N then Some (s, RNoop) else
  if (next_l1 s <? fd_seq m)%N then None else fd_tail c s m.
Proof. reflexivity. Qed.

(* at the expected sequence, from an executor, a well-formed message reaches the tail *)
Lemma finalize_deposit_at_next c s m :
  fdep_valid c m = true → is_executor c s (fd_sender m) = true → fd_seq m = next_l1 s →
  finalize_deposit c s m = fd_tail c s m.
Proof.
  intros Hv He Hs. rewrite finalize_deposit_unfold, Hv, He, Hs, N.ltb_irrefl. reflexivity.
Qed.

Lemma finalize_deposit_tail c s m s' r :
  finalize_deposit c s m = Some (s', r) →
  (r = RNoop ∧ s' = s) ∨
  (fdep_valid c m = true ∧ is_executor c s (fd_sender m) = true ∧ fd_seq m = next_l1 s ∧
   fd_tail c s m = Some (s', r)).
Proof.
  rewrite finalize_deposit_unfold.
  destruct (fdep_valid c m); [|discriminate]. destruct (is_executor c s (fd_sender m)); [|discriminate].
  cbn [negb]. destruct (fd_seq m <? next_l1 s)%N eqn:Hlt; [intros [= <- <-]; by left|].
  destruct (next_l1 s <? fd_seq m)%N eqn:Hgt; [discriminate|].
  apply N.ltb_ge in Hlt, Hgt. intros H. right. repeat split; auto. lia.
Qed.

(* ---- what each piece does ---- *)
Lemma fd_dep_spec c s m s1 ok :
  fd_dep c s m = (s1, ok) →
  frame_bk s s1 ∧
  (ok = false → s1 = s) ∧
  (ok = true → ∃ a, resolve c (fd_to m) = Some a ∧
     (∀ a' d', getb (bk s1) a' d' = getb (bk s) a' d' + delta a' d' a (fd_denom m) (fd_amt m)) ∧
     (∀ d', gets (bk s1) d' = gets (bk s) d' + deltad d' (fd_denom m) (fd_amt m))).
Proof.
  unfold fd_dep. destruct (resolve c (fd_to m)) as [a|] eqn:Ha.
  2:{ intros [= <- <-]. split; [apply frame_bk_refl|]. split; [done|discriminate]. }
  unfold safe_deposit. destruct (fd_amt m =? 0) eqn:Hz.
  { intros [= <- <-]. apply Z.eqb_eq in Hz. split; [apply frame_bk_refl|]. split; [discriminate|].
    intros _. exists a. split; [done|]. rewrite Hz. unfold delta, deltad.
    split; intros; destruct (decide _); lia. }
  destruct (blocked c a).
  { intros [= <- <-]. split; [apply frame_bk_refl|]. split; [done|discriminate]. }
  destruct (bank_send _ _ _ _ _) as [b|] eqn:Hb.
  2:{ intros [= <- <-]. split; [apply frame_bk_refl|]. split; [done|discriminate]. }
  intros [= <- <-]. split; [apply frame_bk_set|]. split; [discriminate|]. intros _. exists a. split; [done|].
  apply bank_send_Some in Hb as (_ & Hbb & Hbs). cbn [bk set_bk]. split.
  - intros a' d'. rewrite Hbb, getb_mint. lia.
  - intros d'. rewrite Hbs, gets_mint. done.
Qed.

Lemma reg_pair_frame s d base :
  bk (reg_pair s d base) = bk s ∧ next_l1 (reg_pair s d base) = next_l1 s ∧
  next_l2 (reg_pair s d base) = next_l2 s ∧ prm (reg_pair s d base) = prm s ∧
  info (reg_pair s d base) = info s ∧ vs (reg_pair s d base) = vs s ∧
  seqs (reg_pair s d base) = seqs s ∧ wlog (reg_pair s d base) = wlog s ∧
  dlog (reg_pair s d base) = dlog s.
Proof. unfold reg_pair. destruct (pairs s !! d); cbn; auto 10. Qed.

Lemma reg_pair_keeps s d base d' x :
  pairs s !! d' = Some x → pairs (reg_pair s d base) !! d' = Some x.
Proof.
  unfold reg_pair. destruct (pairs s !! d) eqn:E; [done|]. cbn. intros H.
  rewrite lookup_insert_ne; [done|]. intros ->. congruence.
Qed.

Lemma reg_pair_lookup s d base :
  pairs (reg_pair s d base) !! d = Some (match pairs s !! d with Some x => x | None => base end).
Proof.
  unfold reg_pair. destruct (pairs s !! d) eqn:E; [done|]. cbn. by rewrite lookup_insert.
Qed.

Lemma reg_pair_other s d base d' : d' ≠ d → pairs (reg_pair s d base) !! d' = pairs s !! d'.
Proof.
  intros Hne. unfold reg_pair. destruct (pairs s !! d) eqn:E; [done|]. cbn. by rewrite lookup_insert_ne.
Qed.

Lemma run_hook_spec c s h s1 ok :
  run_hook c s h = (s1, ok) →
  frame_hook s s1 ∧ user_records s s1 ∧
  (ok = false → wlog s1 = wlog s ∧ next_l2 s1 = next_l2 s ∧ bk s1 = bk s) ∧
  (seqs s1 = seqs s ∨ ∃ signer, seqs s1 = <[signer := (getseq s signer + 1)%N]> (seqs s)).
Proof.
  intros H. pose proof (run_hook_frame _ _ _ _ _ H) as (F & U & K). split; [done|]. split; [done|]. split; [done|].
  revert H. unfold run_hook. destruct h as [| |signer tseq sig_ok msgs]; try (intros [= <- <-]; by left).
  destruct (p_hookgas (prm s) <? hook_gas_floor)%N; [intros [= <- <-]; by left|].
  destruct (negb _); [intros [= <- <-]; by left|].
  destruct (foldl _ _ msgs) as [s2|] eqn:Hf; intros [= <- <-].
  - apply hook_fold_spec in Hf as (_ & Q & _). right. exists signer. rewrite Q. done.
  - right. exists signer. done.
Qed.

Lemma fd_hook_run_spec c s3 dep_ok h s4 ok :
  fd_hook_run c s3 dep_ok h = (s4, ok) →
  frame_hook s3 s4 ∧ user_records s3 s4 ∧
  (ok = false → wlog s4 = wlog s3 ∧ next_l2 s4 = next_l2 s3 ∧ bk s4 = bk s3 ∧ dep_ok = true) ∧
  (seqs s4 = seqs s3 ∨ ∃ signer, seqs s4 = <[signer := (getseq s3 signer + 1)%N]> (seqs s3)).
Proof.
  unfold fd_hook_run. destruct (dep_ok && hook_nonempty h) eqn:E.
  - intros H. apply run_hook_spec in H as (F & U & K & Hq). apply andb_true_iff in E as [-> _].
    split; [done|]. split; [done|]. split; [|done]. intros Hk. destruct (K Hk) as (?&?&?). auto.
  - intros [= <- <-]. split; [apply frame_hook_refl|]. split; [by apply user_records_refl|].
    split; [discriminate|auto].
Qed.

(* a reflexive, transitive relation kept by sequence bumps, by balance moves that leave every
   supply alone, and by user withdrawals is kept by the whole hook *)
Section hook_R.
  Variable c : cfg.
  Variable R : l2state → l2state → Prop.
  Hypothesis Rrefl : ∀ s, R s s.
  Hypothesis Rtrans : ∀ s1 s2 s3, R s1 s2 → R s2 s3 → R s1 s3.
  Hypothesis Rseqs : ∀ s q, R s (set_seqs s q).
  Hypothesis Rmove : ∀ s b, (∀ d, gets b d = gets (bk s) d) → R s (set_bk s b).
  Hypothesis Rwd : ∀ s sender to d amt s' r, withdraw c s sender to d amt = Some (s', r) → R s s'.

  Lemma hook_msg_R s signer m s' : hook_msg c s signer m = Some s' → R s s'.
  Proof.
    destruct m as [to d amt|sender to d amt]; cbn [hook_msg].
    - intros H. apply bind_Some in H as (b & Hb & [= <-]). apply Rmove. intros d'. eapply hook_send_gets; eauto.
    - destruct (negb _); [discriminate|]. intros H. apply bind_Some in H as ([s1 r1] & Hw & [= <-]). eauto.
  Qed.

  Lemma hook_fold_R signer msgs : ∀ s s',
    foldl (λ os m, s ← os; hook_msg c s signer m) (Some s) msgs = Some s' → R s s'.
  Proof.
    induction msgs as [|m msgs IH]; intros s s'; cbn [foldl]; [by intros [= <-]|].
    cbn [mbind option_bind]. destruct (hook_msg c s signer m) as [s1|] eqn:E.
    - intros H. eapply Rtrans; [eapply hook_msg_R; eauto|]. by apply IH.
    - rewrite hook_fold_None. discriminate.
  Qed.

  Lemma run_hook_R s h s1 ok : run_hook c s h = (s1, ok) → R s s1.
  Proof.
    unfold run_hook. destruct h as [| |signer tseq sig_ok msgs]; try (intros [= <- <-]; apply Rrefl).
    destruct (p_hookgas (prm s) <? hook_gas_floor)%N; [intros [= <- <-]; apply Rrefl|].
    destruct (negb _); [intros [= <- <-]; apply Rrefl|].
    destruct (foldl _ _ msgs) as [s2|] eqn:Hf; intros [= <- <-].
    - eapply Rtrans; [apply Rseqs|]. eapply hook_fold_R; eauto.
    - apply Rseqs.
  Qed.

  Lemma fd_hook_run_R s3 dep_ok h s4 ok : fd_hook_run c s3 dep_ok h = (s4, ok) → R s3 s4.
  Proof.
    unfold fd_hook_run. destruct (dep_ok && hook_nonempty h); [apply run_hook_R|].
    intros [= <- <-]. apply Rrefl.
  Qed.
End hook_R.

Lemma fd_reclaim_spec c s4 m dep_ok s5 :
  fd_reclaim c s4 m dep_ok = Some s5 →
  frame_bk s4 s5 ∧
  (dep_ok = false → s5 = s4) ∧
  (dep_ok = true → ∃ a, resolve c (fd_to m) = Some a ∧
     (∀ a' d', getb (bk s5) a' d' = getb (bk s4) a' d' - delta a' d' a (fd_denom m) (fd_amt m)) ∧
     (∀ d', gets (bk s5) d' = gets (bk s4) d' - deltad d' (fd_denom m) (fd_amt m))).
Proof.
  unfold fd_reclaim. destruct dep_ok.
  2:{ intros [= <-]. split; [apply frame_bk_refl|]. split; [done|discriminate]. }
  intros H. apply bind_Some in H as (a & Ha & H). apply bind_Some in H as (b1 & Hb1 & H).
  apply bind_Some in H as (b2 & Hb2 & [= <-]).
  split; [apply frame_bk_set|]. split; [discriminate|]. intros _. exists a. split; [done|].
  apply bank_send_Some in Hb1 as (_ & H1b & H1s). apply bank_burn_Some in Hb2 as (_ & H2b & H2s).
  cbn [bk set_bk]. split.
  - intros a' d'. rewrite H2b, H1b. lia.
  - intros d'. rewrite H2s, H1s. done.
Qed.

(* ---- generic: a reflexive, transitive relation kept by every non-batch message is kept by
   every message (ExecuteMessages nests arbitrarily) and by every history ---- *)
Section preserve.
  Variable c : cfg.
  Variable R : l2state → l2state → Prop.
  Hypothesis Rrefl : ∀ s, R s s.
  Hypothesis Rtrans : ∀ s1 s2 s3, R s1 s2 → R s2 s3 → R s1 s3.
  Hypothesis Rleaf : ∀ s m s' r,
    (∀ x l, m ≠ MExecute x l) → handle c s m = Some (s', r) → R s s'.

  Lemma handle_R m : ∀ s s' r, handle c s m = Some (s', r) → R s s'.
  Proof.
    induction m as [f|w1 w2 w3 w4|b1 b2 b3 b4|i1 i2|u1 u2|v1 v2 v3|r1 r2|p1 p2 p3|sender inner IH]
      using msg_ind'; intros s s' r; try (apply Rleaf; congruence).
    rewrite handle_execute.
    destruct (negb (bool_decide (is_Some _))); [discriminate|].
    case_bool_decide; [discriminate|]. destruct (negb (is_admin s sender)); [discriminate|].
    intros Hx. apply bind_Some in Hx as (auth & _ & Hx). clear -IH Hx Rrefl Rtrans.
    revert s Hx. induction inner as [|im l IHl]; intros s.
    + intros [= <- <-]. apply Rrefl.
    + rewrite exec_loop_cons. intros Hx.
      apply bind_Some in Hx as (sg & _ & Hx). apply bind_Some in Hx as (a & _ & Hx).
      destruct (negb (bool_decide (a = auth))); [discriminate|].
      apply bind_Some in Hx as ([s1 r1] & Hh & Hx).
      apply Forall_cons in IH as [IHim IHrest].
      eapply Rtrans; [eapply IHim; eauto|]. apply IHl; auto.
  Qed.

  Lemma step_R s m : R s (step c s m).1.
  Proof.
    unfold step. destruct (handle c s m) as [[s' r]|] eqn:H; cbn; [eapply handle_R; eauto|apply Rrefl].
  Qed.

  Lemma run_R h : ∀ s, R s (run c s h).1.
  Proof.
    induction h as [|m h IH]; intros s; cbn; [apply Rrefl|].
    destruct (step c s m) as [s1 r1] eqn:E. destruct (run c s1 h) as [s2 rs] eqn:E2. cbn.
    eapply Rtrans; [|specialize (IH s1); rewrite E2 in IH; exact IH].
    pose proof (step_R s m) as Hp. by rewrite E in Hp.
  Qed.
End preserve.

(* the messages other than deposit / withdrawal / batch either rewrite balances without
   touching any supply, or leave bank, sequences, pairs and both logs alone *)
Definition frame_admin (s s' : l2state) : Prop :=
  bk s' = bk s ∧ next_l1 s' = next_l1 s ∧ next_l2 s' = next_l2 s ∧ pairs s' = pairs s ∧
  seqs s' = seqs s ∧ wlog s' = wlog s ∧ dlog s' = dlog s.
Definition frame_moves (s s' : l2state) : Prop :=
  frame_bk s s' ∧ ∀ d, gets (bk s') d = gets (bk s) d.

Lemma leaf_cases c s m s' r :
  handle c s m = Some (s', r) →
  match m with
  | MFinalizeDeposit f => finalize_deposit c s f = Some (s', r)
  | MWithdraw a b d x => withdraw c s a b d x = Some (s', r)
  | MExecute _ _ => True
  | _ => frame_moves s s' ∨ frame_admin s s'
  end.
Proof.
  destruct m as [f|w1 w2 w3 w4|b1 b2 b3 b4|i1 i2|u1 u2|v1 v2 v3|r1 r2|p1 p2 p3|sender inner];
    cbn [handle]; auto.
  - unfold bank_send_msg. destruct (negb _); [discriminate|]. intros Hx.
    apply bind_Some in Hx as (b & Hb & [= <- <-]). left. split; [apply frame_bk_set|].
    intros d. by apply bank_send_Some in Hb as (_ & _ & ->).
  - intros H. apply set_bridge_info_Some in H as (_&_&_&->&_). right. repeat split.
  - intros H. apply update_params_Some in H as (_&_&->&_). right. repeat split.
  - intros H. apply add_val_Some in H as (_&?&?&_&_&->&_). right. repeat split.
  - intros H. apply remove_val_Some in H as (_&?&?&_&_&->&_). right. repeat split.
  - unfold spend_fee_pool. destruct (negb (bool_decide (is_Some _))); [discriminate|]. intros Hx.
    apply bind_Some in Hx as (rr & _ & Hx). destruct (negb (coins_valid p3)); [discriminate|].
    destruct (negb (is_authority c p1)); [discriminate|]. destruct (blocked c rr); [discriminate|].
    apply bind_Some in Hx as (b & Hb & [= <- <-]). left. split; [apply frame_bk_set|].
    intros d. eapply (foldl_send_gets (λ b cn, bank_send b (feecol c) rr cn.1 cn.2)) in Hb; [exact Hb|].
    intros ? ? ? ? Hs. by apply bank_send_Some in Hs as (_ & _ & ->).
Qed.
