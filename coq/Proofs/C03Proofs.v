(* C03: what a successful withdrawal finalization implies, and that a rejected one has no effect. *)
From stdpp Require Import gmap numbers list.
From Coq Require Import ZArith Lia.
Require Import Model.Bytes Model.Bank Model.Hashes Model.L1 Proofs.C03Finalize.

Lemma c03_finalize_only_if c e s s' r sender b idx sq proofs from to d amt v sr bh :
  step c e s (MFinalize sender b idx sq proofs from to d amt v sr bh) = (s', Ok r) →
  ∃ o x rcv b1,
    (* the named index stores an output whose root is the commitment to the message's triple *)
    outputs s !! (b, idx) = Some o ∧
    o_root o = output_root (hash c) (hd 0%N v) sr bh ∧
    (* ... which is final at the block time *)
    configs s !! b = Some x ∧ is_final x e o = true ∧
    (* the leaf of exactly the claimed fields hashes up to the storage root through the proof *)
    root_from_proof (hash c) (claim_leaf c b sq from to d amt) proofs = sr ∧
    (* ranges and lengths *)
    (0 < amt < two64)%Z ∧ length v = 1 ∧ length sr = 32 ∧ length bh = 32 ∧
    Forall (λ p, length p = 32) proofs ∧ b ≠ 0%N ∧ idx ≠ 0%N ∧ sq ≠ 0%N ∧
    (* unclaimed before, recipient resolves *)
    (b, claim_leaf c b sq from to d amt) ∉ proven s ∧ resolve c to = Some rcv ∧
    (* the exact effect: one transfer escrow -> recipient, the claim recorded, nothing else *)
    bank_send (bk s) (escrow c b) rcv d amt = Some b1 ∧
    s' = finalized_state s b1 b (claim_leaf c b sq from to d amt) rcv d amt.
Proof.
  intros Hst. apply l1_step_ok in Hst. cbn [handle] in Hst.
  apply finalize_Some in Hst as (Hv & rcv & o & x & b1 & Hr & Ho & Hx & Hfin & Hroot & Hamt & Hcl & Hpf & Hb & -> & _).
  apply finalize_valid_true in Hv as (_ & _ & _ & Hpos & Hsq & Hb0 & Hi0 & Hps & Hlv & Hls & Hlb).
  exists o, x, rcv, b1. repeat split; done.
Qed.

Lemma c03_reject_no_effect c e s m s' : step c e s m = (s', Err) → s' = s.
Proof. apply l1_step_err_unchanged. Qed.
