(* C03: what a successful withdrawal finalization implies, and that a rejected one has no effect. *)
From stdpp Require Import gmap numbers list.
From Coq Require Import ZArith Lia.
Require Import Model.Bytes Model.Bank Model.Hashes Model.L1 Proofs.C03Finalize.

Lemma c03_finalize_only_if c e s s' r sender b idx sq proofs from to d amt v sr bh :
  step c e s (MFinalize sender b idx sq proofs from to d amt v sr bh) = (s', Ok r) →
  ∃ o x rcv b1,
    (* the named index stores an output whose root is the commitment to the message's triple *)
    outputs s !! (b, idx) = Some o ∧
    o_root o = output_root (hash c) (hd 0%N v) sr bh ∧
    (* ... which is final at the block time *)
    configs s !! b = Some x ∧ is_final x e o = true ∧
    (* the leaf of exactly the claimed fields hashes up to the storage root through the proof *)
    root_from_proof (hash c) (claim_leaf c b sq from to d amt) proofs = sr ∧
    (* ranges and lengths *)
    (0 < amt < two64)%Z ∧ length v = 1 ∧ length sr = 32 ∧ length bh = 32 ∧
    Forall (λ p, length p = 32) proofs ∧ b ≠ 0%N ∧ idx ≠ 0%N ∧ sq ≠ 0%N ∧
    (* unclaimed before, recipient resolves *)
    (b, claim_leaf c b sq from to d amt) ∉ proven s ∧ resolve c to = Some rcv ∧
    (* the exact effect: one transfer escrow -> recipient, the claim recorded, nothing else *)
    bank_send (bk s) (escrow c b) rcv d amt = Some b1 ∧
    s' = finalized_state s b1 b (claim_leaf c b sq from to d amt) rcv d amt.
Proof.
  intros Hst. apply l1_step_ok in Hst. cbn [handle] in Hst.
  apply finalize_Some in Hst as (Hv & rcv & o & x & b1 & Hr & Ho & Hx & Hfin & Hroot & Hamt & Hcl & Hpf & Hb & -> & _).
  apply finalize_valid_true in Hv as (_ & _ & _ & Hpos & Hsq & Hb0 & Hi0 & Hps & Hlv & Hls & Hlb).
  exists o, x, rcv, b1. repeat split; done.
Qed.

Lemma c03_reject_no_effect c e s m s' : step c e s m = (s', Err) → s' = s.
Proof. apply l1_step_err_unchanged. Qed.

(* ---------- forging a claim needs a collision ---------- *)
Require Import Model.Merkle Proofs.MerkleProofs Proofs.C03Binding.

(* index (b, i) stores the honest commitment to the leaf list L: the output root of SOME
   version and block hash over the root of the published tree of L *)
Definition honest_commitment (c : cfg) (s : l1state) (b i : N) (L : list bytes) : Prop :=
  ∃ o v0 bh0, outputs s !! (b, i) = Some o ∧ length bh0 = 32 ∧
              o_root o = output_root (hash c) v0 (build (hash c) L) bh0.

Lemma c03_forgery_needs_collision c e s s' r sender b idx sq proofs from to d amt v sr bh L :
  (∀ x, length (hash c x) = 32) →
  L ≠ [] → Forall (leaf_form (hash c)) L →
  honest_commitment c s b idx L →
  step c e s (MFinalize sender b idx sq proofs from to d amt v sr bh) = (s', Ok r) →
  (In (claim_leaf c b sq from to d amt) L ∧ (b, claim_leaf c b sq from to d amt) ∉ proven s ∧
   sr = build (hash c) L) ∨ Collision (hash c).
Proof.
  intros Hlen Hne Hform (o & v0 & bh0 & Ho & Lbh0 & Hroot) Hst.
  apply c03_finalize_only_if in Hst
    as (o' & x & rcv & b1 & Ho' & Hroot' & _ & _ & Hpf & _ & _ & Lsr & Lbh & Hps & _ & _ & _ & Hun & _).
  rewrite Ho in Ho'. injection Ho' as <-.
  assert (Hall : all32 L).
  { eapply Forall_impl; [exact Hform|]. intros y Hy. by apply (leaf_form_len (hash c) Hlen). }
  rewrite Hroot in Hroot'.
  apply output_root_binding in Hroot' as [(_ & Hsr & _)|C]; auto using build_len.
  assert (Hv : verify (hash c) (build (hash c) L) (claim_leaf c b sq from to d amt) proofs = true).
  { unfold verify. rewrite Hpf, Hsr. by destruct (bytes_eq_dec _ _). }
  apply merkle_sound in Hv as [Hin|C]; auto.
  apply leaf_hash_form, Hlen.
Qed.

(* the same with the committed withdrawals given by their fields *)
Record wd := { w_seq : N; w_from : bytes; w_to : bytes; w_denom : bytes; w_amt : N }.
Definition wd_leaf (H : bytes → bytes) (b : N) (w : wd) : bytes :=
  leaf_hash H b (w_seq w) (w_from w) (w_to w) (w_denom w) (w_amt w).
Definition wd_u64 (w : wd) : Prop := (w_seq w < two64N)%N ∧ (w_amt w < two64N)%N.

Lemma c03_forged_fields c e s s' r sender b idx sq proofs from to d amt v sr bh ws :
  (∀ x, length (hash c x) = 32) →
  (b < two64N)%N → (sq < two64N)%N → ws ≠ [] → Forall wd_u64 ws →
  honest_commitment c s b idx (map (wd_leaf (hash c) b) ws) →
  step c e s (MFinalize sender b idx sq proofs from to d amt v sr bh) = (s', Ok r) →
  (∃ w, In w ws ∧ w_seq w = sq ∧ w_from w = from ∧ w_to w = to ∧ w_denom w = d ∧ Z.of_N (w_amt w) = amt ∧
        (b, wd_leaf (hash c) b w) ∉ proven s) ∨ Collision (hash c).
Proof.
  intros Hlen Hb Hsq Hne Hu Hc Hst.
  pose proof Hst as Hst'.
  apply c03_finalize_only_if in Hst' as (_ & _ & _ & _ & _ & _ & _ & _ & _ & [Hpos Hlt] & _).
  assert (HL : map (wd_leaf (hash c) b) ws ≠ []) by (by destruct ws).
  assert (HF : Forall (leaf_form (hash c)) (map (wd_leaf (hash c) b) ws)).
  { apply Forall_forall. intros y Hy. apply elem_of_list_In, in_map_iff in Hy as (w & <- & _).
    apply leaf_hash_form, Hlen. }
  destruct (c03_forgery_needs_collision _ _ _ _ _ _ _ _ _ _ _ _ _ _ _ _ _ _ Hlen HL HF Hc Hst)
    as [(Hin & Hun & _)|C]; [|by right].
  apply in_map_iff in Hin as (w & Hw & Hin).
  rewrite Forall_forall in Hu. destruct (Hu w) as [Hws Hwa]; [by apply elem_of_list_In|].
  unfold wd_leaf, claim_leaf in Hw.
  assert (Hamt : (Z.to_N amt < two64N)%N) by (unfold two64, two64N in *; lia).
  destruct (leaf_binding (hash c) Hlen _ _ _ _ _ _ _ _ _ _ _ _ Hb Hws Hwa Hb Hsq Hamt Hw)
    as [(_ & Es & Ef & Et & Ed & Ea)|C]; [|by right].
  left. exists w. repeat split; auto.
  - rewrite Ea. lia.
  - unfold wd_leaf. rewrite Es, Ef, Et, Ed, Ea. exact Hun.
Qed.
