(* C19: grant / handover specifications of the permissioned-channel hook as wired into the
   ophost message server, for every parse function (a field of cfg); the admin table changes
   only by those rules along every history. *)
From stdpp Require Import gmap numbers list.
From Coq Require Import ZArith Lia.
Require Import Model.Bytes Model.Bank Model.Hashes Model.L1 Model.C19Spec.
Require Import Proofs.L1HookLemmas.

Ltac peel H :=
  repeat first
    [ match type of H with
      | (if negb ?b then None else _) = Some _ =>
          let E := fresh "G" in destruct b eqn:E; cbn [negb] in H; [|discriminate H]
      | (if ?b then None else _) = Some _ =>
          let E := fresh "G" in destruct b eqn:E; [discriminate H|]
      | (mbind _ _) = Some _ =>
          let x := fresh "x" in let E := fresh "B" in apply bind_Some in H as (x & E & H)
      end ].

Lemma step_Ok c e s m s' r : step c e s m = (s', Ok r) → handle c e s m = Some (s', r).
Proof. unfold step. destruct (handle c e s m) as [[? ?]|]; intros [= <- <-]; auto. Qed.
Lemma step_None c e s m : handle c e s m = None → step c e s m = (s, Err).
Proof. unfold step. by intros ->. Qed.
Lemma step_err_unchanged c e s m s' : step c e s m = (s', Err) → s' = s.
Proof. unfold step. destruct (handle c e s m) as [[? ?]|]; intros [= <-]; auto. Qed.
Lemma step_cases c e s m :
  (∃ s' r, handle c e s m = Some (s', r) ∧ step c e s m = (s', Ok r)) ∨
  (handle c e s m = None ∧ step c e s m = (s, Err)).
Proof. unfold step. destruct (handle c e s m) as [[s' r]|]; [left; eauto|right; auto]. Qed.

(* ---- the three handlers that run the hook ---- *)
Lemma create_bridge_hook c e s cr x s' r :
  create_bridge c e s cr x = Some (s', r) →
  ∃ s2, admins s2 = admins s ∧ chans s2 = chans s ∧ hook_created c s2 x = Some s'.
Proof.
  unfold create_bridge. intros H. peel H. injection H as <- _.
  eexists. split; [|split; [|exact B1]]; reflexivity.
Qed.

Definition with_meta (x : config) (md : bytes) : config :=
  {| c_proposer := c_proposer x; c_challenger := c_challenger x; c_period := c_period x;
     c_interval := c_interval x; c_start := c_start x; c_batch := c_batch x;
     c_oracle := c_oracle x; c_meta := md |}.
Definition with_challenger (x : config) (p : bytes) : config :=
  {| c_proposer := c_proposer x; c_challenger := p; c_period := c_period x;
     c_interval := c_interval x; c_start := c_start x; c_batch := c_batch x;
     c_oracle := c_oracle x; c_meta := c_meta x |}.

Lemma update_metadata_hook c e s a b md s' r :
  update_metadata c e s a b md = Some (s', r) →
  ∃ x s1, configs s !! b = Some x ∧ hook_metadata c s (with_meta x md) = Some s1 ∧ admins s' = admins s1.
Proof.
  unfold update_metadata. intros H. peel H. injection H as <- _. exists x, x0. auto.
Qed.

Lemma update_challenger_hook c e s a b p s' r :
  update_challenger c e s a b p = Some (s', r) →
  ∃ x s1, configs s !! b = Some x ∧ hook_challenger c s (with_challenger x p) = Some s1 ∧ admins s' = admins s1.
Proof.
  unfold update_challenger. intros H. peel H. injection H as <- _. exists x, x0. auto.
Qed.

(* ---- every other handler leaves the admin table alone ---- *)
Lemma other_handlers_frame c e s m s' r :
  handle c e s m = Some (s', r) →
  match m with
  | MCreateBridge _ _ | MUpdateMetadata _ _ _ | MUpdateChallenger _ _ _ | MAdminSet _ _ => True
  | _ => admins s' = admins s
  end.
Proof.
  destruct m; cbn [handle]; try (intros _; exact I); intros H.
  - unfold propose in H. peel H. by injection H as <- _.
  - unfold delete_output in H. peel H. by injection H as <- _.
  - unfold deposit in H. peel H. by injection H as <- _.
  - unfold finalize in H. peel H. by injection H as <- _.
  - unfold update_proposer in H. peel H. by injection H as <- _.
  - unfold update_batch_info in H. peel H. destruct (last_final _ _ _ _). by injection H as <- _.
  - unfold update_oracle in H. peel H. by injection H as <- _.
  - unfold update_params in H. peel H. by injection H as <- _.
  - unfold record_batch in H. peel H. by injection H as <- _.
  - unfold bank_send_msg in H. peel H. by injection H as <- _.
  - by injection H as <- _.
Qed.

(* ---- grant on creation ---- *)
Lemma c19_grant_create c e s cr x s' r chs :
  step c e s (MCreateBridge cr x) = (s', Ok r) → parse c (c_meta x) = Some chs →
  ∃ a, resolve c (c_challenger x) = Some a ∧ NoDup chs ∧
    (∀ pc, pc ∈ chs → chans s !! pc = Some 1%N ∧ admins s !! pc = None ∧ admins s' !! pc = Some a) ∧
    (∀ pc, pc ∉ chs → admins s' !! pc = admins s !! pc).
Proof.
  intros H Hp. apply step_Ok in H. cbn [handle] in H.
  apply create_bridge_hook in H as (s2 & Ha & Hc & Hh).
  apply hook_created_Some in Hh as (_ & Hh). rewrite Hp in Hh.
  destruct Hh as (a & Hr & Hnd & Hin & Hout). rewrite Ha, Hc in *. exists a. auto.
Qed.

(* any listed channel that is missing, in use or taken makes the whole creation fail *)
Lemma c19_grant_create_refused c e s cr x chs pc :
  parse c (c_meta x) = Some chs → pc ∈ chs →
  (chans s !! pc ≠ Some 1%N ∨ admins s !! pc ≠ None) →
  step c e s (MCreateBridge cr x) = (s, Err).
Proof.
  intros Hp Hin Hbad. destruct (step_cases c e s (MCreateBridge cr x)) as [(s' & r & _ & Hs)|[_ Hs]]; [|done].
  exfalso. destruct (c19_grant_create _ _ _ _ _ _ _ _ Hs Hp) as (a & _ & _ & Hall & _).
  destruct (Hall pc Hin) as (H1 & H2 & _). tauto.
Qed.

(* ---- grant on a metadata update ---- *)
Lemma c19_grant_metadata c e s auth b md s' r x chs :
  step c e s (MUpdateMetadata auth b md) = (s', Ok r) → configs s !! b = Some x → parse c md = Some chs →
  ∃ a, resolve c (c_challenger x) = Some a ∧
    (∀ pc, pc ∈ chs → admins s' !! pc = Some a ∧
       (admins s !! pc = Some a ∨ (chans s !! pc = Some 1%N ∧ admins s !! pc = None))) ∧
    (∀ pc, pc ∉ chs → admins s' !! pc = admins s !! pc).
Proof.
  intros H Hx Hp. apply step_Ok in H. cbn [handle] in H.
  apply update_metadata_hook in H as (x' & s1 & Hx' & Hh & Ha). rewrite Hx in Hx'. injection Hx' as <-.
  apply hook_metadata_Some in Hh as (_ & Hh). cbn [c_meta with_meta] in Hh. rewrite Hp in Hh.
  destruct Hh as (a & Hr & Hin & Hout). rewrite Ha. exists a. auto.
Qed.

Lemma c19_grant_metadata_refused c e s auth b md x chs pc :
  configs s !! b = Some x → parse c md = Some chs → pc ∈ chs →
  admins s !! pc ≠ resolve c (c_challenger x) →
  (chans s !! pc ≠ Some 1%N ∨ admins s !! pc ≠ None) →
  step c e s (MUpdateMetadata auth b md) = (s, Err).
Proof.
  intros Hx Hp Hin Hns Hbad.
  destruct (step_cases c e s (MUpdateMetadata auth b md)) as [(s' & r & _ & Hs)|[_ Hs]]; [|done].
  exfalso. destruct (c19_grant_metadata _ _ _ _ _ _ _ _ _ _ Hs Hx Hp) as (a & Hr & Hall & _).
  destruct (Hall pc Hin) as (_ & [H1|[H1 H2]]); [congruence|tauto].
Qed.

(* ---- handover ---- *)
Lemma c19_handover c e s auth b p s' r x chs :
  step c e s (MUpdateChallenger auth b p) = (s', Ok r) → configs s !! b = Some x →
  parse c (c_meta x) = Some chs →
  ∃ a, resolve c p = Some a ∧ (∀ pc, pc ∈ chs → admins s' !! pc = Some a) ∧
       (∀ pc, pc ∉ chs → admins s' !! pc = admins s !! pc).
Proof.
  intros H Hx Hp. apply step_Ok in H. cbn [handle] in H.
  apply update_challenger_hook in H as (x' & s1 & Hx' & Hh & Ha). rewrite Hx in Hx'. injection Hx' as <-.
  apply hook_challenger_Some in Hh as (_ & Hh). cbn [c_meta c_challenger with_challenger] in Hh. rewrite Hp in Hh.
  destruct Hh as (a & Hr & Hin & Hout). rewrite Ha. exists a. auto.
Qed.

(* ---- unparsed metadata never touches the table ---- *)
Lemma c19_unparsed_untouched c e s :
  (∀ cr x, parse c (c_meta x) = None → admins (step c e s (MCreateBridge cr x)).1 = admins s) ∧
  (∀ auth b md, parse c md = None → admins (step c e s (MUpdateMetadata auth b md)).1 = admins s) ∧
  (∀ auth b p x, configs s !! b = Some x → parse c (c_meta x) = None →
                 admins (step c e s (MUpdateChallenger auth b p)).1 = admins s).
Proof.
  split; [|split].
  - intros cr x Hp. destruct (step_cases c e s (MCreateBridge cr x)) as [(s' & r & Hh & ->)|[_ ->]]; [|done].
    cbn [handle] in Hh. apply create_bridge_hook in Hh as (s2 & Ha & _ & Hh).
    apply hook_created_Some in Hh as (_ & Hh). rewrite Hp in Hh. subst s'. exact Ha.
  - intros auth b md Hp. destruct (step_cases c e s (MUpdateMetadata auth b md)) as [(s' & r & Hh & ->)|[_ ->]]; [|done].
    cbn [handle] in Hh. apply update_metadata_hook in Hh as (x & s1 & _ & Hh & Ha).
    apply hook_metadata_Some in Hh as (_ & Hh). cbn [c_meta with_meta] in Hh. rewrite Hp in Hh. subst s1. exact Ha.
  - intros auth b p x Hx Hp. destruct (step_cases c e s (MUpdateChallenger auth b p)) as [(s' & r & Hh & ->)|[_ ->]]; [|done].
    cbn [handle] in Hh. apply update_challenger_hook in Hh as (x' & s1 & Hx' & Hh & Ha).
    rewrite Hx in Hx'. injection Hx' as <-.
    apply hook_challenger_Some in Hh as (_ & Hh). cbn [c_meta with_challenger] in Hh. rewrite Hp in Hh. subst s1. exact Ha.
Qed.

(* ---- an entry changes only by one of the rules: one step ---- *)
Lemma c19_step_only_by c e s m s' r pc :
  step c e s m = (s', r) → admins s' !! pc ≠ admins s !! pc → admin_change_rule c s m s' pc.
Proof.
  intros Hs Hne. destruct (step_cases c e s m) as [(s1 & r1 & Hh & Hs1)|[_ Hs1]];
    rewrite Hs in Hs1; injection Hs1 as -> ->; [|done].
  pose proof (other_handlers_frame _ _ _ _ _ _ Hh) as Hf.
  destruct m; try (exfalso; apply Hne; by rewrite Hf).
  - (* create *)
    cbn [handle] in Hh. apply create_bridge_hook in Hh as (s2 & Ha & Hc & Hh).
    apply hook_created_Some in Hh as (_ & Hh).
    destruct (parse c (c_meta c0)) as [chs|] eqn:Hp; [|subst s1; by rewrite Ha in Hne].
    destruct Hh as (a & Hr & _ & Hin & Hout). rewrite Ha, Hc in *.
    destruct (decide (pc ∈ chs)) as [Hi|Hi]; [|by rewrite (Hout pc Hi) in Hne].
    destruct (Hin pc Hi) as (H1 & H2 & H3). eapply rule_grant_on_create; eauto.
  - (* update challenger *)
    cbn [handle] in Hh. apply update_challenger_hook in Hh as (x & s2 & Hx & Hh & Ha).
    apply hook_challenger_Some in Hh as (_ & Hh). cbn [c_meta c_challenger with_challenger] in Hh.
    destruct (parse c (c_meta x)) as [chs|] eqn:Hp; [|subst s2; by rewrite Ha in Hne].
    destruct Hh as (a & Hr & Hin & Hout). rewrite Ha in *.
    destruct (decide (pc ∈ chs)) as [Hi|Hi]; [|by rewrite (Hout pc Hi) in Hne].
    eapply rule_handover; eauto. rewrite Ha. by apply Hin.
  - (* update metadata *)
    cbn [handle] in Hh. apply update_metadata_hook in Hh as (x & s2 & Hx & Hh & Ha).
    apply hook_metadata_Some in Hh as (_ & Hh). cbn [c_meta c_challenger with_meta] in Hh.
    destruct (parse c md) as [chs|] eqn:Hp; [|subst s2; by rewrite Ha in Hne].
    destruct Hh as (a & Hr & Hin & Hout). rewrite Ha in *.
    destruct (decide (pc ∈ chs)) as [Hi|Hi]; [|by rewrite (Hout pc Hi) in Hne].
    destruct (Hin pc Hi) as (H3 & [H1|[H1 H2]]); [by rewrite H1, H3 in Hne|].
    eapply rule_grant_on_metadata; eauto. by rewrite Ha.
  - (* environment *)
    cbn [handle] in Hh. injection Hh as <- _. cbn [admins upd_admins] in Hne.
    destruct (decide (pc0 = pc)) as [->|Hd]; [eapply rule_environment; eauto|].
    exfalso. apply Hne. destruct a; [by rewrite lookup_insert_ne|by rewrite lookup_delete_ne].
Qed.

(* ---- along every history ---- *)
Lemma run_cons_fst c s e m h : (run c s ((e, m) :: h)).1 = (run c (step c e s m).1 h).1.
Proof. cbn [run]. destruct (step c e s m) as [s1 r1]. cbn [fst]. destruct (run c s1 h) as [s2 rs]. reflexivity. Qed.

Lemma c19_history_only_by c h : ∀ s pc,
  admins (run c s h).1 !! pc ≠ admins s !! pc →
  ∃ h1 e m h2, h = h1 ++ (e, m) :: h2 ∧
    admin_change_rule c (run c s h1).1 m (step c e (run c s h1).1 m).1 pc.
Proof.
  induction h as [|[e m] h IH]; intros s pc Hne; [done|].
  rewrite run_cons_fst in Hne.
  destruct (decide (admins (step c e s m).1 !! pc = admins s !! pc)) as [Heq|Hd].
  - rewrite <- Heq in Hne. destruct (IH _ _ Hne) as (h1 & e1 & m1 & h2 & -> & Hr).
    exists ((e, m) :: h1), e1, m1, h2. split; [done|]. by rewrite run_cons_fst.
  - exists [], e, m, h. split; [done|]. cbn [run fst].
    destruct (step c e s m) as [s1 r1] eqn:Hs. eapply c19_step_only_by; eauto.
Qed.

(* ---- the strong reading is false: the capture history ---- *)
Lemma c19_capture_witness :
  let s := (run w_cfg init_state w_history).1 in
  no_adminset w_history ∧ all_ok (run w_cfg init_state w_history).2 ∧
  configs s !! 1%N = Some (w_config [4%N] [2%N] w_md) ∧
  parse w_cfg (c_meta (w_config [4%N] [2%N] w_md)) = Some [w_ch] ∧
  resolve w_cfg (c_challenger (w_config [4%N] [2%N] w_md)) = Some 2%N ∧
  admins s !! w_ch = Some 3%N.
Proof.
  cbn zeta. split; [repeat constructor|]. split; [vm_compute; repeat constructor|].
  split; [vm_compute; reflexivity|]. split; [vm_compute; reflexivity|].
  split; vm_compute; reflexivity.
Qed.

Lemma c19_strong_no_capture_refuted :
  ∃ c h, no_adminset h ∧ all_ok (run c init_state h).2 ∧ ¬ admin_follows_challenger c (run c init_state h).1.
Proof.
  exists w_cfg, w_history. destruct c19_capture_witness as (H1 & H2 & H3 & H4 & H5 & H6).
  split; [done|]. split; [done|]. intros Hf.
  specialize (Hf 1%N _ [w_ch] w_ch H3 H4 (elem_of_list_here _ _)). rewrite H5, H6 in Hf. discriminate.
Qed.

(* non-vacuity of the grant rules: in the witness history the creation of bridge 1 is a grant *)
Example c19_grant_nonvacuous :
  let s1 := (run w_cfg init_state (take 1 w_history)).1 in
  let s2 := (run w_cfg init_state (take 2 w_history)).1 in
  admins s1 !! w_ch = None ∧ admins s2 !! w_ch = Some 1%N.
Proof. split; vm_compute; reflexivity. Qed.
