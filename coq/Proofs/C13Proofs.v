(* C13: block-level invariants of the validator set and the engine (Model/ValChain.v). *)
From stdpp Require Import gmap numbers list sorting fin_map_dom.
From Coq Require Import ZArith Lia.
Require Import Model.Valset Model.ValChain.
Require Import Proofs.ValsetLemmas.

(* ---- sizes ---- *)
Lemma size_le_of_sub {A B} (m1 : gmap N A) (m2 : gmap N B) :
  (∀ k, is_Some (m1 !! k) → is_Some (m2 !! k)) → size m1 ≤ size m2.
Proof.
  intros H. rewrite <- !(size_dom (D := gset N)). apply subseteq_size.
  intros k Hk. apply elem_of_dom in Hk. apply elem_of_dom. auto.
Qed.

(* ---- mid-block: messages ---- *)
Definition core_inv (c : vcore) (e : gmap N Z) : Prop :=
  mid_inv (vc_vs c) e ∧ (N.of_nat (size (vals (vc_vs c))) ≤ vc_maxv c)%N.

Lemma vop_step_inv c e o c' : core_inv c e → vop_step c o = Some c' → core_inv c' e.
Proof.
  intros (Hm & Hsz) H. destruct o as [op key|op|m en]; simpl in H.
  - destruct (add_validator (vc_maxv c) (vc_vs c) op key) as [s'|] eqn:E; simpl in H; [|done]. simplify_eq.
    split; simpl; [by eapply add_validator_mid|]. by apply add_validator_size in E as (? & _).
  - destruct (remove_validator (vc_vs c) op) as [s'|] eqn:E; simpl in H; [|done]. simplify_eq.
    split; simpl; [by eapply remove_validator_mid|]. apply remove_validator_size in E. by rewrite E.
  - repeat case_bool_decide; try done. simplify_eq. split; simpl; [done|lia].
Qed.

Lemma vop_exec_inv c e o : core_inv c e → core_inv (vop_exec c o) e.
Proof.
  intros H. unfold vop_exec. destruct (vop_step c o) as [c'|] eqn:E; simpl; [by eapply vop_step_inv|done].
Qed.

Lemma foldl_vop_exec_inv ops : ∀ c e, core_inv c e → core_inv (foldl vop_exec c ops) e.
Proof. induction ops as [|o ops IH]; intros c e H; simpl; [done|]. apply IH. by apply vop_exec_inv. Qed.

(* ---- block boundary ---- *)
Definition chain_inv (st : chain) : Prop :=
  blk_inv (vc_vs (ch_core st)) (ch_eng st) ∧
  (N.of_nat (size (vals (vc_vs (ch_core st)))) ≤ vc_maxv (ch_core st))%N.

Lemma blk_last_sub s e : blk_inv s e → ∀ op, is_Some (last s !! op) → is_Some (vals s !! op).
Proof.
  intros ((_ & (He1 & _) & _) & _) op [p Hp]. destruct (He1 _ _ Hp) as (v & Hv & _). eauto.
Qed.

(* GetLastValidators does not panic: bonded <= stored <= max, and every bonded operator has a record *)
Lemma last_validators_Some maxv s e :
  blk_inv s e → (N.of_nat (size (vals s)) ≤ maxv)%N → is_Some (last_validators maxv s).
Proof.
  intros Hb Hsz. unfold last_validators.
  assert (length (map fst (sorted_ops (last s))) = size (last s)) as Hlen.
  { rewrite map_length. rewrite sorted_ops_perm. done. }
  rewrite Hlen. pose proof (size_le_of_sub (last s) (vals s) (blk_last_sub _ _ Hb)) as Hle.
  rewrite bool_decide_false by lia.
  apply mapM_is_Some. apply Forall_forall. intros op Hin. simpl.
  rewrite map_fmap in Hin. apply elem_of_list_fmap in Hin as ([o p] & -> & Hin).
  apply elem_of_sorted_ops in Hin. simpl.
  destruct (blk_last_sub _ _ Hb o) as [v Hv]; [eauto|]. rewrite Hv. simpl. eauto.
Qed.

Lemma begin_block_Some maxv entries h s e hist :
  blk_inv s e → (N.of_nat (size (vals s)) ≤ maxv)%N → is_Some (begin_block maxv entries h s hist).
Proof.
  intros Hb Hsz. unfold begin_block. case_bool_decide; [eauto|].
  destruct (last_validators_Some maxv s e Hb Hsz) as [r ->]. simpl. eauto.
Qed.

Lemma end_block_post_wellformed s e s' ups : end_block_post s e s' ups → batch_wellformed e ups.
Proof.
  intros (_ & _ & Hnd & Hwf & _). split; [by rewrite map_fmap|].
  split; apply Forall_forall; intros u Hu; by apply Hwf.
Qed.

(* one block: never halts, the batch is well-formed against the engine's set, invariant restored *)
Lemma block_spec st ops :
  chain_inv st →
  ∃ st' ups, block st ops = Some (st', ups) ∧ batch_wellformed (ch_eng st) ups ∧ chain_inv st' ∧
             ch_eng st' = apply_updates (ch_eng st) ups ∧ ch_height st' = (ch_height st + 1)%Z ∧
             end_block_post (vc_vs (foldl vop_exec (ch_core st) ops)) (ch_eng st) (vc_vs (ch_core st')) ups ∧
             vc_maxv (ch_core st') = vc_maxv (foldl vop_exec (ch_core st) ops) ∧
             vc_entries (ch_core st') = vc_entries (foldl vop_exec (ch_core st) ops).
Proof.
  intros (Hb & Hsz). unfold block.
  destruct (begin_block_Some (vc_maxv (ch_core st)) (vc_entries (ch_core st)) (ch_height st + 1)
              (vc_vs (ch_core st)) (ch_eng st) (ch_hist st) Hb Hsz) as [hist' ->]. simpl.
  assert (core_inv (ch_core st) (ch_eng st)) as Hc by (split; [apply Hb|done]).
  pose proof (foldl_vop_exec_inv ops _ _ Hc) as (Hm1 & Hsz1).
  destruct (end_block_spec _ _ Hm1) as (s' & ups & -> & Hpost). simpl.
  eexists _, _. split; [done|]. split; [by eapply end_block_post_wellformed|].
  split; [|done].
  destruct Hpost as (Hblk & Hvals & _). split; simpl; [done|].
  assert (size (vals s') ≤ size (vals (vc_vs (foldl vop_exec (ch_core st) ops)))) as Hle.
  { apply size_le_of_sub. intros k [v Hv]. apply Hvals in Hv as (Hv & _). eauto. }
  lia.
Qed.

(* what the invariant says in plain terms: the engine holds exactly (key, power) of the stored
   validators, all of which have positive power, and that is the last-power table through keys *)
Definition engine_is_state (s : vstate) (e : gmap N Z) : Prop :=
  ∀ k p, e !! k = Some p ↔ ∃ op v, vals s !! op = Some v ∧ v_key v = k ∧ v_pow v = p ∧ (0 < p)%Z.

Lemma blk_inv_engine_is_state s e : blk_inv s e → engine_is_state s e.
Proof.
  intros ((Hi & (He1 & He2) & Hp) & Hall) k p. split.
  - intros Hk. destruct (He2 _ _ Hk) as (op & v & Hl & Hv & Hkv).
    destruct (Hall _ _ Hv) as (Hl' & Hpos). exists op, v. assert (p = v_pow v) by congruence. subst. done.
  - intros (op & v & Hv & <- & <- & Hpos). destruct (Hall _ _ Hv) as (Hl & _).
    destruct (He1 _ _ Hl) as (v' & Hv' & Hev). congruence.
Qed.

Lemma blk_inv_last s e : blk_inv s e → last s = v_pow <$> vals s.
Proof.
  intros ((Hi & (He1 & He2) & Hp) & Hall). apply map_eq. intros op. rewrite lookup_fmap.
  destruct (vals s !! op) as [v|] eqn:Ev; simpl.
  - by destruct (Hall _ _ Ev).
  - destruct (last s !! op) as [p|] eqn:El; [|done]. destruct (He1 _ _ El) as (v & Hv & _). congruence.
Qed.

(* state_set as a map *)
Lemma state_set_lookup s k p :
  idx_ok s → state_set s !! k = Some p ↔ ∃ op v, vals s !! op = Some v ∧ v_key v = k ∧ v_pow v = p ∧ (0 < p)%Z.
Proof.
  intros Hi. unfold state_set, engine.
  set (l := filter (λ ov : N * val, (0 < v_pow ov.2)%Z) (map_to_list (vals s))).
  assert (∀ op v, (op, v) ∈ l ↔ vals s !! op = Some v ∧ (0 < v_pow v)%Z) as Hl.
  { intros op v. unfold l. rewrite elem_of_list_filter. simpl. rewrite elem_of_map_to_list. tauto. }
  rewrite map_fmap.
  assert (NoDup ((λ ov : N * val, (v_key ov.2, v_pow ov.2)) <$> l).*1) as Hnd.
  { rewrite <- list_fmap_compose. apply NoDup_fmap_2_strong.
    - intros [o1 v1] [o2 v2] H1 H2 Hk. simpl in Hk. apply Hl in H1 as (H1 & _). apply Hl in H2 as (H2 & _).
      assert (o1 = o2) by (eapply idx_ok_inj; eauto). subst. congruence.
    - unfold l. apply NoDup_filter. apply NoDup_map_to_list. }
  rewrite <- elem_of_list_to_map by done. rewrite elem_of_list_fmap. split.
  - intros ([op v] & Heq & Hin). simpl in Heq. simplify_eq. apply Hl in Hin as (? & ?). eauto 10.
  - intros (op & v & Hv & <- & <- & Hpos). exists (op, v). split; [done|]. apply Hl. done.
Qed.

Lemma blk_inv_state_set s e : blk_inv s e → e = state_set s.
Proof.
  intros Hb. apply map_eq. intros k. apply option_eq. intros p.
  rewrite state_set_lookup by apply Hb. by apply blk_inv_engine_is_state.
Qed.

(* ---- histories ---- *)
(* the engine accepts a batch that is well-formed, bounded, and leaves a non-empty set of
   bounded total power *)
Lemma engine_apply_accepts (e : gmap N Z) ups :
  batch_wellformed e ups → Forall (λ u, u.2 ≤ maxtotal)%Z ups →
  apply_updates e ups ≠ ∅ → (total_power (apply_updates e ups) ≤ maxtotal)%Z →
  engine_apply e ups = Some (apply_updates e ups).
Proof.
  intros (Hnd & Hpos & Hrem) Hmax Hne Htot. unfold engine_apply.
  case_bool_decide; [subst; done|].
  rewrite bool_decide_true by done.
  rewrite bool_decide_true.
  2:{ apply Forall_forall. intros u Hu. rewrite Forall_forall in Hpos, Hmax. split; auto. }
  rewrite bool_decide_true by done.
  rewrite bool_decide_false by done. rewrite bool_decide_false by lia. done.
Qed.

(* all blocks of a history *)
Lemma run_blocks_spec bs : ∀ st,
  chain_inv st →
  ∃ st' bl, run_blocks st bs = Some (st', bl) ∧ chain_inv st' ∧ length bl = length bs ∧
            ch_height st' = (ch_height st + Z.of_nat (length bs))%Z.
Proof.
  induction bs as [|b bs IH]; intros st Hinv; simpl.
  - eexists _, _. split; [done|]. split; [done|]. split; [done|]. lia.
  - destruct (block_spec st b Hinv) as (st1 & ups & -> & _ & Hinv1 & _ & Hh & _). simpl.
    destruct (IH st1 Hinv1) as (st' & bl & -> & Hinv' & Hlen & Hh'). simpl.
    eexists _, _. split; [done|]. split; [done|]. split; [simpl; lia|]. lia.
Qed.

(* the batches of a history applied in order to the engine's start set give the engine's set,
   and each is well-formed against the set it is applied to *)
Fixpoint batches_ok (e : gmap N Z) (bl : list (list update)) : Prop :=
  match bl with
  | [] => True
  | ups :: bl' => batch_wellformed e ups ∧ batches_ok (apply_updates e ups) bl'
  end.

Lemma run_blocks_batches bs : ∀ st st' bl,
  chain_inv st → run_blocks st bs = Some (st', bl) →
  batches_ok (ch_eng st) bl ∧ ch_eng st' = foldl apply_updates (ch_eng st) bl.
Proof.
  induction bs as [|b bs IH]; intros st st' bl Hinv H; simpl in H.
  - simplify_eq. done.
  - destruct (block_spec st b Hinv) as (st1 & ups & Hb & Hwf & Hinv1 & Heng & _). rewrite Hb in H. simpl in H.
    destruct (run_blocks st1 bs) as [[st2 bl2]|] eqn:E; simpl in H; [|done]. simplify_eq.
    destruct (IH _ _ _ Hinv1 E) as (Hok & Hfold). simpl. rewrite <- Heng. done.
Qed.

(* ---- genesis ---- *)
Definition gen_ops (l : list (N * N * Z)) : list N := map (λ x, x.1.1) l.
Definition gen_keys (l : list (N * N * Z)) : list N := map (λ x, x.1.2) l.

Lemma genesis_load_spec l :
  NoDup (gen_ops l) → NoDup (gen_keys l) →
  let s := genesis_load l in
  last s = ∅ ∧
  (∀ op v, vals s !! op = Some v ↔ (op, v_key v, v_pow v) ∈ l) ∧
  (∀ k op, idx s !! k = Some op ↔ ∃ p, (op, k, p) ∈ l).
Proof.
  intros Hno Hnk. unfold genesis_load.
  set (f := λ (s : vstate) (x : N * N * Z),
         {| vals := <[x.1.1 := {| v_key := x.1.2; v_pow := x.2 |}]> (vals s);
            idx := <[x.1.2 := x.1.1]> (idx s); last := last s |}).
  apply (foldl_prefix_ind f (λ pre s,
     last s = ∅ ∧ (∀ op v, vals s !! op = Some v ↔ (op, v_key v, v_pow v) ∈ pre) ∧
     (∀ k op, idx s !! k = Some op ↔ ∃ p, (op, k, p) ∈ pre))).
  - simpl. split; [done|]. split.
    + intros op v. rewrite lookup_empty. split; [done|]. intros H. by apply elem_of_nil in H.
    + intros k op. rewrite lookup_empty. split; [done|]. intros [p H]. by apply elem_of_nil in H.
  - intros pre [[o k] p] suf s Hl (Hlast & Hvals & Hidx). simpl.
    assert (∀ k' p', (o, k', p') ∉ pre) as Hfo.
    { intros k' p' Hin. unfold gen_ops in Hno. rewrite Hl, map_app in Hno. simpl in Hno.
      apply NoDup_app in Hno as (_ & Hd & _). apply (Hd o).
      - rewrite map_fmap. apply elem_of_list_fmap. by exists (o, k', p').
      - left. }
    assert (∀ o' p', (o', k, p') ∉ pre) as Hfk.
    { intros o' p' Hin. unfold gen_keys in Hnk. rewrite Hl, map_app in Hnk. simpl in Hnk.
      apply NoDup_app in Hnk as (_ & Hd & _). apply (Hd k).
      - rewrite map_fmap. apply elem_of_list_fmap. by exists (o', k, p').
      - left. }
    split; [done|]. split.
    + intros op v. rewrite elem_of_app, elem_of_list_singleton. destruct (decide (op = o)) as [->|Hne].
      * rewrite lookup_insert. split.
        -- intros [= <-]. by right.
        -- intros [Hin|Heq]; [by apply Hfo in Hin|]. destruct v. simpl in *. by simplify_eq.
      * rewrite lookup_insert_ne by done. rewrite Hvals. split; [by left|].
        intros [Hin|Heq]; [done|]. by simplify_eq.
    + intros k' op. destruct (decide (k' = k)) as [->|Hne].
      * rewrite lookup_insert. split.
        -- intros [= <-]. exists p. apply elem_of_app. right. by left.
        -- intros [p' Hin]. apply elem_of_app in Hin as [Hin|Hin]; [by apply Hfk in Hin|].
           apply elem_of_list_singleton in Hin. by simplify_eq.
      * rewrite lookup_insert_ne by done. rewrite Hidx. split.
        -- intros [p' Hin]. exists p'. apply elem_of_app. by left.
        -- intros [p' Hin]. apply elem_of_app in Hin as [Hin|Hin]; [eauto|].
           apply elem_of_list_singleton in Hin. by simplify_eq.
Qed.

Lemma genesis_load_size l : NoDup (gen_ops l) → size (vals (genesis_load l)) ≤ length l.
Proof.
  intros _. unfold genesis_load.
  assert (∀ s, size (vals (foldl (λ (s : vstate) (x : N * N * Z),
             {| vals := <[x.1.1 := {| v_key := x.1.2; v_pow := x.2 |}]> (vals s);
                idx := <[x.1.2 := x.1.1]> (idx s); last := last s |}) s l)) ≤ size (vals s) + length l) as G.
  { induction l as [|x l IH]; intros s; simpl; [lia|].
    etrans; [apply IH|]. simpl.
    destruct (vals s !! x.1.1) eqn:E.
    - rewrite map_size_insert_Some by eauto. lia.
    - rewrite map_size_insert_None by done. lia. }
  specialize (G vempty). simpl in G. rewrite map_size_empty in G. lia.
Qed.

(* a genesis in the sense of the theorems: accepted by ValidateGenesis, positive powers, not an
   export (the exported form is covered by [genesis_exported_spec]) *)
Definition genesis_valid (g : vgenesis) : Prop :=
  validate_genesis g = true ∧ Forall (λ x, 0 < x.2)%Z (g_vals g).

Lemma validate_genesis_true g :
  validate_genesis g = true →
  NoDup (gen_keys (g_vals g)) ∧ NoDup (gen_ops (g_vals g)) ∧
  (N.of_nat (length (g_vals g)) ≤ g_maxv g)%N ∧ g_maxv g ≠ 0%N.
Proof.
  unfold validate_genesis. rewrite !andb_true_iff, !bool_decide_eq_true, negb_true_iff, bool_decide_eq_false. tauto.
Qed.

Lemma genesis_mid l :
  NoDup (gen_ops l) → NoDup (gen_keys l) → Forall (λ x, 0 < x.2)%Z l → mid_inv (genesis_load l) ∅.
Proof.
  intros Hno Hnk Hpos. destruct (genesis_load_spec l Hno Hnk) as (Hlast & Hvals & Hidx).
  split; [|split].
  - intros k op. rewrite Hidx. split.
    + intros [p Hin]. exists {| v_key := k; v_pow := p |}. split; [|done]. by apply Hvals.
    + intros (v & Hv & <-). apply Hvals in Hv. eauto.
  - split.
    + intros op p. rewrite Hlast, lookup_empty. done.
    + intros k p. rewrite lookup_empty. done.
  - intros op v Hv. apply Hvals in Hv. rewrite Forall_forall in Hpos. apply Hpos in Hv. simpl in Hv. lia.
Qed.

Lemma genesis_chain_spec g h0 :
  genesis_valid g → g_exported g = false →
  ∃ st ups, genesis_chain g h0 = Some (st, ups) ∧ batch_wellformed ∅ ups ∧ chain_inv st ∧
            ch_height st = h0 ∧ ch_hist st = ∅ ∧ ch_snaps st = ∅ ∧
            vc_maxv (ch_core st) = g_maxv g ∧ vc_entries (ch_core st) = g_entries g.
Proof.
  intros (Hv & Hpos) Hexp. apply validate_genesis_true in Hv as (Hnk & Hno & Hlen & Hm0).
  unfold genesis_chain, init_genesis. rewrite bool_decide_false by done. rewrite Hexp.
  pose proof (genesis_mid _ Hno Hnk Hpos) as Hmid.
  destruct (end_block_spec _ _ Hmid) as (s' & ups & -> & Hpost). simpl.
  eexists _, _. split; [done|]. split; [by eapply end_block_post_wellformed|].
  split; [|done]. destruct Hpost as (Hblk & Hvals & _). split; simpl; [done|].
  assert (size (vals s') ≤ size (vals (genesis_load (g_vals g)))) as Hle.
  { apply size_le_of_sub. intros k [v Hv]. apply Hvals in Hv as (Hv & _). eauto. }
  pose proof (genesis_load_size (g_vals g) Hno). lia.
Qed.

(* ---- C13 main statements ---- *)
Theorem c13_engine_equals_state g h0 bs :
  genesis_valid g → g_exported g = false →
  ∃ st0 ups0 st bl,
    genesis_chain g h0 = Some (st0, ups0) ∧ run_blocks st0 bs = Some (st, bl) ∧
    length bl = length bs ∧
    (* every batch, the genesis one included, is well-formed against the set it is applied to *)
    batches_ok ∅ (ups0 :: bl) ∧
    (* the batches applied in order give the engine's set ... *)
    ch_eng st = foldl apply_updates ∅ (ups0 :: bl) ∧
    (* ... which is exactly the positive-power validators of the state, all of the stored ones *)
    ch_eng st = state_set (vc_vs (ch_core st)) ∧
    engine_is_state (vc_vs (ch_core st)) (ch_eng st) ∧
    (∀ op v, vals (vc_vs (ch_core st)) !! op = Some v → (0 < v_pow v)%Z) ∧
    (* ... and the last-power table (mapped through the keys) *)
    last (vc_vs (ch_core st)) = v_pow <$> vals (vc_vs (ch_core st)) ∧
    eng_last (vc_vs (ch_core st)) (ch_eng st).
Proof.
  intros Hg Hexp. destruct (genesis_chain_spec g h0 Hg Hexp) as (st0 & ups0 & Hgen & Hwf0 & Hinv0 & _).
  destruct (run_blocks_spec bs st0 Hinv0) as (st & bl & Hrun & Hinv & Hlen & _).
  destruct (run_blocks_batches bs _ _ _ Hinv0 Hrun) as (Hok & Hfold).
  assert (ch_eng st0 = apply_updates ∅ ups0) as He0.
  { unfold genesis_chain in Hgen. destruct (init_genesis g) as [r|]; simpl in Hgen; [|done]. by simplify_eq. }
  exists st0, ups0, st, bl. split; [done|]. split; [done|]. split; [done|].
  rewrite He0 in Hok, Hfold.
  split; [split; [done|exact Hok]|]. split; [exact Hfold|].
  destruct Hinv as (Hb & _).
  split; [by apply blk_inv_state_set|]. split; [by apply blk_inv_engine_is_state|].
  split; [intros op v Hv; by apply Hb in Hv as (_ & ?)|].
  split; [by eapply blk_inv_last|]. apply Hb.
Qed.
