(* C13: block-level invariants of the validator set and the engine (Model/ValChain.v). *)
From stdpp Require Import gmap numbers list sorting fin_map_dom.
From Coq Require Import ZArith Lia.
Require Import Model.Valset Model.ValChain.
Require Import Proofs.ValsetLemmas.

(* ---- sizes ---- *)
Lemma size_le_of_sub {A B} (m1 : gmap N A) (m2 : gmap N B) :
  (∀ k, is_Some (m1 !! k) → is_Some (m2 !! k)) → size m1 ≤ size m2.
Proof.
  intros H. rewrite <- !(size_dom (D := gset N)). apply subseteq_size.
  intros k Hk. apply elem_of_dom in Hk. apply elem_of_dom. auto.
Qed.

(* ---- mid-block: messages ---- *)
Definition core_inv (c : vcore) (e : gmap N Z) : Prop :=
  mid_inv (vc_vs c) e ∧ (N.of_nat (size (vals (vc_vs c))) ≤ vc_maxv c)%N.

Lemma vop_step_inv c e o c' : core_inv c e → vop_step c o = Some c' → core_inv c' e.
Proof.
  intros (Hm & Hsz) H. destruct o as [op key|op|m en]; simpl in H.
  - destruct (add_validator (vc_maxv c) (vc_vs c) op key) as [s'|] eqn:E; simpl in H; [|done]. simplify_eq.
    split; simpl; [by eapply add_validator_mid|]. by apply add_validator_size in E as (? & _).
  - destruct (remove_validator (vc_vs c) op) as [s'|] eqn:E; simpl in H; [|done]. simplify_eq.
    split; simpl; [by eapply remove_validator_mid|]. apply remove_validator_size in E. by rewrite E.
  - repeat case_bool_decide; try done. simplify_eq. split; simpl; [done|lia].
Qed.

Lemma vop_exec_inv c e o : core_inv c e → core_inv (vop_exec c o) e.
Proof.
  intros H. unfold vop_exec. destruct (vop_step c o) as [c'|] eqn:E; simpl; [by eapply vop_step_inv|done].
Qed.

Lemma foldl_vop_exec_inv ops : ∀ c e, core_inv c e → core_inv (foldl vop_exec c ops) e.
Proof. induction ops as [|o ops IH]; intros c e H; simpl; [done|]. apply IH. by apply vop_exec_inv. Qed.

(* ---- block boundary ---- *)
Definition chain_inv (st : chain) : Prop :=
  blk_inv (vc_vs (ch_core st)) (ch_eng st) ∧
  (N.of_nat (size (vals (vc_vs (ch_core st)))) ≤ vc_maxv (ch_core st))%N.

Lemma mid_last_sub s e : mid_inv s e → ∀ op, is_Some (last s !! op) → is_Some (vals s !! op).
Proof.
  intros (_ & (He1 & _) & _) op [p Hp]. destruct (He1 _ _ Hp) as (v & Hv & _). eauto.
Qed.
Lemma blk_last_sub s e : blk_inv s e → ∀ op, is_Some (last s !! op) → is_Some (vals s !! op).
Proof. intros (Hm & _). by eapply mid_last_sub. Qed.

(* GetLastValidators does not panic: bonded <= stored <= max, and every bonded operator has a record *)
Lemma last_validators_Some maxv s e :
  mid_inv s e → (N.of_nat (size (vals s)) ≤ maxv)%N → is_Some (last_validators maxv s).
Proof.
  intros Hb Hsz. unfold last_validators.
  assert (length (map fst (sorted_ops (last s))) = size (last s)) as Hlen.
  { rewrite map_length. rewrite sorted_ops_perm. done. }
  rewrite Hlen. pose proof (size_le_of_sub (last s) (vals s) (mid_last_sub _ _ Hb)) as Hle.
  rewrite bool_decide_false by lia.
  apply mapM_is_Some. apply Forall_forall. intros op Hin. simpl.
  rewrite map_fmap in Hin. apply elem_of_list_fmap in Hin as ([o p] & -> & Hin).
  apply elem_of_sorted_ops in Hin. simpl.
  destruct (mid_last_sub _ _ Hb o) as [v Hv]; [eauto|]. rewrite Hv. simpl. eauto.
Qed.

Lemma begin_block_Some maxv entries h s e hist :
  mid_inv s e → (N.of_nat (size (vals s)) ≤ maxv)%N → is_Some (begin_block maxv entries h s hist).
Proof.
  intros Hb Hsz. unfold begin_block. case_bool_decide; [eauto|].
  destruct (last_validators_Some maxv s e Hb Hsz) as [r ->]. simpl. eauto.
Qed.

Lemma end_block_post_wellformed s e s' ups : end_block_post s e s' ups → batch_wellformed e ups.
Proof.
  intros (_ & _ & Hnd & Hwf & _). split; [by rewrite map_fmap|].
  split; apply Forall_forall; intros u Hu; by apply Hwf.
Qed.

(* the weaker invariant that already suffices for a block to run: what an edited export
   leaves behind (the engine holds the LAST powers, the records may carry other powers) *)
Definition boot_inv (st : chain) : Prop :=
  mid_inv (vc_vs (ch_core st)) (ch_eng st) ∧
  (N.of_nat (size (vals (vc_vs (ch_core st)))) ≤ vc_maxv (ch_core st))%N.
Lemma chain_boot_inv st : chain_inv st → boot_inv st.
Proof. intros ((Hm & _) & Hsz). done. Qed.

(* one block: never halts, the batch is well-formed against the engine's set, invariant restored *)
Lemma block_spec_mid st ops :
  boot_inv st →
  ∃ st' ups, block st ops = Some (st', ups) ∧ batch_wellformed (ch_eng st) ups ∧ chain_inv st' ∧
             ch_eng st' = apply_updates (ch_eng st) ups ∧ ch_height st' = (ch_height st + 1)%Z ∧
             end_block_post (vc_vs (foldl vop_exec (ch_core st) ops)) (ch_eng st) (vc_vs (ch_core st')) ups ∧
             vc_maxv (ch_core st') = vc_maxv (foldl vop_exec (ch_core st) ops) ∧
             vc_entries (ch_core st') = vc_entries (foldl vop_exec (ch_core st) ops).
Proof.
  intros (Hb & Hsz). unfold block.
  destruct (begin_block_Some (vc_maxv (ch_core st)) (vc_entries (ch_core st)) (ch_height st + 1)
              (vc_vs (ch_core st)) (ch_eng st) (ch_hist st) Hb Hsz) as [hist' ->]. simpl.
  assert (core_inv (ch_core st) (ch_eng st)) as Hc by (split; done).
  pose proof (foldl_vop_exec_inv ops _ _ Hc) as (Hm1 & Hsz1).
  destruct (end_block_spec _ _ Hm1) as (s' & ups & -> & Hpost). simpl.
  eexists _, _. split; [done|]. split; [by eapply end_block_post_wellformed|].
  split; [|done].
  destruct Hpost as (Hblk & Hvals & _). split; simpl; [done|].
  assert (size (vals s') ≤ size (vals (vc_vs (foldl vop_exec (ch_core st) ops)))) as Hle.
  { apply size_le_of_sub. intros k [v Hv]. apply Hvals in Hv as (Hv & _). eauto. }
  lia.
Qed.

Lemma block_spec st ops :
  chain_inv st →
  ∃ st' ups, block st ops = Some (st', ups) ∧ batch_wellformed (ch_eng st) ups ∧ chain_inv st' ∧
             ch_eng st' = apply_updates (ch_eng st) ups ∧ ch_height st' = (ch_height st + 1)%Z ∧
             end_block_post (vc_vs (foldl vop_exec (ch_core st) ops)) (ch_eng st) (vc_vs (ch_core st')) ups ∧
             vc_maxv (ch_core st') = vc_maxv (foldl vop_exec (ch_core st) ops) ∧
             vc_entries (ch_core st') = vc_entries (foldl vop_exec (ch_core st) ops).
Proof. intros H. apply block_spec_mid. by apply chain_boot_inv. Qed.

(* what the invariant says in plain terms: the engine holds exactly (key, power) of the stored
   validators, all of which have positive power, and that is the last-power table through keys *)
Definition engine_is_state (s : vstate) (e : gmap N Z) : Prop :=
  ∀ k p, e !! k = Some p ↔ ∃ op v, vals s !! op = Some v ∧ v_key v = k ∧ v_pow v = p ∧ (0 < p)%Z.

Lemma blk_inv_engine_is_state s e : blk_inv s e → engine_is_state s e.
Proof.
  intros ((Hi & (He1 & He2) & Hp) & Hall) k p. split.
  - intros Hk. destruct (He2 _ _ Hk) as (op & v & Hl & Hv & Hkv).
    destruct (Hall _ _ Hv) as (Hl' & Hpos). exists op, v. assert (p = v_pow v) by congruence. subst. done.
  - intros (op & v & Hv & <- & <- & Hpos). destruct (Hall _ _ Hv) as (Hl & _).
    destruct (He1 _ _ Hl) as (v' & Hv' & Hev). congruence.
Qed.

Lemma blk_inv_last s e : blk_inv s e → last s = v_pow <$> vals s.
Proof.
  intros ((Hi & (He1 & He2) & Hp) & Hall). apply map_eq. intros op. rewrite lookup_fmap.
  destruct (vals s !! op) as [v|] eqn:Ev; simpl.
  - by destruct (Hall _ _ Ev).
  - destruct (last s !! op) as [p|] eqn:El; [|done]. destruct (He1 _ _ El) as (v & Hv & _). congruence.
Qed.

(* state_set as a map *)
Lemma state_set_lookup s k p :
  idx_ok s → state_set s !! k = Some p ↔ ∃ op v, vals s !! op = Some v ∧ v_key v = k ∧ v_pow v = p ∧ (0 < p)%Z.
Proof.
  intros Hi. unfold state_set, engine.
  set (l := filter (λ ov : N * val, (0 < v_pow ov.2)%Z) (map_to_list (vals s))).
  assert (∀ op v, (op, v) ∈ l ↔ vals s !! op = Some v ∧ (0 < v_pow v)%Z) as Hl.
  { intros op v. unfold l. rewrite elem_of_list_filter. simpl. rewrite elem_of_map_to_list. tauto. }
  rewrite map_fmap.
  assert (NoDup ((λ ov : N * val, (v_key ov.2, v_pow ov.2)) <$> l).*1) as Hnd.
  { rewrite <- list_fmap_compose. apply NoDup_fmap_2_strong.
    - intros [o1 v1] [o2 v2] H1 H2 Hk. simpl in Hk. apply Hl in H1 as (H1 & _). apply Hl in H2 as (H2 & _).
      assert (o1 = o2) by (eapply idx_ok_inj; eauto). subst. congruence.
    - unfold l. apply NoDup_filter. apply NoDup_map_to_list. }
  rewrite <- elem_of_list_to_map by done. rewrite elem_of_list_fmap. split.
  - intros ([op v] & Heq & Hin). simpl in Heq. simplify_eq. apply Hl in Hin as (? & ?). eauto 10.
  - intros (op & v & Hv & <- & <- & Hpos). exists (op, v). split; [done|]. apply Hl. done.
Qed.

Lemma blk_inv_state_set s e : blk_inv s e → e = state_set s.
Proof.
  intros Hb. apply map_eq. intros k. apply option_eq. intros p.
  rewrite state_set_lookup by apply Hb. by apply blk_inv_engine_is_state.
Qed.

(* ---- histories ---- *)
(* the engine accepts a batch that is well-formed, bounded, and leaves a non-empty set of
   bounded total power *)
Lemma engine_apply_accepts (e : gmap N Z) ups :
  batch_wellformed e ups → Forall (λ u, u.2 ≤ maxtotal)%Z ups →
  apply_updates e ups ≠ ∅ → (total_power (apply_updates e ups) ≤ maxtotal)%Z →
  engine_apply e ups = Some (apply_updates e ups).
Proof.
  intros (Hnd & Hpos & Hrem) Hmax Hne Htot. unfold engine_apply.
  case_bool_decide; [subst; done|].
  rewrite bool_decide_true by done.
  rewrite bool_decide_true.
  2:{ apply Forall_forall. intros u Hu. rewrite Forall_forall in Hpos, Hmax. split; auto. }
  rewrite bool_decide_true by done.
  rewrite bool_decide_false by done. rewrite bool_decide_false by lia. done.
Qed.

(* all blocks of a history *)
Lemma run_blocks_spec bs : ∀ st,
  chain_inv st →
  ∃ st' bl, run_blocks st bs = Some (st', bl) ∧ chain_inv st' ∧ length bl = length bs ∧
            ch_height st' = (ch_height st + Z.of_nat (length bs))%Z.
Proof.
  induction bs as [|b bs IH]; intros st Hinv; simpl.
  - eexists _, _. split; [done|]. split; [done|]. split; [done|]. lia.
  - destruct (block_spec st b Hinv) as (st1 & ups & -> & _ & Hinv1 & _ & Hh & _). simpl.
    destruct (IH st1 Hinv1) as (st' & bl & -> & Hinv' & Hlen & Hh'). simpl.
    eexists _, _. split; [done|]. split; [done|]. split; [simpl; lia|]. lia.
Qed.

(* the batches of a history applied in order to the engine's start set give the engine's set,
   and each is well-formed against the set it is applied to *)
Fixpoint batches_ok (e : gmap N Z) (bl : list (list update)) : Prop :=
  match bl with
  | [] => True
  | ups :: bl' => batch_wellformed e ups ∧ batches_ok (apply_updates e ups) bl'
  end.

Lemma run_blocks_batches bs : ∀ st st' bl,
  chain_inv st → run_blocks st bs = Some (st', bl) →
  batches_ok (ch_eng st) bl ∧ ch_eng st' = foldl apply_updates (ch_eng st) bl.
Proof.
  induction bs as [|b bs IH]; intros st st' bl Hinv H; simpl in H.
  - simplify_eq. done.
  - destruct (block_spec st b Hinv) as (st1 & ups & Hb & Hwf & Hinv1 & Heng & _). rewrite Hb in H. simpl in H.
    destruct (run_blocks st1 bs) as [[st2 bl2]|] eqn:E; simpl in H; [|done]. simplify_eq.
    destruct (IH _ _ _ Hinv1 E) as (Hok & Hfold). simpl. rewrite <- Heng. done.
Qed.

(* ---- genesis ---- *)
Definition gen_ops (l : list (N * N * Z)) : list N := map (λ x, x.1.1) l.
Definition gen_keys (l : list (N * N * Z)) : list N := map (λ x, x.1.2) l.

Lemma genesis_load_spec l :
  NoDup (gen_ops l) → NoDup (gen_keys l) →
  let s := genesis_load l in
  last s = ∅ ∧
  (∀ op v, vals s !! op = Some v ↔ (op, v_key v, v_pow v) ∈ l) ∧
  (∀ k op, idx s !! k = Some op ↔ ∃ p, (op, k, p) ∈ l).
Proof.
  intros Hno Hnk. unfold genesis_load.
  set (f := λ (s : vstate) (x : N * N * Z),
         {| vals := <[x.1.1 := {| v_key := x.1.2; v_pow := x.2 |}]> (vals s);
            idx := <[x.1.2 := x.1.1]> (idx s); last := last s |}).
  apply (foldl_prefix_ind f (λ pre s,
     last s = ∅ ∧ (∀ op v, vals s !! op = Some v ↔ (op, v_key v, v_pow v) ∈ pre) ∧
     (∀ k op, idx s !! k = Some op ↔ ∃ p, (op, k, p) ∈ pre))).
  - simpl. split; [done|]. split.
    + intros op v. rewrite lookup_empty. split; [done|]. intros H. by apply elem_of_nil in H.
    + intros k op. rewrite lookup_empty. split; [done|]. intros [p H]. by apply elem_of_nil in H.
  - intros pre [[o k] p] suf s Hl (Hlast & Hvals & Hidx). simpl.
    assert (∀ k' p', (o, k', p') ∉ pre) as Hfo.
    { intros k' p' Hin. unfold gen_ops in Hno. rewrite Hl, map_app in Hno. simpl in Hno.
      apply NoDup_app in Hno as (_ & Hd & _). apply (Hd o).
      - rewrite map_fmap. apply elem_of_list_fmap. by exists (o, k', p').
      - left. }
    assert (∀ o' p', (o', k, p') ∉ pre) as Hfk.
    { intros o' p' Hin. unfold gen_keys in Hnk. rewrite Hl, map_app in Hnk. simpl in Hnk.
      apply NoDup_app in Hnk as (_ & Hd & _). apply (Hd k).
      - rewrite map_fmap. apply elem_of_list_fmap. by exists (o', k, p').
      - left. }
    split; [done|]. split.
    + intros op v. rewrite elem_of_app, elem_of_list_singleton. destruct (decide (op = o)) as [->|Hne].
      * rewrite lookup_insert. split.
        -- intros [= <-]. by right.
        -- intros [Hin|Heq]; [by apply Hfo in Hin|]. destruct v. simpl in *. by simplify_eq.
      * rewrite lookup_insert_ne by done. rewrite Hvals. split; [by left|].
        intros [Hin|Heq]; [done|]. by simplify_eq.
    + intros k' op. destruct (decide (k' = k)) as [->|Hne].
      * rewrite lookup_insert. split.
        -- intros [= <-]. exists p. apply elem_of_app. right. by left.
        -- intros [p' Hin]. apply elem_of_app in Hin as [Hin|Hin]; [by apply Hfk in Hin|].
           apply elem_of_list_singleton in Hin. by simplify_eq.
      * rewrite lookup_insert_ne by done. rewrite Hidx. split.
        -- intros [p' Hin]. exists p'. apply elem_of_app. by left.
        -- intros [p' Hin]. apply elem_of_app in Hin as [Hin|Hin]; [eauto|].
           apply elem_of_list_singleton in Hin. by simplify_eq.
Qed.

Lemma genesis_load_size l : NoDup (gen_ops l) → size (vals (genesis_load l)) ≤ length l.
Proof.
  intros _. unfold genesis_load.
  assert (∀ s, size (vals (foldl (λ (s : vstate) (x : N * N * Z),
             {| vals := <[x.1.1 := {| v_key := x.1.2; v_pow := x.2 |}]> (vals s);
                idx := <[x.1.2 := x.1.1]> (idx s); last := last s |}) s l)) ≤ size (vals s) + length l) as G.
  { induction l as [|x l IH]; intros s; simpl; [lia|].
    etrans; [apply IH|]. simpl.
    destruct (vals s !! x.1.1) eqn:E.
    - rewrite map_size_insert_Some by eauto. lia.
    - rewrite map_size_insert_None by done. lia. }
  specialize (G vempty). simpl in G. rewrite map_size_empty in G. lia.
Qed.

(* a genesis in the sense of the theorems: accepted by ValidateGenesis, positive powers, not an
   export (the exported form is covered by [genesis_exported_spec]) *)
Definition genesis_valid (g : vgenesis) : Prop :=
  validate_genesis g = true ∧ Forall (λ x, 0 < x.2)%Z (g_vals g).

Lemma validate_genesis_true g :
  validate_genesis g = true →
  NoDup (gen_keys (g_vals g)) ∧ NoDup (gen_ops (g_vals g)) ∧
  (N.of_nat (length (g_vals g)) ≤ g_maxv g)%N ∧ g_maxv g ≠ 0%N.
Proof.
  unfold validate_genesis. rewrite !andb_true_iff, !bool_decide_eq_true, negb_true_iff, bool_decide_eq_false. tauto.
Qed.

Lemma genesis_mid l :
  NoDup (gen_ops l) → NoDup (gen_keys l) → Forall (λ x, 0 < x.2)%Z l → mid_inv (genesis_load l) ∅.
Proof.
  intros Hno Hnk Hpos. destruct (genesis_load_spec l Hno Hnk) as (Hlast & Hvals & Hidx).
  split; [|split].
  - intros k op. rewrite Hidx. split.
    + intros [p Hin]. exists {| v_key := k; v_pow := p |}. split; [|done]. by apply Hvals.
    + intros (v & Hv & <-). apply Hvals in Hv. eauto.
  - split.
    + intros op p. rewrite Hlast, lookup_empty. done.
    + intros k p. rewrite lookup_empty. done.
  - intros op v Hv. apply Hvals in Hv. rewrite Forall_forall in Hpos. apply Hpos in Hv. simpl in Hv. lia.
Qed.

Lemma genesis_chain_spec g h0 :
  genesis_valid g → g_exported g = false →
  ∃ st ups, genesis_chain g h0 = Some (st, ups) ∧ batch_wellformed ∅ ups ∧ chain_inv st ∧
            ch_height st = h0 ∧ ch_hist st = ∅ ∧ ch_snaps st = ∅ ∧
            vc_maxv (ch_core st) = g_maxv g ∧ vc_entries (ch_core st) = g_entries g.
Proof.
  intros (Hv & Hpos) Hexp. apply validate_genesis_true in Hv as (Hnk & Hno & Hlen & Hm0).
  unfold genesis_chain, init_genesis. rewrite bool_decide_false by done. rewrite Hexp.
  pose proof (genesis_mid _ Hno Hnk Hpos) as Hmid.
  destruct (end_block_spec _ _ Hmid) as (s' & ups & -> & Hpost). simpl.
  eexists _, _. split; [done|]. split; [by eapply end_block_post_wellformed|].
  split; [|done]. destruct Hpost as (Hblk & Hvals & _). split; simpl; [done|].
  assert (size (vals s') ≤ size (vals (genesis_load (g_vals g)))) as Hle.
  { apply size_le_of_sub. intros k [v Hv]. apply Hvals in Hv as (Hv & _). eauto. }
  pose proof (genesis_load_size (g_vals g) Hno). lia.
Qed.

(* ---- exported genesis: last powers given, one update per entry ---- *)
Definition export_step (acc : option (vstate * list update)) (lv : N * Z) : option (vstate * list update) :=
  '(s, ups) ← acc; v ← vals s !! lv.1;
  Some ({| vals := vals s; idx := idx s; last := <[lv.1 := lv.2]> (last s) |}, ups ++ [(v_key v, lv.2)]).

Definition genesis_valid_exported (g : vgenesis) : Prop :=
  validate_genesis g = true ∧ Forall (λ x, 0 < x.2)%Z (g_vals g) ∧
  g_last g ≡ₚ map (λ x, (x.1.1, x.2)) (g_vals g).

Lemma genesis_exported_spec g h0 :
  genesis_valid_exported g → g_exported g = true →
  ∃ st ups, genesis_chain g h0 = Some (st, ups) ∧ batch_wellformed ∅ ups ∧ chain_inv st ∧
            ch_height st = h0 ∧ ch_hist st = ∅ ∧ ch_snaps st = ∅ ∧
            vc_maxv (ch_core st) = g_maxv g ∧ vc_entries (ch_core st) = g_entries g ∧
            vals (vc_vs (ch_core st)) = vals (genesis_load (g_vals g)).
Proof.
  intros (Hv & Hpos & Hperm) Hexp. apply validate_genesis_true in Hv as (Hnk & Hno & Hlen & Hm0).
  pose proof (genesis_mid _ Hno Hnk Hpos) as (Hi0 & He0 & Hp0).
  destruct (genesis_load_spec _ Hno Hnk) as (Hlast0 & Hvals0 & Hidx0).
  set (s := genesis_load (g_vals g)) in *.
  assert (NoDup (g_last g).*1) as Hndl.
  { rewrite Hperm. rewrite <- map_fmap, map_map. simpl. exact Hno. }
  assert (∀ op p, (op, p) ∈ g_last g ↔ ∃ v, vals s !! op = Some v ∧ v_pow v = p) as Hmem.
  { intros op p. rewrite Hperm. rewrite map_fmap, elem_of_list_fmap. split.
    - intros ([[o k] q] & Heq & Hin). simpl in Heq. simplify_eq.
      exists {| v_key := k; v_pow := q |}. split; [|done]. by apply Hvals0.
    - intros (v & Hv & <-). apply Hvals0 in Hv. eexists. split; [|exact Hv]. done. }
  assert (let acc := foldl export_step (Some (s, [])) (g_last g) in
          ∃ si ups, acc = Some (si, ups) ∧ vals si = vals s ∧ idx si = idx s ∧
            eng_last si (apply_updates ∅ ups) ∧
            (∀ op, op ∉ (g_last g).*1 → last si !! op = None) ∧
            (∀ op p, (op, p) ∈ g_last g → last si !! op = Some p) ∧
            ups_from s (λ op v, op ∈ (g_last g).*1) ups ∧ (∀ u, u ∈ ups → (0 < u.2)%Z)) as Hfold.
  { apply (foldl_prefix_ind export_step (λ pre acc,
      ∃ si ups, acc = Some (si, ups) ∧ vals si = vals s ∧ idx si = idx s ∧
            eng_last si (apply_updates ∅ ups) ∧
            (∀ op, op ∉ pre.*1 → last si !! op = None) ∧
            (∀ op p, (op, p) ∈ pre → last si !! op = Some p) ∧
            ups_from s (λ op v, op ∈ pre.*1) ups ∧ (∀ u, u ∈ ups → (0 < u.2)%Z))).
    - exists s, []. split; [done|]. split; [done|]. split; [done|]. split; [exact He0|].
      split; [intros op _; by rewrite Hlast0|]. split; [intros op p Hin; by apply elem_of_nil in Hin|].
      split; [split; [constructor|intros u Hu; by apply elem_of_nil in Hu]|intros u Hu; by apply elem_of_nil in Hu].
    - intros pre [op p] suf acc Hl (si & ups & -> & Hvs & Hix & Hel & Hun & Hvis & Hups & Hupos).
      assert ((op, p) ∈ g_last g) as Hin by (rewrite Hl; apply elem_of_app; right; left).
      apply Hmem in Hin as (v & Hv & Hpv).
      assert (op ∉ pre.*1) as Hfresh.
      { rewrite Hl, fmap_app in Hndl. simpl in Hndl. apply NoDup_app in Hndl as (_ & Hd & _).
        intros Hin. apply (Hd _ Hin). left. }
      assert (idx_ok si) as Hisi. { intros k o. rewrite Hix, Hvs. apply Hi0. }
      assert (vals si !! op = Some v) as Hvsi by (by rewrite Hvs).
      unfold export_step. simpl. rewrite Hvsi. simpl.
      destruct (bond_inv si (apply_updates ∅ ups) op v Hisi Hel Hvsi) as (_ & Hel').
      eexists _, _. split; [done|]. simpl. split; [done|]. split; [done|]. subst p.
      split.
      { rewrite apply_updates_snoc. simpl.
        assert (0 < v_pow v)%Z as Hvp.
        { apply Hvals0 in Hv. rewrite Forall_forall in Hpos. apply Hpos in Hv. done. }
        rewrite bool_decide_false by lia. exact Hel'. }
      split.
      { intros o Ho. rewrite fmap_app in Ho. simpl in Ho.
        rewrite lookup_insert_ne; [apply Hun|]; intros ?; apply Ho; apply elem_of_app; [by left|right; subst; by left]. }
      split.
      { intros o q Hin. apply elem_of_app in Hin as [Hin|Hin].
        - rewrite lookup_insert_ne; [by apply Hvis|]. intros <-. apply Hfresh. apply elem_of_list_fmap. by exists (op, q).
        - apply elem_of_list_singleton in Hin. simplify_eq. by rewrite lookup_insert. }
      split.
      { eapply (ups_from_snoc s _ _ ups op v); eauto.
        - intros o w _ Hin. split; [rewrite fmap_app; apply elem_of_app; by left|]. intros ->. done.
        - rewrite fmap_app. apply elem_of_app. right. by left. }
      intros u Hu. apply elem_of_app in Hu as [Hu|Hu]; [by apply Hupos|].
      apply elem_of_list_singleton in Hu. subst u. simpl.
      apply Hvals0 in Hv. rewrite Forall_forall in Hpos. apply Hpos in Hv. done. }
  destruct Hfold as (si & ups & Hacc & Hvs & Hix & Hel & Hun & Hvis & (Hnd & Hsrc) & Hupos).
  unfold genesis_chain, init_genesis. rewrite bool_decide_false by done. rewrite Hexp.
  fold s. change (foldl _ (Some (s, [])) (g_last g)) with (foldl export_step (Some (s, [])) (g_last g)).
  rewrite Hacc. simpl.
  eexists _, _. split; [done|]. split.
  { split; [by rewrite map_fmap|]. split; apply Forall_forall; intros u Hu.
    - apply Hupos in Hu. lia.
    - apply Hupos in Hu. lia. }
  split; [|simpl; rewrite Hvs; done].
  split; simpl.
  - split; [split; [|split]|].
    + intros k o. rewrite Hix, Hvs. apply Hi0.
    + exact Hel.
    + intros o v. rewrite Hvs. apply Hp0.
    + intros o v Hv. rewrite Hvs in Hv. split.
      * apply Hvis. apply Hmem. eauto.
      * apply Hvals0 in Hv. rewrite Forall_forall in Hpos. apply Hpos in Hv. done.
  - rewrite Hvs. pose proof (genesis_load_size (g_vals g) Hno). fold s in H. lia.
Qed.

(* a genesis accepted by ValidateGenesis, with positive powers; either a fresh one (no last
   powers) or an exported one whose last powers are exactly the validators' powers *)
Definition genesis_ok (g : vgenesis) : Prop :=
  (g_exported g = false ∧ genesis_valid g) ∨ (g_exported g = true ∧ genesis_valid_exported g).

Lemma genesis_ok_spec g h0 :
  genesis_ok g →
  ∃ st ups, genesis_chain g h0 = Some (st, ups) ∧ batch_wellformed ∅ ups ∧ chain_inv st ∧
            ch_height st = h0 ∧ ch_hist st = ∅ ∧ ch_snaps st = ∅ ∧
            vc_maxv (ch_core st) = g_maxv g ∧ vc_entries (ch_core st) = g_entries g.
Proof.
  intros [(Hexp & Hg)|(Hexp & Hg)].
  - by apply genesis_chain_spec.
  - destruct (genesis_exported_spec g h0 Hg Hexp) as (st & ups & H & ? & ? & ? & ? & ? & ? & ? & _).
    exists st, ups. done.
Qed.

(* ---- C13 main statements ---- *)
Theorem c13_engine_equals_state g h0 bs :
  genesis_ok g →
  ∃ st0 ups0 st bl,
    genesis_chain g h0 = Some (st0, ups0) ∧ run_blocks st0 bs = Some (st, bl) ∧
    length bl = length bs ∧
    (* every batch, the genesis one included, is well-formed against the set it is applied to *)
    batches_ok ∅ (ups0 :: bl) ∧
    (* the batches applied in order give the engine's set ... *)
    ch_eng st = foldl apply_updates ∅ (ups0 :: bl) ∧
    (* ... which is exactly the positive-power validators of the state, all of the stored ones *)
    ch_eng st = state_set (vc_vs (ch_core st)) ∧
    engine_is_state (vc_vs (ch_core st)) (ch_eng st) ∧
    (∀ op v, vals (vc_vs (ch_core st)) !! op = Some v → (0 < v_pow v)%Z) ∧
    (* ... and the last-power table (mapped through the keys) *)
    last (vc_vs (ch_core st)) = v_pow <$> vals (vc_vs (ch_core st)) ∧
    eng_last (vc_vs (ch_core st)) (ch_eng st).
Proof.
  intros Hg. destruct (genesis_ok_spec g h0 Hg) as (st0 & ups0 & Hgen & Hwf0 & Hinv0 & _).
  destruct (run_blocks_spec bs st0 Hinv0) as (st & bl & Hrun & Hinv & Hlen & _).
  destruct (run_blocks_batches bs _ _ _ Hinv0 Hrun) as (Hok & Hfold).
  assert (ch_eng st0 = apply_updates ∅ ups0) as He0.
  { unfold genesis_chain in Hgen. destruct (init_genesis g) as [r|]; simpl in Hgen; [|done]. by simplify_eq. }
  exists st0, ups0, st, bl. split; [done|]. split; [done|]. split; [done|].
  rewrite He0 in Hok, Hfold.
  split; [split; [done|exact Hok]|]. split; [exact Hfold|].
  destruct Hinv as (Hb & _).
  split; [by apply blk_inv_state_set|]. split; [by apply blk_inv_engine_is_state|].
  split; [intros op v Hv; by apply Hb in Hv as (_ & ?)|].
  split; [by eapply blk_inv_last|]. apply Hb.
Qed.

(* ---- reachable chains ---- *)
Definition reachable (st : chain) : Prop :=
  ∃ g h0 st0 ups0 bs bl, genesis_ok g ∧ (0 ≤ h0)%Z ∧
    genesis_chain g h0 = Some (st0, ups0) ∧ run_blocks st0 bs = Some (st, bl).

Lemma reachable_inv st : reachable st → chain_inv st.
Proof.
  intros (g & h0 & st0 & ups0 & bs & bl & Hg & _ & Hgen & Hrun).
  destruct (genesis_ok_spec g h0 Hg) as (st0' & ups0' & Hgen' & _ & Hinv0 & _).
  rewrite Hgen in Hgen'. simplify_eq.
  destruct (run_blocks_spec bs _ Hinv0) as (st' & bl' & Hrun' & Hinv & _). rewrite Hrun in Hrun'. by simplify_eq.
Qed.

Lemma run_blocks_app bs1 : ∀ bs2 st st1 bl1 st2 bl2,
  run_blocks st bs1 = Some (st1, bl1) → run_blocks st1 bs2 = Some (st2, bl2) →
  run_blocks st (bs1 ++ bs2) = Some (st2, bl1 ++ bl2).
Proof.
  induction bs1 as [|b bs1 IH]; intros bs2 st st1 bl1 st2 bl2 H1 H2; simpl in *.
  - by simplify_eq.
  - destruct (block st b) as [[sa ua]|]; simpl in *; [|done].
    destruct (run_blocks sa bs1) as [[sb ub]|] eqn:E; simpl in *; [|done]. simplify_eq.
    rewrite (IH _ _ _ _ _ _ E H2). done.
Qed.

Lemma reachable_block st ops st' ups : reachable st → block st ops = Some (st', ups) → reachable st'.
Proof.
  intros (g & h0 & st0 & ups0 & bs & bl & Hg & Hh & Hgen & Hrun) Hb.
  exists g, h0, st0, ups0, (bs ++ [ops]), (bl ++ [ups]).
  split; [done|]. split; [done|]. split; [done|].
  eapply run_blocks_app; [done|]. simpl. rewrite Hb. done.
Qed.

(* every batch of every reachable chain is well-formed against the engine's set, and no block halts *)
Lemma c13_batch_wellformed st ops :
  reachable st → ∃ st' ups, block st ops = Some (st', ups) ∧ batch_wellformed (ch_eng st) ups ∧ reachable st'.
Proof.
  intros Hr. destruct (block_spec st ops (reachable_inv _ Hr)) as (st' & ups & Hb & Hwf & _).
  exists st', ups. split; [done|]. split; [done|]. by eapply reachable_block.
Qed.

(* the indexes are one-to-one with the stored validators in every reachable state, also
   between the messages of a block *)
Lemma c13_indexes_bijective st ops :
  reachable st →
  let s := vc_vs (foldl vop_exec (ch_core st) ops) in
  idx_ok s ∧
  (∀ op1 op2 v1 v2, vals s !! op1 = Some v1 → vals s !! op2 = Some v2 → v_key v1 = v_key v2 → op1 = op2) ∧
  (∀ op v, vals s !! op = Some v → idx s !! v_key v = Some op).
Proof.
  intros Hr s. destruct (reachable_inv _ Hr) as (Hb & Hsz).
  assert (core_inv (ch_core st) (ch_eng st)) as Hc by (split; [apply Hb|done]).
  destruct (foldl_vop_exec_inv ops _ _ Hc) as ((Hi & _) & _). fold s in Hi.
  split; [done|]. split.
  - intros. by eapply idx_ok_inj.
  - intros op v Hv. apply Hi. eauto.
Qed.

(* bonded <= stored <= max at every point, hence the begin blocker never fails *)
Lemma c13_bonded_le_max st ops :
  reachable st →
  let c := foldl vop_exec (ch_core st) ops in
  (N.of_nat (size (vals (vc_vs c))) ≤ vc_maxv c)%N ∧
  size (last (vc_vs c)) ≤ size (vals (vc_vs c)) ∧
  ∀ h hist, is_Some (begin_block (vc_maxv (ch_core st)) (vc_entries (ch_core st)) h (vc_vs (ch_core st)) hist).
Proof.
  intros Hr c. destruct (reachable_inv _ Hr) as (Hb & Hsz).
  assert (core_inv (ch_core st) (ch_eng st)) as Hc by (split; [apply Hb|done]).
  destruct (foldl_vop_exec_inv ops _ _ Hc) as ((_ & (He1 & _) & _) & Hsz'). fold c in He1, Hsz'.
  split; [done|]. split.
  - apply size_le_of_sub. intros op [p Hp]. destruct (He1 _ _ Hp) as (v & Hv & _). eauto.
  - intros h hist. eapply begin_block_Some; [apply Hb|done].
Qed.

(* a validator whose removal succeeded in a block is absent after that block's end blocker *)
Lemma zero_power_stable c o op :
  (∃ v, vals (vc_vs c) !! op = Some v ∧ v_pow v = 0%Z) →
  ∃ v, vals (vc_vs (vop_exec c o)) !! op = Some v ∧ v_pow v = 0%Z.
Proof.
  intros (v & Hv & Hz). unfold vop_exec. destruct (vop_step c o) as [c'|] eqn:E; simpl; [|eauto].
  destruct o as [op' key|op'|m en]; simpl in E.
  - destruct (add_validator _ _ _ _) as [s'|] eqn:Ea; simpl in E; [|done]. simplify_eq. simpl.
    apply add_validator_Some in Ea as (_ & Hnone & _ & ->). simpl.
    exists v. rewrite lookup_insert_ne; [done|]. intros ->. congruence.
  - destruct (remove_validator _ _) as [s'|] eqn:Er; simpl in E; [|done]. simplify_eq. simpl.
    apply remove_validator_Some in Er as (v0 & Hv0 & ->). simpl.
    destruct (decide (op' = op)) as [->|Hne].
    + rewrite lookup_insert. eauto.
    + rewrite lookup_insert_ne by done. eauto.
  - repeat case_bool_decide; try done. simplify_eq. simpl. eauto.
Qed.

Lemma zero_power_stable_fold op ops : ∀ c,
  (∃ v, vals (vc_vs c) !! op = Some v ∧ v_pow v = 0%Z) →
  ∃ v, vals (vc_vs (foldl vop_exec c ops)) !! op = Some v ∧ v_pow v = 0%Z.
Proof. induction ops as [|o ops IH]; intros c H0; simpl; [done|]. apply IH. by apply zero_power_stable. Qed.

Lemma c13_removed_is_gone st ops1 op ops2 st' ups :
  reachable st →
  is_Some (vop_step (foldl vop_exec (ch_core st) ops1) (VRemove op)) →
  block st (ops1 ++ VRemove op :: ops2) = Some (st', ups) →
  vals (vc_vs (ch_core st')) !! op = None ∧ ¬ (∃ v, vals (vc_vs (ch_core st')) !! op = Some v).
Proof.
  intros Hr [c1 Hrm] Hb.
  destruct (block_spec st (ops1 ++ VRemove op :: ops2) (reachable_inv _ Hr)) as (st2 & ups2 & Hb2 & _ & _ & _ & _ & Hpost & _).
  rewrite Hb in Hb2. simplify_eq. destruct Hpost as (_ & Hvals & _).
  rewrite foldl_app in Hvals. simpl in Hvals.
  assert (∃ v, vals (vc_vs (foldl vop_exec (vop_exec (foldl vop_exec (ch_core st) ops1) (VRemove op)) ops2)) !! op = Some v ∧ v_pow v = 0%Z) as (v & Hv & Hz).
  { assert (∃ v, vals (vc_vs (vop_exec (foldl vop_exec (ch_core st) ops1) (VRemove op))) !! op = Some v ∧ v_pow v = 0%Z) as H0.
    { assert (vop_exec (foldl vop_exec (ch_core st) ops1) (VRemove op) = c1) as ->.
      { unfold vop_exec at 1. by rewrite Hrm. }
      simpl in Hrm.
      destruct (remove_validator _ _) as [s'|] eqn:Er; simpl in Hrm; [|done]. simplify_eq. simpl.
      apply remove_validator_Some in Er as (v0 & Hv0 & ->). simpl. rewrite lookup_insert. eauto. }
    by apply zero_power_stable_fold. }
  assert (vals (vc_vs (ch_core st2)) !! op = None) as Hn.
  { destruct (vals (vc_vs (ch_core st2)) !! op) as [w|] eqn:E; [|done].
    apply Hvals in E as (E & Hpos). rewrite Hv in E. simplify_eq. lia. }
  split; [done|]. intros (w & Hw). congruence.
Qed.

(* ---- historical info ---- *)
(* the pruning loop deletes every record at or below [i], provided the records at or below [i]
   form a contiguous run reaching up to [i] (that is what the loop relies on) *)
Lemma prune_spec fuel : ∀ (hist : gmap Z hrec) i lo,
  size hist < fuel → (0 ≤ lo)%Z →
  (∀ j, (j ≤ i)%Z → (is_Some (hist !! j) ↔ (lo ≤ j)%Z)) →
  ∀ j, prune fuel hist i !! j = if bool_decide (j ≤ i)%Z then None else hist !! j.
Proof.
  induction fuel as [|f IH]; intros hist i lo Hsz Hlo Hrun j; [lia|]. simpl.
  case_bool_decide as Hneg.
  - case_bool_decide as Hji; [|done].
    destruct (hist !! j) eqn:E; [|done]. exfalso. assert (lo ≤ j)%Z by (apply Hrun; eauto). lia.
  - destruct (hist !! i) as [r|] eqn:Ei.
    + assert (size (delete i hist) < f) as Hsz'.
      { rewrite map_size_delete_Some by eauto.
        assert (size hist ≠ 0); [|lia].
        intros H0. apply map_size_empty_iff in H0. rewrite H0, lookup_empty in Ei. done. }
      rewrite (IH (delete i hist) (i - 1)%Z lo Hsz' Hlo).
      * repeat case_bool_decide; try done; try lia.
        -- assert (j = i) by lia. subst. by rewrite lookup_delete.
        -- rewrite lookup_delete_ne; [done|lia].
      * intros j' Hj'. rewrite lookup_delete_ne by lia. apply Hrun. lia.
    + case_bool_decide as Hji; [|done].
      destruct (hist !! j) eqn:E; [|done]. exfalso.
      assert (lo ≤ j)%Z by (apply Hrun; eauto).
      assert (is_Some (hist !! i)) as [? ?] by (apply Hrun; lia). congruence.
Qed.

(* the stored records: a contiguous run of heights ending at the last block, each the
   snapshot taken at the beginning of its block *)
Definition hist_inv (st : chain) : Prop :=
  ∃ lo, (0 ≤ lo ≤ ch_height st + 1)%Z ∧ (∀ j, is_Some (ch_hist st !! j) ↔ (lo ≤ j ≤ ch_height st)%Z) ∧
        (∀ j r, ch_hist st !! j = Some r → ch_snaps st !! j = Some r).

(* One block with HistoricalEntries >= 1: the record of the new height is the bonded set at
   the beginning of the block; an older record survives iff it lies inside the retention
   window; nothing else appears. *)
Local Opaque prune.
Lemma history_block st ops st' ups :
  chain_inv st → hist_inv st → (0 ≤ ch_height st)%Z → (1 ≤ vc_entries (ch_core st))%N →
  block st ops = Some (st', ups) →
  let h := (ch_height st + 1)%Z in
  let c := ch_core st in
  hist_inv st' ∧
  (∃ r, last_validators (vc_maxv c) (vc_vs c) = Some r ∧ ch_hist st' !! h = Some r ∧ ch_snaps st' !! h = Some r) ∧
  (∀ j, (j < h)%Z → ch_hist st' !! j = if bool_decide (h - Z.of_N (vc_entries c) < j)%Z then ch_hist st !! j else None) ∧
  (∀ j, (h < j)%Z → ch_hist st' !! j = None) ∧
  (∀ j, (j ≤ h - Z.of_N (vc_entries c))%Z → ch_hist st' !! j = None).
Proof.
  intros (Hb & Hsz) (lo & Hlo & Hdom & Hsn) Hh He Hblk h c.
  unfold block in Hblk. fold h c in Hblk.
  destruct (last_validators_Some (vc_maxv c) (vc_vs c) (ch_eng st) (proj1 Hb) Hsz) as [r Hr].
  unfold begin_block in Hblk. rewrite bool_decide_false in Hblk by (unfold c in *; lia). rewrite Hr in Hblk. simpl in Hblk.
  destruct (end_block_updates _) as [[v' u']|]; simpl in Hblk; [|done]. simplify_eq. simpl.
  set (i := (h - Z.of_N (vc_entries c))%Z).
  assert (∀ j, prune (S (size (ch_hist st))) (ch_hist st) i !! j = if bool_decide (j ≤ i)%Z then None else ch_hist st !! j) as Hpr.
  { apply (prune_spec _ _ _ lo); [lia|lia|]. intros j Hj. rewrite Hdom. unfold i, h, c in *. lia. }
  assert (∀ j, (h ≤ j)%Z → ch_hist st !! j = None) as Hnone.
  { intros j Hj. destruct (ch_hist st !! j) eqn:E; [|done]. exfalso.
    assert (lo ≤ j ≤ ch_height st)%Z by (apply Hdom; eauto). unfold h in *. lia. }
  split; [|split; [|split; [|split]]]; simpl.
  - exists (Z.max lo (i + 1)). simpl. split; [unfold i, h, c in *; lia|]. split.
    + intros j. destruct (decide (j = h)) as [->|Hne].
      * rewrite lookup_insert. split; [intros _; unfold i, h, c in *; lia|eauto].
      * rewrite lookup_insert_ne by done. rewrite Hpr. case_bool_decide.
        -- split; [by intros [? ?]|]. unfold i, h, c in *. lia.
        -- rewrite Hdom. unfold i, h, c in *. lia.
    + intros j r'. destruct (decide (j = h)) as [->|Hne].
      * rewrite !lookup_insert. done.
      * rewrite !lookup_insert_ne by done. rewrite Hpr. case_bool_decide; [done|]. apply Hsn.
  - exists r. rewrite !lookup_insert. done.
  - intros j Hj. rewrite lookup_insert_ne by lia. rewrite Hpr. fold i.
    repeat case_bool_decide; try done; lia.
  - intros j Hj. rewrite lookup_insert_ne by lia. rewrite Hpr. case_bool_decide; [done|]. apply Hnone. lia.
  - intros j Hj. fold i in Hj. rewrite lookup_insert_ne by (unfold i, h, c in *; lia). rewrite Hpr. by rewrite bool_decide_true.
Qed.

(* the snapshot is the engine's set, listed once per bonded validator *)
Lemma last_validators_is_engine maxv s e r :
  blk_inv s e → last_validators maxv s = Some r → ∀ k p, (k, p) ∈ r ↔ e !! k = Some p.
Proof.
  intros Hb Hr k p. pose proof (blk_inv_engine_is_state _ _ Hb) as Heis.
  destruct Hb as ((Hi & (He1 & He2) & Hp) & Hall).
  unfold last_validators in Hr. case_bool_decide; [done|]. apply mapM_Some in Hr.
  rewrite (Heis k p). split.
  - intros Hin. apply elem_of_list_lookup in Hin as (n & Hn).
    destruct (Forall2_lookup_r _ _ _ _ _ Hr Hn) as (op & Hop & Hf).
    destruct (vals s !! op) as [v|] eqn:Ev; simpl in Hf; [|done]. simplify_eq.
    destruct (Hall _ _ Ev) as (_ & Hpos). eauto 10.
  - intros (op & v & Hv & <- & <- & Hpos). destruct (Hall _ _ Hv) as (Hl & _).
    assert (op ∈ map fst (sorted_ops (last s))) as Hin.
    { rewrite map_fmap. apply elem_of_list_fmap. exists (op, v_pow v). split; [done|]. by apply elem_of_sorted_ops. }
    apply elem_of_list_lookup in Hin as (n & Hn).
    destruct (Forall2_lookup_l _ _ _ _ _ Hr Hn) as (y & Hy & Hf). rewrite Hv in Hf. simpl in Hf. simplify_eq.
    apply elem_of_list_lookup. eauto.
Qed.

(* D7: with HistoricalEntries = 0 nothing is ever pruned - a computed history on which a record
   far outside every window survives (also after the value was raised again) *)
Local Transparent prune.
Definition d7_genesis : vgenesis :=
  {| g_vals := [(1%N, 1%N, 1%Z)]; g_maxv := 3; g_entries := 2; g_exported := false; g_last := [] |}.
Definition d7_blocks : list (list vop) := [[]; []; [VSetParams 3 0]; []; [VSetParams 3 1]; []; []].
Lemma history_zero_refuted :
  ∃ st0 ups0 st bl, genesis_valid d7_genesis ∧ genesis_chain d7_genesis 0 = Some (st0, ups0) ∧
    run_blocks st0 d7_blocks = Some (st, bl) ∧ ch_height st = 7%Z ∧ vc_entries (ch_core st) = 1%N ∧
    is_Some (ch_hist st !! 2%Z) ∧ is_Some (ch_hist st !! 3%Z) ∧ is_Some (ch_hist st !! 7%Z) ∧ ch_hist st !! 6%Z = None.
Proof.
  eexists _, _, _, _. split.
  { split; [vm_compute; reflexivity|repeat constructor]. }
  split; [vm_compute; reflexivity|]. split; [vm_compute; reflexivity|].
  split; [reflexivity|]. split; [reflexivity|].
  split; [vm_compute; eauto|]. split; [vm_compute; eauto|]. split; [vm_compute; eauto|]. vm_compute; reflexivity.
Qed.

(* ---- retention >= 1 throughout a history ---- *)
Definition op_entries_pos (o : vop) : Prop := match o with VSetParams _ e => (1 ≤ e)%N | _ => True end.

Lemma vop_exec_entries c o : op_entries_pos o → (1 ≤ vc_entries c)%N → (1 ≤ vc_entries (vop_exec c o))%N.
Proof.
  intros Ho Hc. unfold vop_exec. destruct (vop_step c o) as [c'|] eqn:E; simpl; [|done].
  destruct o as [op key|op|m en]; simpl in E.
  - destruct (add_validator _ _ _ _); simpl in E; [|done]. by simplify_eq.
  - destruct (remove_validator _ _); simpl in E; [|done]. by simplify_eq.
  - repeat case_bool_decide; try done. by simplify_eq.
Qed.

Lemma foldl_vop_exec_entries ops : ∀ c, Forall op_entries_pos ops → (1 ≤ vc_entries c)%N → (1 ≤ vc_entries (foldl vop_exec c ops))%N.
Proof.
  induction ops as [|o ops IH]; intros c Hf Hc; simpl; [done|]. inversion Hf; subst.
  apply IH; [done|]. by apply vop_exec_entries.
Qed.

Lemma history_run bs : ∀ st st' bl,
  chain_inv st → hist_inv st → (0 ≤ ch_height st)%Z → (1 ≤ vc_entries (ch_core st))%N →
  Forall (Forall op_entries_pos) bs → run_blocks st bs = Some (st', bl) →
  hist_inv st' ∧ (1 ≤ vc_entries (ch_core st'))%N ∧ (0 ≤ ch_height st')%Z.
Proof.
  induction bs as [|b bs IH]; intros st st' bl Hinv Hh Hpos He Hf Hrun; simpl in Hrun.
  - by simplify_eq.
  - inversion Hf as [|? ? Hb Hf']; subst.
    destruct (block_spec st b Hinv) as (st1 & ups & Hblk & _ & Hinv1 & _ & Hht & _ & _ & Hent).
    rewrite Hblk in Hrun. simpl in Hrun.
    destruct (run_blocks st1 bs) as [[st2 bl2]|] eqn:E; simpl in Hrun; [|done]. simplify_eq.
    destruct (history_block st b st1 ups Hinv Hh Hpos He Hblk) as (Hh1 & _).
    eapply (IH st1); eauto; [lia|]. rewrite Hent. by apply foldl_vop_exec_entries.
Qed.

Lemma c13_history_exact g h0 bs :
  genesis_ok g → (0 ≤ h0)%Z → (1 ≤ g_entries g)%N →
  Forall (Forall op_entries_pos) bs →
  ∃ st0 ups0 st bl, genesis_chain g h0 = Some (st0, ups0) ∧ run_blocks st0 bs = Some (st, bl) ∧
    chain_inv st ∧ hist_inv st ∧ (1 ≤ vc_entries (ch_core st))%N ∧ (0 ≤ ch_height st)%Z.
Proof.
  intros Hg Hh0 He Hf.
  destruct (genesis_ok_spec g h0 Hg) as (st0 & ups0 & Hgen & _ & Hinv0 & Hht & Hhist & Hsn & _ & Hent).
  destruct (run_blocks_spec bs st0 Hinv0) as (st & bl & Hrun & Hinv & _).
  assert (hist_inv st0) as Hh.
  { exists (h0 + 1)%Z. rewrite Hht, Hhist. split; [lia|]. split.
    - intros j. rewrite lookup_empty. split; [by intros [? ?]|lia].
    - intros j r. rewrite lookup_empty. done. }
  destruct (history_run bs st0 st bl Hinv0 Hh) as (H1 & H2 & H3); try done; [lia|lia|].
  exists st0, ups0, st, bl. done.
Qed.

(* the engine accepts every batch of a reachable chain in full, when the powers are bounded
   and the resulting set is non-empty with bounded total power (DESIGN section 7) *)
Lemma c13_full_acceptance st ops st' ups :
  reachable st → block st ops = Some (st', ups) →
  Forall (λ u, u.2 ≤ maxtotal)%Z ups → ch_eng st' ≠ ∅ → (total_power (ch_eng st') ≤ maxtotal)%Z →
  engine_apply (ch_eng st) ups = Some (ch_eng st').
Proof.
  intros Hr Hb Hmax Hne Htot.
  destruct (block_spec st ops (reachable_inv _ Hr)) as (st2 & ups2 & Hb2 & Hwf & _ & Heng & _).
  rewrite Hb in Hb2. simplify_eq. rewrite Heng in *. by apply engine_apply_accepts.
Qed.


(* ---- non-vacuity ---- *)
Example genesis_ok_fresh : genesis_ok d7_genesis.
Proof. left. split; [done|]. split; [vm_compute; reflexivity|repeat constructor]. Qed.

Definition exported_genesis : vgenesis :=
  {| g_vals := [(1%N, 2%N, 1%Z); (3%N, 1%N, 2%Z)]; g_maxv := 2; g_entries := 1; g_exported := true;
     g_last := [(1%N, 1%Z); (3%N, 2%Z)] |}.
Example genesis_ok_exported : genesis_ok exported_genesis.
Proof. right. split; [done|]. split; [vm_compute; reflexivity|]. split; [repeat constructor|]. simpl. done. Qed.

(* a reachable chain with two validators, one of them added and removed and re-added *)
Example reachable_example :
  ∃ st, reachable st ∧ ch_height st = 3%Z ∧
        map_to_list (ch_eng st) ≡ₚ [(1%N, 1%Z); (2%N, 1%Z)] ∧ hist_inv st ∧ chain_inv st.
Proof.
  destruct (c13_history_exact d7_genesis 0 [[VAdd 2 2; VRemove 2]; [VAdd 2 2]; [VAdd 2 2; VRemove 3]] genesis_ok_fresh)
    as (st0 & ups0 & st & bl & Hgen & Hrun & Hinv & Hh & _); [lia|simpl; lia|repeat constructor|].
  exists st. split.
  { exists d7_genesis, 0%Z, st0, ups0, [[VAdd 2 2; VRemove 2]; [VAdd 2 2]; [VAdd 2 2; VRemove 3]], bl. split; [apply genesis_ok_fresh|]. split; [lia|]. done. }
  vm_compute in Hgen. simplify_eq. vm_compute in Hrun. simplify_eq.
  split; [reflexivity|]. split; [vm_compute; done|]. done.
Qed.

(* ---- edited export: last powers that differ from the validators' powers ---- *)
(* ValidateGenesis does not look at LastValidatorPowers at all.  InitGenesis replays them as
   updates with THOSE powers (and panics on an entry without validator); the first end blocker
   then reconciles: (key, record power) for every changed one, removal for power 0, a first
   update for validators that had no last power. *)
Definition genesis_valid_edited (g : vgenesis) : Prop :=
  validate_genesis g = true ∧ Forall (λ x, 0 ≤ x.2)%Z (g_vals g) ∧
  NoDup (g_last g).*1 ∧ Forall (λ lv, (0 < lv.2)%Z ∧ lv.1 ∈ gen_ops (g_vals g)) (g_last g).

Lemma genesis_mid0 l :
  NoDup (gen_ops l) → NoDup (gen_keys l) → Forall (λ x, 0 ≤ x.2)%Z l → mid_inv (genesis_load l) ∅.
Proof.
  intros Hno Hnk Hpos. destruct (genesis_load_spec l Hno Hnk) as (Hlast & Hvals & Hidx).
  split; [|split].
  - intros k op. rewrite Hidx. split.
    + intros [p Hin]. exists {| v_key := k; v_pow := p |}. split; [|done]. by apply Hvals.
    + intros (v & Hv & <-). apply Hvals in Hv. eauto.
  - split.
    + intros op p. rewrite Hlast, lookup_empty. done.
    + intros k p. rewrite lookup_empty. done.
  - intros op v Hv. apply Hvals in Hv. rewrite Forall_forall in Hpos. apply Hpos in Hv. done.
Qed.

Lemma genesis_edited_spec g h0 :
  genesis_valid_edited g → g_exported g = true →
  ∃ st ups, genesis_chain g h0 = Some (st, ups) ∧ batch_wellformed ∅ ups ∧ boot_inv st ∧
            ch_height st = h0 ∧ ch_hist st = ∅ ∧ ch_snaps st = ∅ ∧
            vc_maxv (ch_core st) = g_maxv g ∧ vc_entries (ch_core st) = g_entries g ∧
            vals (vc_vs (ch_core st)) = vals (genesis_load (g_vals g)) ∧
            (∀ op p, last (vc_vs (ch_core st)) !! op = Some p ↔ (op, p) ∈ g_last g).
Proof.
  intros (Hv & Hpos & Hndl & Hlast) Hexp. apply validate_genesis_true in Hv as (Hnk & Hno & Hlen & Hm0).
  pose proof (genesis_mid0 _ Hno Hnk Hpos) as (Hi0 & He0 & Hp0).
  destruct (genesis_load_spec _ Hno Hnk) as (Hlast0 & Hvals0 & Hidx0).
  set (s := genesis_load (g_vals g)) in *.
  assert (∀ op p, (op, p) ∈ g_last g → (0 < p)%Z ∧ ∃ v, vals s !! op = Some v) as Hmem.
  { intros op p Hin. rewrite Forall_forall in Hlast. destruct (Hlast _ Hin) as (Hp & Hop). simpl in *.
    split; [done|]. unfold gen_ops in Hop. rewrite map_fmap in Hop.
    apply elem_of_list_fmap in Hop as ([[o k] q] & -> & Hin'). simpl.
    exists {| v_key := k; v_pow := q |}. by apply Hvals0. }
  assert (let acc := foldl export_step (Some (s, [])) (g_last g) in
          ∃ si ups, acc = Some (si, ups) ∧ vals si = vals s ∧ idx si = idx s ∧
            eng_last si (apply_updates ∅ ups) ∧
            (∀ op, op ∉ (g_last g).*1 → last si !! op = None) ∧
            (∀ op p, (op, p) ∈ g_last g → last si !! op = Some p) ∧
            NoDup ups.*1 ∧
            (∀ u, u ∈ ups → (0 < u.2)%Z ∧ ∃ op v, vals s !! op = Some v ∧ v_key v = u.1 ∧ op ∈ (g_last g).*1)) as Hfold.
  { apply (foldl_prefix_ind export_step (λ pre acc,
      ∃ si ups, acc = Some (si, ups) ∧ vals si = vals s ∧ idx si = idx s ∧
            eng_last si (apply_updates ∅ ups) ∧
            (∀ op, op ∉ pre.*1 → last si !! op = None) ∧
            (∀ op p, (op, p) ∈ pre → last si !! op = Some p) ∧
            NoDup ups.*1 ∧
            (∀ u, u ∈ ups → (0 < u.2)%Z ∧ ∃ op v, vals s !! op = Some v ∧ v_key v = u.1 ∧ op ∈ pre.*1))).
    - exists s, []. split; [done|]. split; [done|]. split; [done|]. split; [exact He0|].
      split; [intros op _; by rewrite Hlast0|]. split; [intros op p Hin; by apply elem_of_nil in Hin|].
      split; [constructor|intros u Hu; by apply elem_of_nil in Hu].
    - intros pre [op p] suf acc Hl (si & ups & -> & Hvs & Hix & Hel & Hun & Hvis & Hnd & Hsrc).
      assert ((op, p) ∈ g_last g) as Hin by (rewrite Hl; apply elem_of_app; right; left).
      apply Hmem in Hin as (Hppos & v & Hv).
      assert (op ∉ pre.*1) as Hfresh.
      { rewrite Hl, fmap_app in Hndl. simpl in Hndl. apply NoDup_app in Hndl as (_ & Hd & _).
        intros Hin. apply (Hd _ Hin). left. }
      assert (idx_ok si) as Hisi. { intros k o. rewrite Hix, Hvs. apply Hi0. }
      assert (vals si !! op = Some v) as Hvsi by (by rewrite Hvs).
      unfold export_step. simpl. rewrite Hvsi. simpl.
      destruct (bond_inv_gen si (apply_updates ∅ ups) op v p Hisi Hel Hvsi) as (_ & Hel').
      eexists _, _. split; [done|]. simpl. split; [done|]. split; [done|].
      split.
      { rewrite apply_updates_snoc. simpl. rewrite bool_decide_false by lia. exact Hel'. }
      split.
      { intros o Ho. rewrite fmap_app in Ho. simpl in Ho.
        rewrite lookup_insert_ne; [apply Hun|]; intros ?; apply Ho; apply elem_of_app; [by left|right; subst; by left]. }
      split.
      { intros o q Hin. apply elem_of_app in Hin as [Hin|Hin].
        - rewrite lookup_insert_ne; [by apply Hvis|]. intros <-. apply Hfresh. apply elem_of_list_fmap. by exists (op, q).
        - apply elem_of_list_singleton in Hin. simplify_eq. by rewrite lookup_insert. }
      split.
      { rewrite fmap_app. simpl. apply NoDup_app. split; [done|]. split; [|apply NoDup_singleton].
        intros k Hk Hk'. apply elem_of_list_singleton in Hk'. subst k.
        apply elem_of_list_fmap in Hk as (u & Hku & Hu).
        destruct (Hsrc _ Hu) as (_ & o & w & Hw & Hkw & Ho).
        assert (o = op) as -> by (apply (idx_ok_inj s o op w v Hi0 Hw Hv); congruence). done. }
      intros u Hu. apply elem_of_app in Hu as [Hu|Hu].
      + destruct (Hsrc _ Hu) as (? & o & w & ? & ? & Ho). split; [done|]. exists o, w.
        split; [done|]. split; [done|]. rewrite fmap_app. apply elem_of_app. by left.
      + apply elem_of_list_singleton in Hu. subst u. simpl. split; [done|]. exists op, v.
        split; [done|]. split; [done|]. rewrite fmap_app. apply elem_of_app. right. by left. }
  destruct Hfold as (si & ups & Hacc & Hvs & Hix & Hel & Hun & Hvis & Hnd & Hsrc).
  unfold genesis_chain, init_genesis. rewrite bool_decide_false by done. rewrite Hexp.
  fold s. change (foldl _ (Some (s, [])) (g_last g)) with (foldl export_step (Some (s, [])) (g_last g)).
  rewrite Hacc. simpl.
  eexists _, _. split; [done|]. split.
  { split; [by rewrite map_fmap|]. split; apply Forall_forall; intros u Hu.
    - apply Hsrc in Hu as (? & _). lia.
    - apply Hsrc in Hu as (? & _). lia. }
  split.
  { split; simpl.
    - split; [|split].
      + intros k o. rewrite Hix, Hvs. apply Hi0.
      + exact Hel.
      + intros o v. rewrite Hvs. apply Hp0.
    - rewrite Hvs. pose proof (genesis_load_size (g_vals g) Hno). fold s in H. lia. }
  simpl. rewrite Hvs. repeat (split; [done|]).
  intros op p. split.
  - intros Hl. destruct (decide (op ∈ (g_last g).*1)) as [Hin|Hnin].
    + apply elem_of_list_fmap in Hin as ([o q] & -> & Hin). simpl in *.
      rewrite (Hvis _ _ Hin) in Hl. by simplify_eq.
    + rewrite (Hun _ Hnin) in Hl. done.
  - apply Hvis.
Qed.

(* from an edited export: the genesis batch is well-formed, and after the first block (any
   messages) and every later one the full invariant holds - engine = stored validators *)
Lemma c13_edited_export_reconciled g h0 b bs :
  genesis_valid_edited g → g_exported g = true →
  ∃ st0 ups0 st bl, genesis_chain g h0 = Some (st0, ups0) ∧ batch_wellformed ∅ ups0 ∧
    eng_last (vc_vs (ch_core st0)) (ch_eng st0) ∧
    run_blocks st0 (b :: bs) = Some (st, bl) ∧ batches_ok ∅ (ups0 :: bl) ∧
    ch_eng st = foldl apply_updates ∅ (ups0 :: bl) ∧
    chain_inv st ∧ ch_eng st = state_set (vc_vs (ch_core st)) ∧
    last (vc_vs (ch_core st)) = v_pow <$> vals (vc_vs (ch_core st)).
Proof.
  intros Hg Hexp.
  destruct (genesis_edited_spec g h0 Hg Hexp) as (st0 & ups0 & Hgen & Hwf0 & Hboot & _).
  destruct (block_spec_mid st0 b Hboot) as (st1 & ups1 & Hb & Hwf1 & Hinv1 & Heng1 & _).
  destruct (run_blocks_spec bs st1 Hinv1) as (st & bl & Hrun & Hinv & _).
  destruct (run_blocks_batches bs _ _ _ Hinv1 Hrun) as (Hok & Hfold).
  assert (ch_eng st0 = apply_updates ∅ ups0) as He0.
  { unfold genesis_chain in Hgen. destruct (init_genesis g) as [r|]; simpl in Hgen; [|done]. by simplify_eq. }
  exists st0, ups0, st, (ups1 :: bl). split; [done|]. split; [done|]. split; [apply Hboot|].
  split; [simpl; rewrite Hb; simpl; rewrite Hrun; done|].
  rewrite Heng1 in Hok, Hfold. rewrite He0 in Hok, Hfold, Hwf1.
  split; [split; [done|]; split; [exact Hwf1|exact Hok]|].
  split; [exact Hfold|]. split; [done|]. destruct Hinv as (Hblk & _).
  split; [by apply blk_inv_state_set|by eapply blk_inv_last].
Qed.

Definition edited_genesis : vgenesis :=
  {| g_vals := [(1%N, 1%N, 3%Z); (2%N, 2%N, 0%Z); (3%N, 3%N, 1%Z)]; g_maxv := 3; g_entries := 1; g_exported := true;
     g_last := [(1%N, 1%Z); (2%N, 4%Z)] |}.
Example genesis_valid_edited_ex : genesis_valid_edited edited_genesis.
Proof.
  split; [vm_compute; reflexivity|].
  split; [apply (bool_decide_unpack _); vm_compute; exact I|].
  split; apply (bool_decide_unpack _); vm_compute; exact I.
Qed.
Example edited_export_first_block :
  ∃ st0 ups0 st bl, genesis_chain edited_genesis 0 = Some (st0, ups0) ∧ ups0 = [(1%N, 1%Z); (2%N, 4%Z)] ∧
    run_blocks st0 [[]] = Some (st, bl) ∧ bl = [[(1%N, 3%Z); (3%N, 1%Z); (2%N, 0%Z)]].
Proof. eexists _, _, _, _. split; [vm_compute; reflexivity|]. split; [reflexivity|]. split; [vm_compute; reflexivity|]. reflexivity. Qed.
