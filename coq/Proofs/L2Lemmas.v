(* Frame and inversion lemmas for the L2 machine; every property proof depends on these
   characterisations, not on the handler bodies. *)
From stdpp Require Import gmap numbers list.
From Coq Require Import ZArith Lia.
Require Import Model.Bytes Model.Bank Model.Valset Model.L2.

(* ---- an induction principle for the nested message type ---- *)
Section msg_ind.
  Variable P : msg → Prop.
  Hypothesis Hfd : ∀ m, P (MFinalizeDeposit m).
  Hypothesis Hwd : ∀ a b c d, P (MWithdraw a b c d).
  Hypothesis Hbs : ∀ a b c d, P (MBankSend a b c d).
  Hypothesis Hsi : ∀ a b, P (MSetBridgeInfo a b).
  Hypothesis Hup : ∀ a b, P (MUpdateParams a b).
  Hypothesis Hav : ∀ a b c, P (MAddValidator a b c).
  Hypothesis Hrv : ∀ a b, P (MRemoveValidator a b).
  Hypothesis Hsp : ∀ a b c, P (MSpendFeePool a b c).
  Hypothesis Hex : ∀ sender inner, Forall P inner → P (MExecute sender inner).
  Fixpoint msg_ind' (m : msg) : P m :=
    match m with
    | MFinalizeDeposit f => Hfd f
    | MWithdraw a b c d => Hwd a b c d
    | MBankSend a b c d => Hbs a b c d
    | MSetBridgeInfo a b => Hsi a b
    | MUpdateParams a b => Hup a b
    | MAddValidator a b c => Hav a b c
    | MRemoveValidator a b => Hrv a b
    | MSpendFeePool a b c => Hsp a b c
    | MExecute sender inner =>
        Hex sender inner
          ((fix go (l : list msg) : Forall P l :=
              match l with
              | [] => @List.Forall_nil _ P
              | x :: l' => @List.Forall_cons _ P x l' (msg_ind' x) (go l')
              end) inner)
    end.
End msg_ind.

(* the loop of ExecuteMessages, named *)
Definition exec_loop (c : cfg) (auth : N) :=
  fix go (s : l2state) (l : list msg) {struct l} : option (l2state * resp) :=
    match l with
    | [] => Some (s, RNone)
    | im :: l' =>
        sg ← signer_of im;
        a ← resolve c sg;
        if negb (bool_decide (a = auth)) then None else
        '(s', _) ← handle c s im;
        go s' l'
    end.

Lemma handle_execute c s sender inner :
  handle c s (MExecute sender inner) =
  if negb (bool_decide (is_Some (resolve c sender))) then None else
  if bool_decide (inner = []) then None else
  if negb (is_admin s sender) then None else
  auth ← resolve c (authority c); exec_loop c auth s inner.
Proof. reflexivity. Qed.

Lemma exec_loop_cons c auth s im l :
  exec_loop c auth s (im :: l) =
  (sg ← signer_of im; a ← resolve c sg;
   if negb (bool_decide (a = auth)) then None else
   '(s', _) ← handle c s im; exec_loop c auth s' l).
Proof. reflexivity. Qed.

(* ---- frames: which components a helper can change ---- *)
Definition frame_bk (s s' : l2state) : Prop :=
  next_l1 s' = next_l1 s ∧ next_l2 s' = next_l2 s ∧ pairs s' = pairs s ∧ prm s' = prm s ∧
  info s' = info s ∧ vs s' = vs s ∧ seqs s' = seqs s ∧ wlog s' = wlog s ∧ dlog s' = dlog s.
Definition frame_bk_seqs (s s' : l2state) : Prop :=
  next_l1 s' = next_l1 s ∧ next_l2 s' = next_l2 s ∧ pairs s' = pairs s ∧ prm s' = prm s ∧
  info s' = info s ∧ vs s' = vs s ∧ wlog s' = wlog s ∧ dlog s' = dlog s.

Lemma frame_bk_refl s : frame_bk s s.
Proof. repeat split. Qed.
Lemma frame_bk_set s b : frame_bk s (set_bk s b).
Proof. repeat split. Qed.
Lemma frame_bk_weaken s s' : frame_bk s s' → frame_bk_seqs s s'.
Proof. unfold frame_bk, frame_bk_seqs; tauto. Qed.

Lemma safe_deposit_frame c s a d amt s1 ok :
  safe_deposit c s a d amt = (s1, ok) → frame_bk s s1.
Proof.
  unfold safe_deposit. repeat case_match; intros [= <- <-]; auto using frame_bk_refl, frame_bk_set.
Qed.

Fixpoint upto (k : nat) (lo : N) : list N :=
  match k with O => [] | S k' => lo :: upto k' (lo + 1)%N end.

Lemma upto_snoc k lo : upto (S k) lo = upto k lo ++ [(lo + N.of_nat k)%N].
Proof.
  revert lo; induction k as [|k IH]; intros lo.
  - cbn. f_equal. lia.
  - change (upto (S (S k)) lo) with (lo :: upto (S k) (lo + 1)%N). rewrite IH. cbn. do 3 f_equal. lia.
Qed.

Lemma upto_app k1 k2 lo : upto (k1 + k2) lo = upto k1 lo ++ upto k2 (lo + N.of_nat k1)%N.
Proof.
  revert lo; induction k1 as [|k1 IH]; intros lo; cbn -[N.of_nat].
  - f_equal. lia.
  - f_equal. rewrite IH. do 2 f_equal. lia.
Qed.


Lemma withdraw_Some c s sender to d amt s' r :
  withdraw c s sender to d amt = Some (s', r) →
  ∃ a b1 b2 base,
    resolve c sender = Some a ∧ to ≠ [] ∧ valid_denom d = true ∧ (0 < amt)%Z ∧
    bank_send (bk s) a (modacc c) d amt = Some b1 ∧ bank_burn b1 (modacc c) d amt = Some b2 ∧
    pairs s !! d = Some base ∧ r = RSeq (next_l2 s) ∧
    s' = push_withdrawal (set_bk s b2)
           {| w_seq := next_l2 s; w_from := sender; w_to := to; w_denom := d; w_base := base;
              w_amt := amt; w_refund := false |}.
Proof.
  unfold withdraw. intros H.
  apply bind_Some in H as (a & Ha & H).
  case_bool_decide as Hto; [discriminate|].
  destruct (valid_denom d && (0 <? amt)%Z && (amt <? 18446744073709551616)%Z) eqn:Hv; [|discriminate]. cbn [negb] in H.
  apply andb_true_iff in Hv as [Hv _]. apply andb_true_iff in Hv as [Hd Hamt]. apply Z.ltb_lt in Hamt.
  apply bind_Some in H as (b1 & Hb1 & H). apply bind_Some in H as (b2 & Hb2 & H).
  apply bind_Some in H as (base & Hbase & H). injection H as <- <-.
  exists a, b1, b2, base. auto 12.
Qed.

Lemma withdraw_uint64 c s sender to d amt s' r :
  withdraw c s sender to d amt = Some (s', r) → (amt < 18446744073709551616)%Z.
Proof.
  unfold withdraw. intros H. apply bind_Some in H as (a & _ & H).
  case_bool_decide; [discriminate|].
  destruct (valid_denom d && (0 <? amt)%Z && (amt <? 18446744073709551616)%Z) eqn:Hv; [|discriminate].
  apply andb_true_iff in Hv as [_ Hv]. by apply Z.ltb_lt in Hv.
Qed.


(* ---- the hook: what its messages can change ---- *)
Definition frame_hook (s s' : l2state) : Prop :=
  next_l1 s' = next_l1 s ∧ pairs s' = pairs s ∧ prm s' = prm s ∧ info s' = info s ∧
  vs s' = vs s ∧ dlog s' = dlog s.

(* the withdrawal records appended between two states were all emitted by user-level
   withdrawal messages (none is a refund) and carry consecutive sequences *)
Definition user_records (s s' : l2state) : Prop :=
  ∃ ws, wlog s' = ws ++ wlog s ∧ next_l2 s' = (next_l2 s + N.of_nat (length ws))%N ∧
        Forall (λ w, w_refund w = false) ws ∧ map w_seq ws = rev (upto (length ws) (next_l2 s)).

Lemma user_records_refl s s' : wlog s' = wlog s → next_l2 s' = next_l2 s → user_records s s'.
Proof. intros H1 H2. exists []. cbn. rewrite H1, H2. split; [done|]. split; [lia|]. split; [constructor|done]. Qed.

Lemma user_records_trans s1 s2 s3 : user_records s1 s2 → user_records s2 s3 → user_records s1 s3.
Proof.
  intros (w1 & Hw1 & Hn1 & Hf1 & Hs1) (w2 & Hw2 & Hn2 & Hf2 & Hs2). exists (w2 ++ w1).
  rewrite Hw2, Hw1, app_assoc. split; [done|]. rewrite app_length. split; [lia|].
  split; [by apply Forall_app|]. rewrite map_app, Hs2, Hs1, Hn1.
  rewrite (Nat.add_comm (length w2)), upto_app, rev_app_distr. done.
Qed.

Lemma frame_hook_refl s : frame_hook s s.
Proof. repeat split. Qed.
Lemma frame_hook_trans s1 s2 s3 : frame_hook s1 s2 → frame_hook s2 s3 → frame_hook s1 s3.
Proof. unfold frame_hook. intros (?&?&?&?&?&?) (?&?&?&?&?&?). repeat split; congruence. Qed.

Lemma withdraw_user_record c s sender to d amt s' r :
  withdraw c s sender to d amt = Some (s', r) → frame_hook s s' ∧ seqs s' = seqs s ∧ user_records s s'.
Proof.
  intros H. apply withdraw_Some in H as (a & b1 & b2 & base & _ & _ & _ & _ & _ & _ & _ & _ & ->).
  split; [repeat split|]. split; [done|].
  eexists [_]. cbn. split; [reflexivity|]. split; [lia|]. split; [by repeat constructor|done].
Qed.

Lemma hook_msg_spec c s signer m s' :
  hook_msg c s signer m = Some s' → frame_hook s s' ∧ seqs s' = seqs s ∧ user_records s s'.
Proof.
  destruct m as [to d amt|sender to d amt]; cbn [hook_msg].
  - intros H. apply bind_Some in H as (b & _ & [= <-]).
    split; [repeat split|]. split; [done|]. by apply user_records_refl.
  - destruct (negb _); [discriminate|]. intros H. apply bind_Some in H as ([s1 r1] & Hw & [= <-]).
    eapply withdraw_user_record; eauto.
Qed.

Lemma hook_fold_None c signer msgs :
  foldl (λ os m, s ← os; hook_msg c s signer m) None msgs = None.
Proof. induction msgs; cbn; auto. Qed.

Lemma hook_fold_spec c signer msgs : ∀ s s',
  foldl (λ os m, s ← os; hook_msg c s signer m) (Some s) msgs = Some s' →
  frame_hook s s' ∧ seqs s' = seqs s ∧ user_records s s'.
Proof.
  induction msgs as [|m msgs IH]; intros s s'; cbn [foldl].
  - intros [= <-]. split; [apply frame_hook_refl|]. split; [done|]. by apply user_records_refl.
  - cbn [mbind option_bind]. destruct (hook_msg c s signer m) as [s1|] eqn:E.
    + intros H. apply IH in H as (F2 & Q2 & U2). apply hook_msg_spec in E as (F1 & Q1 & U1).
      split; [eapply frame_hook_trans; eauto|]. split; [congruence|]. eapply user_records_trans; eauto.
    + rewrite hook_fold_None. discriminate.
Qed.

(* the hook as a whole; a failing hook leaves everything but the account sequences alone *)
Lemma run_hook_frame c s h s1 ok :
  run_hook c s h = (s1, ok) →
  frame_hook s s1 ∧ user_records s s1 ∧
  (ok = false → wlog s1 = wlog s ∧ next_l2 s1 = next_l2 s ∧ bk s1 = bk s).
Proof.
  unfold run_hook. destruct h as [| |signer tseq sig_ok msgs].
  - intros [= <- <-]. split; [apply frame_hook_refl|]. split; [by apply user_records_refl|done].
  - intros [= <- <-]. split; [apply frame_hook_refl|]. split; [by apply user_records_refl|done].
  - destruct (p_hookgas (prm s) <? hook_gas_floor)%N.
    { intros [= <- <-]. split; [apply frame_hook_refl|]. split; [by apply user_records_refl|done]. }
    destruct (negb _).
    { intros [= <- <-]. split; [apply frame_hook_refl|]. split; [by apply user_records_refl|done]. }
    destruct (foldl _ _ msgs) as [s2|] eqn:Hf.
    + intros [= <- <-]. apply hook_fold_spec in Hf as (F & _ & U). cbn in F, U.
      split; [exact F|]. split; [exact U|discriminate].
    + intros [= <- <-]. split; [repeat split|]. split; [by apply user_records_refl|done].
Qed.

(* ---- finalize_deposit ---- *)
Definition deposit_rec (m : fdep) (ok : bool) : drec :=
  {| d_seq := fd_seq m; d_to := fd_to m; d_denom := fd_denom m; d_amt := fd_amt m; d_ok := ok |}.

Lemma finalize_deposit_Some c s m s' r :
  finalize_deposit c s m = Some (s', r) →
  fdep_valid c m = true ∧ is_executor c s (fd_sender m) = true ∧
  ((r = RNoop ∧ s' = s ∧ (fd_seq m < next_l1 s)%N) ∨
   (r = RSuccess ∧ fd_seq m = next_l1 s ∧ next_l1 s' = (next_l1 s + 1)%N ∧
    ∃ ok, dlog s' = deposit_rec m ok :: dlog s ∧
          prm s' = prm s ∧ info s' = info s ∧ vs s' = vs s ∧
          ((ok = true ∧ user_records s s') ∨
           (ok = false ∧ next_l2 s' = (next_l2 s + 1)%N ∧
            ∃ base, wlog s' = {| w_seq := next_l2 s; w_from := fd_to m; w_to := fd_from m;
                                 w_denom := fd_denom m; w_base := base; w_amt := fd_amt m;
                                 w_refund := true |} :: wlog s)))).
Proof.
  unfold finalize_deposit.
  destruct (fdep_valid c m) eqn:Hv; [|discriminate]. cbn [negb].
  destruct (is_executor c s (fd_sender m)) eqn:He; [|discriminate]. cbn [negb].
  destruct (fd_seq m <? next_l1 s)%N eqn:Hlt.
  { intros [= <- <-]. apply N.ltb_lt in Hlt. split; [done|split; [done|left; done]]. }
  destruct (next_l1 s <? fd_seq m)%N eqn:Hgt; [discriminate|].
  apply N.ltb_ge in Hlt, Hgt. assert (Hseq : fd_seq m = next_l1 s) by lia.
  destruct (match resolve c (fd_to m) with
            | Some a => safe_deposit c s a (fd_denom m) (fd_amt m)
            | None => (s, false) end) as [s1 dep_ok] eqn:Hdep.
  assert (F1 : frame_bk s s1).
  { destruct (resolve c (fd_to m)); [eapply safe_deposit_frame; eauto|].
    injection Hdep as <- <-. apply frame_bk_refl. }
  destruct F1 as (F1a & F1b & F1c & F1d & F1e & F1f & F1g & F1h & F1i).
  set (s2 := set_next_l1 s1 (next_l1 s1 + 1)).
  set (s3 := match pairs s2 !! fd_denom m with
             | Some _ => s2
             | None => set_pairs s2 (<[fd_denom m:=fd_base m]> (pairs s2)) end).
  assert (F3 : next_l1 s3 = (next_l1 s + 1)%N ∧ next_l2 s3 = next_l2 s ∧ prm s3 = prm s ∧
               info s3 = info s ∧ vs s3 = vs s ∧ wlog s3 = wlog s ∧ dlog s3 = dlog s).
  { subst s3 s2. destruct (pairs _ !! _); cbn; rewrite ?F1a; auto 10. }
  destruct F3 as (F3a & F3b & F3c & F3d & F3e & F3f & F3g).
  destruct (if dep_ok && hook_nonempty (fd_hook m) then run_hook c s3 (fd_hook m) else (s3, true))
    as [s4 hook_ok] eqn:Hhook.
  assert (F4 : frame_hook s3 s4 ∧ user_records s3 s4 ∧
               (hook_ok = false → wlog s4 = wlog s3 ∧ next_l2 s4 = next_l2 s3)).
  { destruct (dep_ok && hook_nonempty (fd_hook m)).
    - apply run_hook_frame in Hhook as (F & U & Hk). split; [done|]. split; [done|]. intros Hf. by destruct (Hk Hf) as (? & ? & _).
    - injection Hhook as <- <-. split; [apply frame_hook_refl|]. split; [by apply user_records_refl|done]. }
  destruct F4 as ((F4a & F4c & F4d & F4e & F4f & F4h) & F4u & F4k).
  assert (U4 : user_records s s4).
  { destruct F4u as (ws & Hw & Hn & Hf & Hs). exists ws. rewrite Hw, Hn, Hs, F3b, F3f. auto. }
  destruct (dep_ok && hook_ok) eqn:Hok.
  { intros [= <- <-]. split; [done|]. split; [done|]. right.
    split; [done|]. split; [done|]. split; [cbn; congruence|].
    exists true. cbn. split; [unfold deposit_rec; congruence|].
    split; [congruence|]. split; [congruence|]. split; [congruence|].
    left. split; [done|]. exact U4. }
  intros Hrest. apply bind_Some in Hrest as (s5 & Hs5 & Hrest).
  apply bind_Some in Hrest as (base & Hbase & Hrest). injection Hrest as <- <-.
  assert (F5 : frame_bk s4 s5).
  { destruct dep_ok; [|injection Hs5 as <-; apply frame_bk_refl].
    apply bind_Some in Hs5 as (a & _ & Hs5). apply bind_Some in Hs5 as (b1 & _ & Hs5).
    apply bind_Some in Hs5 as (b2 & _ & Hs5). injection Hs5 as <-. apply frame_bk_set. }
  destruct F5 as (F5a & F5b & F5c & F5d & F5e & F5f & F5g & F5h & F5i).
  assert (Hkeep : wlog s4 = wlog s3 ∧ next_l2 s4 = next_l2 s3).
  { destruct hook_ok; [|by apply F4k]. rewrite andb_true_r in Hok. subst dep_ok.
    cbn [andb] in Hhook. by injection Hhook as <-. }
  destruct Hkeep as (K1 & K2).
  split; [done|]. split; [done|]. right.
  split; [done|]. split; [done|]. split; [cbn; congruence|].
  exists false. cbn. split; [unfold deposit_rec; congruence|].
  split; [congruence|]. split; [congruence|]. split; [congruence|].
  right. split; [done|]. split; [congruence|].
  exists base. replace (next_l2 s5) with (next_l2 s) by congruence.
  replace (wlog s5) with (wlog s) by congruence. reflexivity.
Qed.

Lemma finalize_deposit_noop c s m :
  fdep_valid c m = true → is_executor c s (fd_sender m) = true → (fd_seq m < next_l1 s)%N →
  finalize_deposit c s m = Some (s, RNoop).
Proof.
  intros Hv He Hlt. unfold finalize_deposit. rewrite Hv, He. cbn [negb].
  apply N.ltb_lt in Hlt. rewrite Hlt. reflexivity.
Qed.

Lemma finalize_deposit_ahead c s m : (next_l1 s < fd_seq m)%N → finalize_deposit c s m = None.
Proof.
  intros Hgt. unfold finalize_deposit.
  destruct (fdep_valid c m); [|done]. destruct (is_executor _ _ _); [|done]. cbn [negb].
  assert ((fd_seq m <? next_l1 s)%N = false) as -> by (apply N.ltb_ge; lia).
  assert ((next_l1 s <? fd_seq m)%N = true) as -> by (apply N.ltb_lt; lia). done.
Qed.

Lemma finalize_deposit_unauth c s m : is_executor c s (fd_sender m) = false → finalize_deposit c s m = None.
Proof. intros He. unfold finalize_deposit. rewrite He. destruct (fdep_valid c m); reflexivity. Qed.

(* ---- the other handlers: exact shape of the successor state ---- *)
Lemma set_bridge_info_Some c s sender bi s' r :
  set_bridge_info c s sender bi = Some (s', r) →
  is_executor c s sender = true ∧ binfo_valid bi = true ∧
  match info s with None => True | Some old => binfo_compatible old bi = true end ∧
  s' = set_info s (Some bi) ∧ r = RNone.
Proof.
  unfold set_bridge_info. repeat case_match; try discriminate; intros [= <- <-];
    repeat match goal with H : negb _ = false |- _ => apply negb_false_iff in H end;
    repeat match goal with H : _ && _ = true |- _ => apply andb_true_iff in H as [? ?] end; auto.
Qed.

Lemma set_params_Some c s p s' : set_params c s p = Some s' →
  params_valid c p = true ∧ (N.of_nat (size (vals (vs s))) ≤ p_maxv p)%N ∧ s' = set_prm s p.
Proof.
  unfold set_params. destruct (params_valid c p); [|discriminate]. cbn [negb].
  case_bool_decide; [discriminate|]. intros [= <-]. split; [done|]. split; [lia|done].
Qed.

Lemma update_params_Some c s auth p s' r :
  update_params c s auth p = Some (s', r) →
  authority c = auth ∧ params_valid c p = true ∧ s' = set_prm s p ∧ r = RNone.
Proof.
  unfold update_params, is_authority. destruct (negb (_ && _)); [discriminate|].
  case_bool_decide as Ha; [|discriminate]. cbn [negb].
  intros Hx. apply bind_Some in Hx as (s1 & Hs1 & [= <- <-]).
  apply set_params_Some in Hs1 as (? & ? & ->). auto.
Qed.

Lemma add_val_Some c s auth op key s' r :
  add_val c s auth op key = Some (s', r) →
  authority c = auth ∧ ∃ o v, op = Some o ∧ add_validator (p_maxv (prm s)) (vs s) o key = Some v ∧
  s' = set_vs s v ∧ r = RNone.
Proof.
  unfold add_val, is_authority. destruct (negb (bool_decide (is_Some _))); [discriminate|]. intros Hx.
  apply bind_Some in Hx as (o & -> & Hx). case_bool_decide as Ha; [|discriminate]. cbn [negb] in Hx.
  apply bind_Some in Hx as (v & Hv & [= <- <-]). eauto 10.
Qed.

Lemma remove_val_Some c s auth op s' r :
  remove_val c s auth op = Some (s', r) →
  authority c = auth ∧ ∃ o v, op = Some o ∧ remove_validator (vs s) o = Some v ∧
  s' = set_vs s v ∧ r = RNone.
Proof.
  unfold remove_val, is_authority. destruct (negb (bool_decide (is_Some _))); [discriminate|]. intros Hx.
  apply bind_Some in Hx as (o & -> & Hx). case_bool_decide as Ha; [|discriminate]. cbn [negb] in Hx.
  apply bind_Some in Hx as (v & Hv & [= <- <-]). eauto 10.
Qed.

Lemma spend_fee_pool_Some c s auth rcp coins s' r :
  spend_fee_pool c s auth rcp coins = Some (s', r) →
  authority c = auth ∧ ∃ b, s' = set_bk s b ∧ r = RNone.
Proof.
  unfold spend_fee_pool, is_authority. destruct (negb (bool_decide (is_Some _))); [discriminate|]. intros Hx.
  apply bind_Some in Hx as (rr & _ & Hx). destruct (negb (coins_valid coins)); [discriminate|].
  case_bool_decide as Ha; [|discriminate]. cbn [negb] in Hx. destruct (blocked c rr); [discriminate|].
  apply bind_Some in Hx as (b & _ & [= <- <-]). eauto.
Qed.

Lemma bank_send_msg_Some s from to d amt s' r :
  bank_send_msg s from to d amt = Some (s', r) → ∃ b, s' = set_bk s b ∧ r = RNone.
Proof.
  unfold bank_send_msg. destruct (negb _); [discriminate|]. intros Hx.
  apply bind_Some in Hx as (b & _ & [= <- <-]). eauto.
Qed.

(* ---- C06: the processed-deposit log ---- *)
(* between two states, exactly the sequences next_l1 s, ..., next_l1 s' - 1 were processed, in order *)
Definition processed_between (s s' : l2state) : Prop :=
  ∃ k, next_l1 s' = (next_l1 s + N.of_nat k)%N ∧
       map d_seq (dlog s') = rev (upto k (next_l1 s)) ++ map d_seq (dlog s).

Lemma processed_refl s s' : next_l1 s' = next_l1 s → dlog s' = dlog s → processed_between s s'.
Proof. intros H1 H2. exists 0. cbn. rewrite H1, H2. split; [lia|done]. Qed.

Lemma processed_trans s1 s2 s3 :
  processed_between s1 s2 → processed_between s2 s3 → processed_between s1 s3.
Proof.
  intros (k1 & Hn1 & Hl1) (k2 & Hn2 & Hl2). exists (k1 + k2). split; [lia|].
  rewrite Hl2, Hl1, Hn1, upto_app, rev_app_distr, app_assoc. done.
Qed.

Lemma handle_processed m : ∀ c s s' r, handle c s m = Some (s', r) → processed_between s s'.
Proof.
  induction m as [f|w1 w2 w3 w4|b1 b2 b3 b4|i1 i2|u1 u2|v1 v2 v3|r1 r2|p1 p2 p3|sender inner IH] using msg_ind'; intros c s s' r;
    [cbn [handle]..|].
  - intros H. apply finalize_deposit_Some in H as (_ & _ & [(-> & -> & _)|(-> & Hseq & Hn & ok & Hd & _)]).
    + by apply processed_refl.
    + exists 1. split; [lia|]. rewrite Hd. cbn. by rewrite Hseq.
  - intros H. apply withdraw_Some in H as (?&?&?&?&_&_&_&_&_&_&_&_&->). by apply processed_refl.
  - intros H. apply bank_send_msg_Some in H as (? & -> & _). by apply processed_refl.
  - intros H. apply set_bridge_info_Some in H as (_&_&_&->&_). by apply processed_refl.
  - intros H. apply update_params_Some in H as (_&_&->&_). by apply processed_refl.
  - intros H. apply add_val_Some in H as (_&?&?&_&_&->&_). by apply processed_refl.
  - intros H. apply remove_val_Some in H as (_&?&?&_&_&->&_). by apply processed_refl.
  - intros H. apply spend_fee_pool_Some in H as (_&?&->&_). by apply processed_refl.
  - rewrite handle_execute.
    destruct (negb (bool_decide (is_Some _))); [discriminate|].
    case_bool_decide; [discriminate|]. destruct (negb (is_admin s sender)); [discriminate|].
    intros Hx. apply bind_Some in Hx as (auth & _ & Hx). clear -IH Hx.
    revert s Hx. induction inner as [|im l IHl]; intros s.
    + intros [= <- <-]. by apply processed_refl.
    + rewrite exec_loop_cons. intros Hx.
      apply bind_Some in Hx as (sg & _ & Hx). apply bind_Some in Hx as (a & _ & Hx).
      destruct (negb (bool_decide (a = auth))); [discriminate|].
      apply bind_Some in Hx as ([s1 r1] & Hh & Hx).
      apply Forall_cons in IH as [IHim IHrest].
      eapply processed_trans; [eapply IHim; eauto|]. apply IHl; auto.
Qed.

Lemma step_err_unchanged c s m s' : step c s m = (s', Err) → s' = s.
Proof. unfold step. destruct (handle c s m) as [[? ?]|]; intros [= <-]; auto. Qed.

Lemma step_processed c s m : processed_between s (step c s m).1.
Proof.
  unfold step. destruct (handle c s m) as [[s' r]|] eqn:H; cbn.
  - eapply handle_processed; eauto.
  - by apply processed_refl.
Qed.

Lemma run_processed c h : ∀ s, processed_between s (run c s h).1.
Proof.
  induction h as [|m h IH]; intros s; cbn.
  - by apply processed_refl.
  - destruct (step c s m) as [s1 r1] eqn:E. destruct (run c s1 h) as [s2 rs] eqn:E2. cbn.
    eapply processed_trans; [|specialize (IH s1); rewrite E2 in IH; exact IH].
    pose proof (step_processed c s m) as Hp. by rewrite E in Hp.
Qed.
