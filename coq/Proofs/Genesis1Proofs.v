(* C16, L1 half: ValidateGenesis accepts the export of a state satisfying the invariant, and
   InitGenesis of that export rebuilds the state. *)
From stdpp Require Import gmap numbers list sorting.
From Coq Require Import ZArith Lia.
Require Import Model.Bytes Model.Bank Model.Hashes Model.Valset Model.L1 Model.Genesis1.
Require Import Proofs.Genesis1Lemmas.

(* ---- sorted_ops ---- *)
Lemma elem_of_sorted_ops {A} (m : gmap N A) b x : (b, x) ∈ sorted_ops m ↔ m !! b = Some x.
Proof. unfold sorted_ops. rewrite elem_of_merge_sort. apply elem_of_map_to_list. Qed.
Lemma NoDup_sorted_ops {A} (m : gmap N A) : NoDup (sorted_ops m).*1.
Proof.
  unfold sorted_ops. rewrite merge_sort_Permutation. apply NoDup_fst_map_to_list.
Qed.

(* ---- the per-bridge export lists ---- *)
Lemma elem_of_bridge_outputs s b i o : (i, o) ∈ bridge_outputs s b ↔ outputs s !! (b, i) = Some o.
Proof. unfold bridge_outputs. rewrite elem_of_merge_sort. apply elem_of_sel. Qed.
Lemma elem_of_bridge_pairs s b d v : (d, v) ∈ bridge_pairs s b ↔ pairs s !! (b, d) = Some v.
Proof. unfold bridge_pairs. rewrite elem_of_merge_sort. apply elem_of_sel. Qed.
Lemma elem_of_bridge_proven s b h : h ∈ bridge_proven s b ↔ (b, h) ∈ proven s.
Proof.
  unfold bridge_proven. rewrite elem_of_merge_sort, elem_of_list_omap. split.
  - intros ([b' h'] & Hin & Heq). cbn in Heq. case_bool_decide; simplify_eq. by apply elem_of_elements in Hin.
  - intros Hin. exists (b, h). split; [by apply elem_of_elements|]. cbn. by rewrite bool_decide_eq_true_2.
Qed.

Lemma bridge_batches_spec s b (n : nat) :
  (∀ i, is_Some (batches s !! (b, i)) ↔ (i < N.of_nat n)%N) →
  length (bridge_batches s b) = n ∧
  ∀ j v, bridge_batches s b !! j = Some v → batches s !! (b, N.of_nat j) = Some v.
Proof.
  intros Hc. unfold bridge_batches. set (L := merge_sort key_le (sel b (batches s))).
  assert (HL : ∀ i v, (i, v) ∈ L ↔ batches s !! (b, i) = Some v).
  { intros. unfold L. rewrite elem_of_merge_sort. apply elem_of_sel. }
  assert (Hnd : NoDup L.*1).
  { unfold L. rewrite merge_sort_Permutation. apply NoDup_sel_keys. }
  assert (Hkeys : ∀ i, i ∈ L.*1 ↔ (i < N.of_nat n)%N).
  { intros i. rewrite <- Hc. split.
    - intros Hi. apply elem_of_list_fmap in Hi as ([i' v] & -> & Hi). apply HL in Hi. eauto.
    - intros [v Hv]. apply HL in Hv. apply elem_of_list_fmap. by exists (i, v). }
  assert (Hlen : length L = n).
  { rewrite <- (fmap_length fst L).
    assert (L.*1 ≡ₚ N.of_nat <$> seq 0 n) as ->.
    { apply NoDup_Permutation; [done| |].
      - apply (NoDup_fmap_2 _). apply NoDup_seq.
      - intros i. rewrite Hkeys, elem_of_list_fmap. split.
        + intros Hi. exists (N.to_nat i). rewrite elem_of_seq. split; lia.
        + intros (j & -> & Hj). apply elem_of_seq in Hj. lia. }
    by rewrite fmap_length, seq_length. }
  rewrite fmap_length. split; [done|].
  intros j v Hj. rewrite list_lookup_fmap in Hj.
  destruct (L !! j) as [[i v']|] eqn:HLj; cbn in Hj; simplify_eq.
  assert (Hi : L.*1 !! j = Some i) by (by rewrite list_lookup_fmap, HLj).
  rewrite (sorted_contig L 0%N) in Hi.
  - rewrite list_lookup_fmap in Hi. destruct (seq 0 (length L) !! j) as [j'|] eqn:Hs; cbn in Hi; simplify_eq.
    apply lookup_seq in Hs as [-> _]. cbn. apply HL. by eapply elem_of_list_lookup_2.
  - apply StronglySorted_merge_sort; apply _.
  - done.
  - intros i'. rewrite Hkeys. lia.
Qed.

(* ---- SetBatchInfo repeated ---- *)
Definition push_all (b : N) (t : l1state) (l : list (batch * output)) : l1state :=
  foldl (λ st bo, push_batch st b bo.1 bo.2) t l.

Lemma push_all_frame b l t :
  bk (push_all b t l) = bk t ∧ next_bridge (push_all b t l) = next_bridge t ∧
  configs (push_all b t l) = configs t ∧ next_seq (push_all b t l) = next_seq t ∧
  next_out (push_all b t l) = next_out t ∧ outputs (push_all b t l) = outputs t ∧
  proven (push_all b t l) = proven t ∧ pairs (push_all b t l) = pairs t ∧
  regfee (push_all b t l) = regfee t ∧ chans (push_all b t l) = chans t ∧
  admins (push_all b t l) = admins t ∧ elog (push_all b t l) = elog t ∧ plog (push_all b t l) = plog t.
Proof.
  revert t. induction l as [|v l IH]; intros t; [by repeat split|].
  cbn. specialize (IH (push_batch t b v.1 v.2)). cbn in IH. exact IH.
Qed.

Lemma push_all_batches b l : ∀ t (k : N),
  (∀ i, is_Some (batches t !! (b, i)) ↔ (i < k)%N) →
  (∀ j v, l !! j = Some v → batches (push_all b t l) !! (b, (k + N.of_nat j)%N) = Some v) ∧
  (∀ key, key.1 ≠ b ∨ (key.2 < k)%N → batches (push_all b t l) !! key = batches t !! key) ∧
  (∀ i, is_Some (batches (push_all b t l) !! (b, i)) ↔ (i < k + N.of_nat (length l))%N).
Proof.
  induction l as [|[bi o] l IH]; intros t k Hc.
  { cbn. split; [intros j v Hj; by rewrite lookup_nil in Hj|]. split; [done|].
    intros i. rewrite Hc. lia. }
  cbn [push_all foldl]. fold (push_all b (push_batch t b (bi, o).1 (bi, o).2) l).
  set (t1 := push_batch t b (bi, o).1 (bi, o).2).
  assert (Hb1 : batches t1 = <[(b, k) := (bi, o)]> (batches t)).
  { unfold t1, push_batch. cbn. by rewrite next_batch_idx_nbi, (nbi_contig _ _ k Hc). }
  assert (Hc1 : ∀ i, is_Some (batches t1 !! (b, i)) ↔ (i < k + 1)%N).
  { intros i. rewrite Hb1, lookup_insert_is_Some, Hc. split.
    - intros [[=]|[_ ?]]; lia.
    - intros Hi. destruct (decide (i = k)) as [->|]; [by left|right]. split; [congruence|lia]. }
  destruct (IH t1 (k + 1)%N Hc1) as (IH1 & IH2 & IH3).
  split; [|split].
  - intros [|j] v Hj; cbn in Hj; simplify_eq.
    + rewrite IH2 by (right; cbn; lia). rewrite Hb1. replace (k + N.of_nat 0)%N with k by lia.
      by rewrite lookup_insert.
    + replace (k + N.of_nat (S j))%N with (k + 1 + N.of_nat j)%N by lia. by apply IH1.
  - intros [b' i'] Hk. cbn in Hk. rewrite IH2 by (cbn; destruct Hk; [by left|right; lia]).
    rewrite Hb1. rewrite lookup_insert_ne; [done|]. intros [=]; subst. destruct Hk; [done|lia].
  - intros i. rewrite IH3. cbn [length]. lia.
Qed.

(* ---- what InitGenesis has written so far is part of the exported state ---- *)
Record sub (t s : l1state) : Prop := {
  sub_cfg : configs t ⊆ configs s;
  sub_seq : ∀ b v, next_seq t !! b = Some v → seq_of s b = v;
  sub_out : ∀ b v, next_out t !! b = Some v → out_of s b = v;
  sub_outputs : outputs t ⊆ outputs s;
  sub_proven : proven t ⊆ proven s;
  sub_pairs : pairs t ⊆ pairs s;
  sub_batches : batches t ⊆ batches s;
  sub_rest : bk t = bk s ∧ regfee t = regfee s ∧ chans t = chans s ∧ admins t = admins s ∧
             elog t = elog s ∧ plog t = plog s;
}.

(* everything the state [s] records under bridge [b] is present in [f] *)
Definition covers (s f : l1state) (b : N) : Prop :=
  is_Some (configs f !! b) ∧ is_Some (next_seq f !! b) ∧ is_Some (next_out f !! b) ∧
  (∀ i, is_Some (outputs s !! (b, i)) → is_Some (outputs f !! (b, i))) ∧
  (∀ h, (b, h) ∈ proven s → (b, h) ∈ proven f) ∧
  (∀ d, is_Some (pairs s !! (b, d)) → is_Some (pairs f !! (b, d))) ∧
  (∀ i, is_Some (batches s !! (b, i)) → is_Some (batches f !! (b, i))).

Lemma firstn_pad_id (n : nat) (h : bytes) : length h = n → firstn_pad n h = h.
Proof. revert h. induction n as [|n IH]; intros [|x h] Hl; cbn in *; try done. f_equal. apply IH. lia. Qed.

Lemma foldl_proven_spec (id : N) (l : list bytes) (P : gset (N * bytes)) k :
  k ∈ foldl (λ m h, {[ (id, firstn_pad 32 h) ]} ∪ m) P l ↔ k ∈ P ∨ ∃ h, h ∈ l ∧ k = (id, firstn_pad 32 h).
Proof.
  revert P. induction l as [|h l IH]; intros P; cbn.
  - split; [auto|]. intros [?|(h & Hh & _)]; [done|]. by apply elem_of_nil in Hh.
  - rewrite IH. rewrite elem_of_union, elem_of_singleton. split.
    + intros [[->|?]|(h' & ? & ->)]; [right; exists h; split; [by left|done]|by left|].
      right. exists h'. split; [by right|done].
    + intros [?|(h' & Hh & ->)]; [left; by right|]. apply elem_of_cons in Hh as [->|Hh]; [left; by left|].
      right. by exists h'.
Qed.

Section roundtrip.
  Variable c : cfg.
  Variable s : l1state.
  Hypothesis Hinv : l1_inv c s.

  Lemma import_bridge_step t b x :
    configs s !! b = Some x → sub t s → (∀ i, batches t !! (b, i) = None) →
    ∃ t', import_bridge c (Some t) (export_bridge s (b, x)) = Some t' ∧ sub t' s ∧ covers s t' b ∧
          (∀ b', covers s t b' → covers s t' b') ∧
          (∀ b' i, b' ≠ b → batches t' !! (b', i) = batches t !! (b', i)) ∧
          next_bridge t' = next_bridge t.
  Proof.
    intros Hx Hsub Hnob.
    destruct (inv_cfg c s Hinv b x Hx) as [Hb Hvalid].
    destruct (inv_batches c s Hinv b x Hx) as (n & Hn & Hcont & _ & _).
    destruct (bridge_batches_spec s b n Hcont) as [Hlen Hbb].
    unfold import_bridge. cbn [mbind option_bind g_config export_bridge fst snd g_id g_next_seq g_next_out g_outputs g_proven g_pairs g_batches].
    rewrite Hvalid. cbn [negb].
    match goal with |- ∃ t', Some (foldl _ ?t0 _) = _ ∧ _ => set (t1 := t0) end.
    fold (push_all b t1 (bridge_batches s b)).
    assert (Hc0 : ∀ i, is_Some (batches t1 !! (b, i)) ↔ (i < 0)%N).
    { intros i. cbn. rewrite Hnob. split; [by intros [? ?]|lia]. }
    destruct (push_all_batches b (bridge_batches s b) t1 0%N Hc0) as (HB1 & HB2 & HB3).
    destruct (push_all_frame b (bridge_batches s b) t1) as (F1 & F2 & F3 & F4 & F5 & F6 & F7 & F8 & F9 & F10 & F11 & F12 & F13).
    eexists. split; [reflexivity|].
    destruct Hsub as [S1 S2 S3 S4 S5 S6 S7 S8].
    split; [|split; [|split; [|split]]].
    - (* sub *)
      constructor.
      + rewrite F3. cbn. by apply insert_subseteq_l.
      + intros b' v. rewrite F4. cbn. destruct (decide (b' = b)) as [->|];
          [rewrite lookup_insert; congruence|rewrite lookup_insert_ne by done; apply S2].
      + intros b' v. rewrite F5. cbn. destruct (decide (b' = b)) as [->|];
          [rewrite lookup_insert; congruence|rewrite lookup_insert_ne by done; apply S3].
      + rewrite F6. cbn. apply (foldl_ins_sub (λ io : N * output, (b, io.1)) snd); [done|].
        intros [i o] Hin. by apply elem_of_bridge_outputs.
      + rewrite F7. cbn. intros k Hk. apply foldl_proven_spec in Hk as [Hk|(h & Hh & ->)]; [by apply S5|].
        apply elem_of_bridge_proven in Hh. rewrite firstn_pad_id; [done|].
        by apply (inv_proven c s Hinv b h).
      + rewrite F8. cbn. apply (foldl_ins_sub (λ p : bytes * bytes, (b, p.1)) snd); [done|].
        intros [d v] Hin. by apply elem_of_bridge_pairs.
      + apply map_subseteq_spec. intros [b' i] v Hv.
        destruct (decide (b' = b)) as [->|Hne].
        * assert (i < 0 + N.of_nat (length (bridge_batches s b)))%N as Hi by (apply HB3; eauto).
          destruct (lookup_lt_is_Some_2 (bridge_batches s b) (N.to_nat i)) as [v' Hv']; [lia|].
          pose proof (HB1 _ _ Hv') as Hv2. replace (0 + N.of_nat (N.to_nat i))%N with i in Hv2 by lia.
          rewrite Hv in Hv2. simplify_eq. apply Hbb in Hv'. by rewrite N2Nat.id in Hv'.
        * rewrite HB2 in Hv by (by left). cbn in Hv. by eapply (lookup_weaken _ _ _ _ Hv).
      + rewrite F1, F9, F10, F11, F12, F13. exact S8.
    - (* covers b *)
      unfold covers. rewrite F3, F4, F5, F6, F7, F8. cbn.
      rewrite !lookup_insert. split; [eauto|]. split; [eauto|]. split; [eauto|].
      split; [|split; [|split]].
      + intros i [o Ho]. apply (foldl_ins_some (λ io : N * output, (b, io.1)) snd). right.
        exists (i, o). split; [by apply elem_of_bridge_outputs|done].
      + intros h Hh. apply foldl_proven_spec. right. exists h. split; [by apply elem_of_bridge_proven|].
        rewrite firstn_pad_id; [done|]. by apply (inv_proven c s Hinv b h).
      + intros d [v Hv]. apply (foldl_ins_some (λ p : bytes * bytes, (b, p.1)) snd). right.
        exists (d, v). split; [by apply elem_of_bridge_pairs|done].
      + intros i Hi. apply HB3. apply Hcont in Hi. lia.
    - (* earlier bridges stay covered *)
      intros b' (C1 & C2 & C3 & C4 & C5 & C6 & C7). unfold covers. rewrite F3, F4, F5, F6, F7, F8. cbn.
      rewrite !lookup_insert_is_Some'. split; [auto|]. split; [auto|]. split; [auto|].
      split; [|split; [|split]].
      + intros i Hi. apply (foldl_ins_some (λ io : N * output, (b, io.1)) snd). left. by apply C4.
      + intros h Hh. apply foldl_proven_spec. left. by apply C5.
      + intros d Hd. apply (foldl_ins_some (λ p : bytes * bytes, (b, p.1)) snd). left. by apply C6.
      + intros i Hi. destruct (decide (b' = b)) as [->|Hne].
        * apply HB3. apply Hcont in Hi. lia.
        * rewrite HB2 by (by left). cbn. by apply C7.
    - intros b' i Hne. rewrite HB2 by (by left). done.
    - by rewrite F2.
  Qed.

  Lemma import_fold l : ∀ t,
    (∀ b x, (b, x) ∈ l → configs s !! b = Some x) → NoDup l.*1 → sub t s →
    (∀ b x i, (b, x) ∈ l → batches t !! (b, i) = None) →
    ∃ f, foldl (import_bridge c) (Some t) (export_bridge s <$> l) = Some f ∧ sub f s ∧
         (∀ b', covers s t b' → covers s f b') ∧
         (∀ b x, (b, x) ∈ l → covers s f b) ∧ next_bridge f = next_bridge t.
  Proof.
    induction l as [|[b x] l IH]; intros t Hl Hnd Hsub Hnob.
    { exists t. cbn. split; [done|]. split; [done|]. split; [done|]. split; [|done]. intros b x Hin. by apply elem_of_nil in Hin. }
    cbn in Hnd. apply NoDup_cons in Hnd as [Hni Hnd].
    destruct (import_bridge_step t b x) as (t' & Hstep & Hsub' & Hcov & Hmono & Hbat & Hnb);
      [apply Hl; by left|done|intros i; eapply Hnob; by left|].
    assert (H1 : ∀ b' x', (b', x') ∈ l → configs s !! b' = Some x') by (intros; apply Hl; by right).
    assert (H2 : ∀ b' x' i, (b', x') ∈ l → batches t' !! (b', i) = None).
    { intros b' x' i Hin. rewrite Hbat.
      + eapply Hnob. by right.
      + intros ->. apply Hni. apply elem_of_list_fmap. by exists (b, x'). }
    destruct (IH t' H1 Hnd Hsub' H2) as (f & Hf & Hsubf & Hmonof & Hcovf & Hnbf).
    exists f. cbn [fmap list_fmap foldl]. rewrite Hstep. split; [exact Hf|]. split; [done|].
    split; [auto|]. split; [|congruence].
    intros b' x' Hin. apply elem_of_cons in Hin as [[= -> ->]|Hin]; [auto|eauto].
  Qed.

  Lemma sub_fresh : sub (fresh s (regfee s)) s.
  Proof.
    constructor; cbn; try apply map_empty_subseteq; try done.
  Qed.

  (* InitGenesis of the exported genesis succeeds and rebuilds the state *)
  Lemma import_export : ∃ f, import c s (export s) = Some f ∧ l1_eqv f s.
  Proof.
    destruct (import_fold (sorted_ops (configs s)) (fresh s (regfee s))) as (f & Hf & Hsub & _ & Hcov & Hnb).
    { intros b x. apply elem_of_sorted_ops. }
    { apply NoDup_sorted_ops. }
    { apply sub_fresh. }
    { done. }
    - unfold import. cbn [g_fee g_bridges g_next_bridge export]. rewrite Hf. cbn [mbind option_bind].
      eexists. split; [reflexivity|].
      assert (Hcov' : ∀ b, is_Some (configs s !! b) → covers s f b).
      { intros b [x Hx]. apply (Hcov b x). by apply elem_of_sorted_ops. }
      destruct Hsub as [S1 S2 S3 S4 S5 S6 S7 (S8 & S9 & S10 & S11 & S12 & S13)].
      assert (Hnz : (next_bridge s =? 0)%N = false) by (apply N.eqb_neq; pose proof (inv_next c s Hinv); lia).
      rewrite Hnz. unfold l1_eqv. cbn.
      repeat split; try done.
      + apply map_eq. intros b. destruct (configs s !! b) as [x|] eqn:Hx.
        * destruct (Hcov' b) as ([x' Hx'] & _); [eauto|]. rewrite Hx'. by rewrite (lookup_weaken _ _ _ _ Hx' S1) in Hx.
        * destruct (configs f !! b) as [x'|] eqn:Hx'; [|done]. by rewrite (lookup_weaken _ _ _ _ Hx' S1) in Hx.
      + intros b. unfold seq_of at 1. cbn. destruct (next_seq f !! b) as [v|] eqn:Hv; cbn.
        * symmetry. by apply S2.
        * unfold seq_of. destruct (next_seq s !! b) as [v|] eqn:Hv'; [|done].
          destruct (inv_seq c s Hinv b v Hv') as [Hc _]. destruct (Hcov' b Hc) as (_ & [? Hq] & _). congruence.
      + intros b. unfold out_of at 1. cbn. destruct (next_out f !! b) as [v|] eqn:Hv; cbn.
        * symmetry. by apply S3.
        * unfold out_of. destruct (next_out s !! b) as [v|] eqn:Hv'; [|done].
          destruct (inv_out c s Hinv b v Hv') as [Hc _]. destruct (Hcov' b Hc) as (_ & _ & [? Hq] & _). congruence.
      + apply map_eq. intros [b i]. destruct (outputs s !! (b, i)) as [o|] eqn:Ho.
        * destruct (inv_outputs c s Hinv b i o Ho) as (Hc & _). destruct (Hcov' b Hc) as (_ & _ & _ & C4 & _).
          destruct (C4 i) as [o' Ho']; [eauto|]. rewrite Ho'. by rewrite (lookup_weaken _ _ _ _ Ho' S4) in Ho.
        * destruct (outputs f !! (b, i)) as [o'|] eqn:Ho'; [|done]. by rewrite (lookup_weaken _ _ _ _ Ho' S4) in Ho.
      + apply set_eq. intros [b h]. split; [apply S5|]. intros Hin.
        destruct (inv_proven c s Hinv b h Hin) as (Hc & _). destruct (Hcov' b Hc) as (_ & _ & _ & _ & C5 & _). auto.
      + apply map_eq. intros [b d]. destruct (pairs s !! (b, d)) as [o|] eqn:Ho.
        * destruct (inv_pairs c s Hinv b d o Ho) as (Hc & _). destruct (Hcov' b Hc) as (_ & _ & _ & _ & _ & C6 & _).
          destruct (C6 d) as [o' Ho']; [eauto|]. rewrite Ho'. by rewrite (lookup_weaken _ _ _ _ Ho' S6) in Ho.
        * destruct (pairs f !! (b, d)) as [o'|] eqn:Ho'; [|done]. by rewrite (lookup_weaken _ _ _ _ Ho' S6) in Ho.
      + apply map_eq. intros [b i]. destruct (batches s !! (b, i)) as [o|] eqn:Ho.
        * pose proof (inv_batches_cfg c s Hinv b i o Ho) as Hc. destruct (Hcov' b Hc) as (_ & _ & _ & _ & _ & _ & C7).
          destruct (C7 i) as [o' Ho']; [eauto|]. rewrite Ho'. by rewrite (lookup_weaken _ _ _ _ Ho' S7) in Ho.
        * destruct (batches f !! (b, i)) as [o'|] eqn:Ho'; [|done]. by rewrite (lookup_weaken _ _ _ _ Ho' S7) in Ho.
  Qed.
End roundtrip.

(* ---- ValidateGenesis accepts the export ---- *)
Lemma seq_of_ge1 c s b : l1_inv c s → (1 ≤ seq_of s b)%N.
Proof.
  intros Hinv. unfold seq_of. destruct (next_seq s !! b) as [v|] eqn:Hv; cbn; [|lia].
  by destruct (inv_seq c s Hinv b v Hv).
Qed.

Lemma bridge_valid_export c s b x :
  l1_inv c s → configs s !! b = Some x → bridge_valid c (export_bridge s (b, x)) = true.
Proof.
  intros Hinv Hx. destruct (inv_cfg c s Hinv b x Hx) as [Hb Hvalid].
  destruct (inv_batches c s Hinv b x Hx) as (n & Hn & Hcont & (o & Hlast) & (v0 & Hv0 & He0)).
  destruct (bridge_batches_spec s b n Hcont) as [Hlen Hbb].
  unfold bridge_valid. cbn [export_bridge g_config g_id g_next_seq g_pairs g_proven g_outputs g_batches fst snd].
  rewrite !andb_true_iff. split; [split; [split; [split; [split; [split|]|]|]|]|].
  - done.
  - apply negb_true_iff, N.eqb_neq. lia.
  - apply N.leb_le. by eapply seq_of_ge1.
  - apply forallb_forall. intros [d v] Hin. apply elem_of_list_In, elem_of_bridge_pairs in Hin.
    destruct (inv_pairs c s Hinv b d v Hin) as (_ & Hd & Hv). cbn. by rewrite Hd, Hv.
  - apply forallb_forall. intros h Hin. apply elem_of_list_In, elem_of_bridge_proven in Hin.
    destruct (inv_proven c s Hinv b h Hin) as (_ & Hh). by rewrite Hh.
  - apply forallb_forall. intros [i oo] Hin. apply elem_of_list_In, elem_of_bridge_outputs in Hin.
    destruct (inv_outputs c s Hinv b i oo Hin) as (_ & Hi & Hr). cbn. rewrite Hr.
    replace (i =? 0)%N with false by (symmetry; by apply N.eqb_neq). done.
  - destruct (bridge_batches s b) as [|first rest] eqn:Hbl; [cbn in Hlen; lia|].
    assert (Hf : first = v0).
    { specialize (Hbb 0%nat first eq_refl). cbn in Hbb. congruence. }
    subst first. rewrite He0, andb_true_r. apply bool_decide_eq_true.
    rewrite last_lookup, Hlen.
    destruct ((v0 :: rest) !! Init.Nat.pred n) as [v|] eqn:Hv.
    + apply Hbb in Hv. replace (Init.Nat.pred n) with (n - 1)%nat in Hv by lia. rewrite Hlast in Hv. by simplify_eq.
    + apply lookup_ge_None in Hv. lia.
Qed.

Lemma validate_export c s : l1_inv c s → validate c (export s) = true.
Proof.
  intros Hinv. unfold validate. cbn [export g_bridges g_next_bridge g_fee].
  rewrite (inv_fee c s Hinv), andb_true_r.
  replace (1 <=? next_bridge s)%N with true by (symmetry; apply N.leb_le; apply (inv_next c s Hinv)).
  rewrite andb_true_r. apply forallb_forall. intros g Hin.
  apply elem_of_list_In, elem_of_list_fmap in Hin as ([b x] & -> & Hin).
  apply elem_of_sorted_ops in Hin. by apply bridge_valid_export.
Qed.

(* ---- export only reads what the keeper's getters expose ---- *)
Lemma export_eqv s t : l1_eqv s t → export s = export t.
Proof.
  intros (E1 & E2 & E3 & E4 & E5 & E6 & E7 & E8 & E9 & E10 & _).
  unfold export. rewrite E2, E3, E10. f_equal.
  apply list_fmap_ext. intros _ [b x] _. unfold export_bridge. cbn.
  rewrite E4, E5. unfold bridge_pairs, bridge_proven, bridge_outputs, bridge_batches.
  by rewrite E6, E7, E8, E9.
Qed.

Lemma l1_eqv_refl s : l1_eqv s s.
Proof. by repeat split. Qed.
Lemma l1_eqv_sym s t : l1_eqv s t → l1_eqv t s.
Proof. intros (E1 & E2 & E3 & E4 & E5 & E6 & E7 & E8 & E9 & E10 & E11 & E12 & E13 & E14). by repeat split. Qed.

(* the round trip: export, validate, import, export again *)
Lemma c16_l1_roundtrip c s : l1_inv c s →
  validate c (export s) = true ∧
  ∃ f, import c s (export s) = Some f ∧ l1_eqv f s ∧ export f = export s.
Proof.
  intros Hinv. split; [by apply validate_export|].
  destruct (import_export c s Hinv) as (f & Hf & Heq). exists f. split; [done|]. split; [done|].
  by apply export_eqv.
Qed.
