(* Generic lemmas for the genesis round trip: per-bridge selections of a collection, folds of
   inserts, sorted contiguous index lists, the next batch-info index. *)
From stdpp Require Import gmap numbers list sorting.
From Coq Require Import ZArith Lia.
Require Import Model.Bytes Model.Bank Model.Hashes Model.Valset Model.L1 Model.Genesis1.

(* ---- sel ---- *)
Section sel.
  Context {K : Type} `{Countable K} {A : Type}.
  Implicit Types m : gmap (N * K) A.

  Lemma elem_of_sel b m k v : (k, v) ∈ sel b m ↔ m !! (b, k) = Some v.
  Proof.
    unfold sel. rewrite elem_of_list_omap. split.
    - intros ([[b' k'] v'] & Hin & Heq). cbn in Heq. case_bool_decide; simplify_eq.
      by apply elem_of_map_to_list in Hin.
    - intros Hl. exists ((b, k), v). split; [by apply elem_of_map_to_list|].
      cbn. by rewrite bool_decide_eq_true_2.
  Qed.

  Lemma NoDup_sel_keys b m : NoDup (sel b m).*1.
  Proof.
    unfold sel. pose proof (NoDup_fst_map_to_list m) as Hnd.
    induction (map_to_list m) as [|[[b' k'] v'] l IH]; cbn; [constructor|].
    cbn in Hnd. apply NoDup_cons in Hnd as [Hni Hnd]. case_bool_decide; cbn; [|by apply IH].
    subst. apply NoDup_cons. split; [|by apply IH].
    intros Hin. apply Hni. apply elem_of_list_fmap in Hin as ([k2 v2] & -> & Hin).
    apply elem_of_list_omap in Hin as ([[b3 k3] v3] & Hin & Heq). cbn in Heq.
    case_bool_decide; simplify_eq. cbn. apply elem_of_list_fmap. eexists; split; [|exact Hin]. done.
  Qed.
End sel.

(* ---- folds of inserts ---- *)
Section foldins.
  Context {K : Type} `{Countable K} {A B : Type}.
  Variable kf : B → K.
  Variable vf : B → A.
  Let ins := (λ (m : gmap K A) (x : B), <[kf x := vf x]> m).

  Lemma foldl_ins_sub (M m0 : gmap K A) l :
    m0 ⊆ M → (∀ x, x ∈ l → M !! kf x = Some (vf x)) → foldl ins m0 l ⊆ M.
  Proof.
    revert m0. induction l as [|x l IH]; intros m0 Hsub Hl; cbn; [done|].
    apply IH; [|intros; apply Hl; by right].
    unfold ins. apply insert_subseteq_l; [apply Hl; by left|done].
  Qed.

  Lemma foldl_ins_some (m0 : gmap K A) l k :
    is_Some (m0 !! k) ∨ (∃ x, x ∈ l ∧ kf x = k) → is_Some (foldl ins m0 l !! k).
  Proof.
    revert m0. induction l as [|x l IH]; intros m0 [Hs|(y & Hy & Hk)]; cbn.
    - done.
    - by apply elem_of_nil in Hy.
    - apply IH. left. unfold ins. rewrite lookup_insert_is_Some. destruct (decide (kf x = k)); auto.
    - apply IH. apply elem_of_cons in Hy as [->|Hy].
      + left. unfold ins. subst. rewrite lookup_insert. eauto.
      + right. eauto.
  Qed.

  Lemma foldl_ins_none (m0 : gmap K A) l k :
    m0 !! k = None → (∀ x, x ∈ l → kf x ≠ k) → foldl ins m0 l !! k = None.
  Proof.
    revert m0. induction l as [|x l IH]; intros m0 Hn Hl; cbn; [done|].
    apply IH; [|intros; apply Hl; by right].
    unfold ins. rewrite lookup_insert_ne; [done|]. apply Hl. by left.
  Qed.
End foldins.

(* ---- merge_sort: only a permutation matters for membership ---- *)
Lemma elem_of_merge_sort {A} (R : relation A) `{∀ x y, Decision (R x y)} (l : list A) x :
  x ∈ merge_sort R l ↔ x ∈ l.
Proof. by rewrite merge_sort_Permutation. Qed.

Global Instance key_le_total {A} : Total (@key_le A).
Proof. intros [a ?] [b ?]. unfold key_le; cbn. lia. Qed.
Global Instance key_le_trans {A} : Transitive (@key_le A).
Proof. intros [a ?] [b ?] [c ?]. unfold key_le; cbn. lia. Qed.

(* a sorted duplicate-free list of indices whose set is {k, ..., k+n-1} is that sequence *)
Lemma sorted_contig {A} (l : list (N * A)) (k : N) :
  StronglySorted key_le l → NoDup l.*1 →
  (∀ i, i ∈ l.*1 ↔ (k ≤ i < k + N.of_nat (length l))%N) →
  l.*1 = (λ j, (k + N.of_nat j)%N) <$> seq 0 (length l).
Proof.
  revert k. induction l as [|[i0 v0] l IH]; intros k Hs Hnd Hset; [done|].
  cbn in *. apply StronglySorted_inv in Hs as [Hs Hall].
  apply NoDup_cons in Hnd as [Hni Hnd].
  assert (i0 = k) as ->.
  { assert (k ∈ i0 :: l.*1) as Hk by (apply Hset; lia).
    assert (k ≤ i0)%N by (apply (Hset i0); by left).
    apply elem_of_cons in Hk as [->|Hk]; [done|].
    apply elem_of_list_fmap in Hk as ([k' v'] & -> & Hk).
    rewrite Forall_forall in Hall. apply Hall in Hk. unfold key_le in Hk; cbn in *. lia. }
  f_equal; [f_equal; lia|].
  rewrite (IH (k + 1)%N Hs Hnd).
  - rewrite <- fmap_S_seq, <- list_fmap_compose. apply list_fmap_ext; intros; cbn; lia.
  - intros i. split.
    + intros Hi. assert (i ≠ k) by (intros ->; done).
      assert (k ≤ i < k + N.pos (Pos.of_succ_nat (length l)))%N by (apply Hset; by right). lia.
    + intros Hi. assert (i ∈ k :: l.*1) as Hk by (apply Hset; lia).
      apply elem_of_cons in Hk as [->|Hk]; [lia|done].
Qed.

(* ---- GetNextBatchInfoIndex ---- *)
Definition nbi (m : gmap (N * N) (batch * output)) (b : N) : N :=
  map_fold (λ k _ acc, if bool_decide (k.1 = b) && (acc <=? k.2)%N then (k.2 + 1)%N else acc) 0%N m.

Lemma next_batch_idx_nbi s b : next_batch_idx s b = nbi (batches s) b.
Proof. reflexivity. Qed.

Lemma nbi_spec m b :
  (∀ i, is_Some (m !! (b, i)) → (i < nbi m b)%N) ∧
  (nbi m b = 0%N ∨ is_Some (m !! (b, (nbi m b - 1)%N))).
Proof.
  unfold nbi. apply (map_fold_ind (λ r m, (∀ i, is_Some (m !! (b, i)) → (i < r)%N) ∧
                                          (r = 0%N ∨ is_Some (m !! (b, (r - 1)%N))))).
  - split; [|by left]. intros i [? Hi]. by rewrite lookup_empty in Hi.
  - intros [b' i'] x m' r Hnone [IH1 IH2]. cbn.
    destruct (decide (b' = b)) as [->|Hne].
    + rewrite bool_decide_eq_true_2 by done. cbn.
      destruct (N.leb_spec r i').
      * split.
        -- intros i Hi. destruct (decide (i = i')) as [->|]; [lia|].
           rewrite lookup_insert_ne in Hi by congruence. apply IH1 in Hi. lia.
        -- right. replace (i' + 1 - 1)%N with i' by lia. rewrite lookup_insert. eauto.
      * split.
        -- intros i Hi. destruct (decide (i = i')) as [->|]; [lia|].
           rewrite lookup_insert_ne in Hi by congruence. by apply IH1.
        -- destruct IH2 as [->|IH2]; [lia|]. right.
           rewrite lookup_insert_ne; [done|]. intros [=]. subst.
           rewrite Hnone in IH2. by destruct IH2.
    + rewrite bool_decide_eq_false_2 by done. cbn. split.
      * intros i Hi. rewrite lookup_insert_ne in Hi by congruence. by apply IH1.
      * destruct IH2 as [->|IH2]; [by left|right]. by rewrite lookup_insert_ne by congruence.
Qed.

(* if the indices stored for [b] are exactly 0..n-1 the next index is n *)
Lemma nbi_contig m b (n : N) :
  (∀ i, is_Some (m !! (b, i)) ↔ (i < n)%N) → nbi m b = n.
Proof.
  intros Hc. destruct (nbi_spec m b) as [H1 H2].
  assert (n ≤ nbi m b)%N.
  { destruct (decide (n = 0%N)) as [->|]; [lia|].
    assert (is_Some (m !! (b, (n - 1)%N))) as Hs by (apply Hc; lia). apply H1 in Hs. lia. }
  destruct H2 as [H2|H2]; [lia|]. apply Hc in H2. lia.
Qed.
