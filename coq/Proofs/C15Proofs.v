(* Proofs for C15: quorum extraction from an accepted oracle update, nothing from unknown /
   repeated / badly signed / non-commit votes, strictly increasing timestamps, heights, and
   replacement of the recorded validator set. *)
From stdpp Require Import gmap numbers list.
From Coq Require Import ZArith Lia.
Require Import Model.Oracle Proofs.OracleLemmas.
Local Open Scope Z_scope.

(* ---------------------------------------------------------------------------------------- *)
(* arithmetic: LegacyDec quotient >= 0.667 implies two thirds                                 *)

Lemma dec_one_val : dec_one = 1000000000000000000. Proof. reflexivity. Qed.

Lemma bankers_pos_le q : bankers_pos q <= q / dec_one + 1.
Proof.
  unfold bankers_pos. repeat match goal with |- context[if ?c then _ else _] => destruct c end; lia.
Qed.

Lemma bankers_pos_zero : bankers_pos 0 = 0. Proof. reflexivity. Qed.

Lemma bankers_pos_nonneg q : 0 <= q → 0 <= bankers_pos q.
Proof.
  intros Hq. unfold bankers_pos.
  assert (0 <= q / dec_one) by (apply Z.div_pos; [done|rewrite dec_one_val; lia]).
  repeat match goal with |- context[if ?c then _ else _] => destruct c end; lia.
Qed.

Lemma threshold_val : threshold = 667000000000000000. Proof. reflexivity. Qed.

Lemma quorum_two_thirds W T : 0 < T → threshold <= dec_quo W T → 2 * T <= 3 * W.
Proof.
  intros HT H. unfold dec_quo in H.
  set (n := W * dec_one * (dec_one * dec_one)) in *.
  set (d := T * dec_one) in *.
  assert (HP : dec_one = 1000000000000000000) by reflexivity.
  assert (Hd : 0 < d) by (unfold d; lia).
  destruct (Z_lt_le_dec W 0) as [HW|HW].
  - (* negative weight: the quotient is not positive *)
    exfalso.
    assert (Hn : 0 <= - n) by (unfold n; nia).
    assert (Hq : Z.quot n d = - ((- n) / d)).
    { replace n with (- - n) at 1 by lia. rewrite Z.quot_opp_l by lia.
      rewrite Z.quot_div_nonneg by lia. done. }
    assert (0 <= (- n) / d) by (apply Z.div_pos; lia).
    rewrite Hq in H. unfold bankers in H.
    destruct (- (- n / d) <? 0) eqn:E.
    + pose proof (bankers_pos_nonneg (- - (- n / d)) ltac:(lia)). rewrite threshold_val in H. lia.
    + apply Z.ltb_ge in E. replace (- (- n / d)) with 0 in H by lia. rewrite bankers_pos_zero, threshold_val in H. lia.
  - assert (Hn : 0 <= n) by (unfold n; nia).
    rewrite Z.quot_div_nonneg in H by lia.
    set (q := n / d) in *.
    assert (Hq : 0 <= q) by (apply Z.div_pos; lia).
    unfold bankers in H. destruct (q <? 0) eqn:E; [apply Z.ltb_lt in E; lia|].
    pose proof (bankers_pos_le q) as Hb.
    assert (Hqd : threshold - 1 <= q / dec_one) by lia.
    assert (Hq2 : (threshold - 1) * dec_one <= q).
    { pose proof (Z.mul_div_le q dec_one ltac:(lia)). nia. }
    assert (Hq3 : q * d <= n).
    { unfold q. rewrite Z.mul_comm. apply Z.mul_div_le. lia. }
    unfold n, d in *. rewrite threshold_val in *. rewrite HP in *. nia.
Qed.

(* ---------------------------------------------------------------------------------------- *)
(* contributors                                                                               *)

Lemma contributors_elem m prov cp c :
  c ∈ contributors m prov cp ↔
  ∃ pk ps, m !! c.1.1 = Some (pk, c.1.2) ∧ prov !! c.1.1 = Some ps ∧ price_of ps cp = Some c.2.
Proof.
  unfold contributors. rewrite elem_of_list_omap. split.
  - intros ([a [pk w]] & Hin & Hf). apply elem_of_map_to_list in Hin. cbn in Hf.
    destruct (prov !! a) as [ps|] eqn:Hp; [|done]. destruct (price_of ps cp) as [p|] eqn:Hpr; [|done].
    injection Hf as <-. cbn. eauto.
  - intros (pk & ps & Hm & Hp & Hpr). destruct c as [[a w] p]. cbn in *.
    exists (a, (pk, w)). split; [by apply elem_of_map_to_list|]. cbn. by rewrite Hp, Hpr.
Qed.

Lemma contributors_keys_sub m prov cp a :
  a ∈ (λ c : N * Z * Z, c.1.1) <$> contributors m prov cp → a ∈ (map_to_list m).*1.
Proof.
  intros ([[a' w] p] & -> & Hc)%elem_of_list_fmap. apply contributors_elem in Hc as (pk & ps & Hm & _). cbn in *.
  apply elem_of_list_fmap. exists (a', (pk, w)). split; [done|]. by apply elem_of_map_to_list.
Qed.

Lemma omap_keys_nodup (f : N * (N * Z) → option (N * Z * Z)) l :
  (∀ kv y, f kv = Some y → y.1.1 = kv.1) → NoDup l.*1 →
  NoDup ((λ c : N * Z * Z, c.1.1) <$> omap f l).
Proof.
  intros Hf. induction l as [|kv l IH]; cbn; [constructor|].
  intros [Hni Hnd]%NoDup_cons. destruct (f kv) as [y|] eqn:E; cbn; [|auto].
  apply NoDup_cons. split; [|auto]. rewrite (Hf _ _ E).
  intros (c & Hk & Hc)%elem_of_list_fmap. apply elem_of_list_omap in Hc as (kv' & Hin & Hf').
  apply Hni. apply elem_of_list_fmap. exists kv'. split; [|done]. rewrite Hk. by apply Hf in Hf'.
Qed.

Lemma contributors_nodup m prov cp : NoDup ((λ c : N * Z * Z, c.1.1) <$> contributors m prov cp).
Proof.
  unfold contributors. apply omap_keys_nodup; [|apply NoDup_fst_map_to_list].
  intros [a [pk w]] y. cbn. destruct (prov !! a) as [ps|]; [|done]. destruct (price_of ps cp); [|done].
  by intros [= <-].
Qed.

Definition power_sum (m : gmap N (N * Z)) (vals : list N) : Z :=
  sum_z ((λ a, default 0 (tokens_of m a)) <$> vals).

Lemma power_sum_list m (l : list (N * Z * Z)) :
  (∀ c, c ∈ l → default 0 (tokens_of m c.1.1) = c.1.2) →
  power_sum m ((λ c : N * Z * Z, c.1.1) <$> l) = sum_z ((λ c : N * Z * Z, c.1.2) <$> l).
Proof.
  unfold power_sum. induction l as [|c l IH]; intros H; [done|].
  cbn. rewrite H by left. f_equal. apply IH. intros c' Hc'. apply H. by right.
Qed.

Lemma contributors_power_sum m prov cp :
  power_sum m ((λ c : N * Z * Z, c.1.1) <$> contributors m prov cp) =
  sum_z ((λ c : N * Z * Z, c.1.2) <$> contributors m prov cp).
Proof.
  apply power_sum_list. intros c (pk & ps & Hm & _)%contributors_elem. unfold tokens_of. by rewrite Hm.
Qed.

(* ---------------------------------------------------------------------------------------- *)
(* C15_quorum                                                                                 *)

(* validator [a] of the recorded set has, in [votes], a commit vote with a valid, present
   signature whose decoded extension carries a price for [cp] *)
Definition signed_price_vote (s : ostate) (votes : list vote) (cp a : N) : Prop :=
  ∃ pk w v ps p, hset s !! a = Some (pk, w) ∧ v ∈ votes ∧ v_addr v = a ∧
    v_commit v = true ∧ v_sig_ok v = true ∧ v_sig_empty v = false ∧
    v_dec v = Some (true, ps) ∧ price_of ps cp = Some p.

Lemma agg_price_quorum s votes cp p :
  validate_ves (hset s) votes = true →
  agg_price s (providers votes) cp = Some p →
  ∃ vals, NoDup vals ∧ (∀ a, a ∈ vals → signed_price_vote s votes cp a) ∧
          2 * total_tokens (hset s) <= 3 * power_sum (hset s) vals.
Proof.
  intros Hv Ha. apply validate_ves_known in Hv as [HT Hwf].
  unfold agg_price in Ha. destruct (quotes s !! cp); [|done].
  set (cs := contributors (hset s) (providers votes) cp) in *.
  destruct (threshold <=? dec_quo (sum_z ((λ c : N * Z * Z, c.1.2) <$> cs)) (total_tokens (hset s))) eqn:Hth; [|done].
  apply Z.leb_le in Hth. apply quorum_two_thirds in Hth; [|done].
  exists ((λ c : N * Z * Z, c.1.1) <$> cs). split; [apply contributors_nodup|]. split.
  - intros a ([[a' w] p'] & -> & Hc)%elem_of_list_fmap.
    apply contributors_elem in Hc as (pk & ps & Hm & Hp & Hpr). cbn in *.
    apply providers_from in Hp as (v & Hin & Hav & Hd).
    apply eff_dec_nonempty in Hd as [He Hd].
    assert (Hk : is_Some (tokens_of (hset s) (v_addr v))) by (unfold tokens_of; rewrite Hav, Hm; eauto).
    destruct (Hwf v Hin Hk) as [(Hc & Ho & Hs)|(_ & He' & _)]; [|congruence].
    exists pk, w, v, ps, p'. done.
  - unfold cs. by rewrite contributors_power_sum.
Qed.

Lemma c15_quorum s blk sender height commit s' cp :
  update_oracle s blk sender height commit = Some s' →
  quotes s' !! cp ≠ quotes s !! cp →
  ∃ snd i votes vals,
    sender = Some snd ∧ snd ∈ execs s ∧ info s = Some i ∧ bi_oracle i = true ∧ commit = Some votes ∧
    NoDup vals ∧ (∀ a, a ∈ vals → signed_price_vote s votes cp a) ∧
    2 * total_tokens (hset s) <= 3 * power_sum (hset s) vals.
Proof.
  intros H Hne. apply update_oracle_Some in H as (snd & i & hh & votes & tsp & -> & _ & He & Hi & Ho & _ & _ & -> & Hv & _ & _ & _ & ->).
  cbn in Hne. rewrite write_quotes_lookup in Hne.
  destruct (quotes s !! cp) as [old|] eqn:Hq; [|done].
  destruct (agg_price s (providers votes) cp) as [p|] eqn:Ha; [|done].
  destruct (agg_price_quorum s votes cp p Hv Ha) as (vals & ? & ? & ?).
  exists snd, i, votes, vals. done.
Qed.

(* prices change only by oracle updates (creating a pair adds a pair without a price; the oracle
   module's own removal of the pair deletes the pair together with its quote) *)
Lemma c15_price_changes_only_by s o cp :
  is_Some (quotes s !! cp) → quotes (step s o).1 !! cp ≠ quotes s !! cp →
  o = ORemovePair cp ∨
  ∃ blk sender height commit, o = OUpdateOracle blk sender height commit ∧
                              update_oracle s blk sender height commit = Some (step s o).1.
Proof.
  intros Hex Hne. unfold step in *. destruct (handle s o) as [s'|] eqn:Hh; [|done]. cbn in *.
  destruct o as [blk sender height commit|client height entries|l|i|cp'|cp']; cbn in Hh.
  - right. eauto 10.
  - apply update_host_Some in Hh as [->|(i & _ & _ & _ & _ & ->)]; done.
  - by injection Hh as <-.
  - by injection Hh as <-.
  - apply create_pair_Some in Hh as [Hn ->]. cbn in Hne.
    destruct (decide (cp' = cp)) as [->|]; [rewrite Hn in Hex; by destruct Hex|].
    by rewrite lookup_insert_ne in Hne.
  - apply remove_pair_Some in Hh as [_ ->]. cbn in Hne.
    destruct (decide (cp' = cp)) as [->|]; [by left|]. by rewrite lookup_delete_ne in Hne.
Qed.

(* ---------------------------------------------------------------------------------------- *)
(* C15_nothing_from                                                                           *)

(* (c) a commit vote of a recorded validator whose signature does not verify rejects the update *)
Lemma c15_bad_signature_rejects s blk sender height votes v :
  v ∈ votes → is_Some (hset s !! v_addr v) → v_commit v = true → v_sig_ok v = false →
  update_oracle s blk sender height (Some votes) = None.
Proof.
  intros Hin Hk Hc Ho. destruct (update_oracle s blk sender height (Some votes)) as [s'|] eqn:H; [|done].
  apply update_oracle_Some in H as (?&?&?&votes'&?&_&_&_&_&_&_&_&[= <-]&Hv&_).
  apply validate_ves_known in Hv as [_ Hwf].
  assert (Hk' : is_Some (tokens_of (hset s) (v_addr v))) by (unfold tokens_of; destruct Hk as [? ->]; eauto).
  destruct (Hwf v Hin Hk') as [(_ & ? & _)|(? & _)]; congruence.
Qed.

(* ... and so does a non-commit vote of a recorded validator that carries an extension or a signature *)
Lemma c15_noncommit_payload_rejects s blk sender height votes v :
  v ∈ votes → is_Some (hset s !! v_addr v) → v_commit v = false →
  v_ext_empty v = false ∨ v_sig_empty v = false →
  update_oracle s blk sender height (Some votes) = None.
Proof.
  intros Hin Hk Hc Hp. destruct (update_oracle s blk sender height (Some votes)) as [s'|] eqn:H; [|done].
  apply update_oracle_Some in H as (?&?&?&votes'&?&_&_&_&_&_&_&_&[= <-]&Hv&_).
  apply validate_ves_known in Hv as [_ Hwf].
  assert (Hk' : is_Some (tokens_of (hset s) (v_addr v))) by (unfold tokens_of; destruct Hk as [? ->]; eauto).
  destruct (Hwf v Hin Hk') as [(? & _)|(_ & ? & ?)]; [congruence|]. destruct Hp; congruence.
Qed.

(* (a) votes of unknown validators and non-commit votes *)
Definition counts (s : ostate) (v : vote) : bool :=
  bool_decide (is_Some (hset s !! v_addr v)) && v_commit v.

Lemma tokens_of_is_Some m a : is_Some (tokens_of m a) ↔ is_Some (m !! a).
Proof. unfold tokens_of. rewrite fmap_is_Some. done. Qed.

Lemma vve_loop_filter s votes sum sum' :
  vve_loop (hset s) votes sum = Some sum' →
  vve_loop (hset s) (filter (λ v, counts s v = true) votes) sum = Some sum'.
Proof.
  revert sum. induction votes as [|u votes IH]; intros sum H; [done|].
  cbn [vve_loop] in H. rewrite filter_cons.
  destruct (decide (counts s u = true)) as [Hcnt|Hcnt].
  - unfold counts in Hcnt. apply andb_prop in Hcnt as [Hk%bool_decide_eq_true Hc].
    apply tokens_of_is_Some in Hk as [p Hp]. rewrite Hp in H. cbn [vve_loop]. rewrite Hp.
    rewrite Hc in *. cbn [andb negb] in *.
    destruct (v_sig_empty u); [done|]. cbn [andb negb] in *.
    destruct (v_sig_ok u); [|done]. cbn [negb] in *. destruct (fits64 p); [|done]. cbn [negb] in *. auto.
  - destruct (tokens_of (hset s) (v_addr u)) as [p|] eqn:Hp; [|auto].
    assert (Hc : v_commit u = false).
    { destruct (v_commit u) eqn:Hc; [|done]. exfalso. apply Hcnt. unfold counts. rewrite Hc, andb_true_r.
      apply bool_decide_eq_true. apply tokens_of_is_Some. rewrite Hp. eauto. }
    rewrite Hc in H. cbn [andb negb] in H. destruct (v_ext_empty u); [|done].
    destruct (v_sig_empty u); [|done]. cbn [andb negb] in H. auto.
Qed.

Lemma validate_ves_filter s votes :
  validate_ves (hset s) votes = true →
  validate_ves (hset s) (filter (λ v, counts s v = true) votes) = true.
Proof.
  unfold validate_ves. destruct (fits64 (total_tokens (hset s))); cbn; [|done].
  destruct (vve_loop (hset s) votes 0) as [sum|] eqn:Hl; [|done].
  by rewrite (vve_loop_filter _ _ _ _ Hl).
Qed.

Lemma all_decode_filter (P : vote → Prop) `{HdecP : !∀ v, Decision (P v)} votes :
  all_decode votes = true → all_decode (filter P votes) = true.
Proof.
  unfold all_decode. rewrite !forallb_forall. intros Hall v Hv. apply Hall.
  apply elem_of_list_In. apply elem_of_list_In in Hv. by apply elem_of_list_filter in Hv as [_ ?].
Qed.

(* the provider entries of recorded validators are the same with and without the other votes *)
Lemma providers_filter_aux s votes prov prov' :
  (∀ v, v ∈ votes → is_Some (tokens_of (hset s) (v_addr v)) → vote_wellformed v) →
  (∀ a, is_Some (hset s !! a) → prov !! a = prov' !! a) →
  ∀ a, is_Some (hset s !! a) →
    fold_left add_vote votes prov !! a = fold_left add_vote (filter (λ v, counts s v = true) votes) prov' !! a.
Proof.
  revert prov prov'. induction votes as [|u votes IH]; intros prov prov' Hwf Hag a Ha; [by apply Hag|].
  rewrite filter_cons. cbn [fold_left].
  assert (Hwf' : ∀ v, v ∈ votes → is_Some (tokens_of (hset s) (v_addr v)) → vote_wellformed v).
  { intros v Hv. apply Hwf. by right. }
  destruct (decide (counts s u = true)) as [Hc|Hc].
  - cbn [fold_left]. apply IH; [done| |done]. intros b Hb. unfold add_vote.
    destruct (eff_dec u) as [[[] ps]|]; auto.
    destruct (decide (v_addr u = b)) as [->|Hne]; [by rewrite !lookup_insert|].
    rewrite !lookup_insert_ne by done. auto.
  - apply IH; [done| |done]. intros b Hb. unfold add_vote.
    destruct (eff_dec u) as [[[] ps]|] eqn:Hd; auto.
    destruct (decide (v_addr u = b)) as [Heq|Hne]; [|rewrite lookup_insert_ne by done; auto].
    (* a vote of a recorded validator that does not count is a non-commit vote: empty extension *)
    exfalso. apply Hc. unfold counts. subst b. apply andb_true_intro. split; [by apply bool_decide_eq_true|].
    apply eff_dec_nonempty in Hd as [He _].
    destruct (Hwf u ltac:(left) ltac:(by apply tokens_of_is_Some)) as [(? & _)|(_ & ? & _)]; [done|congruence].
Qed.

Lemma contributors_ext m prov prov' cp :
  (∀ a, is_Some (m !! a) → prov !! a = prov' !! a) →
  contributors m prov cp = contributors m prov' cp.
Proof.
  intros H. unfold contributors.
  assert (Hl : ∀ kv, kv ∈ map_to_list m → is_Some (m !! kv.1)).
  { intros [a x] Hin. apply elem_of_map_to_list in Hin. cbn. eauto. }
  induction (map_to_list m) as [|kv l IH]; [done|].
  cbn. rewrite (H kv.1) by (apply Hl; left). rewrite IH; [done|]. intros kv' ?. apply Hl. by right.
Qed.

Lemma agg_price_ext s prov prov' cp :
  (∀ a, is_Some (hset s !! a) → prov !! a = prov' !! a) →
  agg_price s prov cp = agg_price s prov' cp.
Proof. intros H. unfold agg_price. by rewrite (contributors_ext _ _ _ _ H). Qed.

Lemma write_ok_ext q agg agg' ts : (∀ cp, agg cp = agg' cp) → write_ok q agg ts = write_ok q agg' ts.
Proof.
  intros H. unfold write_ok. induction (map_to_list q) as [|kv l IH]; [done|]. cbn. by rewrite H, IH.
Qed.

Lemma write_quotes_ext q agg agg' ts blk :
  (∀ cp, agg cp = agg' cp) → write_quotes q agg ts blk = write_quotes q agg' ts blk.
Proof. intros H. apply map_eq. intros cp. rewrite !write_quotes_lookup. by rewrite H. Qed.

(* an accepted update gives the same result when every vote of an unknown validator and every
   non-commit vote is deleted from the commit *)
Lemma c15_nothing_from_unknown_noncommit s blk sender height votes s' :
  update_oracle s blk sender height (Some votes) = Some s' →
  update_oracle s blk sender height (Some (filter (λ v, counts s v = true) votes)) = Some s'.
Proof.
  intros H. apply update_oracle_Some in H as (snd & i & hh & votes' & tsp & -> & Hh & He & Hi & Ho & Hhh & Hle & [= <-] & Hv & Hd & Ht & Hw & ->).
  set (votes2 := filter (λ v, counts s v = true) votes).
  assert (Hagg : ∀ cp, agg_price s (providers votes) cp = agg_price s (providers votes2) cp).
  { intros cp. apply agg_price_ext. intros a Ha. unfold providers.
    apply providers_filter_aux; [|done|done]. apply validate_ves_known in Hv as [_ ?]. done. }
  rewrite (update_oracle_intro s blk snd i hh height votes2 tsp); try done.
  - f_equal. f_equal. symmetry. by apply write_quotes_ext.
  - by apply validate_ves_filter.
  - by apply all_decode_filter.
  - by rewrite <- Hagg.
  - by rewrite <- (write_ok_ext _ _ _ _ Hagg).
Qed.

(* (b) an earlier vote of a validator that votes again with a non-empty extension *)
Lemma fold_add_vote_override l2 a (prov prov' : gmap N (list (N * Z))) :
  (∃ v' ps', v' ∈ l2 ∧ v_addr v' = a ∧ eff_dec v' = Some (true, ps')) →
  (∀ k, k ≠ a → prov !! k = prov' !! k) →
  fold_left add_vote l2 prov = fold_left add_vote l2 prov'.
Proof.
  revert prov prov'. induction l2 as [|u l2 IH]; intros prov prov' (v' & ps' & Hin & Ha & Hd) Hag.
  { by apply elem_of_nil in Hin. }
  cbn [fold_left]. apply elem_of_cons in Hin as [<-|Hin].
  - assert (add_vote prov v' = add_vote prov' v') as ->; [|done].
    unfold add_vote. rewrite Hd. apply map_eq. intros k.
    destruct (decide (v_addr v' = k)) as [->|Hne]; [by rewrite !lookup_insert|].
    rewrite !lookup_insert_ne by done. apply Hag. congruence.
  - apply IH; [eauto|]. intros k Hk. unfold add_vote.
    destruct (eff_dec u) as [[[] ps]|]; auto.
    destruct (decide (v_addr u = k)) as [->|Hne]; [by rewrite !lookup_insert|].
    rewrite !lookup_insert_ne by done. auto.
Qed.

Lemma providers_earlier_vote l1 v l2 v' ps' :
  v' ∈ l2 → v_addr v' = v_addr v → eff_dec v' = Some (true, ps') →
  providers (l1 ++ v :: l2) = providers (l1 ++ l2).
Proof.
  intros Hin Ha Hd. unfold providers. rewrite !fold_left_app. cbn [fold_left].
  apply (fold_add_vote_override l2 (v_addr v)); [eauto|].
  intros k Hk. unfold add_vote. destruct (eff_dec v) as [[[] ps]|]; auto.
  by rewrite lookup_insert_ne.
Qed.

Lemma c15_earlier_vote_contributes_nothing s l1 v l2 v' ps' cp :
  v' ∈ l2 → v_addr v' = v_addr v → eff_dec v' = Some (true, ps') →
  agg_price s (providers (l1 ++ v :: l2)) cp = agg_price s (providers (l1 ++ l2)) cp.
Proof. intros. by erewrite providers_earlier_vote. Qed.

Lemma all_decode_remove l1 v l2 : all_decode (l1 ++ v :: l2) = true → all_decode (l1 ++ l2) = true.
Proof.
  unfold all_decode. rewrite !forallb_app. cbn. intros [? [? ?]%andb_prop]%andb_prop. by apply andb_true_intro.
Qed.

Lemma c15_earlier_vote_same_result s blk sender height l1 v l2 v' ps' s' :
  v' ∈ l2 → v_addr v' = v_addr v → eff_dec v' = Some (true, ps') →
  update_oracle s blk sender height (Some (l1 ++ v :: l2)) = Some s' →
  validate_ves (hset s) (l1 ++ l2) = true →
  update_oracle s blk sender height (Some (l1 ++ l2)) = Some s'.
Proof.
  intros Hin Ha Hd H Hv2.
  apply update_oracle_Some in H as (snd & i & hh & votes' & tsp & -> & Hh & He & Hi & Ho & Hhh & Hle & [= <-] & Hv & Hdec & Ht & Hw & ->).
  rewrite (providers_earlier_vote l1 v l2 v' ps' Hin Ha Hd) in *.
  rewrite (update_oracle_intro s blk snd i hh height (l1 ++ l2) tsp); try done.
  by eapply all_decode_remove.
Qed.

(* the three clauses together *)
Lemma c15_nothing_from :
  (∀ s blk sender height votes s',
     update_oracle s blk sender height (Some votes) = Some s' →
     update_oracle s blk sender height (Some (filter (λ v, counts s v = true) votes)) = Some s') ∧
  (∀ s l1 v l2 v' ps' cp,
     v' ∈ l2 → v_addr v' = v_addr v → eff_dec v' = Some (true, ps') →
     agg_price s (providers (l1 ++ v :: l2)) cp = agg_price s (providers (l1 ++ l2)) cp) ∧
  (∀ s blk sender height votes v,
     v ∈ votes → is_Some (hset s !! v_addr v) → v_commit v = true → v_sig_ok v = false →
     update_oracle s blk sender height (Some votes) = None).
Proof.
  split; [exact c15_nothing_from_unknown_noncommit|]. split; [exact c15_earlier_vote_contributes_nothing|].
  exact c15_bad_signature_rejects.
Qed.

(* ---------------------------------------------------------------------------------------- *)
(* C15_timestamp_monotone                                                                     *)

Definition ts_advanced (q q' : quote) : Prop := q' = q ∨ q_ts q < q_ts q'.

Lemma ts_advanced_trans q1 q2 q3 : ts_advanced q1 q2 → ts_advanced q2 q3 → ts_advanced q1 q3.
Proof. unfold ts_advanced. intros [->|?] [->|?]; auto. right. lia. Qed.

Lemma update_oracle_ts s blk sender height commit s' cp q :
  update_oracle s blk sender height commit = Some s' → quotes s !! cp = Some (Some q) →
  ∃ q', quotes s' !! cp = Some (Some q') ∧ ts_advanced q q'.
Proof.
  intros H Hq. apply update_oracle_Some in H as (snd & i & hh & votes & tsp & _ & _ & _ & _ & _ & _ & _ & _ & _ & _ & _ & Hw & ->).
  cbn. rewrite write_quotes_lookup, Hq.
  destruct (agg_price s (providers votes) cp) as [p|] eqn:Ha.
  - eexists. split; [done|]. right. cbn. eapply write_ok_spec; eauto.
  - exists q. split; [done|by left].
Qed.

Lemma step_ts s o cp q :
  o ≠ ORemovePair cp →
  quotes s !! cp = Some (Some q) → ∃ q', quotes (step s o).1 !! cp = Some (Some q') ∧ ts_advanced q q'.
Proof.
  intros Hrm Hq. unfold step. destruct (handle s o) as [s'|] eqn:Hh; cbn; [|exists q; split; [done|by left]].
  destruct o as [blk sender height commit|client height entries|l|i|cp'|cp']; cbn in Hh.
  - eauto using update_oracle_ts.
  - apply update_host_Some in Hh as [->|(i & _ & _ & _ & _ & ->)]; exists q; (split; [done|by left]).
  - injection Hh as <-. exists q. split; [done|by left].
  - injection Hh as <-. exists q. split; [done|by left].
  - apply create_pair_Some in Hh as [Hn ->]. cbn. exists q. split; [|by left].
    rewrite lookup_insert_ne; [done|]. intros ->. congruence.
  - apply remove_pair_Some in Hh as [_ ->]. cbn. exists q. split; [|by left].
    rewrite lookup_delete_ne; [done|]. intros ->. done.
Qed.

Lemma run_ts h s cp q :
  ORemovePair cp ∉ h →
  quotes s !! cp = Some (Some q) → ∃ q', quotes (run s h) !! cp = Some (Some q') ∧ ts_advanced q q'.
Proof.
  revert s q. induction h as [|o h IH]; intros s q Hrm Hq; [exists q; split; [done|by left]|].
  apply not_elem_of_cons in Hrm as [Ho Hrm].
  rewrite run_cons. destruct (step_ts s o cp q ltac:(done) Hq) as (q1 & H1 & Ha1).
  destruct (IH _ _ Hrm H1) as (q2 & H2 & Ha2). exists q2. split; [done|]. eauto using ts_advanced_trans.
Qed.

(* per pair, over every stretch of history in which the oracle module does not remove the pair *)
Lemma c15_timestamp_monotone s h1 h2 cp q1 :
  ORemovePair cp ∉ h2 →
  quotes (run s h1) !! cp = Some (Some q1) →
  ∃ q2, quotes (run s (h1 ++ h2)) !! cp = Some (Some q2) ∧ (q2 = q1 ∨ q_ts q1 < q_ts q2).
Proof. intros Hrm H. rewrite run_app. by apply run_ts. Qed.

(* removal and re-creation: the pair comes back without a quote (its timestamp history restarts) *)
Lemma c15_remove_create s cp s1 s2 :
  remove_pair s cp = Some s1 → create_pair s1 cp = Some s2 →
  quotes s2 !! cp = Some None ∧ ∀ cp', cp' ≠ cp → quotes s2 !! cp' = quotes s !! cp'.
Proof.
  intros [_ ->]%remove_pair_Some [_ ->]%create_pair_Some. cbn. split; [by rewrite lookup_insert|].
  intros cp' Hne. by rewrite lookup_insert_ne, lookup_delete_ne.
Qed.

(* a replay (same timestamp) or a rollback (older timestamp) of any pair it would write rejects the update *)
Lemma c15_replay_rejected s blk sender height votes tsp cp p q :
  agg_price s (providers votes) ts_pair = Some tsp →
  agg_price s (providers votes) cp = Some p → quotes s !! cp = Some (Some q) →
  wrap64 tsp <= q_ts q →
  update_oracle s blk sender height (Some votes) = None.
Proof.
  intros Ht Ha Hq Hle. destruct (update_oracle s blk sender height (Some votes)) as [s'|] eqn:H; [|done].
  apply update_oracle_Some in H as (?&?&?&votes'&tsp'&_&_&_&_&_&_&_&[= <-]&_&_&Ht'&Hw&_).
  rewrite Ht in Ht'. injection Ht' as <-. pose proof (write_ok_spec _ _ _ _ _ _ Hw Hq Ha). lia.
Qed.

(* the written quote carries the aggregated timestamp of the update *)
Lemma c15_written_quote s blk sender height commit s' cp :
  update_oracle s blk sender height commit = Some s' → quotes s' !! cp ≠ quotes s !! cp →
  ∃ votes tsp p, commit = Some votes ∧ agg_price s (providers votes) ts_pair = Some tsp ∧
                 agg_price s (providers votes) cp = Some p ∧
                 quotes s' !! cp = Some (Some (MkQuote p (wrap64 tsp) blk)).
Proof.
  intros H Hne. apply update_oracle_Some in H as (snd & i & hh & votes & tsp & _ & _ & _ & _ & _ & _ & _ & -> & _ & _ & Ht & _ & ->).
  cbn in *. rewrite write_quotes_lookup in *. destruct (quotes s !! cp) as [old|]; [|done].
  destruct (agg_price s (providers votes) cp) as [p|] eqn:Ha; [|done]. eauto 10.
Qed.

(* ---------------------------------------------------------------------------------------- *)
(* C15_height                                                                                 *)

Lemma wrap64_small z : - two63 <= z < two63 → wrap64 z = z.
Proof. intros H. unfold wrap64. rewrite Z.mod_small; unfold two63, two64 in *; lia. Qed.

Lemma wrap64_range z : - two63 <= wrap64 z < two63.
Proof. unfold wrap64. pose proof (Z.mod_pos_bound (z + two63) two64 ltac:(reflexivity)). unfold two63, two64 in *. lia. Qed.

Lemma wrap64_big z : two63 <= z < two64 → wrap64 z < 0.
Proof.
  intros H. unfold wrap64. replace (z + two63) with ((z - two63) + 1 * two64) by (unfold two63, two64; lia).
  rewrite Z.mod_add by (unfold two64; lia). rewrite Z.mod_small; unfold two63, two64 in *; lia.
Qed.

Lemma c15_height s blk sender height commit s' :
  update_oracle s blk sender height commit = Some s' →
  ∃ hh, hheight s = Some hh ∧ hh <= wrap64 (Z.of_N height).
Proof. intros H. apply update_oracle_Some in H as (?&?&hh&?&?&_&_&_&_&_&?&?&_). eauto. Qed.

(* recorded heights are positive in every state reached from the initial one *)
Definition height_pos (s : ostate) : Prop := ∀ hh, hheight s = Some hh → 0 < hh.

Lemma step_height_pos s o : height_pos s → height_pos (step s o).1.
Proof.
  intros Hp. unfold step. destruct (handle s o) as [s'|] eqn:Hh; [|done]. cbn.
  destruct o as [blk sender height commit|client height entries|l|i|cp'|cp']; cbn in Hh.
  - apply update_oracle_frame in Hh as (_ & _ & Hh & _). unfold height_pos. by rewrite Hh.
  - apply update_host_Some in Hh as [->|(i & _ & _ & _ & Hlt & ->)]; [done|].
    intros hh [= <-]. destruct (hheight s) as [h0|] eqn:E; cbn in Hlt; [|done]. specialize (Hp h0 E). lia.
  - by injection Hh as <-.
  - by injection Hh as <-.
  - apply create_pair_Some in Hh as [_ ->]. done.
  - apply remove_pair_Some in Hh as [_ ->]. done.
Qed.

Lemma run_height_pos h s : height_pos s → height_pos (run s h).
Proof. revert s. induction h as [|o h IH]; intros s Hp; [done|]. rewrite run_cons. apply IH, step_height_pos, Hp. Qed.

Lemma c15_height_reachable h blk sender height commit s' :
  (height < 18446744073709551616)%N →
  update_oracle (run oinit h) blk sender height commit = Some s' →
  ∃ hh, hheight (run oinit h) = Some hh ∧ 0 < hh <= Z.of_N height ∧ Z.of_N height < two63.
Proof.
  intros Hu H. destruct (c15_height _ _ _ _ _ _ H) as (hh & Hhh & Hle).
  assert (Hp : 0 < hh) by (eapply (run_height_pos h oinit); [intros ? [=]|done]).
  exists hh. split; [done|].
  destruct (Z_lt_le_dec (Z.of_N height) two63) as [Hs|Hb].
  - rewrite wrap64_small in Hle by (unfold two63 in *; lia). lia.
  - exfalso. pose proof (wrap64_big (Z.of_N height) ltac:(unfold two64; lia)). lia.
Qed.

(* ---------------------------------------------------------------------------------------- *)
(* C15_set_replacement                                                                        *)

Lemma c15_set_replacement s o :
  (hset (step s o).1 ≠ hset s ∨ hheight (step s o).1 ≠ hheight s) →
  ∃ client height entries i,
    o = OUpdateHostSet client height entries ∧ info s = Some i ∧ client = bi_client i ∧ client ≠ 0%N ∧
    default 0 (hheight s) < height ∧
    hheight (step s o).1 = Some height ∧ hset (step s o).1 = build_set entries.
Proof.
  intros Hne. unfold step in *. destruct (handle s o) as [s'|] eqn:Hh; cbn in *; [|by destruct Hne].
  destruct o as [blk sender height commit|client height entries|l|i|cp'|cp']; cbn in Hh.
  - apply update_oracle_frame in Hh as (_ & _ & H1 & H2). destruct Hne; congruence.
  - apply update_host_Some in Hh as [->|(i & Hi & Hc & Hc0 & Hlt & ->)]; [by destruct Hne|].
    exists client, height, entries, i. done.
  - injection Hh as <-. by destruct Hne.
  - injection Hh as <-. by destruct Hne.
  - apply create_pair_Some in Hh as [_ ->]. by destruct Hne.
  - apply remove_pair_Some in Hh as [_ ->]. by destruct Hne.
Qed.

(* the recorded height never decreases along a history, and a changed set has a higher height *)
Lemma step_height_mono s o :
  default 0 (hheight s) <= default 0 (hheight (step s o).1) ∧
  (hset (step s o).1 ≠ hset s → default 0 (hheight s) < default 0 (hheight (step s o).1)).
Proof.
  destruct (decide (hset (step s o).1 = hset s ∧ hheight (step s o).1 = hheight s)) as [[H1 H2]|Hn].
  - rewrite H2. split; [lia|done].
  - destruct (c15_set_replacement s o) as (?&height&?&?&_&_&_&_&Hlt&Hh&_).
    { destruct (decide (hset (step s o).1 = hset s)); [right|left]; naive_solver. }
    rewrite Hh. cbn. split; [lia|intros _; lia].
Qed.

Lemma run_height_mono h s : default 0 (hheight s) <= default 0 (hheight (run s h)).
Proof.
  revert s. induction h as [|o h IH]; intros s; [done|]. rewrite run_cons.
  pose proof (step_height_mono s o) as [? _]. specialize (IH (step s o).1). lia.
Qed.

(* ---------------------------------------------------------------------------------------- *)
(* non-vacuity: a concrete accepted update with unequal powers, a duplicate, an unknown and a
   non-commit vote; the price of pair 1 changes                                               *)

Definition ex_state : ostate :=
  {| execs := [1%N; 2%N]; info := Some (MkInfo true 3%N 1%N); hheight := Some 7;
     hset := build_set [(1%N, 1%N, 5); (2%N, 2%N, 3); (3%N, 3%N, 2)];
     quotes := <[ts_pair := None]> (<[1%N := Some (MkQuote 10 50 3%N)]> ∅) |}.
Definition ex_votes : list vote :=
  [ MkVote 1%N true false false true (Some (true, [(0%N, 100); (1%N, 11)]));
    MkVote 9%N true false false false (Some (true, [(0%N, 1); (1%N, 999)]));
    MkVote 3%N false true true false None;
    MkVote 2%N true false false true (Some (true, [(0%N, 104)]));
    MkVote 2%N true false false true (Some (true, [(0%N, 102); (1%N, 13)])) ].

Example ex_update_ok :
  ∃ s', update_oracle ex_state 12%N (Some 2%N) 8%N (Some ex_votes) = Some s' ∧
        quotes s' !! 1%N = Some (Some (MkQuote 11 100 12%N)) ∧
        quotes s' !! ts_pair = Some (Some (MkQuote 100 100 12%N)).
Proof. eexists. split; [vm_compute; reflexivity|]. split; vm_compute; reflexivity. Qed.

(* the same commit without validator 2's votes has 5 of 10: below two thirds, rejected *)
Example ex_update_no_quorum :
  update_oracle ex_state 12%N (Some 2%N) 8%N (Some (firstn 3 ex_votes)) = None.
Proof. vm_compute. reflexivity. Qed.

(* a replay of the accepted update is rejected *)
Example ex_replay_rejected :
  ∃ s', update_oracle ex_state 12%N (Some 2%N) 8%N (Some ex_votes) = Some s' ∧
        update_oracle s' 13%N (Some 2%N) 8%N (Some ex_votes) = None.
Proof. eexists. split; [vm_compute; reflexivity|]. vm_compute. reflexivity. Qed.

Example ex_set_replaced :
  hheight (step ex_state (OUpdateHostSet 1%N 9 [(4%N, 4%N, 1)])).1 = Some 9 ∧
  step ex_state (OUpdateHostSet 2%N 9 [(4%N, 4%N, 1)]) = (ex_state, true) ∧
  step ex_state (OUpdateHostSet 1%N 7 [(4%N, 4%N, 1)]) = (ex_state, true).
Proof. split; [|split]; vm_compute; reflexivity. Qed.
