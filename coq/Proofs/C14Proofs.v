(* C14: the executor-change plan (Model/L2.v change_executor / end_block, Model/Plans.v). *)
From stdpp Require Import gmap numbers list sorting.
From Coq Require Import ZArith Lia.
Require Import Model.Bytes Model.Bank Model.Valset Model.L2 Model.ValChain Model.Plans Model.TraceVal.
Require Import Proofs.ValsetLemmas Proofs.C13Proofs.

(* ---- registration ---- *)
Definition req_wellformed (c : cfg) (t : plan_table) (r : plan_req) : Prop :=
  rq_pid r ≠ 0%N ∧ rq_height r ≠ 0%N ∧ t !! rq_height r = None ∧
  is_Some (rq_op r) ∧ is_Some (rq_key r) ∧ Forall (λ e, is_Some (resolve c e)) (rq_execs r).

Lemma register_Some c t r t' :
  register c t r = Some t' →
  req_wellformed c t r ∧
  ∃ op key, rq_op r = Some op ∧ rq_key r = Some key ∧
            t' = <[rq_height r := {| pl_op := op; pl_key := key; pl_execs := rq_execs r |}]> t.
Proof.
  unfold register. intros H.
  repeat case_bool_decide; try done.
  destruct (rq_op r) as [op|] eqn:Eo; simpl in H; [|done].
  destruct (forallb _ (rq_execs r)) eqn:Ef; simpl in H; [|done].
  destruct (rq_key r) as [key|] eqn:Ek; simpl in H; [|done]. simplify_eq.
  split.
  - split; [done|]. split; [done|]. split.
    + destruct (t !! rq_height r) eqn:E; [|done]. exfalso. eauto.
    + split; [eauto|]. split; [eauto|]. apply Forall_forall. intros e He.
      rewrite forallb_forall in Ef. apply elem_of_list_In in He. apply Ef in He. by apply bool_decide_eq_true in He.
  - eauto.
Qed.

Lemma register_wellformed c t r :
  req_wellformed c t r → is_Some (register c t r).
Proof.
  intros (Hp & Hh & Ht & [op Ho] & [key Hk] & Hex). unfold register.
  rewrite !bool_decide_false; [|by rewrite Ht; intros [? ?]|done|done].
  rewrite Ho. simpl.
  assert (forallb (λ e, bool_decide (is_Some (resolve c e))) (rq_execs r) = true) as ->.
  { apply forallb_forall. intros e He. apply elem_of_list_In in He. rewrite Forall_forall in Hex.
    apply bool_decide_eq_true. by apply Hex. }
  simpl. rewrite Hk. simpl. eauto.
Qed.

(* registration is refused (and the table is whatever it was: [register] returns no new table)
   for a zero proposal id, a zero height, a height that already has a plan, an undecodable
   operator address, an undecodable consensus key, or an undecodable executor address *)
Lemma register_spec c t r :
  (rq_pid r = 0%N ∨ rq_height r = 0%N ∨ is_Some (t !! rq_height r) ∨ rq_op r = None ∨ rq_key r = None ∨
   Exists (λ e, resolve c e = None) (rq_execs r)) → register c t r = None.
Proof.
  intros H. destruct (register c t r) as [t'|] eqn:E; [|done]. exfalso.
  apply register_Some in E as ((Hp & Hh & Ht & [op Ho] & [key Hk] & Hex) & _).
  destruct H as [H|[H|[H|[H|[H|H]]]]]; try congruence.
  - rewrite Ht in H. by destruct H.
  - apply Exists_exists in H as (e & He & Hn). rewrite Forall_forall in Hex. apply Hex in He. rewrite Hn in He. by destruct He.
Qed.

Lemma register_other_heights c t r t' h : register c t r = Some t' → h ≠ rq_height r → t' !! h = t !! h.
Proof.
  intros H Hne. apply register_Some in H as (_ & op & key & _ & _ & ->). unfold plan_table in *.
  rewrite lookup_insert_ne; [done|]. intros E. by apply Hne.
Qed.

(* ---- heights without a plan ---- *)
Lemma end_block_no_plan c s : end_block c s None = (r ← end_block_updates (vs s); Some (set_vs s r.1, r.2)).
Proof. unfold end_block. simpl. destruct (end_block_updates (vs s)) as [[v ups]|]; done. Qed.

Lemma only_at_h c t s h :
  t !! h = None →
  end_block_at c t s h = end_block_at c (∅ : gmap N plan) s h ∧
  ∀ s' ups, end_block_at c t s h = Some (s', ups) →
    prm s' = prm s ∧ end_block_updates (vs s) = Some (vs s', ups) ∧ bk s' = bk s ∧ next_l1 s' = next_l1 s ∧
    next_l2 s' = next_l2 s ∧ pairs s' = pairs s ∧ info s' = info s.
Proof.
  intros Ht. unfold end_block_at, plan_table in *. rewrite Ht, lookup_empty. split; [done|].
  intros s' ups. rewrite end_block_no_plan.
  destruct (end_block_updates (vs s)) as [[v u]|]; simpl; [|done]. intros [= <- <-]. done.
Qed.

(* ---- the good plan ---- *)
Lemma change_executor_vals_mid s e op key :
  mid_inv s e → vals s !! op = None → idx s !! key = None →
  mid_inv (change_executor_vals s op key) e.
Proof.
  intros (Hi & (He1 & He2) & Hp) Hop Hkey.
  assert (∀ o v, vals s !! o = Some v → v_key v ≠ key) as Hfresh.
  { intros o v Hv Hk. assert (idx s !! key = Some o) by (apply Hi; eauto). congruence. }
  unfold change_executor_vals. split; [|split]; simpl.
  - intros k o. simpl. destruct (decide (o = op)) as [->|Hne].
    + rewrite lookup_insert. split.
      * intros Hk. destruct (decide (k = key)) as [->|Hnk]; [eauto|].
        rewrite lookup_insert_ne in Hk by congruence. apply Hi in Hk as (v & Hv & _). congruence.
      * intros (v & [= <-] & <-). simpl. by rewrite lookup_insert.
    + rewrite (lookup_insert_ne _ op o) by congruence. rewrite lookup_fmap. split.
      * intros Hk. destruct (decide (k = key)) as [->|Hnk].
        { rewrite lookup_insert in Hk. congruence. }
        rewrite lookup_insert_ne in Hk by congruence. apply Hi in Hk as (v & Hv & Hkv).
        rewrite Hv. simpl. eexists. split; [done|]. done.
      * intros (v & Hv & Hkv). destruct (vals s !! o) as [v0|] eqn:E; simpl in Hv; [|done]. simplify_eq. simpl.
        rewrite lookup_insert_ne; [apply Hi; eauto|]. intros E'. symmetry in E'. by eapply Hfresh.
  - split; simpl.
    + intros o p Hl. destruct (He1 _ _ Hl) as (v & Hv & Hev).
      assert (o ≠ op) by (intros ->; congruence).
      rewrite lookup_insert_ne by congruence. rewrite lookup_fmap, Hv. simpl. eexists. split; [done|]. done.
    + intros k p Hk. destruct (He2 _ _ Hk) as (o & v & Hl & Hv & Hkv).
      assert (o ≠ op) by (intros ->; congruence).
      exists o. eexists. split; [done|]. rewrite lookup_insert_ne by congruence. rewrite lookup_fmap, Hv. simpl. done.
  - intros o v. simpl. destruct (decide (o = op)) as [->|Hne].
    + rewrite lookup_insert. intros [= <-]. simpl. lia.
    + rewrite lookup_insert_ne by congruence. rewrite lookup_fmap.
      destruct (vals s !! o); simpl; [|done]. intros [= <-]. simpl. lia.
Qed.

Lemma total_power_singleton (k : N) (p : Z) : total_power ({[k := p]} : gmap N Z) = p.
Proof.
  unfold total_power, engine.
  change ({[k := p]} : gmap N Z) with (<[k := p]> (∅ : gmap N Z)).
  rewrite map_fold_insert_L; [rewrite map_fold_empty; lia| |apply lookup_empty].
  intros. lia.
Qed.

Definition plan_fresh (s : vstate) (p : plan) : Prop :=
  vals s !! pl_op p = None ∧ idx s !! pl_key p = None.

(* the outcome of a plan, from what ChangeExecutor's validator part leaves behind *)
Lemma plan_outcome c s e p :
  mid_inv (change_executor_vals (vs s) (pl_op p) (pl_key p)) e →
  (N.of_nat (size (vals (change_executor_vals (vs s) (pl_op p) (pl_key p)))) ≤ p_maxv (prm s))%N →
  params_valid c (prm s) = true → Forall (λ x, is_Some (resolve c x)) (pl_execs p) →
  ∃ s' ups,
    end_block c s (Some p) = Some (s', ups) ∧
    batch_wellformed e ups ∧
    engine_apply e ups = Some ({[pl_key p := 1%Z]} : gmap N Z) ∧
    vals (vs s') = {[pl_op p := {| v_key := pl_key p; v_pow := 1 |}]} ∧
    idx (vs s') = {[pl_key p := pl_op p]} ∧
    last (vs s') = {[pl_op p := 1%Z]} ∧
    blk_inv (vs s') ({[pl_key p := 1%Z]} : gmap N Z) ∧
    p_execs (prm s') = pl_execs p ∧
    p_admin (prm s') = p_admin (prm s) ∧ p_maxv (prm s') = p_maxv (prm s) ∧ p_hist (prm s') = p_hist (prm s) ∧
    p_mingas (prm s') = p_mingas (prm s) ∧ p_whitelist (prm s') = p_whitelist (prm s) ∧
    p_hookgas (prm s') = p_hookgas (prm s) ∧
    bk s' = bk s ∧ next_l1 s' = next_l1 s ∧ next_l2 s' = next_l2 s ∧ pairs s' = pairs s ∧ info s' = info s.
Proof.
  intros Hmid1 Hsz Hpv Hex.
  set (s1v := change_executor_vals (vs s) (pl_op p) (pl_key p)) in *.
  assert (vals s1v !! pl_op p = Some {| v_key := pl_key p; v_pow := 1 |}) as Hs1a.
  { unfold s1v, change_executor_vals. simpl. by rewrite lookup_insert. }
  assert (∀ o, o ≠ pl_op p → vals s1v !! o = (λ v, {| v_key := v_key v; v_pow := 0 |}) <$> vals (vs s) !! o) as Hs1b.
  { intros o Hne. unfold s1v, change_executor_vals. simpl. rewrite lookup_insert_ne by congruence. by rewrite lookup_fmap. }
  unfold end_block, change_executor. fold s1v. clearbody s1v.
  set (np := {| p_admin := _ |}).
  assert (params_valid c np = true) as Hnp.
  { unfold params_valid in *. simpl. rewrite !andb_true_iff in Hpv. destruct Hpv as ((((Ha & _) & Hg) & Hm) & Hw).
    rewrite !andb_true_iff. repeat split; try done.
    apply forallb_forall. intros x Hx. apply elem_of_list_In in Hx. rewrite Forall_forall in Hex.
    apply bool_decide_eq_true. by apply Hex. }
  unfold set_params. rewrite Hnp. simpl.
  rewrite bool_decide_false by (simpl; lia). simpl.
  destruct (end_block_spec _ _ Hmid1) as (v' & ups & Heb & Hpost). rewrite Heb. simpl.
  eexists _, _. split; [done|].
  destruct Hpost as (Hblk & Hvals & Hnd & Hwf & Hsrc).
  assert (vals v' = {[pl_op p := {| v_key := pl_key p; v_pow := 1 |}]}) as Hv'.
  { apply map_eq. intros o. apply option_eq. intros v. rewrite Hvals.
    destruct (decide (o = pl_op p)) as [->|Hne].
    - rewrite Hs1a, lookup_singleton. split; [by intros (? & _)|]. intros [= <-]. simpl. split; [done|lia].
    - rewrite Hs1b, lookup_singleton_ne by congruence. split; [|done].
      destruct (vals (vs s) !! o); simpl; [|by intros (? & _)]. intros ([= <-] & Hpos). simpl in Hpos. lia. }
  pose proof (blk_inv_engine_is_state _ _ Hblk) as Heis.
  unfold engine in *.
  assert (apply_updates e ups = ({[pl_key p := 1%Z]} : gmap N Z)) as He'.
  { apply map_eq. intros k. apply option_eq. intros q. rewrite (Heis k q). rewrite Hv'. split.
    - intros (o & v & Hv & <- & <- & _). apply lookup_singleton_Some in Hv as (<- & <-). simpl. by rewrite lookup_singleton.
    - intros Hk. apply lookup_singleton_Some in Hk as (<- & <-). eexists _, _. rewrite lookup_singleton. done. }
  assert (batch_wellformed e ups) as Hbw.
  { split; [by rewrite map_fmap|]. split; apply Forall_forall; intros u Hu; by apply Hwf. }
  split; [done|]. split.
  { rewrite <- He'. apply engine_apply_accepts; [done| | |].
    - apply Forall_forall. intros u Hu. destruct (Hsrc _ Hu) as (o & v & Hv & _ & <-).
      unfold maxtotal.
      destruct (decide (o = pl_op p)) as [->|Hne].
      + rewrite Hs1a in Hv. simplify_eq. simpl. lia.
      + rewrite Hs1b in Hv by done.
        destruct (vals (vs s) !! o); simpl in Hv; [|done]. simplify_eq. simpl. lia.
    - rewrite He'. apply map_non_empty_singleton.
    - rewrite He'. rewrite total_power_singleton. unfold maxtotal. lia. }
  split; [done|].
  assert (last v' = {[pl_op p := 1%Z]}) as Hl'.
  { rewrite (blk_inv_last _ _ Hblk), Hv'. by rewrite map_fmap_singleton. }
  assert (idx v' = {[pl_key p := pl_op p]}) as Hi'.
  { destruct Hblk as ((Hidx & _) & _). apply map_eq. intros k. apply option_eq. intros o. rewrite (Hidx k o). rewrite Hv'. split.
    - intros (v & Hv & <-). apply lookup_singleton_Some in Hv as (<- & <-). simpl. by rewrite lookup_singleton.
    - intros Hk. apply lookup_singleton_Some in Hk as (<- & <-). eexists. rewrite lookup_singleton. done. }
  split; [done|]. split; [done|]. split; [by rewrite <- He'|]. done.
Qed.

Lemma plan_good c s e p :
  mid_inv (vs s) e → plan_fresh (vs s) p →
  (N.of_nat (size (vals (vs s))) + 1 ≤ p_maxv (prm s))%N →
  params_valid c (prm s) = true → Forall (λ x, is_Some (resolve c x)) (pl_execs p) →
  ∃ s' ups,
    end_block c s (Some p) = Some (s', ups) ∧
    batch_wellformed e ups ∧
    engine_apply e ups = Some ({[pl_key p := 1%Z]} : gmap N Z) ∧
    vals (vs s') = {[pl_op p := {| v_key := pl_key p; v_pow := 1 |}]} ∧
    idx (vs s') = {[pl_key p := pl_op p]} ∧
    last (vs s') = {[pl_op p := 1%Z]} ∧
    blk_inv (vs s') ({[pl_key p := 1%Z]} : gmap N Z) ∧
    p_execs (prm s') = pl_execs p ∧
    p_admin (prm s') = p_admin (prm s) ∧ p_maxv (prm s') = p_maxv (prm s) ∧ p_hist (prm s') = p_hist (prm s) ∧
    p_mingas (prm s') = p_mingas (prm s) ∧ p_whitelist (prm s') = p_whitelist (prm s) ∧
    p_hookgas (prm s') = p_hookgas (prm s) ∧
    bk s' = bk s ∧ next_l1 s' = next_l1 s ∧ next_l2 s' = next_l2 s ∧ pairs s' = pairs s ∧ info s' = info s.
Proof.
  intros Hmid (Hop & Hkey) Hcap Hpv Hex. apply plan_outcome; try done.
  - by apply change_executor_vals_mid.
  - unfold change_executor_vals. simpl. rewrite map_size_insert_None.
    + rewrite map_size_fmap. lia.
    + by rewrite lookup_fmap, Hop.
Qed.

(* the plan names an existing validator with its own key: keep the sequencer, drop the others *)
Definition plan_same (s : vstate) (p : plan) : Prop :=
  ∃ v, vals s !! pl_op p = Some v ∧ v_key v = pl_key p.

Lemma change_executor_vals_same_mid s e op key :
  mid_inv s e → (∃ v, vals s !! op = Some v ∧ v_key v = key) →
  mid_inv (change_executor_vals s op key) e.
Proof.
  intros (Hi & (He1 & He2) & Hp) (v0 & Hv0 & Hk0).
  assert (idx s !! key = Some op) as Hidx by (apply Hi; eauto).
  (* the keys of all records are unchanged *)
  assert (∀ o k, (∃ v, vals (change_executor_vals s op key) !! o = Some v ∧ v_key v = k) ↔
                 (∃ v, vals s !! o = Some v ∧ v_key v = k)) as Hkeys.
  { intros o k. unfold change_executor_vals. simpl. destruct (decide (o = op)) as [->|Hne].
    - rewrite lookup_insert. split.
      + intros (v & [= <-] & <-). simpl. eauto.
      + intros (v & Hv & <-). assert (v = v0) by congruence. subst. eexists. split; [done|]. done.
    - rewrite lookup_insert_ne by congruence. rewrite lookup_fmap. split.
      + intros (v & Hv & <-). destruct (vals s !! o) as [w|]; simpl in Hv; [|done]. simplify_eq. simpl. eauto.
      + intros (v & Hv & <-). rewrite Hv. simpl. eexists. split; [done|]. done. }
  split; [|split].
  - intros k o. rewrite Hkeys. unfold change_executor_vals. simpl.
    destruct (decide (k = key)) as [->|Hne].
    + rewrite lookup_insert. rewrite <- (Hi key o). rewrite Hidx. done.
    + rewrite lookup_insert_ne by congruence. apply Hi.
  - split.
    + intros o q Hl. unfold change_executor_vals in Hl. simpl in Hl. destruct (He1 _ _ Hl) as (v & Hv & Hev).
      destruct (proj2 (Hkeys o (v_key v))) as (v' & Hv' & Hk'); [eauto|]. exists v'. rewrite Hk'. done.
    + intros k q Hk. destruct (He2 _ _ Hk) as (o & v & Hl & Hv & Hkv).
      destruct (proj2 (Hkeys o k)) as (v' & Hv' & Hk'); [eauto|]. exists o, v'. done.
  - intros o v. unfold change_executor_vals. simpl. destruct (decide (o = op)) as [->|Hne].
    + rewrite lookup_insert. intros [= <-]. simpl. lia.
    + rewrite lookup_insert_ne by congruence. rewrite lookup_fmap.
      destruct (vals s !! o); simpl; [|done]. intros [= <-]. simpl. lia.
Qed.

Lemma plan_same_validator c s e p :
  mid_inv (vs s) e → plan_same (vs s) p →
  (N.of_nat (size (vals (vs s))) ≤ p_maxv (prm s))%N →
  params_valid c (prm s) = true → Forall (λ x, is_Some (resolve c x)) (pl_execs p) →
  ∃ s' ups,
    end_block c s (Some p) = Some (s', ups) ∧
    batch_wellformed e ups ∧
    engine_apply e ups = Some ({[pl_key p := 1%Z]} : gmap N Z) ∧
    vals (vs s') = {[pl_op p := {| v_key := pl_key p; v_pow := 1 |}]} ∧
    idx (vs s') = {[pl_key p := pl_op p]} ∧
    last (vs s') = {[pl_op p := 1%Z]} ∧
    blk_inv (vs s') ({[pl_key p := 1%Z]} : gmap N Z) ∧
    p_execs (prm s') = pl_execs p ∧
    p_admin (prm s') = p_admin (prm s) ∧ p_maxv (prm s') = p_maxv (prm s) ∧ p_hist (prm s') = p_hist (prm s) ∧
    p_mingas (prm s') = p_mingas (prm s) ∧ p_whitelist (prm s') = p_whitelist (prm s) ∧
    p_hookgas (prm s') = p_hookgas (prm s) ∧
    bk s' = bk s ∧ next_l1 s' = next_l1 s ∧ next_l2 s' = next_l2 s ∧ pairs s' = pairs s ∧ info s' = info s.
Proof.
  intros Hmid Hsame Hcap Hpv Hex. apply plan_outcome; try done.
  - by apply change_executor_vals_same_mid.
  - destruct Hsame as (v & Hv & _). unfold change_executor_vals. simpl. rewrite map_size_insert_Some.
    + rewrite map_size_fmap. done.
    + rewrite lookup_fmap, Hv. simpl. eauto.
Qed.


(* ---- the three known findings, as computed witnesses on states reached from a genesis ---- *)
Definition wit_cfg : cfg :=
  {| resolve := λ _, Some 1%N; blocked := λ _, false; authority := []; modacc := 100%N; feecol := 101%N |}.
Definition wit_params (maxv : N) : params :=
  {| p_admin := []; p_execs := []; p_maxv := maxv; p_hist := 2; p_mingas := []; p_whitelist := []; p_hookgas := 0 |}.
Definition wit_gen (maxv : N) : vgenesis :=
  {| g_vals := [(1%N, 1%N, 1%Z)]; g_maxv := maxv; g_entries := 2; g_exported := false; g_last := [] |}.
Definition wit_l2 (g : vgenesis) (st : chain) : l2state := with_core (l2_empty (wit_params (g_maxv g))) (ch_core st).

Lemma wit_gen_valid maxv : validate_genesis (wit_gen maxv) = true → genesis_valid (wit_gen maxv).
Proof. intros H. split; [done|]. repeat constructor. Qed.

(* D8: the plan's operator address is already a stored validator: no update is emitted, the
   engine keeps key 1 while the state now has key 2 *)
Lemma reuse_operator_refuted :
  ∃ (g : vgenesis) (p : plan) st0 ups0 s',
    genesis_valid g ∧ genesis_chain g 0 = Some (st0, ups0) ∧
    params_valid wit_cfg (prm (wit_l2 g st0)) = true ∧
    is_Some (vals (vs (wit_l2 g st0)) !! pl_op p) ∧ idx (vs (wit_l2 g st0)) !! pl_key p = None ∧
    (N.of_nat (size (vals (vs (wit_l2 g st0)))) + 1 ≤ p_maxv (prm (wit_l2 g st0)))%N ∧
    end_block wit_cfg (wit_l2 g st0) (Some p) = Some (s', []) ∧
    apply_updates (ch_eng st0) [] ≠ state_set (vs s') ∧
    ch_eng st0 !! 1%N = Some 1%Z ∧ state_set (vs s') !! 1%N = None ∧ state_set (vs s') !! 2%N = Some 1%Z.
Proof.
  exists (wit_gen 3), {| pl_op := 1; pl_key := 2; pl_execs := [] |}.
  eexists _, _, _. split; [apply wit_gen_valid; vm_compute; reflexivity|].
  split; [vm_compute; reflexivity|]. split; [vm_compute; reflexivity|].
  split; [vm_compute; eauto|]. split; [vm_compute; reflexivity|]. split; [vm_compute; discriminate|].
  split; [vm_compute; reflexivity|].
  split.
  { intros H. apply (f_equal (λ m : gmap N Z, m !! 1%N)) in H. vm_compute in H. discriminate. }
  split; [vm_compute; reflexivity|]. split; vm_compute; reflexivity.
Qed.

(* D9: the plan's consensus key is in use by the validator being removed: the batch lists the
   key twice, the engine rejects it, and the key's index entry ends up deleted *)
Lemma reuse_key_refuted :
  ∃ (g : vgenesis) (p : plan) st0 ups0 s' ups,
    genesis_valid g ∧ genesis_chain g 0 = Some (st0, ups0) ∧
    params_valid wit_cfg (prm (wit_l2 g st0)) = true ∧
    vals (vs (wit_l2 g st0)) !! pl_op p = None ∧ is_Some (idx (vs (wit_l2 g st0)) !! pl_key p) ∧
    (N.of_nat (size (vals (vs (wit_l2 g st0)))) + 1 ≤ p_maxv (prm (wit_l2 g st0)))%N ∧
    end_block wit_cfg (wit_l2 g st0) (Some p) = Some (s', ups) ∧
    ups = [(1%N, 1%Z); (1%N, 0%Z)] ∧ ¬ NoDup (map fst ups) ∧
    engine_apply (ch_eng st0) ups = None ∧
    is_Some (vals (vs s') !! pl_op p) ∧ idx (vs s') !! pl_key p = None.
Proof.
  exists (wit_gen 3), {| pl_op := 2; pl_key := 1; pl_execs := [] |}.
  eexists _, _, _, _. split; [apply wit_gen_valid; vm_compute; reflexivity|].
  split; [vm_compute; reflexivity|]. split; [vm_compute; reflexivity|].
  split; [vm_compute; reflexivity|]. split; [vm_compute; eauto|]. split; [vm_compute; discriminate|].
  split; [vm_compute; reflexivity|]. split; [reflexivity|].
  split.
  { simpl. intros H. apply NoDup_cons in H as (H & _). apply H. left. }
  split; [vm_compute; reflexivity|]. split; [vm_compute; eauto|]. vm_compute; reflexivity.
Qed.

(* D10: fresh operator, fresh key, but the number of stored validators equals MaxValidators:
   the end blocker fails *)
Lemma at_cap_refuted :
  ∃ (g : vgenesis) (p : plan) st0 ups0,
    genesis_valid g ∧ genesis_chain g 0 = Some (st0, ups0) ∧
    params_valid wit_cfg (prm (wit_l2 g st0)) = true ∧
    vals (vs (wit_l2 g st0)) !! pl_op p = None ∧ idx (vs (wit_l2 g st0)) !! pl_key p = None ∧
    N.of_nat (size (vals (vs (wit_l2 g st0)))) = p_maxv (prm (wit_l2 g st0)) ∧
    end_block wit_cfg (wit_l2 g st0) (Some p) = None.
Proof.
  exists (wit_gen 1), {| pl_op := 2; pl_key := 2; pl_execs := [] |}.
  eexists _, _. split; [apply wit_gen_valid; vm_compute; reflexivity|].
  split; [vm_compute; reflexivity|]. split; [vm_compute; reflexivity|].
  split; [vm_compute; reflexivity|]. split; [vm_compute; reflexivity|].
  split; vm_compute; reflexivity.
Qed.

(* non-vacuity of plan_good: the same reached state, a fresh plan *)
Example plan_good_applies :
  ∃ st0 ups0 s' ups, genesis_chain (wit_gen 3) 0 = Some (st0, ups0) ∧
    end_block wit_cfg (wit_l2 (wit_gen 3) st0) (Some {| pl_op := 2; pl_key := 2; pl_execs := [[7%N]] |}) = Some (s', ups) ∧
    ups = [(2%N, 1%Z); (1%N, 0%Z)] ∧ p_execs (prm s') = [[7%N]].
Proof. eexists _, _, _, _. split; [vm_compute; reflexivity|]. split; [vm_compute; reflexivity|]. split; reflexivity. Qed.

(* non-vacuity of plan_same_validator: the validator of the reached state is kept, at the cap *)
Example plan_same_applies :
  ∃ st0 ups0 s' ups, genesis_chain (wit_gen 1) 0 = Some (st0, ups0) ∧
    plan_same (vs (wit_l2 (wit_gen 1) st0)) {| pl_op := 1; pl_key := 1; pl_execs := [[7%N]] |} ∧
    end_block wit_cfg (wit_l2 (wit_gen 1) st0) (Some {| pl_op := 1; pl_key := 1; pl_execs := [[7%N]] |}) = Some (s', ups) ∧
    ups = [] ∧ p_execs (prm s') = [[7%N]] ∧ idx (vs s') !! 1%N = Some 1%N.
Proof.
  eexists _, _, _, _. split; [vm_compute; reflexivity|]. split.
  { eexists. split; [vm_compute; reflexivity|reflexivity]. }
  split; [vm_compute; reflexivity|]. split; [reflexivity|]. split; [reflexivity|]. vm_compute; reflexivity.
Qed.
