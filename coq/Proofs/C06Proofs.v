From stdpp Require Import gmap numbers list.
From Coq Require Import ZArith Lia.
Require Import Model.Bytes Model.Bank Model.Valset Model.L2 Proofs.L2Lemmas.

Lemma c06_exactly_once_in_order c s h :
  next_l1 s = 1%N → dlog s = [] →
  ∃ n : nat, next_l1 (run c s h).1 = (1 + N.of_nat n)%N ∧
             rev (map d_seq (dlog (run c s h).1)) = upto n 1.
Proof.
  intros Hn Hd. destruct (run_processed c h s) as (k & Hk & Hl). exists k.
  rewrite Hn in *. split; [done|]. rewrite Hl, Hd. cbn. by rewrite app_nil_r, rev_involutive.
Qed.

Lemma c06_success c s m s' :
  step c s (MFinalizeDeposit m) = (s', Ok RSuccess) →
  fd_seq m = next_l1 s ∧ is_executor c s (fd_sender m) = true ∧
  next_l1 s' = (next_l1 s + 1)%N ∧ ∃ ok, dlog s' = deposit_rec m ok :: dlog s.
Proof.
  unfold step. cbn [handle]. destruct (finalize_deposit c s m) as [[s1 r]|] eqn:E; [|discriminate].
  intros [= <- ->]. apply finalize_deposit_Some in E as (_ & He & [(? & _)|(_ & Hs & Hn & ok & Hd & _)]); [discriminate|].
  eauto 10.
Qed.

Lemma c06_noop c s m :
  fdep_valid c m = true → is_executor c s (fd_sender m) = true → (fd_seq m < next_l1 s)%N →
  step c s (MFinalizeDeposit m) = (s, Ok RNoop).
Proof. intros. unfold step. cbn [handle]. by rewrite finalize_deposit_noop. Qed.

Lemma c06_noop_inv c s m s' :
  step c s (MFinalizeDeposit m) = (s', Ok RNoop) → s' = s ∧ (fd_seq m < next_l1 s)%N.
Proof.
  unfold step. cbn [handle]. destruct (finalize_deposit c s m) as [[s1 r]|] eqn:E; [|discriminate].
  intros [= <- ->]. apply finalize_deposit_Some in E as (_ & _ & [(_ & -> & ?)|(? & _)]); [done|discriminate].
Qed.

Lemma c06_ahead c s m : (next_l1 s < fd_seq m)%N → step c s (MFinalizeDeposit m) = (s, Err).
Proof. intros. unfold step. cbn [handle]. by rewrite finalize_deposit_ahead. Qed.

Lemma c06_unauth c s m : is_executor c s (fd_sender m) = false → step c s (MFinalizeDeposit m) = (s, Err).
Proof. intros. unfold step. cbn [handle]. by rewrite finalize_deposit_unauth. Qed.
