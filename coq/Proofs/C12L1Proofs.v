(* C12, L1 half: every permissioned ophost handler succeeds only for a signer the table
   allows (on the state at the time of the message); role rotations take effect at once. *)
From stdpp Require Import gmap numbers list.
From Coq Require Import ZArith Lia.
Require Import Model.Bytes Model.Bank Model.Hashes Model.L1 Model.C12Spec.

Local Notation step := L1.step.
Local Notation handle := L1.handle.
Local Notation cfg := L1.cfg.
Local Notation Ok := L1.Ok.
Local Notation Err := L1.Err.

(* peel the guards of a handler that returned Some *)
Ltac peel H :=
  repeat first
    [ match type of H with
      | (if negb ?b then None else _) = Some _ =>
          let E := fresh "G" in destruct b eqn:E; cbn [negb] in H; [|discriminate H]
      | (if ?b then None else _) = Some _ =>
          let E := fresh "G" in destruct b eqn:E; [discriminate H|]
      | (mbind _ _) = Some _ =>
          let x := fresh "x" in let E := fresh "B" in apply bind_Some in H as (x & E & H)
      end ].

Lemma gov_or_true c who a : gov_or c who a = true → gov c = a ∨ who = a.
Proof.
  unfold gov_or. intros H. apply orb_true_iff in H as [H|H]; apply bool_decide_eq_true in H; auto.
Qed.
Lemma gov_or_intro c who a : gov c = a ∨ who = a → gov_or c who a = true.
Proof.
  unfold gov_or. intros [H|H]; apply orb_true_iff; [left|right]; by apply bool_decide_eq_true.
Qed.

(* ---- the authorization part of each handler ---- *)
Lemma propose_auth c e s p b idx l2 root s' r :
  propose c e s p b idx l2 root = Some (s', r) → is_proposer s b p.
Proof.
  unfold propose. intros H. peel H. apply bool_decide_eq_true in G2. exists x. auto.
Qed.

Lemma delete_auth c e s ch b idx s' r :
  delete_output c e s ch b idx = Some (s', r) →
  is_gov c ch ∨ is_proposer s b ch ∨ is_challenger s b ch.
Proof.
  unfold delete_output. intros H. peel H.
  apply orb_true_iff in G2 as [G2|G2]; [apply orb_true_iff in G2 as [G2|G2]|];
    apply bool_decide_eq_true in G2; [left; done|right; left|right; right]; exists x; auto.
Qed.

Lemma update_proposer_auth c e s a b p s' r :
  update_proposer c e s a b p = Some (s', r) → is_gov c a ∨ is_proposer s b a.
Proof.
  unfold update_proposer. intros H. peel H.
  apply gov_or_true in G2 as [?|?]; [left; done|right; exists x; auto].
Qed.

Lemma update_challenger_auth c e s a b p s' r :
  update_challenger c e s a b p = Some (s', r) → is_gov c a ∨ is_challenger s b a.
Proof.
  unfold update_challenger. intros H. peel H.
  apply gov_or_true in G2 as [?|?]; [left; done|right; exists x; auto].
Qed.

Lemma update_batch_info_auth c e s a b bi s' r :
  update_batch_info c e s a b bi = Some (s', r) → is_gov c a ∨ is_proposer s b a.
Proof.
  unfold update_batch_info. intros H. peel H.
  apply gov_or_true in G2 as [?|?]; [left; done|right; exists x; auto].
Qed.

Lemma update_oracle_auth c e s a b f s' r :
  update_oracle c e s a b f = Some (s', r) → is_gov c a ∨ is_proposer s b a.
Proof.
  unfold update_oracle. intros H. peel H.
  apply gov_or_true in G1 as [?|?]; [left; done|right; exists x; auto].
Qed.

Lemma update_metadata_auth c e s a b md s' r :
  update_metadata c e s a b md = Some (s', r) → is_gov c a ∨ is_proposer s b a.
Proof.
  unfold update_metadata. intros H. peel H.
  apply gov_or_true in G2 as [?|?]; [left; done|right; exists x; auto].
Qed.

Lemma update_params_auth c s a fee s' r :
  L1.update_params c s a fee = Some (s', r) → is_gov c a.
Proof.
  unfold L1.update_params. intros H. peel H. by apply bool_decide_eq_true in G1.
Qed.

Lemma handle_allowed c e s m s' r :
  handle c e s m = Some (s', r) → allowed_l1 c s m (l1_signer m).
Proof.
  destruct m; cbn [handle allowed_l1 l1_signer]; intros H; try exact I;
    eauto using propose_auth, delete_auth, update_proposer_auth, update_challenger_auth,
      update_batch_info_auth, update_oracle_auth, update_metadata_auth, update_params_auth.
Qed.

Lemma step_Ok c e s m s' r : step c e s m = (s', Ok r) → handle c e s m = Some (s', r).
Proof. unfold step. destruct (handle c e s m) as [[? ?]|]; intros [= <- <-]; auto. Qed.
Lemma step_None c e s m : handle c e s m = None → step c e s m = (s, Err).
Proof. unfold step. by intros ->. Qed.
Lemma step_Some_l1 c e s m s' r : handle c e s m = Some (s', r) → step c e s m = (s', Ok r).
Proof. unfold step. by intros ->. Qed.
Lemma l1_step_err_unchanged c e s m s' : step c e s m = (s', Err) → s' = s.
Proof. unfold step. destruct (handle c e s m) as [[? ?]|]; intros [= <-]; auto. Qed.

Lemma c12_l1_complete c e s m s' r :
  step c e s m = (s', Ok r) → allowed_l1 c s m (l1_signer m).
Proof. intros H. eapply handle_allowed, step_Ok, H. Qed.

(* contrapositive, the form used for "the old holder is refused" *)
Lemma c12_l1_refused c e s m : ¬ allowed_l1 c s m (l1_signer m) → step c e s m = (s, Err).
Proof.
  intros Hn. apply step_None. destruct (handle c e s m) as [[s' r]|] eqn:E; [|done].
  exfalso. eapply Hn, handle_allowed, E.
Qed.

(* ------------------------------------------------------------------------------------ *)
(* role rotations take effect immediately                                                 *)
(* ------------------------------------------------------------------------------------ *)
Require Import Proofs.L1HookLemmas.

Definition with_proposer (x : config) (p : bytes) : config :=
  {| c_proposer := p; c_challenger := c_challenger x; c_period := c_period x;
     c_interval := c_interval x; c_start := c_start x; c_batch := c_batch x;
     c_oracle := c_oracle x; c_meta := c_meta x |}.
Definition with_challenger (x : config) (p : bytes) : config :=
  {| c_proposer := c_proposer x; c_challenger := p; c_period := c_period x;
     c_interval := c_interval x; c_start := c_start x; c_batch := c_batch x;
     c_oracle := c_oracle x; c_meta := c_meta x |}.

Lemma update_proposer_Some c e s a b p s' r :
  update_proposer c e s a b p = Some (s', r) →
  ∃ x, configs s !! b = Some x ∧ valid_addr c p = true ∧ b ≠ 0%N ∧
       config_valid c (with_proposer x p) = true ∧
       s' = upd_configs s (<[b := with_proposer x p]> (configs s)).
Proof.
  unfold update_proposer. intros H. peel H. injection H as <- _.
  exists x. apply N.eqb_neq in G0. auto.
Qed.

Lemma update_challenger_Some c e s a b p s' r :
  update_challenger c e s a b p = Some (s', r) →
  ∃ x s1, configs s !! b = Some x ∧ valid_addr c p = true ∧ b ≠ 0%N ∧
       config_valid c (with_challenger x p) = true ∧
       hook_challenger c s (with_challenger x p) = Some s1 ∧
       s' = upd_configs s1 (<[b := with_challenger x p]> (configs s)).
Proof.
  unfold update_challenger. intros H. peel H. injection H as <- _.
  rename x0 into s1. apply hook_challenger_Some in B0 as Hh. destruct Hh as [Ho _].
  exists x, s1. apply N.eqb_neq in G0. rewrite (only_admins_configs _ _ Ho). auto 10.
Qed.

(* after an Ok proposer update the proposer of that bridge is exactly the new one; the
   challenger of that bridge and both roles of every other bridge are as before *)
Lemma c12_proposer_rotation c e s a b p s' r :
  step c e s (L1.MUpdateProposer a b p) = (s', Ok r) →
  (∀ who, is_proposer s' b who ↔ who = p) ∧
  (∀ who, is_challenger s' b who ↔ is_challenger s b who) ∧
  (∀ b' who, b' ≠ b → (is_proposer s' b' who ↔ is_proposer s b' who) ∧
                       (is_challenger s' b' who ↔ is_challenger s b' who)).
Proof.
  intros H. apply step_Ok in H. cbn [handle] in H.
  apply update_proposer_Some in H as (x & Hx & _ & _ & _ & ->).
  unfold is_proposer, is_challenger. cbn [configs upd_configs]. split; [|split].
  - intros who. rewrite lookup_insert. split; [by intros (? & [= <-] & <-)|intros ->; eauto].
  - intros who. rewrite lookup_insert, Hx. split; intros (? & [= <-] & <-); eauto.
  - intros b' who Hne. rewrite lookup_insert_ne by done. tauto.
Qed.

Lemma c12_challenger_rotation c e s a b p s' r :
  step c e s (L1.MUpdateChallenger a b p) = (s', Ok r) →
  (∀ who, is_challenger s' b who ↔ who = p) ∧
  (∀ who, is_proposer s' b who ↔ is_proposer s b who) ∧
  (∀ b' who, b' ≠ b → (is_proposer s' b' who ↔ is_proposer s b' who) ∧
                       (is_challenger s' b' who ↔ is_challenger s b' who)).
Proof.
  intros H. apply step_Ok in H. cbn [handle] in H.
  apply update_challenger_Some in H as (x & s1 & Hx & _ & _ & _ & _ & ->).
  unfold is_proposer, is_challenger. cbn [configs upd_configs]. split; [|split].
  - intros who. rewrite lookup_insert. split; [by intros (? & [= <-] & <-)|intros ->; eauto].
  - intros who. rewrite lookup_insert, Hx. split; intros (? & [= <-] & <-); eauto.
  - intros b' who Hne. rewrite lookup_insert_ne by done. tauto.
Qed.

(* the previous proposer: every proposer-guarded message is refused at once, unless the
   signer holds another role the table allows *)
Lemma c12_old_proposer_refused c e s a b p s' r old :
  step c e s (L1.MUpdateProposer a b p) = (s', Ok r) → old ≠ p →
  (∀ e' idx l2 root, step c e' s' (L1.MPropose old b idx l2 root) = (s', Err)) ∧
  (gov c ≠ old →
     (∀ e' q, step c e' s' (L1.MUpdateProposer old b q) = (s', Err)) ∧
     (∀ e' bi, step c e' s' (L1.MUpdateBatchInfo old b bi) = (s', Err)) ∧
     (∀ e' f, step c e' s' (L1.MUpdateOracle old b f) = (s', Err)) ∧
     (∀ e' md, step c e' s' (L1.MUpdateMetadata old b md) = (s', Err)) ∧
     (¬ is_challenger s b old → ∀ e' idx, step c e' s' (L1.MDelete old b idx) = (s', Err))).
Proof.
  intros H Hne. apply c12_proposer_rotation in H as (Hp & Hc & _).
  assert (Hnp : ¬ is_proposer s' b old) by (intros Hx; by apply Hp in Hx).
  split; [intros; by apply c12_l1_refused|].
  intros Hg. repeat split; intros; apply c12_l1_refused; cbn; unfold is_gov; try tauto.
  rewrite Hc. tauto.
Qed.

(* the previous challenger *)
Lemma c12_old_challenger_refused c e s a b p s' r old :
  step c e s (L1.MUpdateChallenger a b p) = (s', Ok r) → old ≠ p → gov c ≠ old →
  (∀ e' q, step c e' s' (L1.MUpdateChallenger old b q) = (s', Err)) ∧
  (¬ is_proposer s b old → ∀ e' idx, step c e' s' (L1.MDelete old b idx) = (s', Err)).
Proof.
  intros H Hne Hg. apply c12_challenger_rotation in H as (Hc & Hp & _).
  assert (Hnc : ¬ is_challenger s' b old) by (intros Hx; by apply Hc in Hx).
  split; intros; apply c12_l1_refused; cbn; unfold is_gov; try tauto.
  rewrite Hp. tauto.
Qed.

Lemma config_valid_oracle c x f :
  config_valid c {| c_proposer := c_proposer x; c_challenger := c_challenger x; c_period := c_period x;
                    c_interval := c_interval x; c_start := c_start x; c_batch := c_batch x;
                    c_oracle := f; c_meta := c_meta x |} = config_valid c x.
Proof. reflexivity. Qed.

(* the new proposer is accepted at once: its oracle-flag update succeeds in the very next
   message (that handler has no other precondition than an existing, valid bridge) *)
Lemma c12_new_proposer_accepted c e s a b p s' r e' f :
  step c e s (L1.MUpdateProposer a b p) = (s', Ok r) →
  ∃ s'', step c e' s' (L1.MUpdateOracle p b f) = (s'', Ok RNone).
Proof.
  intros H. apply step_Ok in H. cbn [handle] in H.
  apply update_proposer_Some in H as (x & Hx & Hvp & Hb & Hcv & ->).
  eexists. apply step_Some_l1. cbn [handle]. unfold update_oracle.
  rewrite Hvp. cbn [negb]. apply N.eqb_neq in Hb. rewrite Hb.
  cbn [configs upd_configs]. rewrite lookup_insert. cbn [mbind option_bind].
  rewrite (gov_or_intro c _ p) by (right; reflexivity). cbn [negb].
  rewrite config_valid_oracle, Hcv. cbn [negb]. reflexivity.
Qed.

(* the new challenger is accepted at once: it can hand the role on (here: to itself) *)
Lemma c12_new_challenger_accepted c e s a b p s' r e' :
  step c e s (L1.MUpdateChallenger a b p) = (s', Ok r) →
  ∃ s'' r', step c e' s' (L1.MUpdateChallenger p b p) = (s'', Ok r').
Proof.
  intros H. apply step_Ok in H. cbn [handle] in H.
  apply update_challenger_Some in H as (x & s1 & Hx & Hvp & Hb & Hcv & Hh & ->).
  assert (Hs : is_Some (resolve c p)) by (by apply bool_decide_eq_true in Hvp).
  destruct (hook_challenger_total c (upd_configs s1 (<[b:=with_challenger x p]> (configs s)))
              (with_challenger (with_challenger x p) p) Hs) as [s2 Hs2].
  eexists _, _. apply step_Some_l1. cbn [handle]. unfold update_challenger.
  rewrite Hvp. cbn [negb]. apply N.eqb_neq in Hb. rewrite Hb.
  cbn [configs upd_configs]. rewrite lookup_insert. cbn [mbind option_bind].
  rewrite (gov_or_intro c _ p) by (right; reflexivity). cbn [negb].
  match goal with |- context [hook_challenger c ?S ?X] =>
    change (hook_challenger c S X) with
      (hook_challenger c (upd_configs s1 (<[b:=with_challenger x p]> (configs s)))
         (with_challenger (with_challenger x p) p)) end.
  rewrite Hs2. cbn [mbind option_bind].
  match goal with |- context [config_valid c ?X] =>
    change (config_valid c X) with (config_valid c (with_challenger x p)) end.
  rewrite Hcv. cbn [negb]. reflexivity.
Qed.

(* ------------------------------------------------------------------------------------ *)
(* the role is all that matters about the signer                                          *)
(* ------------------------------------------------------------------------------------ *)
Lemma gov_or_proposer c s b x a :
  configs s !! b = Some x → is_gov c a ∨ is_proposer s b a → gov_or c (c_proposer x) a = true.
Proof.
  intros Hx [H|(x' & Hx' & H)]; apply gov_or_intro; [by left|right]. rewrite Hx in Hx'. by injection Hx' as <-.
Qed.
Lemma gov_or_challenger c s b x a :
  configs s !! b = Some x → is_gov c a ∨ is_challenger s b a → gov_or c (c_challenger x) a = true.
Proof.
  intros Hx [H|(x' & Hx' & H)]; apply gov_or_intro; [by left|right]. rewrite Hx in Hx'. by injection Hx' as <-.
Qed.
Lemma delete_guard c s b x a :
  configs s !! b = Some x → is_gov c a ∨ is_proposer s b a ∨ is_challenger s b a →
  bool_decide (gov c = a) || bool_decide (c_proposer x = a) || bool_decide (c_challenger x = a) = true.
Proof.
  intros Hx [H|[(x' & Hx' & H)|(x' & Hx' & H)]].
  - rewrite (bool_decide_eq_true_2 _ H). reflexivity.
  - rewrite Hx in Hx'. injection Hx' as <-. rewrite (bool_decide_eq_true_2 _ H). by rewrite orb_true_r.
  - rewrite Hx in Hx'. injection Hx' as <-. rewrite (bool_decide_eq_true_2 _ H). by rewrite orb_true_r.
Qed.

(* For a permissioned message, two valid signers that the table both allows get exactly the
   same treatment: same verdict, same successor state, same response. *)
Lemma c12_l1_role_suffices c e s m a a' :
  l1_permissioned m = true → valid_addr c a = true → valid_addr c a' = true →
  allowed_l1 c s m a → allowed_l1 c s m a' →
  handle c e s (l1_with_signer m a) = handle c e s (l1_with_signer m a').
Proof.
  intros Hp Ha Ha' Hal Hal'. destruct m; try discriminate Hp; cbn [l1_with_signer handle allowed_l1] in *.
  - (* propose: the proposer is unique *)
    destruct Hal as (x & Hx & <-), Hal' as (x' & Hx' & <-). rewrite Hx in Hx'. by injection Hx' as <-.
  - unfold delete_output. rewrite Ha, Ha'. cbn [negb].
    destruct (b =? 0)%N; [done|]. destruct (idx =? 0)%N; [done|].
    destruct (configs s !! b) as [x|] eqn:Hx; cbn [mbind option_bind]; [|done].
    by rewrite (delete_guard c s b x a Hx Hal), (delete_guard c s b x a' Hx Hal').
  - unfold update_proposer. rewrite Ha, Ha'. cbn [negb].
    destruct (b =? 0)%N; [done|]. destruct (valid_addr c p); cbn [negb]; [|done].
    destruct (configs s !! b) as [x|] eqn:Hx; cbn [mbind option_bind]; [|done].
    by rewrite (gov_or_proposer c s b x a Hx Hal), (gov_or_proposer c s b x a' Hx Hal').
  - unfold update_challenger. rewrite Ha, Ha'. cbn [negb].
    destruct (b =? 0)%N; [done|]. destruct (valid_addr c p); cbn [negb]; [|done].
    destruct (configs s !! b) as [x|] eqn:Hx; cbn [mbind option_bind]; [|done].
    by rewrite (gov_or_challenger c s b x a Hx Hal), (gov_or_challenger c s b x a' Hx Hal').
  - unfold update_batch_info. rewrite Ha, Ha'. cbn [negb].
    destruct (b =? 0)%N; [done|]. destruct (_ || _); [done|].
    destruct (configs s !! b) as [x|] eqn:Hx; cbn [mbind option_bind]; [|done].
    by rewrite (gov_or_proposer c s b x a Hx Hal), (gov_or_proposer c s b x a' Hx Hal').
  - unfold update_oracle. rewrite Ha, Ha'. cbn [negb].
    destruct (b =? 0)%N; [done|].
    destruct (configs s !! b) as [x|] eqn:Hx; cbn [mbind option_bind]; [|done].
    by rewrite (gov_or_proposer c s b x a Hx Hal), (gov_or_proposer c s b x a' Hx Hal').
  - unfold update_metadata. rewrite Ha, Ha'. cbn [negb].
    destruct (b =? 0)%N; [done|]. destruct (max_metadata <? _)%N; [done|].
    destruct (configs s !! b) as [x|] eqn:Hx; cbn [mbind option_bind]; [|done].
    by rewrite (gov_or_proposer c s b x a Hx Hal), (gov_or_proposer c s b x a' Hx Hal').
  - unfold L1.update_params. rewrite Ha, Ha'. cbn [negb]. destruct (coins_valid fee); cbn [negb]; [|done].
    unfold is_gov in *. by rewrite !bool_decide_eq_true_2.
Qed.
