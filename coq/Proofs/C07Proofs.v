(* C07: a deposit can neither be lost nor block the bridge; hooks are contained. *)
From stdpp Require Import gmap numbers list.
From Coq Require Import ZArith Lia.
Require Import Model.Bytes Model.Bank Model.Valset Model.L2 Model.L2Fault.
Require Import Proofs.L2Lemmas Proofs.DepositLemmas.

Local Open Scope Z_scope.

(* ---- the two outcomes ---- *)
(* the base denom a refund announces: the mapped one, or the one this deposit registers *)
Definition refund_base (s : l2state) (m : fdep) : bytes :=
  match pairs s !! fd_denom m with Some x => x | None => fd_base m end.

(* true of every processed deposit *)
Definition processed (s : l2state) (m : fdep) (s' : l2state) : Prop :=
  next_l1 s' = (next_l1 s + 1)%N ∧ prm s' = prm s ∧ info s' = info s ∧ vs s' = vs s ∧
  pairs s' = pairs (fd_gate s m).

(* the state in which exactly the credit has happened: recipient + amount, supply + amount,
   L1 sequence advanced, denom registered, nothing else *)
Definition credited_mid (s : l2state) (m : fdep) (a : N) (s_mid : l2state) : Prop :=
  frame_bk (fd_gate s m) s_mid ∧
  (∀ a' d', getb (bk s_mid) a' d' = getb (bk s) a' d' + delta a' d' a (fd_denom m) (fd_amt m)) ∧
  (∀ d', gets (bk s_mid) d' = gets (bk s) d' + deltad d' (fd_denom m) (fd_amt m)).

(* (A) credited; the hook's effects are applied iff there was a payload (then it ran and succeeded) *)
Definition outcome_A (c : cfg) (s : l2state) (m : fdep) (s' : l2state) : Prop :=
  ∃ a s_mid, resolve c (fd_to m) = Some a ∧ credited_mid s m a s_mid ∧
    ((hook_nonempty (fd_hook m) = false ∧ s' = push_deposit s_mid (deposit_rec m true)) ∨
     (hook_nonempty (fd_hook m) = true ∧
      ∃ s4, run_hook c s_mid (fd_hook m) = (s4, true) ∧ s' = push_deposit s4 (deposit_rec m true))).

(* (B) refunded: every balance and supply as before, exactly one withdrawal record *)
Definition outcome_B (s : l2state) (m : fdep) (s' : l2state) : Prop :=
  (∀ a d, getb (bk s') a d = getb (bk s) a d) ∧ (∀ d, gets (bk s') d = gets (bk s) d) ∧
  next_l2 s' = (next_l2 s + 1)%N ∧
  wlog s' = refund_rec m (next_l2 s) (refund_base s m) :: wlog s ∧
  dlog s' = deposit_rec m false :: dlog s ∧
  (seqs s' = seqs s ∨ ∃ signer, seqs s' = <[signer := (getseq s signer + 1)%N]> (seqs s)).

(* the (B) state, computed from the message and the old state alone: no hook involved *)
Definition refunded_state (s : l2state) (m : fdep) : l2state :=
  push_withdrawal (push_deposit (fd_gate s m) (deposit_rec m false))
                  (refund_rec m (next_l2 s) (refund_base s m)).

(* balances the reclaim relies on: never negative in a reachable state *)
Definition funds_sane (c : cfg) (s : l2state) (m : fdep) : Prop :=
  0 ≤ getb (bk s) (modacc c) (fd_denom m) ∧
  ∀ a, resolve c (fd_to m) = Some a → 0 ≤ getb (bk s) a (fd_denom m).

(* in outcome (A) no refund is recorded: the only records appended are those of the hook's own
   withdrawal messages (consecutive sequences, w_refund = false) *)
Lemma outcome_A_logs c s m s' :
  outcome_A c s m s' → user_records s s' ∧ dlog s' = deposit_rec m true :: dlog s.
Proof.
  intros (a & s_mid & _ & (F & _ & _) & H).
  destruct (reg_pair_frame (set_next_l1 s (next_l1 s + 1)%N) (fd_denom m) (fd_base m))
    as (_ & _ & G3 & _ & _ & _ & _ & G8 & G9). fold (fd_gate s m) in G3, G8, G9. cbn in G3, G8, G9.
  destruct F as (_ & F2 & _ & _ & _ & _ & _ & F8 & F9).
  destruct H as [(_ & ->)|(_ & s4 & Hh & ->)]; cbn.
  - split; [apply user_records_refl; cbn; congruence|congruence].
  - apply run_hook_frame in Hh as ((_ & _ & _ & _ & _ & H9) & (ws & Hw & Hn & Hf & Hs) & _).
    split; [|congruence]. exists ws. cbn. rewrite Hw, Hn, Hs, F2, F8, G3, G8. auto.
Qed.

Lemma outcomes_exclusive c s m s' : outcome_A c s m s' → outcome_B s m s' → False.
Proof.
  intros HA HB. apply outcome_A_logs in HA as ((ws & Hw & _ & Hf & _) & _). destruct HB as (_ & _ & _ & Hw' & _).
  rewrite Hw in Hw'. change (refund_rec m (next_l2 s) (refund_base s m) :: wlog s)
    with ([refund_rec m (next_l2 s) (refund_base s m)] ++ wlog s) in Hw'.
  apply app_inv_tail in Hw'. subst ws. apply Forall_cons in Hf as [Hf _]. discriminate Hf.
Qed.

(* ---- specifications of the handler's pieces (met by the plain and by the faulted version) ---- *)
Definition dep_spec (c : cfg) (s : l2state) (m : fdep) (s1 : l2state) (ok : bool) : Prop :=
  frame_bk s s1 ∧
  (ok = false → s1 = s) ∧
  (ok = true → ∃ a, resolve c (fd_to m) = Some a ∧
     (∀ a' d', getb (bk s1) a' d' = getb (bk s) a' d' + delta a' d' a (fd_denom m) (fd_amt m)) ∧
     (∀ d', gets (bk s1) d' = gets (bk s) d' + deltad d' (fd_denom m) (fd_amt m))).

Definition hook_spec (c : cfg) (s3 : l2state) (dep_ok : bool) (h : hookp) (s4 : l2state) (ok : bool) : Prop :=
  frame_hook s3 s4 ∧
  (seqs s4 = seqs s3 ∨ ∃ signer, seqs s4 = <[signer := (getseq s3 signer + 1)%N]> (seqs s3)) ∧
  (ok = false → dep_ok = true ∧ hook_nonempty h = true ∧ bk s4 = bk s3 ∧
                wlog s4 = wlog s3 ∧ next_l2 s4 = next_l2 s3) ∧
  (ok = true → (dep_ok && hook_nonempty h = false ∧ s4 = s3) ∨
               (dep_ok = true ∧ hook_nonempty h = true ∧ run_hook c s3 h = (s4, true))).

Lemma dep_spec_failed c s m : dep_spec c s m s false.
Proof. split; [apply frame_bk_refl|]. split; [done|discriminate]. Qed.

Lemma fd_hook_run_hook_spec c s3 dep_ok h s4 ok :
  fd_hook_run c s3 dep_ok h = (s4, ok) → hook_spec c s3 dep_ok h s4 ok.
Proof.
  intros H. pose proof (fd_hook_run_spec _ _ _ _ _ _ H) as (F & _ & Hf & Hq).
  split; [done|]. split; [done|]. unfold fd_hook_run in H.
  destruct (dep_ok && hook_nonempty h) eqn:E.
  - apply andb_true_iff in E as [-> Hne]. split.
    + intros ->. destruct (Hf eq_refl) as (?&?&?&_). auto 6.
    + intros ->. right. auto.
  - injection H as <- <-. split; [discriminate|]. intros _. left. auto.
Qed.

Lemma gate_frame s s1 m :
  frame_bk s s1 → frame_bk (fd_gate s m) (fd_gate s1 m) ∧ bk (fd_gate s1 m) = bk s1.
Proof.
  intros (F1 & F2 & F3 & F4 & F5 & F6 & F7 & F8 & F9). unfold fd_gate, reg_pair. cbn. rewrite F3.
  destruct (pairs s !! fd_denom m); cbn; (split; [|done]); unfold frame_bk; cbn; rewrite ?F1, ?F3; auto 12.
Qed.

Lemma gate_fields s m :
  bk (fd_gate s m) = bk s ∧ next_l1 (fd_gate s m) = (next_l1 s + 1)%N ∧ next_l2 (fd_gate s m) = next_l2 s ∧
  prm (fd_gate s m) = prm s ∧ info (fd_gate s m) = info s ∧ vs (fd_gate s m) = vs s ∧
  seqs (fd_gate s m) = seqs s ∧ wlog (fd_gate s m) = wlog s ∧ dlog (fd_gate s m) = dlog s ∧
  pairs (fd_gate s m) !! fd_denom m = Some (refund_base s m).
Proof.
  unfold fd_gate.
  destruct (reg_pair_frame (set_next_l1 s (next_l1 s + 1)%N) (fd_denom m) (fd_base m))
    as (G1 & G2 & G3 & G4 & G5 & G6 & G7 & G8 & G9).
  rewrite reg_pair_lookup. cbn in *. auto 12.
Qed.

(* credited and the hook (if any) succeeded: outcome (A) *)
Lemma core_A c s m s1 s4 :
  dep_spec c s m s1 true → hook_spec c (fd_gate s1 m) true (fd_hook m) s4 true →
  outcome_A c s m (push_deposit s4 (deposit_rec m true)) ∧
  processed s m (push_deposit s4 (deposit_rec m true)).
Proof.
  intros (F1 & _ & Hd) (F4 & _ & _ & Hh). destruct (Hd eq_refl) as (a & Ha & Hb & Hs).
  destruct (Hh eq_refl) as [(Hne & ->)|(_ & Hne & Hrun)]; cbn [andb] in *.
  - destruct (gate_frame s s1 m F1) as (G & Gb). split.
    + exists a, (fd_gate s1 m). split; [done|]. split; [|left; done].
      split; [done|]. rewrite Gb. done.
    + destruct G as (G1 & _ & G3 & G4 & G5 & G6 & _). destruct (gate_fields s m) as (_ & H2 & _ & H4 & H5 & H6 & _).
      unfold processed. cbn. rewrite G1, G3, G4, G5, G6. auto.
  - destruct (gate_frame s s1 m F1) as (G & Gb). split.
    + exists a, (fd_gate s1 m). split; [done|]. split; [|right; eauto].
      split; [done|]. rewrite Gb. done.
    + destruct F4 as (E1 & E3 & E4 & E5 & E6 & _).
      destruct G as (G1 & _ & G3 & G4 & G5 & G6 & _). destruct (gate_fields s m) as (_ & H2 & _ & H4 & H5 & H6 & _).
      unfold processed. cbn. rewrite E1, E3, E4, E5, E6, G1, G3, G4, G5, G6. auto.
Qed.

(* the deposit or the hook failed: the reclaim succeeds and the result is outcome (B) *)
Lemma core_B c s m s1 dep_ok s4 hook_ok :
  dep_spec c s m s1 dep_ok → hook_spec c (fd_gate s1 m) dep_ok (fd_hook m) s4 hook_ok →
  dep_ok && hook_ok = false → funds_sane c s m →
  ∃ s5, fd_reclaim c s4 m dep_ok = Some s5 ∧
        pairs s5 !! fd_denom m = Some (refund_base s m) ∧
        let s' := push_withdrawal (push_deposit s5 (deposit_rec m false))
                                  (refund_rec m (next_l2 s5) (refund_base s m)) in
        outcome_B s m s' ∧ processed s m s' ∧ frame_bk_seqs (refunded_state s m) s'.
Proof.
  intros (F1 & Hd0 & Hd1) (F4 & Hq & Hh0 & Hh1) Hok (Hmod & Hrcp).
  destruct (gate_frame s s1 m F1) as (G & Gb).
  assert (B4f : dep_ok = false → bk s4 = bk s).
  { intros ->. destruct hook_ok; [|destruct (Hh0 eq_refl); discriminate].
    destruct (Hh1 eq_refl) as [(_ & ->)|(Hx & _)]; [|discriminate]. rewrite Gb. by rewrite (Hd0 eq_refl). }
  destruct (gate_fields s m) as (H1 & H2 & H3 & H4 & H5 & H6 & H7 & H8 & H9 & H10).
  destruct G as (G1 & G2 & G3 & G4 & G5 & G6 & G7 & G8 & G9).
  assert (Hkeep : wlog s4 = wlog (fd_gate s1 m) ∧ next_l2 s4 = next_l2 (fd_gate s1 m)).
  { destruct hook_ok; [|destruct (Hh0 eq_refl) as (_&_&_&?&?); done].
    rewrite andb_true_r in Hok. subst dep_ok.
    destruct (Hh1 eq_refl) as [(_ & ->)|(Hx & _)]; [done|discriminate]. }
  destruct Hkeep as (E8 & E2).
  destruct F4 as (E1 & E3 & E4 & E5 & E6 & E9).
  assert (Hseq : seqs s4 = seqs s ∨ ∃ signer, seqs s4 = <[signer := (getseq s signer + 1)%N]> (seqs s)).
  { unfold getseq in *. rewrite G7, H7 in Hq. exact Hq. }
  assert (Hfin : ∀ s5, frame_bk s4 s5 →
            (∀ a d, getb (bk s5) a d = getb (bk s) a d) → (∀ d, gets (bk s5) d = gets (bk s) d) →
            pairs s5 !! fd_denom m = Some (refund_base s m) ∧
            let s' := push_withdrawal (push_deposit s5 (deposit_rec m false))
                                      (refund_rec m (next_l2 s5) (refund_base s m)) in
            outcome_B s m s' ∧ processed s m s' ∧ frame_bk_seqs (refunded_state s m) s').
  { intros s5 (K1 & K2 & K3 & K4 & K5 & K6 & K7 & K8 & K9) Kb Ks.
    split; [rewrite K3, E3, G3; exact H10|].
    assert (N2 : next_l2 s5 = next_l2 s) by congruence.
    cbn zeta. rewrite N2. split; [|split].
    - unfold outcome_B. cbn. split; [done|]. split; [done|]. split; [congruence|].
      split; [congruence|]. split; [congruence|]. rewrite K7. exact Hseq.
    - unfold processed. cbn. rewrite K1, K4, K5, K6, K3, E1, E3, E4, E5, E6, G1, G3, G4, G5, G6. auto.
    - unfold frame_bk_seqs, refunded_state. cbn.
      rewrite K1, K3, K4, K5, K6, K8, K9, E1, E3, E4, E5, E6, E8, E9, G1, G3, G4, G5, G6, G8, G9, H3, ?N2.
      auto 10. }
  destruct dep_ok.
  - (* credited, hook failed *)
    cbn [andb] in Hok. subst hook_ok. destruct (Hh0 eq_refl) as (_ & _ & Hb4 & _).
    destruct (Hd1 eq_refl) as (a & Ha & Hb1 & Hs1).
    assert (B4 : bk s4 = bk s1) by congruence.
    unfold fd_reclaim. rewrite Ha. cbn [mbind option_bind].
    assert (L1 : fd_amt m ≤ getb (bk s4) a (fd_denom m)).
    { rewrite B4, Hb1, delta_eq. specialize (Hrcp a Ha). lia. }
    destruct (bank_send_ok _ a (modacc c) _ _ L1) as (b1 & Hsend). rewrite Hsend. cbn [mbind option_bind].
    apply bank_send_Some in Hsend as (_ & S1 & S2).
    assert (L2 : fd_amt m ≤ getb b1 (modacc c) (fd_denom m)).
    { rewrite S1, B4, Hb1, delta_eq. lia. }
    destruct (bank_burn_ok _ (modacc c) _ _ L2) as (b2 & Hburn). rewrite Hburn. cbn [mbind option_bind].
    apply bank_burn_Some in Hburn as (_ & U1 & U2).
    eexists. split; [reflexivity|]. apply Hfin.
    + apply frame_bk_set.
    + intros a' d'. cbn. rewrite U1, S1, B4, Hb1. lia.
    + intros d'. cbn. rewrite U2, S2, B4, Hs1. lia.
  - (* not credited *)
    unfold fd_reclaim. eexists. split; [reflexivity|].
    pose proof (B4f eq_refl) as B4.
    apply Hfin; [apply frame_bk_refl| |]; intros; by rewrite B4.
Qed.

(* ---- the plain handler (no fault fires) ---- *)
Lemma fd_tail_two_outcomes c s m :
  funds_sane c s m →
  ∃ s', fd_tail c s m = Some (s', RSuccess) ∧ processed s m s' ∧
        ((outcome_A c s m s' ∧ ¬ outcome_B s m s') ∨ (outcome_B s m s' ∧ ¬ outcome_A c s m s')).
Proof.
  intros Hsane. unfold fd_tail. destruct (fd_dep c s m) as [s1 dep_ok] eqn:Hdep.
  destruct (fd_hook_run c (fd_gate s1 m) dep_ok (fd_hook m)) as [s4 hook_ok] eqn:Hhook.
  assert (D : dep_spec c s m s1 dep_ok) by (apply fd_dep_spec in Hdep; exact Hdep).
  apply fd_hook_run_hook_spec in Hhook.
  destruct (dep_ok && hook_ok) eqn:Hok.
  - apply andb_true_iff in Hok as [-> ->]. destruct (core_A _ _ _ _ _ D Hhook) as (HA & HP).
    eexists. split; [reflexivity|]. split; [done|]. left. split; [done|].
    intros HB. eapply outcomes_exclusive; eauto.
  - destruct (core_B _ _ _ _ _ _ _ D Hhook Hok Hsane) as (s5 & -> & Hp & HB & HP & _).
    cbn [mbind option_bind]. rewrite Hp. cbn [mbind option_bind].
    eexists. split; [reflexivity|]. split; [done|]. right. split; [done|].
    intros HA. eapply outcomes_exclusive; eauto.
Qed.

Lemma c07_total_plain c s m :
  fdep_valid c m = true → is_executor c s (fd_sender m) = true → fd_seq m = next_l1 s →
  funds_sane c s m →
  ∃ s', step c s (MFinalizeDeposit m) = (s', Ok RSuccess) ∧ processed s m s' ∧
        ((outcome_A c s m s' ∧ ¬ outcome_B s m s') ∨ (outcome_B s m s' ∧ ¬ outcome_A c s m s')).
Proof.
  intros Hv He Hs Hsane. unfold step. cbn [handle]. rewrite finalize_deposit_at_next by done.
  destruct (fd_tail_two_outcomes c s m Hsane) as (s' & -> & H). eauto.
Qed.

(* a failing hook - whatever made it fail - leaves exactly the refunded state, up to the
   signer's account sequence *)
Lemma c07_hook_contained c s m s1 s4 :
  fdep_valid c m = true → is_executor c s (fd_sender m) = true → fd_seq m = next_l1 s →
  funds_sane c s m →
  fd_dep c s m = (s1, true) → hook_nonempty (fd_hook m) = true →
  run_hook c (fd_gate s1 m) (fd_hook m) = (s4, false) →
  ∃ s', step c s (MFinalizeDeposit m) = (s', Ok RSuccess) ∧
        frame_bk_seqs (refunded_state s m) s' ∧
        (∀ a d, getb (bk s') a d = getb (bk (refunded_state s m)) a d) ∧
        (∀ d, gets (bk s') d = gets (bk (refunded_state s m)) d) ∧
        seqs s' = seqs s4 ∧
        (seqs s' = seqs s ∨ ∃ signer, seqs s' = <[signer := (getseq s signer + 1)%N]> (seqs s)).
Proof.
  intros Hv He Hs Hsane Hdep Hne Hrun. unfold step. cbn [handle]. rewrite finalize_deposit_at_next by done.
  unfold fd_tail. rewrite Hdep. unfold fd_hook_run at 1. rewrite Hne. cbn [andb]. rewrite Hrun. cbn [andb].
  assert (D : dep_spec c s m s1 true) by (apply fd_dep_spec in Hdep; exact Hdep).
  assert (Hh : hook_spec c (fd_gate s1 m) true (fd_hook m) s4 false).
  { apply fd_hook_run_hook_spec. unfold fd_hook_run. rewrite Hne. exact Hrun. }
  destruct (core_B _ _ _ _ _ _ _ D Hh eq_refl Hsane) as (s5 & H5 & Hp & HB & _ & HF).
  rewrite H5. cbn [mbind option_bind]. rewrite Hp. cbn [mbind option_bind].
  eexists. split; [reflexivity|]. split; [exact HF|].
  destruct HB as (B1 & B2 & _ & _ & _ & B6). destruct (gate_fields s m) as (G1 & _).
  split; [intros a d; rewrite B1; unfold refunded_state; cbn; by rewrite G1|].
  split; [intros d; rewrite B2; unfold refunded_state; cbn; by rewrite G1|].
  split; [|exact B6]. cbn. apply fd_reclaim_spec in H5 as ((_&_&_&_&_&_&K7&_) & _). exact K7.
Qed.

(* ---- the faulted handler ---- *)
Definition escaped (fe : fenv) (tr : list site) : Prop :=
  ∃ i st, tr !! i = Some st ∧ guarded st = false ∧ is_Some (fault fe i).

Lemma confined_not_escaped fe tr : confined fe tr → escaped fe tr → False.
Proof. intros Hc (i & st & Hl & Hg & Hf). rewrite (Hc i st Hl Hg) in Hf. by destruct Hf. Qed.

Lemma escaped_last fe tr st k :
  fault fe (length tr) = Some k → guarded st = false → escaped fe (tr ++ [st]).
Proof.
  intros Hf Hg. exists (length tr), st. split; [by apply list_lookup_middle|]. split; [done|]. rewrite Hf. eauto.
Qed.

Lemma safe_deposit_f_spec c fe tr s a d amt tr' r :
  safe_deposit_f c fe tr s a d amt = (tr', r) →
  match r with
  | None => escaped fe tr'
  | Some (s1, ok) => (s1, ok) = safe_deposit c s a d amt ∨ (ok = false ∧ s1 = s)
  end.
Proof.
  unfold safe_deposit_f, safe_deposit, call. destruct (amt =? 0).
  - destruct (fault fe (length tr)) eqn:E1.
    { intros [= <- <-]. eapply escaped_last; eauto. }
    destruct (acct_exists fe a); [intros [= <- <-]; by left|].
    destruct (fault fe (length (tr ++ [SHasAccount]))) eqn:E2.
    { intros [= <- <-]. eapply escaped_last; eauto. }
    destruct (fault fe (length ((tr ++ [SHasAccount]) ++ [SNewAccount]))) eqn:E3.
    { intros [= <- <-]. eapply escaped_last; eauto. }
    intros [= <- <-]. by left.
  - destruct (fault fe (length tr)); [intros [= <- <-]; by right|].
    destruct (fault fe (length (tr ++ [SMint]))); [intros [= <- <-]; by right|].
    destruct (blocked c a); [intros [= <- <-]; by left|].
    destruct (bank_send _ _ _ _ _); intros [= <- <-]; by left.
Qed.

Lemma dep_f_spec c fe s m tr r :
  dep_f c fe s m = (tr, r) →
  match r with None => escaped fe tr | Some (s1, ok) => dep_spec c s m s1 ok end.
Proof.
  unfold dep_f. destruct (resolve c (fd_to m)) as [a|] eqn:Ha.
  2:{ intros [= <- <-]. apply dep_spec_failed. }
  intros H. apply safe_deposit_f_spec in H. destruct r as [[s1 ok]|]; [|done].
  destruct H as [H|[-> ->]]; [|apply dep_spec_failed].
  apply (fd_dep_spec c s m s1 ok). unfold fd_dep. by rewrite Ha.
Qed.

Lemma meta_f_spec fe tr d tr' : meta_f fe tr d = (tr', true) → escaped fe tr'.
Proof.
  unfold meta_f, call. destruct (fault fe (length tr)) eqn:E1.
  { intros [= <-]. eapply escaped_last; eauto. }
  destruct (has_meta fe d); [discriminate|].
  destruct (fault fe (length (tr ++ [SHasMeta]))) eqn:E2; [|discriminate].
  intros [= <-]. eapply escaped_last; eauto.
Qed.

(* the hook's messages with faults: success only if the fault-free fold succeeds with the same state *)
Lemma hook_msgs_f_Some c fe signer msgs : ∀ tr s tr' s',
  hook_msgs_f c fe tr s signer msgs = (tr', Some s') →
  foldl (λ os m, s ← os; hook_msg c s signer m) (Some s) msgs = Some s'.
Proof.
  induction msgs as [|m rest IH]; intros tr s tr' s'; cbn [hook_msgs_f foldl].
  - by intros [= _ <-].
  - unfold call. destruct (fault fe (length tr)); [discriminate|].
    cbn [mbind option_bind]. destruct (hook_msg c s signer m) as [s1|]; [|discriminate]. apply IH.
Qed.

Lemma run_hook_f_spec c fe tr s h tr' s4 ok :
  run_hook_f c fe tr s h = (tr', (s4, ok)) →
  frame_hook s s4 ∧
  (seqs s4 = seqs s ∨ ∃ signer, seqs s4 = <[signer := (getseq s signer + 1)%N]> (seqs s)) ∧
  (ok = false → bk s4 = bk s ∧ wlog s4 = wlog s ∧ next_l2 s4 = next_l2 s) ∧
  (ok = true → run_hook c s h = (s4, true)).
Proof.
  unfold run_hook_f, run_hook. destruct h as [| |signer tseq sig_ok msgs].
  - intros [= _ <- <-]. split; [apply frame_hook_refl|]. auto.
  - intros [= _ <- <-]. split; [apply frame_hook_refl|]. split; [auto|]. split; [done|discriminate].
  - destruct (p_hookgas (prm s) <? hook_gas_floor)%N.
    { intros [= _ <- <-]. split; [apply frame_hook_refl|]. split; [auto|]. split; [done|discriminate]. }
    destruct (negb _).
    { intros [= _ <- <-]. split; [apply frame_hook_refl|]. split; [auto|]. split; [done|discriminate]. }
    destruct (hook_msgs_f _ _ _ _ _ _) as [tr1 [s2|]] eqn:Hs.
    + intros [= _ <- <-]. apply hook_msgs_f_Some in Hs. rewrite Hs.
      apply hook_fold_spec in Hs as (F & Q & _). cbn in F, Q.
      split; [exact F|]. split; [right; exists signer; by rewrite Q|]. split; [discriminate|done].
    + intros [= _ <- <-]. split; [repeat split|]. split; [right; eauto|]. split; [done|discriminate].
Qed.

Lemma hook_f_spec c fe tr s3 dep_ok h tr' s4 ok :
  hook_f c fe tr s3 dep_ok h = (tr', (s4, ok)) → hook_spec c s3 dep_ok h s4 ok.
Proof.
  unfold hook_f. destruct (dep_ok && hook_nonempty h) eqn:E.
  - apply andb_true_iff in E as [-> Hne]. intros H. apply run_hook_f_spec in H as (F & Hq & H0 & H1).
    split; [done|]. split; [done|]. split; [intros Hk; destruct (H0 Hk) as (?&?&?); auto 6|]. intros Hk. right. auto.
  - intros [= _ <- <-]. split; [apply frame_hook_refl|]. split; [auto|].
    split; [discriminate|]. intros _. left. auto.
Qed.

Lemma reclaim_f_spec c fe tr s4 m dep_ok tr' r :
  reclaim_f c fe tr s4 m dep_ok = (tr', r) →
  r = fd_reclaim c s4 m dep_ok ∨ (r = None ∧ escaped fe tr').
Proof.
  unfold reclaim_f, fd_reclaim, call. destruct dep_ok; [|intros [= _ <-]; by left].
  destruct (fault fe (length tr)) eqn:E1.
  { intros [= <- <-]. right. split; [done|]. eapply escaped_last; eauto. }
  destruct (resolve c (fd_to m)) as [a|]; cbn [mbind option_bind]; [|intros [= _ <-]; by left].
  destruct (bank_send _ _ _ _ _) as [b1|]; cbn [mbind option_bind]; [|intros [= _ <-]; by left].
  destruct (fault fe (length (tr ++ [SReclaim]))) eqn:E2.
  { intros [= <- <-]. right. split; [done|]. eapply escaped_last; eauto. }
  destruct (bank_burn _ _ _ _); intros [= _ <-]; by left.
Qed.

Lemma finalize_tail_f_two_outcomes c fe s m tr res :
  funds_sane c s m → finalize_tail_f c fe s m = (tr, res) →
  (res = None ∧ escaped fe tr) ∨
  ∃ s', res = Some (s', RSuccess) ∧ processed s m s' ∧
        ((outcome_A c s m s' ∧ ¬ outcome_B s m s') ∨ (outcome_B s m s' ∧ ¬ outcome_A c s m s')).
Proof.
  intros Hsane. unfold finalize_tail_f.
  destruct (dep_f c fe s m) as [tr1 dep] eqn:Hdep. apply dep_f_spec in Hdep.
  destruct dep as [[s1 dep_ok]|]; [|intros [= <- <-]; by left].
  destruct (meta_f fe tr1 (fd_denom m)) as [tr2 esc] eqn:Hmeta.
  destruct esc; [intros [= <- <-]; left; split; [done|]; eapply meta_f_spec; eauto|].
  change (match pairs (set_next_l1 s1 (next_l1 s1 + 1)%N) !! fd_denom m with
          | Some _ => set_next_l1 s1 (next_l1 s1 + 1)%N
          | None => set_pairs (set_next_l1 s1 (next_l1 s1 + 1)%N)
                      (<[fd_denom m:=fd_base m]> (pairs (set_next_l1 s1 (next_l1 s1 + 1)%N)))
          end) with (fd_gate s1 m).
  destruct (hook_f c fe tr2 (fd_gate s1 m) dep_ok (fd_hook m)) as [tr3 [s4 hook_ok]] eqn:Hhook.
  apply hook_f_spec in Hhook.
  destruct (dep_ok && hook_ok) eqn:Hok.
  - intros [= <- <-]. apply andb_true_iff in Hok as [-> ->]. destruct (core_A _ _ _ _ _ Hdep Hhook) as (HA & HP).
    right. eexists. split; [reflexivity|]. split; [done|]. left. split; [done|].
    intros HB. eapply outcomes_exclusive; eauto.
  - destruct (reclaim_f c fe tr3 s4 m dep_ok) as [tr4 r5] eqn:Hrec.
    apply reclaim_f_spec in Hrec as [->|[-> Hesc]]; [|intros [= <- <-]; by left].
    destruct (core_B _ _ _ _ _ _ _ Hdep Hhook Hok Hsane) as (s5 & -> & Hp & HB & HP & _).
    rewrite Hp. intros [= <- <-]. right. eexists. split; [reflexivity|]. split; [done|]. right. split; [done|].
    intros HA. eapply outcomes_exclusive; eauto.
Qed.

(* C07_total on the faulted handler *)
Lemma c07_total c fe s m :
  fdep_valid c m = true → is_executor c s (fd_sender m) = true → fd_seq m = next_l1 s →
  funds_sane c s m → confined fe (finalize_deposit_f c fe s m).1 →
  ∃ s', step_f c fe s m = (s', Ok RSuccess) ∧ processed s m s' ∧
        ((outcome_A c s m s' ∧ ¬ outcome_B s m s') ∨ (outcome_B s m s' ∧ ¬ outcome_A c s m s')).
Proof.
  intros Hv He Hs Hsane. unfold step_f, finalize_deposit_f. rewrite Hv, He, Hs, N.ltb_irrefl. cbn [negb].
  destruct (finalize_tail_f c fe s m) as [tr res] eqn:E. cbn [fst snd]. intros Hc.
  apply finalize_tail_f_two_outcomes in E as [[_ Hesc]|(s' & -> & H)]; [|eauto|done].
  exfalso. eapply confined_not_escaped; eauto.
Qed.

(* whenever the faulted handler fails at the expected sequence, an unguarded call was hit *)
Lemma c07_err_only_unguarded c fe s m :
  fdep_valid c m = true → is_executor c s (fd_sender m) = true → fd_seq m = next_l1 s →
  funds_sane c s m → (finalize_deposit_f c fe s m).2 = None →
  ∃ i st, (finalize_deposit_f c fe s m).1 !! i = Some st ∧ guarded st = false ∧ is_Some (fault fe i).
Proof.
  intros Hv He Hs Hsane. unfold finalize_deposit_f. rewrite Hv, He, Hs, N.ltb_irrefl. cbn [negb].
  destruct (finalize_tail_f c fe s m) as [tr res] eqn:E. cbn [fst snd]. intros ->.
  apply finalize_tail_f_two_outcomes in E as [[_ Hesc]|(s' & Hx & _)]; [done|discriminate|done].
Qed.

(* with no fault the faulted handler IS the plain handler *)
Lemma hook_msgs_f_nofault c fe signer msgs : no_faults fe → ∀ tr s,
  (hook_msgs_f c fe tr s signer msgs).2 =
  foldl (λ os m, s ← os; hook_msg c s signer m) (Some s) msgs.
Proof.
  intros Hnf. induction msgs as [|m rest IH]; intros tr s; cbn [hook_msgs_f foldl]; [done|].
  unfold call. rewrite Hnf. cbn [mbind option_bind]. destruct (hook_msg c s signer m) as [s1|].
  - apply IH.
  - cbn. by rewrite hook_fold_None.
Qed.

Lemma finalize_deposit_f_nofault c fe s m :
  no_faults fe → (finalize_deposit_f c fe s m).2 = finalize_deposit c s m.
Proof.
  intros Hnf. rewrite finalize_deposit_unfold. unfold finalize_deposit_f.
  destruct (negb (fdep_valid c m)); [done|]. destruct (negb (is_executor c s (fd_sender m))); [done|].
  destruct (fd_seq m <? next_l1 s)%N; [done|]. destruct (next_l1 s <? fd_seq m)%N; [done|].
  unfold finalize_tail_f, fd_tail.
  assert (Hdep : ∃ tr, dep_f c fe s m = (tr, Some (fd_dep c s m))).
  { unfold dep_f, fd_dep. destruct (resolve c (fd_to m)) as [a|]; [|eauto].
    unfold safe_deposit_f, safe_deposit, call. rewrite !Hnf.
    destruct (fd_amt m =? 0).
    - destruct (acct_exists fe a); eauto.
    - destruct (blocked c a); [eauto|]. destruct (bank_send _ _ _ _ _); eauto. }
  destruct Hdep as (tr1 & ->). destruct (fd_dep c s m) as [s1 dep_ok].
  assert (Hmeta : ∃ tr, meta_f fe tr1 (fd_denom m) = (tr, false)).
  { unfold meta_f, call. rewrite !Hnf. destruct (has_meta fe (fd_denom m)); eauto. }
  destruct Hmeta as (tr2 & ->).
  change (match pairs (set_next_l1 s1 (next_l1 s1 + 1)%N) !! fd_denom m with
          | Some _ => set_next_l1 s1 (next_l1 s1 + 1)%N
          | None => set_pairs (set_next_l1 s1 (next_l1 s1 + 1)%N)
                      (<[fd_denom m:=fd_base m]> (pairs (set_next_l1 s1 (next_l1 s1 + 1)%N)))
          end) with (fd_gate s1 m).
  assert (Hhook : ∃ tr, hook_f c fe tr2 (fd_gate s1 m) dep_ok (fd_hook m) =
                        (tr, fd_hook_run c (fd_gate s1 m) dep_ok (fd_hook m))).
  { unfold hook_f, fd_hook_run. destruct (dep_ok && hook_nonempty (fd_hook m)); [|eauto].
    unfold run_hook_f, run_hook. destruct (fd_hook m) as [| |signer tseq sig_ok sends]; eauto.
    destruct (p_hookgas _ <? hook_gas_floor)%N; [eauto|]. destruct (negb _); [eauto|].
    pose proof (hook_msgs_f_nofault c fe signer sends Hnf tr2
                  (set_seqs (fd_gate s1 m) (<[signer:=(getseq (fd_gate s1 m) signer + 1)%N]> (seqs (fd_gate s1 m))))) as Hs.
    destruct (hook_msgs_f _ _ _ _ _ _) as [tr3 ob]. cbn [snd] in Hs. rewrite <- Hs. destruct ob; eauto. }
  destruct Hhook as (tr3 & ->). destruct (fd_hook_run c (fd_gate s1 m) dep_ok (fd_hook m)) as [s4 hook_ok].
  destruct (dep_ok && hook_ok); [done|].
  assert (Hrec : ∃ tr, reclaim_f c fe tr3 s4 m dep_ok = (tr, fd_reclaim c s4 m dep_ok)).
  { unfold reclaim_f, fd_reclaim, call. rewrite !Hnf. destruct dep_ok; [|eauto].
    destruct (resolve c (fd_to m)) as [a|]; cbn [mbind option_bind]; [|eauto].
    destruct (bank_send _ _ _ _ _) as [b1|]; cbn [mbind option_bind]; [|eauto].
    destruct (bank_burn _ _ _ _); eauto. }
  destruct Hrec as (tr4 & ->). destruct (fd_reclaim c s4 m dep_ok) as [s5|]; [|done].
  cbn [mbind option_bind]. destruct (pairs s5 !! fd_denom m); done.
Qed.

Lemma step_f_nofault c fe s m : no_faults fe → step_f c fe s m = step c s (MFinalizeDeposit m).
Proof. intros Hnf. unfold step_f, step. cbn [handle]. by rewrite finalize_deposit_f_nofault. Qed.

(* ---- gas: the arithmetic of the limit ---- *)
Lemma c07_gas_bound remaining hook_max consumed :
  (gas_for_hook remaining hook_max ≤ hook_max)%N ∧ (gas_for_hook remaining hook_max ≤ remaining)%N ∧
  (gas_charged consumed (gas_for_hook remaining hook_max) ≤ hook_max)%N ∧
  (gas_charged consumed (gas_for_hook remaining hook_max) ≤ remaining)%N ∧
  (gas_charged consumed (gas_for_hook remaining hook_max) ≤ consumed)%N.
Proof.
  unfold gas_for_hook, gas_charged.
  destruct (hook_max <? remaining)%N eqn:E1; [apply N.ltb_lt in E1|apply N.ltb_ge in E1];
    (destruct (_ <? consumed)%N eqn:E2; [apply N.ltb_lt in E2|apply N.ltb_ge in E2]); lia.
Qed.
