(* The invariant [l2_inv] of the L2 genesis round trip is preserved by every opchild message,
   including messages wrapped in ExecuteMessages. *)
From stdpp Require Import gmap numbers list sorting.
From Coq Require Import ZArith Lia.
Require Import Model.Bytes Model.Bank Model.Valset Model.L2 Model.Genesis1 Model.Genesis2.
Require Import Proofs.L2Lemmas.

(* the validator part of the invariant *)
Definition vinv (maxv : N) (v : vstate) : Prop :=
  (N.of_nat (size (vals v)) ≤ maxv)%N ∧
  (∀ op x, vals v !! op = Some x → idx v !! v_key x = Some op) ∧
  (∀ k op, idx v !! k = Some op → ∃ x, vals v !! op = Some x ∧ v_key x = k) ∧
  (∀ op p, last v !! op = Some p → is_Some (vals v !! op)).

Lemma l2_inv_vinv c s : l2_inv c s → vinv (p_maxv (prm s)) (vs s).
Proof. intros [? ? ? ? ? ? ? ? ?]. by repeat split. Qed.

(* a successor state described component by component *)
Lemma l2_inv_build c s t :
  l2_inv c s → params_valid c (prm t) = true → vinv (p_maxv (prm t)) (vs t) →
  (1 ≤ next_l1 t)%N → (1 ≤ next_l2 t)%N →
  (∀ bi, info t = Some bi → binfo_valid bi = true) →
  (∀ d v, pairs t !! d = Some v → valid_denom d = true) → l2_inv c t.
Proof. intros _ Hp (V1 & V2 & V3 & V4) H1 H2 Hi Hpr. by constructor. Qed.

Lemma add_validator_vinv maxv v op key v' :
  vinv maxv v → add_validator maxv v op key = Some v' → vinv maxv v'.
Proof.
  intros (V1 & V2 & V3 & V4). unfold add_validator.
  case_bool_decide as Hsz; [done|]. case_bool_decide as Hop; [done|]. case_bool_decide as Hk; [done|].
  intros [= <-]. unfold vinv. cbn [vals idx last].
  assert (Hnone : vals v !! op = None) by (destruct (vals v !! op); [exfalso; eauto|done]).
  assert (Hknone : idx v !! key = None).
  { destruct (idx v !! key) as [o|] eqn:Hi; [|done]. exfalso. apply Hk. unfold by_key. rewrite Hi. cbn.
    destruct (V3 key o Hi) as (x & Hx & _). rewrite Hx. eauto. }
  repeat split.
  - rewrite map_size_insert_None by done. lia.
  - intros o x. destruct (decide (o = op)) as [->|Hne].
    + rewrite lookup_insert. intros [= <-]. cbn. by rewrite lookup_insert.
    + rewrite lookup_insert_ne by done. intros Hx. pose proof (V2 o x Hx) as Hi.
      rewrite lookup_insert_ne; [done|]. intros Heq. rewrite <- Heq in Hi. congruence.
  - intros k o. destruct (decide (k = key)) as [->|Hne].
    + rewrite lookup_insert. intros [= <-]. eexists. by rewrite lookup_insert.
    + rewrite lookup_insert_ne by done. intros Hi. destruct (V3 k o Hi) as (x & Hx & Hkx).
      exists x. split; [|done]. rewrite lookup_insert_ne; [done|]. intros Heq. subst. congruence.
  - intros o p Hl. rewrite lookup_insert_is_Some'. right. by eapply V4.
Qed.

Lemma remove_validator_vinv maxv v op v' :
  vinv maxv v → remove_validator v op = Some v' → vinv maxv v'.
Proof.
  intros (V1 & V2 & V3 & V4). unfold remove_validator.
  destruct (vals v !! op) as [x0|] eqn:Hx0; cbn [mbind option_bind]; [|done]. intros [= <-]. unfold vinv. cbn [vals idx last].
  repeat split.
  - rewrite map_size_insert_Some by eauto. done.
  - intros o x. destruct (decide (o = op)) as [->|Hne].
    + rewrite lookup_insert. intros [= <-]. cbn. by apply V2.
    + rewrite lookup_insert_ne by done. apply V2.
  - intros k o Hi. destruct (V3 k o Hi) as (x & Hx & Hkx). destruct (decide (o = op)) as [->|Hne].
    + rewrite lookup_insert. eexists. split; [done|]. cbn. congruence.
    + rewrite lookup_insert_ne by done. eauto.
  - intros o p Hl. rewrite lookup_insert_is_Some'. right. by eapply V4.
Qed.

(* FinalizeTokenDeposit can only add the pair of the deposited denom *)
Lemma finalize_deposit_pairs c s m s' r :
  finalize_deposit c s m = Some (s', r) →
  ∀ d v, pairs s' !! d = Some v → pairs s !! d = Some v ∨ d = fd_denom m.
Proof.
  unfold finalize_deposit.
  destruct (fdep_valid c m) eqn:Hv; [|discriminate]. cbn [negb].
  destruct (is_executor c s (fd_sender m)) eqn:He; [|discriminate]. cbn [negb].
  destruct (fd_seq m <? next_l1 s)%N eqn:Hlt.
  { intros [= <- <-]. auto. }
  destruct (next_l1 s <? fd_seq m)%N eqn:Hgt; [discriminate|].
  destruct (match resolve c (fd_to m) with
            | Some a => safe_deposit c s a (fd_denom m) (fd_amt m)
            | None => (s, false) end) as [s1 dep_ok] eqn:Hdep.
  assert (F1 : frame_bk s s1).
  { destruct (resolve c (fd_to m)); [eapply safe_deposit_frame; eauto|].
    injection Hdep as <- <-. apply frame_bk_refl. }
  destruct F1 as (F1a & F1b & F1c & F1d & F1e & F1f & F1g & F1h & F1i).
  set (s2 := set_next_l1 s1 (next_l1 s1 + 1)).
  set (s3 := match pairs s2 !! fd_denom m with
             | Some _ => s2
             | None => set_pairs s2 (<[fd_denom m:=fd_base m]> (pairs s2)) end).
  assert (F3 : ∀ d v, pairs s3 !! d = Some v → pairs s !! d = Some v ∨ d = fd_denom m).
  { intros d v. subst s3 s2. destruct (pairs _ !! fd_denom m); cbn; rewrite ?F1c; [auto|].
    destruct (decide (d = fd_denom m)) as [->|]; [auto|]. rewrite lookup_insert_ne by done. auto. }
  destruct (if dep_ok && hook_nonempty (fd_hook m) then run_hook c s3 (fd_hook m) else (s3, true))
    as [s4 hook_ok] eqn:Hhook.
  assert (F4c : pairs s4 = pairs s3).
  { destruct (dep_ok && hook_nonempty (fd_hook m)).
    - apply run_hook_frame in Hhook as ((_ & Hp & _) & _). done.
    - by injection Hhook as <- <-. }
  destruct (dep_ok && hook_ok) eqn:Hok.
  { intros [= <- <-]. cbn. rewrite F4c. exact F3. }
  intros Hrest. apply bind_Some in Hrest as (s5 & Hs5 & Hrest).
  apply bind_Some in Hrest as (base & Hbase & Hrest). injection Hrest as <- <-.
  assert (F5 : frame_bk s4 s5).
  { destruct dep_ok; [|injection Hs5 as <-; apply frame_bk_refl].
    apply bind_Some in Hs5 as (a & _ & Hs5). apply bind_Some in Hs5 as (b1 & _ & Hs5).
    apply bind_Some in Hs5 as (b2 & _ & Hs5). injection Hs5 as <-. apply frame_bk_set. }
  destruct F5 as (F5a & F5b & F5c & F5d & F5e & F5f & F5g & F5h & F5i).
  cbn. rewrite F5c, F4c. exact F3.
Qed.

Lemma update_params_inv c s auth p s' r :
  update_params c s auth p = Some (s', r) →
  params_valid c p = true ∧ (N.of_nat (size (vals (vs s))) ≤ p_maxv p)%N ∧ s' = set_prm s p.
Proof.
  unfold update_params. destruct (negb (_ && _)); [discriminate|].
  destruct (negb (is_authority c auth)); [discriminate|].
  intros Hx. apply bind_Some in Hx as (s1 & Hs1 & [= <- <-]). by apply set_params_Some in Hs1.
Qed.

Lemma handle_inv2 m : ∀ c s s' r, l2_inv c s → handle c s m = Some (s', r) → l2_inv c s'.
Proof.
  induction m as [f|w1 w2 w3 w4|b1 b2 b3 b4|i1 i2|u1 u2|v1 v2 v3|r1 r2|p1 p2 p3|sender inner IH] using msg_ind'; intros c s s' r Hinv;
    [cbn [handle]..|].
  - intros H. pose proof (finalize_deposit_pairs _ _ _ _ _ H) as Hp.
    pose proof H as H0. apply finalize_deposit_Some in H as (Hv & _ & [(-> & -> & _)|(-> & Hseq & Hn & ok & Hd & Hprm & Hinfo & Hvs & Hrest)]); [done|].
    pose proof Hinv as [I1 I2 I3 I4 I5 I6 I7 I8 I9].
    apply (l2_inv_build c s);
      [done | by rewrite Hprm | rewrite Hprm, Hvs; by apply (l2_inv_vinv c) | lia
      | destruct Hrest as [(_ & (ws & _ & E & _))|(_ & E & _)]; rewrite E; lia | by rewrite Hinfo |].
    intros d v Hq. destruct (Hp d v Hq) as [Hq1 | ->]; [by eapply I9|].
    unfold fdep_valid in Hv. rewrite !andb_true_iff in Hv. destruct Hv as (((((_ & _) & Hc) & _) & _) & _).
    unfold coin_valid in Hc. by apply andb_true_iff in Hc as [? _].
  - intros H. apply withdraw_Some in H as (?&?&?&?&_&_&_&_&_&_&_&_&->).
    pose proof Hinv as [I1 I2 I3 I4 I5 I6 I7 I8 I9].
    apply (l2_inv_build c s); cbn; try done; try (by apply (l2_inv_vinv c)); try lia.
  - intros H. apply bank_send_msg_Some in H as (? & -> & _).
    pose proof Hinv as [I1 I2 I3 I4 I5 I6 I7 I8 I9]. apply (l2_inv_build c s); cbn; try done; try (by apply (l2_inv_vinv c)).
  - intros H. apply set_bridge_info_Some in H as (_&Hb&_&->&_).
    pose proof Hinv as [I1 I2 I3 I4 I5 I6 I7 I8 I9]. apply (l2_inv_build c s); cbn; try done; try (by apply (l2_inv_vinv c)).
    by intros bi [= <-].
  - intros H. apply update_params_inv in H as (Hv & Hm & ->).
    pose proof Hinv as [I1 I2 I3 I4 I5 I6 I7 I8 I9]. apply (l2_inv_build c s); cbn; try done; try by repeat split.
  - intros H. apply add_val_Some in H as (_&o&v&_&Ha&->&_).
    pose proof Hinv as [I1 I2 I3 I4 I5 I6 I7 I8 I9]. apply (l2_inv_build c s); cbn; try done.
    eapply add_validator_vinv; [|exact Ha]. by apply (l2_inv_vinv c).
  - intros H. apply remove_val_Some in H as (_&o&v&_&Ha&->&_).
    pose proof Hinv as [I1 I2 I3 I4 I5 I6 I7 I8 I9]. apply (l2_inv_build c s); cbn; try done.
    eapply remove_validator_vinv; [|exact Ha]. by apply (l2_inv_vinv c).
  - intros H. apply spend_fee_pool_Some in H as (_&?&->&_).
    pose proof Hinv as [I1 I2 I3 I4 I5 I6 I7 I8 I9]. apply (l2_inv_build c s); cbn; try done; try (by apply (l2_inv_vinv c)).
  - rewrite handle_execute.
    destruct (negb (bool_decide (is_Some _))); [discriminate|].
    case_bool_decide; [discriminate|]. destruct (negb (is_admin s sender)); [discriminate|].
    intros Hx. apply bind_Some in Hx as (auth & _ & Hx). clear -IH Hx Hinv.
    revert s Hinv Hx. induction inner as [|im l IHl]; intros s Hinv.
    + by intros [= <- <-].
    + rewrite exec_loop_cons. intros Hx.
      apply bind_Some in Hx as (sg & _ & Hx). apply bind_Some in Hx as (a & _ & Hx).
      destruct (negb (bool_decide (a = auth))); [discriminate|].
      apply bind_Some in Hx as ([s1 r1] & Hh & Hx).
      apply Forall_cons in IH as [IHim IHrest].
      eapply (IHl IHrest s1); [|exact Hx]. eapply IHim; eauto.
Qed.

Lemma step_inv2 c s m : l2_inv c s → l2_inv c (step c s m).1.
Proof.
  intros Hinv. unfold step. destruct (handle c s m) as [[s' r]|] eqn:Hh; cbn; [|done]. by eapply handle_inv2.
Qed.

Lemma run_inv2 c h : ∀ s, l2_inv c s → l2_inv c (run c s h).1.
Proof.
  induction h as [|m h IH]; intros s Hinv; cbn; [done|].
  pose proof (step_inv2 c s m Hinv) as H1. destruct (step c s m) as [s1 r]. cbn in H1.
  specialize (IH s1 H1). destruct (run c s1 h) as [s2 rs]. done.
Qed.

(* a chain freshly started with valid params, no validators, no bridge info and valid denoms *)
Lemma fresh_inv2 c s :
  params_valid c (prm s) = true → vs s = vempty → info s = None → (1 ≤ next_l1 s)%N → (1 ≤ next_l2 s)%N →
  (∀ d v, pairs s !! d = Some v → valid_denom d = true) → l2_inv c s.
Proof.
  intros Hp Hv Hi H1 H2 Hpr. constructor; rewrite ?Hv, ?Hi; cbn; try done.
  rewrite map_size_empty. lia.
Qed.
