(* C01 - L1 escrow conservation ledger and per-bridge isolation.
   Proof scripts; statements are re-exported in Properties/C01.v. *)
From stdpp Require Import gmap numbers list.
From Coq Require Import ZArith Lia.
Require Import Model.Bytes Model.Bank Model.Hashes Model.L1 Proofs.L1DepLemmas.

(* ---- hypotheses about the account space (trusted-base items, checked per run by the harness) ---- *)
(* escrow addresses are pairwise distinct and none of them is the community pool *)
Definition escrow_ok (c : cfg) : Prop :=
  (∀ b b', escrow c b = escrow c b' → b = b') ∧ (∀ b, escrow c b ≠ pool c).

(* the account whose funds a message spends on the signer's behalf *)
Definition spender (c : cfg) (m : msg) : option N :=
  match m with
  | MCreateBridge creator _ => resolve c creator
  | MDeposit sender _ _ _ _ _ => resolve c sender
  | MBankSend from _ _ _ => Some from
  | _ => None
  end.
(* nobody holds the key of a module-derived escrow address: no message spends from one *)
Definition not_escrow_signed (c : cfg) (m : msg) : Prop := ∀ b, spender c m ≠ Some (escrow c b).

(* ---- the three columns of the ledger of (bridge b, denom d), read off one message + verdict ---- *)
Definition dep_in (b : N) (d : bytes) (m : msg) (r : result) : Z :=
  match m, r with
  | MDeposit _ b' _ d' amt _, Ok _ => if decide (b' = b ∧ d' = d) then amt else 0
  | _, _ => 0
  end%Z.
(* plain credits: bank sends to the escrow address, payouts of ANY bridge naming it as recipient *)
Definition plain_in (c : cfg) (b : N) (d : bytes) (m : msg) (r : result) : Z :=
  match m, r with
  | MBankSend _ to d' amt, Ok _ => if decide (to = escrow c b ∧ d' = d) then amt else 0
  | MFinalize _ _ _ _ _ _ to d' amt _ _ _, Ok _ =>
      if decide (resolve c to = Some (escrow c b) ∧ d' = d) then amt else 0
  | _, _ => 0
  end%Z.
Definition wd_out (b : N) (d : bytes) (m : msg) (r : result) : Z :=
  match m, r with
  | MFinalize _ b' _ _ _ _ _ d' amt _ _ _, Ok _ => if decide (b' = b ∧ d' = d) then amt else 0
  | _, _ => 0
  end%Z.

Fixpoint sum_flow (f : msg → result → Z) (h : list (env * msg)) (rs : list result) : Z :=
  match h, rs with
  | em :: h', r :: rs' => (f em.2 r + sum_flow f h' rs')%Z
  | _, _ => 0%Z
  end.

(* ---- one step ---- *)
Lemma step_escrow_delta c e s m s' r b d :
  escrow_ok c → not_escrow_signed c m → step c e s m = (s', r) →
  getb (bk s') (escrow c b) d =
    (getb (bk s) (escrow c b) d + dep_in b d m r + plain_in c b d m r - wd_out b d m r)%Z ∧
  (0 ≤ dep_in b d m r)%Z ∧ (0 ≤ plain_in c b d m r)%Z ∧ (0 ≤ wd_out b d m r)%Z.
Proof.
  intros [Hinj Hpool] Hsig Hst.
  destruct (step_cases c e s m) as [(s1 & r1 & Hh & Hs)|[Hh Hs]]; rewrite Hs in Hst; injection Hst as <- <-.
  2: { destruct m; cbn; lia. }
  destruct (plain_msg m) eqn:Hp.
  { apply handle_plain in Hh as [(Hbk & _) _]; [|done]. rewrite Hbk. destruct m; try discriminate; cbn; lia. }
  destruct m; try discriminate; cbn [handle] in Hh; cbn [dep_in plain_in wd_out].
  - (* create *)
    apply create_Some in Hh as (cr & Hcr & _ & Hfee & _).
    rewrite (fee_loop_other _ _ _ _ _ Hfee); [lia| |apply Hpool].
    intros E. apply (Hsig b). cbn. by rewrite Hcr, E.
  - (* deposit *)
    apply deposit_Some in Hh as (sd & Hsd & _ & _ & [Ha _] & _ & _ & _ & Hbk & _).
    assert (Hne : sd ≠ escrow c b). { intros E. apply (Hsig b). cbn. by rewrite Hsd, E. }
    destruct (0 <? amt)%Z eqn:Hpos.
    + apply bank_send_Some in Hbk as [_ Hbk]. rewrite Hbk. unfold at_acct.
      repeat case_decide; try lia; exfalso; naive_solver.
    + injection Hbk as <-. apply Z.ltb_ge in Hpos. case_decide; lia.
  - (* finalize *)
    apply finalize_Some in Hh as (rcv & Hr & _ & _ & [Ha _] & _ & _ & _ & _ & _ & Hbk & _).
    apply bank_send_Some in Hbk as [_ Hbk]. rewrite Hbk. unfold at_acct. rewrite Hr.
    repeat case_decide; try lia; exfalso; naive_solver.
  - (* bank send *)
    apply bank_send_msg_Some in Hh as (_ & Ha & Hbk & _).
    assert (Hne : from ≠ escrow c b). { intros E. apply (Hsig b). cbn. by rewrite E. }
    apply bank_send_Some in Hbk as [_ Hbk]. rewrite Hbk. unfold at_acct.
    repeat case_decide; try lia; exfalso; naive_solver.
Qed.

(* C01_escrow_ledger *)
Lemma c01_escrow_ledger c b d h : ∀ s,
  escrow_ok c → Forall (λ em, not_escrow_signed c em.2) h →
  getb (bk (run c s h).1) (escrow c b) d =
    (getb (bk s) (escrow c b) d + sum_flow (dep_in b d) h (run c s h).2
     + sum_flow (plain_in c b d) h (run c s h).2 - sum_flow (wd_out b d) h (run c s h).2)%Z.
Proof.
  induction h as [|[e m] h IH]; intros s Hok Hall; [cbn; lia|].
  apply Forall_cons in Hall as [Hm Hall]. rewrite run_cons. cbn [fst snd sum_flow].
  destruct (step c e s m) as [s1 r] eqn:Hst. cbn [fst snd].
  rewrite (IH s1 Hok Hall). cbn in Hm. destruct (step_escrow_delta c e s m s1 r b d Hok Hm Hst) as (Heq & _). rewrite Heq. lia.
Qed.

(* C01_outflow_only_own_withdrawal *)
Lemma c01_outflow_only_own_withdrawal c e s m s' r b d :
  escrow_ok c → not_escrow_signed c m → step c e s m = (s', r) →
  (getb (bk s') (escrow c b) d < getb (bk s) (escrow c b) d)%Z →
  ∃ sender idx sq proofs from to amt v sr bh,
    m = MFinalize sender b idx sq proofs from to d amt v sr bh ∧ r = Ok RNone ∧ (0 < amt)%Z.
Proof.
  intros Hok Hsig Hst Hlt. pose proof Hst as Hst'.
  destruct (step_escrow_delta c e s m s' r b d Hok Hsig Hst) as (Heq & Hd & Hp & Hw).
  assert (Hpos : (0 < wd_out b d m r)%Z) by lia.
  destruct m; cbn in Hpos; try lia. destruct r as [r|]; [|lia].
  case_decide as Hbd; [|lia]. destruct Hbd as [-> ->].
  apply step_Ok in Hst'. cbn [handle] in Hst'. apply finalize_Some in Hst' as (rcv & _ & -> & _).
  eauto 15.
Qed.

(* ---- isolation ---- *)
(* everything recorded under one bridge id *)
Definition same_view (b : N) (s s' : l1state) : Prop :=
  configs s' !! b = configs s !! b ∧ next_seq s' !! b = next_seq s !! b ∧
  next_out s' !! b = next_out s !! b ∧ (∀ i, outputs s' !! (b, i) = outputs s !! (b, i)) ∧
  (∀ x, (b, x) ∈ proven s' ↔ (b, x) ∈ proven s) ∧ (∀ d, pairs s' !! (b, d) = pairs s !! (b, d)) ∧
  (∀ i, batches s' !! (b, i) = batches s !! (b, i)).

Lemma same_view_refl b s : same_view b s s.
Proof. repeat split; done. Qed.

(* the bridge a message is addressed to (a creation: the id it is about to assign) *)
Definition addressed (s : l1state) (m : msg) : option N :=
  match m with MCreateBridge _ _ => Some (next_bridge s) | _ => msg_bridge m end.

Lemma c01_isolation_view c e s m s' r b' :
  step c e s m = (s', r) → addressed s m ≠ Some b' → same_view b' s s'.
Proof.
  intros Hst Hb.
  destruct (step_cases c e s m) as [(s1 & r1 & Hh & Hs)|[Hh Hs]]; rewrite Hs in Hst; injection Hst as <- <-;
    [|apply same_view_refl].
  destruct (plain_msg m) eqn:Hp.
  { assert (msg_bridge m ≠ Some b') as Hb' by (destruct m; try discriminate; done).
    apply handle_plain in Hh as [(_ & _ & Hseq & Hpr & Hpa & _) Hst]; [|done].
    destruct (Hst b') as [(S1 & S2 & S3 & S4)|[? _]]; [|done].
    unfold same_view. rewrite S1, S2, Hseq, Hpr, Hpa. repeat split; done. }
  destruct m; try discriminate; cbn [handle] in Hh; cbn [addressed msg_bridge] in Hb.
  - apply create_Some in Hh as (cr & _ & _ & _ & _ & Hcf & Hseq & Hno & Hou & Hpr & Hpa & [k Hba] & _).
    unfold same_view. rewrite Hcf, Hseq, Hno, Hou, Hpr, Hpa, Hba.
    rewrite lookup_insert_ne by congruence. repeat split; try done.
    intros i. rewrite lookup_insert_ne; [done|]. intros [= ? _]. congruence.
  - apply deposit_Some in Hh as (sd & _ & _ & _ & _ & _ & _ & _ & _ & _ & Hcf & Hseq & Hno & Hou & Hpr & Hpa & Hba & _).
    unfold same_view. rewrite Hcf, Hseq, Hno, Hou, Hpr, Hpa, Hba.
    rewrite lookup_insert_ne by congruence. repeat split; try done.
    intros d'. unfold dep_pairs. case_match; [done|]. rewrite lookup_insert_ne; [done|]. intros [= ? _]. congruence.
  - apply finalize_Some in Hh as (rcv & _ & _ & _ & _ & _ & _ & _ & _ & _ & _ & _ & Hcf & Hseq & Hno & Hou & Hpr & Hpa & Hba & _).
    unfold same_view. rewrite Hcf, Hseq, Hno, Hou, Hpr, Hpa, Hba. repeat split; try done; [|set_solver].
    intros [Hx|Hx]%elem_of_union; [|done]. apply elem_of_singleton in Hx. injection Hx as ? _. congruence.
  - apply bank_send_msg_Some in Hh as (_ & _ & _ & ->). repeat split; done.
Qed.

(* the accounts whose balance a message may change *)
Definition may_touch (c : cfg) (m : msg) (a : N) : Prop :=
  match m with
  | MDeposit sender b _ _ _ _ => resolve c sender = Some a ∨ a = escrow c b
  | MFinalize _ b _ _ _ _ to _ _ _ _ _ => resolve c to = Some a ∨ a = escrow c b
  | MCreateBridge creator _ => resolve c creator = Some a ∨ a = pool c
  | MBankSend from to _ _ => a = from ∨ a = to
  | _ => False
  end.
(* ... and the only denom it may move (a creation moves the registration-fee denoms) *)
Definition may_move (m : msg) (d : bytes) : Prop :=
  match m with
  | MDeposit _ _ _ d' _ _ | MFinalize _ _ _ _ _ _ _ d' _ _ _ _ | MBankSend _ _ d' _ => d = d'
  | _ => True
  end.

Lemma c01_isolation_balances c e s m s' r a d :
  step c e s m = (s', r) → getb (bk s') a d ≠ getb (bk s) a d → may_touch c m a ∧ may_move m d.
Proof.
  intros Hst Hne.
  destruct (step_cases c e s m) as [(s1 & r1 & Hh & Hs)|[Hh Hs]]; rewrite Hs in Hst; injection Hst as <- <-; [|done].
  destruct (plain_msg m) eqn:Hp.
  { apply handle_plain in Hh as [(Hbk & _) _]; [|done]. by rewrite Hbk in Hne. }
  destruct m; try discriminate; cbn [handle] in Hh; cbn [may_touch may_move].
  - apply create_Some in Hh as (cr & Hcr & _ & Hfee & _). split; [|done].
    destruct (decide (a = cr)) as [->|Ha]; [by left|]. destruct (decide (a = pool c)) as [->|Hp']; [by right|].
    by rewrite (fee_loop_other _ _ _ _ _ Hfee) in Hne.
  - apply deposit_Some in Hh as (sd & Hsd & _ & _ & _ & _ & _ & _ & Hbk & _).
    destruct (0 <? amt)%Z; [|injection Hbk as Hbk'; rewrite <- Hbk' in Hne; done].
    apply bank_send_Some in Hbk as [_ Hbk]. rewrite Hbk in Hne. unfold at_acct in Hne.
    repeat case_decide; try lia; naive_solver.
  - apply finalize_Some in Hh as (rcv & Hr & _ & _ & _ & _ & _ & _ & _ & _ & Hbk & _).
    apply bank_send_Some in Hbk as [_ Hbk]. rewrite Hbk in Hne. unfold at_acct in Hne.
    repeat case_decide; try lia; naive_solver.
  - apply bank_send_msg_Some in Hh as (_ & _ & Hbk & _).
    apply bank_send_Some in Hbk as [_ Hbk]. rewrite Hbk in Hne. unfold at_acct in Hne.
    repeat case_decide; try lia; naive_solver.
Qed.

(* in particular the escrow of another bridge is untouched by deposits / finalizations of b unless
   it is the named recipient (a payout TO an escrow address is a plain credit) *)
Lemma c01_other_escrow_untouched c e s m s' r b b' d :
  escrow_ok c → not_escrow_signed c m → step c e s m = (s', r) → addressed s m = Some b → b' ≠ b →
  (getb (bk s) (escrow c b') d ≤ getb (bk s') (escrow c b') d)%Z.
Proof.
  intros Hok Hsig Hst Hb Hne.
  destruct (Z.le_gt_cases (getb (bk s) (escrow c b') d) (getb (bk s') (escrow c b') d)) as [|Hlt]; [done|].
  apply Z.gt_lt_iff, Z.gt_lt in Hlt.
  destruct (c01_outflow_only_own_withdrawal _ _ _ _ _ _ _ _ Hok Hsig Hst Hlt) as (? & ? & ? & ? & ? & ? & ? & ? & ? & ? & -> & _).
  cbn in Hb. congruence.
Qed.

(* ---- the harness' escrow numbering satisfies the hypothesis; non-vacuity ---- *)
Require Import Model.Sha3 Model.TraceL1.
From Coq Require Import String.

Lemma escrow_id_ok (k : l1case) : (∀ b, (1000 + b)%N ≠ k_pool k) → escrow_ok (cfg_of k).
Proof.
  intros Hp. split; cbn; unfold escrow_id; [intros; lia|apply Hp].
Qed.

Definition ex_cfg : cfg :=
  {| resolve := λ a, match a with [n] => Some n | _ => None end; gov := [100%N]; escrow := escrow_id;
     pool := 101%N; hash := sha3_256; parse := λ _, None |}.
Lemma ex_cfg_ok : escrow_ok ex_cfg.
Proof. split; cbn; unfold escrow_id; intros; lia. Qed.

Definition ex_conf : config :=
  {| c_proposer := [1%N]; c_challenger := [2%N]; c_period := 7000000000; c_interval := 1; c_start := 1;
     c_batch := {| b_submitter := [1%N]; b_chain := 1 |}; c_oracle := false; c_meta := [] |}.
Definition ex_bank : bank := {| bal := {[ (3%N, bs "uinit") := 1000%Z ]}; sup := ∅ |}.
Definition ex_env (t : Z) : env := {| now := 1704067200000000000 + t * 1000000000; height := 100 |}.
Definition ex_leaf : bytes := leaf_hash sha3_256 1 1 (bs "l2user") [4%N] (bs "uinit") 30.
Definition ex_bhash : bytes := repeat 7%N 32.
Definition ex_root : bytes := output_root sha3_256 0 ex_leaf ex_bhash.
Definition ex_claim (b : N) : msg :=
  MFinalize [5%N] b 1 1 [] (bs "l2user") [4%N] (bs "uinit") 30 [0%N] ex_leaf ex_bhash.
(* two bridges; a deposit into each; a donation to escrow 1; the bridge-1 root proposed on both
   bridges; the claim paid on bridge 1; the same claim replayed on bridge 2 (rejected) *)
Definition ex_hist : list (env * msg) :=
  [ (ex_env 0, MCreateBridge [1%N] ex_conf);
    (ex_env 0, MCreateBridge [1%N] ex_conf);
    (ex_env 0, MDeposit [3%N] 1 (bs "l2addr") (bs "uinit") 100 []);
    (ex_env 0, MDeposit [3%N] 2 (bs "l2addr") (bs "uinit") 200 []);
    (ex_env 0, MBankSend 3 1001 (bs "uinit") 7);
    (ex_env 0, MPropose [1%N] 1 1 10 ex_root);
    (ex_env 0, MPropose [1%N] 2 1 10 ex_root);
    (ex_env 8, ex_claim 1);
    (ex_env 8, ex_claim 2) ].

Example c01_example :
  Forall (λ em, not_escrow_signed ex_cfg em.2) ex_hist ∧
  (run ex_cfg (upd_bk init_state ex_bank) ex_hist).2 =
  [Ok (RId 1); Ok (RId 2); Ok (RId 1); Ok (RId 1); Ok RNone; Ok RNone; Ok RNone; Ok RNone; Err] ∧
  getb (bk (run ex_cfg (upd_bk init_state ex_bank) ex_hist).1) (escrow ex_cfg 1) (bs "uinit") = (100 + 7 - 30)%Z ∧
  getb (bk (run ex_cfg (upd_bk init_state ex_bank) ex_hist).1) (escrow ex_cfg 2) (bs "uinit") = 200%Z.
Proof.
  split.
  { repeat constructor; intros b; cbn; unfold escrow_id; intros [= E]; lia. }
  vm_compute. repeat split; reflexivity.
Qed.
