(* The machine replayed by the C12 case files (Model/TraceC12.v ev_obs) is the one the C12
   theorems are about (Model/C12Spec.v step_ev). *)
From stdpp Require Import gmap numbers list.
Require Import Model.Bytes Model.Obs Model.Bank Model.Valset Model.L2 Model.TraceL2 Model.TraceC12 Model.C12Spec.

Lemma ev_obs_state_is_step_ev (c : l2case) (cf : cfg) (s : l2state) (ev : l2ev) :
  (ev_obs c cf s ev).1 = step_ev cf s ev.
Proof.
  destruct ev as [m|pl]; cbn [ev_obs step_ev].
  - destruct (step cf s m) as [s' r]. reflexivity.
  - destruct (end_block cf s pl) as [[s' u]|]; reflexivity.
Qed.
