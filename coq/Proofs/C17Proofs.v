(* C17: the node hash does not depend on the order of its arguments (for any hash function). *)
From Coq Require Import List NArith Lia Bool.
Require Import Model.Bytes Model.Hashes Proofs.MerkleProofs.
Import ListNotations.

Lemma c17_node_commutative (H : bytes -> bytes) (a b : bytes) : node H a b = node H b a.
Proof. apply node_comm. Qed.
