(* C08, second part: no term of the solvency equation is negative (given a non-negative L2
   supply), hence every unpaid recorded withdrawal is funded.  Proof scripts. *)
From stdpp Require Import gmap numbers list.
From Coq Require Import ZArith Lia.
Require Import Model.Bytes Model.Bank Model.Hashes Model.Merkle Model.Valset Model.System.
Require Model.L1 Model.L2.
Require Import Proofs.L2Lemmas Proofs.C04Proofs Proofs.C08Proofs.

Arguments l2d : simpl never.
Arguments escrow_of : simpl never.
Arguments wleaf : simpl never.
Arguments bevents : simpl never.

Record nonneg (c : scfg) (s : sys) : Prop := {
  n_ev : ∀ ev, ev ∈ bevents c (l1 s) → (0 ≤ L1.e_amt ev < L1.two64)%Z ∧ L1.e_to ev ≠ [];
  n_w : ∀ w, w ∈ L2.wlog (l2 s) → (0 ≤ L2.w_amt w)%Z;
  n_dn : ∀ x, x ∈ donated s → (0 ≤ x.2)%Z;
}.

Lemma l1_bank_send_pos s from to d amt s' r :
  L1.bank_send_msg s from to d amt = Some (s', r) → (0 < amt)%Z.
Proof.
  unfold L1.bank_send_msg. destruct (valid_denom d && (0 <? amt)%Z) eqn:E; [|discriminate].
  intros _. apply andb_true_iff in E as [_ E]. by apply Z.ltb_lt.
Qed.

(* how one step changes the three logs the equation sums over *)
Lemma step_logs c s m :
  let s' := (sys_step c s m).1 in
  (bevents c (l1 s') = bevents c (l1 s) ∨
   ∃ ev, bevents c (l1 s') = ev :: bevents c (l1 s) ∧ (0 ≤ L1.e_amt ev < L1.two64)%Z ∧ L1.e_to ev ≠ []) ∧
  (L2.wlog (l2 s') = L2.wlog (l2 s) ∨
   ∃ w, L2.wlog (l2 s') = w :: L2.wlog (l2 s) ∧
        ((0 < L2.w_amt w)%Z ∨ ∃ ev, ev ∈ bevents c (l1 s) ∧ L2.w_amt w = L1.e_amt ev)) ∧
  (donated s' = donated s ∨
   ∃ x, donated s' = x :: donated s ∧ ((0 < x.2)%Z ∨ ∃ w, w ∈ L2.wlog (l2 s) ∧ x.2 = L2.w_amt w)).
Proof.
  cbn zeta.
  destruct m as [e sender to d amt data|e from to d amt|m2|k ex h hook|e p idx l2b lo hi v bh|e ch idx|e sender idx m lo hi v bh];
    cbn [sys_step].
  - (* deposit *)
    case_bool_decide; [cbn; auto|]. unfold lift1, L1.step. cbn [L1.handle].
    destruct (L1.deposit (c1 c) e (l1 s) sender (bid c) to d amt data) as [[s1 r]|] eqn:Hd; [|cbn; auto].
    cbn [fst set_l1 l1 l2 donated].
    pose proof (l1_deposit_Some _ _ _ _ _ _ _ _ _ _ _ Hd) as (_ & Hto & _ & Hamt & _ & _).
    apply l1_deposit_effect in Hd as (sd & _ & _ & _ & Hel & _ & _).
    split; [right|auto]. eexists. split; [unfold bevents; rewrite Hel; by rewrite filter_cons_True|]. cbn. done.
  - (* bank send *)
    case_bool_decide; [cbn; auto|]. unfold lift1, L1.step. cbn [L1.handle].
    destruct (L1.bank_send_msg (l1 s) from to d amt) as [[s1 r]|] eqn:Hd; [|cbn; auto].
    pose proof (l1_bank_send_pos _ _ _ _ _ _ _ Hd) as Hpos.
    apply l1_bank_send_effect in Hd as (_ & Hel & _ & _).
    case_bool_decide; cbn [fst set_l1 l1 l2 donated]; (split; [left; by apply bevents_same|split; [auto|]]).
    + right. eexists. split; [done|]. left. done.
    + auto.
  - (* L2 message *)
    destruct (l2_plain m2) eqn:Hp; [|cbn; auto]. unfold lift2, L2.step.
    destruct (L2.handle (c2 c) (l2 s) m2) as [[s2 r]|] eqn:Hh; [|cbn; auto]. cbn [fst set_l2 l1 l2 donated].
    split; [auto|]. split; [|auto].
    destruct m2 as [f|w1 w2 w3 w4|b1 b2 b3 b4|i1 i2|u1 u2|v1 v2 v3|r1 r2|p1 p2 p3|sn inner];
      try discriminate; cbn [L2.handle] in Hh.
    + apply withdraw_Some in Hh as (?&?&?&?&_&_&_&Hamt&_&_&_&_&->). right. eexists. split; [done|]. left. done.
    + apply bank_send_msg_Some in Hh as (? & -> & _). auto.
    + apply set_bridge_info_Some in Hh as (_&_&_&->&_). auto.
    + apply update_params_Some in Hh as (_&_&->&_). auto.
    + apply add_val_Some in Hh as (_&?&?&_&_&->&_). auto.
    + apply remove_val_Some in Hh as (_&?&?&_&_&->&_). auto.
    + apply spend_fee_pool_Some in Hh as (_&?&->&_). auto.
  - (* relay *)
    destruct (find_event c (l1 s) k) as [ev|] eqn:Hf; [|cbn; auto].
    apply find_elem in Hf as [Hin _]. unfold lift2, L2.step. cbn [L2.handle].
    destruct (L2.finalize_deposit (c2 c) (l2 s) (relay_msg ev ex h hook)) as [[s2 r]|] eqn:Hd; [|cbn; auto].
    cbn [fst set_l2 l1 l2 donated]. split; [auto|]. split; [|auto].
    apply finalize_deposit_effect in Hd as [(-> & ->)|(_ & _ & _ & [(Hw & _)|(base & _ & _ & Hw & _)])]; auto.
    right. eexists. split; [exact Hw|]. right. exists ev. done.
  - (* propose *)
    unfold lift1, L1.step. cbn [L1.handle].
    destruct (L1.propose _ _ _ _ _ _ _ _) as [[s1 r]|] eqn:Hd; [|cbn; auto].
    apply l1_propose_effect in Hd as (_ & Hel & _ & _). cbn [fst set_l1 l1 l2 donated].
    split; [left; by apply bevents_same|auto].
  - (* delete *)
    unfold lift1, L1.step. cbn [L1.handle].
    destruct (L1.delete_output _ _ _ _ _ _) as [[s1 r]|] eqn:Hd; [|cbn; auto].
    apply l1_delete_effect in Hd as (_ & Hel & _ & _). cbn [fst set_l1 l1 l2 donated].
    split; [left; by apply bevents_same|auto].
  - (* claim *)
    destruct (find_w (l2 s) m) as [w|] eqn:Hf; [|cbn; auto].
    apply find_elem in Hf as [Hin _]. unfold lift1, L1.step, claim_of. cbn [L1.handle].
    destruct (L1.finalize _ _ _ _ _ _ _ _ _ _ _ _ _ _ _) as [[s1 r]|] eqn:Hd; [|cbn; auto].
    apply l1_finalize_effect in Hd as (rcv & _ & _ & _ & Hel & _ & _).
    cbn [fst set_l1 l1 l2 donated]. split; [left; by apply bevents_same|]. split; [auto|].
    case_bool_decide; [|auto]. right. eexists. split; [done|]. right. exists w. done.
Qed.

Lemma step_nonneg c s m : nonneg c s → nonneg c (sys_step c s m).1.
Proof.
  intros [N1 N2 N3]. destruct (step_logs c s m) as (Hb & Hw & Hd). split.
  - destruct Hb as [->|(ev & -> & ? & ?)]; [done|]. intros x Hx. apply elem_of_cons in Hx as [->|Hx]; auto.
  - destruct Hw as [->|(w & -> & Hc)]; [done|]. intros x Hx. apply elem_of_cons in Hx as [->|Hx]; auto.
    destruct Hc as [?|(ev & Hev & ->)]; [lia|]. by apply N1.
  - destruct Hd as [->|(x & -> & Hc)]; [done|]. intros y Hy. apply elem_of_cons in Hy as [->|Hy]; auto.
    destruct Hc as [?|(w & Hw' & ->)]; [lia|]. by apply N2.
Qed.

Lemma run_nonneg c h : ∀ s, nonneg c s → nonneg c (sys_run c s h).
Proof. induction h as [|m h IH]; intros s N; cbn; [done|]. apply IH. by apply step_nonneg. Qed.

Lemma fresh_nonneg c s : fresh c s → nonneg c s.
Proof.
  intros (F1 & _ & _ & _ & _ & F6 & _ & _ & _ & _ & _ & F12). split.
  - unfold bevents. rewrite F1. intros ev Hev. by apply elem_of_nil in Hev.
  - rewrite F6. intros w Hw. by apply elem_of_nil in Hw.
  - rewrite F12. intros x Hx. by apply elem_of_nil in Hx.
Qed.

(* after any history from fresh states: every recorded, unpaid withdrawal of the L2 denom
   derived from d is funded by the escrow's balance of d, provided the L2 supply of that denom
   is not negative (the C09 supply ledger), or a denom collision is exhibited *)
Lemma c08_unpaid_funded c s0 h d w :
  fresh c s0 →
  let s := sys_run c s0 h in
  (0 ≤ gets (L2.bk (l2 s)) (l2d c d))%Z →
  w ∈ L2.wlog (l2 s) → L2.w_seq w ∉ paid s → L2.w_denom w = l2d c d →
  (L2.w_amt w ≤ getb (L1.bk (l1 s)) (escrow_of c) d)%Z ∨ denom_collision c.
Proof.
  intros F s Hsup Hin Hnp Hd.
  destruct (c08_solvency_invariant c s0 h d F) as [Hs|Hc]; [left|by right].
  destruct (run_nonneg c h s0 (fresh_nonneg c s0 F)) as [N1 N2 N3].
  eapply c08_drain_partial; eauto. intros ev Hev. by apply N1.
Qed.
