(* C08, second part: no term of the solvency equation is negative (given a non-negative L2
   supply), hence every unpaid recorded withdrawal is funded.  Proof scripts. *)
From stdpp Require Import gmap numbers list.
From Coq Require Import ZArith Lia.
Require Import Model.Bytes Model.Bank Model.Hashes Model.Merkle Model.Valset Model.System.
Require Model.L1 Model.L2.
Require Import Proofs.L2Lemmas Proofs.C04Proofs Proofs.C08Proofs.

Arguments l2d : simpl never.
Arguments escrow_of : simpl never.
Arguments wleaf : simpl never.
Arguments bevents : simpl never.

Record nonneg (c : scfg) (s : sys) : Prop := {
  n_ev : ∀ ev, ev ∈ bevents c (l1 s) → (0 ≤ L1.e_amt ev < L1.two64)%Z ∧ L1.e_to ev ≠ [];
  n_dn : ∀ x, x ∈ donated s → (0 ≤ x.2)%Z;
}.

Lemma l1_bank_send_pos s from to d amt s' r :
  L1.bank_send_msg s from to d amt = Some (s', r) → (0 < amt)%Z.
Proof.
  unfold L1.bank_send_msg. destruct (valid_denom d && (0 <? amt)%Z) eqn:E; [|discriminate].
  intros _. apply andb_true_iff in E as [_ E]. by apply Z.ltb_lt.
Qed.

(* how one step changes the three logs the equation sums over *)
Lemma step_logs c s m :
  let s' := (sys_step c s m).1 in
  (bevents c (l1 s') = bevents c (l1 s) ∨
   ∃ ev, bevents c (l1 s') = ev :: bevents c (l1 s) ∧ (0 ≤ L1.e_amt ev < L1.two64)%Z ∧ L1.e_to ev ≠ []) ∧
  (donated s' = donated s ∨
   ∃ x, donated s' = x :: donated s ∧ ((0 < x.2)%Z ∨ ∃ w, w ∈ L2.wlog (l2 s) ∧ x.2 = L2.w_amt w)).
Proof.
  cbn zeta.
  destruct m as [e sender to d amt data|e from to d amt|m2|k ex h hook|e p idx l2b lo hi v bh|e ch idx|e sender idx m lo hi v bh|e m1|e mo];
    cbn [sys_step].
  - (* deposit *)
    case_bool_decide; [cbn; auto|]. unfold lift1, L1.step. cbn [L1.handle].
    destruct (L1.deposit (c1 c) e (l1 s) sender (bid c) to d amt data) as [[s1 r]|] eqn:Hd; [|cbn; auto].
    cbn [fst set_l1 l1 l2 donated].
    pose proof (l1_deposit_Some _ _ _ _ _ _ _ _ _ _ _ Hd) as (_ & Hto & _ & Hamt & _ & _).
    apply l1_deposit_effect in Hd as (sd & _ & _ & _ & Hel & _ & _).
    split; [right|auto]. eexists. split; [unfold bevents; rewrite Hel; by rewrite filter_cons_True|]. cbn. done.
  - (* bank send *)
    case_bool_decide; [cbn; auto|]. unfold lift1, L1.step. cbn [L1.handle].
    destruct (L1.bank_send_msg (l1 s) from to d amt) as [[s1 r]|] eqn:Hd; [|cbn; auto].
    pose proof (l1_bank_send_pos _ _ _ _ _ _ _ Hd) as Hpos.
    apply l1_bank_send_effect in Hd as (_ & Hel & _ & _).
    case_bool_decide; cbn [fst set_l1 l1 l2 donated]; (split; [left; by apply bevents_same|]).
    + right. eexists. split; [done|]. left. done.
    + auto.
  - (* L2 message *)
    destruct (l2_adm c (l1 s) m2) eqn:Hp; [|cbn; auto]. unfold lift2.
    destruct (L2.step (c2 c) (l2 s) m2) as [s2 [r|]]; cbn; auto.
  - (* relay *)
    destruct (find_event c (l1 s) k) as [ev|] eqn:Hf; [|cbn; auto]. unfold lift2.
    destruct (L2.step (c2 c) (l2 s) _) as [s2 [r|]]; cbn; auto.
  - (* propose *)
    unfold lift1, L1.step. cbn [L1.handle].
    destruct (L1.propose _ _ _ _ _ _ _ _) as [[s1 r]|] eqn:Hd; [|cbn; auto].
    apply l1_propose_effect in Hd as (_ & Hel & _ & _). cbn [fst set_l1 l1 l2 donated].
    split; [left; by apply bevents_same|auto].
  - (* delete *)
    unfold lift1, L1.step. cbn [L1.handle].
    destruct (L1.delete_output _ _ _ _ _ _) as [[s1 r]|] eqn:Hd; [|cbn; auto].
    apply l1_delete_effect in Hd as (_ & Hel & _ & _). cbn [fst set_l1 l1 l2 donated].
    split; [left; by apply bevents_same|auto].
  - (* claim *)
    destruct (find_w (l2 s) m) as [w|] eqn:Hf; [|cbn; auto].
    apply find_elem in Hf as [Hin _]. unfold lift1, L1.step, claim_of. cbn [L1.handle].
    destruct (L1.finalize _ _ _ _ _ _ _ _ _ _ _ _ _ _ _) as [[s1 r]|] eqn:Hd; [|cbn; auto].
    apply l1_finalize_effect in Hd as (rcv & _ & _ & _ & Hel & _ & _).
    cbn [fst set_l1 l1 l2 donated]. split; [left; by apply bevents_same|].
    case_bool_decide; [|auto]. right. eexists. split; [done|]. right. exists w. done.
  - (* role / config / environment message *)
    destruct (l1_admin m1) eqn:Ha; [|cbn; auto]. unfold lift1, L1.step.
    destruct (L1.handle (c1 c) e (l1 s) m1) as [[s1 r]|] eqn:Hh; [|cbn; auto].
    apply (l1_admin_frame _ _ _ _ _ _ Ha) in Hh as (_ & Hel & _ & _). cbn [fst set_l1 l1 l2 donated].
    split; [left; by apply bevents_same|auto].
  - (* another bridge / creation *)
    pose proof (other_step_spec c s e mo) as Hsp; cbn zeta in Hsp; cbn [sys_step] in Hsp; destruct Hsp as (_ & _ & [->|(s1 & rr & Hok & Hh & Hl1 & Hdn)]); [auto|].
    destruct (other_handle_spec c e (l1 s) mo s1 rr Hok Hh) as (Hel & _ & _ & _ & Hpos).
    rewrite Hl1, Hdn. split; [by left|]. destruct (other_donation c mo) as [x|]; [|by left].
    right. exists x. split; [done|]. left. by apply Hpos.
Qed.

Definition l2ok (c : scfg) (s : sys) : Prop := C04Proofs.inv (c2 c) (l2 s).

Lemma l2ok_amt c s w : l2ok c s → w ∈ L2.wlog (l2 s) → (0 ≤ L2.w_amt w)%Z.
Proof.
  intros (_ & _ & Hall) Hw. rewrite List.Forall_forall in Hall.
  destruct (Hall w) as [_ _ _ _ _ Ha _ _]; [by apply elem_of_list_In|lia].
Qed.

Lemma step_nonneg c s m : nonneg c s → l2ok c s → nonneg c (sys_step c s m).1.
Proof.
  intros [N1 N3] Hok. destruct (step_logs c s m) as (Hb & Hd). split.
  - destruct Hb as [->|(ev & -> & ? & ?)]; [done|]. intros x Hx. apply elem_of_cons in Hx as [->|Hx]; auto.
  - destruct Hd as [->|(x & -> & Hc)]; [done|]. intros y Hy. apply elem_of_cons in Hy as [->|Hy]; auto.
    destruct Hc as [?|(w & Hw' & ->)]; [lia|]. eapply l2ok_amt; eauto.
Qed.

Lemma adm_faithful c s m : nonneg c s → l2_adm c (l1 s) m = true → faithful m.
Proof.
  intros [N1 _].
  induction m as [f|w1 w2 w3 w4|b1 b2 b3 b4|i1 i2|u1 u2|v1 v2 v3|r1 r2|p1 p2 p3|sender inner IH] using msg_ind';
    intros Ha; try exact I.
  - destruct (adm_deposit_relay c (l1 s) f Ha) as (ev & Hin & ->). cbn.
    destruct (N1 ev Hin) as [[_ Hlt] Hto]. split; [done|]. by rewrite two64_same.
  - apply faithful_exec. rewrite l2_adm_exec in Ha. rewrite forallb_forall in Ha.
    rewrite List.Forall_forall in IH. apply List.Forall_forall. intros x Hx. apply IH; [done|]. by apply Ha.
Qed.

Lemma step_l2ok c s m :
  L2.resolve (c2 c) [] = None → nonneg c s → l2ok c s → l2ok c (sys_step c s m).1.
Proof.
  intros Hnil N Hok. pose proof N as [N1 _]. unfold l2ok in *.
  destruct m as [e sender to d amt data|e from to d amt|m2|k ex h hook|e p idx l2b lo hi v bh|e ch idx|e sender idx m lo hi v bh|e m1|e mo];
    cbn [sys_step].
  - case_bool_decide; [done|]. unfold lift1. destruct (L1.step _ _ _ _) as [s1 [r|]]; done.
  - case_bool_decide; [done|]. unfold lift1. destruct (L1.step _ _ _ _) as [s1 [r|]]; [|done].
    case_bool_decide; done.
  - destruct (l2_adm c (l1 s) m2) eqn:Hp; [|done]. unfold lift2, L2.step.
    destruct (L2.handle (c2 c) (l2 s) m2) as [[s2 r]|] eqn:Hh; [|done]. cbn.
    eapply handle_inv; eauto. eapply adm_faithful; eauto.
  - destruct (find_event c (l1 s) k) as [ev|] eqn:Hf; [|done].
    apply find_elem in Hf as [Hin _]. unfold lift2, L2.step.
    destruct (L2.handle (c2 c) (l2 s) _) as [[s2 r]|] eqn:Hh; [|done]. cbn.
    eapply handle_inv; eauto. cbn. destruct (N1 ev Hin) as [[_ Hlt] Hto]. split; [done|].
    by rewrite two64_same.
  - unfold lift1. destruct (L1.step _ _ _ _) as [s1 [r|]]; done.
  - unfold lift1. destruct (L1.step _ _ _ _) as [s1 [r|]]; done.
  - destruct (find_w (l2 s) m) as [w|]; [|done]. unfold lift1. destruct (L1.step _ _ _ _) as [s1 [r|]]; done.
  - destruct (l1_admin m1); [|done]. unfold lift1. destruct (L1.step _ _ _ _) as [s1 [r|]]; done.
  - pose proof (other_step_spec c s e mo) as Hsp; cbn zeta in Hsp; cbn [sys_step] in Hsp; destruct Hsp as (-> & _). done.
Qed.

Lemma run_ok c h : ∀ s, L2.resolve (c2 c) [] = None → nonneg c s → l2ok c s →
  nonneg c (sys_run c s h) ∧ l2ok c (sys_run c s h).
Proof.
  induction h as [|m h IH]; intros s Hnil N Hok; cbn; [done|].
  apply IH; [done|by apply step_nonneg|by apply step_l2ok].
Qed.

Lemma fresh_nonneg c s : fresh c s → nonneg c s.
Proof.
  intros (F1 & _ & _ & _ & _ & F6 & _ & _ & _ & _ & _ & F12). split.
  - unfold bevents. rewrite F1. intros ev Hev. by apply elem_of_nil in Hev.
  - rewrite F12. intros x Hx. by apply elem_of_nil in Hx.
Qed.

Lemma fresh_l2ok c s : fresh c s → l2ok c s.
Proof.
  intros (_ & _ & _ & _ & _ & F6 & F7 & _ & F9 & _). unfold l2ok, C04Proofs.inv.
  rewrite F9, F6. split; [lia|]. split; [|constructor]. intros d b. rewrite F7. by rewrite lookup_empty.
Qed.

(* ---- the L2 bank stays consistent, hence the L2 supply is never negative ---- *)
Require Proofs.BankNonneg Proofs.BankTotal.

Lemma bank_sane_iff b : bank_sane b ↔ BankNonneg.bank_nonneg b ∧ BankTotal.bank_ok b.
Proof. reflexivity. Qed.

Lemma step_bank_sane c s m : bank_sane (L2.bk (l2 s)) → bank_sane (L2.bk (l2 (sys_step c s m).1)).
Proof.
  intros Hs.
  assert (HL2 : ∀ m2 s2 r, L2.handle (c2 c) (l2 s) m2 = Some (s2, r) → bank_sane (L2.bk s2)).
  { intros m2 s2 r Hh. apply bank_sane_iff in Hs as [Hn Hk]. apply bank_sane_iff. split.
    - eapply BankNonneg.handle_nonneg; eauto.
    - eapply BankTotal.handle_ok; eauto. }
  destruct m as [e sender to d amt data|e from to d amt|m2|k ex h hook|e p idx l2b lo hi v bh|e ch idx|e sender idx m lo hi v bh|e m1|e mo];
    cbn [sys_step].
  - case_bool_decide; [done|]. unfold lift1. destruct (L1.step _ _ _ _) as [s1 [r|]]; done.
  - case_bool_decide; [done|]. unfold lift1. destruct (L1.step _ _ _ _) as [s1 [r|]]; [|done].
    case_bool_decide; done.
  - destruct (l2_adm c (l1 s) m2); [|done]. unfold lift2, L2.step.
    destruct (L2.handle (c2 c) (l2 s) m2) as [[s2 r]|] eqn:Hh; [|done]. cbn. eapply HL2; eauto.
  - destruct (find_event c (l1 s) k) as [ev|]; [|done]. unfold lift2, L2.step.
    destruct (L2.handle (c2 c) (l2 s) _) as [[s2 r]|] eqn:Hh; [|done]. cbn. eapply HL2; eauto.
  - unfold lift1. destruct (L1.step _ _ _ _) as [s1 [r|]]; done.
  - unfold lift1. destruct (L1.step _ _ _ _) as [s1 [r|]]; done.
  - destruct (find_w (l2 s) m) as [w|]; [|done]. unfold lift1. destruct (L1.step _ _ _ _) as [s1 [r|]]; done.
  - destruct (l1_admin m1); [|done]. unfold lift1. destruct (L1.step _ _ _ _) as [s1 [r|]]; done.
  - pose proof (other_step_spec c s e mo) as Hsp; cbn zeta in Hsp; cbn [sys_step] in Hsp; destruct Hsp as (-> & _). done.
Qed.

Lemma run_bank_sane c h : ∀ s, bank_sane (L2.bk (l2 s)) → bank_sane (L2.bk (l2 (sys_run c s h))).
Proof. induction h as [|m h IH]; intros s Hs; cbn; [done|]. apply IH. by apply step_bank_sane. Qed.

Lemma supply_nonneg_run c s0 h d : genesis c s0 → (0 ≤ gets (L2.bk (l2 (sys_run c s0 h))) d)%Z.
Proof.
  intros [_ Hs]. apply (run_bank_sane c h) in Hs. apply bank_sane_iff in Hs as [Hn Hk].
  by apply BankTotal.supply_nonneg.
Qed.

(* after any history from fresh states: every recorded, unpaid withdrawal of the L2 denom
   derived from d is funded by the escrow's balance of d, provided the L2 supply of that denom
   is not negative (the C09 supply ledger), or a denom collision is exhibited *)
Lemma c08_unpaid_funded c s0 h d w :
  fresh c s0 → L2.resolve (c2 c) [] = None →
  let s := sys_run c s0 h in
  (0 ≤ gets (L2.bk (l2 s)) (l2d c d))%Z →
  w ∈ L2.wlog (l2 s) → L2.w_seq w ∉ paid s → L2.w_denom w = l2d c d →
  (L2.w_amt w ≤ getb (L1.bk (l1 s)) (escrow_of c) d)%Z ∨ denom_collision c.
Proof.
  intros F Hnil s Hsup Hin Hnp Hd.
  destruct (c08_solvency_invariant c s0 h d F) as [Hs|Hc]; [left|by right].
  destruct (run_ok c h s0 Hnil (fresh_nonneg c s0 F) (fresh_l2ok c s0 F)) as [[N1 N3] Hok].
  eapply c08_drain_partial; eauto.
  - intros ev Hev. by apply N1.
  - intros w' Hw'. eapply l2ok_amt; eauto.
Qed.

(* ------------------------------------------------------------------------------------ *)
(* every unpaid claim covered by an honest final output is ACCEPTED                        *)
(* ------------------------------------------------------------------------------------ *)
Lemma pos_nth (l : list L2.wrec) m w d :
  w ∈ l → L2.w_seq w = m → (∀ x, x ∈ l → L2.w_seq x = m → x = w) →
  nth (pos_of m l) l d = w ∧ (pos_of m l < length l)%nat.
Proof.
  induction l as [|a l IH]; intros Hin Hm Hu; [by apply elem_of_nil in Hin|]. cbn [pos_of].
  destruct (L2.w_seq a =? m)%N eqn:E.
  - apply N.eqb_eq in E. rewrite (Hu a ltac:(left) E). cbn. split; [done|lia].
  - apply N.eqb_neq in E. apply elem_of_cons in Hin as [->|Hin]; [done|].
    destruct IH as [IH1 IH2]; auto. { intros x Hx. apply Hu. by right. } cbn. split; [done|lia].
Qed.

Lemma c08_claim_accepted c s e sender idx m lo hi v bh w x o rcv :
  (∀ y, length (L1.hash (c1 c) y) = 32%nat) →
  C08Proofs.inv c s → l2ok c s →
  find_w (l2 s) m = Some w → (lo < m ≤ hi)%N →
  (0 < L2.w_amt w)%Z → L1.resolve (c1 c) (L2.w_to w) = Some rcv → is_Some (L1.resolve (c1 c) sender) →
  (1 ≤ bid c)%N → (1 ≤ idx)%N →
  L1.configs (l1 s) !! bid c = Some x → L1.outputs (l1 s) !! (bid c, idx) = Some o →
  L1.o_root o = honest_root c (l2 s) lo hi v bh → L1.is_final x e o = true → length bh = 32%nat →
  (bid c, wleaf c w) ∉ L1.proven (l1 s) →
  (L2.w_amt w ≤ getb (L1.bk (l1 s)) (escrow_of c) (L2.w_base w))%Z →
  (sys_step c s (SClaim e sender idx m lo hi v bh)).2 = true.
Proof.
  intros Hlen I Hok Hf Hrange Hpos Hrcv Hsender Hb Hidx Hcfg Hout Hroot Hfinal Hbh Hnew Hfund.
  pose proof Hf as Hf'. apply find_elem in Hf' as [Hin Hm]. apply N.eqb_eq in Hm.
  destruct Hok as (_ & _ & Hall). rewrite List.Forall_forall in Hall.
  assert (Hfields : wrec_fields (c2 c) (l2 s) w) by (apply Hall; by apply elem_of_list_In).
  set (evs := events_between (l2 s) lo hi).
  assert (Hev : w ∈ evs).
  { unfold evs, events_between. apply elem_of_list_filter. split; [lia|]. apply elem_of_list_In. apply -> in_rev. by apply elem_of_list_In. }
  assert (Hu : ∀ y, y ∈ evs → L2.w_seq y = m → y = w).
  { intros y Hy Hym. unfold evs, events_between in Hy. apply elem_of_list_filter in Hy as [_ Hy].
    apply elem_of_list_In in Hy. apply in_rev in Hy. apply elem_of_list_In in Hy. eapply (nodup_key_inj L2.w_seq); eauto; [apply (i_w_seq _ _ I)|congruence]. }
  destruct (pos_nth evs m w w Hev Hm Hu) as [Hnth Hlt].
  set (ls := map (wleaf c) evs).
  assert (Hlen_ls : length ls = length evs) by apply map_length.
  destruct (c04_claimable (c1 c) e (l1 s) (c2 c) (l2 s) w sender (bid c) idx x o rcv ls (pos_of m evs) v bh)
    as (s1 & Hstep & _); auto.
  - unfold ls. apply List.Forall_forall. intros y Hy. apply in_map_iff in Hy as (z & <- & _). apply Hlen.
  - lia.
  - rewrite (nth_indep ls [] (wleaf c w)) by lia. unfold ls. rewrite map_nth. by rewrite Hnth.
  - cbn [sys_step]. rewrite Hf. unfold lift1, claim_of. fold evs. fold ls. rewrite Hm.
    unfold claim_msg in Hstep. rewrite <- Hm in Hstep at 1.
    change (L1.step (c1 c) e (l1 s)
              (L1.MFinalize sender (bid c) idx (L2.w_seq w) (prove (L1.hash (c1 c)) ls (pos_of m evs))
                 (L2.w_from w) (L2.w_to w) (L2.w_base w) (L2.w_amt w) [v] (build (L1.hash (c1 c)) ls) bh))
      with (L1.step (c1 c) e (l1 s)
              (L1.MFinalize sender (bid c) idx (L2.w_seq w) (prove (L1.hash (c1 c)) ls (pos_of m evs))
                 (L2.w_from w) (L2.w_to w) (L2.w_base w) (L2.w_amt w) [v] (build (L1.hash (c1 c)) ls) bh)) in Hstep.
    rewrite Hm in Hstep. rewrite Hstep. done.
Qed.

(* From fresh states: an unpaid recorded withdrawal with positive amount and an L1-valid
   recipient, covered by an honest final output, whose leaf is not marked claimed, is accepted
   when claimed (given a non-negative L2 supply), or a denom collision is exhibited. *)
Lemma c08_drain_claim c s0 h e sender idx m lo hi v bh w x o rcv :
  fresh c s0 → L2.resolve (c2 c) [] = None → (∀ y, length (L1.hash (c1 c) y) = 32%nat) →
  let s := sys_run c s0 h in
  (0 ≤ gets (L2.bk (l2 s)) (L2.w_denom w))%Z →
  find_w (l2 s) m = Some w → m ∉ paid s → (lo < m ≤ hi)%N →
  (0 < L2.w_amt w)%Z → L1.resolve (c1 c) (L2.w_to w) = Some rcv → is_Some (L1.resolve (c1 c) sender) →
  (1 ≤ bid c)%N → (1 ≤ idx)%N →
  L1.configs (l1 s) !! bid c = Some x → L1.outputs (l1 s) !! (bid c, idx) = Some o →
  L1.o_root o = honest_root c (l2 s) lo hi v bh → L1.is_final x e o = true → length bh = 32%nat →
  (bid c, wleaf c w) ∉ L1.proven (l1 s) →
  (sys_step c s (SClaim e sender idx m lo hi v bh)).2 = true ∨ denom_collision c.
Proof.
  intros F Hnil Hlen s Hsup Hf Hnp Hrange Hpos Hrcv Hsender Hb Hidx Hcfg Hout Hroot Hfinal Hbh Hnew.
  pose proof (run_inv c h s0 (fresh_inv c s0 F)) as I. fold s in I.
  destruct (run_ok c h s0 Hnil (fresh_nonneg c s0 F) (fresh_l2ok c s0 F)) as [_ Hok]. fold s in Hok.
  pose proof Hf as Hf'. apply find_elem in Hf' as [Hin Hm]. apply N.eqb_eq in Hm.
  destruct (i_w_lt _ _ I w Hin) as [_ Hpw]. pose proof (i_pairs _ _ I _ _ Hpw) as Hwd.
  assert (Hfund : (L2.w_amt w ≤ getb (L1.bk (l1 s)) (escrow_of c) (L2.w_base w))%Z ∨ denom_collision c).
  { apply (c08_unpaid_funded c s0 h (L2.w_base w) w F Hnil); fold s.
    - by rewrite <- Hwd.
    - done.
    - congruence.
    - done. }
  destruct Hfund as [Hfund|Hc]; [left|by right].
  eapply c08_claim_accepted; eauto.
Qed.

(* non-vacuity: a concrete system history (deposit, relay, L2 withdrawal, a second deposit that
   is refunded, honest proposal) after which both recorded withdrawals are claimed; the terms of
   the equation are computed at the end *)
Module C08Run.
  Import Coq.Strings.String. Local Open Scope string_scope.
  Definition H32 (x : bytes) : bytes := firstn_pad 32 x.
  Definition tbl1 (s : bytes) : option N :=
    if bytes_eqb s (bs "l1user") then Some 1%N else if bytes_eqb s (bs "prop") then Some 2%N else None.
  Definition tbl2 (s : bytes) : option N :=
    if bytes_eqb s (bs "exec") then Some 1%N else if bytes_eqb s (bs "alice") then Some 2%N else None.
  Definition c : scfg :=
    {| c1 := {| L1.resolve := tbl1; L1.gov := bs "gov"; L1.escrow := λ b, (1000 + b)%N; L1.pool := 50;
                L1.hash := H32; L1.parse := λ _, None |};
       c2 := {| L2.resolve := tbl2; L2.blocked := λ _, false; L2.authority := bs "auth"; L2.modacc := 100;
                L2.feecol := 101 |};
       bid := 1 |}.
  Definition x1 : L1.config :=
    {| L1.c_proposer := bs "prop"; L1.c_challenger := bs "prop"; L1.c_period := 7000000000; L1.c_interval := 1;
       L1.c_start := 1; L1.c_batch := {| L1.b_submitter := bs "prop"; L1.b_chain := 1 |}; L1.c_oracle := false;
       L1.c_meta := [] |}.
  Definition s0 : sys :=
    {| l1 := {| L1.bk := {| bal := {[ (1%N, bs "uinit") := 500%Z ]}; sup := ∅ |};
                L1.next_bridge := 2; L1.configs := {[ 1%N := x1 ]}; L1.next_seq := ∅; L1.next_out := ∅;
                L1.outputs := ∅; L1.proven := ∅; L1.pairs := ∅; L1.batches := ∅; L1.regfee := [];
                L1.chans := ∅; L1.admins := ∅; L1.elog := []; L1.plog := [] |};
       l2 := {| L2.bk := bank_empty; L2.next_l1 := 1; L2.next_l2 := 1; L2.pairs := ∅;
                L2.prm := {| L2.p_admin := bs "exec"; L2.p_execs := [bs "exec"]; L2.p_maxv := 1; L2.p_hist := 1;
                             L2.p_mingas := []; L2.p_whitelist := []; L2.p_hookgas := 0 |};
                L2.info := None; L2.vs := vempty; L2.seqs := ∅; L2.wlog := []; L2.dlog := [] |};
       paid := []; donated := [] |}.
  Example s0_fresh : fresh c s0.
  Proof.
    unfold fresh. repeat split; try reflexivity.
    - intros d. unfold getb, escrow_of. cbn. rewrite lookup_singleton_ne; [done|]. intros [= ? ?].
  Qed.
  Definition e (t : Z) : L1.env := {| L1.now := t; L1.height := 5 |}.
  Definition uinit2 : bytes := l2d c (bs "uinit").
  Definition bh : bytes := repeat 7%N 32.
  Definition h : list smsg :=
    [ SDeposit (e 1000000000) (bs "l1user") (bs "alice") (bs "uinit") 100 [];
      SDeposit (e 1000000000) (bs "l1user") (bs "nobody") (bs "uinit") 30 [];
      SSend1 (e 1000000000) 1 1001 (bs "uinit") 5;
      SRelay 1 (bs "exec") 7 L2.HNone;
      SRelay 1 (bs "exec") 7 L2.HNone;
      SL2 (L2.MWithdraw (bs "alice") (bs "l1user") uinit2 40);
      SRelay 2 (bs "exec") 8 L2.HNone;
      SPropose (e 2000000000) (bs "prop") 1 10 0 2 0 bh;
      SClaim (e 9000000000) (bs "prop") 1 2 0 2 0 bh ].
  (* escrow 135 - 30 paid = 105 = supply 60 + unrelayed 0 + unpaid 40 + donations 5 *)
  Example run_numbers :
    let s := sys_run c s0 h in
    (getb (L1.bk (l1 s)) (escrow_of c) (bs "uinit"), gets (L2.bk (l2 s)) uinit2,
     pending_dep c s (bs "uinit"), pending_wd s uinit2, donations s (bs "uinit"), paid s)
    = (105, 60, 0, 40, 5, [2%N])%Z.
  Proof. vm_compute. reflexivity. Qed.
  Example last_claim_accepted :
    (sys_step c (sys_run c s0 h) (SClaim (e 9000000000) (bs "prop") 1 1 0 2 0 bh)).2 = true ∧
    (sys_step c (sys_run c s0 h) (SClaim (e 9000000000) (bs "prop") 1 2 0 2 0 bh)).2 = false.
  Proof. vm_compute. split; reflexivity. Qed.
End C08Run.

(* ------------------------------------------------------------------------------------ *)
(* unpaid => leaf not marked claimed, up to a hash collision (uses the C03 leaf binding)     *)
(* ------------------------------------------------------------------------------------ *)
Require Import Proofs.MerkleProofs Proofs.C03Binding.

(* every claimed leaf of this bridge is the leaf of a recorded withdrawal whose sequence is paid *)
Definition proven_paid (c : scfg) (s : sys) : Prop :=
  ∀ x, (bid c, x) ∈ L1.proven (l1 s) → ∃ w, w ∈ L2.wlog (l2 s) ∧ L2.w_seq w ∈ paid s ∧ x = wleaf c w.

Lemma handle_wlog_grows m : ∀ c s s' r, L2.handle c s m = Some (s', r) → ∃ ws, L2.wlog s' = ws ++ L2.wlog s.
Proof.
  induction m as [f|w1 w2 w3 w4|b1 b2 b3 b4|i1 i2|u1 u2|v1 v2 v3|r1 r2|p1 p2 p3|sender inner IH] using msg_ind';
    intros c s s' r; [cbn [L2.handle]..|].
  - intros Hh. apply finalize_deposit_Some in Hh as (_ & _ & [(_ & -> & _)|(_ & _ & _ & ok & _ & _ & _ & _ & Hc)]).
    + by exists [].
    + destruct Hc as [(_ & ws & Hw & _)|(_ & _ & base & Hw)]; [by exists ws|]. eexists [_]. exact Hw.
  - intros Hh. apply withdraw_Some in Hh as (?&?&?&?&_&_&_&_&_&_&_&_&->). by eexists [_].
  - intros Hh. apply bank_send_msg_Some in Hh as (? & -> & _). by exists [].
  - intros Hh. apply set_bridge_info_Some in Hh as (_&_&_&->&_). by exists [].
  - intros Hh. apply update_params_Some in Hh as (_&_&->&_). by exists [].
  - intros Hh. apply add_val_Some in Hh as (_&?&?&_&_&->&_). by exists [].
  - intros Hh. apply remove_val_Some in Hh as (_&?&?&_&_&->&_). by exists [].
  - intros Hh. apply spend_fee_pool_Some in Hh as (_&?&->&_). by exists [].
  - rewrite handle_execute.
    destruct (negb (bool_decide (is_Some _))); [discriminate|].
    case_bool_decide; [discriminate|]. destruct (negb (L2.is_admin s sender)); [discriminate|].
    intros Hx. apply bind_Some in Hx as (auth & _ & Hx). clear -IH Hx.
    revert s Hx. induction inner as [|im l IHl]; intros s.
    + intros [= <- <-]. by exists [].
    + rewrite exec_loop_cons. intros Hx.
      apply bind_Some in Hx as (sg & _ & Hx). apply bind_Some in Hx as (a & _ & Hx).
      destruct (negb (bool_decide (a = auth))); [discriminate|].
      apply bind_Some in Hx as ([s1 r1] & Hh & Hx).
      apply Forall_cons in IH as [IHim IHrest].
      destruct (IHim _ _ _ _ Hh) as (ws1 & Hw1). destruct (IHl IHrest _ Hx) as (ws2 & Hw2).
      exists (ws2 ++ ws1). by rewrite Hw2, Hw1, app_assoc.
Qed.

Lemma step_proven_paid c s m : proven_paid c s → proven_paid c (sys_step c s m).1.
Proof.
  intros J.
  assert (Hl1 : ∀ s1, L1.proven s1 = L1.proven (l1 s) → proven_paid c (set_l1 s s1)).
  { intros s1 Hp x. cbn. rewrite Hp. apply J. }
  assert (Hl2 : ∀ s2 ws, L2.wlog s2 = ws ++ L2.wlog (l2 s) → proven_paid c (set_l2 s s2)).
  { intros s2 ws Hw x Hx. cbn in *. destruct (J x Hx) as (w & Hin & Hp & ->). exists w.
    split; [rewrite Hw; apply elem_of_app; by right|done]. }
  destruct m as [e sender to d amt data|e from to d amt|m2|k ex h hook|e p idx l2b lo hi v bh|e ch idx|e sender idx m lo hi v bh|e m1|e mo];
    cbn [sys_step].
  - case_bool_decide; [done|]. unfold lift1, L1.step. cbn [L1.handle].
    destruct (L1.deposit _ _ _ _ _ _ _ _ _) as [[s1 r]|] eqn:Hd; [|done].
    apply l1_deposit_effect in Hd as (sd & _ & _ & _ & _ & _ & Hpr). by apply Hl1.
  - case_bool_decide; [done|]. unfold lift1, L1.step. cbn [L1.handle].
    destruct (L1.bank_send_msg _ _ _ _ _) as [[s1 r]|] eqn:Hd; [|done].
    apply l1_bank_send_effect in Hd as (_ & _ & _ & Hpr).
    case_bool_decide; cbn [fst]; intros x Hx; cbn in *; rewrite Hpr in Hx; by apply J.
  - destruct (l2_adm c (l1 s) m2); [|done]. unfold lift2, L2.step.
    destruct (L2.handle (c2 c) (l2 s) m2) as [[s2 r]|] eqn:Hh; [|done]. cbn [fst].
    destruct (handle_wlog_grows _ _ _ _ _ Hh) as (ws & Hw). by eapply Hl2.
  - destruct (find_event c (l1 s) k) as [ev|]; [|done]. unfold lift2, L2.step.
    destruct (L2.handle (c2 c) (l2 s) _) as [[s2 r]|] eqn:Hh; [|done]. cbn [fst].
    destruct (handle_wlog_grows _ _ _ _ _ Hh) as (ws & Hw). by eapply Hl2.
  - unfold lift1, L1.step. cbn [L1.handle].
    destruct (L1.propose _ _ _ _ _ _ _ _) as [[s1 r]|] eqn:Hd; [|done].
    apply l1_propose_effect in Hd as (_ & _ & _ & Hpr). by apply Hl1.
  - unfold lift1, L1.step. cbn [L1.handle].
    destruct (L1.delete_output _ _ _ _ _ _) as [[s1 r]|] eqn:Hd; [|done].
    apply l1_delete_effect in Hd as (_ & _ & _ & Hpr). by apply Hl1.
  - destruct (find_w (l2 s) m) as [w|] eqn:Hf; [|done].
    apply find_elem in Hf as [Hin Hm]. apply N.eqb_eq in Hm.
    unfold lift1, L1.step, claim_of. cbn [L1.handle].
    destruct (L1.finalize _ _ _ _ _ _ _ _ _ _ _ _ _ _ _) as [[s1 r]|] eqn:Hd; [|done].
    apply l1_finalize_effect in Hd as (rcv & _ & _ & _ & _ & _ & Hpr).
    change (leaf_hash _ _ _ _ _ _ _) with (wleaf c w) in Hpr.
    cbn [fst set_l1 l1 l2 paid]. intros x Hx. cbn [l1 l2 paid] in *. rewrite Hpr in Hx.
    apply elem_of_union in Hx as [Hx|Hx].
    + apply elem_of_singleton in Hx. injection Hx as ->. exists w. split; [done|]. split; [rewrite Hm; by left|done].
    + destruct (J x Hx) as (w' & ? & ? & ->). exists w'. split; [done|]. split; [by right|done].
  - destruct (l1_admin m1) eqn:Ha; [|done]. unfold lift1, L1.step.
    destruct (L1.handle (c1 c) e (l1 s) m1) as [[s1 r]|] eqn:Hh; [|done].
    apply (l1_admin_frame _ _ _ _ _ _ Ha) in Hh as (_ & _ & _ & Hpr). by apply Hl1.
  - pose proof (other_step_spec c s e mo) as Hsp; cbn zeta in Hsp; cbn [sys_step] in Hsp; destruct Hsp as (H2 & Hp & [->|(s1 & rr & Hok & Hh & Hl1o & _)]); [done|].
    destruct (other_handle_spec c e (l1 s) mo s1 rr Hok Hh) as (_ & _ & Hpr & _).
    intros x Hx. rewrite Hl1o in Hx. apply Hpr in Hx. destruct (J x Hx) as (w & ? & ? & ->).
    exists w. rewrite H2, Hp. done.
Qed.

Lemma run_proven_paid c h : ∀ s, proven_paid c s → proven_paid c (sys_run c s h).
Proof. induction h as [|m h IH]; intros s J; cbn; [done|]. apply IH. by apply step_proven_paid. Qed.

Lemma fresh_proven_paid c s : fresh c s → proven_paid c s.
Proof. intros (_ & _ & F3 & _) x. rewrite F3. intros Hx. by apply elem_of_empty in Hx. Qed.

(* an unpaid recorded withdrawal's leaf is not marked claimed, or the hash collides *)
Lemma unpaid_unclaimed c s w :
  (∀ y, length (L1.hash (c1 c) y) = 32%nat) →
  C08Proofs.inv c s → l2ok c s → proven_paid c s →
  (bid c < two64N)%N → (L2.next_l2 (l2 s) ≤ two64N)%N →
  w ∈ L2.wlog (l2 s) → L2.w_seq w ∉ paid s →
  (bid c, wleaf c w) ∉ L1.proven (l1 s) ∨ Collision (L1.hash (c1 c)).
Proof.
  intros Hlen I Hok J Hb Hn Hin Hnp.
  destruct (decide ((bid c, wleaf c w) ∈ L1.proven (l1 s))) as [Hp|]; [|by left].
  destruct (J _ Hp) as (w' & Hin' & Hp' & Heq).
  destruct Hok as (_ & _ & Hall). rewrite List.Forall_forall in Hall.
  destruct (Hall w) as [_ _ _ _ _ Ha _ _]; [by apply elem_of_list_In|].
  destruct (Hall w') as [_ _ _ _ _ Ha' _ _]; [by apply elem_of_list_In|].
  destruct (i_w_lt _ _ I w Hin) as [Hs _]. destruct (i_w_lt _ _ I w' Hin') as [Hs' _].
  unfold wleaf in Heq.
  assert (S1 : (L2.w_seq w < two64N)%N) by (unfold two64N in *; lia).
  assert (S2 : (L2.w_seq w' < two64N)%N) by (unfold two64N in *; lia).
  assert (A1 : (Z.to_N (L2.w_amt w) < two64N)%N) by (unfold two64N, C04Proofs.two64 in *; lia).
  assert (A2 : (Z.to_N (L2.w_amt w') < two64N)%N) by (unfold two64N, C04Proofs.two64 in *; lia).
  destruct (leaf_binding (L1.hash (c1 c)) Hlen _ _ _ _ _ _ _ _ _ _ _ _ Hb S1 A1 Hb S2 A2 Heq) as [(_ & Hseq & _)|Hc];
    [|by right].
  exfalso. apply Hnp. by rewrite Hseq.
Qed.

(* drain, part 2 without the "leaf not marked claimed" premise *)
Lemma c08_drain_claim_binding c s0 h e sender idx m lo hi v bh w x o rcv :
  fresh c s0 → L2.resolve (c2 c) [] = None → (∀ y, length (L1.hash (c1 c) y) = 32%nat) →
  let s := sys_run c s0 h in
  (bid c < two64N)%N → (L2.next_l2 (l2 s) ≤ two64N)%N →
  (0 ≤ gets (L2.bk (l2 s)) (L2.w_denom w))%Z →
  find_w (l2 s) m = Some w → m ∉ paid s → (lo < m ≤ hi)%N →
  (0 < L2.w_amt w)%Z → L1.resolve (c1 c) (L2.w_to w) = Some rcv → is_Some (L1.resolve (c1 c) sender) →
  (1 ≤ bid c)%N → (1 ≤ idx)%N →
  L1.configs (l1 s) !! bid c = Some x → L1.outputs (l1 s) !! (bid c, idx) = Some o →
  L1.o_root o = honest_root c (l2 s) lo hi v bh → L1.is_final x e o = true → length bh = 32%nat →
  (sys_step c s (SClaim e sender idx m lo hi v bh)).2 = true ∨ denom_collision c ∨ Collision (L1.hash (c1 c)).
Proof.
  intros F Hnil Hlen s Hb Hn Hsup Hf Hnp Hrange Hpos Hrcv Hsender Hb1 Hidx Hcfg Hout Hroot Hfinal Hbh.
  pose proof (run_inv c h s0 (fresh_inv c s0 F)) as I. fold s in I.
  destruct (run_ok c h s0 Hnil (fresh_nonneg c s0 F) (fresh_l2ok c s0 F)) as [_ Hok]. fold s in Hok.
  pose proof (run_proven_paid c h s0 (fresh_proven_paid c s0 F)) as J. fold s in J.
  pose proof Hf as Hf'. apply find_elem in Hf' as [Hin Hm]. apply N.eqb_eq in Hm.
  destruct (unpaid_unclaimed c s w Hlen I Hok J Hb Hn Hin ltac:(by rewrite Hm)) as [Hnew|Hc]; [|by right; right].
  destruct (c08_drain_claim c s0 h e sender idx m lo hi v bh w x o rcv F Hnil Hlen Hsup Hf Hnp Hrange Hpos Hrcv
              Hsender Hb1 Hidx Hcfg Hout Hroot Hfinal Hbh Hnew) as [Hok'|Hc]; [by left|by right; left].
Qed.

(* ------------------------------------------------------------------------------------ *)
(* the drain parts from genesis: the supply premise is discharged by reachability          *)
(* ------------------------------------------------------------------------------------ *)
Lemma c08_drain_funded c s0 h d w :
  genesis c s0 → L2.resolve (c2 c) [] = None →
  let s := sys_run c s0 h in
  w ∈ L2.wlog (l2 s) → L2.w_seq w ∉ paid s → L2.w_denom w = l2d c d →
  (L2.w_amt w ≤ getb (L1.bk (l1 s)) (escrow_of c) d)%Z ∨ denom_collision c.
Proof.
  intros G Hnil s. apply (c08_unpaid_funded c s0 h d w (proj1 G) Hnil). apply supply_nonneg_run, G.
Qed.

Lemma c08_drain_claim_g c s0 h e sender idx m lo hi v bh w x o rcv :
  genesis c s0 → L2.resolve (c2 c) [] = None → (∀ y, length (L1.hash (c1 c) y) = 32%nat) →
  let s := sys_run c s0 h in
  (bid c < two64N)%N → (L2.next_l2 (l2 s) ≤ two64N)%N →
  find_w (l2 s) m = Some w → m ∉ paid s → (lo < m ≤ hi)%N →
  (0 < L2.w_amt w)%Z → L1.resolve (c1 c) (L2.w_to w) = Some rcv → is_Some (L1.resolve (c1 c) sender) →
  (1 ≤ bid c)%N → (1 ≤ idx)%N →
  L1.configs (l1 s) !! bid c = Some x → L1.outputs (l1 s) !! (bid c, idx) = Some o →
  L1.o_root o = honest_root c (l2 s) lo hi v bh → L1.is_final x e o = true → length bh = 32%nat →
  (sys_step c s (SClaim e sender idx m lo hi v bh)).2 = true ∨ denom_collision c ∨ Collision (L1.hash (c1 c)).
Proof.
  intros G Hnil Hlen s Hb Hn. apply (c08_drain_claim_binding c s0 h e sender idx m lo hi v bh w x o rcv (proj1 G) Hnil Hlen Hb Hn).
  apply supply_nonneg_run, G.
Qed.

(* ------------------------------------------------------------------------------------ *)
(* conservation of combined holdings: no step mints or burns on L1                         *)
(* ------------------------------------------------------------------------------------ *)
Lemma fee_loop_total cr pl fee d : ∀ b b',
  L1DepLemmas.fee_loop cr pl b fee = Some b' → bal_total b' d = bal_total b d.
Proof.
  unfold L1DepLemmas.fee_loop. induction fee as [|[dn am] fee IH]; intros b b'; cbn.
  - by intros [= <-].
  - destruct (bank_send b cr pl dn am) as [b1|] eqn:Hs; cbn.
    + intros Hf. rewrite (IH _ _ Hf). by eapply (BankTotal.btotal_send b cr pl dn am b1 d).
    + rewrite L1DepLemmas.fee_loop_None. discriminate.
Qed.

Lemma other_handle_total c e s1 m s1' r d :
  other_ok c m = true → L1.handle (c1 c) e s1 m = Some (s1', r) →
  bal_total (L1.bk s1') d = bal_total (L1.bk s1) d.
Proof.
  intros Hok Hh. destruct m; try discriminate; cbn [L1.handle] in Hh.
  - apply L1DepLemmas.create_Some in Hh as (cr & _ & _ & Hfee & _). by eapply fee_loop_total.
  - apply l1_propose_effect in Hh as (Hb & _). by rewrite Hb.
  - apply l1_delete_effect in Hh as (Hb & _). by rewrite Hb.
  - apply L1DepLemmas.deposit_Some in Hh as (sd & _ & _ & _ & _ & _ & _ & _ & Hbk & _).
    destruct (0 <? amt)%Z; [by eapply (BankTotal.btotal_send _ _ _ _ _ _ d)|by injection Hbk as <-].
  - apply L1DepLemmas.finalize_Some in Hh as (rcv & _ & _ & _ & _ & _ & _ & _ & _ & _ & Hbk & _).
    by eapply (BankTotal.btotal_send _ _ _ _ _ _ d).
Qed.

Lemma step_l1_total c s m d :
  bal_total (L1.bk (l1 (sys_step c s m).1)) d = bal_total (L1.bk (l1 s)) d.
Proof.
  assert (Hsend : ∀ b from to d0 x b', bank_send b from to d0 x = Some b' → bal_total b' d = bal_total b d).
  { intros. by eapply (BankTotal.btotal_send b from to d0 x b' d). }
  destruct m as [e sender to d0 amt data|e from to d0 amt|m2|k ex h hook|e p idx l2b lo hi v bh|e ch idx|e sender idx m lo hi v bh|e m1|e mo];
    cbn [sys_step].
  - case_bool_decide; [done|]. unfold lift1, L1.step. cbn [L1.handle].
    destruct (L1.deposit _ _ _ _ _ _ _ _ _) as [[s1 r]|] eqn:Hd; [|done]. cbn.
    apply l1_deposit_effect in Hd as (sd & _ & _ & Hbk & _). destruct (0 <? amt)%Z; [by eapply Hsend|by rewrite Hbk].
  - case_bool_decide; [done|]. unfold lift1, L1.step. cbn [L1.handle].
    destruct (L1.bank_send_msg _ _ _ _ _) as [[s1 r]|] eqn:Hd; [|done].
    apply l1_bank_send_effect in Hd as (Hbk & _). case_bool_decide; cbn; by eapply Hsend.
  - destruct (l2_adm c (l1 s) m2); [|done]. unfold lift2. destruct (L2.step _ _ _) as [s2 [r|]]; done.
  - destruct (find_event c (l1 s) k) as [ev|]; [|done]. unfold lift2. destruct (L2.step _ _ _) as [s2 [r|]]; done.
  - unfold lift1, L1.step. cbn [L1.handle].
    destruct (L1.propose _ _ _ _ _ _ _ _) as [[s1 r]|] eqn:Hd; [|done].
    apply l1_propose_effect in Hd as (Hbk & _). cbn. by rewrite Hbk.
  - unfold lift1, L1.step. cbn [L1.handle].
    destruct (L1.delete_output _ _ _ _ _ _) as [[s1 r]|] eqn:Hd; [|done].
    apply l1_delete_effect in Hd as (Hbk & _). cbn. by rewrite Hbk.
  - destruct (find_w (l2 s) m) as [w|]; [|done]. unfold lift1, L1.step, claim_of. cbn [L1.handle].
    destruct (L1.finalize _ _ _ _ _ _ _ _ _ _ _ _ _ _ _) as [[s1 r]|] eqn:Hd; [|done].
    apply l1_finalize_effect in Hd as (rcv & _ & _ & Hbk & _). cbn. by eapply Hsend.
  - destruct (l1_admin m1) eqn:Ha; [|done]. unfold lift1, L1.step.
    destruct (L1.handle (c1 c) e (l1 s) m1) as [[s1 r]|] eqn:Hh; [|done].
    apply (l1_admin_frame _ _ _ _ _ _ Ha) in Hh as (Hbk & _). cbn. by rewrite Hbk.
  - pose proof (other_step_spec c s e mo) as Hsp; cbn zeta in Hsp; cbn [sys_step] in Hsp; destruct Hsp as (_ & _ & [->|(s1 & rr & Hok & Hh & -> & _)]); [done|].
    by eapply other_handle_total.
Qed.

Lemma run_l1_total c h d : ∀ s, bal_total (L1.bk (l1 (sys_run c s h))) d = bal_total (L1.bk (l1 s)) d.
Proof. induction h as [|m h IH]; intros s; cbn; [done|]. by rewrite IH, step_l1_total. Qed.

(* what is held of d on L1 outside the escrow, plus the L2 supply of its derived denom, plus the
   value in flight (unrelayed deposits, unpaid withdrawals) and the donations, is the initial L1
   total of d: no system step creates or destroys value *)
Lemma c08_holdings_conserved c s0 h d :
  fresh c s0 →
  let s := sys_run c s0 h in
  ((bal_total (L1.bk (l1 s)) d - getb (L1.bk (l1 s)) (escrow_of c) d) +
   gets (L2.bk (l2 s)) (l2d c d) + pending_dep c s d + pending_wd s (l2d c d) + donations s d
   = bal_total (L1.bk (l1 s0)) d)%Z ∨ denom_collision c.
Proof.
  intros F s. destruct (c08_solvency_invariant c s0 h d F) as [Hs|Hc]; [left|by right].
  unfold solvent in Hs. fold s in Hs. unfold s at 1. rewrite run_l1_total. fold s. lia.
Qed.
