(* The reachable-state invariant [l1_inv] of the genesis round trip holds initially and is
   preserved by every ophost message (and by the environment messages of the model). *)
From stdpp Require Import gmap numbers list sorting.
From Coq Require Import ZArith Lia.
Require Import Model.Bytes Model.Bank Model.Hashes Model.Valset Model.L1 Model.Genesis1.
Require Import Proofs.Genesis1Lemmas.

Lemma same_ophost_refl s : same_ophost s s.
Proof. by repeat split. Qed.
Lemma same_ophost_trans s t u : same_ophost s t → same_ophost t u → same_ophost s u.
Proof. unfold same_ophost. intros (?&?&?&?&?&?&?&?&?) (?&?&?&?&?&?&?&?&?). repeat split; congruence. Qed.
Lemma same_ophost_admins s a : same_ophost s (upd_admins s a).
Proof. by repeat split. Qed.

Lemma inv_same c s t : same_ophost s t → l1_inv c s → l1_inv c t.
Proof.
  intros (E1 & E2 & E3 & E4 & E5 & E6 & E7 & E8 & E9) [I1 I2 I3 I4 I5 I6 I7 I8 I9 I10].
  constructor; rewrite ?E1, ?E2, ?E3, ?E4, ?E5, ?E6, ?E7, ?E8, ?E9; done.
Qed.

(* ---- the permissioned-channel hooks only touch the IBC permission table ---- *)
Lemma register_admin_same s pc a s' : register_admin s pc a = Some s' → same_ophost s s'.
Proof.
  unfold register_admin. intros H. destruct (chans s !! pc); cbn in H; [|done].
  repeat case_match; simplify_eq. apply same_ophost_admins.
Qed.

Lemma fold_opt_same {A} (f : l1state → A → option l1state) (l : list A) :
  (∀ s x s', f s x = Some s' → same_ophost s s') →
  ∀ s s', foldl (λ os x, s1 ← os; f s1 x) (Some s) l = Some s' → same_ophost s s'.
Proof.
  intros Hf. induction l as [|x l IH]; intros s s' H; cbn in H.
  - simplify_eq. apply same_ophost_refl.
  - destruct (f s x) as [s1|] eqn:Hs1.
    + eapply same_ophost_trans; [by eapply Hf|by apply IH].
    + exfalso. clear -H. induction l as [|y l IH]; cbn in H; [done|by apply IH].
Qed.

Lemma hook_created_same c s x s' : hook_created c s x = Some s' → same_ophost s s'.
Proof.
  unfold hook_created. intros H. destruct (parse c (c_meta x)) as [chs|]; [|simplify_eq; apply same_ophost_refl].
  destruct (resolve c (c_challenger x)) as [a|]; cbn in H; [|done].
  eapply (fold_opt_same (λ s1 pc, register_admin s1 pc a)); [|exact H].
  intros. by eapply register_admin_same.
Qed.

Lemma hook_challenger_same c s x s' : hook_challenger c s x = Some s' → same_ophost s s'.
Proof.
  unfold hook_challenger. intros H. destruct (parse c (c_meta x)) as [chs|]; [|simplify_eq; apply same_ophost_refl].
  destruct (resolve c (c_challenger x)) as [a|]; cbn in H; [|done]. simplify_eq.
  clear. revert s. induction chs as [|pc chs IH]; intros s; cbn; [apply same_ophost_refl|].
  eapply same_ophost_trans; [|apply IH]. apply same_ophost_admins.
Qed.

Lemma hook_metadata_same c s x s' : hook_metadata c s x = Some s' → same_ophost s s'.
Proof.
  unfold hook_metadata. intros H. destruct (parse c (c_meta x)) as [chs|]; [|simplify_eq; apply same_ophost_refl].
  destruct (resolve c (c_challenger x)) as [a|]; cbn in H; [|done].
  eapply (fold_opt_same (λ s1 pc, if bool_decide (admins s1 !! pc = Some a) then Some s1 else register_admin s1 pc a)); [|exact H].
  intros s1 pc s2 H2. case_bool_decide; [simplify_eq; apply same_ophost_refl|by eapply register_admin_same].
Qed.

(* ---- building blocks ---- *)
Lemma is_Some_insert_mono {A} (m : gmap N A) b b0 x : is_Some (m !! b) → is_Some (<[b0 := x]> m !! b).
Proof. rewrite lookup_insert_is_Some'. auto. Qed.

(* an existing bridge's config is replaced by a valid one with the same batch info *)
Lemma inv_update_config c s b x x' :
  l1_inv c s → configs s !! b = Some x → config_valid c x' = true → c_batch x' = c_batch x →
  l1_inv c (upd_configs s (<[b := x']> (configs s))).
Proof.
  intros [I1 I2 I3 I4 I5 I6 I7 I8 I9 I10] Hx Hv Hb.
  assert (Hm : ∀ b', is_Some (configs s !! b') → is_Some (<[b := x']> (configs s) !! b'))
    by (intros; by apply is_Some_insert_mono).
  constructor; cbn; try done.
  - intros b' y. destruct (decide (b' = b)) as [->|]; [rewrite lookup_insert|rewrite lookup_insert_ne by done; apply I2].
    intros [= <-]. split; [by apply (I2 b x)|done].
  - intros b' v Hq. destruct (I3 b' v Hq). auto.
  - intros b' v Hq. destruct (I4 b' v Hq). auto.
  - intros b' i o Hq. destruct (I5 b' i o Hq) as (?&?&?). auto.
  - intros b' h Hq. destruct (I6 b' h Hq). auto.
  - intros b' d v Hq. destruct (I7 b' d v Hq) as (?&?&?). auto.
  - intros b' i v Hq. apply Hm. by eapply I8.
  - intros b' y. destruct (decide (b' = b)) as [->|]; [rewrite lookup_insert|rewrite lookup_insert_ne by done; apply I9].
    intros [= <-]. rewrite Hb. by apply I9.
Qed.

(* SetBatchInfo appends at the next index *)
Lemma batches_push s b bi o (n : N) :
  (∀ i, is_Some (batches s !! (b, i)) ↔ (i < n)%N) →
  batches (push_batch s b bi o) = <[(b, n) := (bi, o)]> (batches s).
Proof. intros Hc. unfold push_batch. cbn. by rewrite next_batch_idx_nbi, (nbi_contig _ _ n Hc). Qed.

(* UpdateBatchInfo: new config (any batch info), then the batch info is appended *)
Lemma inv_update_batch c s b x x' o :
  l1_inv c s → configs s !! b = Some x → config_valid c x' = true →
  l1_inv c (push_batch (upd_configs s (<[b := x']> (configs s))) b (c_batch x') o).
Proof.
  intros Hinv Hx Hv. pose proof Hinv as [I1 I2 I3 I4 I5 I6 I7 I8 I9 I10].
  destruct (I9 b x Hx) as (n & Hn & Hcont & _ & Hfirst).
  set (s1 := upd_configs s (<[b := x']> (configs s))).
  assert (Hb : batches (push_batch s1 b (c_batch x') o) = <[(b, N.of_nat n) := (c_batch x', o)]> (batches s))
    by (by apply (batches_push s1 b _ _ (N.of_nat n))).
  assert (Hm : ∀ b', is_Some (configs s !! b') → is_Some (<[b := x']> (configs s) !! b'))
    by (intros; by apply is_Some_insert_mono).
  constructor; try rewrite Hb; cbn; try done.
  - intros b' y. destruct (decide (b' = b)) as [->|]; [rewrite lookup_insert|rewrite lookup_insert_ne by done; apply I2].
    intros [= <-]. split; [by apply (I2 b x)|done].
  - intros b' v Hq. destruct (I3 b' v Hq). auto.
  - intros b' v Hq. destruct (I4 b' v Hq). auto.
  - intros b' i oo Hq. destruct (I5 b' i oo Hq) as (?&?&?). auto.
  - intros b' h Hq. destruct (I6 b' h Hq). auto.
  - intros b' d v Hq. destruct (I7 b' d v Hq) as (?&?&?). auto.
  - intros b' i v. destruct (decide ((b', i) = (b, N.of_nat n))) as [[= -> ->]|Hne].
    + intros _. rewrite lookup_insert. eauto.
    + rewrite lookup_insert_ne by done. intros Hq. apply Hm. by eapply I8.
  - intros b' y. destruct (decide (b' = b)) as [->|Hne].
    + rewrite lookup_insert. intros [= <-]. exists (S n). split; [lia|]. split; [|split].
      * intros i. rewrite lookup_insert_is_Some, Hcont. split.
        -- intros [[= <-]|[_ ?]]; lia.
        -- intros Hi. destruct (decide (i = N.of_nat n)) as [->|]; [by left|right]. split; [congruence|lia].
      * exists o. replace (S n - 1)%nat with n by lia. by rewrite lookup_insert.
      * destruct Hfirst as (v & Hv0 & He). exists v. split; [|done].
        rewrite lookup_insert_ne; [done|]. intros [=]. lia.
    + rewrite lookup_insert_ne by done. intros Hy. destruct (I9 b' y Hy) as (n' & Hn' & Hc' & (o' & Hl') & (v & Hv0 & He)).
      exists n'. split; [done|]. split; [|split].
      * intros i. rewrite lookup_insert_ne by congruence. apply Hc'.
      * exists o'. by rewrite lookup_insert_ne by congruence.
      * exists v. by rewrite lookup_insert_ne by congruence.
Qed.

(* CreateBridge: a fresh id, its config and the first batch-info entry *)
Lemma inv_create c s bk1 x :
  l1_inv c s → config_valid c x = true →
  l1_inv c (push_batch
    {| bk := bk1; next_bridge := (next_bridge s + 1)%N; configs := <[next_bridge s := x]> (configs s);
       next_seq := next_seq s; next_out := next_out s; outputs := outputs s;
       proven := proven s; pairs := pairs s; batches := batches s; regfee := regfee s;
       chans := chans s; admins := admins s; elog := elog s; plog := plog s |}
    (next_bridge s) (c_batch x) empty_output).
Proof.
  intros Hinv Hv. pose proof Hinv as [I1 I2 I3 I4 I5 I6 I7 I8 I9 I10].
  set (id := next_bridge s). set (s1 := {| bk := bk1; next_bridge := (id + 1)%N |}).
  assert (Hfresh : configs s !! id = None).
  { destruct (configs s !! id) as [y|] eqn:Hy; [|done]. destruct (I2 id y Hy). unfold id in *. lia. }
  assert (Hnob : ∀ i, is_Some (batches s1 !! (id, i)) ↔ (i < 0)%N).
  { intros i. split; [|lia]. intros [v Hq]. cbn in Hq. apply I8 in Hq. rewrite Hfresh in Hq. by destruct Hq. }
  assert (Hb : batches (push_batch s1 id (c_batch x) empty_output) = <[(id, 0%N) := (c_batch x, empty_output)]> (batches s))
    by (by apply (batches_push s1 id _ _ 0%N)).
  assert (Hm : ∀ b', is_Some (configs s !! b') → is_Some (<[id := x]> (configs s) !! b'))
    by (intros; by apply is_Some_insert_mono).
  constructor; try rewrite Hb; cbn; try done.
  - fold id. lia.
  - intros b' y. fold id. destruct (decide (b' = id)) as [->|]; [rewrite lookup_insert|rewrite lookup_insert_ne by done].
    + intros [= <-]. split; [unfold id; lia|done].
    + intros Hy. destruct (I2 b' y Hy). split; [lia|done].
  - intros b' v Hq. destruct (I3 b' v Hq). auto.
  - intros b' v Hq. destruct (I4 b' v Hq). auto.
  - intros b' i oo Hq. destruct (I5 b' i oo Hq) as (?&?&?). auto.
  - intros b' h Hq. destruct (I6 b' h Hq). auto.
  - intros b' d v Hq. destruct (I7 b' d v Hq) as (?&?&?). auto.
  - intros b' i v. fold id. destruct (decide ((b', i) = (id, 0%N))) as [[= -> ->]|Hne].
    + intros _. rewrite lookup_insert. eauto.
    + rewrite lookup_insert_ne by done. intros Hq. apply Hm. by eapply I8.
  - intros b' y. fold id. destruct (decide (b' = id)) as [->|Hne].
    + rewrite lookup_insert. intros [= <-]. exists 1%nat. split; [lia|]. split; [|split].
      * intros i. rewrite lookup_insert_is_Some. split.
        -- intros [[= <-]|[_ Hq]]; [lia|]. apply Hnob in Hq. lia.
        -- intros Hi. left. f_equal. lia.
      * exists empty_output. cbn. by rewrite lookup_insert.
      * exists (c_batch x, empty_output). by rewrite lookup_insert.
    + rewrite lookup_insert_ne by done. intros Hy. destruct (I9 b' y Hy) as (n' & Hn' & Hc' & (o' & Hl') & (v & Hv0 & He)).
      exists n'. split; [done|]. split; [|split].
      * intros i. rewrite lookup_insert_ne by congruence. apply Hc'.
      * exists o'. by rewrite lookup_insert_ne by congruence.
      * exists v. by rewrite lookup_insert_ne by congruence.
Qed.

(* every other message leaves bridges, batch infos and the next bridge id alone *)
Lemma inv_replace c s t :
  l1_inv c s → next_bridge t = next_bridge s → configs t = configs s → batches t = batches s →
  coins_valid (regfee t) = true →
  (∀ b v, next_seq t !! b = Some v → is_Some (configs s !! b) ∧ (1 ≤ v)%N) →
  (∀ b v, next_out t !! b = Some v → is_Some (configs s !! b) ∧ (1 ≤ v)%N) →
  (∀ b i o, outputs t !! (b, i) = Some o → is_Some (configs s !! b) ∧ i ≠ 0%N ∧ length (o_root o) = 32%nat) →
  (∀ b h, (b, h) ∈ proven t → is_Some (configs s !! b) ∧ length h = 32%nat) →
  (∀ b d v, pairs t !! (b, d) = Some v → is_Some (configs s !! b) ∧ valid_denom d = true ∧ valid_denom v = true) →
  l1_inv c t.
Proof.
  intros [I1 I2 I3 I4 I5 I6 I7 I8 I9 I10] E1 E2 E3 Hfee H3 H4 H5 H6 H7.
  constructor; rewrite ?E1, ?E2, ?E3; done.
Qed.

Lemma propose_inv c s b x o :
  l1_inv c s → configs s !! b = Some x → length (o_root o) = 32%nat →
  l1_inv c (upd_outputs s (<[(b, out_of s b) := o]> (outputs s)) (<[b := (out_of s b + 1)%N]> (next_out s))).
Proof.
  intros Hinv Hx Hl. pose proof Hinv as [I1 I2 I3 I4 I5 I6 I7 I8 I9 I10].
  assert (Hn : (1 ≤ out_of s b)%N).
  { unfold out_of. destruct (next_out s !! b) as [v|] eqn:Hq; cbn; [by destruct (I4 b v Hq)|lia]. }
  apply (inv_replace c s); cbn; try done.
  + intros b' v. destruct (decide (b' = b)) as [->|]; [rewrite lookup_insert|rewrite lookup_insert_ne by done; apply I4].
    intros [= <-]. split; [eauto|lia].
  + intros b' i o'. destruct (decide ((b', i) = (b, out_of s b))) as [[= -> ->]|Hne].
    * rewrite lookup_insert. intros [= <-]. split; [eauto|]. split; [lia|done].
    * rewrite lookup_insert_ne by done. apply I5.
Qed.

Lemma delete_inv c s b x idx (P : N * N * output → Prop) `{∀ kv, Decision (P kv)} :
  l1_inv c s → configs s !! b = Some x → idx ≠ 0%N →
  l1_inv c (upd_outputs s (filter P (outputs s)) (<[b := idx]> (next_out s))).
Proof.
  intros Hinv Hx Hl. pose proof Hinv as [I1 I2 I3 I4 I5 I6 I7 I8 I9 I10].
  apply (inv_replace c s); cbn; try done.
  + intros b' v. destruct (decide (b' = b)) as [->|]; [rewrite lookup_insert|rewrite lookup_insert_ne by done; apply I4].
    intros [= <-]. split; [eauto|lia].
  + intros b' i o Hq. apply map_filter_lookup_Some in Hq as [Hq _]. by apply I5.
Qed.

(* ---- l2 denoms are valid denoms ---- *)
Lemma hexdigit_char d : (d < 16)%N → denom_char (hexdigit d) = true.
Proof.
  intros Hd.
  assert (d = 0 ∨ d = 1 ∨ d = 2 ∨ d = 3 ∨ d = 4 ∨ d = 5 ∨ d = 6 ∨ d = 7 ∨ d = 8 ∨ d = 9 ∨ d = 10 ∨
          d = 11 ∨ d = 12 ∨ d = 13 ∨ d = 14 ∨ d = 15)%N as Hc by lia.
  repeat destruct Hc as [->|Hc]; try subst d; reflexivity.
Qed.

Lemma hex_encode_spec (h : bytes) :
  Forall (λ n, n < 256)%N h →
  length (hex_encode h) = (2 * length h)%nat ∧ forallb denom_char (hex_encode h) = true.
Proof.
  induction 1 as [|x h Hx _ [IH1 IH2]]; [done|]. cbn [hex_encode length forallb]. split; [lia|].
  rewrite IH2, !hexdigit_char; [done| |].
  - apply N.mod_lt. lia.
  - apply N.div_lt_upper_bound; lia.
Qed.

Lemma l2_denom_valid c b d : hash_wf c → valid_denom (l2_denom (hash c) b d) = true.
Proof.
  intros Hwf. unfold l2_denom. destruct (Hwf (be64 b ++ d)) as [Hlen Hall].
  destruct (hex_encode_spec _ Hall) as [Hl Hc]. rewrite Hlen in Hl.
  cbn [bs app]. cbn [valid_denom forallb length]. rewrite Hc, Hl. reflexivity.
Qed.

Lemma deposit_inv c s b x bk1 l2d d el :
  l1_inv c s → configs s !! b = Some x → valid_denom l2d = true → valid_denom d = true →
  l1_inv c {| bk := bk1; next_bridge := next_bridge s; configs := configs s;
              next_seq := <[b := (seq_of s b + 1)%N]> (next_seq s); next_out := next_out s; outputs := outputs s;
              proven := proven s;
              pairs := match pairs s !! (b, l2d) with Some _ => pairs s | None => <[(b, l2d) := d]> (pairs s) end;
              batches := batches s; regfee := regfee s; chans := chans s; admins := admins s;
              elog := el; plog := plog s |}.
Proof.
  intros Hinv Hx Hl2 Hd. pose proof Hinv as [I1 I2 I3 I4 I5 I6 I7 I8 I9 I10].
  apply (inv_replace c s); cbn; try done.
  + intros b' v. destruct (decide (b' = b)) as [->|]; [rewrite lookup_insert|rewrite lookup_insert_ne by done; apply I3].
    intros [= <-]. split; [eauto|lia].
  + intros b' d' v. destruct (pairs s !! (b, l2d)) eqn:Hp; [apply I7|].
    destruct (decide ((b', d') = (b, l2d))) as [[= -> ->]|Hne].
    * rewrite lookup_insert. intros [= <-]. split; [eauto|]. done.
    * rewrite lookup_insert_ne by done. apply I7.
Qed.

Lemma finalize_inv c s b x bk1 leaf pl :
  l1_inv c s → configs s !! b = Some x → length leaf = 32%nat →
  l1_inv c {| bk := bk1; next_bridge := next_bridge s; configs := configs s; next_seq := next_seq s;
              next_out := next_out s; outputs := outputs s; proven := {[ (b, leaf) ]} ∪ proven s;
              pairs := pairs s; batches := batches s; regfee := regfee s; chans := chans s;
              admins := admins s; elog := elog s; plog := pl |}.
Proof.
  intros Hinv Hx Hl. pose proof Hinv as [I1 I2 I3 I4 I5 I6 I7 I8 I9 I10].
  apply (inv_replace c s); cbn; try done.
  intros b' h Hin. apply elem_of_union in Hin as [Hin|Hin]; [|by apply I6].
  apply elem_of_singleton in Hin. simplify_eq. split; [eauto|done].
Qed.

(* peel the guards of a handler off a hypothesis [handler ... = Some _] *)
Ltac peel H := repeat (first
  [ match type of H with (if ?g then _ else _) = Some _ => destruct g eqn:? end
  | match type of H with (mbind _ ?o) = Some _ => destruct o eqn:?; cbn [mbind option_bind] in H end
  | match type of H with (let '(_, _) := ?p in _) = Some _ => destruct p eqn:? end ];
  try discriminate H).

(* ---- every handler preserves the invariant ---- *)
Section preserve.
  Variable c : cfg.
  Hypothesis Hwf : hash_wf c.

  Lemma handle_inv e s m s' r : l1_inv c s → handle c e s m = Some (s', r) → l1_inv c s'.
  Proof.
    intros Hinv H. pose proof Hinv as [I1 I2 I3 I4 I5 I6 I7 I8 I9 I10].
    destruct m as [creator x|proposer b idx l2 root|ch b idx|sender b to d amt data|sender b idx sq proofs from to d amt v sr bh|a b p|a b p|a b bi|a b f|a b md|a fee|sub b data|from to d amt|pc n|pc a]; cbn [handle] in H.
    - (* create *)
      unfold create_bridge in H. peel H. simplify_eq.
      eapply inv_same; [by eapply hook_created_same|]. apply inv_create; [done|].
      match goal with Hv : negb (config_valid c x) = false |- _ => by apply negb_false_iff in Hv end.
    - (* propose *)
      unfold propose in H. peel H. all: simplify_eq.
      all: match goal with Hl : negb (length _ =? 32)%nat = false |- _ => apply negb_false_iff, Nat.eqb_eq in Hl end.
      all: eapply propose_inv; eauto.
    - (* delete *)
      unfold delete_output in H. peel H. simplify_eq.
      match goal with Hl : (idx =? 0)%N = false |- _ => apply N.eqb_neq in Hl end.
      eapply (delete_inv c s); eauto.
    - (* deposit *)
      unfold deposit in H. peel H. all: simplify_eq.
      all: match goal with Hcv : negb (coin_valid _ _ && _) = false |- _ =>
             apply negb_false_iff, andb_true_iff in Hcv as [Hcv _]; apply andb_true_iff in Hcv as [Hvd _] end.
      all: eapply deposit_inv; eauto; by apply l2_denom_valid.
    - (* finalize *)
      unfold finalize in H. peel H. simplify_eq.
      eapply finalize_inv; eauto; unfold leaf_hash; apply Hwf.
    - (* update proposer *)
      unfold update_proposer in H. peel H. simplify_eq.
      match goal with Hv : negb (config_valid c ?x') = false |- _ => apply negb_false_iff in Hv;
        eapply (inv_update_config c s b _ x'); eauto end.
    - (* update challenger *)
      unfold update_challenger in H. peel H. simplify_eq.
      match goal with Hh : hook_challenger c s _ = Some ?s1 |- _ =>
        pose proof (hook_challenger_same _ _ _ _ Hh) as Hs; pose proof (inv_same c _ _ Hs Hinv) as Hinv1;
        destruct Hs as (_ & Hcf & _) end.
      match goal with Hv : negb (config_valid c ?x') = false, Hc : configs s !! b = Some ?x0 |- l1_inv c (upd_configs ?l _) =>
        apply negb_false_iff in Hv;
        apply (inv_update_config c l b x0 x'); [done|by rewrite Hcf|done|done] end.
    - (* update batch info *)
      unfold update_batch_info in H. peel H. simplify_eq.
      match goal with Hv : negb (config_valid c ?x') = false |- _ => apply negb_false_iff in Hv;
        eapply (inv_update_batch c s b _ x'); eauto end.
    - (* update oracle *)
      unfold update_oracle in H. peel H. simplify_eq.
      match goal with Hv : negb (config_valid c ?x') = false |- _ => apply negb_false_iff in Hv;
        eapply (inv_update_config c s b _ x'); eauto end.
    - (* update metadata *)
      unfold update_metadata in H. peel H. simplify_eq.
      match goal with Hh : hook_metadata c s _ = Some ?s1 |- _ =>
        pose proof (hook_metadata_same _ _ _ _ Hh) as Hs; pose proof (inv_same c _ _ Hs Hinv) as Hinv1;
        destruct Hs as (_ & Hcf & _) end.
      match goal with Hv : negb (config_valid c ?x') = false, Hc : configs s !! b = Some ?x0 |- l1_inv c (upd_configs ?l _) =>
        apply negb_false_iff in Hv;
        apply (inv_update_config c l b x0 x'); [done|by rewrite Hcf|done|done] end.
    - (* update params *)
      unfold update_params in H. peel H. simplify_eq.
      apply (inv_replace c s); cbn; try done.
      match goal with Hv : negb (coins_valid fee) = false |- _ => by apply negb_false_iff in Hv end.
    - (* record batch *)
      unfold record_batch in H. peel H. by simplify_eq.
    - (* bank send *)
      unfold bank_send_msg in H. peel H. simplify_eq. by apply (inv_replace c s).
    - simplify_eq. by apply (inv_replace c s).
    - simplify_eq. by apply (inv_replace c s).
  Qed.

  Lemma step_inv e s m : l1_inv c s → l1_inv c (step c e s m).1.
  Proof.
    intros Hinv. unfold step. destruct (handle c e s m) as [[s' r]|] eqn:Hh; cbn; [|done].
    by eapply handle_inv.
  Qed.

  Lemma run_inv h : ∀ s, l1_inv c s → l1_inv c (run c s h).1.
  Proof.
    induction h as [|[e m] h IH]; intros s Hinv; cbn; [done|].
    pose proof (step_inv e s m Hinv) as H1. destruct (step c e s m) as [s1 r]. cbn in H1.
    specialize (IH s1 H1). destruct (run c s1 h) as [s2 rs]. done.
  Qed.
End preserve.

Lemma init_inv c : l1_inv c init_state.
Proof.
  constructor; cbn; try done; try (intros; by rewrite ?lookup_empty in * ).
Qed.

(* the invariant holds in every reachable state, also when the chain starts with funded
   accounts and open IBC channels (anything outside the ophost store) *)
Lemma reachable_inv c s0 h :
  hash_wf c → same_ophost init_state s0 → l1_inv c (run c s0 h).1.
Proof. intros Hwf Hs. apply run_inv; [done|]. eapply inv_same; [exact Hs|apply init_inv]. Qed.
