(* The bank's supply of a denom is the sum of all balances of that denom, along every L2
   history ([bank_ok]); with non-negative balances ([BankNonneg]) the supply is never negative.
   The same sum on L1 is conserved by every transfer (used for the conservation of holdings). *)
From stdpp Require Import gmap numbers list.
From Coq Require Import ZArith Lia.
Require Import Model.Bytes Model.Bank Model.Valset Model.L2.
Require Import Proofs.L2Lemmas Proofs.DepositLemmas Proofs.C07Proofs Proofs.BankNonneg.

Local Open Scope Z_scope.

Definition tstep (d : denom) (k : N * denom) (v : Z) (acc : Z) : Z := if decide (k.2 = d) then v + acc else acc.
Definition mtotal (m : gmap (N * denom) Z) (d : denom) : Z := map_fold (tstep d) 0 m.
Definition btotal (b : bank) (d : denom) : Z := mtotal (bal b) d.
Definition bank_ok (b : bank) : Prop := ∀ d, btotal b d = gets b d.

Lemma tstep_comm d j1 j2 z1 z2 y : tstep d j1 z1 (tstep d j2 z2 y) = tstep d j2 z2 (tstep d j1 z1 y).
Proof. unfold tstep. repeat destruct (decide _); lia. Qed.

Lemma mtotal_insert_fresh m k v d : m !! k = None → mtotal (<[k:=v]> m) d = tstep d k v (mtotal m d).
Proof. intros Hn. unfold mtotal. apply map_fold_insert_L; [|done]. intros. apply tstep_comm. Qed.

Lemma mtotal_insert m k v d :
  mtotal (<[k:=v]> m) d = mtotal m d + (if decide (k.2 = d) then v - default 0 (m !! k) else 0).
Proof.
  destruct (m !! k) as [x|] eqn:E.
  - rewrite <- (insert_delete m k x E) at 2. rewrite <- (insert_delete_insert m k v).
    rewrite !mtotal_insert_fresh by apply lookup_delete. unfold tstep. cbn. destruct (decide _); lia.
  - rewrite mtotal_insert_fresh by done. unfold tstep. cbn. destruct (decide _); lia.
Qed.

Lemma mtotal_nonneg m d : (∀ k v, m !! k = Some v → 0 ≤ v) → 0 ≤ mtotal m d.
Proof.
  unfold mtotal. apply (map_fold_ind (λ r m, (∀ k v, m !! k = Some v → 0 ≤ v) → 0 ≤ r)).
  - lia.
  - intros i x m0 r Hn IH Hall. unfold tstep.
    assert (0 ≤ x) by (apply (Hall i); by rewrite lookup_insert).
    assert (0 ≤ r). { apply IH. intros k v Hk. apply (Hall k). rewrite lookup_insert_ne; [done|]. congruence. }
    destruct (decide _); lia.
Qed.

Lemma btotal_credit b a d x d' : btotal (credit b a d x) d' = btotal b d' + deltad d' d x.
Proof.
  unfold btotal, credit. cbn. rewrite mtotal_insert. cbn. unfold getb, deltad.
  destruct (decide (d = d')) as [->|]; [rewrite decide_True by done|rewrite decide_False by congruence]; lia.
Qed.

Lemma btotal_debit b a d x b' d' : debit b a d x = Some b' → btotal b' d' = btotal b d' - deltad d' d x.
Proof.
  unfold debit. destruct (getb b a d <? x); [discriminate|]. intros [= <-].
  unfold btotal. cbn. rewrite mtotal_insert. cbn. unfold getb, deltad.
  destruct (decide (d = d')) as [->|]; [rewrite decide_True by done|rewrite decide_False by congruence]; lia.
Qed.

Lemma btotal_send b from to d x b' d' : bank_send b from to d x = Some b' → btotal b' d' = btotal b d'.
Proof.
  unfold bank_send. intros H. apply bind_Some in H as (b1 & H1 & [= <-]).
  rewrite btotal_credit, (btotal_debit _ _ _ _ _ _ H1). lia.
Qed.

Lemma bank_send_ok' b from to d x b' : bank_send b from to d x = Some b' → bank_ok b → bank_ok b'.
Proof.
  intros H Hok d'. rewrite (btotal_send _ _ _ _ _ _ _ H). apply DepositLemmas.bank_send_Some in H as (_ & _ & Hs).
  rewrite Hs. apply Hok.
Qed.

Lemma bank_mint_ok b m d x : bank_ok b → bank_ok (bank_mint b m d x).
Proof.
  intros Hok d'. rewrite DepositLemmas.gets_mint.
  change (btotal (bank_mint b m d x) d') with (btotal (credit b m d x) d').
  rewrite btotal_credit, Hok. done.
Qed.

Lemma bank_burn_ok b m d x b' : bank_burn b m d x = Some b' → bank_ok b → bank_ok b'.
Proof.
  intros H Hok d'. pose proof H as H'. apply DepositLemmas.bank_burn_Some in H' as (_ & _ & Hs). rewrite Hs.
  unfold bank_burn in H. apply bind_Some in H as (b1 & H1 & [= <-]).
  change (btotal _ d') with (btotal b1 d'). rewrite (btotal_debit _ _ _ _ _ _ H1), Hok. done.
Qed.

Lemma foldl_ok {A} (f : bank → A → option bank) (l : list A) :
  (∀ b x b', f b x = Some b' → bank_ok b → bank_ok b') →
  ∀ b b', foldl (λ ob x, b ← ob; f b x) (Some b) l = Some b' → bank_ok b → bank_ok b'.
Proof.
  intros Hf. induction l as [|x l IH]; intros b b'; cbn.
  - by intros [= <-].
  - destruct (f b x) as [b1|] eqn:E; cbn.
    + intros H Hb. eapply IH; [exact H|]. eapply Hf; eauto.
    + rewrite foldl_None. discriminate.
Qed.

Lemma hook_send_ok c b from snd b' : hook_send c b from snd = Some b' → bank_ok b → bank_ok b'.
Proof.
  unfold hook_send. destruct snd as [[to dd] amt]. destruct (negb _); [discriminate|].
  destruct (blocked c to); [discriminate|]. apply bank_send_ok'.
Qed.

Lemma withdraw_ok c s sender to d amt s' r :
  withdraw c s sender to d amt = Some (s', r) → bank_ok (bk s) → bank_ok (bk s').
Proof.
  intros H. apply withdraw_Some in H as (a & b1 & b2 & base & _ & _ & _ & _ & Hb1 & Hb2 & _ & _ & ->). cbn.
  intros Hb. eapply bank_burn_ok; [exact Hb2|]. eapply bank_send_ok'; eauto.
Qed.

Lemma hook_msg_ok c s signer m s' : hook_msg c s signer m = Some s' → bank_ok (bk s) → bank_ok (bk s').
Proof.
  destruct m as [to d amt|sender to d amt]; cbn [hook_msg].
  - intros H. apply bind_Some in H as (b & Hb & [= <-]). cbn. eapply hook_send_ok; eauto.
  - destruct (negb _); [discriminate|]. intros H. apply bind_Some in H as ([s1 r1] & Hw & [= <-]).
    eapply withdraw_ok; eauto.
Qed.

Lemma hook_fold_ok c signer msgs : ∀ s s',
  foldl (λ os m, s ← os; hook_msg c s signer m) (Some s) msgs = Some s' → bank_ok (bk s) → bank_ok (bk s').
Proof.
  induction msgs as [|m msgs IH]; intros s s'; cbn [foldl]; [by intros [= <-]|].
  cbn [mbind option_bind]. destruct (hook_msg c s signer m) as [s1|] eqn:E.
  - intros H Hb. eapply IH; [exact H|]. eapply hook_msg_ok; eauto.
  - rewrite hook_fold_None. discriminate.
Qed.

Lemma run_hook_ok c s h s1 ok : run_hook c s h = (s1, ok) → bank_ok (bk s) → bank_ok (bk s1).
Proof.
  unfold run_hook. destruct h as [| |signer tseq sig_ok msgs]; try (intros [= <- <-]; done).
  destruct (p_hookgas (prm s) <? hook_gas_floor)%N; [intros [= <- <-]; done|].
  destruct (negb _); [intros [= <- <-]; done|].
  destruct (foldl _ _ msgs) as [s2|] eqn:Hf; intros [= <- <-]; [|done].
  intros Hb. eapply hook_fold_ok; [exact Hf|]. exact Hb.
Qed.

Lemma fd_dep_ok c s m s1 ok : fd_dep c s m = (s1, ok) → bank_ok (bk s) → bank_ok (bk s1).
Proof.
  unfold fd_dep. destruct (resolve c (fd_to m)) as [a|]; [|by intros [= <- <-]].
  unfold safe_deposit. destruct (fd_amt m =? 0); [by intros [= <- <-]|].
  destruct (blocked c a); [by intros [= <- <-]|].
  destruct (bank_send _ _ _ _ _) as [b|] eqn:Hs; intros [= <- <-]; [|done]. cbn.
  intros Hb. eapply bank_send_ok'; [exact Hs|]. by apply bank_mint_ok.
Qed.

Lemma fd_tail_ok c s m s' r : fd_tail c s m = Some (s', r) → bank_ok (bk s) → bank_ok (bk s').
Proof.
  unfold fd_tail. destruct (fd_dep c s m) as [s1 dep_ok] eqn:Hdep.
  destruct (fd_hook_run c (fd_gate s1 m) dep_ok (fd_hook m)) as [s4 hook_ok] eqn:Hhook.
  intros H Hb.
  assert (N1 : bank_ok (bk s1)) by (eapply fd_dep_ok; eauto).
  destruct (gate_fields s1 m) as (G1 & _).
  assert (N4 : bank_ok (bk s4)).
  { unfold fd_hook_run in Hhook. destruct (dep_ok && hook_nonempty (fd_hook m)).
    - eapply run_hook_ok; eauto. by rewrite G1.
    - injection Hhook as <- <-. by rewrite G1. }
  destruct (dep_ok && hook_ok); [injection H as <- <-; exact N4|].
  apply bind_Some in H as (s5 & H5 & H). apply bind_Some in H as (base & _ & [= <- <-]). cbn.
  unfold fd_reclaim in H5. destruct dep_ok; [|by injection H5 as <-].
  apply bind_Some in H5 as (a & _ & H5). apply bind_Some in H5 as (b1 & Hs & H5).
  apply bind_Some in H5 as (b2 & Hbn & [= <-]). cbn.
  eapply bank_burn_ok; [exact Hbn|]. eapply bank_send_ok'; eauto.
Qed.

Lemma handle_ok c m s s' r : handle c s m = Some (s', r) → bank_ok (bk s) → bank_ok (bk s').
Proof.
  apply (handle_R c (λ s s', bank_ok (bk s) → bank_ok (bk s'))); [auto|auto|].
  clear. intros s m s' r Hleaf H.
  destruct m as [f|w1 w2 w3 w4|b1 b2 b3 b4|i1 i2|u1 u2|v1 v2 v3|r1 r2|p1 p2 p3|sender inner]; cbn [handle] in H.
  - apply finalize_deposit_tail in H as [[_ ->]|(Hv & _ & _ & H)]; [done|]. eapply fd_tail_ok; eauto.
  - eapply withdraw_ok; eauto.
  - unfold bank_send_msg in H. destruct (negb _); [discriminate|].
    apply bind_Some in H as (b & Hb & [= <- <-]). cbn. eapply bank_send_ok'; eauto.
  - apply set_bridge_info_Some in H as (_&_&_&->&_). done.
  - apply update_params_Some in H as (_&_&->&_). done.
  - apply add_val_Some in H as (_&?&?&_&_&->&_). done.
  - apply remove_val_Some in H as (_&?&?&_&_&->&_). done.
  - unfold spend_fee_pool in H. destruct (negb (bool_decide (is_Some _))); [discriminate|].
    apply bind_Some in H as (rr & _ & H). destruct (negb (coins_valid p3)); [discriminate|].
    destruct (negb (is_authority c p1)); [discriminate|]. destruct (blocked c rr); [discriminate|].
    apply bind_Some in H as (b & Hb & [= <- <-]). cbn.
    eapply (foldl_ok (λ b cn, bank_send b (feecol c) rr cn.1 cn.2)); [|exact Hb].
    intros b0 cn b0'. apply bank_send_ok'.
  - by destruct (Hleaf sender inner).
Qed.

(* supply >= 0 from the two bank invariants *)
Lemma supply_nonneg b d : bank_nonneg b → bank_ok b → 0 ≤ gets b d.
Proof.
  intros Hn Hok. rewrite <- Hok. apply mtotal_nonneg. intros [a d'] v Hk.
  specialize (Hn a d'). unfold getb in Hn. by rewrite Hk in Hn.
Qed.
