(* C12, L2 half: the opchild handlers succeed only for a signer the table allows; a batch is
   all-or-nothing; the bridge binding is immutable along every history. *)
From stdpp Require Import gmap numbers list.
From Coq Require Import ZArith Lia.
Require Import Model.Bytes Model.Bank Model.Valset Model.L2 Model.C12Spec Proofs.L2Lemmas.

(* ---- executors ---- *)
Lemma is_executor_listed c s a : is_executor c s a = true → listed_executor c s a.
Proof.
  unfold is_executor, listed_executor. destruct (resolve c a) as [id|] eqn:Ha; [|discriminate].
  destruct (mapM (resolve c) (p_execs (prm s))) as [ids|] eqn:M; [|discriminate].
  intros H. apply bool_decide_eq_true in H. apply mapM_Some in M.
  apply elem_of_list_lookup in H as [i Hi].
  destruct (Forall2_lookup_r _ _ _ _ _ M Hi) as (e & He & Hr).
  exists id, e. split; [done|]. split; [|done]. eapply elem_of_list_lookup_2; eauto.
Qed.

Lemma listed_is_executor c s a :
  Forall (λ e, is_Some (resolve c e)) (p_execs (prm s)) → listed_executor c s a → is_executor c s a = true.
Proof.
  intros Hall (id & e & Ha & He & Hr). unfold is_executor. rewrite Ha.
  destruct (mapM (resolve c) (p_execs (prm s))) as [ids|] eqn:M.
  - apply bool_decide_eq_true. apply mapM_Some in M.
    apply elem_of_list_lookup in He as [i Hi].
    destruct (Forall2_lookup_l _ _ _ _ _ M Hi) as (y & Hy & Hry).
    rewrite Hr in Hry. injection Hry as <-. eapply elem_of_list_lookup_2; eauto.
  - exfalso. assert (X : is_Some (mapM (resolve c) (p_execs (prm s)))) by (by apply mapM_is_Some).
    rewrite M in X. by destruct X.
Qed.

(* ---- the loop of ExecuteMessages is a fold of handle guarded by the signer check ---- *)
Definition inner_signer_is (c : cfg) (auth : N) (im : msg) : Prop :=
  ∃ sg, signer_of im = Some sg ∧ resolve c sg = Some auth.

Lemma exec_loop_Some c auth l : ∀ s s' r,
  exec_loop c auth s l = Some (s', r) ↔
  r = RNone ∧ Forall (inner_signer_is c auth) l ∧ fold_handle c s l = Some s'.
Proof.
  induction l as [|im l IH]; intros s s' r.
  - cbn. split.
    + intros [= <- <-]. auto.
    + intros (-> & _ & [= <-]). done.
  - rewrite exec_loop_cons. cbn [fold_handle]. split.
    + intros H. apply bind_Some in H as (sg & Hsg & H). apply bind_Some in H as (a & Ha & H).
      case_bool_decide as Heq; cbn [negb] in H; [|discriminate]. subst a.
      apply bind_Some in H as ([s1 r1] & Hh & H). apply IH in H as (-> & Hall & Hf).
      split; [done|]. split; [constructor; [exists sg; auto|done]|]. by rewrite Hh.
    + intros (-> & Hall & Hf). apply Forall_cons in Hall as [(sg & Hsg & Ha) Hall].
      rewrite Hsg. cbn. rewrite Ha. cbn. rewrite bool_decide_eq_true_2 by done. cbn [negb].
      destruct (handle c s im) as [[s1 r1]|] eqn:Hh; [|discriminate]. cbn.
      apply IH. auto.
Qed.

Lemma handle_execute_Some c s sender inner s' r :
  handle c s (MExecute sender inner) = Some (s', r) ↔
  is_Some (resolve c sender) ∧ inner ≠ [] ∧ p_admin (prm s) = sender ∧ r = RNone ∧
  (∃ au, resolve c (authority c) = Some au ∧ Forall (inner_signer_is c au) inner) ∧
  fold_handle c s inner = Some s'.
Proof.
  rewrite handle_execute. unfold is_admin. split.
  - intros H. case_bool_decide as H1; cbn [negb] in H; [|discriminate].
    case_bool_decide as H2; [discriminate|]. case_bool_decide as H3; cbn [negb] in H; [|discriminate].
    apply bind_Some in H as (au & Hau & H). apply exec_loop_Some in H as (-> & Hall & Hf).
    eauto 10.
  - intros (H1 & H2 & H3 & -> & (au & Hau & Hall) & Hf).
    rewrite bool_decide_eq_true_2 by done. cbn [negb]. rewrite bool_decide_eq_false_2 by done.
    rewrite bool_decide_eq_true_2 by done. cbn [negb]. rewrite Hau. cbn.
    apply exec_loop_Some. auto.
Qed.

(* ---- completeness: Ok only for an allowed signer ---- *)
Lemma handle_allowed c s m s' r : handle c s m = Some (s', r) → allowed_l2 c s m (l2_signer m).
Proof.
  destruct m as [f|w1 w2 w3 w4|b1 b2 b3 b4|sender bi|a p|a op key|a op|a rc coins|sender inner];
    unfold l2_signer; cbn [signer_of default allowed_l2]; try (intros _; exact I).
  - cbn [handle]. intros H. apply finalize_deposit_Some in H as (_ & He & _). by apply is_executor_listed.
  - cbn [handle]. intros H. apply set_bridge_info_Some in H as (He & _). by apply is_executor_listed.
  - cbn [handle]. intros H. by apply update_params_Some in H as (Ha & _).
  - cbn [handle]. intros H. by apply add_val_Some in H as (Ha & _).
  - cbn [handle]. intros H. by apply remove_val_Some in H as (Ha & _).
  - cbn [handle]. intros H. by apply spend_fee_pool_Some in H as (Ha & _).
  - intros H. apply handle_execute_Some in H as (_ & _ & Hadm & _ & (au & Hau & Hall) & _).
    split; [done|]. eapply Forall_impl; [exact Hall|].
    intros im (sg & Hsg & Hr). exists sg, au. auto.
Qed.

Lemma step_Ok c s m s' r : step c s m = (s', Ok r) → handle c s m = Some (s', r).
Proof. unfold step. destruct (handle c s m) as [[? ?]|]; intros [= <- <-]; auto. Qed.
Lemma step_None c s m : handle c s m = None → step c s m = (s, Err).
Proof. unfold step. by intros ->. Qed.
Lemma step_Some c s m s' r : handle c s m = Some (s', r) → step c s m = (s', Ok r).
Proof. unfold step. by intros ->. Qed.

Lemma c12_l2_complete c s m s' r : step c s m = (s', Ok r) → allowed_l2 c s m (l2_signer m).
Proof. intros H. eapply handle_allowed, step_Ok, H. Qed.

Lemma c12_l2_refused c s m : ¬ allowed_l2 c s m (l2_signer m) → step c s m = (s, Err).
Proof.
  intros Hn. apply step_None. destruct (handle c s m) as [[s' r]|] eqn:E; [|done].
  exfalso. eapply Hn, handle_allowed, E.
Qed.

(* ---- all-or-nothing ---- *)
Lemma c12_exec_all_or_nothing c s sender inner s' r :
  step c s (MExecute sender inner) = (s', r) →
  (r = Ok RNone ∧ inner ≠ [] ∧ fold_handle c s inner = Some s') ∨ (r = Err ∧ s' = s).
Proof.
  unfold step. destruct (handle c s (MExecute sender inner)) as [[s1 r1]|] eqn:E.
  - intros [= <- <-]. apply handle_execute_Some in E as (_ & Hne & _ & -> & _ & Hf). left. auto.
  - intros [= <- <-]. right. auto.
Qed.

Lemma c12_exec_applies_all c s sender inner s' au :
  is_Some (resolve c sender) → inner ≠ [] → p_admin (prm s) = sender →
  resolve c (authority c) = Some au → Forall (inner_signer_is c au) inner →
  fold_handle c s inner = Some s' →
  step c s (MExecute sender inner) = (s', Ok RNone).
Proof.
  intros H1 H2 H3 H4 H5 H6. apply step_Some. apply handle_execute_Some. eauto 10.
Qed.

Lemma c12_exec_fails_if_any_fails c s sender inner :
  fold_handle c s inner = None → step c s (MExecute sender inner) = (s, Err).
Proof.
  intros Hf. apply step_None. destruct (handle c s (MExecute sender inner)) as [[s1 r1]|] eqn:E; [|done].
  apply handle_execute_Some in E as (_ & _ & _ & _ & _ & Hx). congruence.
Qed.

Lemma fold_handle_app c l1 : ∀ l2 s s',
  fold_handle c s (l1 ++ l2) = Some s' ↔ ∃ si, fold_handle c s l1 = Some si ∧ fold_handle c si l2 = Some s'.
Proof.
  induction l1 as [|m l1 IH]; intros l2 s s'; cbn [app fold_handle].
  - split; [eauto|]. by intros (si & [= <-] & H).
  - destruct (handle c s m) as [[s1 r1]|]; [apply IH|]. split; [discriminate|]. by intros (si & ? & _).
Qed.

(* every inner message of a successful batch was allowed on the state it ran on *)
Lemma c12_exec_inner_allowed c l1 m l2 s s' :
  fold_handle c s (l1 ++ m :: l2) = Some s' →
  ∃ si, fold_handle c s l1 = Some si ∧ allowed_l2 c si m (l2_signer m).
Proof.
  intros H. apply fold_handle_app in H as (si & H1 & H2). exists si. split; [done|].
  cbn [fold_handle] in H2. destruct (handle c si m) as [[s1 r1]|] eqn:E; [|discriminate].
  eapply handle_allowed, E.
Qed.

(* ---- the bridge binding ---- *)
Lemma binding_refl o : binding_kept o o.
Proof. destruct o as [bi|]; [|done]. exists bi. auto. Qed.
Lemma binding_eq o o' : o' = o → binding_kept o o'.
Proof. intros ->. apply binding_refl. Qed.
Lemma binding_trans o1 o2 o3 : binding_kept o1 o2 → binding_kept o2 o3 → binding_kept o1 o3.
Proof.
  destruct o1 as [b1|]; [|done]. intros (b2 & -> & Ha & Hb & Hc & Hd). cbn.
  intros (b3 & -> & Ha' & Hb' & Hc' & Hd'). exists b3. split; [done|].
  split; [congruence|]. split; [congruence|]. split; [congruence|].
  intros Hne. rewrite Hd', Hd; [done|done|]. rewrite Hd; done.
Qed.

Lemma compatible_kept old new : binfo_compatible old new = true → binding_kept (Some old) (Some new).
Proof.
  unfold binfo_compatible. intros H.
  apply andb_true_iff in H as [H H4]. apply andb_true_iff in H as [H H3].
  apply andb_true_iff in H as [H1 H2].
  apply bool_decide_eq_true in H1, H2, H3. exists new. split; [done|].
  split; [done|]. split; [done|]. split; [done|]. intros Hne.
  apply orb_true_iff in H4 as [H4|H4]; apply bool_decide_eq_true in H4; [done|done].
Qed.

Lemma handle_binding m : ∀ c s s' r, handle c s m = Some (s', r) → binding_kept (info s) (info s').
Proof.
  induction m as [f|w1 w2 w3 w4|b1 b2 b3 b4|i1 i2|u1 u2|v1 v2 v3|r1 r2|p1 p2 p3|sender inner IH] using msg_ind';
    intros c s s' r; [cbn [handle]..|].
  - intros H. apply finalize_deposit_Some in H as (_ & _ & [(_ & -> & _)|(_ & _ & _ & ok & _ & _ & Hi & _)]).
    + apply binding_refl.
    + by apply binding_eq.
  - intros H. apply withdraw_Some in H as (?&?&?&?&_&_&_&_&_&_&_&_&->). apply binding_refl.
  - intros H. apply bank_send_msg_Some in H as (? & -> & _). apply binding_refl.
  - intros H. apply set_bridge_info_Some in H as (_ & _ & Hc & -> & _). cbn.
    destruct (info s) as [old|]; [|done]. by apply compatible_kept.
  - intros H. apply update_params_Some in H as (_&_&->&_). apply binding_refl.
  - intros H. apply add_val_Some in H as (_&?&?&_&_&->&_). apply binding_refl.
  - intros H. apply remove_val_Some in H as (_&?&?&_&_&->&_). apply binding_refl.
  - intros H. apply spend_fee_pool_Some in H as (_&?&->&_). apply binding_refl.
  - intros H. apply handle_execute_Some in H as (_ & _ & _ & _ & _ & Hf). clear -IH Hf.
    revert s Hf. induction inner as [|im l IHl]; intros s; cbn [fold_handle].
    + intros [= <-]. apply binding_refl.
    + destruct (handle c s im) as [[s1 r1]|] eqn:Hh; [|discriminate]. intros Hf.
      apply Forall_cons in IH as [IHim IHrest].
      eapply binding_trans; [eapply IHim; eauto|]. apply IHl; auto.
Qed.

Lemma end_block_binding c s pl s' ups : end_block c s pl = Some (s', ups) → info s' = info s.
Proof.
  unfold end_block. intros H. apply bind_Some in H as (s1 & H1 & H).
  apply bind_Some in H as ([v u] & _ & [= <- <-]). cbn.
  destruct pl as [p|]; [|by injection H1 as <-].
  unfold change_executor in H1. apply set_params_Some in H1 as (_ & _ & ->). reflexivity.
Qed.

Lemma step_ev_binding c s ev : binding_kept (info s) (info (step_ev c s ev)).
Proof.
  destruct ev as [m|pl]; cbn [step_ev].
  - unfold step. destruct (handle c s m) as [[s' r]|] eqn:E; cbn; [|apply binding_refl].
    eapply handle_binding, E.
  - destruct (end_block c s pl) as [[s' ups]|] eqn:E; [|apply binding_refl].
    apply binding_eq. eapply end_block_binding, E.
Qed.

Lemma c12_binding_immutable c h : ∀ s, binding_kept (info s) (info (run_ev c s h)).
Proof.
  unfold run_ev. induction h as [|ev h IH]; intros s; cbn [foldl]; [apply binding_refl|].
  eapply binding_trans; [apply step_ev_binding|apply IH].
Qed.

(* spelled out: once set, the four fields are fixed in every later state *)
Lemma c12_binding_fields c h s bi :
  info s = Some bi →
  ∃ bi', info (run_ev c s h) = Some bi' ∧ bi_id bi' = bi_id bi ∧ bi_addr bi' = bi_addr bi ∧
         bi_chain bi' = bi_chain bi ∧ (bi_client bi ≠ [] → bi_client bi' = bi_client bi).
Proof. intros Hi. pose proof (c12_binding_immutable c h s) as H. rewrite Hi in H. exact H. Qed.

(* a re-pointing SetBridgeInfo is refused, whoever sends it *)
Lemma c12_repoint_refused c s sender old bi :
  info s = Some old →
  (bi_id bi ≠ bi_id old ∨ bi_addr bi ≠ bi_addr old ∨ bi_chain bi ≠ bi_chain old ∨
   (bi_client old ≠ [] ∧ bi_client bi ≠ bi_client old)) →
  step c s (MSetBridgeInfo sender bi) = (s, Err).
Proof.
  intros Hi Hd. apply step_None. cbn [handle].
  destruct (set_bridge_info c s sender bi) as [[s' r]|] eqn:E; [|done]. exfalso.
  apply set_bridge_info_Some in E as (_ & _ & Hc & _). rewrite Hi in Hc.
  apply compatible_kept in Hc as (bi' & [= <-] & H1 & H2 & H3 & H4).
  destruct Hd as [Hd|[Hd|[Hd|[Hne Hd]]]]; auto.
Qed.

(* ---- role changes take effect immediately ---- *)
Lemma c12_params_take_effect c s a p s' r :
  step c s (MUpdateParams a p) = (s', Ok r) → prm s' = p ∧ info s' = info s ∧ params_valid c p = true.
Proof.
  intros H. apply step_Ok in H. cbn [handle] in H. apply update_params_Some in H as (_ & Hv & -> & _). auto.
Qed.

Lemma params_valid_execs c p : params_valid c p = true → Forall (λ e, is_Some (resolve c e)) (p_execs p).
Proof.
  unfold params_valid. intros H.
  assert (X : forallb (λ e, bool_decide (is_Some (resolve c e))) (p_execs p) = true).
  { repeat (apply andb_true_iff in H as [H ?]); assumption. }
  rewrite forallb_forall in X. apply Forall_forall. intros e He.
  eapply bool_decide_eq_true_1, X. by apply elem_of_list_In.
Qed.

(* the old executor: refused for both executor-guarded messages unless still listed *)
Lemma c12_old_executor_refused c s a p s' r old :
  step c s (MUpdateParams a p) = (s', Ok r) →
  (∀ e, e ∈ p_execs p → resolve c e ≠ resolve c old) →
  (∀ f, fd_sender f = old → step c s' (MFinalizeDeposit f) = (s', Err)) ∧
  (∀ bi, step c s' (MSetBridgeInfo old bi) = (s', Err)).
Proof.
  intros H Hnot. apply c12_params_take_effect in H as (Hp & _ & _).
  assert (Hn : ¬ listed_executor c s' old).
  { intros (id & e & Ha & He & Hr). rewrite Hp in He. apply (Hnot e He). congruence. }
  split.
  - intros f <-. apply c12_l2_refused. exact Hn.
  - intros bi. apply c12_l2_refused. exact Hn.
Qed.

(* the new executor is accepted at once (bridge info not yet set, or compatible) *)
Lemma c12_new_executor_accepted c s a p s' r new bi :
  step c s (MUpdateParams a p) = (s', Ok r) →
  new ∈ p_execs p → binfo_valid bi = true →
  match info s' with None => True | Some old => binfo_compatible old bi = true end →
  step c s' (MSetBridgeInfo new bi) = (set_info s' (Some bi), Ok RNone).
Proof.
  intros H Hin Hv Hc. apply c12_params_take_effect in H as (Hp & _ & Hpv).
  apply params_valid_execs in Hpv.
  assert (Hs : is_Some (resolve c new)).
  { rewrite Forall_forall in Hpv. by apply Hpv. }
  assert (He : is_executor c s' new = true).
  { apply listed_is_executor; [by rewrite Hp|]. destruct Hs as [id Hid].
    exists id, new. rewrite Hp. auto. }
  apply step_Some. cbn [handle]. unfold set_bridge_info.
  rewrite bool_decide_eq_true_2 by done. rewrite Hv, He. cbn [andb negb].
  destruct (info s') as [old|]; [rewrite Hc|]; reflexivity.
Qed.

(* the old admin's batch is refused, whatever it carries *)
Lemma c12_old_admin_refused c s a p s' r old inner :
  step c s (MUpdateParams a p) = (s', Ok r) → old ≠ p_admin p →
  step c s' (MExecute old inner) = (s', Err).
Proof.
  intros H Hne. apply c12_params_take_effect in H as (Hp & _ & _).
  apply c12_l2_refused. unfold l2_signer. cbn. intros [Hadm _]. unfold is_current_admin in Hadm.
  rewrite Hp in Hadm. congruence.
Qed.

(* the new admin's batch is accepted: here one carrying the authority's own params update *)
Lemma c12_new_admin_accepted c s a p s' r :
  step c s (MUpdateParams a p) = (s', Ok r) →
  ∃ s'', step c s' (MExecute (p_admin p) [MUpdateParams (authority c) p]) = (s'', Ok RNone) ∧ prm s'' = p.
Proof.
  intros H. apply step_Ok in H. cbn [handle] in H.
  assert (Hg : is_Some (resolve c a) ∧ authority c = a ∧ params_valid c p = true ∧
               (N.of_nat (size (vals (vs s))) ≤ p_maxv p)%N ∧ s' = set_prm s p).
  { unfold update_params in H. destruct (bool_decide (is_Some (resolve c a)) && params_valid c p) eqn:G;
      cbn [negb] in H; [|discriminate]. apply andb_true_iff in G as [G1 G2]. apply bool_decide_eq_true in G1.
    unfold is_authority in H. case_bool_decide as Ha; cbn [negb] in H; [|discriminate].
    apply bind_Some in H as (s1 & Hs1 & [= <- <-]). apply set_params_Some in Hs1 as (_ & Hm & ->). auto. }
  destruct Hg as (Hra & <- & Hv & Hm & ->).
  assert (Hadm : is_Some (resolve c (p_admin p))).
  { unfold params_valid in Hv. repeat (apply andb_true_iff in Hv as [Hv ?]). by apply bool_decide_eq_true in Hv. }
  destruct Hra as [au Hau].
  assert (Hh : handle c (set_prm s p) (MUpdateParams (authority c) p) = Some (set_prm (set_prm s p) p, RNone)).
  { cbn [handle]. unfold update_params. rewrite bool_decide_eq_true_2 by eauto. rewrite Hv. cbn [andb negb].
    unfold is_authority. rewrite bool_decide_eq_true_2 by done. cbn [negb].
    unfold set_params. rewrite Hv. cbn [negb]. rewrite bool_decide_eq_false_2; [done|]. cbn. lia. }
  exists (set_prm (set_prm s p) p). split; [|done].
  eapply c12_exec_applies_all; eauto.
  - constructor; [|constructor]. exists (authority c). split; [done|done].
  - cbn [fold_handle]. by rewrite Hh.
Qed.
