(* Non-vacuity of the C03 theorems: a concrete history with the real SHA3-256 in which an
   output honestly commits to three withdrawals and the second one is finalized. *)
From stdpp Require Import gmap numbers list.
From Coq Require Import ZArith String.
Require Import Model.Bytes Model.Bank Model.Hashes Model.Merkle Model.Sha3 Model.L1.
Require Import Proofs.MerkleProofs Proofs.C03Binding Proofs.C03Finalize Proofs.C03Proofs.
Local Open Scope string_scope.

Definition ex_c : cfg :=
  {| resolve := λ a, if bytes_eqb a (bs "alice") then Some 1%N
                     else if bytes_eqb a (bs "bob") then Some 2%N else None;
     gov := bs "gov"; escrow := λ b, (1000 + b)%N; pool := 101%N; hash := sha3_256;
     parse := λ _, None |}.

Definition ex_ws : list wd :=
  [ {| w_seq := 1; w_from := bs "l2user"; w_to := bs "alice"; w_denom := bs "uinit"; w_amt := 7 |};
    {| w_seq := 2; w_from := bs "l2user"; w_to := bs "bob"; w_denom := bs "uinit"; w_amt := 5 |};
    {| w_seq := 3; w_from := bs "other"; w_to := bs "bob"; w_denom := bs "uinit"; w_amt := 18446744073709551615 |} ].
Definition ex_L : list bytes := map (wd_leaf sha3_256 1) ex_ws.
Definition ex_bh : bytes := repeat 9%N 32.
Definition ex_sroot : bytes := build sha3_256 ex_L.

Definition ex_config : config :=
  {| c_proposer := bs "alice"; c_challenger := bs "alice"; c_period := 1000000000; c_interval := 1;
     c_start := 1; c_batch := {| b_submitter := bs "alice"; b_chain := 1 |}; c_oracle := false; c_meta := [] |}.

Definition ex_s0 : l1state :=
  upd_bk init_state {| bal := {[ (1%N, bs "uinit") := 100%Z ]}; sup := ∅ |}.
Definition ex_e0 : env := {| now := 1000000000000; height := 5 |}.
Definition ex_e1 : env := {| now := 1002000000000; height := 6 |}.

Definition ex_setup : list (env * msg) :=
  [ (ex_e0, MCreateBridge (bs "alice") ex_config);
    (ex_e0, MDeposit (bs "alice") 1 (bs "l2addr") (bs "uinit") 50 []);
    (ex_e0, MPropose (bs "alice") 1 1 10 (output_root sha3_256 2 ex_sroot ex_bh)) ].
Definition ex_claim : msg :=
  MFinalize (bs "bob") 1 1 2 (prove sha3_256 ex_L 1) (bs "l2user") (bs "bob") (bs "uinit") 5 [2%N] ex_sroot ex_bh.

Definition ex_s3 : l1state := (run ex_c ex_s0 ex_setup).1.

Example ex_setup_ok : (run ex_c ex_s0 ex_setup).2 = [Ok (RId 1); Ok (RId 1); Ok RNone].
Proof. vm_compute. reflexivity. Qed.

(* the hypotheses of C03_forgery_needs_collision / C03_forged_fields hold ... *)
Example ex_honest : honest_commitment ex_c ex_s3 1 1 ex_L.
Proof.
  exists {| o_root := output_root sha3_256 2 ex_sroot ex_bh; o_l1h := 5; o_time := 1000000000000; o_l2 := 10 |}, 2%N, ex_bh.
  split; [|split; reflexivity]. vm_compute. reflexivity.
Qed.
Example ex_u64 : Forall wd_u64 ex_ws.
Proof. repeat constructor. Qed.

(* ... the claim of the second withdrawal is paid, and only once ... *)
Example ex_claim_ok : (step ex_c ex_e1 ex_s3 ex_claim).2 = Ok RNone.
Proof. vm_compute. reflexivity. Qed.
Example ex_claim_twice : (step ex_c ex_e1 (step ex_c ex_e1 ex_s3 ex_claim).1 ex_claim).2 = Err.
Proof. vm_compute. reflexivity. Qed.

(* ... while the same claim with the amount changed, with the third leaf's proof, against a
   changed version byte, or before finality is rejected *)
Example ex_forged_amount :
  (step ex_c ex_e1 ex_s3 (MFinalize (bs "bob") 1 1 2 (prove sha3_256 ex_L 1) (bs "l2user") (bs "bob") (bs "uinit") 6 [2%N] ex_sroot ex_bh)).2 = Err.
Proof. vm_compute. reflexivity. Qed.
Example ex_forged_proof :
  (step ex_c ex_e1 ex_s3 (MFinalize (bs "bob") 1 1 2 (prove sha3_256 ex_L 2) (bs "l2user") (bs "bob") (bs "uinit") 5 [2%N] ex_sroot ex_bh)).2 = Err.
Proof. vm_compute. reflexivity. Qed.
Example ex_forged_version :
  (step ex_c ex_e1 ex_s3 (MFinalize (bs "bob") 1 1 2 (prove sha3_256 ex_L 1) (bs "l2user") (bs "bob") (bs "uinit") 5 [3%N] ex_sroot ex_bh)).2 = Err.
Proof. vm_compute. reflexivity. Qed.
Example ex_not_final : (step ex_c ex_e0 ex_s3 ex_claim).2 = Err.
Proof. vm_compute. reflexivity. Qed.
