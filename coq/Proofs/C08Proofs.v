(* C08 - end-to-end solvency of one bridge: the L1 escrow backs the L2 supply plus everything in
   flight.  Proof scripts.  L1 and L2 names are used qualified. *)
From stdpp Require Import gmap numbers list.
From Coq Require Import ZArith Lia.
Require Import Model.Bytes Model.Bank Model.Hashes Model.Merkle Model.Valset Model.System.
Require Model.L1 Model.L2.
Require Import Proofs.L2Lemmas Proofs.C04Proofs.

(* ------------------------------------------------------------------------------------ *)
(* 1. sums over logs                                                                       *)
(* ------------------------------------------------------------------------------------ *)
Lemma zsum_ext {A} (f g : A → Z) l : (∀ x, x ∈ l → f x = g x) → zsum f l = zsum g l.
Proof.
  induction l as [|a l IH]; intros Hfg; cbn; [done|].
  rewrite Hfg by left. rewrite IH; [done|]. intros x Hx. apply Hfg. by right.
Qed.

(* changing the summand only at the element with key [key x] (unique) from [f x] to 0 *)
Lemma zsum_remove {A} (key : A → N) (f g : A → Z) l x :
  NoDup (key <$> l) → x ∈ l → (∀ y, y ∈ l → key y ≠ key x → g y = f y) → g x = 0%Z →
  zsum g l = (zsum f l - f x)%Z.
Proof.
  induction l as [|a l IH]; intros Hnd Hin Hext Hgx; [by apply elem_of_nil in Hin|].
  rewrite fmap_cons in Hnd. apply NoDup_cons in Hnd as [Hna Hnd]. cbn [zsum].
  apply elem_of_cons in Hin as [->|Hin].
  - rewrite Hgx. rewrite (zsum_ext g f l); [lia|].
    intros y Hy. apply Hext; [by right|]. intros Heq. apply Hna. rewrite <- Heq.
    by apply elem_of_list_fmap_1.
  - assert (key a ≠ key x).
    { intros Heq. apply Hna. rewrite Heq. by apply elem_of_list_fmap_1. }
    rewrite (Hext a) by (done || left). rewrite IH; auto; [lia|].
    intros y Hy. apply Hext. by right.
Qed.

Lemma zsum_nonneg {A} (f : A → Z) l : (∀ x, x ∈ l → (0 ≤ f x)%Z) → (0 ≤ zsum f l)%Z.
Proof.
  induction l as [|a l IH]; intros Hf; cbn; [lia|].
  pose proof (Hf a ltac:(left)). assert (0 ≤ zsum f l)%Z by (apply IH; intros; apply Hf; by right). lia.
Qed.

Lemma zsum_ge_elem {A} (f : A → Z) l x : (∀ y, y ∈ l → (0 ≤ f y)%Z) → x ∈ l → (f x ≤ zsum f l)%Z.
Proof.
  induction l as [|a l IH]; intros Hf Hin; [by apply elem_of_nil in Hin|]. cbn.
  assert (Hl : ∀ y, y ∈ l → (0 ≤ f y)%Z) by (intros; apply Hf; by right).
  pose proof (zsum_nonneg f l Hl). pose proof (Hf a ltac:(left)).
  apply elem_of_cons in Hin as [->|Hin]; [lia|]. specialize (IH Hl Hin). lia.
Qed.

Lemma find_elem {A} (P : A → bool) l x : List.find P l = Some x → x ∈ l ∧ P x = true.
Proof. intros Hf. apply find_some in Hf as [Hin HP]. split; [by apply elem_of_list_In|done]. Qed.

(* ------------------------------------------------------------------------------------ *)
(* 2. supply                                                                               *)
(* ------------------------------------------------------------------------------------ *)
Lemma gets_mint b macc d amt d' :
  gets (bank_mint b macc d amt) d' = (if decide (d' = d) then gets b d + amt else gets b d')%Z.
Proof.
  unfold gets, bank_mint. cbn. destruct (decide (d' = d)) as [->|Hne].
  - by rewrite lookup_insert.
  - by rewrite lookup_insert_ne.
Qed.

Lemma gets_sup b b' d : sup b' = sup b → gets b' d = gets b d.
Proof. unfold gets. by intros ->. Qed.

Lemma bank_send_sup b from to d amt b' : bank_send b from to d amt = Some b' → sup b' = sup b.
Proof. intros Hx. by apply bank_send_Some in Hx as (_ & ? & _). Qed.

Lemma bank_burn_Some b macc d amt b' : bank_burn b macc d amt = Some b' →
  ∀ d', gets b' d' = (if decide (d' = d) then gets b d - amt else gets b d')%Z.
Proof.
  unfold bank_burn. intros Hx. apply bind_Some in Hx as (b1 & Hd & [= <-]).
  apply debit_Some in Hd as (_ & Hs & _). intros d'. unfold gets at 1. cbn. rewrite Hs.
  destruct (decide (d' = d)) as [->|Hne].
  - by rewrite lookup_insert.
  - by rewrite lookup_insert_ne.
Qed.

Lemma fold_send_sup {X} (send : bank → X → option bank) (l : list X) :
  (∀ b x b', send b x = Some b' → sup b' = sup b) →
  ∀ b b', foldl (λ ob x, b ← ob; send b x) (Some b) l = Some b' → sup b' = sup b.
Proof.
  intros Hs. induction l as [|x l IH]; intros b b'; cbn.
  - by intros [= ->].
  - destruct (send b x) as [b1|] eqn:E; cbn.
    + intros Hx. rewrite (IH _ _ Hx). eauto.
    + intros Hx. exfalso. clear -Hx. induction l as [|y l IHl]; cbn in Hx; [discriminate|auto].
Qed.

Lemma safe_deposit_sup c s a d amt s1 ok : L2.safe_deposit c s a d amt = (s1, ok) →
  (ok = true → ∀ d', gets (L2.bk s1) d' = (gets (L2.bk s) d' + (if decide (d' = d) then amt else 0))%Z) ∧
  (ok = false → L2.bk s1 = L2.bk s).
Proof.
  unfold L2.safe_deposit. destruct (amt =? 0)%Z eqn:E0.
  { intros [= <- <-]. apply Z.eqb_eq in E0. subst. split; [|done]. intros _ d'. destruct (decide _); lia. }
  destruct (L2.blocked c a); [intros [= <- <-]; split; [discriminate|done]|].
  destruct (bank_send _ _ _ _ _) as [b|] eqn:Hs; intros [= <- <-]; [|split; [discriminate|done]].
  split; [|discriminate]. intros _ d'. cbn. rewrite (gets_sup _ _ _ (bank_send_sup _ _ _ _ _ _ Hs)).
  rewrite gets_mint. destruct (decide _); subst; lia.
Qed.

Definition pairs_after (s : L2.l2state) (m : L2.fdep) : gmap bytes bytes :=
  match L2.pairs s !! L2.fd_denom m with
  | Some _ => L2.pairs s
  | None => <[L2.fd_denom m := L2.fd_base m]> (L2.pairs s)
  end.

(* ------------------------------------------------------------------------------------ *)
(* 3. a deposit message in stages: credit (s3), then the hook (s4), or the refund          *)
(* ------------------------------------------------------------------------------------ *)
Lemma finalize_deposit_stages c s m s' r :
  L2.finalize_deposit c s m = Some (s', r) →
  (r = L2.RNoop ∧ s' = s) ∨
  (L2.fd_seq m = L2.next_l1 s ∧
   ∃ s3, L2.next_l1 s3 = (L2.next_l1 s + 1)%N ∧ L2.next_l2 s3 = L2.next_l2 s ∧ L2.wlog s3 = L2.wlog s ∧
         L2.pairs s3 = pairs_after s m ∧
     (((∀ d, gets (L2.bk s3) d = (gets (L2.bk s) d + (if decide (d = L2.fd_denom m) then L2.fd_amt m else 0))%Z) ∧
       ∃ s4, ((∃ h, L2.run_hook c s3 h = (s4, true)) ∨ s4 = s3) ∧
             L2.next_l1 s' = L2.next_l1 s4 ∧ L2.next_l2 s' = L2.next_l2 s4 ∧ L2.wlog s' = L2.wlog s4 ∧
             L2.pairs s' = L2.pairs s4 ∧ L2.bk s' = L2.bk s4) ∨
      (∃ base, L2.pairs s' !! L2.fd_denom m = Some base ∧ L2.pairs s' = L2.pairs s3 ∧
               L2.next_l1 s' = L2.next_l1 s3 ∧ L2.next_l2 s' = (L2.next_l2 s + 1)%N ∧
               L2.wlog s' = {| L2.w_seq := L2.next_l2 s; L2.w_from := L2.fd_to m; L2.w_to := L2.fd_from m;
                               L2.w_denom := L2.fd_denom m; L2.w_base := base; L2.w_amt := L2.fd_amt m;
                               L2.w_refund := true |} :: L2.wlog s ∧
               ∀ d, gets (L2.bk s') d = gets (L2.bk s) d))).
Proof.
  unfold L2.finalize_deposit.
  destruct (L2.fdep_valid c m) eqn:Hv; [|discriminate]. cbn [negb].
  destruct (L2.is_executor c s (L2.fd_sender m)) eqn:He; [|discriminate]. cbn [negb].
  destruct (L2.fd_seq m <? L2.next_l1 s)%N eqn:Hlt.
  { intros [= <- <-]. left; done. }
  destruct (L2.next_l1 s <? L2.fd_seq m)%N eqn:Hgt; [discriminate|].
  apply N.ltb_ge in Hlt, Hgt. assert (Hseq : L2.fd_seq m = L2.next_l1 s) by lia.
  destruct (match L2.resolve c (L2.fd_to m) with
            | Some a => L2.safe_deposit c s a (L2.fd_denom m) (L2.fd_amt m)
            | None => (s, false) end) as [s1 dep_ok] eqn:Hdep.
  assert (F1 : frame_bk s s1).
  { destruct (L2.resolve c (L2.fd_to m)); [eapply safe_deposit_frame; eauto|].
    injection Hdep as <- <-. apply frame_bk_refl. }
  assert (S1 : (dep_ok = true → ∀ d', gets (L2.bk s1) d' =
                   (gets (L2.bk s) d' + (if decide (d' = L2.fd_denom m) then L2.fd_amt m else 0))%Z) ∧
               (dep_ok = false → L2.bk s1 = L2.bk s)).
  { destruct (L2.resolve c (L2.fd_to m)); [eapply safe_deposit_sup; eauto|].
    injection Hdep as <- <-. split; [discriminate|done]. }
  destruct S1 as [S1t S1f].
  destruct F1 as (F1a & F1b & F1c & F1d & F1e & F1f & F1g & F1h & F1i).
  set (s2 := L2.set_next_l1 s1 (L2.next_l1 s1 + 1)).
  set (s3 := match L2.pairs s2 !! L2.fd_denom m with
             | Some _ => s2
             | None => L2.set_pairs s2 (<[L2.fd_denom m:=L2.fd_base m]> (L2.pairs s2)) end).
  assert (F3 : L2.pairs s3 = pairs_after s m ∧ L2.next_l2 s3 = L2.next_l2 s ∧ L2.wlog s3 = L2.wlog s ∧
               L2.next_l1 s3 = (L2.next_l1 s + 1)%N ∧ L2.bk s3 = L2.bk s1).
  { unfold pairs_after. subst s3 s2. cbn [L2.set_next_l1 L2.pairs]. rewrite F1c.
    destruct (L2.pairs s !! L2.fd_denom m); cbn; rewrite ?F1c, ?F1a; auto 10. }
  destruct F3 as (F3a & F3b & F3c & F3d & F3e).
  destruct (if dep_ok && L2.hook_nonempty (L2.fd_hook m) then L2.run_hook c s3 (L2.fd_hook m) else (s3, true))
    as [s4 hook_ok] eqn:Hhook.
  destruct (dep_ok && hook_ok) eqn:Hok.
  { intros [= <- <-]. right. split; [done|]. exists s3. split; [done|]. split; [done|]. split; [done|]. split; [done|].
    left. apply andb_true_iff in Hok as [-> ->]. split.
    - intros d. rewrite F3e. by apply S1t.
    - exists s4. split; [|cbn; done].
      cbn [andb] in Hhook. destruct (L2.hook_nonempty (L2.fd_hook m)); [left; eexists; exact Hhook|].
      right. by injection Hhook as <-. }
  intros Hrest. apply bind_Some in Hrest as (s5 & Hs5 & Hrest).
  apply bind_Some in Hrest as (base & Hbase & Hrest). injection Hrest as <- <-.
  assert (K : L2.wlog s4 = L2.wlog s3 ∧ L2.next_l2 s4 = L2.next_l2 s3 ∧ L2.bk s4 = L2.bk s3 ∧
              L2.pairs s4 = L2.pairs s3 ∧ L2.next_l1 s4 = L2.next_l1 s3).
  { destruct dep_ok; cbn [andb] in Hok, Hhook.
    - subst hook_ok. destruct (L2.hook_nonempty (L2.fd_hook m)); [|discriminate].
      apply run_hook_frame in Hhook as ((Fa & Fb & _) & _ & Hk). destruct (Hk eq_refl) as (? & ? & ?). auto 10.
    - by injection Hhook as <- _. }
  destruct K as (K1 & K2 & K3 & K4 & K5).
  assert (F5 : frame_bk s4 s5 ∧ ∀ d, gets (L2.bk s5) d = gets (L2.bk s) d).
  { destruct dep_ok.
    - apply bind_Some in Hs5 as (a & _ & Hs5). apply bind_Some in Hs5 as (b1 & Hb1 & Hs5).
      apply bind_Some in Hs5 as (b2 & Hb2 & Hs5). injection Hs5 as <-. split; [apply frame_bk_set|].
      intros d. cbn. rewrite (bank_burn_Some _ _ _ _ _ Hb2 d).
      rewrite !(gets_sup _ _ _ (bank_send_sup _ _ _ _ _ _ Hb1)), !K3, !F3e.
      rewrite !(S1t eq_refl). destruct (decide (d = L2.fd_denom m)) as [->|Hne].
      + rewrite decide_True by done. lia.
      + lia.
    - injection Hs5 as <-. split; [apply frame_bk_refl|]. intros d.
      rewrite K3, F3e. by rewrite (S1f eq_refl). }
  destruct F5 as [(F5a & F5b & F5c & F5d & F5e & F5f & F5g & F5h & F5i) S5].
  right. split; [done|]. exists s3. split; [done|]. split; [done|]. split; [done|]. split; [done|].
  right. exists base. cbn. split; [congruence|]. split; [congruence|]. split; [congruence|].
  split; [congruence|]. split; [|exact S5].
  replace (L2.next_l2 s5) with (L2.next_l2 s) by congruence.
  replace (L2.wlog s5) with (L2.wlog s) by congruence. reflexivity.
Qed.

(* ------------------------------------------------------------------------------------ *)
(* 4. the effect of the L1 handlers on bank, logs and claim set                            *)
(* ------------------------------------------------------------------------------------ *)
Lemma l1_deposit_effect c e s sender b to d amt data s' r :
  L1.deposit c e s sender b to d amt data = Some (s', r) →
  ∃ sd, L1.resolve c sender = Some sd ∧ (0 ≤ amt)%Z ∧
    (if (0 <? amt)%Z then bank_send (L1.bk s) sd (L1.escrow c b) d amt = Some (L1.bk s')
     else L1.bk s' = L1.bk s) ∧
    L1.elog s' = {| L1.e_bridge := b; L1.e_seq := L1.seq_of s b; L1.e_from := sender; L1.e_to := to;
                    L1.e_l1denom := d; L1.e_l2denom := l2_denom (L1.hash c) b d; L1.e_amt := amt;
                    L1.e_data := data |} :: L1.elog s ∧
    L1.seq_of s' b = (L1.seq_of s b + 1)%N ∧ L1.proven s' = L1.proven s.
Proof.
  intros Hx. pose proof (l1_deposit_Some _ _ _ _ _ _ _ _ _ _ _ Hx) as (_ & _ & _ & Hamt & _ & _).
  unfold L1.deposit in Hx. apply bind_Some in Hx as (sd & Hsd & Hx).
  case_bool_decide; [discriminate|]. destruct (negb _); [discriminate|].
  destruct (b =? 0)%N; [discriminate|]. apply bind_Some in Hx as (x & _ & Hx).
  apply bind_Some in Hx as (b1 & Hb1 & [= <- <-]).
  exists sd. split; [done|]. split; [lia|]. cbn. split; [|split; [done|split; [|done]]].
  - destruct (0 <? amt)%Z; [done|]. by injection Hb1 as <-.
  - unfold L1.seq_of. cbn. by rewrite lookup_insert.
Qed.

Lemma l1_bank_send_effect s from to d amt s' r :
  L1.bank_send_msg s from to d amt = Some (s', r) →
  bank_send (L1.bk s) from to d amt = Some (L1.bk s') ∧ L1.elog s' = L1.elog s ∧
  L1.next_seq s' = L1.next_seq s ∧ L1.proven s' = L1.proven s.
Proof.
  unfold L1.bank_send_msg. destruct (negb _); [discriminate|]. intros Hx.
  apply bind_Some in Hx as (b & Hb & [= <- <-]). done.
Qed.

Lemma l1_propose_effect c e s p b idx l2 root s' r :
  L1.propose c e s p b idx l2 root = Some (s', r) →
  L1.bk s' = L1.bk s ∧ L1.elog s' = L1.elog s ∧ L1.next_seq s' = L1.next_seq s ∧ L1.proven s' = L1.proven s.
Proof.
  unfold L1.propose. intros Hx.
  destruct (negb (L1.valid_addr c p)); [discriminate|].
  destruct (b =? 0)%N; [discriminate|].
  destruct (negb (length root =? 32)%nat); [discriminate|].
  apply bind_Some in Hx as (x & _ & Hx).
  destruct (negb (bool_decide _)); [discriminate|].
  destruct (negb (idx =? _)%N); [discriminate|].
  destruct (negb _); [discriminate|].
  injection Hx as <- <-. done.
Qed.

Lemma l1_delete_effect c e s ch b idx s' r :
  L1.delete_output c e s ch b idx = Some (s', r) →
  L1.bk s' = L1.bk s ∧ L1.elog s' = L1.elog s ∧ L1.next_seq s' = L1.next_seq s ∧ L1.proven s' = L1.proven s.
Proof.
  unfold L1.delete_output. intros Hx.
  destruct (negb (L1.valid_addr c ch)); [discriminate|].
  destruct (b =? 0)%N; [discriminate|]. destruct (idx =? 0)%N; [discriminate|].
  apply bind_Some in Hx as (x & _ & Hx).
  destruct (negb (_ || _ || _)); [discriminate|].
  destruct (negb (idx <? _)%N); [discriminate|].
  destruct (negb (_ =? _)%N); [discriminate|].
  destruct (negb (bool_decide _)); [discriminate|].
  injection Hx as <- <-. done.
Qed.

Lemma l1_finalize_effect c e s sender b idx sq proofs from to d amt v sr bh s' r :
  L1.finalize c e s sender b idx sq proofs from to d amt v sr bh = Some (s', r) →
  ∃ rcv, L1.resolve c to = Some rcv ∧
    (b, leaf_hash (L1.hash c) b sq from to d (Z.to_N amt)) ∉ L1.proven s ∧
    bank_send (L1.bk s) (L1.escrow c b) rcv d amt = Some (L1.bk s') ∧
    L1.elog s' = L1.elog s ∧ L1.next_seq s' = L1.next_seq s ∧
    L1.proven s' = {[ (b, leaf_hash (L1.hash c) b sq from to d (Z.to_N amt)) ]} ∪ L1.proven s.
Proof.
  unfold L1.finalize. destruct (negb (L1.finalize_valid _ _ _ _ _ _ _ _ _ _ _ _ _)); [discriminate|].
  intros Hx. apply bind_Some in Hx as (rcv & Hrcv & Hx). apply bind_Some in Hx as (o & _ & Hx).
  apply bind_Some in Hx as (x & _ & Hx).
  destruct (negb (L1.is_final x e o)); [discriminate|].
  destruct (negb (bool_decide _)); [discriminate|].
  destruct (negb (amt <? L1.two64)%Z); [discriminate|].
  case_bool_decide as Hp; [discriminate|].
  destruct (negb (bool_decide _)); [discriminate|].
  apply bind_Some in Hx as (b1 & Hb1 & [= <- <-]). exists rcv. cbn. done.
Qed.

(* ------------------------------------------------------------------------------------ *)
(* 5. the system invariant                                                                 *)
(* ------------------------------------------------------------------------------------ *)
Arguments l2d : simpl never.
Arguments escrow_of : simpl never.
Arguments wleaf : simpl never.
Arguments bevents : simpl never.
Arguments l2_denom : simpl never.

Record inv (c : scfg) (s : sys) : Prop := {
  i_solv : ∀ d, solvent c s d ∨ denom_collision c;
  i_pairs : ∀ d' base, L2.pairs (l2 s) !! d' = Some base → d' = l2d c base;
  i_ev_seq : NoDup (L1.e_seq <$> bevents c (l1 s));
  i_ev_lt : ∀ ev, ev ∈ bevents c (l1 s) →
            (L1.e_seq ev < L1.seq_of (l1 s) (bid c))%N ∧ L1.e_l2denom ev = l2d c (L1.e_l1denom ev);
  i_next : (L2.next_l1 (l2 s) ≤ L1.seq_of (l1 s) (bid c))%N;
  i_w_seq : NoDup (L2.w_seq <$> L2.wlog (l2 s));
  i_w_lt : ∀ w, w ∈ L2.wlog (l2 s) →
           (L2.w_seq w < L2.next_l2 (l2 s))%N ∧ L2.pairs (l2 s) !! L2.w_denom w = Some (L2.w_base w);
  i_paid : ∀ m, m ∈ paid s →
           ∃ w, w ∈ L2.wlog (l2 s) ∧ L2.w_seq w = m ∧ (bid c, wleaf c w) ∈ L1.proven (l1 s);
}.

Lemma paid_lt c s m : inv c s → m ∈ paid s → (m < L2.next_l2 (l2 s))%N.
Proof. intros I Hm. destruct (i_paid _ _ I m Hm) as (w & Hw & <- & _). by apply (i_w_lt _ _ I). Qed.

Lemma seq_of_same s1 s b : L1.next_seq s1 = L1.next_seq s → L1.seq_of s1 b = L1.seq_of s b.
Proof. unfold L1.seq_of. by intros ->. Qed.
Lemma bevents_same c s1 s : L1.elog s1 = L1.elog s → bevents c s1 = bevents c s.
Proof. unfold bevents. by intros ->. Qed.

(* an L1 step that changes neither logs nor sequences; the escrow moves exactly as the donations *)
Lemma inv_l1_update c s s1 (dn : list (bytes * Z)) :
  L1.elog s1 = L1.elog (l1 s) → L1.next_seq s1 = L1.next_seq (l1 s) → L1.proven (l1 s) ⊆ L1.proven s1 →
  (∀ d, (getb (L1.bk s1) (escrow_of c) d - getb (L1.bk (l1 s)) (escrow_of c) d =
         zsum (λ x : bytes * Z, if bool_decide (x.1 = d) then x.2 else 0%Z) dn - donations s d)%Z) →
  inv c s → inv c {| l1 := s1; l2 := l2 s; paid := paid s; donated := dn |}.
Proof.
  intros Hel Hsq Hpr Hbal [I1 I2 I3 I4 I5 I6 I7 I8]. split; cbn.
  - intros d. destruct (I1 d) as [I1d|Hc]; [left|by right]. clear I1.
    specialize (Hbal d). unfold solvent, pending_dep, pending_wd, donations in *. cbn in *.
    rewrite (bevents_same c s1 (l1 s) Hel). lia.
  - done.
  - by rewrite (bevents_same c s1 (l1 s) Hel).
  - rewrite (bevents_same c s1 (l1 s) Hel), (seq_of_same _ _ _ Hsq). done.
  - by rewrite (seq_of_same _ _ _ Hsq).
  - done.
  - done.
  - intros m Hm. destruct (I8 m Hm) as (w & ? & ? & ?). exists w. split; [done|split; [done|]]. by apply Hpr.
Qed.

Lemma step_propose_delete c s e m :
  (∃ p idx l2b root, m = L1.MPropose p (bid c) idx l2b root) ∨ (∃ ch idx, m = L1.MDelete ch (bid c) idx) →
  inv c s → inv c (lift1 c s e m).1.
Proof.
  intros Hm I. unfold lift1, L1.step.
  destruct (L1.handle (c1 c) e (l1 s) m) as [[s1 r]|] eqn:Hh; [|done]. cbn.
  assert (L1.bk s1 = L1.bk (l1 s) ∧ L1.elog s1 = L1.elog (l1 s) ∧ L1.next_seq s1 = L1.next_seq (l1 s) ∧
          L1.proven s1 = L1.proven (l1 s)) as (Hb & Hel & Hsq & Hpr).
  { destruct Hm as [(p & idx & l2b & root & ->)|(ch & idx & ->)]; cbn [L1.handle] in Hh.
    - eapply l1_propose_effect; eauto.
    - eapply l1_delete_effect; eauto. }
  destruct s as [s1o s2o pd dn]. apply (inv_l1_update c _ s1 dn); cbn in *; auto.
  - by rewrite Hpr.
  - intros d. rewrite Hb. unfold donations. cbn. lia.
Qed.

Lemma step_deposit c s e sender to d0 amt data :
  inv c s → inv c (sys_step c s (SDeposit e sender to d0 amt data)).1.
Proof.
  intros I. cbn [sys_step]. case_bool_decide as Hs; [done|]. unfold lift1, L1.step. cbn [L1.handle].
  destruct (L1.deposit (c1 c) e (l1 s) sender (bid c) to d0 amt data) as [[s1 r]|] eqn:Hd; [|done]. cbn.
  apply l1_deposit_effect in Hd as (sd & Hsd & Hamt & Hbk & Hel & Hseq & Hpr).
  assert (Hsd' : sd ≠ escrow_of c) by congruence.
  destruct I as [I1 I2 I3 I4 I5 I6 I7 I8].
  set (ev := {| L1.e_bridge := bid c; L1.e_seq := L1.seq_of (l1 s) (bid c); L1.e_from := sender; L1.e_to := to;
                L1.e_l1denom := d0; L1.e_l2denom := l2_denom (L1.hash (c1 c)) (bid c) d0; L1.e_amt := amt;
                L1.e_data := data |}) in *.
  assert (Hbev : bevents c s1 = ev :: bevents c (l1 s)).
  { unfold bevents. rewrite Hel. by rewrite filter_cons_True. }
  assert (HE : ∀ d, getb (L1.bk s1) (escrow_of c) d =
                    (getb (L1.bk (l1 s)) (escrow_of c) d + (if decide (d = d0) then amt else 0))%Z).
  { intros d. destruct (0 <? amt)%Z eqn:E.
    - apply bank_send_Some in Hbk as (_ & _ & Hg). rewrite Hg. unfold escrow_of in *.
      rewrite decide_False by congruence.
      destruct (decide (d = d0)) as [->|Hne]; [by rewrite decide_True|rewrite decide_False by congruence; lia].
    - rewrite Hbk. apply Z.ltb_ge in E. destruct (decide _); lia. }
  split; cbn.
  - intros d. destruct (I1 d) as [I1d|Hc]; [left|by right]. clear I1.
    unfold solvent, pending_dep, pending_wd, donations in *. cbn in *.
    rewrite HE, Hbev. cbn [zsum]. fold ev. cbn [L1.e_seq L1.e_l1denom L1.e_amt ev].
    assert (Hc : d = d0 ∨ d ≠ d0) by (destruct (decide (d = d0)); auto). destruct Hc as [->|Hne].
    + rewrite decide_True by done. rewrite bool_decide_eq_true_2 by done. lia.
    + rewrite decide_False by done. rewrite bool_decide_eq_false_2 by (intros [_ ?]; congruence). lia.
  - done.
  - rewrite Hbev, fmap_cons. apply NoDup_cons. split; [|done].
    intros Hin. apply elem_of_list_fmap in Hin as (y & Hy & Hin). apply I4 in Hin as [Hlt _].
    cbn in Hy. lia.
  - rewrite Hbev, Hseq. intros x Hx. apply elem_of_cons in Hx as [->|Hx].
    + cbn. split; [lia|done].
    + destruct (I4 x Hx). split; [lia|done].
  - rewrite Hseq. lia.
  - done.
  - done.
  - intros m Hm. destruct (I8 m Hm) as (w & ? & ? & ?). exists w. by rewrite Hpr.
Qed.

Lemma step_send1 c s e from to d0 amt :
  inv c s → inv c (sys_step c s (SSend1 e from to d0 amt)).1.
Proof.
  intros I. cbn [sys_step]. case_bool_decide as Hf; [done|]. unfold lift1, L1.step. cbn [L1.handle].
  destruct (L1.bank_send_msg (l1 s) from to d0 amt) as [[s1 r]|] eqn:Hd; [|done]. cbn.
  apply l1_bank_send_effect in Hd as (Hbk & Hel & Hsq & Hpr).
  apply bank_send_Some in Hbk as (_ & _ & Hg).
  case_bool_decide as Ht; cbn [fst set_l1 l1 l2 paid donated].
  - apply (inv_l1_update c s s1 ((d0, amt) :: donated s)); auto; [by rewrite Hpr|].
    intros d. rewrite Hg. unfold donations. cbn [zsum fst snd]. rewrite decide_False by congruence. subst to.
    assert (Hc : d = d0 ∨ d ≠ d0) by (destruct (decide (d = d0)); auto). destruct Hc as [->|Hne].
    + rewrite decide_True by done. rewrite bool_decide_eq_true_2 by done. lia.
    + rewrite decide_False by congruence. rewrite bool_decide_eq_false_2 by congruence. lia.
  - apply (inv_l1_update c s s1 (donated s)); auto; [by rewrite Hpr|].
    intros d. rewrite Hg. unfold donations. rewrite decide_False by congruence.
    rewrite decide_False by congruence. lia.
Qed.

(* an L2 step that leaves sequences, denom map, log and supply alone *)
Lemma inv_l2_frame c s s2 :
  L2.next_l1 s2 = L2.next_l1 (l2 s) → L2.next_l2 s2 = L2.next_l2 (l2 s) → L2.pairs s2 = L2.pairs (l2 s) →
  L2.wlog s2 = L2.wlog (l2 s) → sup (L2.bk s2) = sup (L2.bk (l2 s)) →
  inv c s → inv c (set_l2 s s2).
Proof.
  intros H1 H2 H3 H4 H5 [I1 I2 I3 I4 I5 I6 I7 I8]. split; cbn; rewrite ?H1, ?H2, ?H3, ?H4; auto.
  intros d. destruct (I1 d) as [I1d|Hc]; [left|by right]. clear I1.
  unfold solvent, pending_dep, pending_wd, donations in *. cbn in *.
  rewrite H1, H4, (gets_sup _ _ _ H5). done.
Qed.

Lemma withdraw_sys c s w1 w2 w3 w4 s2 r :
  inv c s → L2.withdraw (c2 c) (l2 s) w1 w2 w3 w4 = Some (s2, r) → inv c (set_l2 s s2).
Proof.
  intros I Hh.
    apply withdraw_Some in Hh as (a & bb1 & bb2 & base & Ha & Hto & Hd & Hamt & Hs1 & Hs2 & Hbase & _ & ->).
    pose proof I as [I1 I2 I3 I4 I5 I6 I7 I8].
    assert (Hnp : L2.next_l2 (l2 s) ∉ paid s).
    { intros Hm. pose proof (paid_lt c s _ I Hm). lia. }
    split; cbn.
    + intros d. destruct (I1 d) as [I1d|Hc]; [left|by right]. clear I1.
      unfold solvent, pending_dep, pending_wd, donations in *. cbn in *.
      rewrite (bank_burn_Some _ _ _ _ _ Hs2), !(gets_sup _ _ _ (bank_send_sup _ _ _ _ _ _ Hs1)).
      assert (Hc : l2d c d = w3 ∨ l2d c d ≠ w3) by (destruct (decide (l2d c d = w3)); auto).
      destruct Hc as [<-|Hne].
      * rewrite decide_True by done. rewrite bool_decide_eq_true_2 by done. lia.
      * rewrite decide_False by done. rewrite bool_decide_eq_false_2 by (intros [_ ?]; congruence). lia.
    + done.
    + done.
    + done.
    + done.
    + apply NoDup_cons. split; [|done].
      intros Hin. apply elem_of_list_fmap in Hin as (y & Hy & Hin). apply I7 in Hin as [Hlt _]. lia.
    + intros w Hw. apply elem_of_cons in Hw as [->|Hw]; cbn.
      * split; [lia|done].
      * destruct (I7 w Hw). split; [lia|done].
    + intros m Hm. destruct (I8 m Hm) as (w & ? & ? & ?). exists w. split; [by right|done].
Qed.

Lemma plain_handle_inv c s m s2 r :
  l2_plain m = true → L2.handle (c2 c) (l2 s) m = Some (s2, r) → inv c s → inv c (set_l2 s s2).
Proof.
  intros Hp Hh I.
  destruct m as [f|w1 w2 w3 w4|b1 b2 b3 b4|i1 i2|u1 u2|v1 v2 v3|r1 r2|p1 p2 p3|sender inner];
    try discriminate; cbn [L2.handle] in Hh.
  - eapply withdraw_sys; eauto.
  - unfold L2.bank_send_msg in Hh. destruct (negb _); [discriminate|].
    apply bind_Some in Hh as (b & Hb & [= <- <-]). apply inv_l2_frame; auto. cbn.
    eapply bank_send_sup; eauto.
  - apply set_bridge_info_Some in Hh as (_&_&_&->&_). by apply inv_l2_frame.
  - apply update_params_Some in Hh as (_&_&->&_). by apply inv_l2_frame.
  - apply add_val_Some in Hh as (_&?&?&_&_&->&_). by apply inv_l2_frame.
  - apply remove_val_Some in Hh as (_&?&?&_&_&->&_). by apply inv_l2_frame.
  - unfold L2.spend_fee_pool in Hh. destruct (negb (bool_decide _)); [discriminate|].
    apply bind_Some in Hh as (rr & _ & Hh). destruct (negb (L2.coins_valid p3)); [discriminate|].
    destruct (negb (L2.is_authority _ _)); [discriminate|]. destruct (L2.blocked _ rr); [discriminate|].
    apply bind_Some in Hh as (b & Hb & [= <- <-]). apply inv_l2_frame; auto. cbn.
    eapply (fold_send_sup (λ b cn, bank_send b (L2.feecol (c2 c)) rr cn.1 cn.2)) in Hb; [exact Hb|].
    intros; by eapply bank_send_sup.
Qed.

Lemma nodup_key_inj {A} (key : A → N) l x y :
  NoDup (key <$> l) → x ∈ l → y ∈ l → key x = key y → x = y.
Proof.
  induction l as [|a l IH]; intros Hnd Hx Hy Hk; [by apply elem_of_nil in Hx|].
  rewrite fmap_cons in Hnd. apply NoDup_cons in Hnd as [Hna Hnd].
  apply elem_of_cons in Hx as [->|Hx]; apply elem_of_cons in Hy as [->|Hy]; auto.
  - exfalso. apply Hna. rewrite Hk. by apply elem_of_list_fmap_1.
  - exfalso. apply Hna. rewrite <- Hk. by apply elem_of_list_fmap_1.
Qed.

Lemma set_l2_same s : set_l2 s (l2 s) = s.
Proof. by destruct s. Qed.

Lemma set_l2_twice s a b : set_l2 (set_l2 s a) b = set_l2 s b.
Proof. reflexivity. Qed.

Lemma hook_msg_sys c s signer m s2 :
  inv c s → L2.hook_msg (c2 c) (l2 s) signer m = Some s2 → inv c (set_l2 s s2).
Proof.
  intros I. destruct m as [to d amt|sender to d amt]; cbn [L2.hook_msg].
  - intros Hx. apply bind_Some in Hx as (b & Hb & [= <-]). apply inv_l2_frame; auto. cbn.
    unfold L2.hook_send in Hb. destruct (negb _); [discriminate|]. destruct (L2.blocked _ to); [discriminate|].
    by eapply bank_send_sup.
  - destruct (negb _); [discriminate|]. intros Hx. apply bind_Some in Hx as ([s1 r1] & Hw & [= <-]).
    eapply withdraw_sys; eauto.
Qed.

Lemma hook_fold_sys c signer msgs : ∀ s s2,
  inv c s → foldl (λ os m, s ← os; L2.hook_msg (c2 c) s signer m) (Some (l2 s)) msgs = Some s2 →
  inv c (set_l2 s s2).
Proof.
  induction msgs as [|m msgs IH]; intros s s2 I; cbn [foldl].
  - intros [= <-]. by rewrite set_l2_same.
  - cbn [mbind option_bind]. destruct (L2.hook_msg (c2 c) (l2 s) signer m) as [s1|] eqn:E.
    + intros Hx. pose proof (hook_msg_sys _ _ _ _ _ I E) as I1.
      rewrite <- (set_l2_twice s s1 s2). apply IH; [done|]. exact Hx.
    + rewrite (hook_fold_None (c2 c) signer msgs). discriminate.
Qed.

Lemma run_hook_sys c s h s2 ok :
  inv c s → L2.run_hook (c2 c) (l2 s) h = (s2, ok) → inv c (set_l2 s s2).
Proof.
  intros I. unfold L2.run_hook. destruct h as [| |signer tseq sig_ok msgs].
  - intros [= <- <-]. by rewrite set_l2_same.
  - intros [= <- <-]. by rewrite set_l2_same.
  - destruct (_ <? _)%N. { intros [= <- <-]. by rewrite set_l2_same. }
    destruct (negb _). { intros [= <- <-]. by rewrite set_l2_same. }
    set (s1 := L2.set_seqs (l2 s) _).
    assert (I1 : inv c (set_l2 s s1)) by (apply inv_l2_frame; auto).
    destruct (foldl _ _ msgs) as [s3|] eqn:Hf; intros [= <- <-]; [|exact I1].
    rewrite <- (set_l2_twice s s1 s3). apply (hook_fold_sys c signer msgs); [exact I1|exact Hf].
Qed.

(* the two closed forms of a processed relay: credited (before the hook) and refunded *)
Lemma relay_closed c s ev s2 :
  inv c s → ev ∈ bevents c (l1 s) → L1.e_seq ev = L2.next_l1 (l2 s) →
  L2.next_l1 s2 = (L2.next_l1 (l2 s) + 1)%N →
  L2.pairs s2 = match L2.pairs (l2 s) !! L1.e_l2denom ev with
                | Some _ => L2.pairs (l2 s)
                | None => <[L1.e_l2denom ev := L1.e_l1denom ev]> (L2.pairs (l2 s))
                end →
  ((L2.wlog s2 = L2.wlog (l2 s) ∧ L2.next_l2 s2 = L2.next_l2 (l2 s) ∧
    ∀ d, gets (L2.bk s2) d = (gets (L2.bk (l2 s)) d + (if decide (d = L1.e_l2denom ev) then L1.e_amt ev else 0))%Z) ∨
   (∃ base, L2.pairs s2 !! L1.e_l2denom ev = Some base ∧ L2.next_l2 s2 = (L2.next_l2 (l2 s) + 1)%N ∧
            L2.wlog s2 = {| L2.w_seq := L2.next_l2 (l2 s); L2.w_from := L1.e_to ev; L2.w_to := L1.e_from ev;
                            L2.w_denom := L1.e_l2denom ev; L2.w_base := base; L2.w_amt := L1.e_amt ev;
                            L2.w_refund := true |} :: L2.wlog (l2 s) ∧
            ∀ d, gets (L2.bk s2) d = gets (L2.bk (l2 s)) d)) →
  inv c (set_l2 s s2).
Proof.
  intros I Hin Hseq Hn1 Hp Hcase.
  pose proof I as [I1 I2 I3 I4 I5 I6 I7 I8].
  destruct (I4 ev Hin) as [Hlt Hl2d].
  assert (HU : ∀ d, pending_dep c (set_l2 s s2) d =
                    (pending_dep c s d - (if bool_decide (L1.e_l1denom ev = d) then L1.e_amt ev else 0))%Z).
  { intros d. unfold pending_dep. cbn [set_l2 l1 l2]. rewrite Hn1.
    rewrite (zsum_remove L1.e_seq
               (λ ev0, if bool_decide ((L2.next_l1 (l2 s) ≤ L1.e_seq ev0)%N ∧ L1.e_l1denom ev0 = d)
                       then L1.e_amt ev0 else 0%Z) _ (bevents c (l1 s)) ev I3 Hin).
    - f_equal. assert (Hc : L1.e_l1denom ev = d ∨ L1.e_l1denom ev ≠ d) by (destruct (decide (L1.e_l1denom ev = d)); auto).
      destruct Hc as [Hc|Hc].
      + rewrite !bool_decide_eq_true_2; auto. split; [lia|done].
      + rewrite !bool_decide_eq_false_2; auto. by intros [_ ?].
    - intros y Hy Hne. assert (L1.e_seq y ≠ L2.next_l1 (l2 s)) by congruence.
      erewrite bool_decide_ext; [reflexivity|]. split; intros [? ?]; (split; [lia|done]).
    - rewrite bool_decide_eq_false_2; [done|]. intros [? _]. lia. }
  assert (Hsub : ∀ x y, L2.pairs (l2 s) !! x = Some y → L2.pairs s2 !! x = Some y).
  { intros x y Hxy. rewrite Hp. destruct (L2.pairs (l2 s) !! L1.e_l2denom ev) eqn:E; [done|].
    destruct (decide (x = L1.e_l2denom ev)) as [->|Hne]; [congruence|]. by rewrite lookup_insert_ne. }
  assert (Hpf : ∀ d' base, L2.pairs s2 !! d' = Some base → d' = l2d c base).
  { intros d' base. rewrite Hp. destruct (L2.pairs (l2 s) !! L1.e_l2denom ev) eqn:E; [apply I2|].
    destruct (decide (d' = L1.e_l2denom ev)) as [->|Hne].
    - rewrite lookup_insert. intros [= <-]. done.
    - rewrite lookup_insert_ne by done. apply I2. }
  assert (Hnp : L2.next_l2 (l2 s) ∉ paid s).
  { intros Hm. pose proof (paid_lt c s _ I Hm). lia. }
  (* the per-denom case analysis shared by both outcomes *)
  assert (Hcases : ∀ d, L1.e_l1denom ev = d ∨
                        (L1.e_l1denom ev ≠ d ∧ L1.e_l2denom ev ≠ l2d c d) ∨ denom_collision c).
  { intros d. destruct (decide (L1.e_l1denom ev = d)) as [|Hne]; [by left|right].
    destruct (decide (L1.e_l2denom ev = l2d c d)) as [Heq|]; [right|by left].
    exists (L1.e_l1denom ev), d. split; [done|]. by rewrite <- Hl2d. }
  destruct Hcase as [(Hw & Hn2 & Hs)|(base & Hb & Hn2 & Hw & Hs)].
  - (* credited *)
    split; cbn [set_l2 l1 l2 paid donated]; auto.
    + intros d. destruct (I1 d) as [I1d|Hc]; [|by right]. clear I1.
      destruct (Hcases d) as [Hd|[[Hd1 Hd2]|Hc]]; [left|left|by right].
      * unfold solvent in *. rewrite HU. unfold pending_wd, donations in *. cbn [set_l2 l1 l2 paid donated].
        rewrite Hw, Hs. subst d. rewrite Hl2d. rewrite decide_True by done.
        rewrite bool_decide_eq_true_2 by done. lia.
      * unfold solvent in *. rewrite HU. unfold pending_wd, donations in *. cbn [set_l2 l1 l2 paid donated].
        rewrite Hw, Hs. rewrite decide_False by congruence. rewrite bool_decide_eq_false_2 by done. lia.
    + rewrite Hn1. lia.
    + by rewrite Hw.
    + rewrite Hw, Hn2. intros w Hin'. destruct (I7 w Hin'). split; [done|]. by apply Hsub.
    + rewrite Hw. done.
  - (* refunded: one more recorded withdrawal *)
    split; cbn [set_l2 l1 l2 paid donated]; auto.
    + intros d. destruct (I1 d) as [I1d|Hc]; [|by right]. clear I1.
      destruct (Hcases d) as [Hd|[[Hd1 Hd2]|Hc]]; [left|left|by right].
      * unfold solvent in *. rewrite HU. unfold pending_wd, donations in *. cbn [set_l2 l1 l2 paid donated].
        rewrite Hw. cbn [zsum L2.w_seq L2.w_denom L2.w_amt]. rewrite !Hs. subst d. rewrite Hl2d.
        rewrite !bool_decide_eq_true_2 by done. lia.
      * unfold solvent in *. rewrite HU. unfold pending_wd, donations in *. cbn [set_l2 l1 l2 paid donated].
        rewrite Hw. cbn [zsum L2.w_seq L2.w_denom L2.w_amt]. rewrite !Hs.
        rewrite (bool_decide_eq_false_2 (L1.e_l1denom ev = d)) by done.
        rewrite (bool_decide_eq_false_2 (_ ∧ L1.e_l2denom ev = l2d c d)) by (intros [_ ?]; done). lia.
    + rewrite Hn1. lia.
    + rewrite Hw, fmap_cons. apply NoDup_cons. split; [|done]. cbn.
      intros Hin'. apply elem_of_list_fmap in Hin' as (y & Hy & Hin'). apply I7 in Hin' as [Hlt' _]. lia.
    + rewrite Hw, Hn2. intros w Hin'. apply elem_of_cons in Hin' as [->|Hin']; cbn.
      * split; [lia|done].
      * destruct (I7 w Hin'). split; [lia|]. by apply Hsub.
    + intros m Hm. destruct (I8 m Hm) as (w & ? & ? & ?). exists w. rewrite Hw. split; [by right|done].
Qed.


Lemma relay_handle_inv c s ev ex h hook s2 r :
  inv c s → ev ∈ bevents c (l1 s) →
  L2.finalize_deposit (c2 c) (l2 s) (relay_msg ev ex h hook) = Some (s2, r) → inv c (set_l2 s s2).
Proof.
  intros I Hin Hd.
  apply finalize_deposit_stages in Hd as [(-> & ->)|(Hseq & s3 & Hn1 & Hn2 & Hw & Hp & Hcase)].
  { by rewrite set_l2_same. }
  unfold pairs_after in Hp.
  cbn [relay_msg L2.fd_seq L2.fd_denom L2.fd_base L2.fd_amt L2.fd_to L2.fd_from L2.fd_hook] in *.
  destruct Hcase as [(Hs & s4 & Hhook & E1 & E2 & E3 & E4 & E5)|(base & Hb & Hp' & Hn1' & Hn2' & Hw' & Hs')].
  - (* credited at s3, then the hook, then only the deposit log changes *)
    assert (I3 : inv c (set_l2 s s3)).
    { eapply relay_closed; eauto. }
    assert (I4 : inv c (set_l2 s s4)).
    { destruct Hhook as [(h' & Hh)|Heq]; [|rewrite Heq; exact I3].
      rewrite <- (set_l2_twice s s3 s4). eapply run_hook_sys; [exact I3|exact Hh]. }
    rewrite <- (set_l2_twice s s4 s2). apply inv_l2_frame; auto. cbn. by rewrite E5.
  - eapply relay_closed; eauto.
    + congruence.
    + congruence.
    + right. exists base. auto.
Qed.

Lemma step_relay c s k ex h hook : inv c s → inv c (sys_step c s (SRelay k ex h hook)).1.
Proof.
  intros I. cbn [sys_step]. destruct (find_event c (l1 s) k) as [ev|] eqn:Hf; [|done].
  apply find_elem in Hf as [Hin Hk].
  unfold lift2, L2.step. cbn [L2.handle].
  destruct (L2.finalize_deposit (c2 c) (l2 s) (relay_msg ev ex h hook)) as [[s2 r]|] eqn:Hd; [|done].
  cbn [fst]. eapply relay_handle_inv; eauto.
Qed.

(* ---- every L2 message, also nested in ExecuteMessages, whose deposits are faithful relays ---- *)
Lemma l2_adm_exec c s1 sender inner :
  l2_adm c s1 (L2.MExecute sender inner) = forallb (l2_adm c s1) inner.
Proof. cbn [l2_adm]. induction inner as [|x l IH]; [done|]. cbn [forallb]. by rewrite <- IH. Qed.

Lemma adm_deposit_relay c s1 f :
  l2_adm c s1 (L2.MFinalizeDeposit f) = true →
  ∃ ev, ev ∈ bevents c s1 ∧ f = relay_msg ev (L2.fd_sender f) (L2.fd_height f) (L2.fd_hook f).
Proof.
  cbn [l2_adm]. destruct (find_event c s1 (L2.fd_seq f)) as [ev|] eqn:Hf; [|discriminate].
  apply find_elem in Hf as [Hin Hk]. apply N.eqb_eq in Hk. unfold relay_of. intros Hr.
  apply bool_decide_eq_true in Hr as (H1 & H2 & H3 & H4 & H5). exists ev. split; [done|].
  destruct f. cbn in *. unfold relay_msg. by subst.
Qed.

Lemma handle_sys_inv c m : ∀ s s2 r,
  l2_adm c (l1 s) m = true → L2.handle (c2 c) (l2 s) m = Some (s2, r) → inv c s → inv c (set_l2 s s2).
Proof.
  induction m as [f|w1 w2 w3 w4|b1 b2 b3 b4|i1 i2|u1 u2|v1 v2 v3|r1 r2|p1 p2 p3|sender inner IH] using msg_ind';
    intros s s2 r Ha Hh I; try (by eapply plain_handle_inv; eauto).
  - (* a deposit: a faithful relay *)
    destruct (adm_deposit_relay c (l1 s) f Ha) as (ev & Hin & Hf). cbn [L2.handle] in Hh. rewrite Hf in Hh.
    eapply relay_handle_inv; eauto.
  - (* a batch: the inner messages in order, all on the same L1 state *)
    rewrite l2_adm_exec in Ha. rewrite handle_execute in Hh.
    destruct (negb (bool_decide (is_Some _))); [discriminate|].
    case_bool_decide; [discriminate|]. destruct (negb (L2.is_admin (l2 s) sender)); [discriminate|].
    apply bind_Some in Hh as (auth & _ & Hx). clear -IH Hx Ha I.
    remember (l1 s) as L eqn:HL in Ha.
    revert s I Hx HL. induction inner as [|im l IHl]; intros s I Hx HL; revert Hx.
    + intros [= <- <-]. by rewrite set_l2_same.
    + rewrite exec_loop_cons. intros Hx.
      apply bind_Some in Hx as (sg & _ & Hx). apply bind_Some in Hx as (a & _ & Hx).
      destruct (negb (bool_decide (a = auth))); [discriminate|].
      apply bind_Some in Hx as ([s1 r1] & Hh & Hx).
      apply Forall_cons in IH as [IHim IHrest]. cbn [forallb] in Ha. apply andb_true_iff in Ha as [Ha1 Ha2].
      assert (I1 : inv c (set_l2 s s1)) by (apply (IHim s s1 r1); [by rewrite <- HL|done|done]).
      rewrite <- (set_l2_twice s s1 s2). by apply (IHl IHrest Ha2 (set_l2 s s1) I1).
Qed.

Lemma step_l2 c s m : inv c s → inv c (sys_step c s (SL2 m)).1.
Proof.
  intros I. cbn [sys_step]. destruct (l2_adm c (l1 s) m) eqn:Ha; [|done]. unfold lift2, L2.step.
  destruct (L2.handle (c2 c) (l2 s) m) as [[s2 r]|] eqn:Hh; [|done]. cbn. eapply handle_sys_inv; eauto.
Qed.

Lemma step_claim c s e sender idx m lo hi v bh :
  inv c s → inv c (sys_step c s (SClaim e sender idx m lo hi v bh)).1.
Proof.
  intros I. cbn [sys_step]. destruct (find_w (l2 s) m) as [w|] eqn:Hf; [|done].
  apply find_elem in Hf as [Hin Hm]. apply N.eqb_eq in Hm.
  unfold lift1, L1.step, claim_of. cbn [L1.handle].
  destruct (L1.finalize _ _ _ _ _ _ _ _ _ _ _ _ _ _ _) as [[s1 r]|] eqn:Hd; [|done].
  cbn [fst set_l1 l1 l2 paid donated].
  apply l1_finalize_effect in Hd as (rcv & Hrcv & Hnp & Hbk & Hel & Hsq & Hpr).
  change (leaf_hash _ _ _ _ _ _ _) with (wleaf c w) in Hnp, Hpr.
  change (L1.escrow (c1 c) (bid c)) with (escrow_of c) in Hbk.
  pose proof I as [I1 I2 I3 I4 I5 I6 I7 I8].
  assert (Hmp : m ∉ paid s).
  { intros Hp. destruct (I8 m Hp) as (w' & Hin' & Hs' & Hpv).
    assert (w' = w) as -> by (eapply (nodup_key_inj L2.w_seq); eauto; congruence). done. }
  destruct (I7 w Hin) as [_ Hpw]. pose proof (I2 _ _ Hpw) as Hwd.
  apply bank_send_Some in Hbk as (_ & _ & Hg).
  assert (HW : ∀ d', zsum (λ w0, if bool_decide (L2.w_seq w0 ∉ m :: paid s ∧ L2.w_denom w0 = d') then L2.w_amt w0 else 0%Z)
                          (L2.wlog (l2 s)) =
                     (pending_wd s d' - (if bool_decide (L2.w_denom w = d') then L2.w_amt w else 0))%Z).
  { intros d'. unfold pending_wd.
    rewrite (zsum_remove L2.w_seq
               (λ w0, if bool_decide (L2.w_seq w0 ∉ paid s ∧ L2.w_denom w0 = d') then L2.w_amt w0 else 0%Z)
               _ (L2.wlog (l2 s)) w I6 Hin).
    - f_equal. assert (Hc : L2.w_denom w = d' ∨ L2.w_denom w ≠ d') by (destruct (decide (L2.w_denom w = d')); auto).
      destruct Hc as [Hc|Hc].
      + rewrite !bool_decide_eq_true_2; auto. split; [congruence|done].
      + rewrite !bool_decide_eq_false_2; auto. by intros [_ ?].
    - intros y Hy Hne. erewrite bool_decide_ext; [reflexivity|]. rewrite not_elem_of_cons. split.
      + intros [[_ ?] ?]. done.
      + intros [? ?]. split; [split; [congruence|done]|done].
    - rewrite bool_decide_eq_false_2; [done|]. intros [Hx _]. apply Hx. rewrite Hm. by left. }
  assert (Hcases : ∀ d, L2.w_base w = d ∨ (L2.w_base w ≠ d ∧ L2.w_denom w ≠ l2d c d) ∨ denom_collision c).
  { intros d. destruct (decide (L2.w_base w = d)) as [|Hne]; [by left|right].
    destruct (decide (L2.w_denom w = l2d c d)) as [Heq|]; [right|by left].
    exists (L2.w_base w), d. split; [done|]. by rewrite <- Hwd. }
  split; cbn [l1 l2 paid donated]; auto.
  - intros d. destruct (I1 d) as [I1d|Hc]; [|by right]. clear I1.
    destruct (Hcases d) as [Hd|[[Hd1 Hd2]|Hc]]; [left|left|by right].
    + subst d. unfold solvent in *. unfold pending_dep, pending_wd, donations in *. cbn [l1 l2 paid donated].
      rewrite (bevents_same c s1 (l1 s) Hel). fold (pending_wd s (l2d c (L2.w_base w))) in I1d.
      rewrite HW, Hg. rewrite decide_True by done. rewrite <- Hwd. rewrite bool_decide_eq_true_2 by done.
      case_bool_decide as Hesc.
      * assert (rcv = escrow_of c) as -> by congruence. rewrite decide_True by done.
        cbn [zsum fst snd]. rewrite bool_decide_eq_true_2 by done.
        fold (pending_wd s (L2.w_denom w)). rewrite Hwd in *. lia.
      * assert (rcv ≠ escrow_of c) by congruence. rewrite decide_False by congruence.
        fold (pending_wd s (L2.w_denom w)). rewrite Hwd in *. lia.
    + unfold solvent in *. unfold pending_dep, pending_wd, donations in *. cbn [l1 l2 paid donated].
      rewrite (bevents_same c s1 (l1 s) Hel). fold (pending_wd s (l2d c d)) in I1d.
      rewrite HW, Hg. rewrite decide_False by congruence. rewrite decide_False by congruence.
      rewrite bool_decide_eq_false_2 by done.
      case_bool_decide as Hesc.
      * cbn [zsum fst snd]. rewrite bool_decide_eq_false_2 by done. fold (pending_wd s (l2d c d)). lia.
      * fold (pending_wd s (l2d c d)). lia.
  - by rewrite (bevents_same c s1 (l1 s) Hel).
  - rewrite (bevents_same c s1 (l1 s) Hel), (seq_of_same _ _ _ Hsq). done.
  - by rewrite (seq_of_same _ _ _ Hsq).
  - intros m' Hm'. apply elem_of_cons in Hm' as [->|Hm'].
    + exists w. split; [done|]. split; [done|]. rewrite Hpr. set_solver.
    + destruct (I8 m' Hm') as (w' & ? & ? & ?). exists w'. split; [done|]. split; [done|]. rewrite Hpr. set_solver.
Qed.

(* ---- L1 role / config / environment messages change neither bank nor logs ---- *)
Definition l1frame (s s' : L1.l1state) : Prop :=
  L1.bk s' = L1.bk s ∧ L1.elog s' = L1.elog s ∧ L1.next_seq s' = L1.next_seq s ∧ L1.proven s' = L1.proven s.
Lemma l1frame_refl s : l1frame s s.
Proof. by repeat split. Qed.
Lemma l1frame_trans s1 s2 s3 : l1frame s1 s2 → l1frame s2 s3 → l1frame s1 s3.
Proof. intros (?&?&?&?) (?&?&?&?). repeat split; congruence. Qed.

Lemma fold_opt_frame {X} (f : L1.l1state → X → option L1.l1state) (l : list X) :
  (∀ s x s', f s x = Some s' → l1frame s s') →
  ∀ s s', foldl (λ os x, s0 ← os; f s0 x) (Some s) l = Some s' → l1frame s s'.
Proof.
  intros Hf. induction l as [|x l IH]; intros s s'; cbn.
  - intros [= ->]. apply l1frame_refl.
  - destruct (f s x) as [s1|] eqn:E; cbn.
    + intros Hx. eapply l1frame_trans; [eapply Hf; eauto|by apply IH].
    + intros Hx. exfalso. clear -Hx. induction l as [|y l IHl]; cbn in Hx; [discriminate|auto].
Qed.

Lemma register_admin_frame s pc a s' : L1.register_admin s pc a = Some s' → l1frame s s'.
Proof.
  unfold L1.register_admin. intros Hx. apply bind_Some in Hx as (n & _ & Hx).
  destruct (negb _); [discriminate|]. case_bool_decide; [discriminate|]. injection Hx as <-. by repeat split.
Qed.

Lemma hook_challenger_frame c s x s' : L1.hook_challenger c s x = Some s' → l1frame s s'.
Proof.
  unfold L1.hook_challenger. destruct (L1.parse c (L1.c_meta x)) as [chs|]; [|intros [= <-]; apply l1frame_refl].
  intros Hx. apply bind_Some in Hx as (a & _ & [= <-]). clear. revert s.
  induction chs as [|pc chs IH]; intros s; cbn; [apply l1frame_refl|].
  eapply l1frame_trans; [|apply IH]. by repeat split.
Qed.

Lemma hook_metadata_frame c s x s' : L1.hook_metadata c s x = Some s' → l1frame s s'.
Proof.
  unfold L1.hook_metadata. destruct (L1.parse c (L1.c_meta x)) as [chs|]; [|intros [= <-]; apply l1frame_refl].
  intros Hx. apply bind_Some in Hx as (a & _ & Hx).
  eapply (fold_opt_frame (λ s' pc, if bool_decide (L1.admins s' !! pc = Some a) then Some s'
                                   else L1.register_admin s' pc a)); [|exact Hx].
  intros s0 pc s1. case_bool_decide; [intros [= <-]; apply l1frame_refl|apply register_admin_frame].
Qed.

Lemma l1_admin_frame c e s m s' r :
  l1_admin m = true → L1.handle c e s m = Some (s', r) → l1frame s s'.
Proof.
  destruct m; try discriminate; intros _; cbn [L1.handle].
  - unfold L1.update_proposer. intros Hx. repeat (destruct (negb _); [discriminate|]). destruct (_ =? 0)%N; [discriminate|].
    destruct (negb _); [discriminate|]. apply bind_Some in Hx as (x & _ & Hx).
    repeat (destruct (negb _); [discriminate|]). injection Hx as <- <-. by repeat split.
  - unfold L1.update_challenger. intros Hx. destruct (negb _); [discriminate|]. destruct (_ =? 0)%N; [discriminate|].
    destruct (negb _); [discriminate|]. apply bind_Some in Hx as (x & _ & Hx).
    destruct (negb _); [discriminate|]. apply bind_Some in Hx as (s1 & Hh & Hx).
    destruct (negb _); [discriminate|]. injection Hx as <- <-.
    apply hook_challenger_frame in Hh as (?&?&?&?). by repeat split.
  - unfold L1.update_batch_info. intros Hx. destruct (negb _); [discriminate|]. destruct (_ =? 0)%N; [discriminate|].
    destruct (_ || _); [discriminate|]. apply bind_Some in Hx as (x & _ & Hx).
    repeat (destruct (negb _); [discriminate|]). destruct (L1.last_final _ _ _ _) as [i o].
    injection Hx as <- <-. by repeat split.
  - unfold L1.update_oracle. intros Hx. destruct (negb _); [discriminate|]. destruct (_ =? 0)%N; [discriminate|].
    apply bind_Some in Hx as (x & _ & Hx). repeat (destruct (negb _); [discriminate|]).
    injection Hx as <- <-. by repeat split.
  - unfold L1.update_metadata. intros Hx. destruct (negb _); [discriminate|]. destruct (_ =? 0)%N; [discriminate|].
    destruct (_ <? _)%N; [discriminate|]. apply bind_Some in Hx as (x & _ & Hx).
    destruct (negb _); [discriminate|]. apply bind_Some in Hx as (s1 & Hh & Hx).
    destruct (negb _); [discriminate|]. injection Hx as <- <-.
    apply hook_metadata_frame in Hh as (?&?&?&?). by repeat split.
  - unfold L1.update_params. intros Hx. repeat (destruct (negb _); [discriminate|]).
    injection Hx as <- <-. by repeat split.
  - unfold L1.record_batch. intros Hx. destruct (negb _); [discriminate|]. destruct (_ =? 0)%N; [discriminate|].
    case_bool_decide; [discriminate|]. injection Hx as <- <-. apply l1frame_refl.
  - intros [= <- <-]. by repeat split.
  - intros [= <- <-]. by repeat split.
Qed.

Lemma step_admin1 c s e m : inv c s → inv c (sys_step c s (SAdmin1 e m)).1.
Proof.
  intros I. cbn [sys_step]. destruct (l1_admin m) eqn:Ha; [|done]. unfold lift1, L1.step.
  destruct (L1.handle (c1 c) e (l1 s) m) as [[s1 r]|] eqn:Hh; [|done]. cbn.
  apply (l1_admin_frame _ _ _ _ _ _ Ha) in Hh as (Hb & Hel & Hsq & Hpr).
  apply (inv_l1_update c s s1 (donated s)); auto.
  - by rewrite Hpr.
  - intros d. rewrite Hb. unfold donations. lia.
Qed.

(* ---- messages of other bridges and bridge creation: isolation ---- *)
Require Proofs.L1DepLemmas.

Definition donation_at (o : option (bytes * Z)) (d : bytes) : Z :=
  match o with Some x => if bool_decide (x.1 = d) then x.2 else 0%Z | None => 0%Z end.

Lemma other_handle_spec c e s1 m s1' r :
  other_ok c m = true → L1.handle (c1 c) e s1 m = Some (s1', r) →
  bevents c s1' = bevents c s1 ∧ L1.seq_of s1' (bid c) = L1.seq_of s1 (bid c) ∧
  (∀ x, (bid c, x) ∈ L1.proven s1' ↔ (bid c, x) ∈ L1.proven s1) ∧
  (∀ d, getb (L1.bk s1') (escrow_of c) d =
        (getb (L1.bk s1) (escrow_of c) d + donation_at (other_donation c m) d)%Z) ∧
  (∀ x, other_donation c m = Some x → (0 < x.2)%Z).
Proof.
  intros Hok Hh. destruct m; try discriminate; cbn [L1.handle] in Hh; cbn [other_ok] in Hok; cbn [other_donation donation_at].
  - (* create *)
    apply andb_true_iff in Hok as [Hc Hp]. apply negb_true_iff, bool_decide_eq_false in Hc, Hp.
    apply L1DepLemmas.create_Some in Hh as (cr & Hcr & _ & Hfee & _ & _ & Hsq & _ & _ & Hpr & _ & _ & _ & _ & Hel & _).
    split; [by apply bevents_same|]. split; [by apply seq_of_same|]. split; [by rewrite Hpr|]. split; [|done].
    intros d. rewrite (L1DepLemmas.fee_loop_other _ _ _ _ _ Hfee); [lia| |]; unfold escrow_of in *; congruence.
  - (* propose *)
    apply l1_propose_effect in Hh as (Hb & Hel & Hsq & Hpr).
    split; [by apply bevents_same|]. split; [by apply seq_of_same|]. split; [by rewrite Hpr|]. split; [|done].
    intros d. rewrite Hb. lia.
  - (* delete *)
    apply l1_delete_effect in Hh as (Hb & Hel & Hsq & Hpr).
    split; [by apply bevents_same|]. split; [by apply seq_of_same|]. split; [by rewrite Hpr|]. split; [|done].
    intros d. rewrite Hb. lia.
  - (* deposit into another bridge *)
    apply andb_true_iff in Hok as [Hok He]. apply andb_true_iff in Hok as [Hb Hs].
    apply negb_true_iff in Hb, Hs, He. apply N.eqb_neq in Hb. apply bool_decide_eq_false in Hs, He.
    apply L1DepLemmas.deposit_Some in Hh as (sd & Hsd & _ & _ & _ & _ & _ & _ & Hbk & _ & _ & Hsq & _ & _ & Hpr & _ & _ & _ & _ & _ & Hel & _).
    split; [|split; [|split; [by rewrite Hpr|split; [|done]]]].
    + unfold bevents. rewrite Hel. rewrite filter_cons_False; [done|]. cbn. congruence.
    + unfold L1.seq_of. rewrite Hsq. by rewrite lookup_insert_ne.
    + intros d0. destruct (0 <? amt)%Z.
      * apply bank_send_Some in Hbk as (_ & _ & Hg). rewrite Hg. unfold escrow_of in *.
        rewrite decide_False by congruence. rewrite decide_False by congruence. lia.
      * injection Hbk as <-. lia.
  - (* claim on another bridge *)
    apply andb_true_iff in Hok as [Hb He]. apply negb_true_iff in Hb, He. apply N.eqb_neq in Hb. apply bool_decide_eq_false in He.
    apply L1DepLemmas.finalize_Some in Hh as (rcv & Hrcv & _ & _ & Hamt & _ & _ & _ & _ & _ & Hbk & _ & _ & Hsq & _ & _ & Hpr & _ & _ & _ & _ & _ & Hel & _).
    split; [by apply bevents_same|]. split; [by apply seq_of_same|]. split; [|split].
    + intros x. rewrite Hpr. split; [|set_solver]. intros [Hx|Hx]%elem_of_union; [|done].
      apply elem_of_singleton in Hx. injection Hx as ? _. congruence.
    + intros d0. apply bank_send_Some in Hbk as (_ & _ & Hg). rewrite Hg. unfold escrow_of in *.
      rewrite decide_False by congruence. rewrite Hrcv. case_bool_decide as Hr.
      * injection Hr as ->. cbn [donation_at fst snd].
        assert (Hc : d = d0 ∨ d ≠ d0) by (destruct (decide (d = d0)); auto). destruct Hc as [->|Hne].
        -- rewrite decide_True by done. rewrite bool_decide_eq_true_2 by done. lia.
        -- rewrite decide_False by congruence. rewrite bool_decide_eq_false_2 by done. lia.
      * rewrite decide_False by congruence. cbn. lia.
    + intros x. case_bool_decide; [|discriminate]. intros [= <-]. cbn. lia.
Qed.

Lemma inv_l1_update' c s s1 (dn : list (bytes * Z)) :
  bevents c s1 = bevents c (l1 s) → L1.seq_of s1 (bid c) = L1.seq_of (l1 s) (bid c) →
  (∀ x, (bid c, x) ∈ L1.proven (l1 s) → (bid c, x) ∈ L1.proven s1) →
  (∀ d, (getb (L1.bk s1) (escrow_of c) d - getb (L1.bk (l1 s)) (escrow_of c) d =
         zsum (λ x : bytes * Z, if bool_decide (x.1 = d) then x.2 else 0%Z) dn - donations s d)%Z) →
  inv c s → inv c {| l1 := s1; l2 := l2 s; paid := paid s; donated := dn |}.
Proof.
  intros Hel Hsq Hpr Hbal [I1 I2 I3 I4 I5 I6 I7 I8]. split; cbn.
  - intros d. destruct (I1 d) as [I1d|Hc]; [left|by right]. clear I1.
    specialize (Hbal d). unfold solvent, pending_dep, pending_wd, donations in *. cbn in *.
    rewrite Hel. lia.
  - done.
  - by rewrite Hel.
  - rewrite Hel, Hsq. done.
  - by rewrite Hsq.
  - done.
  - done.
  - intros m Hm. destruct (I8 m Hm) as (w & ? & ? & ?). exists w. split; [done|split; [done|]]. by apply Hpr.
Qed.

Lemma step_other c s e m : inv c s → inv c (sys_step c s (SOther e m)).1.
Proof.
  intros I. cbn [sys_step]. destruct (other_ok c m) eqn:Hok; [|done]. unfold lift1, L1.step.
  destruct (L1.handle (c1 c) e (l1 s) m) as [[s1 r]|] eqn:Hh; [|done]. cbn [fst set_l1].
  destruct (other_handle_spec c e (l1 s) m s1 r Hok Hh) as (Hel & Hsq & Hpr & Hbal & Hpos).
  destruct (other_donation c m) as [x|] eqn:Hd; cbn [l1 l2 paid donated].
  - apply (inv_l1_update' c s s1 (x :: donated s)); auto; [intros y; apply Hpr|].
    intros d. rewrite Hbal. unfold donations, donation_at. cbn [zsum]. lia.
  - apply (inv_l1_update' c s s1 (donated s)); auto; [intros y; apply Hpr|].
    intros d. rewrite Hbal. unfold donations, donation_at. lia.
Qed.

(* what a step of another bridge / a bridge creation leaves alone *)
Lemma other_step_spec c s e m :
  let r := sys_step c s (SOther e m) in
  l2 r.1 = l2 s ∧ paid r.1 = paid s ∧
  (r.1 = s ∨
   ∃ s1 rr, other_ok c m = true ∧ L1.handle (c1 c) e (l1 s) m = Some (s1, rr) ∧ l1 r.1 = s1 ∧
            donated r.1 = match other_donation c m with Some x => x :: donated s | None => donated s end).
Proof.
  cbn zeta. cbn [sys_step]. destruct (other_ok c m) eqn:Hok; [|auto]. unfold lift1, L1.step.
  destruct (L1.handle (c1 c) e (l1 s) m) as [[s1 rr]|] eqn:Hh; [|cbn; auto]. cbn [fst set_l1].
  destruct (other_donation c m) as [x|] eqn:Hd; cbn; (split; [done|split; [done|right]]); exists s1, rr; rewrite ?Hd; done.
Qed.


(* ------------------------------------------------------------------------------------ *)
(* 6. the theorems                                                                         *)
(* ------------------------------------------------------------------------------------ *)
Lemma step_inv c s m : inv c s → inv c (sys_step c s m).1.
Proof.
  intros I. destruct m as [e sender to d amt data|e from to d amt|m2|k ex h hook|e p idx l2b lo hi v bh|e ch idx|e sender idx m lo hi v bh|e m1|e mo].
  - by apply step_deposit.
  - by apply step_send1.
  - by apply step_l2.
  - by apply step_relay.
  - cbn [sys_step]. apply step_propose_delete; [|done]. left. eauto.
  - cbn [sys_step]. apply step_propose_delete; [|done]. right. eauto.
  - by apply step_claim.
  - by apply step_admin1.
  - by apply step_other.
Qed.

Lemma run_inv c h : ∀ s, inv c s → inv c (sys_run c s h).
Proof. induction h as [|m h IH]; intros s I; cbn; [done|]. apply IH. by apply step_inv. Qed.

Lemma fresh_inv c s : fresh c s → inv c s.
Proof.
  intros (F1 & F2 & F3 & F4 & F5 & F6 & F7 & F8 & F9 & F10 & F11 & F12).
  split.
  - intros d. left. unfold solvent, pending_dep, pending_wd, donations, bevents.
    rewrite F4, F10, F1, F6, F12. cbn. lia.
  - intros d' base. rewrite F7. by rewrite lookup_empty.
  - unfold bevents. rewrite F1. cbn. constructor.
  - unfold bevents. rewrite F1. intros ev Hev. by apply elem_of_nil in Hev.
  - rewrite F8, F5. lia.
  - rewrite F6. constructor.
  - rewrite F6. intros w Hw. by apply elem_of_nil in Hw.
  - rewrite F11. intros m Hm. by apply elem_of_nil in Hm.
Qed.

Lemma c08_solvency_invariant c s0 h d :
  fresh c s0 → solvent c (sys_run c s0 h) d ∨ denom_collision c.
Proof. intros F. apply (i_solv _ _ (run_inv c h s0 (fresh_inv c s0 F))). Qed.

(* the equation funds every unpaid recorded withdrawal, given that no ledger term is negative *)
Lemma c08_drain_partial c s d w :
  solvent c s d →
  (0 ≤ gets (L2.bk (l2 s)) (l2d c d))%Z →
  (∀ ev, ev ∈ bevents c (l1 s) → (0 ≤ L1.e_amt ev)%Z) →
  (∀ w', w' ∈ L2.wlog (l2 s) → (0 ≤ L2.w_amt w')%Z) →
  (∀ x, x ∈ donated s → (0 ≤ x.2)%Z) →
  w ∈ L2.wlog (l2 s) → L2.w_seq w ∉ paid s → L2.w_denom w = l2d c d →
  (L2.w_amt w ≤ getb (L1.bk (l1 s)) (escrow_of c) d)%Z.
Proof.
  intros Hs Hsup Hev Hw Hdn Hin Hnp Hd. unfold solvent in Hs. rewrite Hs.
  assert (0 ≤ pending_dep c s d)%Z.
  { apply zsum_nonneg. intros ev Hx. case_bool_decide; [by apply Hev|lia]. }
  assert (0 ≤ donations s d)%Z.
  { apply zsum_nonneg. intros x Hx. case_bool_decide; [by apply Hdn|lia]. }
  assert (L2.w_amt w ≤ pending_wd s (l2d c d))%Z.
  { unfold pending_wd.
    pose proof (zsum_ge_elem (λ w0, if bool_decide (L2.w_seq w0 ∉ paid s ∧ L2.w_denom w0 = l2d c d)
                                    then L2.w_amt w0 else 0%Z) (L2.wlog (l2 s)) w) as Hge.
    cbn beta in Hge. rewrite bool_decide_eq_true_2 in Hge by done. apply Hge; [|done].
    intros y Hy. case_bool_decide; [by apply Hw|lia]. }
  lia.
Qed.

(* non-vacuity: fresh states exist (empty machines with the bridge's sequences at 1) *)
Module C08Example.
  Definition c : scfg :=
    {| c1 := {| L1.resolve := λ _, None; L1.gov := []; L1.escrow := λ b, (1000 + b)%N; L1.pool := 50;
                L1.hash := λ x, firstn_pad 32 x; L1.parse := λ _, None |};
       c2 := {| L2.resolve := λ _, None; L2.blocked := λ _, false; L2.authority := []; L2.modacc := 100;
                L2.feecol := 101 |};
       bid := 1 |}.
  Definition s0 : sys :=
    {| l1 := L1.init_state;
       l2 := {| L2.bk := bank_empty; L2.next_l1 := 1; L2.next_l2 := 1; L2.pairs := ∅;
                L2.prm := {| L2.p_admin := []; L2.p_execs := []; L2.p_maxv := 1; L2.p_hist := 1;
                             L2.p_mingas := []; L2.p_whitelist := []; L2.p_hookgas := 0 |};
                L2.info := None; L2.vs := vempty; L2.seqs := ∅; L2.wlog := []; L2.dlog := [] |};
       paid := []; donated := [] |}.
  Example s0_fresh : fresh c s0.
  Proof. repeat split; try reflexivity. Qed.
End C08Example.
