(* The permissioned-channel hook of the L1 model: what each of the three hook entry points
   does to the admin table, and that it touches nothing else.  Used by C12 (the update
   handlers run through the hook) and C19. *)
From stdpp Require Import gmap numbers list.
From Coq Require Import ZArith Lia.
Require Import Model.Bytes Model.Bank Model.Hashes Model.L1.

Lemma upd_admins_id s : upd_admins s (admins s) = s.
Proof. by destruct s. Qed.
Lemma upd_admins_twice s x y : upd_admins (upd_admins s x) y = upd_admins s y.
Proof. reflexivity. Qed.
Lemma admins_upd_admins s x : admins (upd_admins s x) = x.
Proof. reflexivity. Qed.
Lemma chans_upd_admins s x : chans (upd_admins s x) = chans s.
Proof. reflexivity. Qed.
Lemma configs_upd_admins s x : configs (upd_admins s x) = configs s.
Proof. reflexivity. Qed.

(* [s'] differs from [s] in the admin table only *)
Definition only_admins (s s' : l1state) : Prop := s' = upd_admins s (admins s').
Lemma only_admins_refl s : only_admins s s.
Proof. unfold only_admins. by rewrite upd_admins_id. Qed.
Lemma only_admins_trans s1 s2 s3 : only_admins s1 s2 → only_admins s2 s3 → only_admins s1 s3.
Proof. unfold only_admins. intros H1 H2. rewrite H2 at 1. rewrite H1 at 1. reflexivity. Qed.
Lemma only_admins_upd s x : only_admins s (upd_admins s x).
Proof. reflexivity. Qed.
Lemma only_admins_configs s s' : only_admins s s' → configs s' = configs s.
Proof. intros ->. reflexivity. Qed.
Lemma only_admins_chans s s' : only_admins s s' → chans s' = chans s.
Proof. intros ->. reflexivity. Qed.

(* ---- registerChannelAdmin ---- *)
Lemma register_admin_Some s pc a s' :
  register_admin s pc a = Some s' ↔
  chans s !! pc = Some 1%N ∧ admins s !! pc = None ∧ s' = upd_admins s (<[pc := a]> (admins s)).
Proof.
  unfold register_admin. split.
  - intros H. apply bind_Some in H as (n & Hn & H).
    destruct (n =? 1)%N eqn:E; cbn [negb] in H; [|discriminate].
    apply N.eqb_eq in E as ->. case_bool_decide as Ha; [discriminate|]. injection H as <-.
    split; [done|]. split; [|done]. destruct (admins s !! pc) eqn:E; [|done]. exfalso. apply Ha. eauto.
  - intros (Hc & Ha & ->). rewrite Hc. cbn. rewrite Ha.
    case_bool_decide as Hx; [by destruct Hx|done].
Qed.

Lemma foldl_bind_None {A B} (f : B → A → option B) (l : list A) :
  foldl (λ os x, s' ← os; f s' x) None l = None.
Proof. induction l as [|x l IH]; [done|]. cbn. exact IH. Qed.

(* ---- BridgeCreated: every listed channel must be fresh and untaken ---- *)
Lemma created_fold_Some a chs : ∀ s s',
  foldl (λ os pc, s' ← os; register_admin s' pc a) (Some s) chs = Some s' →
  only_admins s s' ∧ NoDup chs ∧
  (∀ pc, pc ∈ chs → chans s !! pc = Some 1%N ∧ admins s !! pc = None ∧ admins s' !! pc = Some a) ∧
  (∀ pc, pc ∉ chs → admins s' !! pc = admins s !! pc).
Proof.
  induction chs as [|pc l IH]; intros s s' H.
  - cbn in H. injection H as <-. split; [apply only_admins_refl|]. split; [constructor|].
    split; [intros pc Hin; by apply elem_of_nil in Hin|done].
  - cbn [foldl] in H. cbn [mbind option_bind] in H.
    destruct (register_admin s pc a) as [s1|] eqn:R; [|by rewrite foldl_bind_None in H].
    apply register_admin_Some in R as (Rc & Ra & ->).
    apply IH in H as (Ho & Hnd & Hin & Hout).
    rewrite chans_upd_admins, admins_upd_admins in *.
    assert (Hpc : pc ∉ l).
    { intros Hx. apply Hin in Hx as (_ & Hx & _). by rewrite lookup_insert in Hx. }
    split; [eapply only_admins_trans; [apply only_admins_upd|exact Ho]|].
    split; [by constructor|]. split.
    + intros pc' Hx. apply elem_of_cons in Hx as [->|Hx].
      * split; [done|]. split; [done|]. rewrite (Hout pc Hpc). by rewrite lookup_insert.
      * destruct (Hin pc' Hx) as (H1 & H2 & H3). split; [done|]. split; [|done].
        destruct (decide (pc' = pc)) as [->|Hne]; [by rewrite lookup_insert in H2|].
        by rewrite lookup_insert_ne in H2.
    + intros pc' Hx. apply not_elem_of_cons in Hx as [Hne Hx]. rewrite (Hout pc' Hx).
      by rewrite lookup_insert_ne.
Qed.

(* ---- BridgeMetadataUpdated: already administered by the same address, or fresh and untaken ---- *)
Lemma metadata_fold_Some a chs : ∀ s s',
  foldl (λ os pc, s' ← os; if bool_decide (admins s' !! pc = Some a) then Some s'
                           else register_admin s' pc a) (Some s) chs = Some s' →
  only_admins s s' ∧
  (∀ pc, pc ∈ chs → admins s' !! pc = Some a ∧
                    (admins s !! pc = Some a ∨ (chans s !! pc = Some 1%N ∧ admins s !! pc = None))) ∧
  (∀ pc, pc ∉ chs → admins s' !! pc = admins s !! pc).
Proof.
  induction chs as [|pc l IH]; intros s s' H.
  - cbn in H. injection H as <-. split; [apply only_admins_refl|].
    split; [intros pc Hin; by apply elem_of_nil in Hin|done].
  - cbn [foldl] in H. cbn [mbind option_bind] in H.
    case_bool_decide as Hsame.
    + apply IH in H as (Ho & Hin & Hout). split; [done|]. split.
      * intros pc' Hx. apply elem_of_cons in Hx as [->|Hx]; [|by apply Hin].
        split; [|by left]. destruct (decide (pc ∈ l)) as [Hl|Hl]; [by apply Hin|].
        by rewrite (Hout pc Hl).
      * intros pc' Hx. apply not_elem_of_cons in Hx as [_ Hx]. by apply Hout.
    + destruct (register_admin s pc a) as [s1|] eqn:R; [|by rewrite foldl_bind_None in H].
      apply register_admin_Some in R as (Rc & Ra & ->).
      apply IH in H as (Ho & Hin & Hout).
      rewrite chans_upd_admins, admins_upd_admins in *.
      split; [eapply only_admins_trans; [apply only_admins_upd|exact Ho]|]. split.
      * intros pc' Hx.
        assert (Hpc : admins s' !! pc = Some a).
        { destruct (decide (pc ∈ l)) as [Hl|Hl]; [by apply Hin|].
          rewrite (Hout pc Hl). by rewrite lookup_insert. }
        apply elem_of_cons in Hx as [->|Hx]; [split; [done|by right]|].
        destruct (decide (pc' = pc)) as [->|Hne]; [split; [done|by right]|].
        destruct (Hin pc' Hx) as (H1 & H2). split; [done|].
        by rewrite lookup_insert_ne in H2.
      * intros pc' Hx. apply not_elem_of_cons in Hx as [Hne Hx]. rewrite (Hout pc' Hx).
        by rewrite lookup_insert_ne.
Qed.

(* ---- BridgeChallengerUpdated: unconditional SetAdmin on every listed channel ---- *)
Lemma challenger_fold a chs : ∀ s,
  let s' := foldl (λ s' pc, upd_admins s' (<[pc := a]> (admins s'))) s chs in
  only_admins s s' ∧ (∀ pc, pc ∈ chs → admins s' !! pc = Some a) ∧
  (∀ pc, pc ∉ chs → admins s' !! pc = admins s !! pc).
Proof.
  induction chs as [|pc l IH]; intros s; cbn [foldl].
  - split; [apply only_admins_refl|]. split; [intros pc Hin; by apply elem_of_nil in Hin|done].
  - destruct (IH (upd_admins s (<[pc:=a]> (admins s)))) as (Ho & Hin & Hout).
    rewrite admins_upd_admins in *.
    split; [eapply only_admins_trans; [apply only_admins_upd|exact Ho]|]. split.
    + intros pc' Hx. apply elem_of_cons in Hx as [->|Hx]; [|by apply Hin].
      destruct (decide (pc ∈ l)) as [Hl|Hl]; [by apply Hin|]. rewrite (Hout pc Hl). by rewrite lookup_insert.
    + intros pc' Hx. apply not_elem_of_cons in Hx as [Hne Hx]. rewrite (Hout pc' Hx).
      by rewrite lookup_insert_ne.
Qed.

(* ---- the three hooks ---- *)
Lemma hook_created_Some c s x s' :
  hook_created c s x = Some s' →
  only_admins s s' ∧
  match parse c (c_meta x) with
  | None => s' = s
  | Some chs => ∃ a, resolve c (c_challenger x) = Some a ∧ NoDup chs ∧
      (∀ pc, pc ∈ chs → chans s !! pc = Some 1%N ∧ admins s !! pc = None ∧ admins s' !! pc = Some a) ∧
      (∀ pc, pc ∉ chs → admins s' !! pc = admins s !! pc)
  end.
Proof.
  unfold hook_created. destruct (parse c (c_meta x)) as [chs|].
  - intros H. apply bind_Some in H as (a & Ha & H). apply created_fold_Some in H as (Ho & Hnd & Hin & Hout).
    split; [done|]. exists a. auto.
  - intros [= <-]. split; [apply only_admins_refl|done].
Qed.

Lemma hook_metadata_Some c s x s' :
  hook_metadata c s x = Some s' →
  only_admins s s' ∧
  match parse c (c_meta x) with
  | None => s' = s
  | Some chs => ∃ a, resolve c (c_challenger x) = Some a ∧
      (∀ pc, pc ∈ chs → admins s' !! pc = Some a ∧
            (admins s !! pc = Some a ∨ (chans s !! pc = Some 1%N ∧ admins s !! pc = None))) ∧
      (∀ pc, pc ∉ chs → admins s' !! pc = admins s !! pc)
  end.
Proof.
  unfold hook_metadata. destruct (parse c (c_meta x)) as [chs|].
  - intros H. apply bind_Some in H as (a & Ha & H). apply metadata_fold_Some in H as (Ho & Hin & Hout).
    split; [done|]. exists a. auto.
  - intros [= <-]. split; [apply only_admins_refl|done].
Qed.

Lemma hook_challenger_Some c s x s' :
  hook_challenger c s x = Some s' →
  only_admins s s' ∧
  match parse c (c_meta x) with
  | None => s' = s
  | Some chs => ∃ a, resolve c (c_challenger x) = Some a ∧
      (∀ pc, pc ∈ chs → admins s' !! pc = Some a) ∧
      (∀ pc, pc ∉ chs → admins s' !! pc = admins s !! pc)
  end.
Proof.
  unfold hook_challenger. destruct (parse c (c_meta x)) as [chs|].
  - intros H. apply bind_Some in H as (a & Ha & [= <-]).
    destruct (challenger_fold a chs s) as (Ho & Hin & Hout). split; [done|]. exists a. auto.
  - intros [= <-]. split; [apply only_admins_refl|done].
Qed.

(* the challenger hook never fails when the new challenger is a valid address *)
Lemma hook_challenger_total c s x :
  is_Some (resolve c (c_challenger x)) → is_Some (hook_challenger c s x).
Proof.
  intros [a Ha]. unfold hook_challenger. destruct (parse c (c_meta x)); [|eauto].
  rewrite Ha. cbn. eauto.
Qed.
