(* Proofs about Model/Fee.v (property C20, fee floor). *)
From Coq Require Import List NArith Bool Lia.
Require Import Model.Fee.
Import ListNotations.
Local Open Scope N_scope.

(* ---------- amount_of / ssorted basics ---------- *)

Lemma amount_of_notin : forall v d, ~ In d (map fst v) -> amount_of v d = 0.
Proof.
  induction v as [|[d' a] v IH]; intros d Hn; cbn [amount_of]; [reflexivity|].
  cbn [map fst In] in Hn.
  destruct (N.eqb_spec d' d) as [->|Hne]; [exfalso; apply Hn; now left|].
  apply IH. intro Hin. apply Hn. now right.
Qed.

Lemma ssorted_head_notin : forall d a v, ssorted ((d, a) :: v) -> ~ In d (map fst v).
Proof. intros d a v [Hlt _] Hin. specialize (Hlt d Hin). lia. Qed.

Lemma amount_of_below : forall v d, (forall x, In x (map fst v) -> d < x) -> amount_of v d = 0.
Proof.
  intros v d H. apply amount_of_notin. intro Hin. specialize (H d Hin). lia.
Qed.

Lemma ssorted_NoDup : forall v, ssorted v -> NoDup (map fst v).
Proof.
  induction v as [|[d a] v IH]; intros Hs; cbn [map fst]; [constructor|].
  constructor; [eapply ssorted_head_notin; eauto|]. apply IH. apply Hs.
Qed.

Lemma in_amount_of : forall v d a, ssorted v -> In (d, a) v -> amount_of v d = a.
Proof.
  induction v as [|[d' a'] v IH]; intros d a Hs Hin; [destruct Hin|].
  cbn [amount_of]. destruct Hin as [Heq|Hin].
  - inversion Heq; subst. now rewrite N.eqb_refl.
  - destruct (N.eqb_spec d' d) as [->|Hne].
    + exfalso. eapply ssorted_head_notin; eauto. apply (in_map fst) in Hin. exact Hin.
    + apply IH; [apply Hs|exact Hin].
Qed.

Lemma amount_of_in : forall v d, amount_of v d <> 0 -> In (d, amount_of v d) v.
Proof.
  induction v as [|[d' a'] v IH]; intros d Hnz; cbn [amount_of] in *; [congruence|].
  destruct (N.eqb_spec d' d) as [->|Hne]; [now left|right; now apply IH].
Qed.

(* ---------- drop_zero ---------- *)

Lemma drop_zero_fst_incl : forall v x, In x (map fst (drop_zero v)) -> In x (map fst v).
Proof.
  intros v x Hin. apply in_map_iff in Hin as [[d a] [Hx Hin]].
  apply filter_In in Hin as [Hin _]. apply in_map_iff. now exists (d, a).
Qed.

Lemma drop_zero_ssorted : forall v, ssorted v -> ssorted (drop_zero v).
Proof.
  induction v as [|[d a] v IH]; intros Hs; [exact I|].
  destruct Hs as [Hlt Hs]. unfold drop_zero. cbn [filter snd].
  destruct (negb (a =? 0)).
  - split; [|now apply IH]. intros x Hx. apply Hlt. now apply drop_zero_fst_incl.
  - now apply IH.
Qed.

Lemma drop_zero_amount : forall v d, ssorted v -> amount_of (drop_zero v) d = amount_of v d.
Proof.
  induction v as [|[d' a] v IH]; intros d Hs; [reflexivity|]. destruct Hs as [Hlt Hs].
  unfold drop_zero. cbn [filter snd]. destruct (N.eqb_spec a 0) as [->|Hnz]; cbn [negb amount_of].
  - fold (drop_zero v). rewrite IH by assumption.
    destruct (N.eqb_spec d' d) as [<-|Hne]; [now apply amount_of_below|reflexivity].
  - fold (drop_zero v). now rewrite IH.
Qed.

(* ---------- add1 = pointwise addition on sorted vectors ---------- *)

Lemma add1_fst_incl : forall v d a x, In x (map fst (add1 v d a)) -> x = d \/ In x (map fst v).
Proof.
  induction v as [|[d' a'] v IH]; intros d a x Hin; cbn [add1] in Hin.
  - destruct (a =? 0); [destruct Hin|]. destruct Hin as [<-|[]]. now left.
  - cbn [map fst In]. destruct (d' <? d).
    + destruct (a' =? 0).
      * apply IH in Hin. tauto.
      * destruct Hin as [<-|Hin]; [tauto|]. apply IH in Hin. tauto.
    + destruct (d' =? d) eqn:E.
      * destruct (a' + a =? 0).
        -- apply drop_zero_fst_incl in Hin. tauto.
        -- destruct Hin as [<-|Hin]; [tauto|]. apply drop_zero_fst_incl in Hin. tauto.
      * destruct (a =? 0).
        -- apply drop_zero_fst_incl in Hin. exact (or_intror Hin).
        -- destruct Hin as [<-|Hin]; [tauto|]. apply drop_zero_fst_incl in Hin. exact (or_intror Hin).
Qed.

Lemma add1_ssorted : forall v d a, ssorted v -> ssorted (add1 v d a).
Proof.
  induction v as [|[d' a'] v IH]; intros d a Hs; cbn [add1].
  - destruct (a =? 0); cbn; auto. split; [intros x []|exact I].
  - destruct Hs as [Hlt Hs]. destruct (N.ltb_spec d' d) as [Hl|Hge].
    + destruct (a' =? 0); [now apply IH|]. split; [|now apply IH].
      intros x Hx. apply add1_fst_incl in Hx as [->|Hx]; [exact Hl|now apply Hlt].
    + destruct (N.eqb_spec d' d) as [->|Hne].
      * destruct (a' + a =? 0); [now apply drop_zero_ssorted|].
        split; [|now apply drop_zero_ssorted]. intros x Hx. apply Hlt. now apply drop_zero_fst_incl.
      * assert (Hs' : ssorted ((d', a') :: v)) by (split; assumption).
        destruct (a =? 0); [now apply drop_zero_ssorted|].
        split; [|now apply drop_zero_ssorted]. intros x Hx. apply drop_zero_fst_incl in Hx.
        destruct Hx as [<-|Hx]; [cbn; lia|]. specialize (Hlt x Hx). lia.
Qed.

Lemma add1_amount : forall v d a d', ssorted v ->
  amount_of (add1 v d a) d' = if d =? d' then amount_of v d + a else amount_of v d'.
Proof.
  induction v as [|[e b] v IH]; intros d a d' Hs; cbn [add1].
  - cbn [amount_of]. destruct (N.eqb_spec a 0) as [->|Hnz]; cbn [amount_of].
    + now destruct (d =? d').
    + reflexivity.
  - destruct Hs as [Hlt Hs]. destruct (N.ltb_spec e d) as [Hl|Hge].
    + assert (Hed : (e =? d) = false) by (apply N.eqb_neq; lia).
      destruct (N.eqb_spec b 0) as [->|Hnz].
      * rewrite IH by assumption. cbn [amount_of]. rewrite Hed.
        destruct (N.eqb_spec d d') as [<-|Hne]; [reflexivity|].
        destruct (N.eqb_spec e d') as [<-|Hne2]; [|reflexivity].
        now rewrite amount_of_below.
      * cbn [amount_of]. rewrite IH by assumption. rewrite Hed.
        destruct (N.eqb_spec e d') as [<-|Hne2].
        -- assert (Hde : (d =? e) = false) by (apply N.eqb_neq; lia). now rewrite Hde.
        -- reflexivity.
    + destruct (N.eqb_spec e d) as [->|Hne].
      * cbn [amount_of]. rewrite N.eqb_refl.
        destruct (N.eqb_spec (b + a) 0) as [Hz|Hnz].
        -- rewrite drop_zero_amount by assumption. destruct (N.eqb_spec d d') as [<-|Hne]; [|reflexivity].
           rewrite amount_of_below by assumption. lia.
        -- cbn [amount_of]. rewrite drop_zero_amount by assumption. now destruct (d =? d').
      * assert (Hlt' : d < e) by lia.
        assert (Hbelow : amount_of ((e, b) :: v) d = 0).
        { apply amount_of_below. intros x [<-|Hx]; [exact Hlt'|]. specialize (Hlt x Hx). lia. }
        assert (Hs' : ssorted ((e, b) :: v)) by (split; assumption).
        destruct (N.eqb_spec a 0) as [->|Hnz].
        -- rewrite drop_zero_amount by assumption. destruct (N.eqb_spec d d') as [<-|Hne2]; [|reflexivity].
           rewrite Hbelow. reflexivity.
        -- cbn [amount_of]. rewrite drop_zero_amount by assumption.
           destruct (N.eqb_spec d d') as [<-|Hne2]; [|reflexivity].
           cbn [amount_of] in Hbelow. rewrite Hbelow. reflexivity.
Qed.

(* ---------- CombinedMinGasPrices is the pointwise maximum ---------- *)

Lemma combine_step_ssorted : forall mg c, ssorted mg -> ssorted (combine_step mg c).
Proof.
  intros mg [d a] Hs. unfold combine_step. cbn [fst snd].
  destruct (amount_of mg d =? 0); [now apply add1_ssorted|].
  destruct (amount_of mg d <? a); [now apply add1_ssorted|assumption].
Qed.

Lemma combine_step_amount : forall mg d a d', ssorted mg ->
  amount_of (combine_step mg (d, a)) d' =
  if d =? d' then N.max (amount_of mg d) a else amount_of mg d'.
Proof.
  intros mg d a d' Hs. unfold combine_step. cbn [fst snd].
  destruct (N.eqb_spec (amount_of mg d) 0) as [Hz|Hnz].
  - rewrite add1_amount by assumption. destruct (d =? d'); [|reflexivity]. lia.
  - destruct (N.ltb_spec (amount_of mg d) a) as [Hl|Hge].
    + rewrite add1_amount by assumption. destruct (d =? d'); [|reflexivity]. lia.
    + destruct (N.eqb_spec d d') as [<-|Hne]; [|reflexivity]. lia.
Qed.

Lemma combined_spec : forall chain node, ssorted node -> NoDup (map fst chain) ->
  ssorted (combined node chain) /\
  forall d, amount_of (combined node chain) d = N.max (amount_of node d) (amount_of chain d).
Proof.
  unfold combined.
  induction chain as [|[d a] chain IH]; intros node Hs Hnd; cbn [fold_left].
  - split; [assumption|]. intros d. cbn [amount_of]. lia.
  - cbn [map fst] in Hnd. inversion Hnd as [|? ? Hnotin Hnd']; subst.
    destruct (IH (combine_step node (d, a)) (combine_step_ssorted _ _ Hs) Hnd') as [Hs' Hamt].
    split; [exact Hs'|]. intros d'. rewrite Hamt, combine_step_amount by assumption.
    cbn [amount_of]. destruct (N.eqb_spec d d') as [<-|Hne].
    + rewrite (amount_of_notin chain d Hnotin). lia.
    + reflexivity.
Qed.

Lemma combined_is_max : forall node chain d, ssorted node -> ssorted chain ->
  amount_of (combined node chain) d = N.max (amount_of node d) (amount_of chain d).
Proof.
  intros node chain d Hn Hc. apply combined_spec; [assumption|now apply ssorted_NoDup].
Qed.

(* ---------- is_zero, required_fees, is_any_gte ---------- *)

Lemma is_zero_iff : forall v, ssorted v -> (is_zero v = true <-> forall d, amount_of v d = 0).
Proof.
  unfold is_zero.
  induction v as [|[d a] v IH]; intros Hs; cbn [forallb snd].
  - split; [reflexivity|auto].
  - destruct Hs as [Hlt Hs]. rewrite andb_true_iff, (IH Hs). split.
    + intros [Ha Hall] d'. apply N.eqb_eq in Ha. subst a. cbn [amount_of].
      destruct (d =? d'); [reflexivity|apply Hall].
    + intros Hall. split.
      * apply N.eqb_eq. specialize (Hall d). cbn [amount_of] in Hall. now rewrite N.eqb_refl in Hall.
      * intros d'. specialize (Hall d'). cbn [amount_of] in Hall.
        destruct (N.eqb_spec d d') as [Heq|Hne]; [|exact Hall].
        subst d'. now apply amount_of_below.
Qed.

Lemma required_zero_price : forall g, required 0 g = 0.
Proof. intros g. unfold required, prec. cbn [N.mul]. now apply N.div_small. Qed.

Lemma required_fees_amount : forall g mg d,
  amount_of (required_fees g mg) d = required (amount_of mg d) g.
Proof.
  induction mg as [|[d' a] mg IH]; intros d; cbn [required_fees map amount_of fst snd].
  - now rewrite required_zero_price.
  - destruct (d' =? d); [reflexivity|apply IH].
Qed.

Lemma is_any_gte_iff : forall fee req, req <> [] ->
  (is_any_gte fee req = true <->
   exists d f, In (d, f) fee /\ amount_of req d <> 0 /\ amount_of req d <= f).
Proof.
  intros fee req Hne. unfold is_any_gte.
  assert (Hlen : negb (Nat.eqb (length req) 0) = true) by (destruct req; [congruence|reflexivity]).
  rewrite Hlen, andb_true_l, existsb_exists. split.
  - intros [[d f] [Hin Hc]]. cbn [fst snd] in Hc. apply andb_true_iff in Hc as [Hle Hnz].
    exists d, f. split; [exact Hin|]. apply N.leb_le in Hle. apply negb_true_iff, N.eqb_neq in Hnz. tauto.
  - intros (d & f & Hin & Hnz & Hle). exists (d, f). split; [exact Hin|]. cbn [fst snd].
    apply andb_true_iff. split; [now apply N.leb_le|]. now apply negb_true_iff, N.eqb_neq.
Qed.

(* ---------- Ceil arithmetic ---------- *)

(* f >= Ceil(p*g / 10^18)  <->  f * 10^18 >= p*g *)
Lemma ceil_le_iff : forall c x f, 0 < c -> (x + c - 1) / c <= f <-> x <= f * c.
Proof.
  intros c x f Hc. assert (Hc0 : c <> 0) by lia. split; intros Hle.
  - pose proof (N.div_mod (x + c - 1) c Hc0) as Hdm.
    pose proof (N.mod_upper_bound (x + c - 1) c Hc0) as Hub.
    set (q := (x + c - 1) / c) in *. set (r := (x + c - 1) mod c) in *.
    assert (c * q <= c * f) by (apply N.mul_le_mono_l; exact Hle). lia.
  - apply N.lt_succ_r. apply N.div_lt_upper_bound; [exact Hc0|]. lia.
Qed.

Lemma required_le_iff : forall p g f, required p g <= f <-> p * g <= f * prec.
Proof. intros p g f. unfold required. apply ceil_le_iff. unfold prec. lia. Qed.

Lemma required_pos_iff : forall p g, required p g <> 0 <-> p * g <> 0.
Proof.
  intros p g. unfold required. assert (Hp : prec <> 0) by (unfold prec; lia).
  split.
  - intros Hnz Hz. apply Hnz. rewrite Hz. apply N.div_small. unfold prec. lia.
  - intros Hnz Hq. apply N.div_small_iff in Hq; [|exact Hp]. lia.
Qed.

(* the defining property of the rounded-up product *)
Lemma required_is_ceil : forall p g,
  p * g <= required p g * prec /\ (required p g <> 0 -> (required p g - 1) * prec < p * g).
Proof.
  intros p g. split.
  - apply required_le_iff. lia.
  - intros Hnz. destruct (N.lt_ge_cases ((required p g - 1) * prec) (p * g)) as [Hl|Hge]; [exact Hl|].
    apply required_le_iff in Hge. lia.
Qed.

(* ---------- the fee checker ---------- *)

Definition floor_of (node chain : prices) (d : N) : N := N.max (amount_of node d) (amount_of chain d).

Lemma check_fee_outside_check : forall gas node chain fee, check_fee false gas node chain fee = true.
Proof. reflexivity. Qed.

Lemma check_fee_iff : forall gas node chain fee, ssorted node -> ssorted chain ->
  (check_fee true gas node chain fee = true <->
   (forall d, floor_of node chain d = 0) \/
   exists d f, In (d, f) fee /\ required (floor_of node chain d) gas <> 0 /\
               required (floor_of node chain d) gas <= f).
Proof.
  intros gas node chain fee Hn Hc. unfold check_fee, floor_of.
  destruct (combined_spec chain node Hn (ssorted_NoDup _ Hc)) as [Hs Hamt].
  destruct (is_zero (combined node chain)) eqn:Hz.
  - split; [intros _|reflexivity]. left. intros d. rewrite <- Hamt. now apply (is_zero_iff _ Hs).
  - assert (Hnot : ~ forall d, amount_of (combined node chain) d = 0).
    { intro Hall. apply (is_zero_iff _ Hs) in Hall. congruence. }
    assert (Hne : required_fees gas (combined node chain) <> []).
    { destruct (combined node chain); [discriminate Hz|discriminate]. }
    rewrite (is_any_gte_iff _ _ Hne). split.
    + intros (d & f & Hin & Hnz & Hle). right. exists d, f.
      rewrite required_fees_amount, Hamt in Hnz, Hle. tauto.
    + intros [Hall|(d & f & Hin & Hnz & Hle)].
      * exfalso. apply Hnot. intros d. rewrite Hamt. apply Hall.
      * exists d, f. rewrite required_fees_amount, Hamt. tauto.
Qed.

(* plain arithmetic form: no [required], no division *)
Lemma check_fee_arith : forall gas node chain fee, ssorted node -> ssorted chain ->
  (check_fee true gas node chain fee = true <->
   (forall d, N.max (amount_of node d) (amount_of chain d) = 0) \/
   exists d f, In (d, f) fee /\
               0 < N.max (amount_of node d) (amount_of chain d) * gas /\
               N.max (amount_of node d) (amount_of chain d) * gas <= f * prec).
Proof.
  intros gas node chain fee Hn Hc. rewrite (check_fee_iff gas node chain fee Hn Hc). unfold floor_of.
  split; (intros [Hall|(d & f & Hin & Hnz & Hle)]; [left; exact Hall|right; exists d, f]).
  - apply required_pos_iff in Hnz. apply required_le_iff in Hle. split; [exact Hin|]. split; [lia|exact Hle].
  - split; [exact Hin|]. split; [apply required_pos_iff; lia|now apply required_le_iff].
Qed.

(* the "only if" of the property text *)
Lemma check_fee_only_if : forall gas node chain fee, ssorted node -> ssorted chain -> ssorted fee ->
  check_fee true gas node chain fee = true ->
  (exists d, floor_of node chain d <> 0) ->
  exists d, 0 < floor_of node chain d /\
            required (floor_of node chain d) gas <= amount_of fee d /\
            floor_of node chain d * gas <= amount_of fee d * prec.
Proof.
  intros gas node chain fee Hn Hc Hf Hadm [d0 Hd0].
  apply (check_fee_iff gas node chain fee Hn Hc) in Hadm.
  destruct Hadm as [Hall|(d & f & Hin & Hnz & Hle)]; [now rewrite Hall in Hd0|].
  exists d. rewrite (in_amount_of fee d f Hf Hin).
  split; [|split; [exact Hle|now apply required_le_iff]].
  apply required_pos_iff in Hnz. lia.
Qed.

(* gas = 0 under a positive floor is always rejected (interpretation decision "Gas = 0") *)
Lemma check_fee_gas_zero : forall node chain fee d, ssorted node -> ssorted chain ->
  floor_of node chain d <> 0 -> check_fee true 0 node chain fee = false.
Proof.
  intros node chain fee d Hn Hc Hd. destruct (check_fee true 0 node chain fee) eqn:E; [|reflexivity].
  apply (check_fee_arith 0 node chain fee Hn Hc) in E. unfold floor_of in Hd.
  destruct E as [Hall|(d' & f & _ & Hpos & _)]; [now rewrite Hall in Hd|lia].
Qed.

(* ---------- non-vacuity ---------- *)

Definition ex_node : prices := [(1, 150000000000000000); (3, 1)].
Definition ex_chain : prices := [(1, 100000000000000000); (2, 2500000000000000000)].

Example ex_combined : combined ex_node ex_chain =
  [(1, 150000000000000000); (2, 2500000000000000000); (3, 1)].
Proof. vm_compute. reflexivity. Qed.
Example ex_sorted : ssorted ex_node /\ ssorted ex_chain.
Proof. cbn. repeat split; intros x Hx; cbn in Hx; intuition (subst; lia). Qed.
(* gas 3 at price 0.15: required 1 (0.45 rounded up); 10^-18 at gas 3: required 1 *)
Example ex_required : required_fees 3 (combined ex_node ex_chain) = [(1, 1); (2, 8); (3, 1)].
Proof. vm_compute. reflexivity. Qed.
Example ex_admit : check_fee true 3 ex_node ex_chain [(2, 8)] = true.
Proof. vm_compute. reflexivity. Qed.
Example ex_reject : check_fee true 3 ex_node ex_chain [(2, 7)] = false.
Proof. vm_compute. reflexivity. Qed.
Example ex_reject_zero_gas : check_fee true 0 ex_node ex_chain [(1, 1000); (2, 1000); (3, 1000)] = false.
Proof. vm_compute. reflexivity. Qed.
Example ex_deliver : check_fee false 3 ex_node ex_chain [] = true.
Proof. reflexivity. Qed.
Example ex_no_floor : check_fee true 3 [] [(2, 0)] [] = true.
Proof. vm_compute. reflexivity. Qed.
