(* Soundness and completeness of the withdrawal tree, for every tree size, leaf position and
   proof length, for an arbitrary 32-byte hash [H].  Soundness concludes with an explicit
   collision; nothing about SHA-3 is assumed. *)
From Coq Require Import List Arith NArith Lia Bool.
Require Import Model.Bytes Model.Hashes Model.Merkle.
Import ListNotations.

Section MerkleProofs.
  Variable H : bytes -> bytes.
  Hypothesis H_len : forall x, length (H x) = 32.

  Definition Collision : Prop := exists x y : bytes, x <> y /\ H x = H y.

  Notation node := (node H).
  Notation pair_up := (pair_up H).
  Notation root_fuel := (root_fuel H).
  Notation build := (build H).
  Notation verify := (verify H).
  Notation sibling := (@sibling).
  Notation prove_fuel := (prove_fuel H).
  Notation prove := (prove H).
  Notation nodes_fuel := (nodes_fuel H).

  Lemma lexle_antisym a b : lexle a b = true -> lexle b a = true -> a = b.
  Proof.
    revert b; induction a as [|x a IH]; intros [|y b]; simpl; try congruence; auto.
    destruct (N.ltb_spec x y), (N.ltb_spec y x); try lia; try congruence.
    intros; f_equal; [lia|auto].
  Qed.
  Lemma lexle_total a b : lexle a b = true \/ lexle b a = true.
  Proof.
    revert b; induction a as [|x a IH]; intros [|y b]; simpl; auto.
    destruct (N.ltb_spec x y), (N.ltb_spec y x); auto; try lia.
  Qed.
  Lemma node_comm a b : node a b = node b a.
  Proof.
    unfold Hashes.node. destruct (lexle b a) eqn:E1, (lexle a b) eqn:E2; auto.
    - rewrite (lexle_antisym _ _ E1 E2); auto.
    - destruct (lexle_total a b); congruence.
  Qed.

  Lemma app_inj_len (a b c d : bytes) : length a = length c -> a ++ b = c ++ d -> a = c /\ b = d.
  Proof.
    revert c; induction a as [|x a IH]; intros [|y c]; simpl; try discriminate; auto.
    intros Hl Heq. injection Heq as -> Heq. destruct (IH c) as [-> ->]; auto.
  Qed.

  Lemma node_inj a b c d :
    length a = 32 -> length b = 32 -> length c = 32 -> length d = 32 ->
    node a b = node c d -> (a = c /\ b = d) \/ (a = d /\ b = c) \/ Collision.
  Proof.
    intros La Lb Lc Ld. unfold Hashes.node.
    destruct (lexle b a), (lexle d c); intros E.
    - destruct (bytes_eq_dec (b ++ a) (d ++ c)) as [e|ne].
      + apply app_inj_len in e; [|congruence]. left; tauto.
      + right; right; exists (b ++ a), (d ++ c); auto.
    - destruct (bytes_eq_dec (b ++ a) (c ++ d)) as [e|ne].
      + apply app_inj_len in e; [|congruence]. right; left; tauto.
      + right; right; exists (b ++ a), (c ++ d); auto.
    - destruct (bytes_eq_dec (a ++ b) (d ++ c)) as [e|ne].
      + apply app_inj_len in e; [|congruence]. right; left; tauto.
      + right; right; exists (a ++ b), (d ++ c); auto.
    - destruct (bytes_eq_dec (a ++ b) (c ++ d)) as [e|ne].
      + apply app_inj_len in e; [|congruence]. left; tauto.
      + right; right; exists (a ++ b), (c ++ d); auto.
  Qed.

  Lemma pair_up_In y l : In y (pair_up l) -> exists a b, In a l /\ In b l /\ y = node a b.
  Proof.
    revert y. induction l as [l IH] using (well_founded_induction (well_founded_ltof _ (@length bytes))).
    intros y. destruct l as [|a [|b t]]; simpl; [tauto| |].
    - intros [<-|[]]. exists a, a; simpl; auto.
    - intros [<-|Hin]. { exists a, b; simpl; auto. }
      destruct (IH t) with (y := y) as (a' & b' & ? & ? & ?); [unfold ltof; simpl; lia|auto|].
      exists a', b'; simpl; auto.
  Qed.

  Lemma pair_up_len l : 2 <= length l -> length (pair_up l) < length l.
  Proof.
    induction l as [l IH] using (well_founded_induction (well_founded_ltof _ (@length bytes))).
    destruct l as [|a [|b t]]; simpl; try lia. intros _.
    destruct t as [|c [|d t']]; simpl; try lia.
    specialize (IH (c :: d :: t')). unfold ltof in IH; simpl in IH. lia.
  Qed.

  (* ---------- soundness ---------- *)
  Definition all32 (l : list bytes) : Prop := Forall (fun x => length x = 32) l.

  Lemma node_len a b : length (node a b) = 32.
  Proof. unfold Hashes.node; destruct (lexle b a); apply H_len. Qed.

  Lemma node_is_H64 a b : length a = 32 -> length b = 32 -> exists u, length u = 64 /\ node a b = H u.
  Proof.
    intros La Lb; unfold Hashes.node; destruct (lexle b a); eexists; split; try reflexivity;
      rewrite app_length; lia.
  Qed.

  Lemma pair_up_all32 l : all32 (pair_up l).
  Proof.
    induction l as [l IH] using (well_founded_induction (well_founded_ltof _ (@length bytes))).
    destruct l as [|a [|b t]]; simpl; constructor; auto using node_len.
    apply IH; unfold ltof; simpl; lia.
  Qed.

  Lemma nodes_all32 n l : all32 l -> all32 (nodes_fuel n l).
  Proof.
    revert l; induction n as [|k IH]; intros l Hl; simpl; auto.
    destruct l as [|x [|y t]]; auto.
    - simpl. apply IH. constructor.
    - apply Forall_app; split; auto. apply IH, pair_up_all32.
  Qed.

  Lemma nodes_char n l y : In y (nodes_fuel n l) ->
    In y l \/ exists a b, In a (nodes_fuel n l) /\ In b (nodes_fuel n l) /\ y = node a b.
  Proof.
    revert l y; induction n as [|k IH]; intros l y; simpl; auto.
    destruct l as [|x [|z t]]; auto.
    - simpl. intros Hy. apply IH in Hy. destruct Hy as [[]|(a & b & Ha & Hb & ->)].
      right; exists a, b; auto.
    - intros Hy. apply in_app_or in Hy. destruct Hy as [Hy|Hy]; auto.
      right. apply IH in Hy. destruct Hy as [Hy|(a & b & Ha & Hb & ->)].
      + apply pair_up_In in Hy. destruct Hy as (a & b & Ha & Hb & ->).
        exists a, b; repeat split; auto; apply in_or_app; auto.
      + exists a, b; repeat split; auto; apply in_or_app; auto.
  Qed.

  (* a leaf is the hash of a 32-byte string (GenerateWithdrawalHash hashes twice) *)
  Definition leaf_form (x : bytes) : Prop := exists u, length u = 32 /\ x = H u.

  Lemma leaf_vs_node x a b : leaf_form x -> length a = 32 -> length b = 32 -> x = node a b -> Collision.
  Proof.
    intros (u & Lu & ->) La Lb E. destruct (node_is_H64 a b La Lb) as (v & Lv & Ev).
    exists u, v; split; [intros ->; lia|congruence].
  Qed.

  Lemma parent_in_tree n l z q :
    all32 l -> Forall leaf_form l -> length z = 32 -> length q = 32 ->
    In (node z q) (nodes_fuel n l) -> In z (nodes_fuel n l) \/ Collision.
  Proof.
    intros Hl Hf Lz Lq Hin. pose proof (nodes_all32 n l Hl) as Hall.
    unfold all32 in Hall. rewrite Forall_forall in Hall, Hf.
    destruct (nodes_char _ _ _ Hin) as [Hleaf|(a & b & Ha & Hb & E)].
    - right. eapply (leaf_vs_node (node z q) z q); eauto.
    - destruct (node_inj z q a b) as [[-> _]|[[-> _]|C]]; auto.
  Qed.

  Lemma fold_len p x : length x = 32 -> length (fold_left node p x) = 32.
  Proof. revert x; induction p; simpl; auto using node_len. Qed.

  Theorem climb_sound n l p x :
    all32 l -> Forall leaf_form l -> all32 p -> length x = 32 ->
    In (fold_left node p x) (nodes_fuel n l) -> In x (nodes_fuel n l) \/ Collision.
  Proof.
    intros Hl Hf. revert x. induction p as [|q p IH] using rev_ind; intros x Hp Lx; simpl; auto.
    rewrite fold_left_app; simpl. apply Forall_app in Hp as [Hp Hq]. inversion Hq; subst.
    intros Hin. apply parent_in_tree in Hin; auto using fold_len.
    destruct Hin as [Hin|C]; auto.
  Qed.

  Lemma root_in_nodes n l : l <> [] -> In (root_fuel n l) (nodes_fuel n l).
  Proof.
    revert l; induction n as [|k IH]; intros l Hne; simpl.
    - destruct l; [congruence|simpl; auto].
    - destruct l as [|x [|y t]]; [congruence|simpl; auto|].
      apply in_or_app; right. apply IH. simpl; discriminate.
  Qed.

  Theorem merkle_sound l p x :
    l <> [] -> all32 l -> Forall leaf_form l -> all32 p -> leaf_form x ->
    verify (build l) x p = true -> In x l \/ Collision.
  Proof.
    intros Hne Hl Hf Hp Hx. unfold Merkle.verify, Merkle.build, root_from_proof.
    destruct (bytes_eq_dec _ _) as [E|]; [intros _|discriminate].
    assert (Lx : length x = 32) by (destruct Hx as (u & _ & ->); apply H_len).
    pose proof (root_in_nodes (length l) l Hne) as Hr. rewrite <- E in Hr.
    apply climb_sound in Hr; auto. destruct Hr as [Hr|C]; auto.
    destruct (nodes_char _ _ _ Hr) as [Hleaf|(a & b & Ha & Hb & E')]; auto.
    right. pose proof (nodes_all32 (length l) l Hl) as Hall. unfold all32 in Hall. rewrite Forall_forall in Hall.
    eapply (leaf_vs_node x a b); eauto.
  Qed.

  (* ---------- completeness ---------- *)
  Lemma div2_SS j : S (S j) / 2 = S (j / 2).
  Proof. change (S (S j)) with (1 * 2 + j). rewrite Nat.add_comm, Nat.div_add; lia. Qed.

  Lemma pair_up_nth l i : i < length l ->
    i / 2 < length (pair_up l) /\ nth (i / 2) (pair_up l) [] = node (nth i l []) (sibling l i).
  Proof.
    revert i. induction l as [l IH] using (well_founded_induction (well_founded_ltof _ (@length bytes))).
    intros i Hi. destruct l as [|a [|b t]]; simpl in Hi; [lia| |].
    - assert (i = 0) by lia; subst. simpl. split; [lia|reflexivity].
    - destruct i as [|[|j]].
      + simpl. split; [lia|]. unfold Merkle.sibling; simpl. reflexivity.
      + simpl. split; [lia|]. unfold Merkle.sibling; simpl. apply node_comm.
      + rewrite div2_SS. cbn [Merkle.pair_up nth length].
        destruct (IH t) with (i := j) as [Hlt Hn]; [unfold ltof; simpl; lia|lia|].
        split; [cbn [length]; lia|]. rewrite Hn. f_equal.
        unfold Merkle.sibling. cbn [Nat.even length].
        destruct (Nat.even j) eqn:Ev.
        * replace (S (S (S j)) <? S (S (length t))) with (S j <? length t)
            by (destruct (Nat.ltb_spec (S j) (length t)), (Nat.ltb_spec (S (S (S j))) (S (S (length t)))); auto; lia).
          destruct (S j <? length t); reflexivity.
        * destruct j as [|j']; [discriminate|]. simpl. rewrite Nat.sub_0_r. reflexivity.
  Qed.

  Theorem climb_complete n l i :
    length l <= n -> i < length l ->
    fold_left node (prove_fuel n l i) (nth i l []) = root_fuel n l.
  Proof.
    revert l i. induction n as [|k IH]; intros l i Hn Hi; [lia|].
    destruct l as [|x [|y t]]; [simpl in Hi; lia| |].
    - simpl in Hi. assert (i = 0) by lia; subst. reflexivity.
    - remember (x :: y :: t) as l eqn:El.
      assert (Hlen : 2 <= length l) by (subst; simpl; lia).
      assert (Hstep : prove_fuel (S k) l i = sibling l i :: prove_fuel k (pair_up l) (i / 2)) by (subst; reflexivity).
      assert (Hroot : root_fuel (S k) l = root_fuel k (pair_up l)) by (subst; reflexivity).
      rewrite Hstep, Hroot. cbn [fold_left].
      destruct (pair_up_nth l i Hi) as [Hlt Hnth]. rewrite <- Hnth.
      apply IH; auto. pose proof (pair_up_len l Hlen). lia.
  Qed.

  Theorem merkle_complete l i : i < length l ->
    verify (build l) (nth i l []) (prove l i) = true.
  Proof.
    intros Hi. unfold Merkle.verify, Merkle.build, Merkle.prove, root_from_proof. rewrite climb_complete; auto.
    destruct (bytes_eq_dec _ _); congruence.
  Qed.

End MerkleProofs.
