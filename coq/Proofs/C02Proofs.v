(* C02 - a withdrawal is paid at most once; the claim set is exactly the set of paid leaves.
   Proof scripts; statements are re-exported in Properties/C02.v. *)
From stdpp Require Import gmap numbers list.
From Coq Require Import ZArith Lia.
Require Import Model.Bytes Model.Bank Model.Hashes Model.L1 Proofs.L1DepLemmas.

(* the claim tuple a finalization message carries: everything except the submitter, the output
   index, the proof and the output-root preimage *)
Record claim := { k_bridge : N; k_seq : N; k_from : bytes; k_to : bytes; k_denom : bytes; k_amt : Z }.
Global Instance claim_eq_dec : EqDecision claim.
Proof. solve_decision. Defined.

Definition claim_of_msg (m : msg) : option claim :=
  match m with
  | MFinalize _ b _ sq _ from to d amt _ _ _ =>
      Some {| k_bridge := b; k_seq := sq; k_from := from; k_to := to; k_denom := d; k_amt := amt |}
  | _ => None
  end.
Definition claim_leaf (c : cfg) (k : claim) : bytes :=
  fin_leaf c (k_bridge k) (k_seq k) (k_from k) (k_to k) (k_denom k) (k_amt k).
Definition claim_key (c : cfg) (k : claim) : N * bytes := (k_bridge k, claim_leaf c k).

(* message m with result r paid claim k *)
Definition pays (k : claim) (m : msg) (r : result) : bool :=
  match r with Ok _ => bool_decide (claim_of_msg m = Some k) | Err => false end.

Fixpoint count_paid (k : claim) (h : list (env * msg)) (rs : list result) : nat :=
  match h, rs with
  | em :: h', r :: rs' => (if pays k em.2 r then 1 else 0) + count_paid k h' rs'
  | _, _ => 0
  end.

(* ---- the claim set only grows ---- *)
Lemma step_proven_mono c e s m x : x ∈ proven s → x ∈ proven (step c e s m).1.
Proof.
  intros Hx. destruct (step_cases c e s m) as [(s1 & r1 & Hh & ->)|[_ ->]]; [|done]. cbn.
  destruct (is_finalize m) eqn:Hf.
  - destruct m; try discriminate. cbn [handle] in Hh.
    apply finalize_Some in Hh as (rcv & _ & _ & _ & _ & _ & _ & _ & _ & _ & _ & _ & _ & _ & _ & _ & Hpr & _).
    rewrite Hpr. set_solver.
  - apply handle_not_finalize in Hh as [-> _]; done.
Qed.

Lemma run_proven_mono c h s x : x ∈ proven s → x ∈ proven (run c s h).1.
Proof. apply (run_invariant c (λ s, x ∈ proven s)). intros. by apply step_proven_mono. Qed.

(* a paying step finds the claim unrecorded and records it *)
Lemma step_pays c e s m s' r k :
  step c e s m = (s', r) → pays k m r = true → claim_key c k ∉ proven s ∧ claim_key c k ∈ proven s'.
Proof.
  intros Hst Hp. unfold pays in Hp. destruct r as [r|]; [|discriminate].
  apply bool_decide_eq_true in Hp. apply step_Ok in Hst.
  destruct m; try discriminate. cbn [claim_of_msg] in Hp. injection Hp as <-. cbn [handle] in Hst.
  apply finalize_Some in Hst as (rcv & _ & _ & _ & _ & _ & _ & _ & Hnot & _ & _ & _ & _ & _ & _ & _ & Hpr & _).
  unfold claim_key, claim_leaf. cbn. split; [done|]. rewrite Hpr. set_solver.
Qed.

Lemma no_pay_when_proven c k h : ∀ s, claim_key c k ∈ proven s → count_paid k h (run c s h).2 = 0.
Proof.
  induction h as [|[e m] h IH]; intros s Hk; [done|]. rewrite run_cons. cbn [count_paid snd].
  rewrite IH by (by apply step_proven_mono).
  destruct (pays k m (step c e s m).2) eqn:Hp; [|done]. exfalso.
  destruct (step c e s m) as [s1 r] eqn:Hst. cbn in Hp.
  by destruct (step_pays _ _ _ _ _ _ _ Hst Hp) as [Hn _].
Qed.

(* C02_at_most_once *)
Lemma c02_at_most_once c k h : ∀ s, count_paid k h (run c s h).2 ≤ 1.
Proof.
  induction h as [|[e m] h IH]; intros s; [cbn; lia|]. rewrite run_cons. cbn [count_paid snd].
  destruct (pays k m (step c e s m).2) eqn:Hp.
  - destruct (step c e s m) as [s1 r] eqn:Hst. cbn in Hp. cbn [fst].
    destruct (step_pays _ _ _ _ _ _ _ Hst Hp) as [_ Hin].
    rewrite (no_pay_when_proven c k h s1 Hin). lia.
  - specialize (IH (step c e s m).1). lia.
Qed.

(* once the claim is recorded, every later submission of the tuple is rejected, whoever submits
   it, against whichever output, with whichever proof *)
Lemma c02_recorded_rejected c e s sender b idx sq proofs from to d amt v sr bh :
  (b, fin_leaf c b sq from to d amt) ∈ proven s →
  step c e s (MFinalize sender b idx sq proofs from to d amt v sr bh) = (s, Err).
Proof.
  intros Hin. destruct (step_cases c e s (MFinalize sender b idx sq proofs from to d amt v sr bh))
    as [(s1 & r1 & Hh & _)|[_ Hs]]; [|done].
  cbn [handle] in Hh.
  apply finalize_Some in Hh as (rcv & _ & _ & _ & _ & _ & _ & _ & Hnot & _). done.
Qed.

(* ---- the claim set is exactly: pre-recorded or paid ---- *)
Definition paid_key (c : cfg) (m : msg) (r : result) : list (N * bytes) :=
  match m, r with
  | MFinalize _ b _ sq _ from to d amt _ _ _, Ok _ => [(b, fin_leaf c b sq from to d amt)]
  | _, _ => []
  end.
Fixpoint paid_keys (c : cfg) (h : list (env * msg)) (rs : list result) : list (N * bytes) :=
  match h, rs with
  | em :: h', r :: rs' => paid_key c em.2 r ++ paid_keys c h' rs'
  | _, _ => []
  end.
Definition payout_key (y : payout) : N * bytes := (y_bridge y, y_leaf y).

Lemma paid_key_not_finalize c m r : is_finalize m = false → paid_key c m r = [].
Proof. by destruct m. Qed.
Lemma paid_key_err c m : paid_key c m Err = [].
Proof. by destruct m. Qed.

Lemma step_proven_exact c e s m s' r :
  step c e s m = (s', r) →
  proven s' = list_to_set (paid_key c m r) ∪ proven s ∧
  map payout_key (plog s') = paid_key c m r ++ map payout_key (plog s) ∧
  (∀ x, x ∈ paid_key c m r → x ∉ proven s).
Proof.
  intros Hst. destruct (step_cases c e s m) as [(s1 & r1 & Hh & Hs)|[Hh Hs]];
    rewrite Hs in Hst; injection Hst as <- <-.
  2: { rewrite paid_key_err. cbn. split; [set_solver|]. split; [done|]. intros x Hx. by apply elem_of_nil in Hx. }
  destruct (is_finalize m) eqn:Hf.
  - destruct m; try discriminate. cbn [handle] in Hh.
    apply finalize_Some in Hh as (rcv & _ & _ & _ & _ & _ & _ & _ & Hnot & _ & _ & _ & _ & _ & _ & _ & Hpr & _ & _ & _ & _ & _ & _ & Hpl).
    cbn [paid_key]. rewrite Hpr, Hpl. cbn. split; [set_solver|]. split; [done|].
    intros x Hx. apply elem_of_list_singleton in Hx. by subst.
  - rewrite paid_key_not_finalize by done. apply handle_not_finalize in Hh as [-> ->]; [|done].
    cbn. split; [set_solver|]. split; [done|]. intros x Hx. by apply elem_of_nil in Hx.
Qed.

Lemma run_proven_exact c h : ∀ s,
  proven (run c s h).1 = list_to_set (paid_keys c h (run c s h).2) ∪ proven s ∧
  map payout_key (plog (run c s h).1) = rev (paid_keys c h (run c s h).2) ++ map payout_key (plog s) ∧
  NoDup (paid_keys c h (run c s h).2) ∧
  (∀ x, x ∈ paid_keys c h (run c s h).2 → x ∉ proven s).
Proof.
  induction h as [|[e m] h IH]; intros s.
  { cbn. split; [set_solver|]. split; [done|]. split; [constructor|]. intros x Hx. by apply elem_of_nil in Hx. }
  rewrite run_cons. cbn [paid_keys fst snd].
  destruct (step c e s m) as [s1 r] eqn:Hst. cbn [fst snd].
  apply step_proven_exact in Hst as (Hp1 & Hl1 & Hn1).
  destruct (IH s1) as (Hp2 & Hl2 & Hnd & Hn2).
  split; [rewrite Hp2, Hp1, list_to_set_app_L; set_solver|].
  split; [rewrite Hl2, Hl1, rev_app_distr, <- app_assoc; f_equal; destruct m, r; try done|].
  split.
  - apply NoDup_app. split; [destruct m, r; try constructor; [set_solver|constructor]|].
    split; [|done]. intros x Hx Hx2. apply Hn2 in Hx2. apply Hx2. rewrite Hp1. set_solver.
  - intros x [Hx|Hx]%elem_of_app; [by apply Hn1|]. apply Hn2 in Hx. rewrite Hp1 in Hx. set_solver.
Qed.

(* C02_claimed_exact *)
Lemma c02_claimed_exact c h s x :
  x ∈ proven (run c s h).1 ↔ x ∈ proven s ∨ x ∈ paid_keys c h (run c s h).2.
Proof. destruct (run_proven_exact c h s) as (-> & _). set_solver. Qed.

(* from a state with an empty claim set and payout log (every genesis): the claim set is exactly
   the set of (bridge, leaf) keys of the payout log, and no key was paid twice *)
Lemma c02_claimed_iff_paid c h s :
  proven s = ∅ → plog s = [] →
  (∀ x, x ∈ proven (run c s h).1 ↔ x ∈ map payout_key (plog (run c s h).1)) ∧
  NoDup (map payout_key (plog (run c s h).1)).
Proof.
  intros Hp Hl. destruct (run_proven_exact c h s) as (H1 & H2 & H3 & _).
  rewrite H1, H2, Hp, Hl. cbn. rewrite app_nil_r. split.
  - intros x. rewrite elem_of_union, elem_of_list_to_set, (elem_of_list_In (rev _) x), <- in_rev, <- elem_of_list_In. set_solver.
  - apply NoDup_ListNoDup, List.NoDup_rev, NoDup_ListNoDup, H3.
Qed.

(* an accepted finalization: the leaf was unclaimed, is claimed afterwards, exactly one payout is
   logged, and exactly the claimed amount of the claimed denom moves from the escrow of THAT
   bridge to the named recipient - every other balance is unchanged *)
Lemma c02_finalize_ok c e s sender b idx sq proofs from to d amt v sr bh s' r :
  step c e s (MFinalize sender b idx sq proofs from to d amt v sr bh) = (s', Ok r) →
  (b, fin_leaf c b sq from to d amt) ∉ proven s ∧
  proven s' = {[ (b, fin_leaf c b sq from to d amt) ]} ∪ proven s ∧
  (0 < amt)%Z ∧
  ∃ rcv, resolve c to = Some rcv ∧
    plog s' = {| y_bridge := b; y_leaf := fin_leaf c b sq from to d amt; y_to := rcv; y_denom := d;
                 y_amt := amt |} :: plog s ∧
    (amt ≤ getb (bk s) (escrow c b) d)%Z ∧
    ∀ a d', getb (bk s') a d' =
            (getb (bk s) a d' + at_acct a d' rcv d amt - at_acct a d' (escrow c b) d amt)%Z.
Proof.
  intros Hst. apply step_Ok in Hst. cbn [handle] in Hst.
  apply finalize_Some in Hst as (rcv & Hr & _ & _ & [Ha _] & _ & _ & _ & Hnot & _ & Hbk & _ & _ & _ & _ & _ & Hpr & _ & _ & _ & _ & _ & _ & Hpl).
  split; [done|]. split; [done|]. split; [done|]. exists rcv. split; [done|]. split; [done|].
  apply bank_send_Some in Hbk as [Hle Hbk]. split; [done|]. exact Hbk.
Qed.

(* ---- non-vacuity: a claim paid once and refused on every resubmission (real SHA3-256) ---- *)
Require Import Model.Sha3.
From Coq Require Import String.
Definition ex_cfg : cfg :=
  {| resolve := λ a, match a with [n] => Some n | _ => None end; gov := [100%N]; escrow := λ b, (1000 + b)%N;
     pool := 101%N; hash := sha3_256; parse := λ _, None |}.
Definition ex_conf : config :=
  {| c_proposer := [1%N]; c_challenger := [2%N]; c_period := 7000000000; c_interval := 1; c_start := 1;
     c_batch := {| b_submitter := [1%N]; b_chain := 1 |}; c_oracle := false; c_meta := [] |}.
Definition ex_bank : bank := {| bal := {[ (3%N, bs "uinit") := 1000%Z ]}; sup := ∅ |}.
Definition ex_env (t : Z) : env := {| now := 1704067200000000000 + t * 1000000000; height := 100 |}.
Definition ex_leaf : bytes := leaf_hash sha3_256 1 1 (bs "l2user") [4%N] (bs "uinit") 30.
Definition ex_sroot : bytes := ex_leaf.                      (* a one-leaf tree: the root is the leaf *)
Definition ex_bhash : bytes := repeat 7%N 32.
Definition ex_root : bytes := output_root sha3_256 0 ex_sroot ex_bhash.
Definition ex_claim (sender : bytes) (idx : N) : msg :=
  MFinalize sender 1 idx 1 [] (bs "l2user") [4%N] (bs "uinit") 30 [0%N] ex_sroot ex_bhash.
Definition ex_hist : list (env * msg) :=
  [ (ex_env 0, MCreateBridge [1%N] ex_conf);
    (ex_env 0, MDeposit [3%N] 1 (bs "l2addr") (bs "uinit") 100 []);
    (ex_env 0, MPropose [1%N] 1 1 10 ex_root);
    (ex_env 1, ex_claim [5%N] 1);                 (* not final yet: rejected *)
    (ex_env 8, ex_claim [5%N] 1);                 (* paid *)
    (ex_env 8, ex_claim [5%N] 1);                 (* same submitter again: rejected *)
    (ex_env 8, MPropose [1%N] 1 2 20 ex_root);    (* a later output containing the same leaf *)
    (ex_env 20, ex_claim [6%N] 2) ].              (* other submitter, other output: rejected *)

Example c02_example_results :
  (run ex_cfg (upd_bk init_state ex_bank) ex_hist).2 =
  [Ok (RId 1); Ok (RId 1); Ok RNone; Err; Ok RNone; Err; Ok RNone; Err] ∧
  getb (bk (run ex_cfg (upd_bk init_state ex_bank) ex_hist).1) 4 (bs "uinit") = 30%Z ∧
  getb (bk (run ex_cfg (upd_bk init_state ex_bank) ex_hist).1) 1001 (bs "uinit") = 70%Z.
Proof. vm_compute. repeat split; reflexivity. Qed.
