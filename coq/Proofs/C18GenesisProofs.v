(* C18: the validator updates returned by the import of an exported L2 genesis follow the order of
   the document's last_validator_powers list (Model/Genesis2.v import2). *)
From stdpp Require Import gmap numbers list.
From Coq Require Import ZArith.
Require Import Model.Bytes Model.Bank Model.Valset Model.L2 Model.Genesis1 Model.Genesis2.

(* the update announced for one last_validator_powers entry: the consensus key of its validator
   with the recorded power *)
Definition update_of (v : vstate) (lp : N * Z) : option update :=
  x ← vals v !! lp.1; Some (v_key x, lp.2).

Lemma import_last_none l : foldl import_last None l = None.
Proof. induction l as [|a l IH]; [done|exact IH]. Qed.

Lemma import_last_step v ups0 lp :
  import_last (Some (v, ups0)) lp =
  match vals v !! lp.1 with
  | Some x => Some ({| vals := vals v; idx := idx v; last := <[lp.1 := lp.2]> (last v) |}, ups0 ++ [(v_key x, lp.2)])
  | None => None
  end.
Proof. unfold import_last. cbn. by destruct (vals v !! lp.1). Qed.

Lemma import_last_order l : ∀ v ups0 v' ups,
  foldl import_last (Some (v, ups0)) l = Some (v', ups) →
  ∃ us, mapM (update_of v) l = Some us ∧ ups = ups0 ++ us.
Proof.
  induction l as [|lp l IH]; intros v ups0 v' ups H.
  - cbn in H. simplify_eq. exists []. by rewrite app_nil_r.
  - cbn [foldl] in H. rewrite import_last_step in H.
    destruct (vals v !! lp.1) as [x|] eqn:E; [|by rewrite import_last_none in H].
    apply IH in H as (us & Hm & ->).
    exists ((v_key x, lp.2) :: us). split; [|by rewrite <- app_assoc].
    assert (Heq : mapM (update_of v) l = Some us).
    { rewrite <- Hm. apply mapM_ext. intros lp'. reflexivity. }
    change (mapM (update_of v) (lp :: l)) with
      (y ← update_of v lp; k ← mapM (update_of v) l; mret (y :: k)).
    rewrite Heq. unfold update_of. rewrite E. reflexivity.
Qed.

Lemma import2_updates_in_file_order c base g s ups :
  import2 c base g = Some (s, ups) → h_exported g = true →
  mapM (update_of (foldl import_val vempty (h_vals g))) (h_last g) = Some ups.
Proof.
  unfold import2. intros H Hexp. rewrite Hexp in H.
  destruct (set_params c (fresh2 base (h_params g)) (h_params g)) as [s0|]; cbn in H; [|discriminate].
  destruct (foldl import_last (Some (foldl import_val vempty (h_vals g), [])) (h_last g)) as [[v2 ups']|] eqn:E;
    cbn in H; [|discriminate].
  destruct (negb _); [discriminate|]. simplify_eq.
  apply import_last_order in E as (us & Hm & ->). exact Hm.
Qed.
