(* C11: the output oracle is a contiguous, strictly increasing log; deletion is suffix-only. *)
From stdpp Require Import gmap numbers list.
From Coq Require Import ZArith Lia.
Require Import Model.Bytes Model.Bank Model.Hashes Model.L1 Model.L1OutSpec Proofs.L1OutLemmas.

Lemma c11_invariant_from c s t h : l1inv s t → mono_from t h → l1inv (run c s h).1 (last_time t h).
Proof. apply run_l1inv. Qed.

Lemma c11_invariant c h t0 b : mono_from t0 h → log_ok (run c init_state h).1 b.
Proof. intros Hm. by destruct (run_l1inv c h init_state t0 (init_l1inv t0) Hm) as (_ & Hl & _). Qed.

Lemma c11_propose_spec c e s p b idx l2 root s' r :
  step c e s (MPropose p b idx l2 root) = (s', Ok r) ↔
  propose_guard c s p b idx l2 root ∧ r = RNone ∧ s' = propose_post e s b idx l2 root.
Proof. rewrite step_Ok. cbn [handle]. apply propose_Some. Qed.

Lemma c11_propose_effect e s b idx l2 root :
  let s' := propose_post e s b idx l2 root in
  outputs s' !! (b, idx) = Some (new_output e root l2) ∧
  (∀ k, k ≠ (b, idx) → outputs s' !! k = outputs s !! k) ∧
  out_of s' b = (idx + 1)%N ∧ (∀ b', b' ≠ b → out_of s' b' = out_of s b') ∧ same_rest s s'.
Proof.
  cbn zeta. split_and!.
  - by rewrite propose_post_lookup, decide_True.
  - intros k Hk. by rewrite propose_post_lookup, decide_False.
  - by rewrite propose_post_out, decide_True.
  - intros b' Hb. by rewrite propose_post_out, decide_False.
  - apply propose_post_rest.
Qed.

Lemma c11_delete_spec c e s ch b idx s' r :
  step c e s (MDelete ch b idx) = (s', Ok r) ↔
  delete_guard c e s ch b idx ∧ r = RNone ∧ s' = delete_post s b idx.
Proof. rewrite step_Ok. cbn [handle]. apply delete_Some. Qed.

(* with the log invariant, "every index of [idx, next) is stored" is automatic *)
Lemma delete_guard_log_ok c e s ch b idx :
  log_ok s b →
  delete_guard c e s ch b idx ↔
  valid_addr c ch = true ∧ b ≠ 0%N ∧
  ∃ x, configs s !! b = Some x ∧ may_delete c x ch ∧ (1 ≤ idx ∧ idx < out_of s b)%N ∧
       ∀ i o, (idx ≤ i)%N → outputs s !! (b, i) = Some o → is_final x e o = false.
Proof.
  intros Hok. unfold delete_guard. split.
  - intros (Hv & Hb & H0 & x & Hx & Hau & Hlt & Hall). split; [done|]. split; [done|]. exists x.
    split; [done|]. split; [done|]. split; [lia|]. intros i o Hi Ho.
    pose proof (log_ok_stored _ _ _ _ Hok Ho) as Hr. destruct (Hall i) as (o' & Ho' & Hf); [lia|]. by simplify_eq.
  - intros (Hv & Hb & x & Hx & Hau & Hr & Hall). split; [done|]. split; [done|]. split; [lia|]. exists x.
    split; [done|]. split; [done|]. split; [lia|]. intros i Hi.
    destruct (log_ok_lookup _ _ i Hok) as [o Ho]; [lia|]. exists o. split; [done|]. eapply Hall; [|done]. lia.
Qed.

Lemma c11_delete_spec_inv c e s ch b idx s' r :
  log_ok s b →
  step c e s (MDelete ch b idx) = (s', Ok r) ↔
  (valid_addr c ch = true ∧ b ≠ 0%N ∧
   ∃ x, configs s !! b = Some x ∧ may_delete c x ch ∧ (1 ≤ idx ∧ idx < out_of s b)%N ∧
        ∀ i o, (idx ≤ i)%N → outputs s !! (b, i) = Some o → is_final x e o = false) ∧
  r = RNone ∧ s' = delete_post s b idx.
Proof. intros Hok. rewrite c11_delete_spec. by rewrite delete_guard_log_ok. Qed.

Lemma c11_delete_effect s b idx :
  let s' := delete_post s b idx in
  (∀ b' i, outputs s' !! (b', i) =
           if decide (b' = b ∧ (idx ≤ i ∧ i < out_of s b)%N) then None else outputs s !! (b', i)) ∧
  out_of s' b = idx ∧ (∀ b', b' ≠ b → out_of s' b' = out_of s b') ∧ same_rest s s'.
Proof.
  cbn zeta. split_and!.
  - intros b' i. rewrite delete_post_lookup. unfold in_range. cbn [fst snd].
    repeat destruct (decide _); try done; tauto.
  - by rewrite delete_post_out, decide_True.
  - intros b' Hb. by rewrite delete_post_out, decide_False.
  - apply delete_post_rest.
Qed.


Lemma c11_final_prefix s e b x i j oj :
  log_ok s b → configs s !! b = Some x → outputs s !! (b, j) = Some oj → is_final x e oj = true →
  (1 ≤ i ∧ i ≤ j)%N → ∃ oi, outputs s !! (b, i) = Some oi ∧ is_final x e oi = true.
Proof.
  intros Hok Hx Hj Hf Hi. pose proof (log_ok_stored _ _ _ _ Hok Hj) as Hr.
  destruct (log_ok_lookup _ _ i Hok) as [oi Hoi]; [lia|]. exists oi. split; [done|].
  destruct (decide (i = j)) as [->|Hne]; [by simplify_eq|].
  destruct Hok as (_ & _ & Hord). destruct (Hord i j oi oj Hoi Hj) as [_ Ht]; [lia|].
  by eapply is_final_time.
Qed.

Lemma c11_final_prefix_reachable c h t0 e b i j :
  mono_from t0 h → final_at (run c init_state h).1 e b j → (1 ≤ i ∧ i ≤ j)%N →
  final_at (run c init_state h).1 e b i.
Proof.
  intros Hm (x & oj & Hx & Hj & Hf) Hi.
  destruct (c11_final_prefix _ e b x i j oj (c11_invariant c h t0 b Hm) Hx Hj Hf Hi) as (oi & Hoi & Hfi).
  by exists x, oi.
Qed.

(* ---- non-vacuity: a concrete two-bridge history ---- *)
Definition ex_cfg : cfg :=
  {| resolve := λ a, match a with [n] => Some n | _ => None end; gov := [9%N]; escrow := λ b, (1000 + b)%N;
     pool := 50%N; hash := λ x, x; parse := λ _, None |}.
Definition ex_config (p ch : N) (period : Z) : config :=
  {| c_proposer := [p]; c_challenger := [ch]; c_period := period; c_interval := 1; c_start := 1;
     c_batch := {| b_submitter := [p]; b_chain := 1 |}; c_oracle := false; c_meta := [] |}.
Definition ex_root : bytes := replicate 32 7%N.
Definition at_ (t : Z) (hgt : N) : env := {| now := t; height := hgt |}.
Definition ex_hist : list (env * msg) :=
  [ (at_ 100 1, MCreateBridge [1%N] (ex_config 1 2 2000000000));
    (at_ 100 1, MCreateBridge [1%N] (ex_config 3 4 1));
    (at_ 200 2, MPropose [1%N] 1 1 10 ex_root);
    (at_ 200 2, MPropose [1%N] 1 2 10 ex_root);                (* equal L2 block: rejected *)
    (at_ 300 3, MPropose [1%N] 1 2 11 ex_root);
    (at_ 300 3, MPropose [1%N] 1 4 12 ex_root);                (* index gap: rejected *)
    (at_ 300 3, MPropose [3%N] 2 1 5 ex_root);
    (at_ 400 4, MPropose [1%N] 1 3 12 ex_root);
    (at_ 500 5, MDelete [2%N] 1 2);                            (* removes 2 and 3 of bridge 1 *)
    (at_ 600 6, MPropose [1%N] 1 2 11 ex_root);                (* re-proposal at the new time *)
    (at_ 3000000000 7, MDelete [9%N] 1 1) ].                   (* index 1 is final by now *)

Example ex_hist_mono : mono_from 0 ex_hist.
Proof. cbn. lia. Qed.
Example ex_hist_results :
  (run ex_cfg init_state ex_hist).2 =
  [Ok (RId 1); Ok (RId 2); Ok RNone; Err; Ok RNone; Err; Ok RNone; Ok RNone; Ok RNone; Ok RNone; Err].
Proof. vm_compute. reflexivity. Qed.
Example ex_hist_log :
  let s := (run ex_cfg init_state ex_hist).1 in
  out_of s 1 = 3%N ∧ out_of s 2 = 2%N ∧
  o_time <$> outputs s !! (1%N, 1%N) = Some 200%Z ∧ o_time <$> outputs s !! (1%N, 2%N) = Some 600%Z ∧
  outputs s !! (1%N, 3%N) = None ∧ o_l2 <$> outputs s !! (2%N, 1%N) = Some 5%N.
Proof. vm_compute. done. Qed.
