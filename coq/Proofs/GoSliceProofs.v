(* C17: the current GenerateNodeHash / GenerateRootHashFromProofs, run on ANY heap and ANY
   (possibly overlapping, over-capacity, aliased) slices, return the pure function of the byte
   values and leave every pre-existing buffer unchanged; the code before the fix does not. *)
From Coq Require Import List Arith NArith Lia Bool.
Require Import Model.Bytes Model.Hashes Model.GoSlice Model.Sha3.
Import ListNotations.

(* ---------- lists ---------- *)
Lemma firstn_add {A} (a b : nat) (l : list A) : firstn (a + b) l = firstn a l ++ firstn b (skipn a l).
Proof.
  revert l; induction a as [|a IH]; intros l; simpl; auto.
  destruct l as [|x l]; simpl; [now rewrite firstn_nil|]. now rewrite IH.
Qed.

Lemma skipn_app_len {A} (l1 l2 : list A) n : length l1 = n -> skipn n (l1 ++ l2) = l2.
Proof. intros <-. rewrite skipn_app, skipn_all, Nat.sub_diag. reflexivity. Qed.

Lemma firstn_app_len {A} (l1 l2 : list A) n : length l1 = n -> firstn n (l1 ++ l2) = l1.
Proof. intros <-. rewrite firstn_app, firstn_all, Nat.sub_diag. simpl. apply app_nil_r. Qed.

Lemma write_at_read (buf data : bytes) off len :
  off + len + length data <= length buf ->
  firstn (len + length data) (skipn off (write_at buf (off + len) data)) =
  firstn len (skipn off buf) ++ data.
Proof.
  intros Hb. unfold write_at. rewrite (firstn_add off len buf).
  rewrite <- app_assoc. rewrite skipn_app_len by (rewrite firstn_length; lia).
  rewrite app_assoc. apply firstn_app_len.
  rewrite app_length, firstn_length, skipn_length. lia.
Qed.

Lemma write_at_length (buf data : bytes) off :
  off + length data <= length buf -> length (write_at buf off data) = length buf.
Proof.
  intros Hb. unfold write_at. rewrite !app_length, firstn_length, skipn_length. lia.
Qed.

(* ---------- heaps ---------- *)
Lemma upd_length h k b : length (upd h k b) = length h.
Proof. revert k; induction h as [|x h IH]; intros [|k]; simpl; auto. Qed.

Lemma buf_upd_same h k b : k < length h -> buf_of (upd h k b) k = b.
Proof.
  unfold buf_of. revert k; induction h as [|x h IH]; intros [|k]; simpl; try lia; auto.
  intros Hk. apply IH. lia.
Qed.

Lemma buf_upd_other h k j b : j <> k -> buf_of (upd h k b) j = buf_of h j.
Proof.
  unfold buf_of. revert k j; induction h as [|x h IH]; intros [|k] [|j]; simpl; try congruence; auto.
Qed.

Lemma buf_app_old h e k : k < length h -> buf_of (h ++ e) k = buf_of h k.
Proof. intros Hk. unfold buf_of. now rewrite app_nth1. Qed.

Lemma buf_app_new h b : buf_of (h ++ [b]) (length h) = b.
Proof. unfold buf_of. rewrite app_nth2, Nat.sub_diag by lia. reflexivity. Qed.

Lemma read_ext h h' s : buf_of h' (s_buf s) = buf_of h (s_buf s) -> read h' s = read h s.
Proof. unfold read. now intros ->. Qed.

(* [h'] keeps every buffer of the first [n] ones of [h] *)
Definition keeps (n : nat) (h h' : heap) : Prop :=
  length h <= length h' /\ forall k, k < n -> buf_of h' k = buf_of h k.

Lemma keeps_refl n h : keeps n h h.
Proof. split; auto. Qed.
Lemma keeps_trans n h1 h2 h3 : keeps n h1 h2 -> keeps n h2 h3 -> keeps n h1 h3.
Proof. intros [L1 K1] [L2 K2]. split; [lia|]. intros k Hk. rewrite K2, K1; auto. Qed.
Lemma keeps_weaken n m h h' : m <= n -> keeps n h h' -> keeps m h h'.
Proof. intros Hm [L K]. split; auto. intros k Hk. apply K. lia. Qed.

Section GoProofs.
  Variable H : bytes -> bytes.
  Variable grow : nat -> nat.
  Notation go_append := (go_append grow).
  Notation go_node_hash := (go_node_hash H grow).
  Notation go_root_from_proofs := (go_root_from_proofs H grow).

  (* ---------- append ---------- *)
  Lemma go_append_spec h s data h' s' :
    wf_slice h s -> go_append h s data = (h', s') ->
    wf_slice h' s' /\ read h' s' = read h s ++ data /\
    (s_buf s' = s_buf s \/ s_buf s' = length h) /\
    length h <= length h' /\
    (forall k, k < length h -> k <> s_buf s -> buf_of h' k = buf_of h k).
  Proof.
    intros (Hb & Hlc & Hoc). unfold GoSlice.go_append.
    destruct (Nat.leb_spec (s_len s + length data) (s_cap s)) as [Hfit|Hnofit]; intros [= <- <-].
    - (* in place *)
      assert (Hlen : length (write_at (buf_of h (s_buf s)) (s_off s + s_len s) data) = length (buf_of h (s_buf s)))
        by (apply write_at_length; lia).
      repeat split; cbn [s_buf s_off s_len s_cap].
      + now rewrite upd_length.
      + lia.
      + rewrite buf_upd_same by auto. rewrite Hlen. lia.
      + unfold read; cbn [s_buf s_off s_len s_cap]. rewrite buf_upd_same by auto.
        apply write_at_read. lia.
      + auto.
      + rewrite upd_length; lia.
      + intros k _ Hne. now apply buf_upd_other.
    - (* fresh buffer *)
      repeat split; cbn [s_buf s_off s_len s_cap].
      + rewrite app_length; simpl; lia.
      + lia.
      + rewrite buf_app_new. rewrite !app_length, repeat_length.
        assert (length (read h s) = s_len s).
        { unfold read. rewrite firstn_length, skipn_length. lia. }
        lia.
      + unfold read at 1; cbn [s_buf s_off s_len s_cap]. rewrite buf_app_new. cbn [skipn].
        rewrite app_assoc. apply firstn_app_len. rewrite app_length.
        unfold read. rewrite firstn_length, skipn_length. lia.
      + auto.
      + rewrite app_length; lia.
      + intros k Hk _. now apply buf_app_old.
  Qed.

  (* ---------- the current node hash ---------- *)
  Lemma go_node_hash_spec h a b h' r :
    s_buf a < length h -> s_buf b < length h ->
    go_node_hash h a b = (h', r) ->
    r = node H (read h a) (read h b) /\ keeps (length h) h h'.
  Proof.
    intros Ha Hb. unfold GoSlice.go_node_hash, go_make.
    set (h1 := h ++ [repeat 0%N (s_len a + s_len b)]).
    set (seed := {| s_buf := length h; s_off := 0; s_len := 0; s_cap := s_len a + s_len b |}).
    assert (Hwf : wf_slice h1 seed).
    { unfold wf_slice, seed, h1; cbn [s_buf s_off s_len s_cap]. rewrite buf_app_new, app_length, repeat_length. simpl; lia. }
    assert (Hra : read h1 a = read h a) by (apply read_ext, buf_app_old; auto).
    assert (Hrb : read h1 b = read h b) by (apply read_ext, buf_app_old; auto).
    assert (Hl1 : length h1 = S (length h)) by (unfold h1; rewrite app_length; simpl; lia).
    assert (Hseed : read h1 seed = []) by reflexivity.
    assert (K1 : keeps (length h) h h1).
    { split; [lia|]. intros k Hk. now apply buf_app_old. }
    rewrite Hra, Hrb.
    (* both orders are the same argument *)
    assert (Hgen : forall x y : slice, s_buf x < length h -> s_buf y < length h ->
              read h1 x = read h x -> read h1 y = read h y ->
              forall h2 s2 h3 s3, go_append h1 seed (read h x) = (h2, s2) ->
                go_append h2 s2 (read h2 y) = (h3, s3) ->
                read h3 s3 = read h x ++ read h y /\ keeps (length h) h h3).
    { intros x y Hx Hy Hrx Hry h2 s2 h3 s3 E2 E3.
      apply go_append_spec in E2 as (W2 & R2 & B2 & L2 & P2); auto.
      assert (Hb2 : length h <= s_buf s2) by (destruct B2 as [->| ->]; cbn; lia).
      assert (K2 : keeps (length h) h h2).
      { apply keeps_trans with h1; auto. split; [lia|]. intros k Hk. apply P2; [lia|]. cbn. lia. }
      assert (Hry2 : read h2 y = read h y).
      { apply read_ext. destruct K2 as [_ K2]. now apply K2. }
      rewrite Hry2 in E3.
      apply go_append_spec in E3 as (W3 & R3 & B3 & L3 & P3); auto.
      split.
      - rewrite R3, R2, Hseed. reflexivity.
      - apply keeps_trans with h2; auto. split; [lia|]. intros k Hk. apply P3; lia. }
    unfold node.
    destruct (lexle (read h b) (read h a)).
    - destruct (go_append h1 seed (read h b)) as [h2 s2] eqn:E2.
      destruct (go_append h2 s2 (read h2 a)) as [h3 s3] eqn:E3.
      intros [= <- <-].
      destruct (Hgen b a Hb Ha Hrb Hra _ _ _ _ E2 E3) as [R K]. now rewrite R.
    - destruct (go_append h1 seed (read h a)) as [h2 s2] eqn:E2.
      destruct (go_append h2 s2 (read h2 b)) as [h3 s3] eqn:E3.
      intros [= <- <-].
      destruct (Hgen a b Ha Hb Hra Hrb _ _ _ _ E2 E3) as [R K]. now rewrite R.
  Qed.

  (* ---------- the loop ---------- *)
  Hypothesis H_len : forall x, length (H x) = 32.

  Lemma go_root_loop_spec n proofs : forall h data,
    n < length h -> s_buf data = n -> s_off data = 0 -> s_len data = 32 ->
    length (buf_of h n) = 32 ->
    Forall (fun p => s_buf p < n) proofs ->
    let h' := go_root_loop go_node_hash h data proofs in
    read h' data = root_from_proof H (read h data) (map (read h) proofs) /\ keeps n h h'.
  Proof.
    induction proofs as [|p ps IH]; intros h data Hn Hbuf Hoff Hlen Hl32 Hps; cbn [go_root_loop].
    - split; [reflexivity|apply keeps_refl].
    - inversion Hps as [|? ? Hp Hps']; subst.
      destruct (go_node_hash h data p) as [h1 d] eqn:E.
      apply go_node_hash_spec in E as (-> & K1); try lia.
      set (d := node H (read h data) (read h p)).
      assert (Ld : length d = 32) by (unfold d, node; destruct (lexle _ _); apply H_len).
      set (h2 := go_assign h1 data d).
      assert (K2 : keeps (s_buf data) h h2).
      { destruct K1 as [L1 K1]. split.
        - unfold h2, go_assign. rewrite upd_length. lia.
        - intros k Hk. unfold h2, go_assign. rewrite buf_upd_other by lia. apply K1. lia. }
      assert (Hn2 : s_buf data < length h2) by (destruct K2; lia).
      assert (Hb2 : buf_of h2 (s_buf data) = d).
      { unfold h2, go_assign. apply buf_upd_same. destruct K1; lia. }
      specialize (IH h2 data Hn2 eq_refl Hoff Hlen).
      rewrite Hb2 in IH. specialize (IH Ld Hps').
      cbn zeta in IH. destruct IH as [R K].
      assert (Hrd : read h2 data = d).
      { unfold read. rewrite Hb2, Hoff, Hlen. cbn [skipn]. rewrite <- Ld. apply firstn_all. }
      assert (Hmap : map (read h2) ps = map (read h) ps).
      { apply map_ext_in. intros q Hq. apply read_ext. destruct K2 as [_ K2]. apply K2.
        rewrite Forall_forall in Hps'. now apply Hps'. }
      split.
      + fold h2. rewrite R, Hrd, Hmap. reflexivity.
      + fold h2. apply keeps_trans with h2; auto.
  Qed.

  (* The current GenerateRootHashFromProofs on any heap, any leaf value and any list of slices
     of allocated buffers (no condition on overlap, order, capacity or aliasing). *)
  Theorem go_root_layout_independent h leaf proofs h' r :
    length leaf = 32 -> Forall (wf_slice h) proofs ->
    go_root_from_proofs h leaf proofs = (h', r) ->
    r = root_from_proof H leaf (map (read h) proofs) /\
    length h <= length h' /\ (forall k, k < length h -> buf_of h' k = buf_of h k).
  Proof.
    intros Lleaf Hwf. unfold GoSlice.go_root_from_proofs, go_root_with, go_alloc.
    set (h0 := h ++ _).
    set (data := {| s_buf := length h; s_off := 0; s_len := length leaf; s_cap := length leaf |}).
    intros [= <- <-].
    assert (Hl0 : length h0 = S (length h)) by (unfold h0; rewrite app_length; simpl; lia).
    assert (Hps : Forall (fun p => s_buf p < length h) proofs).
    { eapply Forall_impl; [|exact Hwf]. intros p (Hp & _). exact Hp. }
    destruct (go_root_loop_spec (length h) proofs h0 data) as [R K]; auto; try lia.
    { unfold h0. rewrite buf_app_new. exact Lleaf. }
    assert (Hrd : read h0 data = leaf).
    { unfold read, data, h0; cbn [s_buf s_off s_len]. rewrite buf_app_new. cbn [skipn]. apply firstn_all. }
    assert (Hmap : map (read h0) proofs = map (read h) proofs).
    { apply map_ext_in. intros q Hq. apply read_ext. unfold h0. apply buf_app_old.
      rewrite Forall_forall in Hps. now apply Hps. }
    rewrite R, Hrd, Hmap. split; [reflexivity|].
    destruct K as [L K]. split; [lia|]. intros k Hk. rewrite K by lia. unfold h0. now apply buf_app_old.
  Qed.

  (* two layouts of the same byte values give the same root *)
  Corollary go_root_same_bytes h1 ps1 h2 ps2 leaf :
    length leaf = 32 -> Forall (wf_slice h1) ps1 -> Forall (wf_slice h2) ps2 ->
    map (read h1) ps1 = map (read h2) ps2 ->
    snd (go_root_from_proofs h1 leaf ps1) = snd (go_root_from_proofs h2 leaf ps2).
  Proof.
    intros L W1 W2 E.
    destruct (go_root_from_proofs h1 leaf ps1) as [h1' r1] eqn:E1.
    destruct (go_root_from_proofs h2 leaf ps2) as [h2' r2] eqn:E2.
    apply go_root_layout_independent in E1 as [-> _]; auto.
    apply go_root_layout_independent in E2 as [-> _]; auto.
    cbn. now rewrite E.
  Qed.

  (* the current node hash alone *)
  Theorem go_node_hash_layout_independent h a b h' r :
    wf_slice h a -> wf_slice h b -> go_node_hash h a b = (h', r) ->
    r = node H (read h a) (read h b) /\
    length h <= length h' /\ (forall k, k < length h -> buf_of h' k = buf_of h k).
  Proof.
    intros (Ha & _) (Hb & _) E. apply go_node_hash_spec in E as [-> [L K]]; auto.
  Qed.
End GoProofs.

(* ---------- the code before the fix: a two-element proof sliced from one buffer ---------- *)
Definition bad_leaf : bytes := repeat 255%N 32.
Definition bad_heap : heap := [repeat 0%N 32 ++ repeat 1%N 32].
Definition bad_proofs : list slice :=
  [ {| s_buf := 0; s_off := 0; s_len := 32; s_cap := 64 |};      (* buf[0:32], capacity to the end *)
    {| s_buf := 0; s_off := 32; s_len := 32; s_cap := 32 |} ].   (* buf[32:64] *)

Lemma bad_wf : Forall (wf_slice bad_heap) bad_proofs.
Proof. repeat constructor; cbn; lia. Qed.

Lemma inplace_append_refuted :
  length bad_leaf = 32 /\ Forall (wf_slice bad_heap) bad_proofs /\
  let '(h', r) := go_root_from_proofs_old sha3_256 (fun n => n) bad_heap bad_leaf bad_proofs in
  r <> root_from_proof sha3_256 bad_leaf (map (read bad_heap) bad_proofs) /\
  buf_of h' 0 <> buf_of bad_heap 0.
Proof.
  split; [reflexivity|]. split; [exact bad_wf|].
  vm_compute. split; intros E; discriminate E.
Qed.

(* the very same input on the current code (non-vacuity of the layout theorem's hypotheses) *)
Example good_on_bad_layout :
  let '(h', r) := go_root_from_proofs sha3_256 (fun n => n) bad_heap bad_leaf bad_proofs in
  r = root_from_proof sha3_256 bad_leaf (map (read bad_heap) bad_proofs) /\ buf_of h' 0 = buf_of bad_heap 0.
Proof. vm_compute. split; reflexivity. Qed.
