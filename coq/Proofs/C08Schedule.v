(* C08: the claim phase of the drain as a concrete schedule, by induction over the claim list. *)
From stdpp Require Import gmap numbers list.
From Coq Require Import ZArith Lia.
Require Import Model.Bytes Model.Bank Model.Hashes Model.Merkle Model.Valset Model.System.
Require Model.L1 Model.L2.
Require Import Proofs.MerkleProofs Proofs.C03Binding Proofs.L2Lemmas Proofs.C04Proofs Proofs.C08Proofs Proofs.C08Drain.

Arguments l2d : simpl never.
Arguments escrow_of : simpl never.
Arguments wleaf : simpl never.
Arguments bevents : simpl never.

Lemma sys_run_app c h1 : ∀ s h2, sys_run c s (h1 ++ h2) = sys_run c (sys_run c s h1) h2.
Proof. induction h1 as [|m h1 IH]; intros s h2; cbn; [done|]. apply IH. Qed.

Lemma l1_finalize_frame c e s sender b idx sq proofs from to d amt v sr bh s' r :
  L1.finalize c e s sender b idx sq proofs from to d amt v sr bh = Some (s', r) →
  L1.configs s' = L1.configs s ∧ L1.outputs s' = L1.outputs s.
Proof.
  unfold L1.finalize. destruct (negb (L1.finalize_valid _ _ _ _ _ _ _ _ _ _ _ _ _)); [discriminate|].
  intros Hx. apply bind_Some in Hx as (rcv & Hrcv & Hx). apply bind_Some in Hx as (o & _ & Hx).
  apply bind_Some in Hx as (x & _ & Hx).
  destruct (negb (L1.is_final x e o)); [discriminate|].
  destruct (negb (bool_decide _)); [discriminate|].
  destruct (negb (amt <? L1.two64)%Z); [discriminate|].
  case_bool_decide as Hp; [discriminate|].
  destruct (negb (bool_decide _)); [discriminate|].
  apply bind_Some in Hx as (b1 & Hb1 & [= <- <-]). done.
Qed.

(* what one claim step does to everything the next claim depends on *)
Lemma claim_step_spec c s e sender idx m lo hi v bh :
  let r := sys_step c s (SClaim e sender idx m lo hi v bh) in
  l2 r.1 = l2 s ∧ L1.configs (l1 r.1) = L1.configs (l1 s) ∧ L1.outputs (l1 r.1) = L1.outputs (l1 s) ∧
  (if r.2 then paid r.1 = m :: paid s else r.1 = s).
Proof.
  cbn zeta. cbn [sys_step]. destruct (find_w (l2 s) m) as [w|]; [|done].
  unfold lift1, L1.step, claim_of. cbn [L1.handle].
  destruct (L1.finalize _ _ _ _ _ _ _ _ _ _ _ _ _ _ _) as [[s1 r]|] eqn:Hd; [|done].
  apply l1_finalize_frame in Hd as [Hc Ho]. cbn. done.
Qed.

(* an accepted claim was for an unpaid sequence: a paid sequence is never paid again *)
Lemma claim_ok_unpaid c s e sender idx m lo hi v bh :
  C08Proofs.inv c s → (sys_step c s (SClaim e sender idx m lo hi v bh)).2 = true → m ∉ paid s.
Proof.
  intros I. cbn [sys_step]. destruct (find_w (l2 s) m) as [w|] eqn:Hf; [|done].
  apply find_elem in Hf as [Hin Hm]. apply N.eqb_eq in Hm.
  unfold lift1, L1.step, claim_of. cbn [L1.handle].
  destruct (L1.finalize _ _ _ _ _ _ _ _ _ _ _ _ _ _ _) as [[s1 r]|] eqn:Hd; [|done].
  intros _. apply l1_finalize_effect in Hd as (rcv & _ & Hnp & _).
  change (leaf_hash _ _ _ _ _ _ _) with (wleaf c w) in Hnp.
  intros Hp. destruct (i_paid _ _ I m Hp) as (w' & Hin' & Hs' & Hpv).
  assert (w' = w) as -> by (eapply (nodup_key_inj L2.w_seq); eauto; [apply (i_w_seq _ _ I)|congruence]). done.
Qed.

Lemma committed_final_same c s s' e idx lo hi v bh :
  l2 s' = l2 s → L1.configs (l1 s') = L1.configs (l1 s) → L1.outputs (l1 s') = L1.outputs (l1 s) →
  committed_final c s e idx lo hi v bh → committed_final c s' e idx lo hi v bh.
Proof. intros H2 Hc Ho (x & o & ? & ? & ? & ?). exists x, o. rewrite Hc, Ho, H2. done. Qed.

Section claims.
  Variable c : scfg.
  Variable s0 : sys.
  Hypothesis G : genesis c s0.
  Hypothesis Hnil : L2.resolve (c2 c) [] = None.
  Hypothesis Hlen : ∀ y, length (L1.hash (c1 c) y) = 32%nat.
  Hypothesis Hb : (1 ≤ bid c < two64N)%N.
  Variables (e : L1.env) (sender : bytes) (idx lo hi v : N) (bh : bytes).
  Hypothesis Hsender : is_Some (L1.resolve (c1 c) sender).
  Hypothesis Hidx : (1 ≤ idx)%N.
  Hypothesis Hbh : length bh = 32%nat.

  Definition good (s s' : sys) (ms : list N) : Prop :=
    Forall (λ b, b = true) (sys_oks c s (claim_steps e sender idx lo hi v bh ms)) ∧
    (∀ m, m ∈ paid s' ↔ m ∈ ms ∨ m ∈ paid s) ∧
    l2 s' = l2 s ∧ committed_final c s' e idx lo hi v bh.

  Lemma drain_claims_ind ms : ∀ h,
    let s := sys_run c s0 h in
    NoDup ms → committed_final c s e idx lo hi v bh → (L2.next_l2 (l2 s) ≤ two64N)%N →
    (∀ m, m ∈ ms → claimable c s m ∧ (lo < m ≤ hi)%N) →
    good s (sys_run c s (claim_steps e sender idx lo hi v bh ms)) ms ∨
    denom_collision c ∨ Collision (L1.hash (c1 c)).
  Proof.
    induction ms as [|m ms IH]; intros h s Hnd Hcf Hn Hall.
    - left. split; [constructor|]. split; [|done]. intros m. split; [auto|]. intros [Hx|]; [by apply elem_of_nil in Hx|done].
    - apply NoDup_cons in Hnd as [Hnotin Hnd].
      destruct (Hall m ltac:(left)) as [(w & Hf & Hnp & Hpos & [rcv Hrcv]) Hrange].
      destruct Hcf as (x & o & Hcfg & Hout & Hroot & Hfin).
      destruct (c08_drain_claim_g c s0 h e sender idx m lo hi v bh w x o rcv G Hnil Hlen
                  ltac:(lia) Hn Hf Hnp Hrange Hpos Hrcv Hsender ltac:(lia) Hidx Hcfg Hout Hroot Hfin Hbh) as [Hok|Hcol];
        [|by right].
      fold s in Hok.
      pose proof (claim_step_spec c s e sender idx m lo hi v bh) as (H2 & Hc & Ho & Hp). cbn zeta in *.
      rewrite Hok in Hp.
      set (s1 := (sys_step c s (SClaim e sender idx m lo hi v bh)).1) in *.
      assert (Hs1 : s1 = sys_run c s0 (h ++ [SClaim e sender idx m lo hi v bh])).
      { rewrite sys_run_app. reflexivity. }
      assert (Hcf1 : committed_final c s1 e idx lo hi v bh).
      { apply (committed_final_same c s s1); auto. exists x, o. done. }
      specialize (IH (h ++ [SClaim e sender idx m lo hi v bh])). cbn zeta in IH. rewrite <- Hs1 in IH.
      destruct IH as [(Hoks & Hpaid & Hl2 & Hcf')|Hcol]; auto.
      + by rewrite H2.
      + intros m' Hm'. destruct (Hall m' ltac:(by right)) as [(w' & Hf' & Hnp' & Hpos' & Hr') Hrange'].
        split; [|done]. exists w'. rewrite H2. split; [done|]. split; [|done].
        rewrite Hp. intros Hx. apply elem_of_cons in Hx as [->|Hx]; [done|done].
      + left. cbn [claim_steps map sys_run sys_oks]. fold (claim_steps e sender idx lo hi v bh ms). fold s1.
        split; [constructor; [exact Hok|exact Hoks]|]. split; [|split; [congruence|exact Hcf']].
        intros m'. rewrite Hpaid, Hp. rewrite !elem_of_cons. tauto.
  Qed.
End claims.

Lemma find_w_elem c s w : C08Proofs.inv c s → w ∈ L2.wlog (l2 s) → find_w (l2 s) (L2.w_seq w) = Some w.
Proof.
  intros I Hin. unfold find_w. destruct (List.find _ _) as [w'|] eqn:Hf.
  - apply find_elem in Hf as [Hin' Hm]. apply N.eqb_eq in Hm. f_equal.
    eapply (nodup_key_inj L2.w_seq); eauto. apply (i_w_seq _ _ I).
  - pose proof (find_none _ _ Hf w ltac:(by apply elem_of_list_In)) as Hx. cbn in Hx.
    rewrite N.eqb_refl in Hx. discriminate.
Qed.

(* The claim phase of the drain.  From ANY reachable state in which an output commits honestly to
   the recorded events (lo,hi] and is final: submitting, in ANY order, the claims of a duplicate-
   free list of claimable sequences in that range makes every one of them Ok; afterwards each of
   them is rejected whatever the submission; L2 is untouched; the equation holds; and if the list
   was complete, every record still unpaid is an excluded one (zero amount or a recipient that
   is not an L1 address).  Or a denom / hash collision is exhibited. *)
Lemma c08_drain_claims c s0 e sender idx lo hi v bh h ms :
  genesis c s0 → L2.resolve (c2 c) [] = None → (∀ y, length (L1.hash (c1 c) y) = 32%nat) →
  (1 ≤ bid c < two64N)%N → is_Some (L1.resolve (c1 c) sender) → (1 ≤ idx)%N → length bh = 32%nat →
  let s := sys_run c s0 h in
  NoDup ms → committed_final c s e idx lo hi v bh → (L2.next_l2 (l2 s) ≤ two64N)%N →
  (∀ m, m ∈ ms → claimable c s m ∧ (lo < m ≤ hi)%N) →
  let s' := sys_run c s (claim_steps e sender idx lo hi v bh ms) in
  (Forall (λ b, b = true) (sys_oks c s (claim_steps e sender idx lo hi v bh ms)) ∧
   (∀ m e' sender' idx' lo' hi' v' bh', m ∈ ms →
      (sys_step c s' (SClaim e' sender' idx' m lo' hi' v' bh')).2 = false) ∧
   l2 s' = l2 s ∧
   (∀ d, solvent c s' d ∨ denom_collision c) ∧
   ((∀ m, claimable c s m → m ∈ ms) →
    ∀ w, w ∈ L2.wlog (l2 s') → L2.w_seq w ∉ paid s' →
         ¬ ((0 < L2.w_amt w)%Z ∧ is_Some (L1.resolve (c1 c) (L2.w_to w))))) ∨
  denom_collision c ∨ Collision (L1.hash (c1 c)).
Proof.
  intros G Hnil Hlen Hb Hsender Hidx Hbh s Hnd Hcf Hn Hall s'.
  destruct (drain_claims_ind c s0 G Hnil Hlen Hb e sender idx lo hi v bh Hsender Hidx Hbh ms h Hnd Hcf Hn Hall)
    as [(Hoks & Hpaid & Hl2 & _)|Hcol]; [left|by right].
  fold s s' in Hoks, Hpaid, Hl2.
  assert (Hs' : s' = sys_run c s0 (h ++ claim_steps e sender idx lo hi v bh ms)) by (by rewrite sys_run_app).
  pose proof (run_inv c (h ++ claim_steps e sender idx lo hi v bh ms) s0 (fresh_inv c s0 (proj1 G))) as I'.
  rewrite <- Hs' in I'.
  pose proof (run_inv c h s0 (fresh_inv c s0 (proj1 G))) as I. fold s in I.
  split; [exact Hoks|]. split; [|split; [exact Hl2|split; [apply (i_solv _ _ I')|]]].
  - intros m e' sender' idx' lo' hi' v' bh' Hm.
    destruct (sys_step c s' (SClaim e' sender' idx' m lo' hi' v' bh')).2 eqn:E; [|done].
    exfalso. apply (claim_ok_unpaid c s' e' sender' idx' m lo' hi' v' bh' I' E). apply Hpaid. by left.
  - intros Hcomplete w Hin Hnp [Hpos Hres]. rewrite Hl2 in Hin.
    assert (Hc : claimable c s (L2.w_seq w)).
    { exists w. split; [by apply (find_w_elem c s w I)|]. split; [|done]. intros Hx. apply Hnp, Hpaid. by right. }
    apply Hnp, Hpaid. left. by apply Hcomplete.
Qed.

(* ------------------------------------------------------------------------------------ *)
(* the relay phase: every pending emitted event, in order, is processed                     *)
(* ------------------------------------------------------------------------------------ *)
Require Model.Genesis1 Proofs.Genesis1Inv Proofs.C07Proofs Proofs.BankNonneg Proofs.BankTotal.

(* the emitted events of the bridge are gap-free from 1 and carry fields L2 accepts *)
Record evok (c : scfg) (s : sys) : Prop := {
  ev_fields : ∀ ev, ev ∈ bevents c (l1 s) →
     is_Some (L1.resolve (c1 c) (L1.e_from ev)) ∧ valid_denom (L1.e_l1denom ev) = true ∧ (1 ≤ L1.e_seq ev)%N;
  ev_complete : ∀ k, (1 ≤ k < L1.seq_of (l1 s) (bid c))%N → ∃ ev, ev ∈ bevents c (l1 s) ∧ L1.e_seq ev = k;
  ev_next : (1 ≤ L1.seq_of (l1 s) (bid c))%N;
}.

Definition is_deposit (m : smsg) : bool := match m with SDeposit _ _ _ _ _ _ => true | _ => false end.

Lemma step_l1_events c s m :
  let s' := (sys_step c s m).1 in
  (bevents c (l1 s') = bevents c (l1 s) ∧ L1.seq_of (l1 s') (bid c) = L1.seq_of (l1 s) (bid c)) ∨
  (∃ ev, bevents c (l1 s') = ev :: bevents c (l1 s) ∧
         L1.seq_of (l1 s') (bid c) = (L1.seq_of (l1 s) (bid c) + 1)%N ∧ L1.e_seq ev = L1.seq_of (l1 s) (bid c) ∧
         is_Some (L1.resolve (c1 c) (L1.e_from ev)) ∧ valid_denom (L1.e_l1denom ev) = true ∧
         is_deposit m = true).
Proof.
  cbn zeta.
  assert (Hfr : ∀ s1, L1.elog s1 = L1.elog (l1 s) → L1.next_seq s1 = L1.next_seq (l1 s) →
                bevents c s1 = bevents c (l1 s) ∧ L1.seq_of s1 (bid c) = L1.seq_of (l1 s) (bid c)).
  { intros s1 He Hs. split; [by apply bevents_same|by apply seq_of_same]. }
  destruct m as [e sender to d amt data|e from to d amt|m2|k ex h hook|e p idx l2b lo hi v bh|e ch idx|e sender idx m lo hi v bh|e m1|e mo];
    cbn [sys_step].
  - case_bool_decide; [by left|]. unfold lift1, L1.step. cbn [L1.handle].
    destruct (L1.deposit (c1 c) e (l1 s) sender (bid c) to d amt data) as [[s1 r]|] eqn:Hd; [|by left].
    cbn [fst set_l1 l1]. right.
    pose proof (l1_deposit_Some _ _ _ _ _ _ _ _ _ _ _ Hd) as (Hsd & _ & Hvd & _).
    apply l1_deposit_effect in Hd as (sd & _ & _ & _ & Hel & Hseq & _).
    eexists. split; [unfold bevents; rewrite Hel; by rewrite filter_cons_True|]. cbn. done.
  - case_bool_decide; [by left|]. unfold lift1, L1.step. cbn [L1.handle].
    destruct (L1.bank_send_msg _ _ _ _ _) as [[s1 r]|] eqn:Hd; [|by left].
    apply l1_bank_send_effect in Hd as (_ & Hel & Hsq & _). left. case_bool_decide; cbn; by apply Hfr.
  - left. destruct (l2_adm c (l1 s) m2); [|done]. unfold lift2. destruct (L2.step _ _ _) as [s2 [r|]]; done.
  - left. destruct (find_event c (l1 s) k) as [ev|]; [|done]. unfold lift2. destruct (L2.step _ _ _) as [s2 [r|]]; done.
  - left. unfold lift1, L1.step. cbn [L1.handle].
    destruct (L1.propose _ _ _ _ _ _ _ _) as [[s1 r]|] eqn:Hd; [|done].
    apply l1_propose_effect in Hd as (_ & Hel & Hsq & _). cbn. by apply Hfr.
  - left. unfold lift1, L1.step. cbn [L1.handle].
    destruct (L1.delete_output _ _ _ _ _ _) as [[s1 r]|] eqn:Hd; [|done].
    apply l1_delete_effect in Hd as (_ & Hel & Hsq & _). cbn. by apply Hfr.
  - left. destruct (find_w (l2 s) m) as [w|]; [|done]. unfold lift1, L1.step, claim_of. cbn [L1.handle].
    destruct (L1.finalize _ _ _ _ _ _ _ _ _ _ _ _ _ _ _) as [[s1 r]|] eqn:Hd; [|done].
    apply l1_finalize_effect in Hd as (rcv & _ & _ & _ & Hel & Hsq & _). cbn. by apply Hfr.
  - left. destruct (l1_admin m1) eqn:Ha; [|done]. unfold lift1, L1.step.
    destruct (L1.handle (c1 c) e (l1 s) m1) as [[s1 r]|] eqn:Hh; [|done].
    apply (l1_admin_frame _ _ _ _ _ _ Ha) in Hh as (_ & Hel & Hsq & _). cbn. by apply Hfr.
  - left. pose proof (other_step_spec c s e mo) as Hsp; cbn zeta in Hsp; cbn [sys_step] in Hsp; destruct Hsp as (_ & _ & [->|(s1 & rr & Hok & Hh & -> & _)]); [done|].
    destruct (other_handle_spec c e (l1 s) mo s1 rr Hok Hh) as (Hel & Hsq & _). done.
Qed.

Lemma step_evok c s m : evok c s → evok c (sys_step c s m).1.
Proof.
  intros [E1 E2 E3]. destruct (step_l1_events c s m) as [[Hb Hs]|(ev & Hb & Hs & Hseq & Hfrom & Hd & _)]; split.
  - rewrite Hb. exact E1.
  - rewrite Hb, Hs. exact E2.
  - rewrite Hs. exact E3.
  - rewrite Hb. intros x Hx. apply elem_of_cons in Hx as [->|Hx]; [|by apply E1]. split; [done|]. split; [done|lia].
  - rewrite Hb, Hs. intros k Hk. destruct (decide (k = L1.seq_of (l1 s) (bid c))) as [->|Hne].
    + exists ev. split; [by left|done].
    + destruct (E2 k ltac:(lia)) as (x & Hx & Hxk). exists x. split; [by right|done].
  - rewrite Hs. lia.
Qed.

Lemma run_evok c h : ∀ s, evok c s → evok c (sys_run c s h).
Proof. induction h as [|m h IH]; intros s E; cbn; [done|]. apply IH. by apply step_evok. Qed.

Lemma fresh_evok c s : fresh c s → evok c s.
Proof.
  intros (F1 & _ & _ & _ & F5 & _). split.
  - unfold bevents. rewrite F1. intros ev Hev. by apply elem_of_nil in Hev.
  - rewrite F5. intros k Hk. lia.
  - rewrite F5. lia.
Qed.

Lemma step_next_l1_mono c s m : (L2.next_l1 (l2 s) ≤ L2.next_l1 (l2 (sys_step c s m).1))%N.
Proof.
  assert (HL2 : ∀ m2, (L2.next_l1 (l2 s) ≤ L2.next_l1 (l2 (lift2 c s m2).1))%N).
  { intros m2. unfold lift2. pose proof (step_processed (c2 c) (l2 s) m2) as (k & Hk & _).
    destruct (L2.step (c2 c) (l2 s) m2) as [s2 [r|]]; cbn in *; lia. }
  destruct m as [e sender to d amt data|e from to d amt|m2|k ex h hook|e p idx l2b lo hi v bh|e ch idx|e sender idx m lo hi v bh|e m1|e mo];
    cbn [sys_step].
  - case_bool_decide; [done|]. unfold lift1. destruct (L1.step _ _ _ _) as [s1 [r|]]; done.
  - case_bool_decide; [done|]. unfold lift1. destruct (L1.step _ _ _ _) as [s1 [r|]]; [|done]. case_bool_decide; done.
  - destruct (l2_adm c (l1 s) m2); [apply HL2|done].
  - destruct (find_event c (l1 s) k) as [ev|]; [apply HL2|done].
  - unfold lift1. destruct (L1.step _ _ _ _) as [s1 [r|]]; done.
  - unfold lift1. destruct (L1.step _ _ _ _) as [s1 [r|]]; done.
  - destruct (find_w (l2 s) m) as [w|]; [|done]. unfold lift1. destruct (L1.step _ _ _ _) as [s1 [r|]]; done.
  - destruct (l1_admin m1); [|done]. unfold lift1. destruct (L1.step _ _ _ _) as [s1 [r|]]; done.
  - pose proof (other_step_spec c s e mo) as Hsp; cbn zeta in Hsp; cbn [sys_step] in Hsp; destruct Hsp as (-> & _). done.
Qed.

Lemma run_next_l1_ge c h : ∀ s, (L2.next_l1 (l2 s) ≤ L2.next_l1 (l2 (sys_run c s h)))%N.
Proof.
  induction h as [|m h IH]; intros s; cbn; [done|].
  pose proof (step_next_l1_mono c s m). specialize (IH (sys_step c s m).1). lia.
Qed.

Lemma is_executor_prm c s s' x : L2.prm s' = L2.prm s → L2.is_executor c s' x = L2.is_executor c s x.
Proof. intros Hp. unfold L2.is_executor. by rewrite Hp. Qed.

Section relays.
  Variable c : scfg.
  Variable s0 : sys.
  Hypothesis G : genesis c s0.
  Hypothesis Hnil2 : L2.resolve (c2 c) [] = None.
  Hypothesis Hnil1 : L1.resolve (c1 c) [] = None.
  Hypothesis Hwf : Genesis1.hash_wf (c1 c).
  Variables (ex : bytes) (height : N) (hk : N → L2.hookp).
  Hypothesis Hheight : height ≠ 0%N.

  (* the next pending event is processed (credited or refunded - C07 totality), whatever its hook *)
  Lemma relay_next_ok h :
    let s := sys_run c s0 h in
    (L2.next_l1 (l2 s) < L1.seq_of (l1 s) (bid c))%N → L2.is_executor (c2 c) (l2 s) ex = true →
    let r := sys_step c s (SRelay (L2.next_l1 (l2 s)) ex height (hk (L2.next_l1 (l2 s)))) in
    r.2 = true ∧ L2.next_l1 (l2 r.1) = (L2.next_l1 (l2 s) + 1)%N ∧ l1 r.1 = l1 s ∧ L2.prm (l2 r.1) = L2.prm (l2 s).
  Proof.
    intros s Hlt Hex. cbn zeta.
    pose proof (run_inv c h s0 (fresh_inv c s0 (proj1 G))) as I. fold s in I.
    pose proof (run_evok c h s0 (fresh_evok c s0 (proj1 G))) as [E1 E2 E3]. fold s in E1, E2, E3.
    destruct (run_ok c h s0 Hnil2 (fresh_nonneg c s0 (proj1 G)) (fresh_l2ok c s0 (proj1 G))) as [[N1 _] _]. fold s in N1.
    pose proof (run_bank_sane c h s0 (proj2 G)) as [Bn _]. fold s in Bn.
    assert (H1 : (1 ≤ L2.next_l1 (l2 s))%N).
    { pose proof (run_next_l1_ge c h s0). destruct G as [(_&_&_&_&_&_&_&F8&_) _]. fold s in H. lia. }
    set (k := L2.next_l1 (l2 s)) in *.
    destruct (E2 k ltac:(lia)) as (ev0 & Hin0 & Hk0).
    cbn [sys_step]. destruct (find_event c (l1 s) k) as [ev|] eqn:Hf.
    2:{ exfalso. unfold find_event in Hf. pose proof (find_none _ _ Hf ev0 ltac:(by apply elem_of_list_In)) as Hx.
        cbn in Hx. rewrite Hk0, N.eqb_refl in Hx. discriminate. }
    apply find_elem in Hf as [Hin Hk]. apply N.eqb_eq in Hk.
    destruct (E1 ev Hin) as (Hfrom & Hd1 & Hs1). destruct (N1 ev Hin) as [[Hamt0 _] _].
    destruct (i_ev_lt _ _ I ev Hin) as [_ Hl2d].
    set (m := relay_msg ev ex height (hk k)).
    assert (Hv : L2.fdep_valid (c2 c) m = true).
    { unfold L2.fdep_valid, coin_valid, m. cbn [relay_msg L2.fd_sender L2.fd_from L2.fd_denom L2.fd_amt L2.fd_base L2.fd_seq L2.fd_height].
      assert (Hr : is_Some (L2.resolve (c2 c) ex)).
      { unfold L2.is_executor in Hex. destruct (L2.resolve (c2 c) ex); [eauto|discriminate]. }
      rewrite (bool_decide_eq_true_2 _ Hr).
      rewrite bool_decide_eq_false_2 by (intros Heq; rewrite Heq, Hnil1 in Hfrom; by destruct Hfrom).
      rewrite Hl2d. unfold l2d. rewrite (Genesis1Inv.l2_denom_valid (c1 c) (bid c) _ Hwf), Hd1.
      replace (0 <=? L1.e_amt ev)%Z with true by (symmetry; apply Z.leb_le; lia).
      replace (L1.e_seq ev =? 0)%N with false by (symmetry; apply N.eqb_neq; lia).
      replace (height =? 0)%N with false by (symmetry; by apply N.eqb_neq). reflexivity. }
    destruct (C07Proofs.c07_total_plain (c2 c) (l2 s) m Hv Hex ltac:(exact Hk) (BankNonneg.nonneg_funds_sane _ _ _ Bn))
      as (s2 & Hstep & (Hn1 & Hprm & _) & _).
    unfold lift2. fold m. rewrite Hstep. cbn. done.
  Qed.

  Lemma relay_phase n : ∀ h,
    let s := sys_run c s0 h in
    N.to_nat (L1.seq_of (l1 s) (bid c) - L2.next_l1 (l2 s)) = n → L2.is_executor (c2 c) (l2 s) ex = true →
    let ks := seq_from n (L2.next_l1 (l2 s)) in
    let s' := sys_run c s (relay_steps ex height hk ks) in
    Forall (λ b, b = true) (sys_oks c s (relay_steps ex height hk ks)) ∧ l1 s' = l1 s ∧
    L2.next_l1 (l2 s') = L1.seq_of (l1 s) (bid c) ∧ L2.prm (l2 s') = L2.prm (l2 s).
  Proof.
    induction n as [|n IH]; intros h s Hn Hex; cbn zeta.
    - cbn. split; [constructor|]. split; [done|]. split; [|done].
      pose proof (i_next _ _ (run_inv c h s0 (fresh_inv c s0 (proj1 G)))). fold s in H. lia.
    - assert (Hlt : (L2.next_l1 (l2 s) < L1.seq_of (l1 s) (bid c))%N) by lia.
      destruct (relay_next_ok h Hlt Hex) as (Hok & Hn1 & Hl1 & Hprm). fold s in Hok, Hn1, Hl1, Hprm.
      set (st := SRelay (L2.next_l1 (l2 s)) ex height (hk (L2.next_l1 (l2 s)))) in *.
      set (s1 := (sys_step c s st).1) in *.
      assert (Hs1 : s1 = sys_run c s0 (h ++ [st])) by (rewrite sys_run_app; reflexivity).
      specialize (IH (h ++ [st])). cbn zeta in IH. rewrite <- Hs1 in IH.
      destruct IH as (Hoks & Hl1' & Hn' & Hprm').
      + rewrite Hl1, Hn1. lia.
      + rewrite (is_executor_prm _ _ _ _ Hprm). exact Hex.
      + rewrite Hn1 in *. cbn [seq_from relay_steps map sys_run sys_oks]. fold (relay_steps ex height hk). fold st. fold s1.
        split; [constructor; [exact Hok|exact Hoks]|]. rewrite Hl1 in *. split; [done|]. split; [done|]. etrans; [exact Hprm'|exact Hprm].
  Qed.
End relays.

Lemma pending_dep_zero c s d :
  C08Proofs.inv c s → L2.next_l1 (l2 s) = L1.seq_of (l1 s) (bid c) → pending_dep c s d = 0%Z.
Proof.
  intros I Hn. unfold pending_dep. rewrite (zsum_ext _ (λ _, 0%Z)).
  - induction (bevents c (l1 s)); cbn; lia.
  - intros ev Hev. destruct (i_ev_lt _ _ I ev Hev) as [Hlt _].
    rewrite bool_decide_eq_false_2; [done|]. intros [? _]. lia.
Qed.

Lemma run_nodep_seq_of c h : ∀ s, Forall (λ m, is_deposit m = false) h →
  L1.seq_of (l1 (sys_run c s h)) (bid c) = L1.seq_of (l1 s) (bid c).
Proof.
  induction h as [|m h IH]; intros s Hf; cbn; [done|]. apply Forall_cons in Hf as [Hm Hf]. rewrite IH by done.
  destruct (step_l1_events c s m) as [[_ Hq]|(ev & _ & _ & _ & _ & _ & Hd)]; [exact Hq|congruence].
Qed.

(* ------------------------------------------------------------------------------------ *)
(* the honest proposal, and the whole drain                                                *)
(* ------------------------------------------------------------------------------------ *)
Lemma div_second_mono a b : (a ≤ b)%Z → (a / L1.second ≤ b / L1.second)%Z.
Proof. intros. apply Z.div_le_mono; [reflexivity|done]. Qed.

Lemma propose_ok c s e1 proposer idx l2b lo hi v bh x e2 :
  (∀ y, length (L1.hash (c1 c) y) = 32%nat) →
  (1 ≤ bid c)%N → L1.configs (l1 s) !! bid c = Some x → proposer = L1.c_proposer x →
  is_Some (L1.resolve (c1 c) proposer) → idx = L1.out_of (l1 s) (bid c) →
  (if (idx =? 1)%N then true
   else match L1.outputs (l1 s) !! (bid c, (idx - 1)%N) with Some o => (L1.o_l2 o <? l2b)%N | None => false end) = true →
  (L1.now e1 + L1.c_period x ≤ L1.now e2)%Z →
  let r := sys_step c s (SPropose e1 proposer idx l2b lo hi v bh) in
  r.2 = true ∧ l2 r.1 = l2 s ∧ paid r.1 = paid s ∧ committed_final c r.1 e2 idx lo hi v bh.
Proof.
  intros Hlen Hb Hcfg Hp Hres Hidx Hprev Htime. cbn zeta. cbn [sys_step]. unfold lift1, L1.step. cbn [L1.handle].
  unfold L1.propose, L1.valid_addr. rewrite (bool_decide_eq_true_2 _ Hres). cbn [negb].
  replace (bid c =? 0)%N with false by (symmetry; apply N.eqb_neq; lia).
  assert (Hl : (length (honest_root c (l2 s) lo hi v bh) =? 32)%nat = true).
  { apply Nat.eqb_eq. unfold honest_root, output_root. apply Hlen. }
  rewrite Hl. cbn [negb]. rewrite Hcfg. cbn [mbind option_bind].
  rewrite bool_decide_eq_true_2 by done. cbn [negb].
  rewrite <- Hidx. rewrite N.eqb_refl. cbn [negb]. rewrite Hprev. cbn [negb fst snd set_l1 l1 l2 paid].
  split; [done|]. split; [done|]. split; [done|].
  exists x, {| L1.o_root := honest_root c (l2 s) lo hi v bh; L1.o_l1h := L1.height e1; L1.o_time := L1.now e1; L1.o_l2 := l2b |}.
  cbn. split; [done|]. split; [by rewrite lookup_insert|]. split; [done|].
  unfold L1.is_final. cbn. apply Z.leb_le. by apply div_second_mono.
Qed.

(* C08_drain: see Properties/C08.v *)
Lemma c08_drain c s0 h ex height hk e1 proposer idx l2b v bh e2 sender ms x :
  genesis c s0 → L2.resolve (c2 c) [] = None → L1.resolve (c1 c) [] = None → Genesis1.hash_wf (c1 c) →
  (1 ≤ bid c < two64N)%N → height ≠ 0%N → length bh = 32%nat → (1 ≤ idx)%N →
  let s := sys_run c s0 h in
  L2.is_executor (c2 c) (l2 s) ex = true →
  L1.configs (l1 s) !! bid c = Some x → proposer = L1.c_proposer x → is_Some (L1.resolve (c1 c) proposer) →
  idx = L1.out_of (l1 s) (bid c) →
  (if (idx =? 1)%N then true
   else match L1.outputs (l1 s) !! (bid c, (idx - 1)%N) with Some o => (L1.o_l2 o <? l2b)%N | None => false end) = true →
  (L1.now e1 + L1.c_period x ≤ L1.now e2)%Z → is_Some (L1.resolve (c1 c) sender) →
  let s1 := sys_run c s (relay_steps ex height hk (pending_seqs c s)) in
  (L2.next_l2 (l2 s1) ≤ two64N)%N →
  NoDup ms → (∀ m, m ∈ ms ↔ claimable c s1 m) →
  let sched := drain c s ex height hk e1 proposer idx l2b v bh e2 sender ms in
  let s' := sys_run c s sched in
  (Forall (λ b, b = true) (sys_oks c s sched) ∧
   (∀ m e' sender' idx' lo' hi' v' bh', m ∈ ms →
      (sys_step c s' (SClaim e' sender' idx' m lo' hi' v' bh')).2 = false) ∧
   (∀ d, pending_dep c s' d = 0%Z) ∧
   (∀ w, w ∈ L2.wlog (l2 s') → L2.w_seq w ∉ paid s' →
         ¬ ((0 < L2.w_amt w)%Z ∧ is_Some (L1.resolve (c1 c) (L2.w_to w)))) ∧
   (∀ d, solvent c s' d ∨ denom_collision c)) ∨
  denom_collision c ∨ Collision (L1.hash (c1 c)).
Proof.
  intros G Hnil2 Hnil1 Hwf Hb Hheight Hbh Hidx1 s Hex Hcfg Hprop Hpres Hidx Hprev Htime Hsender s1 Hn2 Hnd Hms sched s'.
  assert (Hlen : ∀ y, length (L1.hash (c1 c) y) = 32%nat) by (intros y; apply Hwf).
  set (relays := relay_steps ex height hk (pending_seqs c s)) in *.
  (* phase 1: relays *)
  destruct (relay_phase c s0 G Hnil2 Hnil1 Hwf ex height hk Hheight _ h eq_refl Hex) as (Hoks1 & Hl1 & Hnext & Hprm).
  fold s in Hoks1, Hl1, Hnext, Hprm. change (seq_from _ _) with (pending_seqs c s) in Hoks1, Hl1, Hnext, Hprm.
  fold relays in Hoks1, Hl1, Hnext, Hprm. fold s1 in Hl1, Hnext, Hprm.
  (* phase 2: proposal *)
  set (hi := (L2.next_l2 (l2 s1) - 1)%N) in *.
  set (pst := SPropose e1 proposer idx l2b 0 hi v bh).
  destruct (propose_ok c s1 e1 proposer idx l2b 0 hi v bh x e2 Hlen ltac:(lia)
              ltac:(by rewrite Hl1) Hprop Hpres ltac:(by rewrite Hl1) ltac:(by rewrite Hl1) Htime) as (Hok2 & Hl2 & Hpaid2 & Hcf).
  fold pst in Hok2, Hl2, Hpaid2, Hcf. set (s2 := (sys_step c s1 pst).1) in *.
  assert (Hs2 : s2 = sys_run c s0 (h ++ relays ++ [pst])).
  { rewrite !sys_run_app. reflexivity. }
  (* phase 3: claims *)
  pose proof (run_ok c (h ++ relays) s0 Hnil2 (fresh_nonneg c s0 (proj1 G)) (fresh_l2ok c s0 (proj1 G))) as [_ Hok1].
  rewrite sys_run_app in Hok1. fold s s1 in Hok1.
  assert (Hcl : ∀ m, claimable c s2 m ↔ claimable c s1 m).
  { intros m. unfold claimable. rewrite Hl2, Hpaid2. done. }
  destruct (c08_drain_claims c s0 e2 sender idx 0 hi v bh (h ++ relays ++ [pst]) ms G Hnil2 Hlen Hb Hsender Hidx1 Hbh Hnd)
    as [(Hoks3 & Hrej & Hl23 & Hsolv & Hexcl)|Hcol]; rewrite <- ?Hs2; auto.
  - by rewrite Hl2.
  - intros m Hm. apply Hms in Hm. split; [by apply Hcl|].
    destruct Hm as (w & Hf & _). apply find_elem in Hf as [Hin Hm]. apply N.eqb_eq in Hm.
    destruct Hok1 as (_ & _ & Hall). rewrite List.Forall_forall in Hall.
    destruct (Hall w ltac:(by apply elem_of_list_In)) as [_ _ _ _ _ _ _ Hseq]. subst hi. lia.
  - left. rewrite <- Hs2 in Hoks3, Hrej, Hl23, Hsolv, Hexcl. set (cst := claim_steps e2 sender idx 0 hi v bh ms) in *.
    assert (Hsched : sched = relays ++ [pst] ++ cst) by reflexivity.
    assert (Hs' : s' = sys_run c s2 cst).
    { unfold s'. rewrite Hsched, sys_run_app. fold s1. cbn [app sys_run]. reflexivity. }
    rewrite <- Hs' in Hrej, Hl23, Hsolv, Hexcl.
    split; [|split; [exact Hrej|split; [|split; [|exact Hsolv]]]].
    + rewrite Hsched. clear -Hoks1 Hok2 Hoks3. fold s1 in Hoks1.
      assert (Happ : ∀ st l1' l2', sys_oks c st (l1' ++ l2') = sys_oks c st l1' ++ sys_oks c (sys_run c st l1') l2').
      { intros st l1'. revert st. induction l1' as [|a l IH]; intros st l2'; cbn; [done|]. by rewrite IH. }
      rewrite Happ. apply Forall_app. split; [exact Hoks1|]. fold s1. cbn [app sys_oks]. constructor; [exact Hok2|exact Hoks3].
    + intros d. apply pending_dep_zero.
      * rewrite Hs', Hs2, <- sys_run_app. apply run_inv, fresh_inv, G.
      * rewrite Hl23, Hl2, Hnext, <- Hl1. symmetry.
        assert (Hnd' : Forall (λ m, is_deposit m = false) (pst :: cst)).
        { constructor; [done|]. unfold cst, claim_steps. apply Forall_fmap, Forall_forall. done. }
        replace s' with (sys_run c s1 (pst :: cst)) by (by rewrite Hs'). by apply run_nodep_seq_of.
    + intros w Hw Hnp. apply Hexcl; auto. intros m Hm. apply Hms. by apply Hcl.
Qed.


(* non-vacuity: the drain schedule executed on the concrete system of C08Run *)
Module C08DrainRun.
  Import C08Run. Import Coq.Strings.String. Local Open Scope string_scope.
  Definition pre : list smsg :=
    [ SDeposit (e 1000000000) (bs "l1user") (bs "alice") (bs "uinit") 100 [];
      SDeposit (e 1000000000) (bs "l1user") (bs "nobody") (bs "uinit") 30 [];
      SSend1 (e 1000000000) 1 1001 (bs "uinit") 5 ].
  Definition s : sys := sys_run c s0 pre.
  Definition sched : list smsg :=
    drain c s (bs "exec") 7 (λ _, L2.HNone) (e 2000000000) (bs "prop") 1 10 0 bh (e 9000000000) (bs "prop") [1%N].
  (* two relays (one credited, one refunded), the proposal, the claim of the refund: all accepted;
     afterwards escrow 105 = supply 100 + unrelayed 0 + unpaid 0 + donations 5 *)
  Example drain_runs :
    sys_oks c s sched = [true; true; true; true] ∧
    let s' := sys_run c s sched in
    (getb (L1.bk (l1 s')) (escrow_of c) (bs "uinit"), gets (L2.bk (l2 s')) uinit2,
     pending_dep c s' (bs "uinit"), pending_wd s' uinit2, donations s' (bs "uinit"), paid s')
    = (105, 100, 0, 0, 5, [1%N])%Z.
  Proof. vm_compute. split; reflexivity. Qed.
End C08DrainRun.

(* non-vacuity of the batch step: the admin wraps the relay of event 1 (signed by the module
   authority, which is a listed executor) and a withdrawal-free params-neutral message into
   ExecuteMessages; the batch is a system step and credits the deposit *)
Module C08BatchRun.
  Import C08Run. Import Coq.Strings.String. Local Open Scope string_scope.
  Definition tbl2' (s : bytes) : option N :=
    if bytes_eqb s (bs "exec") then Some 1%N else if bytes_eqb s (bs "alice") then Some 2%N
    else if bytes_eqb s (bs "auth") then Some 3%N else None.
  Definition c' : scfg :=
    {| c1 := c1 c;
       c2 := {| L2.resolve := tbl2'; L2.blocked := λ _, false; L2.authority := bs "auth"; L2.modacc := 100; L2.feecol := 101 |};
       bid := 1 |}.
  Definition s0' : sys :=
    {| l1 := l1 s0;
       l2 := {| L2.bk := bank_empty; L2.next_l1 := 1; L2.next_l2 := 1; L2.pairs := ∅;
                L2.prm := {| L2.p_admin := bs "exec"; L2.p_execs := [bs "exec"; bs "auth"]; L2.p_maxv := 1; L2.p_hist := 1;
                             L2.p_mingas := []; L2.p_whitelist := []; L2.p_hookgas := 0 |};
                L2.info := None; L2.vs := vempty; L2.seqs := ∅; L2.wlog := []; L2.dlog := [] |};
       paid := []; donated := [] |}.
  Definition dep1 : L2.fdep :=
    {| L2.fd_sender := bs "auth"; L2.fd_from := bs "l1user"; L2.fd_to := bs "alice"; L2.fd_denom := l2d c' (bs "uinit");
       L2.fd_amt := 100; L2.fd_seq := 1; L2.fd_height := 7; L2.fd_base := bs "uinit"; L2.fd_hook := L2.HNone |}.
  Definition batch : L2.msg := L2.MExecute (bs "exec") [L2.MFinalizeDeposit dep1].
  Definition unfaithful : L2.msg :=
    L2.MExecute (bs "exec") [L2.MFinalizeDeposit {| L2.fd_sender := bs "auth"; L2.fd_from := bs "l1user"; L2.fd_to := bs "alice";
        L2.fd_denom := l2d c' (bs "uinit"); L2.fd_amt := 101; L2.fd_seq := 1; L2.fd_height := 7; L2.fd_base := bs "uinit";
        L2.fd_hook := L2.HNone |}].
  Definition s1' : sys := sys_run c' s0' [SDeposit (e 1000000000) (bs "l1user") (bs "alice") (bs "uinit") 100 []].
  Example batch_runs :
    (sys_step c' s1' (SL2 batch)).2 = true ∧
    gets (L2.bk (l2 (sys_step c' s1' (SL2 batch)).1)) (l2d c' (bs "uinit")) = 100%Z ∧
    pending_dep c' (sys_step c' s1' (SL2 batch)).1 (bs "uinit") = 0%Z ∧
    (sys_step c' s1' (SL2 unfaithful)).2 = false.
  Proof. vm_compute. repeat split; reflexivity. Qed.
End C08BatchRun.
