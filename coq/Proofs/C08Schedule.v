(* C08: the claim phase of the drain as a concrete schedule, by induction over the claim list. *)
From stdpp Require Import gmap numbers list.
From Coq Require Import ZArith Lia.
Require Import Model.Bytes Model.Bank Model.Hashes Model.Merkle Model.Valset Model.System.
Require Model.L1 Model.L2.
Require Import Proofs.MerkleProofs Proofs.C03Binding Proofs.L2Lemmas Proofs.C04Proofs Proofs.C08Proofs Proofs.C08Drain.

Arguments l2d : simpl never.
Arguments escrow_of : simpl never.
Arguments wleaf : simpl never.
Arguments bevents : simpl never.

Lemma sys_run_app c h1 : ∀ s h2, sys_run c s (h1 ++ h2) = sys_run c (sys_run c s h1) h2.
Proof. induction h1 as [|m h1 IH]; intros s h2; cbn; [done|]. apply IH. Qed.

Lemma l1_finalize_frame c e s sender b idx sq proofs from to d amt v sr bh s' r :
  L1.finalize c e s sender b idx sq proofs from to d amt v sr bh = Some (s', r) →
  L1.configs s' = L1.configs s ∧ L1.outputs s' = L1.outputs s.
Proof.
  unfold L1.finalize. destruct (negb (L1.finalize_valid _ _ _ _ _ _ _ _ _ _ _ _ _)); [discriminate|].
  intros Hx. apply bind_Some in Hx as (rcv & Hrcv & Hx). apply bind_Some in Hx as (o & _ & Hx).
  apply bind_Some in Hx as (x & _ & Hx).
  destruct (negb (L1.is_final x e o)); [discriminate|].
  destruct (negb (bool_decide _)); [discriminate|].
  destruct (negb (amt <? L1.two64)%Z); [discriminate|].
  case_bool_decide as Hp; [discriminate|].
  destruct (negb (bool_decide _)); [discriminate|].
  apply bind_Some in Hx as (b1 & Hb1 & [= <- <-]). done.
Qed.

(* what one claim step does to everything the next claim depends on *)
Lemma claim_step_spec c s e sender idx m lo hi v bh :
  let r := sys_step c s (SClaim e sender idx m lo hi v bh) in
  l2 r.1 = l2 s ∧ L1.configs (l1 r.1) = L1.configs (l1 s) ∧ L1.outputs (l1 r.1) = L1.outputs (l1 s) ∧
  (if r.2 then paid r.1 = m :: paid s else r.1 = s).
Proof.
  cbn zeta. cbn [sys_step]. destruct (find_w (l2 s) m) as [w|]; [|done].
  unfold lift1, L1.step, claim_of. cbn [L1.handle].
  destruct (L1.finalize _ _ _ _ _ _ _ _ _ _ _ _ _ _ _) as [[s1 r]|] eqn:Hd; [|done].
  apply l1_finalize_frame in Hd as [Hc Ho]. cbn. done.
Qed.

(* an accepted claim was for an unpaid sequence: a paid sequence is never paid again *)
Lemma claim_ok_unpaid c s e sender idx m lo hi v bh :
  C08Proofs.inv c s → (sys_step c s (SClaim e sender idx m lo hi v bh)).2 = true → m ∉ paid s.
Proof.
  intros I. cbn [sys_step]. destruct (find_w (l2 s) m) as [w|] eqn:Hf; [|done].
  apply find_elem in Hf as [Hin Hm]. apply N.eqb_eq in Hm.
  unfold lift1, L1.step, claim_of. cbn [L1.handle].
  destruct (L1.finalize _ _ _ _ _ _ _ _ _ _ _ _ _ _ _) as [[s1 r]|] eqn:Hd; [|done].
  intros _. apply l1_finalize_effect in Hd as (rcv & _ & Hnp & _).
  change (leaf_hash _ _ _ _ _ _ _) with (wleaf c w) in Hnp.
  intros Hp. destruct (i_paid _ _ I m Hp) as (w' & Hin' & Hs' & Hpv).
  assert (w' = w) as -> by (eapply (nodup_key_inj L2.w_seq); eauto; [apply (i_w_seq _ _ I)|congruence]). done.
Qed.

Lemma committed_final_same c s s' e idx lo hi v bh :
  l2 s' = l2 s → L1.configs (l1 s') = L1.configs (l1 s) → L1.outputs (l1 s') = L1.outputs (l1 s) →
  committed_final c s e idx lo hi v bh → committed_final c s' e idx lo hi v bh.
Proof. intros H2 Hc Ho (x & o & ? & ? & ? & ?). exists x, o. rewrite Hc, Ho, H2. done. Qed.

Section claims.
  Variable c : scfg.
  Variable s0 : sys.
  Hypothesis G : genesis c s0.
  Hypothesis Hnil : L2.resolve (c2 c) [] = None.
  Hypothesis Hlen : ∀ y, length (L1.hash (c1 c) y) = 32%nat.
  Hypothesis Hb : (1 ≤ bid c < two64N)%N.
  Variables (e : L1.env) (sender : bytes) (idx lo hi v : N) (bh : bytes).
  Hypothesis Hsender : is_Some (L1.resolve (c1 c) sender).
  Hypothesis Hidx : (1 ≤ idx)%N.
  Hypothesis Hbh : length bh = 32%nat.

  Definition good (s s' : sys) (ms : list N) : Prop :=
    Forall (λ b, b = true) (sys_oks c s (claim_steps e sender idx lo hi v bh ms)) ∧
    (∀ m, m ∈ paid s' ↔ m ∈ ms ∨ m ∈ paid s) ∧
    l2 s' = l2 s ∧ committed_final c s' e idx lo hi v bh.

  Lemma drain_claims_ind ms : ∀ h,
    let s := sys_run c s0 h in
    NoDup ms → committed_final c s e idx lo hi v bh → (L2.next_l2 (l2 s) ≤ two64N)%N →
    (∀ m, m ∈ ms → claimable c s m ∧ (lo < m ≤ hi)%N) →
    good s (sys_run c s (claim_steps e sender idx lo hi v bh ms)) ms ∨
    denom_collision c ∨ Collision (L1.hash (c1 c)).
  Proof.
    induction ms as [|m ms IH]; intros h s Hnd Hcf Hn Hall.
    - left. split; [constructor|]. split; [|done]. intros m. split; [auto|]. intros [Hx|]; [by apply elem_of_nil in Hx|done].
    - apply NoDup_cons in Hnd as [Hnotin Hnd].
      destruct (Hall m ltac:(left)) as [(w & Hf & Hnp & Hpos & [rcv Hrcv]) Hrange].
      destruct Hcf as (x & o & Hcfg & Hout & Hroot & Hfin).
      destruct (c08_drain_claim_g c s0 h e sender idx m lo hi v bh w x o rcv G Hnil Hlen
                  ltac:(lia) Hn Hf Hnp Hrange Hpos Hrcv Hsender ltac:(lia) Hidx Hcfg Hout Hroot Hfin Hbh) as [Hok|Hcol];
        [|by right].
      fold s in Hok.
      pose proof (claim_step_spec c s e sender idx m lo hi v bh) as (H2 & Hc & Ho & Hp). cbn zeta in *.
      rewrite Hok in Hp.
      set (s1 := (sys_step c s (SClaim e sender idx m lo hi v bh)).1) in *.
      assert (Hs1 : s1 = sys_run c s0 (h ++ [SClaim e sender idx m lo hi v bh])).
      { rewrite sys_run_app. reflexivity. }
      assert (Hcf1 : committed_final c s1 e idx lo hi v bh).
      { apply (committed_final_same c s s1); auto. exists x, o. done. }
      specialize (IH (h ++ [SClaim e sender idx m lo hi v bh])). cbn zeta in IH. rewrite <- Hs1 in IH.
      destruct IH as [(Hoks & Hpaid & Hl2 & Hcf')|Hcol]; auto.
      + by rewrite H2.
      + intros m' Hm'. destruct (Hall m' ltac:(by right)) as [(w' & Hf' & Hnp' & Hpos' & Hr') Hrange'].
        split; [|done]. exists w'. rewrite H2. split; [done|]. split; [|done].
        rewrite Hp. intros Hx. apply elem_of_cons in Hx as [->|Hx]; [done|done].
      + left. cbn [claim_steps map sys_run sys_oks]. fold (claim_steps e sender idx lo hi v bh ms). fold s1.
        split; [constructor; [exact Hok|exact Hoks]|]. split; [|split; [congruence|exact Hcf']].
        intros m'. rewrite Hpaid, Hp. rewrite !elem_of_cons. tauto.
  Qed.
End claims.

Lemma find_w_elem c s w : C08Proofs.inv c s → w ∈ L2.wlog (l2 s) → find_w (l2 s) (L2.w_seq w) = Some w.
Proof.
  intros I Hin. unfold find_w. destruct (List.find _ _) as [w'|] eqn:Hf.
  - apply find_elem in Hf as [Hin' Hm]. apply N.eqb_eq in Hm. f_equal.
    eapply (nodup_key_inj L2.w_seq); eauto. apply (i_w_seq _ _ I).
  - pose proof (find_none _ _ Hf w ltac:(by apply elem_of_list_In)) as Hx. cbn in Hx.
    rewrite N.eqb_refl in Hx. discriminate.
Qed.

(* The claim phase of the drain.  From ANY reachable state in which an output commits honestly to
   the recorded events (lo,hi] and is final: submitting, in ANY order, the claims of a duplicate-
   free list of claimable sequences in that range makes every one of them Ok; afterwards each of
   them is rejected whatever the submission; L2 is untouched; the equation holds; and if the list
   was complete, every record still unpaid is an excluded one (zero amount or a recipient that
   is not an L1 address).  Or a denom / hash collision is exhibited. *)
Lemma c08_drain_claims c s0 e sender idx lo hi v bh h ms :
  genesis c s0 → L2.resolve (c2 c) [] = None → (∀ y, length (L1.hash (c1 c) y) = 32%nat) →
  (1 ≤ bid c < two64N)%N → is_Some (L1.resolve (c1 c) sender) → (1 ≤ idx)%N → length bh = 32%nat →
  let s := sys_run c s0 h in
  NoDup ms → committed_final c s e idx lo hi v bh → (L2.next_l2 (l2 s) ≤ two64N)%N →
  (∀ m, m ∈ ms → claimable c s m ∧ (lo < m ≤ hi)%N) →
  let s' := sys_run c s (claim_steps e sender idx lo hi v bh ms) in
  (Forall (λ b, b = true) (sys_oks c s (claim_steps e sender idx lo hi v bh ms)) ∧
   (∀ m e' sender' idx' lo' hi' v' bh', m ∈ ms →
      (sys_step c s' (SClaim e' sender' idx' m lo' hi' v' bh')).2 = false) ∧
   l2 s' = l2 s ∧
   (∀ d, solvent c s' d ∨ denom_collision c) ∧
   ((∀ m, claimable c s m → m ∈ ms) →
    ∀ w, w ∈ L2.wlog (l2 s') → L2.w_seq w ∉ paid s' →
         ¬ ((0 < L2.w_amt w)%Z ∧ is_Some (L1.resolve (c1 c) (L2.w_to w))))) ∨
  denom_collision c ∨ Collision (L1.hash (c1 c)).
Proof.
  intros G Hnil Hlen Hb Hsender Hidx Hbh s Hnd Hcf Hn Hall s'.
  destruct (drain_claims_ind c s0 G Hnil Hlen Hb e sender idx lo hi v bh Hsender Hidx Hbh ms h Hnd Hcf Hn Hall)
    as [(Hoks & Hpaid & Hl2 & _)|Hcol]; [left|by right].
  fold s s' in Hoks, Hpaid, Hl2.
  assert (Hs' : s' = sys_run c s0 (h ++ claim_steps e sender idx lo hi v bh ms)) by (by rewrite sys_run_app).
  pose proof (run_inv c (h ++ claim_steps e sender idx lo hi v bh ms) s0 (fresh_inv c s0 (proj1 G))) as I'.
  rewrite <- Hs' in I'.
  pose proof (run_inv c h s0 (fresh_inv c s0 (proj1 G))) as I. fold s in I.
  split; [exact Hoks|]. split; [|split; [exact Hl2|split; [apply (i_solv _ _ I')|]]].
  - intros m e' sender' idx' lo' hi' v' bh' Hm.
    destruct (sys_step c s' (SClaim e' sender' idx' m lo' hi' v' bh')).2 eqn:E; [|done].
    exfalso. apply (claim_ok_unpaid c s' e' sender' idx' m lo' hi' v' bh' I' E). apply Hpaid. by left.
  - intros Hcomplete w Hin Hnp [Hpos Hres]. rewrite Hl2 in Hin.
    assert (Hc : claimable c s (L2.w_seq w)).
    { exists w. split; [by apply (find_w_elem c s w I)|]. split; [|done]. intros Hx. apply Hnp, Hpaid. by right. }
    apply Hnp, Hpaid. left. by apply Hcomplete.
Qed.
