(* Lemmas about the validator-set model (Model/Valset.v): invariants, inversion lemmas of the
   message handlers, and the refinement of the two-pass end-block loop, proved in lockstep with
   the engine's own left fold [apply_updates]. *)
From stdpp Require Import gmap numbers list sorting.
From Coq Require Import ZArith Lia.
Require Import Model.Valset.

(* ---- invariants ---- *)
(* the consensus-key index is exactly the inverse of v_key on the stored validators *)
Definition idx_ok (s : vstate) : Prop :=
  ∀ k op, idx s !! k = Some op ↔ ∃ v, vals s !! op = Some v ∧ v_key v = k.
(* the engine's set is the last-powers table mapped through the validators' keys *)
Definition eng_last (s : vstate) (e : gmap N Z) : Prop :=
  (∀ op p, last s !! op = Some p → ∃ v, vals s !! op = Some v ∧ e !! v_key v = Some p) ∧
  (∀ k p, e !! k = Some p → ∃ op v, last s !! op = Some p ∧ vals s !! op = Some v ∧ v_key v = k).
Definition pows_ok (s : vstate) : Prop := ∀ op v, vals s !! op = Some v → (0 ≤ v_pow v)%Z.
(* mid-block invariant; [e] is the engine's set, which does not change inside a block *)
Definition mid_inv (s : vstate) (e : gmap N Z) : Prop := idx_ok s ∧ eng_last s e ∧ pows_ok s.
(* block-boundary invariant: additionally every stored validator is bonded with its own power *)
Definition all_bonded (s : vstate) : Prop :=
  ∀ op v, vals s !! op = Some v → last s !! op = Some (v_pow v) ∧ (0 < v_pow v)%Z.
Definition blk_inv (s : vstate) (e : gmap N Z) : Prop := mid_inv s e ∧ all_bonded s.

Lemma idx_ok_inj s op1 op2 v1 v2 :
  idx_ok s → vals s !! op1 = Some v1 → vals s !! op2 = Some v2 → v_key v1 = v_key v2 → op1 = op2.
Proof.
  intros Hi H1 H2 Hk.
  assert (idx s !! v_key v1 = Some op1) as A by (apply Hi; eauto).
  assert (idx s !! v_key v1 = Some op2) as B by (apply Hi; eauto).
  congruence.
Qed.

Lemma by_key_None s k : idx_ok s → by_key s k = None → ∀ op v, vals s !! op = Some v → v_key v ≠ k.
Proof.
  intros Hi Hb op v Hv Hk. unfold by_key in Hb.
  assert (idx s !! k = Some op) as A by (apply Hi; eauto).
  rewrite A in Hb. simpl in Hb. congruence.
Qed.

Lemma by_key_Some s k v : idx_ok s → by_key s k = Some v → ∃ op, idx s !! k = Some op ∧ vals s !! op = Some v ∧ v_key v = k.
Proof.
  intros Hi Hb. unfold by_key in Hb.
  destruct (idx s !! k) as [op|] eqn:E; simpl in Hb; [|done].
  exists op. split; [done|]. split; [done|].
  apply Hi in E as (v' & Hv' & Hk). congruence.
Qed.

(* ---- message handlers: inversion lemmas ---- *)
Lemma add_validator_Some maxv s op key s' :
  add_validator maxv s op key = Some s' →
  (N.of_nat (size (vals s)) < maxv)%N ∧ vals s !! op = None ∧ by_key s key = None ∧
  s' = {| vals := <[op := {| v_key := key; v_pow := 1 |}]> (vals s); idx := <[key := op]> (idx s); last := last s |}.
Proof.
  unfold add_validator. intros H.
  repeat case_bool_decide; try done. simplify_eq.
  split; [lia|]. split.
  - destruct (vals s !! op) eqn:E; [|done]. exfalso. eauto.
  - split; [|done]. destruct (by_key s key) eqn:E; [|done]. exfalso. eauto.
Qed.

Lemma remove_validator_Some s op s' :
  remove_validator s op = Some s' →
  ∃ v, vals s !! op = Some v ∧
  s' = {| vals := <[op := {| v_key := v_key v; v_pow := 0 |}]> (vals s); idx := idx s; last := last s |}.
Proof.
  unfold remove_validator. intros H.
  destruct (vals s !! op) as [v|] eqn:E; simpl in H; [|done]. simplify_eq. eauto.
Qed.

Lemma add_validator_mid maxv s op key s' e :
  mid_inv s e → add_validator maxv s op key = Some s' → mid_inv s' e.
Proof.
  intros (Hi & (He1 & He2) & Hp) H. apply add_validator_Some in H as (_ & Hnone & Hbk & ->).
  pose proof (by_key_None _ _ Hi Hbk) as Hfresh.
  split; [|split].
  - intros k o. simpl. split.
    + intros Hl. destruct (decide (k = key)) as [->|Hne].
      * rewrite lookup_insert in Hl. simplify_eq. exists {| v_key := key; v_pow := 1 |}.
        rewrite lookup_insert. done.
      * rewrite lookup_insert_ne in Hl by done. apply Hi in Hl as (v & Hv & Hk).
        exists v. split; [|done]. rewrite lookup_insert_ne; [done|]. intros ->. congruence.
    + intros (v & Hv & Hk). destruct (decide (o = op)) as [->|Hne].
      * rewrite lookup_insert in Hv. simplify_eq. simpl. by rewrite lookup_insert.
      * rewrite lookup_insert_ne in Hv by done.
        rewrite lookup_insert_ne; [apply Hi; eauto|]. intros <-. by eapply Hfresh.
  - split; simpl.
    + intros o p Hl. destruct (He1 _ _ Hl) as (v & Hv & Hev). exists v. split; [|done].
      rewrite lookup_insert_ne; [done|]. intros ->. congruence.
    + intros k p Hk. destruct (He2 _ _ Hk) as (o & v & Hl & Hv & Hkv). exists o, v.
      split; [done|]. split; [|done]. rewrite lookup_insert_ne; [done|]. intros ->. congruence.
  - intros o v. simpl. destruct (decide (o = op)) as [->|Hne].
    + rewrite lookup_insert. intros; simplify_eq. simpl. lia.
    + rewrite lookup_insert_ne by done. apply Hp.
Qed.

Lemma remove_validator_mid s op s' e :
  mid_inv s e → remove_validator s op = Some s' → mid_inv s' e.
Proof.
  intros (Hi & (He1 & He2) & Hp) H. apply remove_validator_Some in H as (v0 & Hv0 & ->).
  split; [|split].
  - intros k o. simpl. split.
    + intros Hl. apply Hi in Hl as (v & Hv & Hk). destruct (decide (o = op)) as [->|Hne].
      * rewrite lookup_insert. eexists. split; [done|]. simpl. congruence.
      * rewrite lookup_insert_ne by done. eauto.
    + intros (v & Hv & Hk). destruct (decide (o = op)) as [->|Hne].
      * rewrite lookup_insert in Hv. simplify_eq. simpl. apply Hi. eauto.
      * rewrite lookup_insert_ne in Hv by done. apply Hi. eauto.
  - split; simpl.
    + intros o p Hl. destruct (He1 _ _ Hl) as (v & Hv & Hev). destruct (decide (o = op)) as [->|Hne].
      * rewrite lookup_insert. eexists. split; [done|]. simpl. congruence.
      * rewrite lookup_insert_ne by done. eauto.
    + intros k p Hk. destruct (He2 _ _ Hk) as (o & v & Hl & Hv & Hkv). destruct (decide (o = op)) as [->|Hne].
      * exists op. eexists. split; [done|]. rewrite lookup_insert. split; [done|]. simpl. congruence.
      * exists o, v. rewrite lookup_insert_ne by done. done.
  - intros o v. simpl. destruct (decide (o = op)) as [->|Hne].
    + rewrite lookup_insert. intros; simplify_eq. simpl. lia.
    + rewrite lookup_insert_ne by done. apply Hp.
Qed.

Lemma add_validator_size maxv s op key s' :
  add_validator maxv s op key = Some s' → (N.of_nat (size (vals s')) ≤ maxv)%N ∧ size (vals s') = S (size (vals s)).
Proof.
  intros H. apply add_validator_Some in H as (Hlt & Hnone & _ & ->). simpl.
  rewrite map_size_insert_None by done. lia.
Qed.

Lemma remove_validator_size s op s' : remove_validator s op = Some s' → size (vals s') = size (vals s).
Proof.
  intros H. apply remove_validator_Some in H as (v & Hv & ->). simpl.
  rewrite map_size_insert_Some; [done|]. eauto.
Qed.

(* ---- a fold lemma with the visited prefix ---- *)
Lemma foldl_prefix_ind {A B} (f : B → A → B) (P : list A → B → Prop) (b : B) (l : list A) :
  P [] b →
  (∀ pre x suf b', l = pre ++ x :: suf → P pre b' → P (pre ++ [x]) (f b' x)) →
  P l (foldl f b l).
Proof.
  intros H0 Hstep.
  assert (∀ suf pre b', l = pre ++ suf → P pre b' → P l (foldl f b' suf)) as G.
  { induction suf as [|x suf IH]; intros pre b' Hl HP.
    - rewrite app_nil_r in Hl. subst. done.
    - simpl. apply (IH (pre ++ [x])).
      + rewrite <- app_assoc. done.
      + eapply Hstep; eauto. }
  apply (G l [] b); done.
Qed.

Lemma map_fmap {A B} (f : A → B) (l : list A) : map f l = f <$> l.
Proof. induction l as [|x l IH]; simpl; [done|]. by rewrite IH. Qed.

(* ---- sorted_ops: only that it lists the map ---- *)
Lemma sorted_ops_perm {A} (m : gmap N A) : sorted_ops m ≡ₚ map_to_list m.
Proof. unfold sorted_ops. apply merge_sort_Permutation. Qed.
Lemma elem_of_sorted_ops {A} (m : gmap N A) k x : (k, x) ∈ sorted_ops m ↔ m !! k = Some x.
Proof. rewrite sorted_ops_perm. apply elem_of_map_to_list. Qed.
Lemma NoDup_fst_sorted_ops {A} (m : gmap N A) : NoDup (sorted_ops m).*1.
Proof. rewrite sorted_ops_perm. apply NoDup_fst_map_to_list. Qed.

Lemma apply_updates_snoc e ups u :
  apply_updates e (ups ++ [u]) =
  if bool_decide (u.2 = 0)%Z then delete u.1 (apply_updates e ups) else <[u.1 := u.2]> (apply_updates e ups).
Proof. unfold apply_updates. rewrite foldl_app. done. Qed.

(* ---- single steps of the two passes preserve idx_ok and eng_last ---- *)
Lemma purge_unbonded_inv s e op v :
  idx_ok s → eng_last s e → vals s !! op = Some v → last s !! op = None →
  idx_ok (purge s op) ∧ eng_last (purge s op) e ∧
  vals (purge s op) = delete op (vals s) ∧ last (purge s op) = last s.
Proof.
  intros Hi (He1 & He2) Hv Hl. unfold purge. rewrite Hv. simpl.
  split; [|split; [|done]].
  - intros k o. simpl. split.
    + intros Hk. destruct (decide (k = v_key v)) as [->|Hne]; [by rewrite lookup_delete in Hk|].
      rewrite lookup_delete_ne in Hk by done. apply Hi in Hk as (v' & Hv' & Hk').
      exists v'. split; [|done]. rewrite lookup_delete_ne; [done|]. intros ->. congruence.
    + intros (v' & Hv' & Hk'). destruct (decide (o = op)) as [->|Hne]; [by rewrite lookup_delete in Hv'|].
      rewrite lookup_delete_ne in Hv' by done.
      rewrite lookup_delete_ne; [apply Hi; eauto|].
      intros <-. apply Hne. symmetry. eapply idx_ok_inj; eauto.
  - split; simpl.
    + intros o p Hlo. destruct (He1 _ _ Hlo) as (v' & Hv' & Hev). exists v'. split; [|done].
      rewrite lookup_delete_ne; [done|]. intros ->. congruence.
    + intros k p Hk. destruct (He2 _ _ Hk) as (o & v' & Hlo & Hv' & Hkv). exists o, v'.
      split; [done|]. split; [|done]. rewrite lookup_delete_ne; [done|]. intros ->. congruence.
Qed.

Lemma bond_inv_gen s e op v (p : Z) :
  idx_ok s → eng_last s e → vals s !! op = Some v →
  let s' := {| vals := vals s; idx := idx s; last := <[op := p]> (last s) |} in
  idx_ok s' ∧ eng_last s' (<[v_key v := p]> e).
Proof.
  intros Hi (He1 & He2) Hv. simpl. split; [exact Hi|]. split; simpl.
  - intros o q Hlo. destruct (decide (o = op)) as [->|Hne].
    + rewrite lookup_insert in Hlo. simplify_eq. exists v. split; [done|]. by rewrite lookup_insert.
    + rewrite lookup_insert_ne in Hlo by done. destruct (He1 _ _ Hlo) as (v' & Hv' & Hev).
      exists v'. split; [done|]. rewrite lookup_insert_ne; [done|].
      intros Hk. apply Hne. symmetry. eapply idx_ok_inj; eauto.
  - intros k q Hk. destruct (decide (k = v_key v)) as [->|Hne].
    + rewrite lookup_insert in Hk. simplify_eq. exists op, v. by rewrite lookup_insert.
    + rewrite lookup_insert_ne in Hk by done. destruct (He2 _ _ Hk) as (o & v' & Hlo & Hv' & Hkv).
      exists o, v'. split; [|done]. rewrite lookup_insert_ne; [done|]. intros <-. congruence.
Qed.

Lemma bond_inv s e op v :
  idx_ok s → eng_last s e → vals s !! op = Some v →
  let s' := {| vals := vals s; idx := idx s; last := <[op := v_pow v]> (last s) |} in
  idx_ok s' ∧ eng_last s' (<[v_key v := v_pow v]> e).
Proof. apply bond_inv_gen. Qed.

Lemma unbond_inv s e op v :
  idx_ok s → eng_last s e → vals s !! op = Some v →
  let s1 := purge s op in
  let s' := {| vals := vals s1; idx := idx s1; last := delete op (last s1) |} in
  idx_ok s' ∧ eng_last s' (delete (v_key v) e) ∧ vals s' = delete op (vals s) ∧ last s' = delete op (last s).
Proof.
  intros Hi (He1 & He2) Hv. unfold purge. rewrite Hv. simpl.
  split; [|split; [|done]].
  - intros k o. simpl. split.
    + intros Hk. destruct (decide (k = v_key v)) as [->|Hne]; [by rewrite lookup_delete in Hk|].
      rewrite lookup_delete_ne in Hk by done. apply Hi in Hk as (v' & Hv' & Hk').
      exists v'. split; [|done]. rewrite lookup_delete_ne; [done|]. intros ->. congruence.
    + intros (v' & Hv' & Hk'). destruct (decide (o = op)) as [->|Hne]; [by rewrite lookup_delete in Hv'|].
      rewrite lookup_delete_ne in Hv' by done.
      rewrite lookup_delete_ne; [apply Hi; eauto|].
      intros <-. apply Hne. symmetry. eapply idx_ok_inj; eauto.
  - split; simpl.
    + intros o p Hlo. destruct (decide (o = op)) as [->|Hne]; [by rewrite lookup_delete in Hlo|].
      rewrite lookup_delete_ne in Hlo by done. destruct (He1 _ _ Hlo) as (v' & Hv' & Hev).
      exists v'. rewrite lookup_delete_ne by done. split; [done|].
      rewrite lookup_delete_ne; [done|]. intros Hk. apply Hne. symmetry. eapply idx_ok_inj; eauto.
    + intros k p Hk. destruct (decide (k = v_key v)) as [->|Hne]; [by rewrite lookup_delete in Hk|].
      rewrite lookup_delete_ne in Hk by done. destruct (He2 _ _ Hk) as (o & v' & Hlo & Hv' & Hkv).
      assert (o ≠ op) by (intros ->; congruence).
      exists o, v'. rewrite !lookup_delete_ne by done. done.
Qed.

(* ---- pass 1 as a fold with its invariant ---- *)
(* what is known about the updates emitted so far: distinct keys, each the key of a stored
   validator (of the state at the start) that satisfies [S], with that validator's power *)
Definition ups_from (s : vstate) (S : N → val → Prop) (ups : list update) : Prop :=
  NoDup ups.*1 ∧ ∀ u, u ∈ ups → ∃ op v, vals s !! op = Some v ∧ v_key v = u.1 ∧ v_pow v = u.2 ∧ S op v.

Lemma ups_from_snoc s (S S' : N → val → Prop) ups op v :
  idx_ok s → ups_from s S ups → vals s !! op = Some v →
  (∀ o w, vals s !! o = Some w → S o w → S' o w ∧ o ≠ op) → S' op v →
  ups_from s S' (ups ++ [(v_key v, v_pow v)]).
Proof.
  intros Hi (Hnd & Hall) Hv Hmono Hnew. split.
  - rewrite fmap_app. simpl. apply NoDup_app. split; [done|]. split; [|apply NoDup_singleton].
    intros k Hk Hk'. apply elem_of_list_singleton in Hk'. subst k.
    apply elem_of_list_fmap in Hk as (u & Hku & Hu).
    destruct (Hall _ Hu) as (o & w & Hw & Hkw & _ & HS).
    apply (Hmono _ _ Hw) in HS as (_ & Hne). apply Hne. eapply idx_ok_inj; eauto. congruence.
  - intros u Hu. apply elem_of_app in Hu as [Hu|Hu].
    + destruct (Hall _ Hu) as (o & w & Hw & Hkw & Hpw & HS). exists o, w.
      repeat split; try done. by apply (Hmono _ _ Hw).
    + apply elem_of_list_singleton in Hu. subst u. exists op, v. done.
Qed.

Lemma ups_from_weaken s (S S' : N → val → Prop) ups :
  ups_from s S ups → (∀ o w, S o w → S' o w) → ups_from s S' ups.
Proof. intros (Hnd & Hall) Hm. split; [done|]. intros u Hu. destruct (Hall _ Hu) as (o & w & ?&?&?&?). exists o, w. eauto. Qed.

Record pass1_inv (s : vstate) (e : gmap N Z) (pre : list (N * val)) (acc : vstate * list update * gmap N Z) : Prop := {
  p1_idx : idx_ok acc.1.1;
  p1_eng : eng_last acc.1.1 (apply_updates e acc.1.2);
  p1_sub : ∀ op v, vals acc.1.1 !! op = Some v → vals s !! op = Some v;
  p1_unvisited : ∀ op, op ∉ pre.*1 →
      vals acc.1.1 !! op = vals s !! op ∧ last acc.1.1 !! op = last s !! op ∧ acc.2 !! op = last s !! op;
  p1_pos : ∀ op v, (op, v) ∈ pre → (0 < v_pow v)%Z →
      vals acc.1.1 !! op = Some v ∧ last acc.1.1 !! op = Some (v_pow v) ∧ acc.2 !! op = None;
  p1_zero_new : ∀ op v, (op, v) ∈ pre → (v_pow v ≤ 0)%Z → last s !! op = None →
      vals acc.1.1 !! op = None ∧ last acc.1.1 !! op = None ∧ acc.2 !! op = None;
  p1_zero_old : ∀ op v, (op, v) ∈ pre → (v_pow v ≤ 0)%Z → is_Some (last s !! op) →
      vals acc.1.1 !! op = Some v ∧ last acc.1.1 !! op = last s !! op ∧ acc.2 !! op = last s !! op;
  p1_ups : ups_from s (λ op v, (0 < v_pow v)%Z ∧ op ∈ pre.*1) acc.1.2;
}.

Lemma pass1_spec s e :
  mid_inv s e →
  pass1_inv s e (sorted_ops (vals s)) (foldl (pass1_step (last s)) (s, [], last s) (sorted_ops (vals s))).
Proof.
  intros (Hi & He & Hp).
  apply (foldl_prefix_ind (pass1_step (last s)) (pass1_inv s e)).
  - split; simpl; try done.
    + intros op v Hin. by apply elem_of_nil in Hin.
    + intros op v Hin. by apply elem_of_nil in Hin.
    + intros op v Hin. by apply elem_of_nil in Hin.
    + split; [constructor|]. intros u Hu. by apply elem_of_nil in Hu.
  - intros pre [op v] suf [[si ups] rest] Hl [Hidx Heng Hsub Hun Hpos Hzn Hzo Hups]. simpl in *.
    assert (NoDup (pre ++ (op, v) :: suf).*1) as Hnd by (rewrite <- Hl; apply NoDup_fst_sorted_ops).
    rewrite fmap_app, fmap_cons in Hnd. simpl in Hnd.
    apply NoDup_app in Hnd as (Hnd1 & Hnd2 & Hnd3).
    assert (op ∉ pre.*1) as Hfresh.
    { intros Hin. apply (Hnd2 _ Hin). left. }
    assert (vals s !! op = Some v) as Hsv.
    { apply elem_of_sorted_ops. rewrite Hl. apply elem_of_app. right. left. }
    destruct (Hun _ Hfresh) as (Hv_i & Hl_i & Hr_i). rewrite Hsv in Hv_i.
    assert (∀ o, o ∉ (pre ++ [(op, v)]).*1 → o ∉ pre.*1 ∧ o ≠ op) as Hsplit.
    { intros o Ho. rewrite fmap_app in Ho. simpl in Ho. split.
      - intros Hin. apply Ho. apply elem_of_app. by left.
      - intros ->. apply Ho. apply elem_of_app. right. by left. }
    assert (∀ o w, (o, w) ∈ pre ++ [(op, v)] → ((o, w) ∈ pre ∧ o ≠ op) ∨ (o = op ∧ w = v)) as Hcase.
    { intros o w Hin. apply elem_of_app in Hin as [Hin|Hin].
      - left. split; [done|]. intros ->. apply Hfresh. apply elem_of_list_fmap. by exists (op, w).
      - apply elem_of_list_singleton in Hin. simplify_eq. by right. }
    assert (∀ (o : N) (w : val), ((0 < v_pow w)%Z ∧ o ∈ pre.*1) →
              ((0 < v_pow w)%Z ∧ o ∈ (pre ++ [(op, v)]).*1) ∧ o ≠ op) as Hmono.
    { intros o w (? & Hin). split; [split; [done|]|].
      - rewrite fmap_app. apply elem_of_app. by left.
      - intros ->. done. }
    unfold pass1_step.
    case_bool_decide as Hpz.
    + (* power <= 0 *)
      case_bool_decide as Hbonded; simpl.
      * (* was bonded: stays for pass 2 *)
        split; simpl; try done.
        -- intros o Ho. apply Hsplit in Ho as (Ho & _). by apply Hun.
        -- intros o w Hin Hw. destruct (Hcase _ _ Hin) as [(Hin' & _)|(-> & ->)]; [by apply Hpos|lia].
        -- intros o w Hin Hw Hnone. destruct (Hcase _ _ Hin) as [(Hin' & _)|(-> & ->)]; [eapply Hzn; eauto|].
           rewrite Hnone in Hbonded. by destruct Hbonded.
        -- intros o w Hin Hw Hsome. destruct (Hcase _ _ Hin) as [(Hin' & _)|(-> & ->)]; [by apply Hzo|].
           done.
        -- eapply ups_from_weaken; [exact Hups|]. intros o w HS. by apply Hmono.
      * (* never bonded: purged *)
        assert (last s !! op = None) as Hlnone.
        { destruct (last s !! op) eqn:E; [|done]. exfalso. apply Hbonded. eauto. }
        destruct (purge_unbonded_inv si (apply_updates e ups) op v Hidx Heng Hv_i) as (Hidx' & Heng' & Hvals' & Hlast').
        { by rewrite Hl_i. }
        split; simpl; try done.
        -- intros o w. rewrite Hvals'. intros Hd. apply lookup_delete_Some in Hd as (_ & Hd). by apply Hsub.
        -- intros o Ho. apply Hsplit in Ho as (Ho & Hne). rewrite Hvals', Hlast'.
           rewrite lookup_delete_ne by done. by apply Hun.
        -- intros o w Hin Hw. destruct (Hcase _ _ Hin) as [(Hin' & Hne)|(-> & ->)]; [|lia].
           rewrite Hvals', Hlast'. rewrite lookup_delete_ne by done. by apply Hpos.
        -- intros o w Hin Hw Hnone. destruct (Hcase _ _ Hin) as [(Hin' & Hne)|(-> & ->)].
           ++ rewrite Hvals', Hlast'. rewrite lookup_delete_ne by done. eapply Hzn; eauto.
           ++ rewrite Hvals', Hlast'. rewrite lookup_delete. rewrite Hl_i, Hr_i. done.
        -- intros o w Hin Hw Hsome. destruct (Hcase _ _ Hin) as [(Hin' & Hne)|(-> & ->)].
           ++ rewrite Hvals', Hlast'. rewrite lookup_delete_ne by done. by apply Hzo.
           ++ rewrite Hlnone in Hsome. by destruct Hsome.
        -- eapply ups_from_weaken; [exact Hups|]. intros o w HS. by apply Hmono.
    + (* positive power *)
      assert (0 < v_pow v)%Z as Hvpos by lia.
      case_bool_decide as Hsame; simpl.
      * (* unchanged: no update *)
        split; simpl; try done.
        -- intros o Ho. apply Hsplit in Ho as (Ho & Hne). rewrite lookup_delete_ne by done. by apply Hun.
        -- intros o w Hin Hw. destruct (Hcase _ _ Hin) as [(Hin' & Hne)|(-> & ->)].
           ++ rewrite lookup_delete_ne by done. by apply Hpos.
           ++ rewrite lookup_delete. rewrite Hl_i. done.
        -- intros o w Hin Hw Hnone. destruct (Hcase _ _ Hin) as [(Hin' & Hne)|(-> & ->)]; [|lia].
           rewrite lookup_delete_ne by done. eapply Hzn; eauto.
        -- intros o w Hin Hw Hsome. destruct (Hcase _ _ Hin) as [(Hin' & Hne)|(-> & ->)]; [|lia].
           rewrite lookup_delete_ne by done. by apply Hzo.
        -- eapply ups_from_weaken; [exact Hups|]. intros o w HS. by apply Hmono.
      * (* new or changed power: one update, last power recorded *)
        destruct (bond_inv si (apply_updates e ups) op v Hidx Heng Hv_i) as (Hidx' & Heng').
        split; simpl; try done.
        -- rewrite apply_updates_snoc. simpl. rewrite bool_decide_false by lia. done.
        -- intros o Ho. apply Hsplit in Ho as (Ho & Hne). rewrite !lookup_insert_ne, lookup_delete_ne by done. by apply Hun.
        -- intros o w Hin Hw. destruct (Hcase _ _ Hin) as [(Hin' & Hne)|(-> & ->)].
           ++ rewrite lookup_insert_ne, lookup_delete_ne by done. by apply Hpos.
           ++ rewrite lookup_insert, lookup_delete. done.
        -- intros o w Hin Hw Hnone. destruct (Hcase _ _ Hin) as [(Hin' & Hne)|(-> & ->)]; [|lia].
           rewrite lookup_insert_ne, lookup_delete_ne by done. eapply Hzn; eauto.
        -- intros o w Hin Hw Hsome. destruct (Hcase _ _ Hin) as [(Hin' & Hne)|(-> & ->)]; [|lia].
           rewrite lookup_insert_ne, lookup_delete_ne by done. by apply Hzo.
        -- eapply (ups_from_snoc s _ _ ups op v); eauto. split; [done|].
           rewrite fmap_app. apply elem_of_app. right. simpl. by left.
Qed.

(* ---- pass 2 ---- *)
Record pass2_inv (s s1 : vstate) (e : gmap N Z) (pre : list N) (acc : option (vstate * list update)) : Prop := {
  p2_some : is_Some acc;
  p2_idx : ∀ sj ups, acc = Some (sj, ups) → idx_ok sj;
  p2_eng : ∀ sj ups, acc = Some (sj, ups) → eng_last sj (apply_updates e ups);
  p2_unvisited : ∀ sj ups, acc = Some (sj, ups) → ∀ op, op ∉ pre →
      vals sj !! op = vals s1 !! op ∧ last sj !! op = last s1 !! op;
  p2_visited : ∀ sj ups, acc = Some (sj, ups) → ∀ op, op ∈ pre → vals sj !! op = None ∧ last sj !! op = None;
  p2_ups : ∀ sj ups, acc = Some (sj, ups) → ups_from s (λ op v, (0 < v_pow v)%Z ∨ op ∈ pre) ups;
  p2_wf : ∀ sj ups, acc = Some (sj, ups) → ∀ u, u ∈ ups → (0 ≤ u.2)%Z ∧ (u.2 = 0%Z → is_Some (e !! u.1));
}.

(* the result of the end blocker, as a specification *)
Definition end_block_post (s : vstate) (e : gmap N Z) (s' : vstate) (ups : list update) : Prop :=
  blk_inv s' (apply_updates e ups) ∧
  (∀ op v, vals s' !! op = Some v ↔ vals s !! op = Some v ∧ (0 < v_pow v)%Z) ∧
  NoDup ups.*1 ∧
  (∀ u, u ∈ ups → (0 ≤ u.2)%Z ∧ (u.2 = 0%Z → is_Some (e !! u.1))) ∧
  (∀ u, u ∈ ups → ∃ op v, vals s !! op = Some v ∧ v_key v = u.1 ∧ v_pow v = u.2).

Lemma end_block_spec s e :
  mid_inv s e → ∃ s' ups, end_block_updates s = Some (s', ups) ∧ end_block_post s e s' ups.
Proof.
  intros Hmid. pose proof (pass1_spec s e Hmid) as H1.
  destruct Hmid as (Hi & (He1 & He2) & Hp).
  unfold end_block_updates.
  destruct (foldl (pass1_step (last s)) (s, [], last s) (sorted_ops (vals s))) as [[s1 ups1] rest1] eqn:E1.
  destruct H1 as [Hidx1 Heng1 Hsub1 Hun1 Hpos1 Hzn1 Hzo1 Hups1]. simpl in *.
  (* facts about pass 1 with every operator visited *)
  assert (∀ op v, vals s !! op = Some v → (op, v) ∈ sorted_ops (vals s)) as Hvis by (intros; by apply elem_of_sorted_ops).
  assert (∀ op, vals s !! op = None → vals s1 !! op = None ∧ last s1 !! op = None ∧ rest1 !! op = None) as F6.
  { intros op Hn. assert (op ∉ (sorted_ops (vals s)).*1) as Hnv.
    { intros Hin. apply elem_of_list_fmap in Hin as ([o w] & -> & Hin). apply elem_of_sorted_ops in Hin. simpl in Hn. congruence. }
    destruct (Hun1 _ Hnv) as (A & B & C). rewrite Hn in A.
    assert (last s !! op = None) as Hl.
    { destruct (last s !! op) as [p|] eqn:El; [|done]. destruct (He1 _ _ El) as (v & Hv & _). congruence. }
    rewrite Hl in B, C. done. }
  assert (∀ op p, rest1 !! op = Some p →
            ∃ v, vals s !! op = Some v ∧ v_pow v = 0%Z ∧ vals s1 !! op = Some v ∧ last s !! op = Some p ∧ is_Some (e !! v_key v)) as Frest.
  { intros op p Hr. destruct (vals s !! op) as [v|] eqn:Ev.
    2:{ destruct (F6 _ Ev) as (_ & _ & C). congruence. }
    exists v. split; [done|].
    destruct (decide (0 < v_pow v)%Z) as [Hpos|Hnpos].
    { destruct (Hpos1 _ _ (Hvis _ _ Ev) Hpos) as (_ & _ & C). congruence. }
    destruct (last s !! op) as [p0|] eqn:El.
    2:{ destruct (Hzn1 op v (Hvis _ _ Ev)) as (_ & _ & C); [lia|done|]. congruence. }
    destruct (Hzo1 op v (Hvis _ _ Ev)) as (A & B & C); [lia|eauto|].
    rewrite El in C. assert (p0 = p) by congruence. subst p0.
    split; [pose proof (Hp _ _ Ev); lia|]. split; [done|]. split; [done|].
    destruct (He1 _ _ El) as (v' & Hv' & Hev). assert (v' = v) by congruence. subst. eauto. }
  (* pass 2 *)
  set (l2 := (sorted_ops rest1).*1).
  assert (∀ op, op ∈ l2 ↔ is_Some (rest1 !! op)) as Hl2.
  { intros op. unfold l2. split.
    - intros Hin. apply elem_of_list_fmap in Hin as ([o p] & -> & Hin). apply elem_of_sorted_ops in Hin. eauto.
    - intros [p Hr]. apply elem_of_list_fmap. exists (op, p). split; [done|]. by apply elem_of_sorted_ops. }
  assert (NoDup l2) as Hnd2 by apply NoDup_fst_sorted_ops.
  assert (pass2_inv s s1 e l2 (foldl pass2_step (Some (s1, ups1)) l2)) as H2.
  { apply (foldl_prefix_ind pass2_step (pass2_inv s s1 e)).
    - split; try (intros sj ups [= <- <-]); eauto.
      + intros op Hin. by apply elem_of_nil in Hin.
      + eapply ups_from_weaken; [exact Hups1|]. intros o w (? & _). by left.
      + intros u Hu. destruct Hups1 as (_ & Hall). destruct (Hall _ Hu) as (o & w & _ & _ & Hpw & Hpos & _).
        split; [lia|]. intros Hz. lia.
    - intros pre op suf acc Hl [Hsome Hidx Heng Hun Hvisd Hups Hwf].
      destruct Hsome as [[sj ups] ->].
      specialize (Hidx _ _ eq_refl). specialize (Heng _ _ eq_refl). specialize (Hun _ _ eq_refl).
      specialize (Hvisd _ _ eq_refl). specialize (Hups _ _ eq_refl). specialize (Hwf _ _ eq_refl).
      assert (op ∈ l2) as Hop by (rewrite Hl; apply elem_of_app; right; left).
      assert (op ∉ pre) as Hfresh.
      { rewrite Hl in Hnd2. apply NoDup_app in Hnd2 as (_ & Hd & _). intros Hin. apply (Hd _ Hin). left. }
      apply Hl2 in Hop as [p Hr]. destruct (Frest _ _ Hr) as (v & Hsv & Hvz & Hs1v & Hls & Hek).
      destruct (Hun _ Hfresh) as (Hvj & Hlj). rewrite Hs1v in Hvj.
      unfold pass2_step. simpl. rewrite Hvj. simpl.
      rewrite bool_decide_false by lia.
      destruct (unbond_inv sj (apply_updates e ups) op v Hidx Heng Hvj) as (Hidx' & Heng' & Hvals' & Hlast').
      split; try (intros sj' ups' [= <- <-]); eauto.
      + rewrite apply_updates_snoc. simpl. rewrite bool_decide_true by done. exact Heng'.
      + intros o Ho. assert (o ∉ pre ∧ o ≠ op) as (Ho1 & Hne).
        { split; [intros Hin; apply Ho; apply elem_of_app; by left|intros ->; apply Ho; apply elem_of_app; right; by left]. }
        rewrite Hvals', Hlast'. rewrite !lookup_delete_ne by done. by apply Hun.
      + intros o Ho. rewrite Hvals', Hlast'. apply elem_of_app in Ho as [Ho|Ho].
        * assert (o ≠ op) by (intros ->; done). rewrite !lookup_delete_ne by done. by apply Hvisd.
        * apply elem_of_list_singleton in Ho. subst. by rewrite !lookup_delete.
      + eapply (ups_from_snoc s _ _ ups op v); eauto.
        * intros o w Hw [Hpos|Hin]; split.
          -- by left.
          -- intros ->. assert (w = v) as -> by congruence. lia.
          -- right. apply elem_of_app. by left.
          -- intros ->. done.
        * right. apply elem_of_app. right. by left.
      + intros u Hu. apply elem_of_app in Hu as [Hu|Hu]; [by apply Hwf|].
        apply elem_of_list_singleton in Hu. subst u. simpl. rewrite Hvz. split; [lia|]. done. }
  destruct H2 as [[[s' ups] Hacc] Hidx2 Heng2 Hun2 Hvisd2 Hups2 Hwf2].
  rewrite map_fmap. fold l2. rewrite Hacc. exists s', ups. split; [done|].
  specialize (Hidx2 _ _ Hacc). specialize (Heng2 _ _ Hacc). specialize (Hun2 _ _ Hacc).
  specialize (Hvisd2 _ _ Hacc). specialize (Hups2 _ _ Hacc). specialize (Hwf2 _ _ Hacc).
  assert (∀ op v, vals s' !! op = Some v → vals s !! op = Some v ∧ (0 < v_pow v)%Z ∧ last s' !! op = Some (v_pow v)) as Hfin.
  { intros op v Hv'. destruct (decide (op ∈ l2)) as [Hin|Hnin].
    { destruct (Hvisd2 _ Hin) as (A & _). congruence. }
    destruct (Hun2 _ Hnin) as (A & B). rewrite Hv' in A. symmetry in A.
    pose proof (Hsub1 _ _ A) as Hsv. split; [done|].
    destruct (decide (0 < v_pow v)%Z) as [Hpos|Hnpos].
    { destruct (Hpos1 _ _ (Hvis _ _ Hsv) Hpos) as (_ & Hl1 & _). split; [done|]. by rewrite B. }
    exfalso. destruct (last s !! op) as [p0|] eqn:El.
    - destruct (Hzo1 op v (Hvis _ _ Hsv)) as (_ & _ & C); [lia|eauto|].
      apply Hnin. apply Hl2. rewrite C. eauto.
    - destruct (Hzn1 op v (Hvis _ _ Hsv)) as (A' & _); [lia|done|]. congruence. }
  split; [|split; [|split; [|split]]].
  - split; [split; [done|split; [done|]]|].
    + intros op v Hv'. destruct (Hfin _ _ Hv') as (_ & ? & _). lia.
    + intros op v Hv'. destruct (Hfin _ _ Hv') as (_ & ? & ?). done.
  - intros op v. split.
    + intros Hv'. destruct (Hfin _ _ Hv') as (? & ? & _). done.
    + intros (Hsv & Hpos). destruct (Hpos1 _ _ (Hvis _ _ Hsv) Hpos) as (A & _ & C).
      assert (op ∉ l2) as Hnin. { intros Hin. apply Hl2 in Hin as [p Hp']. congruence. }
      destruct (Hun2 _ Hnin) as (A' & _). congruence.
  - apply Hups2.
  - exact Hwf2.
  - intros u Hu. destruct Hups2 as (_ & Hall). destruct (Hall _ Hu) as (o & w & ? & ? & ? & _). eauto.
Qed.
