(* Inversion ("handler = Some (s', r) <-> guards /\ exact s'") and frame lemmas for the part of
   the L1 machine that C11 and C05 talk about: output log, its counters, configs. *)
From stdpp Require Import gmap numbers list.
From Coq Require Import ZArith Lia.
Require Import Model.Bytes Model.Bank Model.Hashes Model.L1 Model.L1OutSpec.

(* ---- step / run plumbing ---- *)
Lemma step_Ok c e s m s' r : step c e s m = (s', Ok r) ↔ handle c e s m = Some (s', r).
Proof. unfold step. destruct (handle c e s m) as [[s1 r1]|]; split; intros; simplify_eq; done. Qed.
Lemma step_Err c e s m s' : step c e s m = (s', Err) ↔ handle c e s m = None ∧ s' = s.
Proof. unfold step. destruct (handle c e s m) as [[s1 r1]|]; split; intros; destruct_and?; simplify_eq; done. Qed.
Lemma step_err_unchanged c e s m s' : step c e s m = (s', Err) → s' = s.
Proof. by intros [_ ?]%step_Err. Qed.

Lemma run_cons c s e m h :
  run c s ((e, m) :: h) = ((run c (step c e s m).1 h).1, (step c e s m).2 :: (run c (step c e s m).1 h).2).
Proof. cbn [run]. destruct (step c e s m) as [s1 r]. cbn. destruct (run c s1 h); done. Qed.
Lemma run_app c s h1 h2 :
  (run c s (h1 ++ h2)).1 = (run c (run c s h1).1 h2).1.
Proof.
  revert s; induction h1 as [|[e m] h1 IH]; intros s; [done|].
  rewrite <- app_comm_cons, !run_cons. cbn. apply IH.
Qed.

(* ---- the size test of delete_output ---- *)
Definition range_set (b lo hi : N) : gset (N * N) :=
  list_to_set ((λ k : nat, (b, (lo + N.of_nat k)%N)) <$> seq 0 (N.to_nat (hi - lo))).

Lemma elem_of_range_set b lo hi k : k ∈ range_set b lo hi ↔ in_range b lo hi k.
Proof.
  unfold range_set, in_range. rewrite elem_of_list_to_set, elem_of_list_fmap. split.
  - intros (n & -> & Hn). apply elem_of_seq in Hn. cbn. lia.
  - destruct k as [b' i]. cbn. intros (-> & H1 & H2). exists (N.to_nat (i - lo)). split.
    + f_equal. lia.
    + apply elem_of_seq. lia.
Qed.
Lemma size_range_set b lo hi : size (range_set b lo hi) = N.to_nat (hi - lo).
Proof.
  unfold range_set. rewrite size_list_to_set.
  - by rewrite fmap_length, seq_length.
  - apply NoDup_fmap_2; [|apply NoDup_seq]. intros x y [= ?]. lia.
Qed.

Lemma range_filter_full {A} (m : gmap (N * N) A) b lo hi :
  (lo ≤ hi)%N →
  N.of_nat (size (filter (λ kv, in_range b lo hi kv.1) m)) = (hi - lo)%N ↔
  ∀ i, (lo ≤ i ∧ i < hi)%N → is_Some (m !! (b, i)).
Proof.
  intros Hle. set (f := filter (λ kv, in_range b lo hi kv.1) m).
  assert (Hsub : dom f ⊆ range_set b lo hi).
  { intros k [x Hk]%elem_of_dom. apply map_filter_lookup_Some in Hk as [_ Hk]. by apply elem_of_range_set. }
  rewrite <- (size_dom (D := gset (N * N))). split.
  - intros Hsz i Hi.
    destruct (decide (range_set b lo hi ⊆ dom f)) as [Hsup|Hn].
    + assert (Hin : (b, i) ∈ dom f) by (apply Hsup, elem_of_range_set; unfold in_range; cbn; lia).
      apply elem_of_dom in Hin as [x Hx]. apply map_filter_lookup_Some in Hx as [Hx _]. eauto.
    + exfalso. assert (Hlt : size (dom f) < size (range_set b lo hi)) by (apply subset_size; split; done).
      rewrite size_range_set in Hlt. lia.
  - intros Hall. assert (Heq : dom f ≡ range_set b lo hi).
    { apply set_equiv_subseteq. split; [done|]. intros [b' i] Hk%elem_of_range_set.
      destruct Hk as (Hb & H1 & H2). cbn in *. subst b'. destruct (Hall i) as [x Hx]; [lia|].
      apply elem_of_dom. exists x. apply map_filter_lookup_Some. split; [done|]. unfold in_range; cbn; lia. }
    rewrite Heq, size_range_set. lia.
Qed.

(* ---- propose ---- *)
Lemma propose_Some c e s p b idx l2 root s' r :
  propose c e s p b idx l2 root = Some (s', r) ↔
  propose_guard c s p b idx l2 root ∧ r = RNone ∧ s' = propose_post e s b idx l2 root.
Proof.
  unfold propose, propose_guard, propose_post, new_output. split.
  - destruct (valid_addr c p) eqn:Hv; cbn [negb]; [|done].
    destruct (b =? 0)%N eqn:Hb; [done|]. apply N.eqb_neq in Hb.
    destruct (length root =? 32)%nat eqn:Hl; cbn [negb]; [|done]. apply Nat.eqb_eq in Hl.
    destruct (configs s !! b) as [x|] eqn:Hx; cbn [mbind option_bind]; [|done].
    case_bool_decide as Hp; cbn [negb]; [|done].
    destruct (idx =? out_of s b)%N eqn:Hi; cbn [negb]; [|done]. apply N.eqb_eq in Hi. subst idx.
    destruct (out_of s b =? 1)%N eqn:H1.
    + cbn [negb]. intros [= <- <-]. apply N.eqb_eq in H1. eauto 12.
    + destruct (outputs s !! (b, (out_of s b - 1)%N)) as [o|] eqn:Ho; [|done].
      destruct (o_l2 o <? l2)%N eqn:Hlt; cbn [negb]; [|done]. apply N.ltb_lt in Hlt.
      intros [= <- <-]. eauto 15.
  - intros ((Hv & Hb & Hl & x & Hx & Hp & Hi & Hprev) & -> & ->).
    rewrite Hv. cbn [negb]. apply N.eqb_neq in Hb. rewrite Hb. apply Nat.eqb_eq in Hl. rewrite Hl. cbn [negb].
    rewrite Hx. cbn [mbind option_bind]. rewrite bool_decide_true by done. cbn [negb].
    subst idx. rewrite N.eqb_refl. cbn [negb].
    destruct Hprev as [H1|(o & Ho & Hlt)].
    + rewrite H1. done.
    + destruct (out_of s b =? 1)%N; [done|]. rewrite Ho. apply N.ltb_lt in Hlt. rewrite Hlt. done.
Qed.

(* ---- delete ---- *)
Lemma delete_Some c e s ch b idx s' r :
  delete_output c e s ch b idx = Some (s', r) ↔
  delete_guard c e s ch b idx ∧ r = RNone ∧ s' = delete_post s b idx.
Proof.
  unfold delete_output, delete_guard, delete_post, may_delete. split.
  - destruct (valid_addr c ch) eqn:Hv; cbn [negb]; [|done].
    destruct (b =? 0)%N eqn:Hb; [done|]. apply N.eqb_neq in Hb.
    destruct (idx =? 0)%N eqn:Hi0; [done|]. apply N.eqb_neq in Hi0.
    destruct (configs s !! b) as [x|] eqn:Hx; cbn [mbind option_bind]; [|done].
    destruct (bool_decide (gov c = ch) || bool_decide (c_proposer x = ch) || bool_decide (c_challenger x = ch)) eqn:Hau;
      cbn [negb]; [|done].
    destruct (idx <? out_of s b)%N eqn:Hlt; cbn [negb]; [|done]. apply N.ltb_lt in Hlt.
    destruct (N.of_nat (size (filter (λ kv, in_range b idx (out_of s b) kv.1) (outputs s))) =? out_of s b - idx)%N eqn:Hsz;
      cbn [negb]; [|done]. apply N.eqb_eq in Hsz.
    match goal with |- context [bool_decide (map_Forall ?P ?m)] => destruct (bool_decide (map_Forall P m)) eqn:Hnf end;
      cbn [negb]; [|done]. apply bool_decide_eq_true in Hnf.
    intros [= <- <-]. split; [|done]. split; [done|]. split; [done|]. split; [done|].
    exists x. split; [done|]. split.
    { apply orb_true_iff in Hau as [Hau|Hau]; [apply orb_true_iff in Hau as [Hau|Hau]|];
        apply bool_decide_eq_true in Hau; auto. }
    split; [done|]. intros i Hi.
    pose proof (proj1 (range_filter_full (outputs s) b idx (out_of s b) ltac:(lia)) Hsz) as Hall.
    destruct (Hall i Hi) as [o Ho]. exists o. split; [done|].
    apply (Hnf (b, i)). apply map_filter_lookup_Some. split; [done|]. unfold in_range; cbn; lia.
  - intros ((Hv & Hb & Hi0 & x & Hx & Hau & Hlt & Hall) & -> & ->).
    rewrite Hv. cbn [negb]. apply N.eqb_neq in Hb, Hi0. rewrite Hb, Hi0, Hx. cbn [mbind option_bind].
    assert (Hau' : bool_decide (gov c = ch) || bool_decide (c_proposer x = ch) || bool_decide (c_challenger x = ch) = true).
    { destruct Hau as [H|[H|H]]; rewrite (bool_decide_true _ H); rewrite ?orb_true_r; done. }
    rewrite Hau'. cbn [negb]. apply N.ltb_lt in Hlt. rewrite Hlt. cbn [negb]. apply N.ltb_lt in Hlt.
    assert (Hsz : N.of_nat (size (filter (λ kv, in_range b idx (out_of s b) kv.1) (outputs s))) = (out_of s b - idx)%N).
    { apply (range_filter_full (outputs s) b idx (out_of s b)); [lia|]. intros i Hi. destruct (Hall i Hi) as (o & Ho & _). eauto. }
    rewrite Hsz, N.eqb_refl. cbn [negb].
    rewrite bool_decide_true; [done|].
    intros [b' i] o [Ho (Hb' & H1 & H2)]%map_filter_lookup_Some. cbn in *. subst b'.
    destruct (Hall i) as (o' & Ho' & Hf); [lia|]. by simplify_eq.
Qed.

(* what the state after a delete looks like, pointwise *)
Lemma delete_post_lookup s b idx k :
  outputs (delete_post s b idx) !! k =
  if decide (in_range b idx (out_of s b) k) then None else outputs s !! k.
Proof.
  unfold delete_post. cbn. destruct (decide _) as [Hin|Hin].
  - apply map_filter_lookup_None. right. intros o _ Hn. by apply Hn.
  - destruct (outputs s !! k) as [o|] eqn:Ho.
    + apply map_filter_lookup_Some. done.
    + apply map_filter_lookup_None. by left.
Qed.
Lemma delete_post_out s b idx b' :
  out_of (delete_post s b idx) b' = if decide (b' = b) then idx else out_of s b'.
Proof.
  unfold out_of at 1, delete_post. cbn. destruct (decide (b' = b)) as [->|Hb].
  - by rewrite lookup_insert.
  - by rewrite lookup_insert_ne.
Qed.
Lemma delete_post_rest s b idx : same_rest s (delete_post s b idx).
Proof. repeat split. Qed.

Lemma propose_post_lookup e s b idx l2 root k :
  outputs (propose_post e s b idx l2 root) !! k =
  if decide (k = (b, idx)) then Some (new_output e root l2) else outputs s !! k.
Proof.
  unfold propose_post. cbn. destruct (decide _) as [->|Hk].
  - by rewrite lookup_insert.
  - by rewrite lookup_insert_ne.
Qed.
Lemma propose_post_out e s b idx l2 root b' :
  out_of (propose_post e s b idx l2 root) b' = if decide (b' = b) then (idx + 1)%N else out_of s b'.
Proof.
  unfold out_of at 1, propose_post. cbn. destruct (decide (b' = b)) as [->|Hb].
  - by rewrite lookup_insert.
  - by rewrite lookup_insert_ne.
Qed.
Lemma propose_post_rest e s b idx l2 root : same_rest s (propose_post e s b idx l2 root).
Proof. repeat split. Qed.

(* ---- frames of the other handlers ---- *)
(* "core": the components C11/C05 speak about *)
Definition same_core (s s' : l1state) : Prop :=
  outputs s' = outputs s ∧ next_out s' = next_out s ∧ configs s' = configs s ∧ next_bridge s' = next_bridge s.
Lemma same_core_refl s : same_core s s.
Proof. done. Qed.
Lemma same_core_trans s1 s2 s3 : same_core s1 s2 → same_core s2 s3 → same_core s1 s3.
Proof. unfold same_core. intros (-> & -> & -> & ->) (-> & -> & -> & ->). done. Qed.

Lemma register_admin_core s pc a s' : register_admin s pc a = Some s' → same_core s s'.
Proof.
  unfold register_admin. destruct (chans s !! pc) as [n|]; cbn [mbind option_bind]; [|done].
  repeat case_match; try done. intros [= <-]. done.
Qed.

Lemma foldl_none {A B} (f : option A → B → option A) l :
  (∀ x, f None x = None) → foldl f None l = None.
Proof. intros Hf. induction l as [|x l IH]; [done|]. cbn. by rewrite Hf. Qed.

Lemma hook_created_core c s x s' : hook_created c s x = Some s' → same_core s s'.
Proof.
  unfold hook_created. destruct (parse c (c_meta x)) as [chs|]; [|by intros [= <-]].
  destruct (resolve c (c_challenger x)) as [a|]; cbn [mbind option_bind]; [|done].
  revert s. induction chs as [|pc chs IH]; intros s; cbn [foldl].
  - by intros [= <-].
  - cbn [mbind option_bind]. destruct (register_admin s pc a) as [s1|] eqn:E.
    + intros HH. apply IH in HH. apply register_admin_core in E. by eapply same_core_trans.
    + rewrite foldl_none; [done|]. done.
Qed.

Lemma hook_challenger_core c s x s' : hook_challenger c s x = Some s' → same_core s s'.
Proof.
  unfold hook_challenger. destruct (parse c (c_meta x)) as [chs|]; [|by intros [= <-]].
  destruct (resolve c (c_challenger x)) as [a|]; cbn [mbind option_bind]; [|done].
  intros [= <-]. revert s. induction chs as [|pc chs IH]; intros s; cbn [foldl]; [done|].
  eapply same_core_trans; [|apply IH]. done.
Qed.

Lemma hook_metadata_core c s x s' : hook_metadata c s x = Some s' → same_core s s'.
Proof.
  unfold hook_metadata. destruct (parse c (c_meta x)) as [chs|]; [|by intros [= <-]].
  destruct (resolve c (c_challenger x)) as [a|]; cbn [mbind option_bind]; [|done].
  revert s. induction chs as [|pc chs IH]; intros s; cbn [foldl].
  - by intros [= <-].
  - cbn [mbind option_bind]. case_bool_decide.
    + apply IH.
    + destruct (register_admin s pc a) as [s1|] eqn:E.
      * intros HH. apply IH in HH. apply register_admin_core in E. by eapply same_core_trans.
      * rewrite foldl_none; [done|]. done.
Qed.

(* how a successful message other than propose / delete acts on the core *)
Definition cfg_step (c : cfg) (s s' : l1state) : Prop :=
  outputs s' = outputs s ∧ next_out s' = next_out s ∧
  ((configs s' = configs s ∧ next_bridge s' = next_bridge s) ∨
   (∃ x, config_valid c x = true ∧ configs s' = <[next_bridge s := x]> (configs s) ∧
         next_bridge s' = (next_bridge s + 1)%N) ∨
   (∃ b x x', configs s !! b = Some x ∧ c_period x' = c_period x ∧ config_valid c x' = true ∧
              configs s' = <[b := x']> (configs s) ∧ next_bridge s' = next_bridge s)).

Lemma cfg_step_same c s s' : same_core s s' → cfg_step c s s'.
Proof. intros (? & ? & ? & ?). split; [done|]. split; [done|]. by left. Qed.

Lemma create_bridge_cfg c e s creator x s' r :
  create_bridge c e s creator x = Some (s', r) → cfg_step c s s'.
Proof.
  unfold create_bridge. destruct (resolve c creator) as [cr|]; cbn [mbind option_bind]; [|done].
  destruct (config_valid c x) eqn:Hv; cbn [negb]; [|done].
  case_match; [done|].
  match goal with |- context [foldl ?f ?a ?l] => destruct (foldl f a l) as [b1|] end; cbn [mbind option_bind]; [|done].
  match goal with |- context [hook_created c ?s2 x] => destruct (hook_created c s2 x) as [s3|] eqn:Hh end;
    cbn [mbind option_bind]; [|done].
  intros [= <- <-]. destruct (hook_created_core _ _ _ _ Hh) as (Ho & Hn & Hc & Hb). cbn in *.
  split; [done|]. split; [done|]. right. left. exists x. done.
Qed.

Lemma deposit_core c e s sender b to d amt data s' r :
  deposit c e s sender b to d amt data = Some (s', r) → same_core s s'.
Proof.
  unfold deposit. destruct (resolve c sender) as [sd|]; cbn [mbind option_bind]; [|done].
  case_bool_decide; [done|]. case_match; [done|]. case_match; [done|].
  destruct (configs s !! b) as [x|]; cbn [mbind option_bind]; [|done].
  match goal with |- context [if ?g then bank_send ?a1 ?a2 ?a3 ?a4 ?a5 else ?z] =>
    destruct (if g then bank_send a1 a2 a3 a4 a5 else z) as [b1|] end; cbn [mbind option_bind]; [|done].
  intros [= <- <-]. done.
Qed.

Lemma finalize_core c e s sender b idx sq proofs from to d amt v sr bh s' r :
  finalize c e s sender b idx sq proofs from to d amt v sr bh = Some (s', r) → same_core s s'.
Proof.
  unfold finalize. case_match; [done|].
  destruct (resolve c to) as [rcv|]; cbn [mbind option_bind]; [|done].
  destruct (outputs s !! (b, idx)) as [o|]; cbn [mbind option_bind]; [|done].
  destruct (configs s !! b) as [x|]; cbn [mbind option_bind]; [|done].
  repeat (case_match; try done).
  destruct (bank_send (bk s) (escrow c b) rcv d amt) as [b1|]; cbn [mbind option_bind]; [|done]. intros [= <- <-]; done.
Qed.

(* ---- config updates ---- *)
Lemma last_final_outputs s s' e b x : outputs s' = outputs s → last_final s' e b x = last_final s e b x.
Proof. unfold last_final. by intros ->. Qed.
Lemma final_resp_outputs s s' e b x : outputs s' = outputs s → final_resp s' e b x = final_resp s e b x.
Proof. unfold final_resp. by intros ->%(last_final_outputs _ _ e b x). Qed.

(* the answer of a config update: either nothing or the last finalized output of the bridge in
   the state after the update *)
Definition upd_answer (e : env) (s' : l1state) (b : N) (r : resp) : Prop :=
  r = RNone ∨ ∃ x', configs s' !! b = Some x' ∧ r = final_resp s' e b x'.

Ltac cfg_step_update b x x' :=
  split; [done|]; split; [done|]; right; right; exists b, x, x'; cbn; split_and!; done.

Lemma update_proposer_cfg c e s auth b p s' r :
  update_proposer c e s auth b p = Some (s', r) → cfg_step c s s' ∧ upd_answer e s' b r.
Proof.
  unfold update_proposer. do 3 (case_match; [done|]).
  destruct (configs s !! b) as [x|] eqn:Hx; cbn [mbind option_bind]; [|done].
  case_match; [done|].
  match goal with |- context [config_valid c ?y] => set (x' := y); destruct (config_valid c x') eqn:Hv end;
    cbn [negb]; [|done].
  intros [= <- <-]. split.
  - cfg_step_update b x x'.
  - right. exists x'. cbn. by rewrite lookup_insert.
Qed.

Lemma update_challenger_cfg c e s auth b p s' r :
  update_challenger c e s auth b p = Some (s', r) → cfg_step c s s' ∧ upd_answer e s' b r.
Proof.
  unfold update_challenger. do 3 (case_match; [done|]).
  destruct (configs s !! b) as [x|] eqn:Hx; cbn [mbind option_bind]; [|done].
  case_match; [done|].
  match goal with |- context [hook_challenger c s ?y] => set (x' := y); destruct (hook_challenger c s x') as [s1|] eqn:Hh end;
    cbn [mbind option_bind]; [|done].
  destruct (config_valid c x') eqn:Hv; cbn [negb]; [|done].
  intros [= <- <-]. destruct (hook_challenger_core _ _ _ _ Hh) as (Ho & Hn & Hc & Hb). split.
  - split; [done|]. split; [done|]. right; right. exists b, x, x'. cbn. rewrite Hc. done.
  - right. exists x'. cbn. by rewrite lookup_insert.
Qed.

Lemma update_metadata_cfg c e s auth b md s' r :
  update_metadata c e s auth b md = Some (s', r) → cfg_step c s s' ∧ upd_answer e s' b r.
Proof.
  unfold update_metadata. do 3 (case_match; [done|]).
  destruct (configs s !! b) as [x|] eqn:Hx; cbn [mbind option_bind]; [|done].
  case_match; [done|].
  match goal with |- context [hook_metadata c s ?y] => set (x' := y); destruct (hook_metadata c s x') as [s1|] eqn:Hh end;
    cbn [mbind option_bind]; [|done].
  destruct (config_valid c x') eqn:Hv; cbn [negb]; [|done].
  intros [= <- <-]. destruct (hook_metadata_core _ _ _ _ Hh) as (Ho & Hn & Hc & Hb). split.
  - split; [done|]. split; [done|]. right; right. exists b, x, x'. cbn. rewrite Hc. done.
  - right. exists x'. cbn. by rewrite lookup_insert.
Qed.

Lemma update_batch_info_cfg c e s auth b bi s' r :
  update_batch_info c e s auth b bi = Some (s', r) → cfg_step c s s' ∧ upd_answer e s' b r.
Proof.
  unfold update_batch_info. do 3 (case_match; [done|]).
  destruct (configs s !! b) as [x|] eqn:Hx; cbn [mbind option_bind]; [|done].
  case_match; [done|].
  match goal with |- context [config_valid c ?y] => set (x' := y); destruct (config_valid c x') eqn:Hv end;
    cbn [negb]; [|done].
  destruct (last_final _ e b x') as [i o] eqn:Hlf.
  intros [= <- <-]. split.
  - cfg_step_update b x x'.
  - right. exists x'. cbn. rewrite lookup_insert. split; [done|].
    unfold final_resp. erewrite last_final_outputs; [rewrite Hlf; done|done].
Qed.

Lemma update_oracle_cfg c e s auth b f s' r :
  update_oracle c e s auth b f = Some (s', r) → cfg_step c s s' ∧ upd_answer e s' b r.
Proof.
  unfold update_oracle. do 2 (case_match; [done|]).
  destruct (configs s !! b) as [x|] eqn:Hx; cbn [mbind option_bind]; [|done].
  case_match; [done|].
  match goal with |- context [config_valid c ?y] => set (x' := y); destruct (config_valid c x') eqn:Hv end;
    cbn [negb]; [|done].
  intros [= <- <-]. split; [|by left]. cfg_step_update b x x'.
Qed.

Lemma update_params_core c s auth fee s' r : update_params c s auth fee = Some (s', r) → same_core s s'.
Proof. unfold update_params. repeat (case_match; try done). by intros [= <- <-]. Qed.
Lemma record_batch_core c s sub b data s' r : record_batch c s sub b data = Some (s', r) → same_core s s'.
Proof. unfold record_batch. repeat (case_match; try done). by intros [= <- <-]. Qed.
Lemma bank_send_msg_core s from to d amt s' r : bank_send_msg s from to d amt = Some (s', r) → same_core s s'.
Proof.
  unfold bank_send_msg. case_match; [done|].
  destruct (bank_send (bk s) from to d amt); cbn [mbind option_bind]; [|done]. by intros [= <- <-].
Qed.

Definition out_msg (m : msg) : Prop :=
  match m with MPropose _ _ _ _ _ | MDelete _ _ _ => True | _ => False end.

(* every successful message except propose / delete leaves the log alone and acts on the
   configs in one of three ways *)
Lemma handle_cfg_step c e s m s' r :
  handle c e s m = Some (s', r) → ¬ out_msg m → cfg_step c s s'.
Proof.
  destruct m; cbn [handle out_msg]; intros H Hm; try (exfalso; by apply Hm).
  - by eapply create_bridge_cfg.
  - by eapply cfg_step_same, deposit_core.
  - by eapply cfg_step_same, finalize_core.
  - by eapply update_proposer_cfg.
  - by eapply update_challenger_cfg.
  - by eapply update_batch_info_cfg.
  - by eapply update_oracle_cfg.
  - by eapply update_metadata_cfg.
  - by eapply cfg_step_same, update_params_core.
  - by eapply cfg_step_same, record_batch_core.
  - by eapply cfg_step_same, bank_send_msg_core.
  - injection H as <- <-. by apply cfg_step_same.
  - injection H as <- <-. by apply cfg_step_same.
Qed.

Lemma handle_out_msg c e s m s' r :
  handle c e s m = Some (s', r) → out_msg m → same_rest s s'.
Proof.
  destruct m; cbn [handle out_msg]; intros H Hm; try done.
  - apply propose_Some in H as (_ & _ & ->). apply propose_post_rest.
  - apply delete_Some in H as (_ & _ & ->). apply delete_post_rest.
Qed.

Lemma out_msg_dec m : {out_msg m} + {¬ out_msg m}.
Proof. destruct m; cbn; auto. Qed.

(* ---- configs: positivity and immutability of the period ---- *)
Lemma config_valid_period c x : config_valid c x = true → (0 < c_period x)%Z.
Proof. unfold config_valid. rewrite !andb_true_iff. intros [[[_ H] _] _]. by apply Z.ltb_lt. Qed.

Lemma cfg_step_cfg_ok c s s' : cfg_step c s s' → cfg_ok s → cfg_ok s'.
Proof.
  intros (_ & _ & [(Hc & Hb)|[(x & Hv & Hc & Hb)|(b & x & x' & Hx & Hp & Hv & Hc & Hb)]]) Hok b' y;
    rewrite Hc, Hb.
  - apply Hok.
  - destruct (decide (b' = next_bridge s)) as [->|Hne].
    + rewrite lookup_insert. intros [= <-]. split; [lia|]. by eapply config_valid_period.
    + rewrite lookup_insert_ne by done. intros Hy. destruct (Hok _ _ Hy). split; [lia|done].
  - destruct (decide (b' = b)) as [->|Hne].
    + rewrite lookup_insert. intros [= <-]. destruct (Hok _ _ Hx). split; [done|]. by eapply config_valid_period.
    + rewrite lookup_insert_ne by done. apply Hok.
Qed.

Lemma cfg_step_period c s s' b x :
  cfg_step c s s' → cfg_ok s → configs s !! b = Some x →
  ∃ x', configs s' !! b = Some x' ∧ c_period x' = c_period x.
Proof.
  intros (_ & _ & [(Hc & Hb)|[(y & Hv & Hc & Hb)|(b0 & y & y' & Hy & Hp & Hv & Hc & Hb)]]) Hok Hx; rewrite Hc.
  - eauto.
  - destruct (Hok _ _ Hx) as [Hlt _]. rewrite lookup_insert_ne by lia. eauto.
  - destruct (decide (b = b0)) as [->|Hne].
    + rewrite lookup_insert. simplify_eq. eauto.
    + rewrite lookup_insert_ne by done. eauto.
Qed.

Lemma handle_cfg_ok c e s m s' r : handle c e s m = Some (s', r) → cfg_ok s → cfg_ok s'.
Proof.
  intros H Hok. destruct (out_msg_dec m) as [Hm|Hm].
  - destruct (handle_out_msg _ _ _ _ _ _ H Hm) as (_ & Hb & Hc & _). unfold cfg_ok. by rewrite Hb, Hc.
  - eapply cfg_step_cfg_ok; [|done]. by eapply handle_cfg_step.
Qed.

Lemma handle_period c e s m s' r b x :
  handle c e s m = Some (s', r) → cfg_ok s → configs s !! b = Some x →
  ∃ x', configs s' !! b = Some x' ∧ c_period x' = c_period x.
Proof.
  intros H Hok Hx. destruct (out_msg_dec m) as [Hm|Hm].
  - destruct (handle_out_msg _ _ _ _ _ _ H Hm) as (_ & _ & Hc & _). rewrite Hc. eauto.
  - eapply cfg_step_period; [|done..]. by eapply handle_cfg_step.
Qed.

(* ---- the log invariant ---- *)
Lemma log_ok_ext s s' b : outputs s' = outputs s → next_out s' = next_out s → log_ok s b → log_ok s' b.
Proof. unfold log_ok, out_of. by intros -> ->. Qed.
Lemma times_le_ext s s' t : outputs s' = outputs s → times_le s t → times_le s' t.
Proof. unfold times_le. by intros ->. Qed.
Lemma times_le_mono s t t' : (t ≤ t')%Z → times_le s t → times_le s t'.
Proof. intros Hle H k o Ho. specialize (H k o Ho). lia. Qed.

Lemma log_ok_stored s b i o : log_ok s b → outputs s !! (b, i) = Some o → (1 ≤ i ∧ i < out_of s b)%N.
Proof. intros (_ & Hd & _) Ho. apply Hd. eauto. Qed.
Lemma log_ok_lookup s b i : log_ok s b → (1 ≤ i ∧ i < out_of s b)%N → ∃ o, outputs s !! (b, i) = Some o.
Proof. intros (_ & Hd & _) Hi. by apply Hd in Hi as [o Ho]; eauto. Qed.

Lemma propose_log_ok c e s p b idx l2 root t b' :
  propose_guard c s p b idx l2 root → (∀ b, log_ok s b) → times_le s t → (t ≤ now e)%Z →
  log_ok (propose_post e s b idx l2 root) b'.
Proof.
  intros (_ & _ & _ & x & _ & _ & -> & Hprev) Hall Ht Hle.
  pose proof (Hall b') as Hok. destruct Hok as (H1 & Hd & Hord).
  unfold log_ok. rewrite propose_post_out. setoid_rewrite propose_post_lookup.
  destruct (decide (b' = b)) as [->|Hb].
  - split; [lia|]. split.
    + intros i. destruct (decide ((b, i) = (b, out_of s b))) as [[= ->]|Hne].
      * split; [intros _; lia|eauto].
      * rewrite Hd. assert (i ≠ out_of s b) by congruence. lia.
    + intros i j oi oj.
      destruct (decide ((b, i) = (b, out_of s b))) as [[= ->]|Hni];
      destruct (decide ((b, j) = (b, out_of s b))) as [[= ->]|Hnj]; intros Hi Hj Hlt.
      * lia.
      * apply (log_ok_stored _ _ _ _ (Hall b)) in Hj. lia.
      * injection Hj as <-. cbn. pose proof (log_ok_stored _ _ _ _ (Hall b) Hi) as Hir.
        split; [|specialize (Ht _ _ Hi); lia].
        destruct Hprev as [Hone|(o & Ho & Hol)]; [lia|].
        destruct (decide (i = (out_of s b - 1)%N)) as [->|Hne]; [by simplify_eq|].
        destruct (Hord i (out_of s b - 1)%N oi o Hi Ho) as [Hl _]; lia.
      * by eapply Hord.
  - split; [done|]. split.
    + intros i. rewrite decide_False by congruence. apply Hd.
    + intros i j oi oj. rewrite !decide_False by congruence. apply Hord.
Qed.

Lemma propose_times_le e s b idx l2 root t :
  times_le s t → (t ≤ now e)%Z → times_le (propose_post e s b idx l2 root) (now e).
Proof.
  intros Ht Hle k o. rewrite propose_post_lookup. destruct (decide _).
  - intros [= <-]. cbn. lia.
  - intros Ho. specialize (Ht _ _ Ho). lia.
Qed.

Lemma delete_log_ok s b idx b' :
  (1 ≤ idx ∧ idx < out_of s b)%N → log_ok s b' → log_ok (delete_post s b idx) b'.
Proof.
  intros Hi (H1 & Hd & Hord). unfold log_ok. rewrite delete_post_out. setoid_rewrite delete_post_lookup.
  unfold in_range. cbn [fst snd].
  destruct (decide (b' = b)) as [->|Hb].
  - split; [lia|]. split.
    + intros i. destruct (decide _) as [Hin|Hin].
      * split; [by intros []|lia].
      * rewrite Hd. lia.
    + intros i j oi oj. repeat destruct (decide _); try done. apply Hord.
  - split; [done|]. split.
    + intros i. rewrite decide_False by tauto. apply Hd.
    + intros i j oi oj. rewrite !decide_False by tauto. apply Hord.
Qed.

Lemma delete_times_le s b idx t : times_le s t → times_le (delete_post s b idx) t.
Proof. intros Ht k o. rewrite delete_post_lookup. destruct (decide _); [done|]. apply Ht. Qed.

Lemma delete_guard_range c e s ch b idx : delete_guard c e s ch b idx → (1 ≤ idx ∧ idx < out_of s b)%N.
Proof. intros (_ & _ & H0 & x & _ & _ & Hlt & _). lia. Qed.

Lemma handle_l1inv c e s m s' r t :
  handle c e s m = Some (s', r) → l1inv s t → (t ≤ now e)%Z → l1inv s' (now e).
Proof.
  intros H (Hcfg & Hlog & Ht) Hle. split; [by eapply handle_cfg_ok|].
  destruct (out_msg_dec m) as [Hm|Hm].
  - destruct m; try done; cbn [handle] in H.
    + apply propose_Some in H as (Hg & _ & ->). split.
      * intros b'. by eapply propose_log_ok.
      * by eapply propose_times_le.
    + apply delete_Some in H as (Hg & _ & ->). split.
      * intros b'. apply delete_log_ok; [by eapply delete_guard_range|done].
      * apply delete_times_le. by eapply times_le_mono.
  - destruct (handle_cfg_step _ _ _ _ _ _ H Hm) as (Ho & Hn & _). split.
    + intros b'. by eapply log_ok_ext.
    + eapply times_le_ext; [done|]. by eapply times_le_mono.
Qed.

Lemma step_l1inv c e s m s' r t :
  step c e s m = (s', r) → l1inv s t → (t ≤ now e)%Z → l1inv s' (now e).
Proof.
  destruct r as [r|].
  - intros H%step_Ok. by eapply handle_l1inv.
  - intros [_ ->]%step_Err (Hc & Hl & Ht) Hle. split; [done|]. split; [done|]. by eapply times_le_mono.
Qed.

Lemma run_l1inv c h s t : l1inv s t → mono_from t h → l1inv (run c s h).1 (last_time t h).
Proof.
  revert s t. induction h as [|[e m] h IH]; intros s t Hinv Hm; [done|].
  destruct Hm as [Hle Hm]. rewrite run_cons. cbn [fst last_time].
  apply IH; [|done]. eapply step_l1inv; [|done..]. apply surjective_pairing.
Qed.

Lemma init_l1inv t : l1inv init_state t.
Proof.
  split; [by intros b x Hx|]. split.
  - intros b. unfold log_ok, out_of. cbn. split; [done|]. split.
    + intros i. rewrite !lookup_empty. cbn. split; [by intros [? ?]|lia].
    + intros i j oi oj Hi. by rewrite lookup_empty in Hi.
  - intros k o Ho. cbn in Ho. by rewrite lookup_empty in Ho.
Qed.

Lemma mono_from_weaken t t' h : (t' ≤ t)%Z → mono_from t h → mono_from t' h.
Proof. destruct h as [|[e m] h]; [done|]. intros Hle [H1 H2]. split; [lia|done]. Qed.

(* ---- finalize: what an accepted claim says about the output it was made against ---- *)
Lemma finalize_Some c e s sender b idx sq proofs from to d amt v sr bh s' r :
  finalize c e s sender b idx sq proofs from to d amt v sr bh = Some (s', r) →
  ∃ o x, outputs s !! (b, idx) = Some o ∧ configs s !! b = Some x ∧ is_final x e o = true ∧
         o_root o = output_root (hash c) (hd 0%N v) sr bh.
Proof.
  unfold finalize. case_match; [done|].
  destruct (resolve c to) as [rcv|]; cbn [mbind option_bind]; [|done].
  destruct (outputs s !! (b, idx)) as [o|]; cbn [mbind option_bind]; [|done].
  destruct (configs s !! b) as [x|]; cbn [mbind option_bind]; [|done].
  destruct (is_final x e o) eqn:Hf; cbn [negb]; [|done].
  case_bool_decide as Hr; cbn [negb]; [|done].
  intros _. eauto 10.
Qed.

Lemma finalize_absent c e s sender b idx sq proofs from to d amt v sr bh :
  outputs s !! (b, idx) = None → finalize c e s sender b idx sq proofs from to d amt v sr bh = None.
Proof.
  intros Hn. destruct (finalize _ _ _ _ _ _ _ _ _ _ _ _ _ _ _) as [[s' r]|] eqn:E; [|done].
  apply finalize_Some in E as (o & x & Ho & _). congruence.
Qed.

(* ---- finality: monotone in the block time, depends on the config only through the period ---- *)
Lemma is_final_period x x' e o : c_period x' = c_period x → is_final x' e o = is_final x e o.
Proof. unfold is_final. by intros ->. Qed.
Lemma is_final_mono x e e' o : (now e ≤ now e')%Z → is_final x e o = true → is_final x e' o = true.
Proof.
  unfold is_final, second. intros Hle Hf. apply Z.leb_le in Hf. apply Z.leb_le.
  etrans; [exact Hf|]. apply Z.div_le_mono; lia.
Qed.
Lemma is_final_time x e o o' : (o_time o ≤ o_time o')%Z → is_final x e o' = true → is_final x e o = true.
Proof.
  unfold is_final, second. intros Hle Hf. apply Z.leb_le in Hf. apply Z.leb_le.
  etrans; [|exact Hf]. apply Z.div_le_mono; lia.
Qed.

(* ---- cfg_ok along arbitrary histories (no assumption on times) ---- *)
Lemma step_cfg_ok c e s m : cfg_ok s → cfg_ok (step c e s m).1.
Proof.
  intros Hok. destruct (step c e s m) as [s' [r|]] eqn:E; cbn.
  - apply step_Ok in E. by eapply handle_cfg_ok.
  - by apply step_Err in E as [_ ->].
Qed.
Lemma run_cfg_ok c h s : cfg_ok s → cfg_ok (run c s h).1.
Proof.
  revert s. induction h as [|[e m] h IH]; intros s Hok; [done|].
  rewrite run_cons. cbn [fst]. by apply IH, step_cfg_ok.
Qed.
Lemma step_period c e s m b x :
  cfg_ok s → configs s !! b = Some x →
  ∃ x', configs (step c e s m).1 !! b = Some x' ∧ c_period x' = c_period x.
Proof.
  intros Hok Hx. destruct (step c e s m) as [s' [r|]] eqn:E; cbn.
  - apply step_Ok in E. by eapply handle_period.
  - apply step_Err in E as [_ ->]. eauto.
Qed.
Lemma run_period c h s b x :
  cfg_ok s → configs s !! b = Some x →
  ∃ x', configs (run c s h).1 !! b = Some x' ∧ c_period x' = c_period x.
Proof.
  revert s x. induction h as [|[e m] h IH]; intros s x Hok Hx; [eauto|].
  rewrite run_cons. cbn [fst].
  destruct (step_period c e s m b x Hok Hx) as (x1 & Hx1 & Hp1).
  destruct (IH _ x1 (step_cfg_ok c e s m Hok) Hx1) as (x2 & Hx2 & Hp2).
  exists x2. split; [done|]. congruence.
Qed.
