(* C10 - L1 deposits: per-bridge gap-free sequences, real bridges only, faithful events,
   immutable token pairs.  Proof scripts; the statements are re-exported in Properties/C10.v. *)
From stdpp Require Import gmap numbers list.
From Coq Require Import ZArith Lia.
Require Import Model.Bytes Model.Bank Model.Hashes Model.L1 Proofs.L1DepLemmas.
Require Proofs.MerkleProofs.

(* lo, lo+1, ..., lo+k-1 *)
Fixpoint upto (k : nat) (lo : N) : list N :=
  match k with O => [] | S k' => lo :: upto k' (lo + 1)%N end.

Lemma upto_app k1 k2 lo : upto (k1 + k2) lo = upto k1 lo ++ upto k2 (lo + N.of_nat k1)%N.
Proof.
  revert lo; induction k1 as [|k1 IH]; intros lo; cbn -[N.of_nat].
  - f_equal. lia.
  - f_equal. rewrite IH. do 2 f_equal. lia.
Qed.

(* the events of one bridge in a list of events *)
Definition events_of (b : N) (l : list devent) : list devent := filter (λ ev, e_bridge ev = b) l.

Lemma events_of_app b l1 l2 : events_of b (l1 ++ l2) = events_of b l1 ++ events_of b l2.
Proof. apply filter_app. Qed.

(* what one step appends to the event log: one event for an accepted deposit, nothing otherwise *)
Definition new_events (c : cfg) (s : l1state) (m : msg) (r : result) : list devent :=
  match m, r with
  | MDeposit sender b to d amt data, Ok _ => [dep_event c s sender b to d amt data]
  | _, _ => []
  end.

Lemma new_events_not_deposit c s m r : is_deposit m = false → new_events c s m r = [].
Proof. by destruct m. Qed.
Lemma new_events_err c s m : new_events c s m Err = [].
Proof. by destruct m. Qed.

Lemma seq_of_insert s b v b' (ns := <[b := v]> (next_seq s)) :
  default 1%N (ns !! b') = if decide (b' = b) then v else seq_of s b'.
Proof.
  unfold ns. case_decide as Hb; [subst; by rewrite lookup_insert|by rewrite lookup_insert_ne].
Qed.

Lemma step_events c e s m s' r :
  step c e s m = (s', r) →
  elog s' = new_events c s m r ++ elog s ∧
  ∀ b, seq_of s' b = (seq_of s b + N.of_nat (length (events_of b (new_events c s m r))))%N.
Proof.
  intros Hst. destruct (step_cases c e s m) as [(s1 & r1 & Hh & Hs)|[Hh Hs]];
    rewrite Hs in Hst; injection Hst as <- <-.
  2: { rewrite new_events_err. split; [done|]. intros b. cbn. lia. }
  destruct (is_deposit m) eqn:Hd.
  - destruct m; try discriminate. cbn [handle] in Hh.
    apply deposit_Some in Hh as (sd & _ & _ & _ & _ & _ & _ & _ & _ & _ & _ & Hseq & _ & _ & _ & _ & _ & _ & _ & _ & Hel & _).
    cbn [new_events]. split; [by rewrite Hel|]. intros b'. unfold seq_of at 1. rewrite Hseq, seq_of_insert.
    unfold events_of. rewrite filter_cons, filter_nil. cbn [dep_event e_bridge].
    case_decide as Hb; subst; [rewrite decide_True by done|rewrite decide_False by done]; cbn; lia.
  - rewrite new_events_not_deposit by done. apply handle_not_deposit in Hh as (Hseq & _ & Hel); [|done].
    split; [by rewrite Hel|]. intros b. unfold seq_of. rewrite Hseq. cbn. lia.
Qed.

(* between two states: the events appended (oldest first) carry, per bridge, exactly the
   sequences seq_of s b, seq_of s b + 1, ... and the counter advanced by their number *)
Definition seqs_between (s s' : l1state) : Prop :=
  ∃ evs, elog s' = rev evs ++ elog s ∧
    ∀ b, map e_seq (events_of b evs) = upto (length (events_of b evs)) (seq_of s b) ∧
         seq_of s' b = (seq_of s b + N.of_nat (length (events_of b evs)))%N.

Lemma seqs_between_refl s : seqs_between s s.
Proof. exists []. split; [done|]. intros b. cbn. split; [done|lia]. Qed.

Lemma seqs_between_trans s1 s2 s3 : seqs_between s1 s2 → seqs_between s2 s3 → seqs_between s1 s3.
Proof.
  intros (e1 & Hl1 & H1) (e2 & Hl2 & H2). exists (e1 ++ e2). split.
  - rewrite Hl2, Hl1, rev_app_distr, app_assoc. done.
  - intros b. destruct (H1 b) as [Hm1 Hn1]. destruct (H2 b) as [Hm2 Hn2].
    rewrite events_of_app, map_app, app_length, upto_app, Hm1, Hm2, Hn1. split; [done|]. lia.
Qed.

Lemma step_seqs_between c e s m : seqs_between s (step c e s m).1.
Proof.
  destruct (step c e s m) as [s' r] eqn:Hst. cbn. apply step_events in Hst as [Hel Hseq].
  exists (new_events c s m r). split.
  - rewrite Hel. f_equal. destruct m, r; try done.
  - intros b. split; [|apply Hseq]. destruct m, r; try done. cbn [new_events].
    unfold events_of. rewrite filter_cons, filter_nil. case_decide; [|done]. cbn. by subst.
Qed.

Lemma run_seqs_between c h : ∀ s, seqs_between s (run c s h).1.
Proof.
  induction h as [|[e m] h IH]; intros s; [apply seqs_between_refl|].
  rewrite run_cons. cbn. eapply seqs_between_trans; [apply step_seqs_between|apply IH].
Qed.

(* a genesis: the initial state with any bank balances *)
Definition genesis (b : bank) : l1state := upd_bk init_state b.

(* C10_sequences *)
Lemma c10_sequences c bank0 h b :
  let s := (run c (genesis bank0) h).1 in
  ∃ n : nat, map e_seq (events_of b (rev (elog s))) = upto n 1 ∧ seq_of s b = (1 + N.of_nat n)%N.
Proof.
  cbn. destruct (run_seqs_between c h (genesis bank0)) as (evs & Hel & H). destruct (H b) as [Hm Hn].
  exists (length (events_of b evs)). cbn in Hel. rewrite app_nil_r in Hel. rewrite Hel, rev_involutive.
  split; [exact Hm|exact Hn].
Qed.

Lemma c10_sequences_from c h s b :
  let s' := (run c s h).1 in
  ∃ evs, elog s' = rev evs ++ elog s ∧
         map e_seq (events_of b evs) = upto (length (events_of b evs)) (seq_of s b) ∧
         seq_of s' b = (seq_of s b + N.of_nat (length (events_of b evs)))%N.
Proof.
  cbn. destruct (run_seqs_between c h s) as (evs & Hel & H). exists evs. split; [done|apply H].
Qed.

(* exactly one event per accepted deposit and none otherwise *)
Lemma c10_events_exactly c e s m s' r :
  step c e s m = (s', r) → elog s' = new_events c s m r ++ elog s.
Proof. intros H. by apply step_events in H as [? _]. Qed.

(* an accepted deposit: response = event sequence = the bridge's counter, which advances by one;
   the event repeats the request; exactly the announced amount moves from the sender to the escrow *)
Lemma c10_deposit_ok c e s sender b to d amt data s' r :
  step c e s (MDeposit sender b to d amt data) = (s', Ok r) →
  r = RId (seq_of s b) ∧
  elog s' = {| e_bridge := b; e_seq := seq_of s b; e_from := sender; e_to := to; e_l1denom := d;
               e_l2denom := l2_denom (hash c) b d; e_amt := amt; e_data := data |} :: elog s ∧
  seq_of s' b = (seq_of s b + 1)%N ∧ (∀ b', b' ≠ b → seq_of s' b' = seq_of s b') ∧
  is_Some (configs s !! b) ∧ (0 ≤ amt)%Z ∧
  ∃ sd, resolve c sender = Some sd ∧
        ∀ a d', getb (bk s') a d' =
                (getb (bk s) a d' + at_acct a d' (escrow c b) d amt - at_acct a d' sd d amt)%Z.
Proof.
  intros Hst. apply step_Ok in Hst. cbn [handle] in Hst.
  apply deposit_Some in Hst as (sd & Hsd & _ & _ & [Ha _] & _ & Hcfg & -> & Hbk & _ & _ & Hseq & _ & _ & _ & _ & _ & _ & _ & _ & Hel & _).
  split; [done|]. split; [exact Hel|]. split.
  { unfold seq_of at 1. rewrite Hseq, seq_of_insert. by rewrite decide_True. }
  split.
  { intros b' Hb. unfold seq_of at 1. rewrite Hseq, seq_of_insert. by rewrite decide_False. }
  split; [done|]. split; [done|]. exists sd. split; [done|]. intros a d'.
  destruct (0 <? amt)%Z eqn:Hpos.
  - apply bank_send_Some in Hbk as [_ Hbk]. apply Hbk.
  - injection Hbk as <-. apply Z.ltb_ge in Hpos. assert (amt = 0%Z) as -> by lia.
    unfold at_acct. repeat case_decide; lia.
Qed.

(* real bridges only *)
Lemma c10_real_bridges_only c e s sender b to d amt data :
  configs s !! b = None → step c e s (MDeposit sender b to d amt data) = (s, Err).
Proof.
  intros Hn. destruct (step_cases c e s (MDeposit sender b to d amt data)) as [(s1 & r1 & Hh & _)|[_ Hs]]; [|done].
  cbn [handle] in Hh. apply deposit_Some in Hh as (sd & _ & _ & _ & _ & _ & [x Hx] & _). congruence.
Qed.

(* ---- nothing is recorded under ids that have not been assigned yet ---- *)
Definition unused (s : l1state) (b : N) : Prop :=
  configs s !! b = None ∧ next_seq s !! b = None ∧ next_out s !! b = None ∧
  (∀ i, outputs s !! (b, i) = None) ∧ (∀ x, (b, x) ∉ proven s) ∧ (∀ d, pairs s !! (b, d) = None) ∧
  (∀ i, batches s !! (b, i) = None) ∧ (∀ ev, ev ∈ elog s → e_bridge ev ≠ b) ∧
  (∀ y, y ∈ plog s → y_bridge y ≠ b).
Definition clean (s : l1state) : Prop := ∀ b, (next_bridge s ≤ b)%N → unused s b.

Lemma clean_genesis bank0 : clean (genesis bank0).
Proof.
  intros b _. unfold unused, genesis, init_state. cbn. repeat split; intros; try done; try set_solver.
Qed.

Lemma clean_has_config s b : clean s → is_Some (configs s !! b) → (b < next_bridge s)%N.
Proof.
  intros Hc [x Hx]. destruct (decide (b < next_bridge s)%N) as [|Hge]; [done|].
  destruct (Hc b ltac:(lia)) as (Hn & _). congruence.
Qed.

Lemma handle_clean c e s m s' r : clean s → handle c e s m = Some (s', r) → clean s'.
Proof.
  intros Hc Hh. pose proof (handle_next_bridge _ _ _ _ _ _ Hh) as Hnb.
  destruct (plain_msg m) eqn:Hp.
  { assert (next_bridge s' = next_bridge s) as Hnb' by (destruct m; try discriminate; done).
    apply handle_plain in Hh as [(Hbk & _ & Hseq & Hpr & Hpa & Hel & Hpl) Hst]; [|done].
    intros b Hb. rewrite Hnb' in Hb. destruct (Hc b Hb) as (U1 & U2 & U3 & U4 & U5 & U6 & U7 & U8 & U9).
    destruct (Hst b) as [(S1 & S2 & S3 & S4)|[_ [x Hx]]]; [|congruence].
    unfold unused. rewrite S1, S2, Hseq, Hpr, Hpa, Hel, Hpl.
    repeat split; try done; intros; rewrite ?S3, ?S4; done. }
  destruct m; try discriminate; cbn [handle] in Hh.
  - (* create *)
    apply create_Some in Hh as (cr & _ & _ & _ & Hn & Hcf & Hseq & Hno & Hou & Hpr & Hpa & [k Hba] & _ & _ & Hel & Hpl).
    intros b Hb. rewrite Hn in Hb. destruct (Hc b ltac:(lia)) as (U1 & U2 & U3 & U4 & U5 & U6 & U7 & U8 & U9).
    unfold unused. rewrite Hcf, Hseq, Hno, Hou, Hpr, Hpa, Hba, Hel, Hpl.
    rewrite lookup_insert_ne by lia.
    repeat split; try done. intros i. rewrite lookup_insert_ne; [done|]. intros [= ? _]. lia.
  - (* deposit *)
    apply deposit_Some in Hh as (sd & _ & _ & _ & _ & _ & Hcfg & _ & _ & Hn & Hcf & Hseq & Hno & Hou & Hpr & Hpa & Hba & _ & _ & _ & Hel & Hpl).
    pose proof (clean_has_config _ _ Hc Hcfg) as Hlt.
    intros b' Hb. rewrite Hn in Hb. destruct (Hc b' Hb) as (U1 & U2 & U3 & U4 & U5 & U6 & U7 & U8 & U9).
    unfold unused. rewrite Hcf, Hseq, Hno, Hou, Hpr, Hpa, Hba, Hel, Hpl.
    rewrite lookup_insert_ne by lia. repeat split; try done.
    + intros d'. unfold dep_pairs. case_match; [done|]. rewrite lookup_insert_ne; [done|]. intros [= ? _]. lia.
    + intros ev [->|Hin]%elem_of_cons; [cbn; lia|by apply U8].
  - (* finalize *)
    apply finalize_Some in Hh as (rcv & _ & _ & _ & _ & _ & Hcfg & _ & _ & _ & _ & Hn & Hcf & Hseq & Hno & Hou & Hpr & Hpa & Hba & _ & _ & _ & Hel & Hpl).
    pose proof (clean_has_config _ _ Hc Hcfg) as Hlt.
    intros b' Hb. rewrite Hn in Hb. destruct (Hc b' Hb) as (U1 & U2 & U3 & U4 & U5 & U6 & U7 & U8 & U9).
    unfold unused. rewrite Hcf, Hseq, Hno, Hou, Hpr, Hpa, Hba, Hel, Hpl. repeat split; try done.
    + intros x [Hx|Hx]%elem_of_union; [|by apply (U5 x)]. apply elem_of_singleton in Hx. injection Hx as ? _. lia.
    + intros y [->|Hin]%elem_of_cons; [cbn; lia|by apply U9].
  - (* bank send *)
    apply bank_send_msg_Some in Hh as (_ & _ & _ & ->). exact Hc.
Qed.

Lemma step_clean c e s m : clean s → clean (step c e s m).1.
Proof.
  intros Hc. destruct (step_cases c e s m) as [(s1 & r1 & Hh & ->)|[_ ->]]; [|done].
  cbn. by eapply handle_clean.
Qed.

(* C10_new_bridge_clean *)
Lemma c10_new_bridge_clean c bank0 h : clean (run c (genesis bank0) h).1.
Proof. apply (run_invariant c clean); [intros; by apply step_clean|apply clean_genesis]. Qed.

Lemma c10_clean_preserved c h s : clean s → clean (run c s h).1.
Proof. apply (run_invariant c clean). intros; by apply step_clean. Qed.

(* a bridge created in a clean state starts at sequence 1 / output index 1 with no outputs,
   no claims, no token pairs and only its own creation batch record *)
Lemma c10_created_fresh c e s creator x s' id :
  clean s → step c e s (MCreateBridge creator x) = (s', Ok (RId id)) →
  id = next_bridge s ∧ configs s' !! id = Some x ∧ seq_of s' id = 1%N ∧ out_of s' id = 1%N ∧
  (∀ i, outputs s' !! (id, i) = None) ∧ (∀ y, (id, y) ∉ proven s') ∧ (∀ d, pairs s' !! (id, d) = None) ∧
  (∀ ev, ev ∈ elog s' → e_bridge ev ≠ id).
Proof.
  intros Hc Hst. apply step_Ok in Hst. cbn [handle] in Hst.
  apply create_Some in Hst as (cr & _ & [= ->] & _ & Hn & Hcf & Hseq & Hno & Hou & Hpr & Hpa & _ & _ & _ & Hel & _).
  destruct (Hc (next_bridge s) ltac:(lia)) as (U1 & U2 & U3 & U4 & U5 & U6 & U7 & U8 & U9).
  split; [done|]. unfold seq_of, out_of. rewrite Hcf, Hseq, Hno, Hou, Hpr, Hpa, Hel, U2, U3, lookup_insert.
  repeat split; done.
Qed.

(* ---- token pairs ---- *)
Lemma handle_pairs_mono c e s m s' r k d :
  handle c e s m = Some (s', r) → pairs s !! k = Some d → pairs s' !! k = Some d.
Proof.
  intros Hh Hk. destruct (is_deposit m) eqn:Hd.
  - destruct m; try discriminate. cbn [handle] in Hh.
    apply deposit_Some in Hh as (sd & _ & _ & _ & _ & _ & _ & _ & _ & _ & _ & _ & _ & _ & _ & Hpa & _).
    rewrite Hpa. unfold dep_pairs. case_match eqn:Hl; [done|].
    rewrite lookup_insert_ne; [done|]. intros <-. congruence.
  - apply handle_not_deposit in Hh as (_ & -> & _); done.
Qed.

Lemma step_pairs_mono c e s m k d : pairs s !! k = Some d → pairs (step c e s m).1 !! k = Some d.
Proof.
  intros Hk. destruct (step_cases c e s m) as [(s1 & r1 & Hh & ->)|[_ ->]]; [|done].
  cbn. by eapply handle_pairs_mono.
Qed.

(* C10_pairs_immutable: an existing entry never changes along any history *)
Lemma c10_pairs_immutable c h s k d : pairs s !! k = Some d → pairs (run c s h).1 !! k = Some d.
Proof.
  apply (run_invariant c (λ s, pairs s !! k = Some d)). intros. by apply step_pairs_mono.
Qed.

(* after an accepted deposit the derived L2 denom is registered: to this L1 denom if the slot
   was free, otherwise the slot keeps its earlier value *)
Lemma c10_token_pair_step c e s sender b to d amt data s' r :
  step c e s (MDeposit sender b to d amt data) = (s', Ok r) →
  pairs s' !! (b, l2_denom (hash c) b d) =
    Some (default d (pairs s !! (b, l2_denom (hash c) b d))) ∧
  ∀ k, k ≠ (b, l2_denom (hash c) b d) → pairs s' !! k = pairs s !! k.
Proof.
  intros Hst. apply step_Ok in Hst. cbn [handle] in Hst.
  apply deposit_Some in Hst as (sd & _ & _ & _ & _ & _ & _ & _ & _ & _ & _ & _ & _ & _ & _ & Hpa & _).
  rewrite Hpa. unfold dep_pairs. destruct (pairs s !! (b, l2_denom (hash c) b d)) as [d0|] eqn:Hl; cbn.
  - split; [done|]. done.
  - split; [by rewrite lookup_insert|]. intros k Hk. by rewrite lookup_insert_ne.
Qed.

(* every recorded pair is the documented derivation of its L1 denom *)
Definition pairs_derived (c : cfg) (s : l1state) : Prop :=
  ∀ b l2 d, pairs s !! (b, l2) = Some d → l2 = l2_denom (hash c) b d.

Lemma step_pairs_derived c e s m : pairs_derived c s → pairs_derived c (step c e s m).1.
Proof.
  intros Hp. destruct (step_cases c e s m) as [(s1 & r1 & Hh & ->)|[_ ->]]; [|done]. cbn.
  destruct (is_deposit m) eqn:Hd.
  - destruct m; try discriminate. cbn [handle] in Hh.
    apply deposit_Some in Hh as (sd & _ & _ & _ & _ & _ & _ & _ & _ & _ & _ & _ & _ & _ & _ & Hpa & _).
    intros b' l2 d'. rewrite Hpa. unfold dep_pairs. case_match; [apply Hp|].
    destruct (decide ((b', l2) = (b, l2_denom (hash c) b d))) as [[= -> ->]|Hne].
    + rewrite lookup_insert. by intros [= <-].
    + rewrite lookup_insert_ne by done. apply Hp.
  - apply handle_not_deposit in Hh as (_ & Hpa & _); [|done]. intros b' l2 d'. rewrite Hpa. apply Hp.
Qed.

Lemma run_pairs_derived c h s : pairs_derived c s → pairs_derived c (run c s h).1.
Proof. apply (run_invariant c (pairs_derived c)). intros. by apply step_pairs_derived. Qed.

(* hex encoding is injective, so two L1 denoms with the same derived L2 denom collide under the hash *)
Lemma hexdigit_inj x y : hexdigit x = hexdigit y → x = y.
Proof. unfold hexdigit. repeat case_match; rewrite ?N.ltb_lt, ?N.ltb_ge in *; lia. Qed.

Lemma hex_encode_inj a : ∀ b, hex_encode a = hex_encode b → a = b.
Proof.
  induction a as [|x a IH]; intros [|y b]; cbn; try done.
  intros [= H1 H2 H3]. apply hexdigit_inj in H1, H2. f_equal; [|by apply IH].
  rewrite (N.div_mod x 16), (N.div_mod y 16) by done. congruence.
Qed.

Lemma l2_denom_collision (H : bytes → bytes) b d0 d :
  d0 ≠ d → l2_denom H b d0 = l2_denom H b d → MerkleProofs.Collision H.
Proof.
  intros Hne Heq. unfold l2_denom in Heq. apply app_inv_head, hex_encode_inj in Heq.
  exists (be64 b ++ d0), (be64 b ++ d). split; [|done]. intros E. by apply app_inv_head in E.
Qed.

(* C10_token_pair: in a state whose pairs are derivations (every state reachable from the initial
   one), after an accepted deposit of d into b the derived L2 denom maps to d - or two different
   L1 denoms have the same derivation, which exhibits a collision of the hash function *)
Lemma c10_token_pair c e s sender b to d amt data s' r :
  pairs_derived c s →
  step c e s (MDeposit sender b to d amt data) = (s', Ok r) →
  pairs s' !! (b, l2_denom (hash c) b d) = Some d ∨ MerkleProofs.Collision (hash c).
Proof.
  intros Hp Hst. apply c10_token_pair_step in Hst as [Hl _]. rewrite Hl.
  destruct (pairs s !! (b, l2_denom (hash c) b d)) as [d0|] eqn:Hd0; cbn; [|by left].
  destruct (decide (d0 = d)) as [->|Hne]; [by left|]. right.
  apply Hp in Hd0. eapply l2_denom_collision; [exact Hne|]. symmetry. exact Hd0.
Qed.

Lemma pairs_derived_genesis c bank0 : pairs_derived c (genesis bank0).
Proof. intros b l2 d. unfold genesis, init_state. cbn. by rewrite lookup_empty. Qed.

Lemma c10_token_pair_reachable c bank0 h e sender b to d amt data s' r :
  step c e (run c (genesis bank0) h).1 (MDeposit sender b to d amt data) = (s', Ok r) →
  pairs s' !! (b, l2_denom (hash c) b d) = Some d ∨ MerkleProofs.Collision (hash c).
Proof. apply c10_token_pair, run_pairs_derived, pairs_derived_genesis. Qed.

(* rejected messages change nothing *)
Lemma c10_error_no_change c e s m s' : step c e s m = (s', Err) → s' = s.
Proof. apply step_err_unchanged. Qed.

(* ---- non-vacuity: a concrete two-bridge history with the real SHA3-256 ---- *)
Require Import Model.Sha3.
From Coq Require Import String.
Definition ex_cfg : cfg :=
  {| resolve := λ a, match a with [n] => Some n | _ => None end; gov := [100%N]; escrow := λ b, (1000 + b)%N;
     pool := 101%N; hash := sha3_256; parse := λ _, None |}.
Definition ex_conf : config :=
  {| c_proposer := [1%N]; c_challenger := [2%N]; c_period := 7000000000; c_interval := 1; c_start := 1;
     c_batch := {| b_submitter := [1%N]; b_chain := 1 |}; c_oracle := false; c_meta := [] |}.
Definition ex_bank : bank := {| bal := {[ (3%N, bs "uinit") := 1000%Z ]}; sup := ∅ |}.
Definition ex_env : env := {| now := 1704067200000000000; height := 100 |}.
Definition ex_hist : list (env * msg) :=
  [ (ex_env, MDeposit [3%N] 1 (bs "l2addr") (bs "uinit") 10 []);      (* no bridge yet: rejected *)
    (ex_env, MCreateBridge [1%N] ex_conf);
    (ex_env, MDeposit [3%N] 1 (bs "l2addr") (bs "uinit") 10 [7%N]);
    (ex_env, MDeposit [3%N] 2 (bs "l2addr") (bs "uinit") 10 []);      (* id 2 not created: rejected *)
    (ex_env, MCreateBridge [2%N] ex_conf);
    (ex_env, MDeposit [3%N] 2 (bs "l2addr") (bs "uinit") 0 []);       (* zero amount *)
    (ex_env, MDeposit [3%N] 1 (bs "x") (bs "uinit") 5 []);
    (ex_env, MDeposit [3%N] 1 (bs "x") (bs "uinit") 5000 []) ].       (* more than held: rejected *)

Example c10_example_results :
  (run ex_cfg (genesis ex_bank) ex_hist).2 =
  [Err; Ok (RId 1); Ok (RId 1); Err; Ok (RId 2); Ok (RId 1); Ok (RId 2); Err].
Proof. vm_compute. reflexivity. Qed.

Example c10_example_state :
  let s := (run ex_cfg (genesis ex_bank) ex_hist).1 in
  map (λ ev, (e_bridge ev, e_seq ev, e_amt ev)) (rev (elog s)) = [(1, 1, 10%Z); (2, 1, 0%Z); (1, 2, 5%Z)]%N ∧
  seq_of s 1 = 3%N ∧ seq_of s 2 = 2%N ∧ seq_of s 3 = 1%N ∧
  getb (bk s) 1001 (bs "uinit") = 15%Z ∧ getb (bk s) 1002 (bs "uinit") = 0%Z ∧ getb (bk s) 3 (bs "uinit") = 985%Z ∧
  pairs s !! (1%N, l2_denom sha3_256 1 (bs "uinit")) = Some (bs "uinit").
Proof. vm_compute. repeat split; reflexivity. Qed.
