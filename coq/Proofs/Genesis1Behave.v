(* Equivalent L1 states (equal up to the representation of the two counter tables) answer
   every message identically and stay equivalent: the re-imported chain behaves as the
   original for ever. *)
From stdpp Require Import gmap numbers list sorting.
From Coq Require Import ZArith Lia.
Require Import Model.Bytes Model.Bank Model.Hashes Model.Valset Model.L1 Model.Genesis1.
Require Import Proofs.Genesis1Lemmas Proofs.Genesis1Inv Proofs.Genesis1Proofs.

(* the verdict of two runs of one message: same answer and equivalent successor states *)
Definition agree (a b : option (l1state * resp)) : Prop :=
  match a, b with
  | Some (s', r), Some (t', r') => r = r' ∧ l1_eqv s' t'
  | None, None => True
  | _, _ => False
  end.

Definition agree_st (a b : option l1state) : Prop :=
  match a, b with
  | Some s', Some t' => l1_eqv s' t'
  | None, None => True
  | _, _ => False
  end.

Lemma eqv_admins s t a : l1_eqv s t → l1_eqv (upd_admins s a) (upd_admins t a).
Proof. intros (E1&E2&E3&E4&E5&E6&E7&E8&E9&E10&E11&E12&E13&E14). by repeat split. Qed.

Lemma register_admin_eqv s t pc a : l1_eqv s t → agree_st (register_admin s pc a) (register_admin t pc a).
Proof.
  intros Heq. pose proof Heq as (E1&E2&E3&E4&E5&E6&E7&E8&E9&E10&E11&E12&E13&E14).
  unfold register_admin. rewrite <- E11, <- E12. destruct (chans s !! pc) as [n|]; cbn; [|done].
  destruct (negb (n =? 1)%N); [done|]. case_bool_decide; [done|]. cbn. by apply eqv_admins.
Qed.

Lemma fold_opt_eqv {A} (f : l1state → A → option l1state) (l : list A) :
  (∀ s t x, l1_eqv s t → agree_st (f s x) (f t x)) →
  ∀ s t, l1_eqv s t →
    agree_st (foldl (λ os x, s1 ← os; f s1 x) (Some s) l) (foldl (λ os x, s1 ← os; f s1 x) (Some t) l).
Proof.
  intros Hf. induction l as [|x l IH]; intros s t Heq; cbn; [done|].
  specialize (Hf s t x Heq). destruct (f s x) as [s1|], (f t x) as [t1|]; try done.
  - by apply IH.
  - clear. induction l as [|y l IH]; cbn; [done|apply IH].
Qed.

Lemma hook_created_eqv c s t x : l1_eqv s t → agree_st (hook_created c s x) (hook_created c t x).
Proof.
  intros Heq. unfold hook_created. destruct (parse c (c_meta x)) as [chs|]; [|done].
  destruct (resolve c (c_challenger x)) as [a|]; cbn; [|done].
  apply (fold_opt_eqv (λ s1 pc, register_admin s1 pc a)); [|done]. intros. by apply register_admin_eqv.
Qed.

Lemma hook_challenger_eqv c s t x : l1_eqv s t → agree_st (hook_challenger c s x) (hook_challenger c t x).
Proof.
  intros Heq. unfold hook_challenger. destruct (parse c (c_meta x)) as [chs|]; [|done].
  destruct (resolve c (c_challenger x)) as [a|]; cbn; [|done].
  revert s t Heq. induction chs as [|pc chs IH]; intros s t Heq; cbn; [done|].
  apply IH. pose proof Heq as (E1&E2&E3&E4&E5&E6&E7&E8&E9&E10&E11&E12&E13&E14). rewrite <- E12. by apply eqv_admins.
Qed.

Lemma hook_metadata_eqv c s t x : l1_eqv s t → agree_st (hook_metadata c s x) (hook_metadata c t x).
Proof.
  intros Heq. unfold hook_metadata. destruct (parse c (c_meta x)) as [chs|]; [|done].
  destruct (resolve c (c_challenger x)) as [a|]; cbn; [|done].
  apply (fold_opt_eqv (λ s1 pc, if bool_decide (admins s1 !! pc = Some a) then Some s1 else register_admin s1 pc a)); [|done].
  intros s1 t1 pc Heq1. pose proof Heq1 as (E1&E2&E3&E4&E5&E6&E7&E8&E9&E10&E11&E12&E13&E14). rewrite <- E12.
  case_bool_decide; [done|]. by apply register_admin_eqv.
Qed.

Lemma last_final_eqv s t e b x : l1_eqv s t → last_final s e b x = last_final t e b x.
Proof. intros (E1&E2&E3&E4&E5&E6&_). unfold last_final. by rewrite E6. Qed.

Lemma push_batch_eqv s t b bi o : l1_eqv s t → l1_eqv (push_batch s b bi o) (push_batch t b bi o).
Proof.
  intros (E1&E2&E3&E4&E5&E6&E7&E8&E9&E10&E11&E12&E13&E14). unfold push_batch, next_batch_idx.
  rewrite E9. by repeat split.
Qed.

Lemma upd_configs_eqv s t m : l1_eqv s t → l1_eqv (upd_configs s m) (upd_configs t m).
Proof. intros (E1&E2&E3&E4&E5&E6&E7&E8&E9&E10&E11&E12&E13&E14). by repeat split. Qed.

Lemma default_insert_eqv (m m' : gmap N N) b v b' :
  (∀ k, default 1%N (m !! k) = default 1%N (m' !! k)) →
  default 1%N (<[b := v]> m !! b') = default 1%N (<[b := v]> m' !! b').
Proof. intros H. destruct (decide (b' = b)) as [->|]; [by rewrite !lookup_insert|by rewrite !lookup_insert_ne]. Qed.

Ltac peel2 := repeat (first
  [ match goal with |- agree (if ?g then _ else _) (if ?g then _ else _) => destruct g eqn:? end
  | match goal with |- agree (mbind _ ?o) (mbind _ ?o) => destruct o eqn:?; cbn [mbind option_bind] end
  | match goal with |- agree (let '(_, _) := ?p in _) (let '(_, _) := ?p in _) => destruct p eqn:? end ]; try exact I).

Ltac eqv_intro Heq :=
  pose proof Heq as (E1&E2&E3&E4&E5&E6&E7&E8&E9&E10&E11&E12&E13&E14).

Section congruence.
  Variable c : cfg.

  Lemma handle_eqv e s t m : l1_eqv s t → agree (handle c e s m) (handle c e t m).
  Proof.
    intros Heq. eqv_intro Heq.
    destruct m as [creator x|proposer b idx l2 root|ch b idx|sender b to d amt data|sender b idx sq proofs from to d amt v sr bh|a b p|a b p|a b bi|a b f|a b md|a fee|sub b data|from to d amt|pc n|pc a]; cbn [handle].
    - (* create *)
      unfold create_bridge. rewrite <- E1, <- E2, <- E3, <- E10. peel2.
      match goal with |- agree (mbind _ (hook_created c ?s2 x)) (mbind _ (hook_created c ?t2 x)) =>
        assert (Hh : agree_st (hook_created c s2 x) (hook_created c t2 x)) end.
      { apply hook_created_eqv, push_batch_eqv. repeat split; cbn; try done. }
      destruct (hook_created c _ x) as [s3|], (hook_created c _ x) as [t3|]; try done.
    - (* propose *)
      unfold propose. rewrite <- E3, <- E6, <- (E5 b). peel2.
      all: split; [done|]; repeat split; cbn; try done; intros b'; unfold out_of; cbn; by apply default_insert_eqv.
    - (* delete *)
      unfold delete_output. rewrite <- E3, <- E6, <- (E5 b). peel2.
      split; [done|]. repeat split; cbn; try done. intros b'. unfold out_of; cbn. by apply default_insert_eqv.
    - (* deposit *)
      unfold deposit. rewrite <- E1, <- E2, <- E3, <- E6, <- E7, <- E8, <- E9, <- E10, <- E11, <- E12, <- E13, <- E14, <- (E4 b). peel2.
      all: split; [done|]; repeat split; cbn; try done; intros b'; unfold seq_of; cbn; by apply default_insert_eqv.
    - (* finalize *)
      unfold finalize. rewrite <- E1, <- E2, <- E3, <- E6, <- E7, <- E8, <- E9, <- E10, <- E11, <- E12, <- E13, <- E14. peel2.
      split; [done|]. by repeat split.
    - (* update proposer *)
      unfold update_proposer, final_resp. rewrite <- E3. peel2.
      match goal with |- context [last_final (upd_configs s ?m) e b ?x'] =>
        rewrite (last_final_eqv (upd_configs s m) (upd_configs t m) e b x') by (by apply upd_configs_eqv) end.
      destruct (last_final _ e b _). split; [done|]. by apply upd_configs_eqv.
    - (* update challenger *)
      unfold update_challenger, final_resp. rewrite <- E3. peel2.
      match goal with |- agree (mbind _ (hook_challenger c s ?x')) _ =>
        pose proof (hook_challenger_eqv c s t x' Heq) as Hh;
        destruct (hook_challenger c s x') as [s1|], (hook_challenger c t x') as [t1|]; try done end.
      cbn [mbind option_bind]. destruct Hh as (F1&F2&F3&F4&F5&F6&F7&F8&F9&F10&F11&F12&F13&F14). rewrite <- F3.
      peel2.
      match goal with |- context [last_final (upd_configs s1 ?m) e b ?x'] =>
        rewrite (last_final_eqv (upd_configs s1 m) (upd_configs t1 m) e b x') by (by apply upd_configs_eqv) end.
      destruct (last_final _ e b _). split; [done|]. by apply upd_configs_eqv.
    - (* update batch info *)
      unfold update_batch_info. rewrite <- E3. peel2.
      match goal with |- context [last_final (upd_configs s ?m) e b ?x'] =>
        rewrite (last_final_eqv (upd_configs s m) (upd_configs t m) e b x') by (by apply upd_configs_eqv) end.
      destruct (last_final _ e b _). split; [done|]. by apply push_batch_eqv, upd_configs_eqv.
    - (* update oracle *)
      unfold update_oracle. rewrite <- E3. peel2. split; [done|]. by apply upd_configs_eqv.
    - (* update metadata *)
      unfold update_metadata, final_resp. rewrite <- E3. peel2.
      match goal with |- agree (mbind _ (hook_metadata c s ?x')) _ =>
        pose proof (hook_metadata_eqv c s t x' Heq) as Hh;
        destruct (hook_metadata c s x') as [s1|], (hook_metadata c t x') as [t1|]; try done end.
      cbn [mbind option_bind]. destruct Hh as (F1&F2&F3&F4&F5&F6&F7&F8&F9&F10&F11&F12&F13&F14). rewrite <- F3.
      peel2.
      match goal with |- context [last_final (upd_configs s1 ?m) e b ?x'] =>
        rewrite (last_final_eqv (upd_configs s1 m) (upd_configs t1 m) e b x') by (by apply upd_configs_eqv) end.
      destruct (last_final _ e b _). split; [done|]. by apply upd_configs_eqv.
    - (* update params *)
      unfold update_params. peel2. split; [done|]. by repeat split.
    - (* record batch *)
      unfold record_batch. peel2. done.
    - (* bank send *)
      unfold bank_send_msg. rewrite <- E1. peel2. split; [done|]. by repeat split.
    - cbn. rewrite <- E11. split; [done|]. by repeat split.
    - cbn. rewrite <- E12. split; [done|]. by repeat split.
  Qed.

  Lemma step_eqv e s t m : l1_eqv s t →
    (step c e s m).2 = (step c e t m).2 ∧ l1_eqv (step c e s m).1 (step c e t m).1.
  Proof.
    intros Heq. pose proof (handle_eqv e s t m Heq) as H. unfold step.
    destruct (handle c e s m) as [[s' r]|], (handle c e t m) as [[t' r']|]; cbn in *; try done.
    destruct H as [-> H]. done.
  Qed.

  Lemma run_eqv h : ∀ s t, l1_eqv s t →
    (run c s h).2 = (run c t h).2 ∧ l1_eqv (run c s h).1 (run c t h).1.
  Proof.
    induction h as [|[e m] h IH]; intros s t Heq; cbn; [done|].
    destruct (step_eqv e s t m Heq) as [Hr Hs].
    destruct (step c e s m) as [s1 r1], (step c e t m) as [t1 r2]. cbn in *. subst.
    destruct (IH s1 t1 Hs) as [Hr' Hs'].
    destruct (run c s1 h) as [s2 rs], (run c t1 h) as [t2 rs']. cbn in *. by subst.
  Qed.
End congruence.

(* the re-imported chain gives identical answers to every later history of messages, and
   its states stay equal (up to the representation of the counters) to the original's *)
Lemma c16_l1_same_behaviour c s h : l1_inv c s →
  ∃ f, import c s (export s) = Some f ∧
       (run c f h).2 = (run c s h).2 ∧ l1_eqv (run c f h).1 (run c s h).1 ∧
       export (run c f h).1 = export (run c s h).1.
Proof.
  intros Hinv. destruct (import_export c s Hinv) as (f & Hf & Heq). exists f. split; [done|].
  destruct (run_eqv c h f s Heq) as [Hr Hs]. split; [done|]. split; [done|]. by apply export_eqv.
Qed.

(* non-vacuity: a hash function satisfying [hash_wf], and a reached state with two bridges, a
   deposit and an output on which the round trip is evaluated *)
Definition zero_hash (_ : bytes) : bytes := repeat 0%N 32.
Definition ex_cfg : cfg :=
  {| resolve := λ a, match a with [n] => Some n | _ => None end; gov := [9%N]; escrow := λ b, (1000 + b)%N;
     pool := 50%N; hash := zero_hash; parse := λ _, None |}.
Example hash_wf_sat : hash_wf ex_cfg.
Proof. intros x. cbn. split; [done|]. repeat constructor. Qed.

Definition ex_config (p : N) : config :=
  {| c_proposer := [p]; c_challenger := [2%N]; c_period := 10; c_interval := 1; c_start := 1;
     c_batch := {| b_submitter := [p]; b_chain := 1 |}; c_oracle := false; c_meta := [] |}.
Definition ex_env : env := {| now := 1000; height := 5 |}.
Definition ex_hist : list (env * msg) :=
  [ (ex_env, MCreateBridge [1%N] (ex_config 1)); (ex_env, MCreateBridge [1%N] (ex_config 3));
    (ex_env, MPropose [3%N] 2 1 7 (repeat 1%N 32));
    (ex_env, MUpdateBatchInfo [1%N] 1 {| b_submitter := [4%N]; b_chain := 2 |});
    (ex_env, MDeposit [1%N] 2 [5%N] [117; 97; 98]%N 0 []) ].
Definition ex_state : l1state := (run ex_cfg init_state ex_hist).1.
Example ex_roundtrip :
  length (g_bridges (export ex_state)) = 2%nat ∧ validate ex_cfg (export ex_state) = true ∧
  (export <$> import ex_cfg ex_state (export ex_state)) = Some (export ex_state) ∧
  next_seq ex_state !! 1%N = None ∧
  ((λ f, (next_seq f !! 1%N, next_seq f !! 2%N)) <$> import ex_cfg ex_state (export ex_state)) = Some (Some 1%N, Some 2%N).
Proof. vm_compute. repeat split. Qed.
