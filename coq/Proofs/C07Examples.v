(* C07: computed witnesses - every unguarded call site makes the handler fail under a single
   fault (known finding D11), guarded faults are absorbed, hypotheses are satisfiable. *)
From stdpp Require Import gmap numbers list.
From Coq Require Import ZArith Lia.
Require Import Model.Bytes Model.Bank Model.Valset Model.L2 Model.L2Fault.
Require Import Proofs.L2Lemmas Proofs.DepositLemmas Proofs.C09Proofs Proofs.C07Proofs.

Local Open Scope Z_scope.

(* exactly one fault, at call number i *)
Definition fe_at (i : nat) (k : fkind) : fenv :=
  {| fault := λ j, if Nat.eqb j i then Some k else None; acct_exists := λ _, false; has_meta := λ _, false |}.
Definition fe_none : fenv := {| fault := λ _, None; acct_exists := λ _, false; has_meta := λ _, false |}.

Lemma fe_at_other i k j : j ≠ i → fault (fe_at i k) j = None.
Proof. intros H. cbn. destruct (Nat.eqb_spec j i); congruence. Qed.
Lemma fe_none_no_faults : no_faults fe_none.
Proof. by intros i. Qed.

Definition fd_of (seq : N) (to : bytes) (amt : Z) (h : hookp) : fdep :=
  {| fd_sender := [1%N]; fd_from := [77%N]; fd_to := to; fd_denom := dA; fd_amt := amt;
     fd_seq := seq; fd_height := 5; fd_base := [117; 97; 97]%N; fd_hook := h |}.
Definition m_plain : fdep := fd_of 1 [4%N] 50 HNone.
Definition m_zero : fdep := fd_of 1 [4%N] 0 HNone.
Definition m_hookfail : fdep := fd_of 1 [4%N] 50 (HTx 4 0 true [HSend 5 dA 1000]).
Definition m_hookok : fdep := fd_of 1 [4%N] 50 (HTx 4 0 true [HSend 5 dA 20]).

(* the recipient's hook withdraws 20 of what it was just credited, back to L1 *)
Definition m_hookwd : fdep := fd_of 1 [4%N] 50 (HTx 4 0 true [HWithdraw [4%N] [88%N] dA 20]).
(* ... and then fails at the second message: nothing of the withdrawal may survive *)
Definition m_hookwd_fail : fdep :=
  fd_of 1 [4%N] 50 (HTx 4 0 true [HWithdraw [4%N] [88%N] dA 20; HSend 5 dA 1000]).

Lemma ex_funds_sane m : funds_sane ex_cfg ex_init m.
Proof. split; [done|]. intros a _. done. Qed.

(* a single fault at call i, which is a call of site st, makes the handler return an error *)
Definition unguarded_witness (st : site) (c : cfg) (fe : fenv) (s : l2state) (m : fdep) (i : nat) : Prop :=
  fdep_valid c m = true ∧ is_executor c s (fd_sender m) = true ∧ fd_seq m = next_l1 s ∧
  funds_sane c s m ∧
  (finalize_deposit_f c fe s m).1 !! i = Some st ∧ is_Some (fault fe i) ∧ (∀ j, j ≠ i → fault fe j = None) ∧
  step_f c fe s m = (s, Err).

Ltac witness := unfold unguarded_witness;
  split; [vm_compute; reflexivity|]; split; [vm_compute; reflexivity|]; split; [vm_compute; reflexivity|];
  split; [apply ex_funds_sane|]; split; [vm_compute; reflexivity|]; split; [vm_compute; eauto|];
  split; [apply fe_at_other|]; vm_compute; reflexivity.

Example w_has_account : unguarded_witness SHasAccount ex_cfg (fe_at 0 FPanic) ex_init m_zero 0.
Proof. witness. Qed.
Example w_new_account : unguarded_witness SNewAccount ex_cfg (fe_at 1 FPanic) ex_init m_zero 1.
Proof. witness. Qed.
Example w_set_account : unguarded_witness SSetAccount ex_cfg (fe_at 2 FPanic) ex_init m_zero 2.
Proof. witness. Qed.
Example w_has_meta : unguarded_witness SHasMeta ex_cfg (fe_at 2 FPanic) ex_init m_plain 2.
Proof. witness. Qed.
Example w_set_meta : unguarded_witness SSetMeta ex_cfg (fe_at 3 FPanic) ex_init m_plain 3.
Proof. witness. Qed.
Example w_reclaim : unguarded_witness SReclaim ex_cfg (fe_at 5 FErr) ex_init m_hookfail 5.
Proof. witness. Qed.
Example w_burn : unguarded_witness SBurn ex_cfg (fe_at 6 FErr) ex_init m_hookfail 6.
Proof. witness. Qed.

Lemma c07_unguarded_faults_refuted :
  ∀ st, guarded st = false → ∃ c fe s m i, unguarded_witness st c fe s m i.
Proof.
  intros st Hg. destruct st; try discriminate Hg.
  - exists ex_cfg, (fe_at 0 FPanic), ex_init, m_zero, 0%nat. apply w_has_account.
  - exists ex_cfg, (fe_at 1 FPanic), ex_init, m_zero, 1%nat. apply w_new_account.
  - exists ex_cfg, (fe_at 2 FPanic), ex_init, m_zero, 2%nat. apply w_set_account.
  - exists ex_cfg, (fe_at 2 FPanic), ex_init, m_plain, 2%nat. apply w_has_meta.
  - exists ex_cfg, (fe_at 3 FPanic), ex_init, m_plain, 3%nat. apply w_set_meta.
  - exists ex_cfg, (fe_at 5 FErr), ex_init, m_hookfail, 5%nat. apply w_reclaim.
  - exists ex_cfg, (fe_at 6 FErr), ex_init, m_hookfail, 6%nat. apply w_burn.
Qed.

(* the weak form asked for: some fault schedule and message make the step fail *)
Lemma c07_unguarded_fault_exists :
  ∃ c fe s m, fdep_valid c m = true ∧ is_executor c s (fd_sender m) = true ∧ fd_seq m = next_l1 s ∧
              step_f c fe s m = (s, Err).
Proof.
  exists ex_cfg, (fe_at 5 FErr), ex_init, m_hookfail.
  destruct w_reclaim as (H1 & H2 & H3 & _ & _ & _ & _ & H4). auto.
Qed.

(* ---- non-vacuity of C07_total: guarded faults that really fire, and are absorbed ---- *)
Lemma confined_at fe tr i st :
  (∀ j, j ≠ i → fault fe j = None) → tr !! i = Some st → guarded st = true → confined fe tr.
Proof.
  intros Ho Hl Hg j st' Hl' Hg'. destruct (decide (j = i)) as [->|Hne]; [|by apply Ho].
  rewrite Hl in Hl'. injection Hl' as <-. congruence.
Qed.

(* the call sequences of the four shapes with no fault *)
Example ex_traces :
  (finalize_deposit_f ex_cfg fe_none ex_init m_plain).1 = [SMint; SSendToRecipient; SHasMeta; SSetMeta] ∧
  (finalize_deposit_f ex_cfg fe_none ex_init m_zero).1 = [SHasAccount; SNewAccount; SSetAccount; SHasMeta; SSetMeta] ∧
  (finalize_deposit_f ex_cfg fe_none ex_init m_hookfail).1 =
     [SMint; SSendToRecipient; SHasMeta; SSetMeta; SHookSend; SReclaim; SBurn] ∧
  (finalize_deposit_f ex_cfg fe_none ex_init m_hookok).1 = [SMint; SSendToRecipient; SHasMeta; SSetMeta; SHookSend].
Proof. vm_compute. auto. Qed.

(* a panic in MintCoins: SUCCESS, refund record 1, nothing minted *)
Example ex_mint_panic :
  let fe := fe_at 0 FPanic in
  confined fe (finalize_deposit_f ex_cfg fe ex_init m_plain).1 ∧
  ∃ s', step_f ex_cfg fe ex_init m_plain = (s', Ok RSuccess) ∧
        map w_seq (wlog s') = [1%N] ∧ gets (bk s') dA = 0 ∧ getb (bk s') 4 dA = 0 ∧ next_l1 s' = 2%N ∧ next_l2 s' = 2%N.
Proof.
  cbn zeta. split.
  - eapply (confined_at _ _ 0%nat SMint); [apply fe_at_other|vm_compute; reflexivity|done].
  - eexists. split; [vm_compute; reflexivity|]. vm_compute. auto.
Qed.

(* an error in the module -> recipient transfer: the same *)
Example ex_send_error :
  let fe := fe_at 1 FErr in
  confined fe (finalize_deposit_f ex_cfg fe ex_init m_plain).1 ∧
  ∃ s', step_f ex_cfg fe ex_init m_plain = (s', Ok RSuccess) ∧
        map w_seq (wlog s') = [1%N] ∧ gets (bk s') dA = 0 ∧ getb (bk s') 4 dA = 0.
Proof.
  cbn zeta. split.
  - eapply (confined_at _ _ 1%nat SSendToRecipient); [apply fe_at_other|vm_compute; reflexivity|done].
  - eexists. split; [vm_compute; reflexivity|]. vm_compute. auto.
Qed.

(* a panic inside a hook message that would otherwise succeed: refund; the signer's sequence stays incremented *)
Example ex_hook_fault :
  let fe := fe_at 4 FPanic in
  confined fe (finalize_deposit_f ex_cfg fe ex_init m_hookok).1 ∧
  ∃ s', step_f ex_cfg fe ex_init m_hookok = (s', Ok RSuccess) ∧
        map w_seq (wlog s') = [1%N] ∧ gets (bk s') dA = 0 ∧ getb (bk s') 4 dA = 0 ∧ getb (bk s') 5 dA = 0 ∧
        getseq s' 4 = 1%N.
Proof.
  cbn zeta. split.
  - eapply (confined_at _ _ 4%nat SHookSend); [apply fe_at_other|vm_compute; reflexivity|done].
  - eexists. split; [vm_compute; reflexivity|]. vm_compute. auto.
Qed.

(* no fault: credited and the hook's transfer applied (A); failing hook: refunded (B) *)
Example ex_outcomes :
  (∃ s', step ex_cfg ex_init (MFinalizeDeposit m_hookok) = (s', Ok RSuccess) ∧ wlog s' = [] ∧
         getb (bk s') 4 dA = 30 ∧ getb (bk s') 5 dA = 20 ∧ gets (bk s') dA = 50 ∧ getseq s' 4 = 1%N) ∧
  (∃ s', step ex_cfg ex_init (MFinalizeDeposit m_hookfail) = (s', Ok RSuccess) ∧ map w_seq (wlog s') = [1%N] ∧
         getb (bk s') 4 dA = 0 ∧ getb (bk s') 5 dA = 0 ∧ gets (bk s') dA = 0 ∧ getseq s' 4 = 1%N).
Proof.
  split; (eexists; split; [vm_compute; reflexivity|]; vm_compute; auto).
Qed.

(* a withdrawal carried by the hook: credited (A), one USER record with sequence 1, 20 burnt;
   the same followed by a failing message: refunded (B), the only record is the refund, again
   with sequence 1, nothing burnt *)
Example ex_hook_withdrawals :
  (∃ s', step ex_cfg ex_init (MFinalizeDeposit m_hookwd) = (s', Ok RSuccess) ∧
         map (λ w, (w_seq w, w_refund w, w_amt w)) (wlog s') = [(1%N, false, 20)] ∧ next_l2 s' = 2%N ∧
         getb (bk s') 4 dA = 30 ∧ gets (bk s') dA = 30 ∧ map d_ok (dlog s') = [true]) ∧
  (∃ s', step ex_cfg ex_init (MFinalizeDeposit m_hookwd_fail) = (s', Ok RSuccess) ∧
         map (λ w, (w_seq w, w_refund w, w_amt w)) (wlog s') = [(1%N, true, 50)] ∧ next_l2 s' = 2%N ∧
         getb (bk s') 4 dA = 0 ∧ gets (bk s') dA = 0 ∧ map d_ok (dlog s') = [false]).
Proof.
  split; (eexists; split; [vm_compute; reflexivity|]; vm_compute; auto 10).
Qed.
