(* C03: the leaf and the output root bind every field they are computed from: equal hashes of
   different field tuples exhibit an explicit collision of the hash function.  Only hypothesis
   on [H]: 32-byte outputs. *)
From Coq Require Import List Arith NArith Lia Bool.
Require Import Model.Bytes Model.Hashes Model.Merkle Proofs.MerkleProofs.
Import ListNotations.
Local Open Scope N_scope.

(* ---------- fixed-width big-endian encodings ---------- *)
Lemma be_bytes_length k n : length (be_bytes k n) = k.
Proof. revert n; induction k as [|k IH]; intros n; simpl; auto. rewrite app_length, IH. simpl. lia. Qed.

Lemma be_bytes_mod k : forall n m, be_bytes k n = be_bytes k m -> n mod 256 ^ N.of_nat k = m mod 256 ^ N.of_nat k.
Proof.
  induction k as [|k IH]; intros n m E.
  - simpl. now rewrite !N.mod_1_r.
  - cbn [be_bytes] in E. apply app_inj_tail in E as [E1 E2].
    apply IH in E1.
    rewrite Nat2N.inj_succ, N.pow_succ_r'.
    rewrite !N.mod_mul_r by (try apply N.pow_nonzero; lia).
    rewrite E1, E2. reflexivity.
Qed.

Definition two64N : N := 18446744073709551616.

Lemma be64_length n : length (be64 n) = 8%nat.
Proof. apply be_bytes_length. Qed.

Lemma be64_inj n m : n < two64N -> m < two64N -> be64 n = be64 m -> n = m.
Proof.
  intros Hn Hm E. apply be_bytes_mod in E.
  change (256 ^ N.of_nat 8) with two64N in E.
  now rewrite !N.mod_small in E.
Qed.

Section Binding.
  Variable H : bytes -> bytes.
  Hypothesis H_len : forall x, length (H x) = 32%nat.
  Notation Collision := (Collision H).

  Lemma H_inj_or x y : H x = H y -> x = y \/ Collision.
  Proof.
    intros E. destruct (bytes_eq_dec x y) as [e|ne]; auto. right. exists x, y. auto.
  Qed.

  (* the 120-byte leaf preimage determines its six components *)
  Lemma leaf_seed_inj b1 s1 f1 t1 d1 a1 b2 s2 f2 t2 d2 a2 :
    leaf_seed H b1 s1 f1 t1 d1 a1 = leaf_seed H b2 s2 f2 t2 d2 a2 ->
    be64 b1 = be64 b2 /\ be64 s1 = be64 s2 /\ H f1 = H f2 /\ H t1 = H t2 /\ H d1 = H d2 /\ be64 a1 = be64 a2.
  Proof.
    unfold leaf_seed. intros E.
    apply app_inj_len in E as [E1 E]; [|now rewrite !be64_length].
    apply app_inj_len in E as [E2 E]; [|now rewrite !be64_length].
    apply app_inj_len in E as [E3 E]; [|now rewrite !H_len].
    apply app_inj_len in E as [E4 E]; [|now rewrite !H_len].
    apply app_inj_len in E as [E5 E6]; [|now rewrite !H_len].
    auto 10.
  Qed.

  Theorem leaf_binding b1 s1 f1 t1 d1 a1 b2 s2 f2 t2 d2 a2 :
    b1 < two64N -> s1 < two64N -> a1 < two64N -> b2 < two64N -> s2 < two64N -> a2 < two64N ->
    leaf_hash H b1 s1 f1 t1 d1 a1 = leaf_hash H b2 s2 f2 t2 d2 a2 ->
    (b1 = b2 /\ s1 = s2 /\ f1 = f2 /\ t1 = t2 /\ d1 = d2 /\ a1 = a2) \/ Collision.
  Proof.
    intros Hb1 Hs1 Ha1 Hb2 Hs2 Ha2. unfold leaf_hash. intros E.
    apply H_inj_or in E as [E|C]; auto.
    apply H_inj_or in E as [E|C]; auto.
    apply leaf_seed_inj in E as (Eb & Es & Ef & Et & Ed & Ea).
    apply be64_inj in Eb, Es, Ea; auto.
    apply H_inj_or in Ef as [Ef|C]; auto.
    apply H_inj_or in Et as [Et|C]; auto.
    apply H_inj_or in Ed as [Ed|C]; auto.
    left. auto 10.
  Qed.

  Lemma firstn_len32 (x : bytes) : length x = 32%nat -> firstn 32 x = x.
  Proof. intros <-. apply firstn_all. Qed.

  Theorem output_root_binding v1 sr1 bh1 v2 sr2 bh2 :
    length sr1 = 32%nat -> length bh1 = 32%nat -> length sr2 = 32%nat -> length bh2 = 32%nat ->
    output_root H v1 sr1 bh1 = output_root H v2 sr2 bh2 ->
    (v1 = v2 /\ sr1 = sr2 /\ bh1 = bh2) \/ Collision.
  Proof.
    intros L1 L2 L3 L4. unfold output_root. rewrite !firstn_len32 by assumption. intros E.
    apply H_inj_or in E as [E|C]; auto.
    injection E as Ev E. apply app_inj_len in E as [E1 E2]; [|congruence]. left; auto.
  Qed.

  (* a leaf hash has the form the tree theorems ask of leaves: the hash of a 32-byte string *)
  Lemma leaf_hash_form b s f t d a : leaf_form H (leaf_hash H b s f t d a).
  Proof. unfold leaf_form, leaf_hash. eexists; split; [|reflexivity]. apply H_len. Qed.

  Lemma leaf_form_len x : leaf_form H x -> length x = 32%nat.
  Proof. intros (u & _ & ->). apply H_len. Qed.

  Lemma build_len l : l <> [] -> all32 l -> length (build H l) = 32%nat.
  Proof.
    intros Hne Hl. pose proof (root_in_nodes H (length l) l Hne) as Hin.
    pose proof (nodes_all32 H H_len (length l) l Hl) as Hall.
    unfold all32 in Hall. rewrite Forall_forall in Hall. now apply Hall.
  Qed.
End Binding.
