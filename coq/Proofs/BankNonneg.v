(* Balances are never negative along any L2 history: discharges the hypothesis [funds_sane]
   of the C07 theorems for every state reachable from a state with non-negative balances. *)
From stdpp Require Import gmap numbers list.
From Coq Require Import ZArith Lia.
Require Import Model.Bytes Model.Bank Model.Valset Model.L2.
Require Import Proofs.L2Lemmas Proofs.DepositLemmas Proofs.C07Proofs.

Local Open Scope Z_scope.

Definition bank_nonneg (b : bank) : Prop := ∀ a d, 0 ≤ getb b a d.

Lemma bank_send_nonneg b from to d x b' :
  bank_send b from to d x = Some b' → 0 ≤ x → bank_nonneg b → bank_nonneg b'.
Proof.
  intros H Hx Hb a' d'. apply bank_send_Some in H as (Hle & Hg & _). rewrite Hg. unfold delta.
  specialize (Hb a' d'). repeat destruct (decide _); simplify_eq; lia.
Qed.

Lemma bank_burn_nonneg b m d x b' : bank_burn b m d x = Some b' → bank_nonneg b → bank_nonneg b'.
Proof.
  intros H Hb a' d'. apply bank_burn_Some in H as (Hle & Hg & _). rewrite Hg. unfold delta.
  specialize (Hb a' d'). destruct (decide _); simplify_eq; lia.
Qed.

Lemma bank_mint_nonneg b m d x : 0 ≤ x → bank_nonneg b → bank_nonneg (bank_mint b m d x).
Proof.
  intros Hx Hb a' d'. rewrite getb_mint. unfold delta. specialize (Hb a' d'). destruct (decide _); lia.
Qed.

Lemma foldl_nonneg {A} (f : bank → A → option bank) (l : list A) :
  (∀ b x b', x ∈ l → f b x = Some b' → bank_nonneg b → bank_nonneg b') →
  ∀ b b', foldl (λ ob x, b ← ob; f b x) (Some b) l = Some b' → bank_nonneg b → bank_nonneg b'.
Proof.
  induction l as [|x l IH]; intros Hf b b'; cbn.
  - by intros [= <-].
  - destruct (f b x) as [b1|] eqn:E; cbn.
    + intros H Hb. eapply IH; [|exact H|].
      * intros ? ? ? Hin. apply Hf. by right.
      * eapply Hf; [by left|exact E|exact Hb].
    + rewrite foldl_None. discriminate.
Qed.

Lemma hook_send_nonneg c b from snd b' : hook_send c b from snd = Some b' → bank_nonneg b → bank_nonneg b'.
Proof.
  unfold hook_send. destruct snd as [[to dd] amt].
  destruct (valid_denom dd && (0 <? amt)) eqn:E; [|discriminate]. cbn [negb].
  destruct (blocked c to); [discriminate|]. apply andb_true_iff in E as [_ E]. apply Z.ltb_lt in E.
  intros H Hn. eapply bank_send_nonneg; [exact H|lia|exact Hn].
Qed.

Lemma withdraw_nonneg c s sender to d amt s' r :
  withdraw c s sender to d amt = Some (s', r) → bank_nonneg (bk s) → bank_nonneg (bk s').
Proof.
  intros H. apply withdraw_Some in H as (a & b1 & b2 & base & _ & _ & _ & Hamt & Hb1 & Hb2 & _ & _ & ->). cbn.
  intros Hb. eapply bank_burn_nonneg; [exact Hb2|]. eapply bank_send_nonneg; [exact Hb1|lia|exact Hb].
Qed.

Lemma hook_msg_nonneg c s signer m s' : hook_msg c s signer m = Some s' → bank_nonneg (bk s) → bank_nonneg (bk s').
Proof.
  destruct m as [to d amt|sender to d amt]; cbn [hook_msg].
  - intros H. apply bind_Some in H as (b & Hb & [= <-]). cbn. eapply hook_send_nonneg; eauto.
  - destruct (negb _); [discriminate|]. intros H. apply bind_Some in H as ([s1 r1] & Hw & [= <-]).
    eapply withdraw_nonneg; eauto.
Qed.

Lemma hook_fold_nonneg c signer msgs : ∀ s s',
  foldl (λ os m, s ← os; hook_msg c s signer m) (Some s) msgs = Some s' → bank_nonneg (bk s) → bank_nonneg (bk s').
Proof.
  induction msgs as [|m msgs IH]; intros s s'; cbn [foldl]; [by intros [= <-]|].
  cbn [mbind option_bind]. destruct (hook_msg c s signer m) as [s1|] eqn:E.
  - intros H Hb. eapply IH; [exact H|]. eapply hook_msg_nonneg; eauto.
  - rewrite hook_fold_None. discriminate.
Qed.

Lemma run_hook_nonneg c s h s1 ok : run_hook c s h = (s1, ok) → bank_nonneg (bk s) → bank_nonneg (bk s1).
Proof.
  unfold run_hook. destruct h as [| |signer tseq sig_ok msgs]; try (intros [= <- <-]; done).
  destruct (p_hookgas (prm s) <? hook_gas_floor)%N; [intros [= <- <-]; done|].
  destruct (negb _); [intros [= <- <-]; done|].
  destruct (foldl _ _ msgs) as [s2|] eqn:Hf; intros [= <- <-]; [|done].
  intros Hb. eapply hook_fold_nonneg; [exact Hf|]. exact Hb.
Qed.

Lemma fd_tail_nonneg c s m s' r :
  fdep_valid c m = true → fd_tail c s m = Some (s', r) → bank_nonneg (bk s) → bank_nonneg (bk s').
Proof.
  intros Hv. assert (Hamt : 0 ≤ fd_amt m).
  { unfold fdep_valid, coin_valid in Hv. repeat (apply andb_true_iff in Hv as [Hv ?]).
    match goal with H : (_ && (0 <=? fd_amt m)) = true |- _ => apply andb_true_iff in H as [_ H]; by apply Z.leb_le in H end. }
  unfold fd_tail. destruct (fd_dep c s m) as [s1 dep_ok] eqn:Hdep.
  destruct (fd_hook_run c (fd_gate s1 m) dep_ok (fd_hook m)) as [s4 hook_ok] eqn:Hhook.
  intros H Hb.
  assert (N1 : bank_nonneg (bk s1)).
  { apply fd_dep_spec in Hdep as (_ & H0 & H1). destruct dep_ok; [|by rewrite (H0 eq_refl)].
    destruct (H1 eq_refl) as (a & _ & Hg & _). intros a' d'. rewrite Hg. unfold delta.
    specialize (Hb a' d'). destruct (decide _); lia. }
  destruct (gate_fields s1 m) as (G1 & _).
  assert (N4 : bank_nonneg (bk s4)).
  { unfold fd_hook_run in Hhook. destruct (dep_ok && hook_nonempty (fd_hook m)).
    - eapply run_hook_nonneg; eauto. by rewrite G1.
    - injection Hhook as <- <-. by rewrite G1. }
  destruct (dep_ok && hook_ok); [injection H as <- <-; exact N4|].
  apply bind_Some in H as (s5 & H5 & H). apply bind_Some in H as (base & _ & [= <- <-]). cbn.
  unfold fd_reclaim in H5. destruct dep_ok; [|by injection H5 as <-].
  apply bind_Some in H5 as (a & _ & H5). apply bind_Some in H5 as (b1 & Hs & H5).
  apply bind_Some in H5 as (b2 & Hbn & [= <-]). cbn.
  eapply bank_burn_nonneg; [exact Hbn|]. eapply bank_send_nonneg; [exact Hs|exact Hamt|exact N4].
Qed.

Lemma handle_nonneg c m s s' r : handle c s m = Some (s', r) → bank_nonneg (bk s) → bank_nonneg (bk s').
Proof.
  apply (handle_R c (λ s s', bank_nonneg (bk s) → bank_nonneg (bk s'))); [auto|auto|].
  clear. intros s m s' r Hleaf H.
  destruct m as [f|w1 w2 w3 w4|b1 b2 b3 b4|i1 i2|u1 u2|v1 v2 v3|r1 r2|p1 p2 p3|sender inner]; cbn [handle] in H.
  - apply finalize_deposit_tail in H as [[_ ->]|(Hv & _ & _ & H)]; [done|]. eapply fd_tail_nonneg; eauto.
  - eapply withdraw_nonneg; eauto.
  - unfold bank_send_msg in H. destruct (valid_denom b3 && (0 <? b4)) eqn:E; [|discriminate]. cbn [negb] in H.
    apply andb_true_iff in E as [_ E]. apply Z.ltb_lt in E.
    apply bind_Some in H as (b & Hb & [= <- <-]). cbn. intros Hn. eapply bank_send_nonneg; [exact Hb|lia|exact Hn].
  - apply set_bridge_info_Some in H as (_&_&_&->&_). done.
  - apply update_params_Some in H as (_&_&->&_). done.
  - apply add_val_Some in H as (_&?&?&_&_&->&_). done.
  - apply remove_val_Some in H as (_&?&?&_&_&->&_). done.
  - unfold spend_fee_pool in H. destruct (negb (bool_decide (is_Some _))); [discriminate|].
    apply bind_Some in H as (rr & _ & H). destruct (coins_valid p3) eqn:Hcv; [|discriminate]. cbn [negb] in H.
    destruct (negb (is_authority c p1)); [discriminate|]. destruct (blocked c rr); [discriminate|].
    apply bind_Some in H as (b & Hb & [= <- <-]). cbn.
    eapply (foldl_nonneg (λ b cn, bank_send b (feecol c) rr cn.1 cn.2)); [|exact Hb].
    intros b0 cn b0' Hin Hs. eapply bank_send_nonneg; [exact Hs|].
    unfold coins_valid in Hcv. apply andb_true_iff in Hcv as [Hcv _].
    rewrite forallb_forall in Hcv. apply elem_of_list_In in Hin. specialize (Hcv _ Hin).
    apply andb_true_iff in Hcv as [_ Hcv]. apply Z.ltb_lt in Hcv. apply Z.lt_le_incl. exact Hcv.
  - by destruct (Hleaf sender inner).
Qed.

Lemma run_nonneg c h s : bank_nonneg (bk s) → bank_nonneg (bk (run c s h).1).
Proof.
  apply (run_R c (λ s s', bank_nonneg (bk s) → bank_nonneg (bk s'))); [auto|auto|].
  intros ? ? ? ? _. apply handle_nonneg.
Qed.

Lemma nonneg_funds_sane c s m : bank_nonneg (bk s) → funds_sane c s m.
Proof. intros H. split; [apply H|]. intros a _. apply H. Qed.

Lemma reachable_funds_sane c h s m : bank_nonneg (bk s) → funds_sane c (run c s h).1 m.
Proof. intros H. apply nonneg_funds_sane, run_nonneg, H. Qed.
